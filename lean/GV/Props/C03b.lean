import GV.Props.C04b
import GV.Lemmas.C03b
/-
  C03 at the BYTE level — every delivered transaction is labelled with the binlog coordinates where it starts and
  where the next one starts; the start label is the previous end label, or the initial position, or the target of an
  intervening rotation; the end label is the end offset of its commit event in the then-current file; a new stream
  started at the end label of any delivered transaction yields exactly the remaining transactions (DESIGN §7 C03).
  Inputs are exactly the bytes the Spec master (GV/Spec/History.lean) serves; `GV/Props/C03.lean` has the same property
  over already-decoded events.

  Every theorem here is a SHORT COROLLARY of byte-level fidelity for a resumed replica
  (`C01_fidelity_bytes_resume_lands`, Props/C01d) and of `C04_bytes_kept_resumable` (Props/C04b), plus Spec-side list
  reasoning about `W.expectedAux` / `W.endPosAux` (GV/Lemmas/C03b.lean, namespace GV.C03b).  The only parser-side
  fact used besides the refinement theorems is `calls_same_file` (the commit closure keeps the file name).
  Property theorems and non-vacuity examples only.  Vocabulary on top of Props/C04b (runClean, served, keptPos,
  doneCount, Resumable) and Props/C01c, C01d (toTx, posOf, Lands, WFFrom, unitsFrom, MapperAgrees):

    isCommit x     (GV.C02b) the laid-out event x is tagged `.commit _`
    NoCommit mid   no event of `mid` is a commit point
    NoRotate mid   no event of `mid` is tagged `.rotateTo _` (neither a ROTATE event nor the artificial ROTATE the
                   dump thread sends when it moves on to the next file)

  RESULTS (nothing is partial or refuted)
    C03_spec_chain                     Spec side, any event list: the k-th expected transaction is made by the k-th
                                       commit event e — `next` = ⟨e.file, e.next⟩, `now` = the Spec's position after the
                                       events before e —; first-label law; chain law
    C03_bytes_labels                   clean complete run from p: the i-th call carries `posOf` of the i-th expected
                                       transaction's labels; the first call starts at p or at the head ⟨f, 4⟩ of the file
                                       a ROTATE before its commit event names; call i+1 starts at the end label of call
                                       i unless a ROTATE lies between their two commit events, in which case it starts
                                       at ⟨f, 4⟩, f the file that ROTATE names
    C03_bytes_end_label_is_event_end   the end label of the i-th call is ⟨x.file, x.next⟩ for x the i-th commit event
                                       served (explicit witness), and x.file is also the file of its start label
    C03_bytes_resume_at_label          for every i: the `next` label of the i-th delivered transaction is a position
                                       the master can serve from (`Resumable` again); a clean run from it delivers
                                       exactly calls[i+1:] — identical contents and labels — and ends at the same position
  Checked by evaluation before proving (scratch files) on `exHistS` for every i and both start positions.
-/
namespace GV.Props.C03b
open GV GV.M GV.Props.C01 GV.Props.C01b GV.C01c GV.Props.C01c GV.C01d GV.Props.C01d GV.C04b GV.Props.C04b GV.C02b
  GV.C03b

/-- Spec side, for ANY list of laid-out events and start position (derived from `W.expectedAux` alone).
    (1) The k-th expected transaction is made by the k-th commit event e: its end label is ⟨e.file, e.next⟩, its
    timestamp and changes are e's, its start label is the Spec's position after the events before e.
    (2) The first one starts at the start position, or at the head of the file the last ROTATE before e names.
    (3) Chain law: transactions k and k+1 are made by two commit events with no commit point between them; the later
    one starts where the earlier one ends unless a ROTATE lies between the two events — then it starts at ⟨f, 4⟩. -/
theorem C03_spec_chain (l : List W.Laid) (cur : W.Pos) :
    (∀ (k : Nat) (t : W.ETx), (W.expectedAux l cur)[k]? = some t →
      ∃ pre e rest cs, l = pre ++ e :: rest ∧ e.tag = .commit cs ∧ pre.countP isCommit = k ∧
        t = ⟨W.endPosAux pre cur, ⟨e.file, e.next⟩, e.ts, cs⟩) ∧
    (∀ t : W.ETx, (W.expectedAux l cur)[0]? = some t →
      ∃ mid e rest, l = mid ++ e :: rest ∧ isCommit e = true ∧ NoCommit mid ∧ t.next = ⟨e.file, e.next⟩ ∧
        ((NoRotate mid ∧ t.now = cur) ∨ (∃ y ∈ mid, ∃ f, y.tag = .rotateTo f ∧ t.now = ⟨f, 4⟩))) ∧
    (∀ (k : Nat) (a b : W.ETx), (W.expectedAux l cur)[k]? = some a → (W.expectedAux l cur)[k + 1]? = some b →
      ∃ pre ea mid eb rest, l = pre ++ ea :: (mid ++ eb :: rest) ∧ isCommit ea = true ∧ isCommit eb = true ∧
        pre.countP isCommit = k ∧ NoCommit mid ∧ a.next = ⟨ea.file, ea.next⟩ ∧ b.next = ⟨eb.file, eb.next⟩ ∧
        ((NoRotate mid ∧ b.now = a.next) ∨ (∃ y ∈ mid, ∃ f, y.tag = .rotateTo f ∧ b.now = ⟨f, 4⟩))) := by
  refine ⟨?_, ?_, ?_⟩
  · intro k t hk
    obtain ⟨pre, e, rest, cs, h1, h2, h3, h4⟩ := expectedAux_get l cur k t hk
    exact ⟨pre, e, rest, cs, h1, h2, by rw [← expectedAux_length pre cur, h3], h4⟩
  · intro t h0
    obtain ⟨mid, e, rest, cs, h1, h2, h3, h4, h5⟩ := expectedAux_first l cur t h0
    exact ⟨mid, e, rest, h1, (isCommit_iff e).mpr ⟨cs, h2⟩, h3, by rw [h4], h5⟩
  · intro k a b ha hb
    obtain ⟨pre, ea, mid, eb, rest, csa, csb, h1, h2, h3, h4, h5, h6, h7, h8⟩ := expectedAux_chain l cur k a b ha hb
    exact ⟨pre, ea, mid, eb, rest, h1, (isCommit_iff ea).mpr ⟨csa, h2⟩, (isCommit_iff eb).mpr ⟨csb, h3⟩,
      by rw [← expectedAux_length pre cur, h4], h5, h6, h7, h8⟩

/-- C03, the labels.  In a clean complete run from p (any position the master serves from at a unit or a file head):
    the calls are the `toTx` images of the expected transactions, so the i-th call carries `posOf` of the i-th expected
    transaction's two labels, and both labels name the same file; the first call starts at p, or — when a ROTATE
    precedes its commit event — at the head ⟨f, 4⟩ of the file that ROTATE names; and the chain law holds for the
    calls: calls i and i+1 are made by two commit events of what is served with no commit point between them (the
    first of them the i-th commit event served), and call i+1 starts exactly where call i ends, unless a ROTATE lies
    between the two events, in which case it starts at ⟨f, 4⟩ with f the file that ROTATE names. -/
theorem C03_bytes_labels (cfg : W.Cfg) (env : Env) (h : W.History) (p : W.Pos) (hl : Lands cfg h p)
    (hwf : WFFrom cfg h p) (hm : MapperAgrees env (unitsFrom cfg h p)) :
    (runClean cfg env h p).calls = (W.expected cfg h p).map (toTx env.ext) ∧
    (∀ (i : Nat) (t : W.ETx), (W.expected cfg h p)[i]? = some t →
      ∃ tx : Transaction, (runClean cfg env h p).calls[i]? = some tx ∧ tx.now = posOf t.now ∧ tx.next = posOf t.next ∧
        tx.next.file = tx.now.file) ∧
    (∀ x : Transaction, (runClean cfg env h p).calls[0]? = some x →
      ∃ mid e rest, served cfg h p = mid ++ e :: rest ∧ isCommit e = true ∧ NoCommit mid ∧
        x.next = posOf ⟨e.file, e.next⟩ ∧
        ((NoRotate mid ∧ x.now = posOf p) ∨ (∃ r ∈ mid, ∃ f, r.tag = .rotateTo f ∧ x.now = posOf ⟨f, 4⟩))) ∧
    (∀ (i : Nat) (x y : Transaction), (runClean cfg env h p).calls[i]? = some x → (runClean cfg env h p).calls[i + 1]? = some y →
      ∃ pre ea mid eb rest, served cfg h p = pre ++ ea :: (mid ++ eb :: rest) ∧ isCommit ea = true ∧
        isCommit eb = true ∧ pre.countP isCommit = i ∧ NoCommit mid ∧
        x.next = posOf ⟨ea.file, ea.next⟩ ∧ y.next = posOf ⟨eb.file, eb.next⟩ ∧
        ((NoRotate mid ∧ y.now = x.next) ∨ (∃ r ∈ mid, ∃ f, r.tag = .rotateTo f ∧ y.now = posOf ⟨f, 4⟩))) := by
  have hrun : runClean cfg env h p = _ := C01_fidelity_bytes_resume_lands cfg env h p hl hwf hm
  have hcalls : (runClean cfg env h p).calls = (W.expected cfg h p).map (toTx env.ext) := by rw [hrun]
  obtain ⟨_, hfirst, hchain⟩ := C03_spec_chain (served cfg h p) p
  have hget : ∀ (i : Nat) (x : Transaction), (runClean cfg env h p).calls[i]? = some x →
      ∃ t, (W.expected cfg h p)[i]? = some t ∧ x = toTx env.ext t := by
    intro i x hx
    rw [hcalls, List.getElem?_map] at hx
    cases ht : (W.expected cfg h p)[i]? with
    | none => rw [ht] at hx; cases hx
    | some t => rw [ht] at hx; exact ⟨t, rfl, by simpa using hx.symm⟩
  refine ⟨hcalls, ?_, ?_, ?_⟩
  · intro i t hi
    have hc : (runClean cfg env h p).calls[i]? = some (toTx env.ext t) := by
      rw [hcalls, List.getElem?_map, hi]; rfl
    exact ⟨_, hc, rfl, rfl, calls_same_file env _ _ _ _ (List.mem_of_getElem? hc)⟩
  · intro x hx
    obtain ⟨t, ht, rfl⟩ := hget 0 x hx
    obtain ⟨mid, e, rest, h1, h2, h3, h4, h5⟩ := hfirst t ht
    refine ⟨mid, e, rest, h1, h2, h3, by simp [toTx, h4], ?_⟩
    rcases h5 with ⟨h6, h7⟩ | ⟨r, hr, f, h6, h7⟩
    · exact Or.inl ⟨h6, by simp [toTx, h7]⟩
    · exact Or.inr ⟨r, hr, f, h6, by simp [toTx, h7]⟩
  · intro i x y hx hy
    obtain ⟨a, ha, rfl⟩ := hget i x hx
    obtain ⟨b, hb, rfl⟩ := hget (i + 1) y hy
    obtain ⟨pre, ea, mid, eb, rest, h1, h2, h3, h4, h5, h6, h7, h8⟩ := hchain i a b ha hb
    refine ⟨pre, ea, mid, eb, rest, h1, h2, h3, h4, h5, by simp [toTx, h6], by simp [toTx, h7], ?_⟩
    rcases h8 with ⟨g1, g2⟩ | ⟨r, hr, f, g1, g2⟩
    · exact Or.inl ⟨g1, by simp [toTx, g2]⟩
    · exact Or.inr ⟨r, hr, f, g1, by simp [toTx, g2]⟩

/-- C03, the end label.  The i-th expected transaction is made by the i-th commit event x of what the master serves
    (explicit witness: `served = pre ++ x :: rest` with i commit events in `pre`): its end label is ⟨x.file, x.next⟩ —
    the end offset of its commit event, in the file that event lies in —, that file is also the file of its start
    label (the then-current file), timestamp and changes are x's; and the i-th call of a clean run carries exactly
    these labels. -/
theorem C03_bytes_end_label_is_event_end (cfg : W.Cfg) (env : Env) (h : W.History) (p : W.Pos) (hl : Lands cfg h p)
    (hwf : WFFrom cfg h p) (hm : MapperAgrees env (unitsFrom cfg h p)) (i : Nat) (t : W.ETx)
    (hi : (W.expected cfg h p)[i]? = some t) :
    ∃ pre x rest cs, served cfg h p = pre ++ x :: rest ∧ x ∈ served cfg h p ∧ x.tag = .commit cs ∧
      pre.countP isCommit = i ∧
      t.next = ⟨x.file, x.next⟩ ∧ t.now.file = x.file ∧ t.now = W.endPosAux pre p ∧ t.ts = x.ts ∧ t.changes = cs ∧
      ∃ tx : Transaction, (runClean cfg env h p).calls[i]? = some tx ∧ tx.next = ⟨x.file, (x.next : Int)⟩ ∧ tx.now.file = x.file ∧
        tx.now = posOf t.now := by
  obtain ⟨_, hlab, _, _⟩ := C03_bytes_labels cfg env h p hl hwf hm
  obtain ⟨tx, h1, h2, h3, h4⟩ := hlab i t hi
  obtain ⟨pre, x, rest, cs, g1, g2, g3, g4⟩ := (C03_spec_chain (served cfg h p) p).1 i t hi
  have hfile : t.now.file = x.file := by
    have : (posOf t.next).file = (posOf t.now).file := by rw [← h2, ← h3]; exact h4
    have h5 : t.next.file = t.now.file := this
    rw [← h5, g4]
  refine ⟨pre, x, rest, cs, g1, by rw [g1]; simp, g2, g3, by rw [g4], hfile, by rw [g4], by rw [g4], by rw [g4],
    tx, h1, ?_, ?_, h2⟩
  · rw [h3, g4]; rfl
  · rw [h2]; exact hfile

/-- C03, resuming at a label.  For EVERY i: the end label of the i-th delivered transaction is a position the master
    can serve from, satisfying all the hypotheses again; a clean complete run started there delivers exactly the calls
    of the original run from the (i+1)-th on — identical contents and labels, none skipped, none repeated — accepts
    them all, and ends at the same position without error or crash. -/
theorem C03_bytes_resume_at_label (cfg : W.Cfg) (env : Env) (h : W.History) (p : W.Pos) (hr : Resumable cfg env h p)
    (i : Nat) (t : W.ETx) (hi : (W.expected cfg h p)[i]? = some t) :
    (runClean cfg env h p).calls[i]? = some (toTx env.ext t) ∧
    Resumable cfg env h t.next ∧
    W.expected cfg h t.next = (W.expected cfg h p).drop (i + 1) ∧
    runClean cfg env h t.next = ⟨(runClean cfg env h p).calls.drop (i + 1), (runClean cfg env h p).calls.drop (i + 1),
      (runClean cfg env h p).pos, false, false⟩ ∧
    (runClean cfg env h p).calls = (runClean cfg env h p).calls.take (i + 1) ++ (runClean cfg env h t.next).calls := by
  have hrun : runClean cfg env h p = _ := C01_fidelity_bytes_resume_lands cfg env h p hr.lands hr.wf hr.mapper
  obtain ⟨pre, e, rest, cs, h1, h2, h3, h4⟩ := expectedAux_get (served cfg h p) p i t hi
  obtain ⟨hk, hd⟩ := take_through_commit pre e rest cs p h2
  rw [← h1] at hk hd
  have hkept : keptPos cfg h p (pre.length + 1) = t.next := by rw [h4]; exact hk
  have hdone : doneCount cfg h p (pre.length + 1) = i + 1 := by rw [← h3]; exact hd
  obtain ⟨hr', hexp, hend⟩ := C04_bytes_kept_resumable cfg env h p hr (pre.length + 1)
  rw [hkept] at hr' hexp hend
  rw [hdone] at hexp
  have hrun' : runClean cfg env h t.next = _ :=
    C01_fidelity_bytes_resume_lands cfg env h t.next hr'.lands hr'.wf hr'.mapper
  refine ⟨by rw [hrun]; simp [hi], hr', hexp, ?_, ?_⟩
  · rw [hrun', hrun, hexp, hend, List.map_drop]
  · rw [hrun', hrun, hexp]
    simp only
    rw [← List.map_take, ← List.map_append, List.take_append_drop]

/-! ### non-vacuity: `exHistS` of Props/C04b — eight units in two files, five transactions, a ROTATE between the
    second and the third -/

example := C03_spec_chain (served {} exHistS exP0) exP0
example := C03_bytes_labels {} exEnv exHistS exP0 exResumable.lands exResumable.wf exResumable.mapper

/-- the labels of the five expected transactions: the chain 4 → 387 → 435 in the first file, then — across the
    ROTATE — ⟨bin.000002, 4⟩ → 223 → 442 → 490 -/
theorem exLabels : (W.expected {} exHistS exP0).map (fun t => (t.now, t.next))
    = [(⟨W.firstFile, 4⟩, ⟨W.firstFile, 387⟩), (⟨W.firstFile, 387⟩, ⟨W.firstFile, 435⟩),
       (⟨asc "bin.000002", 4⟩, ⟨asc "bin.000002", 223⟩), (⟨asc "bin.000002", 223⟩, ⟨asc "bin.000002", 442⟩),
       (⟨asc "bin.000002", 442⟩, ⟨asc "bin.000002", 490⟩)] := by decide

/-- the second transaction (index 1): `now` = exP1, `next` = offset 435 of the first file -/
theorem exSecond : (W.expected {} exHistS exP0)[1]? = some ⟨exP1, ⟨W.firstFile, 435⟩, 81, [.stmt exDdl]⟩ := by decide

example := C03_bytes_end_label_is_event_end {} exEnv exHistS exP0 exResumable.lands exResumable.wf exResumable.mapper
  1 _ exSecond
/-- resuming at the end label of the second transaction — the position of the ROTATE event — delivers the other three -/
example := C03_bytes_resume_at_label {} exEnv exHistS exP0 exResumable 1 _ exSecond
example : (W.expected {} exHistS ⟨W.firstFile, 435⟩).length = 3 := by decide

set_option maxRecDepth 100000 in
/-- … computed (kernel, labels): the run from ⟨bin.000001, 435⟩ makes the last three calls of the run from the head -/
example : (runClean {} exEnv exHistS ⟨W.firstFile, 435⟩).calls.map exLabel
    = ((runClean {} exEnv exHistS exP0).calls.drop 2).map exLabel := by decide

-- … and the full transactions (evaluator)
#guard (runClean {} exEnv exHistS ⟨W.firstFile, 435⟩).calls == (runClean {} exEnv exHistS exP0).calls.drop 2

end GV.Props.C03b
