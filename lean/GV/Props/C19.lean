import GV.Model.Gtid
import GV.Model.Header
import GV.Spec.Events
import GV.Lemmas.Dec
import GV.Lemmas.C19
import GV.Expect.C19
/-
  C19 — GTIDs survive every encoding; MariaDB sets keep one position per domain (DESIGN §7 C19).
  Property theorems only; helper lemmas in GV/Lemmas/C19.lean.
-/
namespace GV.Props.C19
open GV GV.M

theorem C19_sid (sid : Bytes) (h : sid.length = 16) : parseSID (sidString sid) = some sid := by
  exact parseSID_sidString sid h

theorem C19_gtid56_text (g : Gtid56) (h : g.sid.length = 16) (hs : -(2 ^ 63 : Int) ≤ g.seq ∧ g.seq < 2 ^ 63) :
    parseGtid56 (gtid56String g) = some g := by
  exact parseGtid56_string g h hs

theorem C19_maria_text (g : GtidMaria) (hd : g.domain < 2 ^ 32) (hs : g.server < 2 ^ 32) (hq : g.seq < 2 ^ 64) :
    parseGtidMaria (gtidMariaString g) = some g := by
  exact parseGtidMaria_string g hd hs hq

/-- the flavour-tagged encoding round-trips for both flavours -/
theorem C19_tagged (g : AnyGtid)
    (h : match g with
      | .m56 x => x.sid.length = 16 ∧ -(2 ^ 63 : Int) ≤ x.seq ∧ x.seq < 2 ^ 63
      | .maria x => x.domain < 2 ^ 32 ∧ x.server < 2 ^ 32 ∧ x.seq < 2 ^ 64) :
    decodeGTID (encodeGTID g) = some g := by
  cases g with
  | m56 x =>
    simp only [decodeGTID, encodeGTID, anyFlavor, anyString, splitFirst_flavor56, parseGTID, if_true]
    rw [parseGtid56_string x h.1 h.2]; rfl
  | maria x =>
    simp only [decodeGTID, encodeGTID, anyFlavor, anyString, splitFirst_flavorMaria, parseGTID,
      if_neg flavorMaria_ne_56, if_true]
    rw [parseGtidMaria_string x h.1 h.2.1 h.2.2]; rfl

/-- well-formed 5.6 set: distinct 16-byte UUIDs, non-empty interval lists with 1 ≤ start ≤ stop < 2^63 - 1, sorted,
    disjoint, merged -/
def WFIvs : List Iv → Prop
  | [] => True
  | [a] => 1 ≤ a.start ∧ a.start ≤ a.stop ∧ a.stop < 2 ^ 63 - 1
  | a :: b :: r => 1 ≤ a.start ∧ a.start ≤ a.stop ∧ a.stop + 2 ≤ b.start ∧ WFIvs (b :: r)

structure WFSet (s : Set56) : Prop where
  nodup : (s.map (·.1)).Nodup
  sidlen : ∀ p ∈ s, p.1.length = 16
  nonempty : ∀ p ∈ s, p.2 ≠ []
  ivs : ∀ p ∈ s, WFIvs p.2

theorem wfIvs_iff (l : List Iv) : WFIvs l ↔ GV.WFIvs0 l := by
  induction l with
  | nil => exact Iff.rfl
  | cons a r ih =>
    cases r with
    | nil => exact Iff.rfl
    | cons b r' => simp only [WFIvs, GV.WFIvs0, ih]

theorem wfSet_parts (s : Set56) (h : WFSet s) : ∀ p ∈ s, p.1.length = 16 ∧ p.2 ≠ [] ∧ GV.WFIvs0 p.2 :=
  fun p hp => ⟨h.sidlen p hp, h.nonempty p hp, (wfIvs_iff p.2).mp (h.ivs p hp)⟩

/-- both decoders return the set rebuilt key by key, which is the same set -/
theorem set56_rebuilt (s : Set56) :
    ∃ s' : Set56, s' = (s.sids.map fun k => (k, s.get k)) ∧ (∀ sid, s'.get sid = s.get sid) ∧ s'.equal s = true :=
  ⟨_, rfl, (set56_rebuild s).1, (set56_rebuild s).2⟩

/-- print → parse returns an equal set (including the empty set) -/
theorem C19_set56_text (s : Set56) (h : WFSet s) :
    ∃ s', parseSet56 (set56String s) = some s' ∧ (∀ sid, s'.get sid = s.get sid) ∧ s'.equal s = true := by
  obtain ⟨s', hs', hget, heq⟩ := set56_rebuilt s
  exact ⟨s', by rw [hs']; exact parseSet56_string s h.nodup (wfSet_parts s h), hget, heq⟩

/-- MariaDB sets (non-empty) -/
theorem C19_set_maria_text (s : SetMaria) (hne : s ≠ [])
    (h : ∀ g ∈ s, g.domain < 2 ^ 32 ∧ g.server < 2 ^ 32 ∧ g.seq < 2 ^ 64) :
    parseSetMaria (setMariaString s) = some s := by
  exact parseSetMaria_string s hne h

/- C19_sidblock: the binary SID-block form decodes back to an equal set, whatever follows it.
   FULL STATEMENT (false as written: nothing in `WFSet` bounds the number of SIDs, and the block's SID count is an
   8-byte field.  Counterexample: any well-formed `s` with `s.length = 2 ^ 64` distinct SIDs (there are 2^128
   16-byte SIDs): `sidBlock s` starts with `ofLE 8 (2^64)` = eight zero bytes, `fromSidBlock` reads n = 0 and
   returns `some []`, and `[].equal s = false`.  Not reachable in Go (a map cannot hold 2^64 entries).

theorem C19_sidblock (s : Set56) (h : WFSet s) (extra : Bytes) :
    ∃ s', fromSidBlock (sidBlock s ++ extra) = some s' ∧ (∀ sid, s'.get sid = s.get sid) ∧ s'.equal s = true
-/
/-- corrected version: the added hypothesis is `s.length < 2 ^ 64` (the SID count fits its 8-byte field); the bound
    on the per-SID interval count is derived from `WFIvs` -/
theorem C19_sidblock_partial (s : Set56) (h : WFSet s) (hlen : s.length < 2 ^ 64) (extra : Bytes) :
    ∃ s', fromSidBlock (sidBlock s ++ extra) = some s' ∧ (∀ sid, s'.get sid = s.get sid) ∧ s'.equal s = true := by
  obtain ⟨s', hs', hget, heq⟩ := set56_rebuilt s
  exact ⟨s', by rw [hs']; exact fromSidBlock_sidBlock s h.nodup hlen (wfSet_parts s h) extra, hget, heq⟩

/-- GTID_LOG_EVENT body (flags, SID, GNO, whatever newer servers append) decodes to the identifier written -/
theorem C19_gtid_event (f : Format) (hf : f.headerLength = 19) (hdr : Bytes) (hh : hdr.length = 19)
    (flags : Nat) (sid : Bytes) (hs : sid.length = 16) (gno : Nat) (hg : gno < 2 ^ 63) (extra : Bytes) :
    gtid56 f (hdr ++ W.gtidBody flags sid gno extra) = .ok (sid, (gno : Int)) := by
  unfold gtid56
  have h1 : Bytes.sliceFrom (hdr ++ W.gtidBody flags sid gno extra) f.headerLength
      = .ok (W.gtidBody flags sid gno extra) := by
    simp [Bytes.sliceFrom, hf, ← hh]
  rw [h1]
  simp only [Res.ok_bind, W.gtidBody]
  have h2 : Bytes.slice (UInt8.ofNat flags :: (sid ++ Bytes.ofLE 8 gno ++ extra)) 1 17 = .ok sid := by
    have := slice_mid' [UInt8.ofNat flags] sid (Bytes.ofLE 8 gno ++ extra) 1 17 rfl (by simp [hs])
    simpa using this
  have h3 : readLE (UInt8.ofNat flags :: (sid ++ Bytes.ofLE 8 gno ++ extra)) 17 8 = .ok (gno % 256 ^ 8) := by
    have := readLE_mid (UInt8.ofNat flags :: sid) extra 8 gno
    simpa [hs] using this
  rw [h2, h3]
  simp only [Res.ok_bind, Res.pure_eq]
  congr 2
  unfold i64 toSigned; simp only [Nat.reducePow, Nat.reduceSub] at hg ⊢; omega

/-- MariaDB GTID event: sequence, domain, server id (from the header), and the standalone flag -/
theorem C19_maria_gtid_event (f : Format) (hf : f.headerLength = 19) (m : W.EvMeta) (start seq domain flags2 : Nat)
    (hseq : seq < 2 ^ 64) (hd : domain < 2 ^ 32) (hsid : m.sid < 2 ^ 32) (hfl : flags2 < 256) (extra : Bytes) :
    gtidMaria f (W.event none m 162 start (W.mariaGtidBody seq domain flags2 extra)).1
      = .ok (domain, m.sid, seq, flags2 % 2 == 0) := by
  exact gtidMaria_event f hf m start seq domain flags2 hseq hd hsid hfl extra

/-- at most one position per replication domain -/
def OnePerDomain (s : SetMaria) : Prop := (s.map (·.domain)).Nodup

theorem C19_maria_one_per_domain (s : SetMaria) (h : OnePerDomain s) (g : GtidMaria) : OnePerDomain (s.addGtid g) := by
  unfold OnePerDomain SetMaria.addGtid at *
  split
  · rw [addGtid_go_domains]; exact h
  · rename_i hn
    simp only [List.map_append, List.map_cons, List.map_nil]
    rw [List.nodup_append]
    refine ⟨h, by simp, ?_⟩
    intro a ha b hb
    simp at hb; subst hb
    intro e; subst e
    simp at ha hn
    obtain ⟨x, hx, hxd⟩ := ha
    exact hn x hx hxd

/-- containment compares sequence numbers within the domain -/
theorem C19_maria_contains (s : SetMaria) (h : OnePerDomain s) (g : GtidMaria) :
    s.containsGtid g = true ↔ ∃ x ∈ s, x.domain = g.domain ∧ g.seq ≤ x.seq := by
  unfold SetMaria.containsGtid
  constructor
  · intro hc
    split at hc
    · rename_i x hx
      have hm := List.mem_of_find?_eq_some hx
      have hp := List.find?_some hx
      exact ⟨x, hm, by simpa using hp, by simpa using hc⟩
    · cases hc
  · rintro ⟨x, hx, hxd, hq⟩
    have := maria_find_of_mem s h x hx
    rw [hxd] at this
    rw [this]; simpa using hq

/-- adding keeps every other domain's position and moves the GTID's domain forward, never backward -/
theorem C19_maria_add (s : SetMaria) (h : OnePerDomain s) (g : GtidMaria) :
    (∀ x ∈ s, x.domain ≠ g.domain → x ∈ s.addGtid g) ∧
    (∃ y ∈ s.addGtid g, y.domain = g.domain ∧ g.seq ≤ y.seq) ∧
    (∀ y ∈ s.addGtid g, y = g ∨ y ∈ s) := by
  have _ := h   -- distinct domains are not needed for these three facts
  unfold SetMaria.addGtid
  split
  · rename_i ha
    obtain ⟨h1, h2, h3⟩ := addGtid_go_spec g s
    refine ⟨h1, h2 ?_, h3⟩
    simpa using ha
  · refine ⟨?_, ⟨g, by simp, rfl, Nat.le_refl _⟩, ?_⟩
    · intro x hx _; simp [hx]
    · intro y hy; simp at hy; rcases hy with hy | hy
      · exact Or.inr hy
      · exact Or.inl hy

/-! non-vacuity -/
example : WFSet [(List.replicate 16 7, [⟨1, 3⟩, ⟨5, 5⟩])] :=
  ⟨by decide, by intro p hp; simp at hp; subst hp; rfl, by intro p hp; simp at hp; subst hp; simp,
   by intro p hp; simp at hp; subst hp; simp [WFIvs]⟩
example : OnePerDomain [⟨1, 1, 5⟩, ⟨2, 1, 9⟩] := by unfold OnePerDomain; decide

end GV.Props.C19
