import GV.Spec.JsonText
import GV.Lemmas.Dec
import GV.Lemmas.C20
import GV.Expect.C20
/-
  C20 — transactions always serialise to well-formed, structure-preserving JSON (DESIGN §7 C20).
  Property theorems only; helper lemmas in GV/Lemmas/C20.lean.
  `M.marshalTx` models the MarshalJSON methods over encoding/json (byte-for-byte compared with the real output by
  the correspondence run); `JT.parse` is an independent strict JSON reader; `JT.shapeTx` the structure demanded.
  Partial, named facet: encoding/json's reflection / framing and `time.Time.String()` are Go's runtime; the time text
  is the parameter `fmtTime` (any bytes).
-/
namespace GV.Props.C20
open GV GV.M GV.JT

/-- the escaper always produces a legal JSON string body: no raw quote, no raw control byte, only legal escapes,
    valid UTF-8 — for arbitrary input bytes (quotes, controls, invalid / truncated / overlong UTF-8, surrogates) -/
theorem C20_escape_wellformed (s : Bytes) : strBodyOK (jsonEscape s) = true ∧ validUtf8 (jsonEscape s) = true := by
  refine ⟨?_, validUtf8_escape s⟩
  have := (Frag.escape s).sb []
  simpa [strBodyOK] using this

/-- a reader gets back exactly the bytes of valid UTF-8 data, and U+FFFD for each invalid byte otherwise -/
theorem C20_escape_roundtrip (s : Bytes) : unescape (jsonEscape s) = some (sanitize s) := by
  have := (Frag.escape s).un []
  simpa [unescape] using this

theorem C20_valid_verbatim (s : Bytes) (h : validUtf8 s = true) : sanitize s = s :=
  sanitize_valid s h

/-- SQL NULL is rendered as JSON null, distinct from the empty string -/
theorem C20_null_vs_empty (c : JCol) :
    (∃ pre, marshalCol { c with data := none } = pre ++ asc "\"data\":null}" ∧
            marshalCol { c with data := some [] } = pre ++ asc "\"data\":\"\"}") ∧
    shapeCol { c with data := none } ≠ shapeCol { c with data := some [] } := by
  refine ⟨⟨asc "{" ++ jkey "filed" ++ jstr c.filed ++ asc "," ++ jkey "type" ++ jstr (asc (columnTypeName c.typ)) ++
      asc "," ++ jkey "isEmpty" ++ (if c.isEmpty then asc "true" else asc "false") ++ asc ",", ?_, ?_⟩, ?_⟩
  · have : jkey "data" ++ (asc "null" ++ asc "}") = asc "\"data\":null}" := by decide
    simp only [marshalCol, List.append_assoc, this]
  · have : jkey "data" ++ (jstr [] ++ asc "}") = asc "\"data\":\"\"}" := by decide
    simp only [marshalCol, List.append_assoc, this]
  · intro h
    simp only [shapeCol, jstrV] at h
    injection h with h
    simp at h

/-- a column parses back to its name, type name, absent flag and data -/
theorem C20_column_structure (c : JCol) (rest : Bytes) (hr : rest.head? ≠ some 0x22 ∨ True) :
    ∃ fuel, ∀ f, fuel ≤ f → parseJV f (marshalCol c ++ rest) = some (shapeCol c, rest) := by
  have _ := hr
  exact ⟨(marshalCol c).length + 1, fun f hf => PJ_col c f rest (by omega)⟩

/-- Serialising any transaction yields well-formed JSON that parses back to exactly its structure: both positions,
    event kinds and order, table names, SQL text, and per column name, type name, absent flag and data. -/
theorem C20_structure (fmtTime : Int → Bytes) (t : JTx) : parse (marshalTx fmtTime t) = some (shapeTx fmtTime t) :=
  parse_of_PJ (PJ_tx fmtTime t)

/-! non-vacuity -/
example : strBodyOK (jsonEscape [0, 34, 92, 200, 0xe2, 0x80, 0xa8]) = true := by decide

end GV.Props.C20
