import GV.Props.C04b
import GV.Lemmas.C02b
/-
  C02 at the BYTE level — the handler is invoked only at commit points; the changes of a transaction arrive together,
  those of a rolled-back one never; nothing is delivered twice, moved across a commit point or delivered before its
  commit event has been read; ignorable events never alter the grouping (DESIGN §7 C02).  Inputs are exactly the bytes
  the Spec master (GV/Spec/History.lean) serves; `GV/Props/C02.lean` has the same property over already-decoded events.

  Every theorem here is a SHORT COROLLARY of the byte-level refinement theorems — `C04_bytes_outcome` (Props/C04b: the
  exact outcome of any attempt, any handler, any cut, any ending, is `specOut` on the events that arrived) and
  `C01_fidelity_bytes` / `C01_fidelity_bytes_resume_lands` (Props/C01c, C01d) — plus Spec-side list reasoning about
  `W.expectedAux` / `W.layoutAux` (GV/Lemmas/C02b.lean, namespace GV.C02b).  The parser is never unfolded here.
  Property theorems and non-vacuity examples only.  Vocabulary on top of Props/C04b (Attempt, runAttempt, runClean,
  EndsWith, served, preamble, keptPos, doneCount, Resumable) and Props/C01c, C01d (toTx, WFHist, MapperAgrees, Lands,
  WFFrom, unitsFrom):

    isCommit x          the laid-out event x is tagged `.commit _` (XID, COMMIT / ROLLBACK statement, autocommitted
                        change, DDL / DML statement outside a transaction)
    content t           (t.ts, t.changes) of an expected transaction: everything but the labels
    txContent tx        (tx.timestamp, tx.events) of a delivered transaction
    groupTx E g         (g.1, g.2.map (seOfChange E)): what a group must be delivered as
    unitGroups u        what a unit gives rise to, labels aside — a function of the unit alone:
                          .tx _ cs close ts → [(ts, W.delivered close cs)]   (`W.delivered`: [] for ROLLBACK, else cs)
                          .ddl s / .stmtDML s → [(s.ts, [.stmt s])],  .autoRows c → [(c.ts, [.rows c])],  others → []
    commitGroups es     (ts, cs) of the events of `es` tagged `.commit cs`, in order
    Ignorable u         u is .gtid / .anonGtid / .prevGtids / .heartbeat / .unknownEvent / .unknownStmt

  RESULTS (nothing is partial or refuted)
    C02_bytes_vocabulary          doneCount = number of commit-tagged events among the first m served; the first
                                  doneCount expected transactions are those of these m events
    C02_bytes_not_before_commit   ANY handler, cut, ending: the calls are (the toTx images of) the first n expected
                                  transactions with n ≤ the number of commit events among the events that arrived; with a
                                  handler that accepts everything n is exactly that number
    C02_bytes_monotone            ANY handler (the same for both runs): cut at k ≤ k', whatever the two endings, the
                                  calls of the shorter run are a prefix of the calls of the longer one
    C02_bytes_grouping(_head)     clean complete run: timestamps and StreamEvents of the calls are exactly those of the
                                  units' groups, in order — one transaction per BEGIN…XID/COMMIT with all its changes,
                                  one per statement / rows change outside a transaction, an empty one per ROLLBACK,
                                  nothing for any other unit
    C02_bytes_rollback_empty      a ROLLBACK-closed unit has exactly one commit point, carrying no changes; the handler
                                  gets exactly one transaction for it, without events
    C02_bytes_ignorable           inserting an ignorable unit anywhere leaves timestamps and contents of all delivered
                                  transactions unchanged (the labels shift).  Both histories are asked to be well-formed
                                  (`WFHist` bounds the offsets of the layout, and the two layouts differ)
  In-transaction noise cannot be expressed in the Spec's grammar (`W.Change` is rows / statement only); for decoded
  events see `C02_ignorable_in_tx` in Props/C02.lean.
  Checked by evaluation before proving (scratch files): the statements of not_before_commit / monotone on `exHistS` for
  every cut, handlers rejecting the j-th call, two endings; grouping on `exHistS` from exP0 and exP1.
-/
namespace GV.Props.C02b
open GV GV.M GV.Props.C01 GV.Props.C01b GV.C01c GV.Props.C01c GV.C01d GV.Props.C01d GV.C04b GV.Props.C04b GV.C02b

/-- the vocabulary, pinned to the Spec's functions: `doneCount` counts the commit-tagged events among the first m
    events served, and the first `doneCount` expected transactions are exactly those of these m events -/
theorem C02_bytes_vocabulary (cfg : W.Cfg) (h : W.History) (p : W.Pos) (m : Nat) :
    doneCount cfg h p m = ((served cfg h p).take m).countP isCommit ∧
    (W.expected cfg h p).take (doneCount cfg h p m) = W.expectedAux ((served cfg h p).take m) p ∧
    doneCount cfg h p m ≤ (W.expected cfg h p).length ∧
    (∀ x : W.Laid, isCommit x = true ↔ ∃ cs, x.tag = .commit cs) := by
  refine ⟨expectedAux_length _ _, (expected_split cfg h p m).1.symm, doneCount_le cfg h p m, ?_⟩
  intro x
  unfold isCommit
  cases x.tag <;> simp

/-- C02, nothing before its commit event.  For ANY handler, ANY cut of the served packets and ANY quiet ending: the
    calls made are the `toTx` images of the first n expected transactions — in order, complete, none twice — where n
    is at most the number of commit events among the events that arrived (`doneCount`): a transaction is never handed
    over before its commit event has been read.  The accepted calls are a prefix of the calls; no crash.  With a handler
    that accepts everything n is exactly that number, every call is accepted, the error flag is the ending's and the
    position is the Spec's after those events. -/
theorem C02_bytes_not_before_commit (cfg : W.Cfg) (env : Env) (h : W.History) (p : W.Pos) (hl : Lands cfg h p)
    (hwf : WFFrom cfg h p) (hm : MapperAgrees env (unitsFrom cfg h p))
    (a : Attempt) (e : Bool) (ht : EndsWith env e a.tail) :
    ∃ n, n ≤ doneCount cfg h p (a.cut - preamble cfg h p) ∧
      (runAttempt cfg env h a p).calls = ((W.expected cfg h p).take n).map (toTx env.ext) ∧
      (runAttempt cfg env h a p).accepted <+: (runAttempt cfg env h a p).calls ∧
      (runAttempt cfg env h a p).crash = false ∧
      ((∀ tx, a.handler tx = true) →
        n = doneCount cfg h p (a.cut - preamble cfg h p) ∧
        (runAttempt cfg env h a p).accepted = (runAttempt cfg env h a p).calls ∧
        (runAttempt cfg env h a p).err = e ∧
        (runAttempt cfg env h a p).pos = posOf (keptPos cfg h p (a.cut - preamble cfg h p))) := by
  have hout : runAttempt cfg env h a p = _ := C04_bytes_outcome cfg env h p hl hwf hm a.handler a.cut e a.tail ht
  have hsplit := (expected_split cfg h p (a.cut - preamble cfg h p)).1
  rw [hout]
  by_cases hall : ∀ tx, a.handler tx = true
  · rw [specOut_acceptAll env.ext a.handler hall e]
    refine ⟨doneCount cfg h p (a.cut - preamble cfg h p), Nat.le_refl _, by rw [hsplit], List.prefix_refl _, rfl,
      fun _ => ⟨rfl, rfl, rfl, rfl⟩⟩
  · obtain ⟨n, h1, h2, h3, h4, _⟩ := specOut_calls env.ext a.handler e ((served cfg h p).take (a.cut - preamble cfg h p)) p
    have h1' : n ≤ doneCount cfg h p (a.cut - preamble cfg h p) := h1
    refine ⟨n, h1', ?_, h3, h4, fun hh => absurd hh hall⟩
    rw [h2, hsplit, List.take_take, Nat.min_eq_left h1']

/-- C02, nothing delivered is ever changed, moved or repeated by reading further.  Same handler (ANY predicate), the
    served packets cut at k ≤ k', whatever the two endings: the calls of the shorter run are a prefix of the calls of
    the longer one. -/
theorem C02_bytes_monotone (cfg : W.Cfg) (env : Env) (h : W.History) (p : W.Pos) (hl : Lands cfg h p)
    (hwf : WFFrom cfg h p) (hm : MapperAgrees env (unitsFrom cfg h p))
    (acc : Transaction → Bool) (k k' : Nat) (hk : k ≤ k') (e e' : Bool) (tail tail' : List Input)
    (ht : EndsWith env e tail) (ht' : EndsWith env e' tail') :
    (runAttempt cfg env h ⟨acc, k, tail⟩ p).calls <+: (runAttempt cfg env h ⟨acc, k', tail'⟩ p).calls := by
  have h1 : runAttempt cfg env h ⟨acc, k, tail⟩ p = _ := C04_bytes_outcome cfg env h p hl hwf hm acc k e tail ht
  have h2 : runAttempt cfg env h ⟨acc, k', tail'⟩ p = _ := C04_bytes_outcome cfg env h p hl hwf hm acc k' e' tail' ht'
  rw [h1, h2]
  exact specOut_calls_mono env.ext acc e e' (served cfg h p) p _ _ (Nat.sub_le_sub_right hk _)

/-- C02, the grouping (Spec side + replica side).  From any position where the master starts serving at a unit or a
    file head: timestamps and changes of the expected transactions are exactly the groups of the units served, in
    order; and the clean complete run calls the handler with exactly these — one transaction per BEGIN … XID / COMMIT
    unit carrying all its changes, one per statement or rows change logged outside BEGIN … COMMIT, an empty one per
    ROLLBACK-closed unit, nothing for any other unit. -/
theorem C02_bytes_grouping (cfg : W.Cfg) (env : Env) (h : W.History) (p : W.Pos) (hl : Lands cfg h p)
    (hwf : WFFrom cfg h p) (hm : MapperAgrees env (unitsFrom cfg h p)) :
    (W.expected cfg h p).map content = (unitsFrom cfg h p).flatMap unitGroups ∧
    (runClean cfg env h p).calls.map txContent = ((unitsFrom cfg h p).flatMap unitGroups).map (groupTx env.ext) ∧
    (runClean cfg env h p).accepted = (runClean cfg env h p).calls ∧ (runClean cfg env h p).err = false := by
  have hrun : runClean cfg env h p = _ := C01_fidelity_bytes_resume_lands cfg env h p hl hwf hm
  have hg := expected_groups_lands cfg h p hl
  refine ⟨hg, ?_, by rw [hrun], by rw [hrun]⟩
  rw [hrun, ← hg]
  simp only [List.map_map]
  rfl

/-- … from the head of the log, with the hypotheses of `C01_fidelity_bytes`: every unit of the history counts -/
theorem C02_bytes_grouping_head (cfg : W.Cfg) (env : Env) (h : W.History) (hwf : WFHist cfg h)
    (hm : MapperAgrees env h) :
    (W.expected cfg h ⟨W.firstFile, 4⟩).map content = h.flatMap unitGroups ∧
    (parseEvents env (fun _ => true) (PState.init ⟨W.firstFile, 4⟩)
        ((W.serve cfg h ⟨W.firstFile, 4⟩).map Input.event ++ [Input.closed])).calls.map txContent
      = (h.flatMap unitGroups).map (groupTx env.ext) := by
  have hg := expected_groups_head cfg h
  refine ⟨hg, ?_⟩
  rw [C01_fidelity_bytes cfg env h hwf hm, ← hg]
  simp only [List.map_map]
  rfl

/-- C02, ROLLBACK.  Among the events of a unit closed by ROLLBACK exactly one is a commit point and it carries NO
    changes (whatever the unit's changes `cs`); so in a history h₁ ++ unit :: h₂ the unit contributes exactly one
    expected transaction — between those of h₁ and those of h₂ — and it is empty; and the handler of a replica run from
    the head of the log gets exactly that: the call at that index has the unit's timestamp and no events (its labels
    are the `posOf` of the expected ones: an empty transaction that advances the position). -/
theorem C02_bytes_rollback_empty (cfg : W.Cfg) (env : Env) (h₁ h₂ : W.History) (b : Bytes) (cs : List W.Change)
    (q : Bytes) (ts : Nat) (hwf : WFHist cfg (h₁ ++ .tx b cs (.rollback q) ts :: h₂))
    (hm : MapperAgrees env (h₁ ++ .tx b cs (.rollback q) ts :: h₂)) :
    commitGroups (W.unitEvs cfg (.tx b cs (.rollback q) ts)) = [(ts, [])] ∧
    (W.expected cfg (h₁ ++ .tx b cs (.rollback q) ts :: h₂) ⟨W.firstFile, 4⟩).map content
      = h₁.flatMap unitGroups ++ (ts, []) :: h₂.flatMap unitGroups ∧
    (parseEvents env (fun _ => true) (PState.init ⟨W.firstFile, 4⟩)
        ((W.serve cfg (h₁ ++ .tx b cs (.rollback q) ts :: h₂) ⟨W.firstFile, 4⟩).map Input.event
          ++ [Input.closed])).calls.map txContent
      = (h₁.flatMap unitGroups).map (groupTx env.ext) ++ (ts, []) :: (h₂.flatMap unitGroups).map (groupTx env.ext) ∧
    ∃ t, (W.expected cfg (h₁ ++ .tx b cs (.rollback q) ts :: h₂) ⟨W.firstFile, 4⟩)[(h₁.flatMap unitGroups).length]?
        = some t ∧ t.changes = [] ∧ t.ts = ts ∧
      (parseEvents env (fun _ => true) (PState.init ⟨W.firstFile, 4⟩)
        ((W.serve cfg (h₁ ++ .tx b cs (.rollback q) ts :: h₂) ⟨W.firstFile, 4⟩).map Input.event
          ++ [Input.closed])).calls[(h₁.flatMap unitGroups).length]? = some ⟨posOf t.now, posOf t.next, ts, []⟩ := by
  obtain ⟨hg, hc⟩ := C02_bytes_grouping_head cfg env _ hwf hm
  have hflat : (h₁ ++ W.Unit.tx b cs (.rollback q) ts :: h₂).flatMap unitGroups
      = h₁.flatMap unitGroups ++ (ts, []) :: h₂.flatMap unitGroups := by
    rw [List.flatMap_append, List.flatMap_cons]; rfl
  rw [hflat] at hg hc
  refine ⟨commitGroups_unit cfg _, hg, by simpa [groupTx] using hc, ?_⟩
  have hi := congrArg (fun l => l[(h₁.flatMap unitGroups).length]?) hg
  simp only [List.getElem?_map, List.getElem?_append_right (Nat.le_refl _), Nat.sub_self,
    List.getElem?_cons_zero] at hi
  cases ht : (W.expected cfg (h₁ ++ .tx b cs (.rollback q) ts :: h₂) ⟨W.firstFile, 4⟩)[(h₁.flatMap unitGroups).length]? with
  | none => rw [ht] at hi; cases hi
  | some t =>
    rw [ht] at hi
    simp only [Option.map_some, Option.some.injEq, content, Prod.mk.injEq] at hi
    refine ⟨t, rfl, hi.2, hi.1, ?_⟩
    rw [C01_fidelity_bytes cfg env _ hwf hm]
    simp only [List.getElem?_map, ht, Option.map_some, toTx, hi.1, hi.2, List.map_nil]

/-- C02, ignorable units never alter the grouping.  Inserting a GTID, anonymous GTID, previous-GTIDs, heartbeat,
    unknown-type event or unknown statement ANYWHERE in the history (between any two units) leaves the sequence of
    delivered transactions unchanged but for the labels: same number of transactions, same commit timestamps, same
    changes, in the same order — on the Spec side and in what the handler of a replica run from the head gets. -/
theorem C02_bytes_ignorable (cfg : W.Cfg) (env : Env) (h₁ h₂ : W.History) (u : W.Unit) (hu : Ignorable u)
    (hwf : WFHist cfg (h₁ ++ u :: h₂)) (hwf' : WFHist cfg (h₁ ++ h₂)) (hm : MapperAgrees env (h₁ ++ u :: h₂)) :
    (W.expected cfg (h₁ ++ u :: h₂) ⟨W.firstFile, 4⟩).map content
      = (W.expected cfg (h₁ ++ h₂) ⟨W.firstFile, 4⟩).map content ∧
    (parseEvents env (fun _ => true) (PState.init ⟨W.firstFile, 4⟩)
        ((W.serve cfg (h₁ ++ u :: h₂) ⟨W.firstFile, 4⟩).map Input.event ++ [Input.closed])).calls.map txContent
      = (parseEvents env (fun _ => true) (PState.init ⟨W.firstFile, 4⟩)
        ((W.serve cfg (h₁ ++ h₂) ⟨W.firstFile, 4⟩).map Input.event ++ [Input.closed])).calls.map txContent := by
  have hm' : MapperAgrees env (h₁ ++ h₂) := by
    intro c hc
    exact hm c (by rw [histRows_ignorable h₁ h₂ u hu]; exact hc)
  obtain ⟨hg, hc⟩ := C02_bytes_grouping_head cfg env _ hwf hm
  obtain ⟨hg', hc'⟩ := C02_bytes_grouping_head cfg env _ hwf' hm'
  have hflat : (h₁ ++ u :: h₂).flatMap unitGroups = (h₁ ++ h₂).flatMap unitGroups := by
    rw [List.flatMap_append, List.flatMap_cons, unitGroups_ignorable u hu, List.flatMap_append, List.nil_append]
  rw [hg, hg', hc, hc', hflat]
  exact ⟨rfl, rfl⟩

/-! ### non-vacuity: `exHistS` of Props/C04b (eight units in two files), and a history with a rolled-back transaction -/

example := C02_bytes_vocabulary {} exHistS exP0 11
example : doneCount {} exHistS exP0 11 = 2 := by decide

/-- rejects the second transaction; 12 of the 21 packets; cancelled -/
example := C02_bytes_not_before_commit {} exEnv exHistS exP0 exResumable.lands exResumable.wf exResumable.mapper
  exAttempt false (endsWith_cancelled _ _)
/-- accepts everything; 12 packets; then an invalid packet -/
example := C02_bytes_not_before_commit {} exEnv exHistS exP0 exResumable.lands exResumable.wf exResumable.mapper
  exAttemptInvalid true (endsWith_invalid _ _ _ (by decide))
example := C02_bytes_monotone {} exEnv exHistS exP0 exResumable.lands exResumable.wf exResumable.mapper
  exRejectSecond 9 15 (by decide) false true [.cancelled] [.event [1, 2, 3]] (endsWith_cancelled _ _)
  (endsWith_invalid _ _ _ (by decide))
example := C02_bytes_grouping {} exEnv exHistS exP0 exResumable.lands exResumable.wf exResumable.mapper
example := C02_bytes_grouping_head {} exEnv exHistS exWFS exMapperS

/-- the groups of `exHistS`: five transactions, the GTID, the ROTATE and the heartbeat give none -/
example : exHistS.flatMap unitGroups
    = [(90, [.rows exC1, .stmt exIns]), (81, [.stmt exDdl]), (77, [.rows exC2a]), (95, [.rows exC2a, .stmt exIns]),
       (81, [.stmt exDdl])] := by decide

/-- `exHistS` without its heartbeat -/
def exHistS' : W.History :=
  [.gtid (List.replicate 16 3) 5, .tx (asc "BEGIN") [.rows exC1, .stmt exIns] (.xid 9) 90, .ddl exDdl,
   .rotate (asc "bin.000002"), .autoRows exC2a,
   .tx (asc "BEGIN") [.rows exC2a, .stmt exIns] (.commit (asc "COMMIT")) 95, .ddl exDdl]

theorem exSplit : exHistS = exHistS'.take 4 ++ .heartbeat :: exHistS'.drop 4 := by decide
theorem exSplit' : exHistS' = exHistS'.take 4 ++ exHistS'.drop 4 := by decide

theorem exWFS' : WFHist {} exHistS' := by
  refine ⟨?_, by decide, ?_, by decide⟩
  · intro u hu
    exact exWFS.units u (by
      simp only [exHistS', List.mem_cons, List.not_mem_nil, or_false] at hu
      rcases hu with rfl | rfl | rfl | rfl | rfl | rfl | rfl <;> simp [exHistS])
  · exact ⟨Or.inl rfl, Or.inl rfl, Or.inl rfl, trivial⟩

/-- the heartbeat in the second file of `exHistS` does not alter what is delivered -/
example := C02_bytes_ignorable {} exEnv (exHistS'.take 4) (exHistS'.drop 4) .heartbeat trivial
  (exSplit ▸ exWFS) (exSplit' ▸ exWFS') (exSplit ▸ exMapperS)

/-- a DDL, a transaction with two changes closed by ROLLBACK, a DDL -/
def exHistRb : W.History :=
  [.ddl exDdl, .tx (asc "BEGIN") [.rows exC1, .stmt exIns] (.rollback (asc "ROLLBACK")) 91, .ddl exDdl]

theorem exWFRb : WFHist {} exHistRb := by
  refine ⟨?_, by decide, ?_, by decide⟩
  · intro u hu
    simp only [exHistRb, List.mem_cons, List.not_mem_nil, or_false] at hu
    rcases hu with rfl | rfl | rfl
    · exact ⟨exDdlOK, by unfold isChangeCat; decide⟩
    · refine ⟨by decide, ?_, (by show statementCategory _ = _; decide), by decide⟩
      intro c hc
      simp only [List.mem_cons, List.not_mem_nil, or_false] at hc
      rcases hc with rfl | rfl
      · exact ⟨exC1OK, by decide⟩
      · exact ⟨exInsOK, by unfold isChangeCat; decide⟩
    · exact ⟨exDdlOK, by unfold isChangeCat; decide⟩
  · exact ⟨Or.inl rfl, trivial⟩

theorem exMapperRb : MapperAgrees exEnv exHistRb := by
  intro c hc
  simp [exHistRb, histRows, unitRows, changeRows] at hc
  subst hc; rfl

example := C02_bytes_rollback_empty {} exEnv [.ddl exDdl] [.ddl exDdl] (asc "BEGIN") [.rows exC1, .stmt exIns]
  (asc "ROLLBACK") 91 exWFRb exMapperRb

/-- three transactions; the second one — the rolled-back one — is empty and advances the position -/
example : (W.expected {} exHistRb ⟨W.firstFile, 4⟩).map (fun t => (t.now.offset, t.next.offset, t.ts, t.changes.length))
    = [(4, 173, 81, 1), (173, 405, 91, 0), (405, 453, 81, 1)] := by decide

-- the replica's calls on `exHistRb`, computed (evaluator: `natDec` does not reduce in the kernel)
#guard ((parseEvents exEnv (fun _ => true) (PState.init ⟨W.firstFile, 4⟩)
    ((W.serve {} exHistRb ⟨W.firstFile, 4⟩).map Input.event ++ [Input.closed])).calls.map
      fun tx => (tx.now.offset, tx.next.offset, tx.timestamp, tx.events.length))
  == [(4, 173, 81, 1), (173, 405, 91, 0), (405, 453, 81, 1)]

end GV.Props.C02b
