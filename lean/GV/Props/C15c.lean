import GV.Props.C15b
import GV.Lemmas.C15c
/-
  C15 (finding F13) — a table id RE-USED FOR ANOTHER TABLE.  Property theorems and non-vacuity examples only; the
  vocabulary, the old control flow (`classifyOld`, `parseEventsOld`) and the concrete history are in
  GV/Lemmas/C15c.lean (namespace GV.C15c).

  The defect.  Table ids are handed out by the master's table cache and start over when the master restarts; a
  replica that reads through binlog files written before and after the restart sees an id it has cached for one table
  announced for another.  The TABLE_MAP branch of `parseEvents` (streamer.go) as found was

      if _, ok = tablesMaps[tableID]; ok { tablesMaps[tableID].tableMap = tm; continue }

  so every cached id kept the table mapper's answer of the FIRST table it was announced for: the rows of the new table
  were handed to the application under the old table's name, with the old table's column names.  The repaired code
  keeps the cached answer only when the cached table map's database and name equal the announced ones; otherwise the
  mapper is asked, the column count checked and the entry REPLACED, exactly as for an id seen for the first time.

  Vocabulary (the rest is that of GV/Props/C01b.lean, C01c.lean, C15b.lean):
    classifyOld / stepEventOld / parseEventsOld   the model with the TABLE_MAP branch as found (every cached id known)
    WFHistReuse cfg h     `WFHist cfg h` without `tables` ("a table id names one table throughout the history") and
                          with `announced` read as `curOK`: every rows change carries the definition most recently
                          announced for its id.  Weaker than `WFHist` and than `WFHistRedef`.
    exReuse               BEGIN, TABLE_MAP 108 = shop.orders, WRITE_ROWS, XID | STOP, (restart) bin.000002 |
                          BEGIN, TABLE_MAP 108 = shop.users, WRITE_ROWS, XID
    attributed txs        per delivered transaction its positions and, per event, the table it is attributed to and
                          per row the (column name, binlog type, value) triples

  Contents: `C15_packet_id_reused_other_table`, `C15_packet_same_name_keeps_info` (packet level, any Ready state);
  `C15_bytes_id_reuse_after_restart_example`, `C15_bytes_id_reuse_misattributed_by_old_code` (kernel-computed on
  `exReuse`) and #guard over the 8 configurations; `C15_bytes_fidelity_id_reuse` (byte-level fidelity for whole
  histories with id re-use, generalising `C01_fidelity_bytes` and `C15_bytes_redefinition`) with
  `C15_id_reuse_subsumes` / `_subsumes_redefinition`, its instance on `exReuse`, and
  `C15_bytes_fidelity_id_reuse_old_code_refuted` (it is FALSE for the code as found).
-/
namespace GV.Props.C15c
open GV GV.M GV.Props.C01 GV.Props.C01b GV.C01c GV.C15b GV.C15c

/-! ### packet level -/

/-- A well-formed TABLE_MAP event announcing table `t` under an id that is cached for ANOTHER table (the cached table
    map's database / name are not `t`'s), arriving in any state that has seen the FDE (whatever transaction is open,
    whatever else is cached), with or without checksum, 4- / 6-byte ids:
      * the mapper knows (t.db, t.name) with an agreeing column count: the parser goes on, and afterwards the id's cache
        entry is the NEW table map together with the mapper's answer for (t.db, t.name) — the stale entry is replaced,
        not shadowed (the cache has as many entries as before); every other id's entry, the position, the open
        transaction and the format are unchanged;
      * the mapper fails for the table or its column count disagrees: a decoding error — stop with err = true,
        crash = false, no handler call, position unchanged — exactly as for the first announcement of an id. -/
theorem C15_packet_id_reused_other_table (env : Env) (st : PState) (cfg : W.Cfg) (hr : Ready cfg st) (crc : Option Bytes)
    (hc : crcOK cfg crc) (m : W.EvMeta) (start : Nat) (t : W.TableDef) (ht : TableOK cfg t) (optional : Bytes)
    (hok : EvOK crc m start (W.tableMapBody (idw cfg) t.id 1 t.db t.name t.cols optional))
    (old : TableCache) (hold : findTable st.tables t.id = some old)
    (hdiff : ¬ (old.tableMap.database = t.db ∧ old.tableMap.name = t.name)) :
    let b := (W.event crc m 19 start (W.tableMapBody (idw cfg) t.id 1 t.db t.name t.cols optional)).1
    (∀ info, env.mapper t.db t.name = some info → info.columns.length = t.cols.length →
      ∃ st', stepEvent env st b = .cont st' ∧
        findTable st'.tables t.id = some ⟨tmOf t, info⟩ ∧
        (∀ j, j ≠ t.id → findTable st'.tables j = findTable st.tables j) ∧
        st'.tables.length = st.tables.length ∧
        st'.pos = st.pos ∧ st'.tran = st.tran ∧ st'.autocommit = st.autocommit ∧ st'.format = st.format) ∧
    (MapperRejects env t →
      classify env st b = .decodeErr ∧ stepEvent env st b = .stop true false ∧
      ∀ (handler : Transaction → Bool) (rest : List Input),
        parseEvents env handler st (.event b :: rest) = ⟨[], [], st.pos, true, false⟩) := by
  intro b
  refine ⟨?_, ?_⟩
  · intro info hm hcount
    have hcl := classify_tablemap_reused_info env st cfg hr crc hc m start t ht optional hok old hold hdiff info hm hcount
    refine ⟨{ st with tables := st.tables.map fun p => if p.1 == t.id then (p.1, ⟨tmOf t, info⟩) else p }, ?_,
      GV.C15.findTable_update_same st.tables t.id _ old hold,
      fun j hj => GV.C15.findTable_update_other st.tables t.id _ j hj, by simp, rfl, rfl, rfl, rfl⟩
    show stepD st (classify env st b) = _
    rw [hcl]
    exact stepD_tableMap_replace st t.id _ old false hold
  · intro hbad
    have h := classify_tablemap_reused_rejected env st cfg hr crc hc m start t ht optional hok old hold hdiff hbad
    have hs : stepEvent env st b = .stop true false := by
      show stepD st (classify env st b) = _
      rw [h]; rfl
    exact ⟨h, hs, fun handler rest => by simp only [parseEvents, hs]⟩

/-- … under an id cached for the SAME table (database and name; the pre-existing behaviour, for completeness): the
    table map is refreshed, the cached mapper answer kept — whatever the mapper would say now: it is not consulted, the
    step is the same in every environment — and nothing else changes. -/
theorem C15_packet_same_name_keeps_info (env : Env) (st : PState) (cfg : W.Cfg) (hr : Ready cfg st) (crc : Option Bytes)
    (hc : crcOK cfg crc) (m : W.EvMeta) (start : Nat) (t : W.TableDef) (ht : TableOK cfg t) (optional : Bytes)
    (hok : EvOK crc m start (W.tableMapBody (idw cfg) t.id 1 t.db t.name t.cols optional))
    (old : TableCache) (hold : findTable st.tables t.id = some old)
    (hsame : old.tableMap.database = t.db ∧ old.tableMap.name = t.name) :
    let b := (W.event crc m 19 start (W.tableMapBody (idw cfg) t.id 1 t.db t.name t.cols optional)).1
    ∃ st', stepEvent env st b = .cont st' ∧
      (∀ env' : Env, stepEvent env' st b = .cont st') ∧
      findTable st'.tables t.id = some ⟨tmOf t, old.info⟩ ∧
      (∀ j, j ≠ t.id → findTable st'.tables j = findTable st.tables j) ∧
      st'.tables.length = st.tables.length ∧
      st'.pos = st.pos ∧ st'.tran = st.tran ∧ st'.autocommit = st.autocommit ∧ st'.format = st.format := by
  intro b
  have hstep : ∀ env' : Env, stepEvent env' st b
      = .cont { st with tables := st.tables.map fun p => if p.1 == t.id then (p.1, ⟨tmOf t, old.info⟩) else p } := by
    intro env'
    have hcl := C01_classify_tablemap_known_same_table env' st cfg hr crc hc m start t ht optional hok old hold hsame
    show stepD st (classify env' st b) = _
    rw [hcl]
    exact stepD_tableMap_replace st t.id _ old true hold
  exact ⟨_, hstep env, hstep, GV.C15.findTable_update_same st.tables t.id _ old hold,
    fun j hj => GV.C15.findTable_update_other st.tables t.id _ j hj, by simp, rfl, rfl, rfl, rfl⟩

/-! ### byte-level fidelity for whole histories with table ids re-used for other tables -/

/-- `C01_fidelity_bytes` with `WFHist.tables` dropped: table ids may be re-used for OTHER tables (after a master
    restart, after DROP / CREATE, …) and re-defined for the same table, in any interleaving.  For every history of
    well-formed units (full unit alphabet, restarts and rotations included; all 8 configurations) in which each rows
    change carries the definition most recently announced for its table id — i.e. a rows change whose table is not the
    one last announced for its id is preceded by its own TABLE_MAP event — and a mapper that knows every table, a
    replica started at the head of the log with an all-accepting handler delivers exactly the expected transactions
    (per rows change the exact StreamEvent: the table (db, name) of ITS definition, per column the mapper's name for
    THAT table, the current definition's type, the canonical text) and returns the expected end position without error
    or crash. -/
theorem C15_bytes_fidelity_id_reuse (cfg : W.Cfg) (env : Env) (h : W.History) (hwf : WFHistReuse cfg h)
    (hm : MapperAgrees env h) :
    parseEvents env (fun _ => true) (PState.init ⟨W.firstFile, 4⟩)
        ((W.serve cfg h ⟨W.firstFile, 4⟩).map Input.event ++ [Input.closed])
      = ⟨(W.expected cfg h ⟨W.firstFile, 4⟩).map (toTx env.ext), (W.expected cfg h ⟨W.firstFile, 4⟩).map (toTx env.ext),
         posOf (W.endPos cfg h ⟨W.firstFile, 4⟩), false, false⟩ :=
  fidelity_reuse cfg env h hwf hm

/-- the hypotheses are weaker than those of `C01_fidelity_bytes` … -/
theorem C15_id_reuse_subsumes (cfg : W.Cfg) (h : W.History) (hwf : WFHist cfg h) : WFHistReuse cfg h :=
  wfReuse_of_wf hwf

/-- … and than those of `C15_bytes_redefinition` -/
theorem C15_id_reuse_subsumes_redefinition (cfg : W.Cfg) (h : W.History) (hwf : WFHistRedef cfg h) : WFHistReuse cfg h :=
  wfReuse_of_redef hwf

/-- the two clauses of the informal statement — definitions sharing a table id AND the (database, name) are one
    definition; a rows change whose table is not the one last announced for its id is announced — give `WFHistReuse`
    (the first clause is not even needed: `MapperAgrees` makes the mapper's answers for one (database, name) agree) -/
theorem C15_id_reuse_of_clauses (cfg : W.Cfg) (h : W.History) (hunits : ∀ u ∈ h, UnitOK cfg u)
    (htables : ∀ c1 ∈ histRows h, ∀ c2 ∈ histRows h, c1.table.id = c2.table.id → c1.table.db = c2.table.db →
      c1.table.name = c2.table.name → c1.table = c2.table)
    (hann : curOK [] (histRows h)) (hoff : ∀ e ∈ W.layout cfg h, e.next < 2 ^ 32) : WFHistReuse cfg h :=
  wfReuse_of_clauses hunits htables hann hoff

/-! non-vacuity: `exReuse` satisfies the hypotheses (and is outside the domain of the two earlier theorems) -/

theorem tOrders_ok : TableOK {} tOrders :=
  ⟨by decide, by intro c hc; simp [tOrders] at hc; rcases hc with rfl | rfl <;> (unfold Props.C15.ColOK; decide),
   by decide, rfl, rfl, by decide, by decide, by decide⟩
theorem tUsers_ok : TableOK {} tUsers :=
  ⟨by decide, by intro c hc; simp [tUsers] at hc; rcases hc with rfl | rfl <;> (unfold Props.C15.ColOK; decide),
   by decide, rfl, rfl, by decide, by decide, by decide⟩

set_option exponentiation.threshold 512 in
theorem cOrders_ok : RowsOK {} cOrders := by
  refine ⟨tOrders_ok, rfl, rfl, by decide, by decide, by decide, ?_, by decide⟩
  intro r hr
  simp only [cOrders, List.mem_singleton] at hr
  subst hr
  constructor <;> intro hk
  · exact absurd rfl hk
  · refine ⟨rfl, ?_⟩
    intro p hp
    simp [cOrders, tOrders, colsU, W.selectPresent] at hp
    rcases hp with hp | hp <;> subst hp <;> simp [W.CellOK, W.intTypes]

set_option exponentiation.threshold 512 in
theorem cUsers_ok : RowsOK {} cUsers := by
  refine ⟨tUsers_ok, rfl, rfl, by decide, by decide, by decide, ?_, by decide⟩
  intro r hr
  simp only [cUsers, List.mem_singleton] at hr
  subst hr
  constructor <;> intro hk
  · exact absurd rfl hk
  · refine ⟨rfl, ?_⟩
    intro p hp
    simp [cUsers, tUsers, colsU, W.selectPresent] at hp
    rcases hp with hp | hp <;> subst hp <;> simp [W.CellOK, W.intTypes]

theorem exReuseWF : WFHistReuse {} exReuse := by
  refine ⟨?_, ⟨.inl rfl, .inl rfl, trivial⟩, by decide⟩
  intro u hu
  simp only [exReuse, List.mem_cons, List.not_mem_nil, or_false] at hu
  rcases hu with rfl | rfl | rfl
  · refine ⟨by decide, ?_, trivial, by decide⟩
    intro c hc
    simp only [List.mem_singleton] at hc
    subst hc
    exact ⟨cOrders_ok, by decide⟩
  · show (asc "bin.000002").length < 2 ^ 31
    decide
  · refine ⟨by decide, ?_, trivial, by decide⟩
    intro c hc
    simp only [List.mem_singleton] at hc
    subst hc
    exact ⟨cUsers_ok, by decide⟩

theorem exReuseMapper : MapperAgrees exEnvShop exReuse := by
  intro c hc
  simp [exReuse, histRows, unitRows, changeRows] at hc
  rcases hc with rfl | rfl <;> decide

example : runReuse exEnvShop
    = ⟨(W.expected {} exReuse ⟨W.firstFile, 4⟩).map (toTx exExt), (W.expected {} exReuse ⟨W.firstFile, 4⟩).map (toTx exExt),
       posOf (W.endPos {} exReuse ⟨W.firstFile, 4⟩), false, false⟩ :=
  C15_bytes_fidelity_id_reuse {} exEnvShop exReuse exReuseWF exReuseMapper
example : (W.expected {} exReuse ⟨W.firstFile, 4⟩).length = 2 := by decide

/-- `exReuse` is outside the domain of `C15_bytes_redefinition` (hence of `C01_fidelity_bytes`): the two definitions
    of id 108 are different tables -/
example : ¬ WFHistRedef {} exReuse := fun h =>
  absurd (h.agree cOrders (by simp [exReuse, histRows, unitRows, changeRows]) cUsers
    (by simp [exReuse, histRows, unitRows, changeRows]) rfl) (by decide)
example : ¬ WFHist {} exReuse := fun h =>
  absurd (h.tables cOrders (by simp [exReuse, histRows, unitRows, changeRows]) cUsers
    (by simp [exReuse, histRows, unitRows, changeRows]) rfl) (by decide)

/-! ### the regression example: id 108 is shop.orders before the master restarts, shop.users afterwards -/

set_option maxRecDepth 100000 in
/-- On `exReuse` — everything the master serves for it, from the head of the log, accept-all handler — the model
    delivers, without error, exactly the two expected transactions (an instance of `C15_bytes_fidelity_id_reuse`); the
    second one, read from the second file, is attributed to shop.users with the column names uid, age (types INT,
    TINYINT) (kernel-computed; the values — 42, 33 — are checked by the evaluator below).  The mapper was asked for
    BOTH tables (kernel-computed): with a mapper that does not know shop.users the run stops with an error at the
    second TABLE_MAP event — transaction 1 delivered, position at the head of the second file — and with one that does
    not know shop.orders at the first — nothing delivered. -/
theorem C15_bytes_id_reuse_after_restart_example :
    (runReuse exEnvShop
       = ⟨(W.expected {} exReuse ⟨W.firstFile, 4⟩).map (toTx exExt), (W.expected {} exReuse ⟨W.firstFile, 4⟩).map (toTx exExt),
          posOf (W.endPos {} exReuse ⟨W.firstFile, 4⟩), false, false⟩ ∧
     attributed (runReuse exEnvShop).calls
       = [⟨⟨W.firstFile, 4⟩, ⟨W.firstFile, 280⟩, [(asc "shop", asc "orders")],
            [[[(asc "order_id", 8), (asc "amount", 3)]]]⟩,
          ⟨⟨asc "bin.000002", 4⟩, ⟨asc "bin.000002", 272⟩, [(asc "shop", asc "users")],
            [[[(asc "uid", 3), (asc "age", 1)]]]⟩] ∧
     (runReuse exEnvShop).pos = ⟨asc "bin.000002", 272⟩) ∧
    ((runReuse exEnvNoUsers).err = true ∧ (runReuse exEnvNoUsers).crash = false ∧
     attributed (runReuse exEnvNoUsers).calls = (attributed (runReuse exEnvShop).calls).take 1 ∧
     (runReuse exEnvNoUsers).pos = ⟨asc "bin.000002", 4⟩) ∧
    ((runReuse exEnvNoOrders).err = true ∧ (runReuse exEnvNoOrders).crash = false ∧
     (runReuse exEnvNoOrders).calls = [] ∧ (runReuse exEnvNoOrders).pos = ⟨W.firstFile, 4⟩) :=
  ⟨⟨C15_bytes_fidelity_id_reuse {} exEnvShop exReuse exReuseWF exReuseMapper, by decide, by decide⟩,
   ⟨by decide, by decide, by decide, by decide⟩,
   ⟨by decide, by decide, by decide, by decide⟩⟩

set_option maxRecDepth 100000 in
/-- FINDING F13, kernel-computed on the same bytes: the OLD control flow (every cached id is known) reports no error
    and delivers the second transaction ATTRIBUTED TO shop.orders, its values under the column names order_id, amount
    (the types, from the refreshed table map, are those of shop.users) — not what is expected — and it never asks the
    mapper for shop.users: it does the same with a mapper that does not know that table. -/
theorem C15_bytes_id_reuse_misattributed_by_old_code :
    (runReuseOld exEnvShop).err = false ∧ (runReuseOld exEnvShop).crash = false ∧
    attributed (runReuseOld exEnvShop).calls
      = [⟨⟨W.firstFile, 4⟩, ⟨W.firstFile, 280⟩, [(asc "shop", asc "orders")],
           [[[(asc "order_id", 8), (asc "amount", 3)]]]⟩,
         ⟨⟨asc "bin.000002", 4⟩, ⟨asc "bin.000002", 272⟩, [(asc "shop", asc "orders")],
           [[[(asc "order_id", 3), (asc "amount", 1)]]]⟩] ∧
    attributed (runReuseOld exEnvShop).calls ≠ attributed ((W.expected {} exReuse ⟨W.firstFile, 4⟩).map (toTx exExt)) ∧
    (runReuseOld exEnvNoUsers).err = false ∧
    attributed (runReuseOld exEnvNoUsers).calls = attributed (runReuseOld exEnvShop).calls :=
  ⟨by decide, by decide, by decide, by decide, by decide, by decide⟩

-- the values (evaluator): 42 and 33 arrive as uid and age of shop.users — the old control flow hands them over as
-- order_id and amount of shop.orders; and it does not notice a mapper that does not know shop.users
#guard valuesOf (runReuse exEnvShop).calls
  == [[[[.value (asc "7001"), .value (asc "250")]]], [[[.value (asc "42"), .value (asc "33")]]]]
#guard valuesOf (runReuseOld exEnvShop).calls == valuesOf (runReuse exEnvShop).calls
#guard runReuseOld exEnvNoUsers == runReuseOld exEnvShop

-- the two runs in all 8 configurations (evaluator): the model delivers the expected transactions, the old control
-- flow attributes both to shop.orders; on a history without id re-use the old control flow is the model
#guard Props.C15b.allCfgs.all fun cfg =>
  parseEvents exEnvShop (fun _ => true) (PState.init ⟨W.firstFile, 4⟩)
      ((W.serve cfg exReuse ⟨W.firstFile, 4⟩).map Input.event ++ [Input.closed])
    == ⟨(W.expected cfg exReuse ⟨W.firstFile, 4⟩).map (toTx exExt), (W.expected cfg exReuse ⟨W.firstFile, 4⟩).map (toTx exExt),
        posOf (W.endPos cfg exReuse ⟨W.firstFile, 4⟩), false, false⟩
#guard Props.C15b.allCfgs.all fun cfg =>
  let o := parseEventsOld exEnvShop (fun _ => true) (PState.init ⟨W.firstFile, 4⟩)
      ((W.serve cfg exReuse ⟨W.firstFile, 4⟩).map Input.event ++ [Input.closed])
  o.err == false && o.calls.length == 2 &&
  o.calls.map (fun t => t.events.map (·.table)) == [[(asc "shop", asc "orders")], [(asc "shop", asc "orders")]]
#guard Props.C15b.allCfgs.all fun cfg =>
  parseEventsOld Props.C15b.exEnv (fun _ => true) (PState.init ⟨W.firstFile, 4⟩)
      ((W.serve cfg Props.C15b.exRedef ⟨W.firstFile, 4⟩).map Input.event ++ [Input.closed])
    == parseEvents Props.C15b.exEnv (fun _ => true) (PState.init ⟨W.firstFile, 4⟩)
      ((W.serve cfg Props.C15b.exRedef ⟨W.firstFile, 4⟩).map Input.event ++ [Input.closed])

/-- the theorem is not vacuously about the control flow: it is FALSE for the TABLE_MAP branch as found -/
theorem C15_bytes_fidelity_id_reuse_old_code_refuted :
    ¬ (∀ (cfg : W.Cfg) (env : Env) (h : W.History), WFHistReuse cfg h → MapperAgrees env h →
        parseEventsOld env (fun _ => true) (PState.init ⟨W.firstFile, 4⟩)
            ((W.serve cfg h ⟨W.firstFile, 4⟩).map Input.event ++ [Input.closed])
          = ⟨(W.expected cfg h ⟨W.firstFile, 4⟩).map (toTx env.ext), (W.expected cfg h ⟨W.firstFile, 4⟩).map (toTx env.ext),
             posOf (W.endPos cfg h ⟨W.firstFile, 4⟩), false, false⟩) := by
  intro hall
  have h := hall {} exEnvShop exReuse exReuseWF exReuseMapper
  have hc := congrArg (fun o => attributed o.calls) h
  exact C15_bytes_id_reuse_misattributed_by_old_code.2.2.2.1 hc

end GV.Props.C15c
