import GV.Spec.Decoded
import GV.Lemmas.Streamer
import GV.Expect.C02
/-
  C02 — transaction boundaries: delivery only at commit, atomically, never twice (DESIGN §7 C02).
  Property theorems only (helper lemmas: GV/Lemmas/Streamer.lean).  Stated over the decoded-event machine
  `M.stepD` / `M.runD`; `M.stepEvent = stepD ∘ classify` ties it to packets.
-/
namespace GV.Props.C02
open GV GV.M GV.DSpec

/-- Refinement (the workhorse): for every sequence of well-formed units, starting between units, with a handler
    that accepts everything, the parser calls the handler with exactly the expected transactions — one per
    committed unit, in order, nothing else — and ends at the expected position without error. -/
theorem C02_refines (us : List DUnit) (st : PState) (hi : Idle st) (hwf : ∀ u ∈ us, WFUnit u) :
    runD (fun _ => true) st ((us.flatMap devs).map some)
      = ⟨dexpected st.pos us, dexpected st.pos us, dendPos st.pos us, false, false⟩ := by
  exact SL.run_all us st hi hwf

/-- the handler is invoked only at commit points: XID, COMMIT / ROLLBACK statements, or a change logged while
    no transaction is open (autocommit) -/
theorem C02_only_at_commit (st : PState) (d : Decoded) (tx : Transaction) (acc : PState)
    (h : stepD st d = .deliver tx acc) :
    (∃ n t, d = .xid n t) ∨
    (∃ cat q n t, d = .stmt cat q n t ∧ (cat = Facts.StatementCommit ∨ cat = Facts.StatementRollback ∨
        (st.autocommit = true ∧ (isBoundaryDDL cat = true ∨ isDML cat = true)))) ∨
    (∃ se n t, d = .rows se n t ∧ st.autocommit = true) := by
  cases d with
  | xid n t => exact Or.inl ⟨n, t, rfl⟩
  | rows se n t =>
    refine Or.inr (Or.inr ⟨se, n, t, rfl, ?_⟩)
    cases ha : st.autocommit with
    | true => rfl
    | false => simp [stepD, ha] at h
  | stmt cat q n t =>
    refine Or.inr (Or.inl ⟨cat, q, n, t, rfl, ?_⟩)
    simp only [stepD] at h
    split at h
    · cases h
    · split at h
      · rename_i hcat
        split at h
        · rename_i ha
          exact Or.inr (Or.inr ⟨ha, hcat⟩)
        · cases h
      · split at h
        · rename_i hr; exact Or.inr (Or.inl hr)
        · split at h
          · rename_i hc; exact Or.inl hc
          · cases h
  | tableMap id tc known =>
    cases known
    · by_cases hc : (findTable st.tables id).isSome = true <;> simp [stepD, hc] at h
    · simp [stepD] at h
  | _ => simp [stepD] at h

/-- all changes logged between BEGIN and its XID / COMMIT arrive together, in order, in one transaction -/
theorem C02_atomic (st : PState) (hi : Idle st) (bq : Query) (bn bt : Nat) (cs : List DChange) (close : DCloser)
    (next ts : Nat) (hwf : ∀ c ∈ cs, WFChange c) (hc : ∀ q, close ≠ .rollback q) :
    (runD (fun _ => true) st ((devs (.tx bq bn bt cs close next ts)).map some)).calls
      = [⟨st.pos, { st.pos with offset := next }, ts, cs.filterMap seOf⟩] := by
  obtain ⟨st', _, _, hrun⟩ := SL.unit_run (fun _ => true) hi
    (u := .tx bq bn bt cs close next ts) (by simpa [WFUnit] using hwf)
  have hq := SL.quiet_nil (fun _ => true) st'
  obtain ⟨e, he⟩ := hq
  rcases hrun with ⟨hd, _⟩ | ⟨tx, hd, hrun⟩
  · rw [SL.dexpected_tx] at hd; cases hd
  · have := hrun []
    rw [List.append_nil] at this
    rw [this, he]
    rw [SL.dexpected_tx] at hd
    simp only [dexpected, List.cons.injEq, and_true] at hd
    subst hd
    cases close with
    | rollback q => exact absurd rfl (hc q)
    | _ => simp [SL.closeEvents]

/-- the changes of a rolled-back transaction are never delivered: only an empty transaction that advances the position -/
theorem C02_rollback_empty (st : PState) (hi : Idle st) (bq q : Query) (bn bt : Nat) (cs : List DChange)
    (next ts : Nat) (hwf : ∀ c ∈ cs, WFChange c) :
    (runD (fun _ => true) st ((devs (.tx bq bn bt cs (.rollback q) next ts)).map some)).calls
      = [⟨st.pos, { st.pos with offset := next }, ts, []⟩] := by
  obtain ⟨st', _, _, hrun⟩ := SL.unit_run (fun _ => true) hi
    (u := .tx bq bn bt cs (.rollback q) next ts) (by simpa [WFUnit] using hwf)
  obtain ⟨e, he⟩ := SL.quiet_nil (fun _ => true) st'
  rcases hrun with ⟨hd, _⟩ | ⟨tx, hd, hrun⟩
  · rw [SL.dexpected_tx] at hd; cases hd
  · have := hrun []
    rw [List.append_nil] at this
    rw [this, he]
    rw [SL.dexpected_tx] at hd
    simp only [dexpected, List.cons.injEq, and_true] at hd
    subst hd
    simp [SL.closeEvents]

/-- nothing is delivered before its commit event has been read, nothing twice, nothing moved: after ANY prefix of
    the event sequence, the calls made so far are exactly the transactions of the units that are complete. -/
theorem C02_prefix (us : List DUnit) (st : PState) (hi : Idle st) (hwf : ∀ u ∈ us, WFUnit u)
    (evs : List Decoded) (hp : evs <+: us.flatMap devs) :
    ∃ us1 us2 part, us = us1 ++ us2 ∧ evs = us1.flatMap devs ++ part ∧
      (part = [] ∨ ∃ u us3, us2 = u :: us3 ∧ part <+: devs u ∧ part ≠ devs u) ∧
      (runD (fun _ => true) st (evs.map some)).calls = dexpected st.pos us1 := by
  obtain ⟨us1, us2, hsplit, hacc, _, _, hcalls⟩ :=
    SL.run_prefix (fun _ => true) [] (SL.quiet_nil _) us hwf st hi evs hp
  rw [List.append_nil] at hacc hcalls
  rcases hcalls with ⟨hc, part, hev, hpart⟩ | ⟨tx, _, hh, _⟩
  · exact ⟨us1, us2, part, hsplit, hev, hpart, hc.trans hacc⟩
  · cases hh

/-- ignorable units (GTID, previous-GTIDs, heartbeat, unknown event types, unknown statements, table maps, format
    descriptions) never alter the grouping, wherever they are inserted -/
theorem C02_ignorable (p : Position) (us1 us2 : List DUnit) (u : DUnit) (hu : Ignorable u) :
    dexpected p (us1 ++ u :: us2) = dexpected p (us1 ++ us2) ∧ dendPos p (us1 ++ u :: us2) = dendPos p (us1 ++ us2) := by
  have h1 := SL.dexpected_append p us1 (u :: us2)
  have h2 := SL.dexpected_append p us1 us2
  rw [h1.1, h1.2, h2.1, h2.2, SL.dexpected_cons _ u us2, SL.dendPos_cons _ u us2]
  have hone' : dexpected (dendPos p us1) [u] = [] ∧ dendPos (dendPos p us1) [u] = dendPos p us1 := by
    cases u with
    | single c => cases c <;> simp_all [Ignorable, dexpected, dendPos, changeNextTs]
    | _ => simp_all [Ignorable, dexpected, dendPos]
  rw [hone'.1, hone'.2]
  simp

/-- … including in the middle of a transaction -/
theorem C02_ignorable_in_tx (cs1 cs2 : List DChange) (c : DChange) (hc : c = .noise ∨ ∃ cat q n t, c = .unknownStmt cat q n t) :
    (cs1 ++ c :: cs2).filterMap seOf = (cs1 ++ cs2).filterMap seOf := by
  rcases hc with rfl | ⟨cat, q, n, t, rfl⟩ <;> simp [List.filterMap_append, List.filterMap_cons, seOf]

/-- boundary statements are recognised whatever their letter case: any statement whose first word lower-cases
    (ASCII) to the keyword — all 2^5, 2^6, 2^8 casings, with or without trailing text — gets the boundary category -/
theorem C02_case_insensitive (s : Bytes) :
    (bytesToLower (firstWord s) = asc "begin" → statementCategory s = Facts.StatementBegin) ∧
    (bytesToLower (firstWord s) = asc "commit" → statementCategory s = Facts.StatementCommit) ∧
    (bytesToLower (firstWord s) = asc "rollback" → statementCategory s = Facts.StatementRollback) := by
  refine ⟨fun h => ?_, fun h => ?_, fun h => ?_⟩ <;>
  · unfold statementCategory
    rw [h]
    decide

/-! non-vacuity -/
example : Idle (PState.init ⟨[98], 4⟩) := ⟨rfl, rfl⟩
example : WFUnit (.tx ⟨[], none, asc "BEGIN"⟩ 100 1 [.stmt Facts.StatementInsert ⟨[], none, asc "insert x"⟩ 150 1, .noise] .xid 200 2) := by
  intro c hc; simp at hc; rcases hc with rfl | rfl <;> simp [WFChange, isDML, Facts.StatementInsert, Facts.StatementDelete, Facts.StatementUpdate]
example : bytesToLower (firstWord (asc "BeGiN ")) = asc "begin" := by decide

end GV.Props.C02
