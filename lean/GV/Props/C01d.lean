import GV.Props.C01c
import GV.Lemmas.C01d
/-
  C01 (fourth part) — byte-level fidelity for a replica that RESUMES: it starts at any valid boundary p of the log
  (the head of any file, the first event of any unit, the end of the log) with an empty table cache and no format, and is
  sent what the Spec master serves for COM_BINLOG_DUMP(p): the artificial ROTATE naming p, a FORMAT_DESCRIPTION event
  (artificial when p is past a file head, the file's own when p is a file head), every laid-out event from p on, then
  the channel closes (DESIGN §7 C01).
  Property theorems and non-vacuity examples only; the vocabulary and all helper lemmas are in GV/Lemmas/C01d.lean
  (namespace GV.C01d), on top of GV/Lemmas/C01c.lean:

    logFiles h              the file names of the log: W.firstFile, then every ROTATE / restart target, in order
    unitsFrom cfg h p       the units served from p on: the last n units of h, n = the number of first-events-of-a-unit
                            among the events `W.fromPos (W.layout cfg h) p` (`unitsFrom_logEnd`: for h = h₁ ++ h₂ and p the
                            end of h₁ it is h₂; `unitsFrom_head`: from the head of the first file it is h)
    Lands cfg h p           `W.fromPos (W.layout cfg h) p` is empty or starts with the first event of a unit or with the
                            FORMAT_DESCRIPTION event at the head of a file
    WFFrom cfg h p          what is asked of the part served — NOTHING is asked of the units before p:
                              fileLen    27 + |p.file| (+ 4 with checksums) < 2^32 (the artificial ROTATE naming p.file)
                              units      UnitOK for the units of `unitsFrom cfg h p`
                              tables     one table per table id among their rows changes
                              announced  annOK [] over their rows changes: the resumed replica's table cache is empty, so
                                         a rows change needs its TABLE_MAP event unless its id was announced AT OR AFTER p
                              offsets    every event served ends below 2^32
    WFHistFrom cfg h p      WFFrom cfg h p, and `fresh`: at most one file of the log is named p.file
    logEnd cfg h            file and offset after the last laid-out event

  RESULTS
    C01_fidelity_bytes_resume        the statement asked for: p ∈ W.boundaries cfg h, WFHistFrom cfg h p, MapperAgrees env h
    C01_fidelity_bytes_resume_lands  the general form it follows from: ANY position p (boundary or not) for which `Lands`
                                     holds, WFFrom only, the mapper only asked about the units served
    C01_boundary_lands               p ∈ W.boundaries cfg h and `fresh` give `Lands cfg h p`
    C01_fidelity_bytes_resume_split  split formulation: h = h₁ ++ h₂, p = logEnd cfg h₁ (the first event of h₂, or the end
                                     of the log when h₂ = []), hypotheses on h₂ only; C01_split_served: there, the units
                                     served are h₂ and the events served are its layout
    C01_WFHistFrom_of_whole / _head  WFHistFrom from the vocabulary of Props/C01c (C01_fidelity_bytes_resume_of_whole: the
                                     resume theorem with these hypotheses); `C01_fidelity_bytes` is the instance
                                     p = ⟨W.firstFile, 4⟩
    C01_resume_concat(_calls)        resuming at the `next` label of the k-th transaction delivers exactly the rest, and
                                     ends at the same position
  Nothing is partial: the statement holds for EVERY boundary (file heads — where the master sends the file's own
  FORMAT_DESCRIPTION event — unit starts, end of log), checked by evaluation on a 14-unit history for all 18 boundaries
  and all 8 configurations before proving.  Two things a reader might not expect:

  (1) `fresh` is NEEDED, and the theorem is FALSE without it (`C01_resume_reused_name_refuted`): the Spec master finds p
      by FILE NAME (`W.fromPos` drops events until one is in a file named p.file at offset ≥ p.offset), so when a ROTATE
      reuses an earlier name, a boundary of the later file is looked up in the EARLIER file of that name and the dump
      starts in the middle of a transaction there (landing on a rows event without its table map the parser stops with
      an error; landing on an XID alone it delivers an empty transaction where the Spec expects the changes).
      `W.expected` is computed from the same `fromPos`, so this is an artefact of the Spec master's lookup, not a parser
      bug; with the name used once, `fromPos` lands exactly on the boundary event (`lands_of_boundary`).
  (2) `WFHist cfg h` (announcements counted from the head of the log) is NOT enough for a resume
      (`C01_resume_unannounced_refuted`): the non-vacuity history of Props/C01c, resumed at the head of its second
      file, serves a rows change whose TABLE_MAP event is in the first file only; the parser rejects it.
  Not needed, contrary to what one might expect: p.offset < 2^32 (the artificial ROTATE is skipped — no format yet —
  so the replica's position stays the one it was started with; its 8-byte position field is never decoded), and no
  bound on p.file beyond `fileLen` — which, for a boundary of a history whose units are all OK and whose events all end
  below 2^32, follows (`fileLen_of_whole`, used in `C01_WFHistFrom_of_whole`) from `UnitOK (.restart f)`, resp. from
  the ROTATE event's own end offset; it is an explicit field of `WFFrom` because nothing else is asked of the units
  before p.
-/
namespace GV.Props.C01d
open GV GV.M GV.Props.C01 GV.Props.C01b GV.C01c GV.Props.C01c GV.C01d

/-- RESUME version of byte-level fidelity (the full unit alphabet of the Spec; CRC32 on or off, v1 / v2 rows events,
    4- / 6-byte table ids): a replica that starts at ANY valid boundary p of the log — the head of any file, the start of
    any unit, the end of the log — with the handler accepting everything, and is sent exactly what the Spec master serves
    from there, calls the handler with exactly the transactions expected from p — same labels (the first one's `now` is
    p), timestamps, StreamEvents — in order, nothing else, and returns the expected end position without error or
    crash. -/
theorem C01_fidelity_bytes_resume (cfg : W.Cfg) (env : Env) (h : W.History) (p : W.Pos) (hp : p ∈ W.boundaries cfg h)
    (hwf : WFHistFrom cfg h p) (hm : MapperAgrees env h) :
    parseEvents env (fun _ => true) (PState.init (posOf p)) ((W.serve cfg h p).map Input.event ++ [Input.closed])
      = ⟨(W.expected cfg h p).map (toTx env.ext), (W.expected cfg h p).map (toTx env.ext),
         posOf (W.endPos cfg h p), false, false⟩ :=
  GV.C01d.resume_boundary cfg env h p hp hwf hm

/-- the general form: for ANY position p (on a boundary or not) from which the master starts serving at the first
    event of a unit, at a file head, or serves nothing; hypotheses on the served part only -/
theorem C01_fidelity_bytes_resume_lands (cfg : W.Cfg) (env : Env) (h : W.History) (p : W.Pos) (hl : Lands cfg h p)
    (hwf : WFFrom cfg h p) (hm : MapperAgrees env (unitsFrom cfg h p)) :
    parseEvents env (fun _ => true) (PState.init (posOf p)) ((W.serve cfg h p).map Input.event ++ [Input.closed])
      = ⟨(W.expected cfg h p).map (toTx env.ext), (W.expected cfg h p).map (toTx env.ext),
         posOf (W.endPos cfg h p), false, false⟩ :=
  GV.C01d.resume_lands cfg env h p hwf hl hm

/-- a boundary whose file name is used once is such a position -/
theorem C01_boundary_lands (cfg : W.Cfg) (h : W.History) (p : W.Pos) (hp : p ∈ W.boundaries cfg h)
    (hf : (logFiles h).count p.file ≤ 1) : Lands cfg h p :=
  GV.C01d.lands_of_boundary cfg h p hp hf

/-- split formulation: the history is h₁ ++ h₂ and the replica resumes where h₂'s first event is laid out (the end of
    the log when h₂ = []); nothing is asked of h₁ but that the name of its last file is used once in the log -/
theorem C01_fidelity_bytes_resume_split (cfg : W.Cfg) (env : Env) (h₁ h₂ : W.History)
    (fresh : (logFiles (h₁ ++ h₂)).count (logEnd cfg h₁).file ≤ 1)
    (fileLen : 27 + (logEnd cfg h₁).file.length + (if cfg.crc then 4 else 0) < 2 ^ 32)
    (units : ∀ u ∈ h₂, UnitOK cfg u)
    (tables : ∀ c1 ∈ histRows h₂, ∀ c2 ∈ histRows h₂, c1.table.id = c2.table.id → c1.table = c2.table)
    (announced : annOK [] (histRows h₂))
    (offsets : ∀ e ∈ W.layoutAux cfg (h₂.flatMap (W.unitEvs cfg)) (logEnd cfg h₁).file (logEnd cfg h₁).offset,
      e.next < 2 ^ 32)
    (hm : MapperAgrees env h₂) :
    parseEvents env (fun _ => true) (PState.init (posOf (logEnd cfg h₁)))
        ((W.serve cfg (h₁ ++ h₂) (logEnd cfg h₁)).map Input.event ++ [Input.closed])
      = ⟨(W.expected cfg (h₁ ++ h₂) (logEnd cfg h₁)).map (toTx env.ext),
         (W.expected cfg (h₁ ++ h₂) (logEnd cfg h₁)).map (toTx env.ext),
         posOf (W.endPos cfg (h₁ ++ h₂) (logEnd cfg h₁)), false, false⟩ :=
  GV.C01d.resume_split cfg env h₁ h₂ fresh fileLen units tables announced offsets hm

/-- … where the units served are exactly h₂, and the events served exactly its layout -/
theorem C01_split_served (cfg : W.Cfg) (h₁ h₂ : W.History)
    (fresh : (logFiles (h₁ ++ h₂)).count (logEnd cfg h₁).file ≤ 1) :
    unitsFrom cfg (h₁ ++ h₂) (logEnd cfg h₁) = h₂ ∧
    W.fromPos (W.layout cfg (h₁ ++ h₂)) (logEnd cfg h₁)
      = W.layoutAux cfg (h₂.flatMap (W.unitEvs cfg)) (logEnd cfg h₁).file (logEnd cfg h₁).offset :=
  ⟨unitsFrom_logEnd cfg h₁ h₂ fresh, fromPos_logEnd cfg h₁ h₂ fresh⟩

/-- in particular: as many handler calls as commit points from p on, every call accepted -/
theorem C01_fidelity_bytes_resume_count (cfg : W.Cfg) (env : Env) (h : W.History) (p : W.Pos)
    (hp : p ∈ W.boundaries cfg h) (hwf : WFHistFrom cfg h p) (hm : MapperAgrees env h) :
    let o := parseEvents env (fun _ => true) (PState.init (posOf p)) ((W.serve cfg h p).map Input.event ++ [Input.closed])
    o.calls.length = (W.expected cfg h p).length ∧ o.calls = o.accepted ∧ o.err = false := by
  intro o
  have := C01_fidelity_bytes_resume cfg env h p hp hwf hm
  simp only [o, this, List.length_map, and_self]

/-! sufficient conditions in the vocabulary of Props/C01c -/

/-- the head-of-log hypotheses on the whole history — but for the announcements, asked from p on only — plus `fresh`;
    the bound on the length of p's file name follows (from `UnitOK (.restart f)`, resp. from the ROTATE event's own
    end offset) -/
theorem C01_WFHistFrom_of_whole (cfg : W.Cfg) (h : W.History) (p : W.Pos) (hp : p ∈ W.boundaries cfg h)
    (units : ∀ u ∈ h, UnitOK cfg u)
    (tables : ∀ c1 ∈ histRows h, ∀ c2 ∈ histRows h, c1.table.id = c2.table.id → c1.table = c2.table)
    (offsets : ∀ e ∈ W.layout cfg h, e.next < 2 ^ 32)
    (announced : annOK [] (histRows (unitsFrom cfg h p)))
    (fresh : (logFiles h).count p.file ≤ 1) : WFHistFrom cfg h p :=
  wfHistFrom_of_whole cfg h p units tables offsets announced (fileLen_of_whole cfg h p hp units offsets) fresh

/-- the resume theorem in the vocabulary of Props/C01c alone: `WFHist` with its announcements asked from p on instead
    of from the head, and p's file name used once -/
theorem C01_fidelity_bytes_resume_of_whole (cfg : W.Cfg) (env : Env) (h : W.History) (p : W.Pos)
    (hp : p ∈ W.boundaries cfg h) (units : ∀ u ∈ h, UnitOK cfg u)
    (tables : ∀ c1 ∈ histRows h, ∀ c2 ∈ histRows h, c1.table.id = c2.table.id → c1.table = c2.table)
    (offsets : ∀ e ∈ W.layout cfg h, e.next < 2 ^ 32)
    (announced : annOK [] (histRows (unitsFrom cfg h p)))
    (fresh : (logFiles h).count p.file ≤ 1) (hm : MapperAgrees env h) :
    parseEvents env (fun _ => true) (PState.init (posOf p)) ((W.serve cfg h p).map Input.event ++ [Input.closed])
      = ⟨(W.expected cfg h p).map (toTx env.ext), (W.expected cfg h p).map (toTx env.ext),
         posOf (W.endPos cfg h p), false, false⟩ :=
  C01_fidelity_bytes_resume cfg env h p hp
    (C01_WFHistFrom_of_whole cfg h p hp units tables offsets announced fresh) hm

/-- at the head of the first file the resume hypothesis is `WFHist` (plus: the first file's name is not reused), and
    everything is served: `C01_fidelity_bytes` is the instance p = ⟨W.firstFile, 4⟩ -/
theorem C01_WFHistFrom_head (cfg : W.Cfg) (h : W.History) (hwf : WFHist cfg h)
    (fresh : (logFiles h).count W.firstFile ≤ 1) :
    WFHistFrom cfg h ⟨W.firstFile, 4⟩ ∧ unitsFrom cfg h ⟨W.firstFile, 4⟩ = h :=
  ⟨wfHistFrom_head cfg h hwf fresh, unitsFrom_head cfg h⟩

/-! resuming at the `next` label of a delivered transaction -/

/-- Spec side: the transactions expected from the head of the log are the first k+1 of them followed by exactly those
    expected from p, the `next` label of the k-th one (when the name of p's file is used once) -/
theorem C01_resume_concat (cfg : W.Cfg) (h : W.History) (p : W.Pos) (k : Nat)
    (hk : ((W.expected cfg h ⟨W.firstFile, 4⟩)[k]?).map (·.next) = some p)
    (hf : (logFiles h).count p.file ≤ 1) :
    W.expected cfg h ⟨W.firstFile, 4⟩ = (W.expected cfg h ⟨W.firstFile, 4⟩).take (k + 1) ++ W.expected cfg h p :=
  expected_concat cfg h p k hk hf

/-- replica side: a replica run from the head of the log calls its handler with the first k+1 transactions followed by
    exactly the calls of a replica resumed at p, the `next` label of the k-th transaction — restarting a replica at the
    last position it was handed loses nothing and repeats nothing -/
theorem C01_resume_concat_calls (cfg : W.Cfg) (env : Env) (h : W.History) (p : W.Pos) (k : Nat)
    (hwf : WFHist cfg h) (hm : MapperAgrees env h) (hp : p ∈ W.boundaries cfg h) (hwfp : WFHistFrom cfg h p)
    (hk : ((W.expected cfg h ⟨W.firstFile, 4⟩)[k]?).map (·.next) = some p) :
    let fromHead := parseEvents env (fun _ => true) (PState.init ⟨W.firstFile, 4⟩)
      ((W.serve cfg h ⟨W.firstFile, 4⟩).map Input.event ++ [Input.closed])
    let fromP := parseEvents env (fun _ => true) (PState.init (posOf p))
      ((W.serve cfg h p).map Input.event ++ [Input.closed])
    fromHead.calls = fromHead.calls.take (k + 1) ++ fromP.calls ∧ fromHead.pos = fromP.pos := by
  intro fromHead fromP
  have h1 : fromHead = _ := C01_fidelity_bytes cfg env h hwf hm
  have h2 : fromP = _ := C01_fidelity_bytes_resume cfg env h p hp hwfp hm
  have h3 := C01_resume_concat cfg h p k hk hwfp.fresh
  refine ⟨?_, ?_⟩
  · rw [h1, h2]
    simp only
    rw [← List.map_take, ← List.map_append, ← h3]
  · rw [h1, h2]
    simp only
    rw [endPos_concat cfg h p k hk hwfp.fresh]

/-! ### (1) `fresh` is needed: the theorem is false when a ROTATE reuses a file name -/

def exEnv : Env := ⟨⟨fun _ => [], fun _ => [], fun _ => [], fun _ => 0⟩, fun _ _ => some (infoOf exTable)⟩

/-- a transaction in the first file, then a ROTATE that reuses the first file's name, then a DDL -/
def exReuse : W.History := [.tx (asc "BEGIN") [.rows exC1] (.xid 9) 90, .rotate W.firstFile, .ddl exDdl]
/-- the end of that log: offset 173 of the SECOND file named bin.000001.  The master looks it up in the FIRST file of
    that name and starts the dump at offset 203 there: the rows event of the transaction, without its TABLE_MAP -/
def exReuseEnd : W.Pos := ⟨W.firstFile, 173⟩

theorem exReuseWF : WFHist {} exReuse := by
  refine ⟨?_, by decide, ⟨Or.inl rfl, trivial⟩, by decide⟩
  intro u hu
  simp only [exReuse, List.mem_cons, List.not_mem_nil, or_false] at hu
  rcases hu with rfl | rfl | rfl
  · refine ⟨by decide, ?_, trivial, by decide⟩
    intro c hc
    simp only [List.mem_cons, List.not_mem_nil, or_false] at hc
    subst hc
    exact ⟨exC1OK, by decide⟩
  · trivial
  · exact ⟨exDdlOK, by unfold isChangeCat; decide⟩

theorem exReuseUnits : unitsFrom {} exReuse exReuseEnd = [.rotate W.firstFile, .ddl exDdl] := by decide

theorem exReuseFrom : WFFrom {} exReuse exReuseEnd := by
  refine ⟨by decide, ?_, ?_, ?_, by decide⟩
  · rw [exReuseUnits]
    intro u hu
    simp only [List.mem_cons, List.not_mem_nil, or_false] at hu
    rcases hu with rfl | rfl
    · trivial
    · exact ⟨exDdlOK, by unfold isChangeCat; decide⟩
  · rw [exReuseUnits]; decide
  · rw [exReuseUnits]; trivial

theorem exReuseMapper : MapperAgrees exEnv exReuse := by
  intro c hc
  simp [exReuse, histRows, unitRows, changeRows] at hc
  subst hc; rfl

set_option maxRecDepth 100000 in
/-- every hypothesis of `C01_fidelity_bytes_resume` but `fresh` — and even `WFHist` for the whole history on top —
    does not give the conclusion: the run on `exReuse` from its end boundary returns an error -/
theorem C01_resume_reused_name_refuted :
    ¬ (∀ (cfg : W.Cfg) (env : Env) (h : W.History) (p : W.Pos), p ∈ W.boundaries cfg h → WFHist cfg h → WFFrom cfg h p →
        MapperAgrees env h →
        parseEvents env (fun _ => true) (PState.init (posOf p)) ((W.serve cfg h p).map Input.event ++ [Input.closed])
          = ⟨(W.expected cfg h p).map (toTx env.ext), (W.expected cfg h p).map (toTx env.ext),
             posOf (W.endPos cfg h p), false, false⟩) := by
  intro hall
  have h := hall {} exEnv exReuse exReuseEnd (List.mem_of_getElem? (i := 5) (by decide)) exReuseWF exReuseFrom
    exReuseMapper
  have herr := congrArg Outcome.err h
  revert herr
  decide

/-! ### (2) announcements counted from the head of the log are not enough -/

set_option maxRecDepth 100000 in
/-- `exHist` of Props/C01c (its last unit, in the second file, relies on the TABLE_MAP event sent in the first file)
    satisfies `WFHist`, has pairwise distinct file names, and its mapper agrees; resumed at the head of the second
    file the run returns an error -/
theorem C01_resume_unannounced_refuted :
    ¬ (∀ (cfg : W.Cfg) (env : Env) (h : W.History) (p : W.Pos), p ∈ W.boundaries cfg h → WFHist cfg h →
        (logFiles h).Nodup → MapperAgrees env h →
        parseEvents env (fun _ => true) (PState.init (posOf p)) ((W.serve cfg h p).map Input.event ++ [Input.closed])
          = ⟨(W.expected cfg h p).map (toTx env.ext), (W.expected cfg h p).map (toTx env.ext),
             posOf (W.endPos cfg h p), false, false⟩) := by
  intro hall
  have h := hall {} exEnv exHist ⟨asc "bin.000002", 4⟩ (List.mem_of_getElem? (i := 5) (by decide)) exWF (by decide)
    exMapper
  have herr := congrArg Outcome.err h
  revert herr
  decide

/-! ### non-vacuity: eight units in two files; the replica resumes in the second file, at the start of the
    autocommitted rows change (announced there) on whose TABLE_MAP event the last transaction's rows change relies -/

def exC2a : W.RowsChange := { exC2 with announce := true }
def exHistR : W.History :=
  [.gtid (List.replicate 16 3) 5, .tx (asc "BEGIN") [.rows exC1, .stmt exIns] (.xid 9) 90, .ddl exDdl,
   .rotate (asc "bin.000002"), .heartbeat, .autoRows exC2a,
   .tx (asc "BEGIN") [.rows exC2, .stmt exIns] (.commit (asc "COMMIT")) 95, .ddl exDdl]
/-- the start of `.autoRows exC2a`: behind the FORMAT_DESCRIPTION event and the heartbeat of the second file -/
def exP : W.Pos := ⟨asc "bin.000002", 146⟩
/-- the start of the last DDL: the `next` label of the COMMIT-closed transaction -/
def exQ : W.Pos := ⟨asc "bin.000002", 402⟩

theorem exPBoundary : exP ∈ W.boundaries {} exHistR := List.mem_of_getElem? (i := 7) (by decide)
theorem exQBoundary : exQ ∈ W.boundaries {} exHistR := List.mem_of_getElem? (i := 9) (by decide)

theorem exC2aOK : RowsOK {} exC2a :=
  ⟨exC2OK.table, exC2OK.pb, exC2OK.pa, exC2OK.flags, exC2OK.extra, exC2OK.ts, exC2OK.images, exC2OK.wide⟩

theorem exLastTxOK : UnitOK {} (.tx (asc "BEGIN") [.rows exC2, .stmt exIns] (.commit (asc "COMMIT")) 95) := by
  refine ⟨by decide, ?_, (by show statementCategory _ = _; decide), by decide⟩
  intro c hc
  simp only [List.mem_cons, List.not_mem_nil, or_false] at hc
  rcases hc with rfl | rfl
  · exact ⟨exC2OK, by decide⟩
  · exact ⟨exInsOK, by unfold isChangeCat; decide⟩

theorem exUnitsFromP : unitsFrom {} exHistR exP
    = [.autoRows exC2a, .tx (asc "BEGIN") [.rows exC2, .stmt exIns] (.commit (asc "COMMIT")) 95, .ddl exDdl] := by
  decide

theorem exWFFromP : WFHistFrom {} exHistR exP := by
  refine ⟨⟨by decide, ?_, ?_, ?_, by decide⟩, by decide⟩
  · rw [exUnitsFromP]
    intro u hu
    simp only [List.mem_cons, List.not_mem_nil, or_false] at hu
    rcases hu with rfl | rfl | rfl
    · exact ⟨exC2aOK, by decide⟩
    · exact exLastTxOK
    · exact ⟨exDdlOK, by unfold isChangeCat; decide⟩
  · rw [exUnitsFromP]; decide
  · rw [exUnitsFromP]; exact ⟨Or.inl rfl, Or.inr (by decide), trivial⟩

theorem exMapperR : MapperAgrees exEnv exHistR := by
  intro c hc
  simp [exHistR, histRows, unitRows, changeRows] at hc
  rcases hc with rfl | rfl | rfl <;> rfl

example : parseEvents exEnv (fun _ => true) (PState.init (posOf exP))
      ((W.serve {} exHistR exP).map Input.event ++ [Input.closed])
    = ⟨(W.expected {} exHistR exP).map (toTx exEnv.ext), (W.expected {} exHistR exP).map (toTx exEnv.ext),
       posOf (W.endPos {} exHistR exP), false, false⟩ :=
  C01_fidelity_bytes_resume {} _ exHistR exP exPBoundary exWFFromP exMapperR
/-- three transactions are delivered from exP, the first one labelled exP -/
example : (W.expected {} exHistR exP).map (fun t => (t.now, t.next.offset, t.changes.length))
    = [(exP, 223, 1), (⟨asc "bin.000002", 223⟩, 402, 2), (exQ, 450, 1)] := by decide

/-! … and for the concatenation: the whole history satisfies the head-of-log hypothesis, exQ is the `next` label of the
    fourth of the five transactions delivered from the head -/

theorem exWFR : WFHist {} exHistR := by
  refine ⟨?_, by decide, ?_, by decide⟩
  · intro u hu
    simp only [exHistR, List.mem_cons, List.not_mem_nil, or_false] at hu
    rcases hu with rfl | rfl | rfl | rfl | rfl | rfl | rfl | rfl
    · trivial
    · refine ⟨by decide, ?_, trivial, by decide⟩
      intro c hc
      simp only [List.mem_cons, List.not_mem_nil, or_false] at hc
      rcases hc with rfl | rfl
      · exact ⟨exC1OK, by decide⟩
      · exact ⟨exInsOK, by unfold isChangeCat; decide⟩
    · exact ⟨exDdlOK, by unfold isChangeCat; decide⟩
    · trivial
    · trivial
    · exact ⟨exC2aOK, by decide⟩
    · exact exLastTxOK
    · exact ⟨exDdlOK, by unfold isChangeCat; decide⟩
  · exact ⟨Or.inl rfl, Or.inl rfl, Or.inr (by decide), trivial⟩

/-- the same run, from the whole-history hypotheses -/
example := C01_fidelity_bytes_resume_of_whole {} exEnv exHistR exP exPBoundary exWFR.units exWFR.tables exWFR.offsets
  exWFFromP.announced exWFFromP.fresh exMapperR

theorem exUnitsFromQ : unitsFrom {} exHistR exQ = [.ddl exDdl] := by decide

theorem exWFFromQ : WFHistFrom {} exHistR exQ := by
  refine ⟨⟨by decide, ?_, ?_, ?_, by decide⟩, by decide⟩
  · rw [exUnitsFromQ]
    intro u hu
    simp only [List.mem_cons, List.not_mem_nil, or_false] at hu
    subst hu
    exact ⟨exDdlOK, by unfold isChangeCat; decide⟩
  · rw [exUnitsFromQ]; decide
  · rw [exUnitsFromQ]; trivial

theorem exNextQ : ((W.expected {} exHistR ⟨W.firstFile, 4⟩)[3]?).map (·.next) = some exQ := by decide

example :
    let fromHead := parseEvents exEnv (fun _ => true) (PState.init ⟨W.firstFile, 4⟩)
      ((W.serve {} exHistR ⟨W.firstFile, 4⟩).map Input.event ++ [Input.closed])
    let fromQ := parseEvents exEnv (fun _ => true) (PState.init (posOf exQ))
      ((W.serve {} exHistR exQ).map Input.event ++ [Input.closed])
    fromHead.calls = fromHead.calls.take 4 ++ fromQ.calls ∧ fromHead.pos = fromQ.pos :=
  C01_resume_concat_calls {} exEnv exHistR exQ 3 exWFR exMapperR exQBoundary exWFFromQ exNextQ
example : (W.expected {} exHistR ⟨W.firstFile, 4⟩).length = 5 ∧ (W.expected {} exHistR exQ).length = 1 := by decide

end GV.Props.C01d
