import GV.Props.C13b
import GV.Lemmas.C10b
/-
  C10 (byte level, END TO END) — integers, YEAR, BIT, ENUM, SET, FLOAT, DOUBLE as the HANDLER receives them; in particular
  the signedness of an integer column comes from the table MAPPER's flag for the column's TABLE ordinal, through the
  whole chain mapper → table cache → row conversion → decoder, in both images, full or partial (DESIGN §7 C10).
  Corollaries of `C01_fidelity_bytes` + `GV.C13b.delivered_value` (what is delivered at a site) and the value theorems of
  GV/Props/C10.lean (which `GV.C09R.cell_exact`, hence `C01_classify_rows`, is built from).  Property theorems and
  non-vacuity examples only; helper lemmas (inversion of `W.CellOK` per column type) in GV/Lemmas/C10b.lean.
  Vocabulary (`runCalls`, `deliveredCol`, `written`, `Site`, `presentOf`, `ordOf`): see GV/Props/C13b.lean.

  On the Spec side an integer value is `.uint w n` (stored in an UNSIGNED column) or `.int w z` (signed column); a
  history is well-formed only if the form agrees with the mapper's flag (`W.CellOK`).  The byte-level reading of the
  property is `C10_bytes_signedness_from_mapper`: the cell is `w` little-endian bytes `raw`, and the handler gets the
  decimal text of `raw` if the mapper marks ordinal j unsigned, of its two's-complement reading otherwise.
  Nothing skipped: YEAR, BIT, ENUM (both encodings), SET (packed and raw), FLOAT, DOUBLE all follow immediately.
  `C10_bytes_signedness_by_image_ordinal_refuted`: the variant that takes the flag of the value's ordinal INSIDE a
  partial image (instead of the table ordinal j) is false — concrete counterexample in `rHist`.
  Checked by evaluation first (/tmp/c10b/e1.lean, e4.lean): run = expected on `rHist` and `qHist`, columns as stated.
-/
namespace GV.Props.C10b
open GV GV.M GV.Props.C01 GV.Props.C01b GV.Props.C09b GV.C01c GV.C13b GV.C10b

/-- SIGNEDNESS FROM THE MAPPER, end to end.  Table column j is an integer column of width w (type codes 1, 2, 9, 3, 8)
    and holds a value v in the image at hand (after or before image, full or partial — v then sits at image ordinal
    `ordOf (presentOf c after) j`, not j).  Then: the table mapper was asked for the table and answered `ti`, whose
    j-th entry carries the flag `u` (= the Spec table's `unsigned[j]`); the cell the master wrote is the w bytes
    `ofLE w raw`; and the handler receives the decimal text of `raw` itself iff u is set, of its two's-complement
    reading `toSigned (8w) raw` otherwise.  The Spec value is `.uint w raw` resp. `.int w (toSigned (8w) raw)`, and the
    text is the Spec's canonical text (`C10.C10_matches_spec_text`). -/
theorem C10_bytes_signedness_from_mapper (cfg : W.Cfg) (env : Env) (h : W.History) (hwf : WFHist cfg h)
    (hm : MapperAgrees env h) (i k : Nat) (c : W.RowsChange) (after : Bool) (r j : Nat)
    (hs : Site cfg h i k c after r j) (w : Nat) (v : W.CellVal)
    (hw : (w, (c.table.cols[j]'hs.col).typ) ∈ Props.C10.intTypes)
    (hv : written c after r j = .value v) :
    ∃ cd ti u raw, deliveredCol (runCalls cfg env h) i k after r j = some cd ∧
      env.mapper c.table.db c.table.name = some ti ∧ ti.columns[j]? = some (cd.field, u) ∧
      c.table.unsigned[j]? = some u ∧
      raw < 2 ^ (8 * w) ∧
      W.cell (c.table.cols[j]'hs.col).typ (c.table.cols[j]'hs.col).md v = Bytes.ofLE w raw ∧
      cd.col = .value (if u then natDec raw else intDec (toSigned (8 * w) raw)) ∧
      (u = true → v = .uint w raw) ∧
      (u = false → v = .int w (toSigned (8 * w) raw) ∧ InRange w (toSigned (8 * w) raw)) ∧
      cd.col = .value (textOf env.ext (c.table.cols[j]'hs.col).md v) := by
  obtain ⟨hmem, _⟩ := site_rowsOK hwf hs
  obtain ⟨n, u, hn, hu, hok, hd⟩ := delivered_value cfg env h hwf hm i k c after r j hs v hv
  obtain ⟨raw, h1, h2, h3, h4, h5⟩ := int_raw w _ _ u v hw hok (fun sec => printTimestamp env.ext sec)
    env.ext.fmtFloat32 env.ext.fmtFloat64
  refine ⟨_, infoOf c.table, u, raw, hd, hm c hmem, ?_, hu, h1, h2, ?_, h3, h4, rfl⟩
  · simp only [infoOf, List.getElem?_zip_eq_some]
    exact ⟨hn, hu⟩
  · show Col.value (textOf env.ext _ v) = _
    rw [← h5]
    rfl

/-- … and the flag is observable: whenever the top bit of the stored bytes is set the two readings have different
    texts, so a wrong flag anywhere along the chain would change what the handler gets -/
theorem C10_bytes_signedness_matters (w raw : Nat) (hr : raw < 2 ^ (8 * w)) (htop : 2 ^ (8 * w - 1) ≤ raw) :
    natDec raw ≠ intDec (toSigned (8 * w) raw) :=
  readings_differ (8 * w) raw hr htop

/-- the texts are those of GV/Props/C10.lean: what `cellBytes` returns on the cell for either flag -/
theorem C10_bytes_int_text_is_C10 (E : Ext) (w typ md : Nat) (hw : (w, typ) ∈ Props.C10.intTypes) (raw : Nat)
    (hr : raw < 2 ^ (8 * w)) (z : Int) (hz : InRange w z) (rest : Bytes) :
    cellBytes E (W.cell typ md (.uint w raw) ++ rest) 0 typ md true = .ok (natDec raw, w) ∧
    cellBytes E (W.cell typ md (.int w z) ++ rest) 0 typ md false = .ok (intDec z, w) :=
  ⟨Props.C10.C10_int_unsigned E w typ md hw raw hr rest, Props.C10.C10_int_signed E w typ md hw z hz rest⟩

/-- YEAR (type 13): one byte b; "0000" for 0, 1900 + b otherwise -/
theorem C10_bytes_year (cfg : W.Cfg) (env : Env) (h : W.History) (hwf : WFHist cfg h)
    (hm : MapperAgrees env h) (i k : Nat) (c : W.RowsChange) (after : Bool) (r j : Nat)
    (hs : Site cfg h i k c after r j) (v : W.CellVal)
    (ht : (c.table.cols[j]'hs.col).typ = 13) (hv : written c after r j = .value v) :
    ∃ cd b, deliveredCol (runCalls cfg env h) i k after r j = some cd ∧ v = .year b ∧ b < 256 ∧
      cd.col = .value (if b = 0 then asc "0000" else natDec (1900 + b)) := by
  obtain ⟨n, u, _, _, hok, hd⟩ := delivered_value cfg env h hwf hm i k c after r j hs v hv
  rw [ht] at hok
  obtain ⟨b, rfl, hb⟩ := inv_year _ _ _ hok
  exact ⟨_, b, hd, rfl, hb, rfl⟩

/-- BIT(n) (type 16), 1 ≤ n ≤ 64: the ⌈n/8⌉ big-endian bytes verbatim -/
theorem C10_bytes_bit (cfg : W.Cfg) (env : Env) (h : W.History) (hwf : WFHist cfg h)
    (hm : MapperAgrees env h) (i k : Nat) (c : W.RowsChange) (after : Bool) (r j : Nat)
    (hs : Site cfg h i k c after r j) (v : W.CellVal)
    (ht : (c.table.cols[j]'hs.col).typ = 16) (hv : written c after r j = .value v) :
    ∃ cd bs nbits, deliveredCol (runCalls cfg env h) i k after r j = some cd ∧ v = .bit bs ∧
      1 ≤ nbits ∧ nbits ≤ 64 ∧ (c.table.cols[j]'hs.col).md = nbits / 8 * 256 + nbits % 8 ∧
      bs.length = (nbits + 7) / 8 ∧ cd.col = .value bs := by
  obtain ⟨n, u, _, _, hok, hd⟩ := delivered_value cfg env h hwf hm i k c after r j hs v hv
  rw [ht] at hok
  obtain ⟨bs, nbits, rfl, h1, h2, h3, h4⟩ := inv_bit _ _ _ hok
  exact ⟨_, bs, nbits, hd, rfl, h1, h2, h3, h4, rfl⟩

/-- ENUM, as TypeEnum (247, metadata = width) or packed into TypeString metadata (254, high metadata byte 247): the
    member index as decimal text -/
theorem C10_bytes_enum (cfg : W.Cfg) (env : Env) (h : W.History) (hwf : WFHist cfg h)
    (hm : MapperAgrees env h) (i k : Nat) (c : W.RowsChange) (after : Bool) (r j : Nat)
    (hs : Site cfg h i k c after r j) (v : W.CellVal)
    (ht : (c.table.cols[j]'hs.col).typ = 247 ∨
          ((c.table.cols[j]'hs.col).typ = 254 ∧ (c.table.cols[j]'hs.col).md / 256 = 247))
    (hv : written c after r j = .value v) :
    ∃ cd w n, deliveredCol (runCalls cfg env h) i k after r j = some cd ∧ v = .enum w n ∧
      (w = 1 ∨ w = 2) ∧ n < 256 ^ w ∧ (c.table.cols[j]'hs.col).md % 256 = w ∧ cd.col = .value (natDec n) := by
  obtain ⟨_, u, _, _, hok, hd⟩ := delivered_value cfg env h hwf hm i k c after r j hs v hv
  obtain ⟨w, n, rfl, h1, h2, h3⟩ := inv_enum _ _ _ _ ht hok
  exact ⟨_, w, n, hd, rfl, h1, h2, h3, rfl⟩

/-- SET packed into TypeString metadata (254, high metadata byte 248): the member bitmask as decimal text -/
theorem C10_bytes_set (cfg : W.Cfg) (env : Env) (h : W.History) (hwf : WFHist cfg h)
    (hm : MapperAgrees env h) (i k : Nat) (c : W.RowsChange) (after : Bool) (r j : Nat)
    (hs : Site cfg h i k c after r j) (v : W.CellVal)
    (ht : (c.table.cols[j]'hs.col).typ = 254) (hmd : (c.table.cols[j]'hs.col).md / 256 = 248)
    (hv : written c after r j = .value v) :
    ∃ cd w n, deliveredCol (runCalls cfg env h) i k after r j = some cd ∧ v = .set w n ∧
      1 ≤ w ∧ w ≤ 8 ∧ n < 256 ^ w ∧ (c.table.cols[j]'hs.col).md % 256 = w ∧ cd.col = .value (natDec n) := by
  obtain ⟨_, u, _, _, hok, hd⟩ := delivered_value cfg env h hwf hm i k c after r j hs v hv
  rw [ht] at hok
  obtain ⟨w, n, rfl, h1, h2, h3, h4⟩ := inv_set _ _ _ hmd hok
  exact ⟨_, w, n, hd, rfl, h1, h2, h3, h4, rfl⟩

/-- TypeSet proper (248): the raw bytes -/
theorem C10_bytes_set_raw (cfg : W.Cfg) (env : Env) (h : W.History) (hwf : WFHist cfg h)
    (hm : MapperAgrees env h) (i k : Nat) (c : W.RowsChange) (after : Bool) (r j : Nat)
    (hs : Site cfg h i k c after r j) (v : W.CellVal)
    (ht : (c.table.cols[j]'hs.col).typ = 248) (hv : written c after r j = .value v) :
    ∃ cd bs, deliveredCol (runCalls cfg env h) i k after r j = some cd ∧ v = .bit bs ∧
      bs.length = (c.table.cols[j]'hs.col).md ∧ cd.col = .value bs := by
  obtain ⟨_, u, _, _, hok, hd⟩ := delivered_value cfg env h hwf hm i k c after r j hs v hv
  rw [ht] at hok
  obtain ⟨bs, rfl, _, h2⟩ := inv_setraw _ _ _ hok
  exact ⟨_, bs, hd, rfl, h2, rfl⟩

/-- FLOAT (type 4) (partial in the sense of `C10.C10_float_partial`: strconv.AppendFloat is the parameter
    `env.ext.fmtFloat32`): the handler gets the formatter's text for exactly the stored IEEE bit pattern -/
theorem C10_bytes_float (cfg : W.Cfg) (env : Env) (h : W.History) (hwf : WFHist cfg h)
    (hm : MapperAgrees env h) (i k : Nat) (c : W.RowsChange) (after : Bool) (r j : Nat)
    (hs : Site cfg h i k c after r j) (v : W.CellVal)
    (ht : (c.table.cols[j]'hs.col).typ = 4) (hv : written c after r j = .value v) :
    ∃ cd bits, deliveredCol (runCalls cfg env h) i k after r j = some cd ∧ v = .f32 bits ∧ bits < 2 ^ 32 ∧
      cd.col = .value (env.ext.fmtFloat32 bits) := by
  obtain ⟨_, u, _, _, hok, hd⟩ := delivered_value cfg env h hwf hm i k c after r j hs v hv
  rw [ht] at hok
  obtain ⟨b, rfl, hb⟩ := inv_f32 _ _ _ hok
  exact ⟨_, b, hd, rfl, hb, rfl⟩

/-- DOUBLE (type 5), likewise with `env.ext.fmtFloat64` -/
theorem C10_bytes_double (cfg : W.Cfg) (env : Env) (h : W.History) (hwf : WFHist cfg h)
    (hm : MapperAgrees env h) (i k : Nat) (c : W.RowsChange) (after : Bool) (r j : Nat)
    (hs : Site cfg h i k c after r j) (v : W.CellVal)
    (ht : (c.table.cols[j]'hs.col).typ = 5) (hv : written c after r j = .value v) :
    ∃ cd bits, deliveredCol (runCalls cfg env h) i k after r j = some cd ∧ v = .f64 bits ∧ bits < 2 ^ 64 ∧
      cd.col = .value (env.ext.fmtFloat64 bits) := by
  obtain ⟨_, u, _, _, hok, hd⟩ := delivered_value cfg env h hwf hm i k c after r j hs v hv
  rw [ht] at hok
  obtain ⟨b, rfl, hb⟩ := inv_f64 _ _ _ hok
  exact ⟨_, b, hd, rfl, hb, rfl⟩

/-! non-vacuity, on `rHist` (GV/Lemmas/C13b.lean): column 0 is INT UNSIGNED, column 1 INT (signed).
    In the WRITE `rC2` (second transaction) the after image is partial — columns 1, 2, 4 — so the signed column 1 sits
    at image ordinal 0, the ordinal of the UNSIGNED column in the table: the handler still gets "-1". -/

theorem site_unsigned : Site {} rHist 0 0 rC1 true 0 0 := ⟨site_tx_of_bind (by decide), by decide, by decide, by decide⟩
theorem site_signed_partial : Site {} rHist 1 0 rC2 true 0 1 :=
  ⟨site_tx_of_bind (by decide), by decide, by decide, by decide⟩

example : ∃ cd, deliveredCol (runCalls {} rEnv rHist) 0 0 true 0 0 = some cd ∧ cd.col = .value (natDec 4000000000) := by
  obtain ⟨cd, _, u, raw, h1, _, _, h4, _, _, h7, h8, _⟩ :=
    C10_bytes_signedness_from_mapper {} rEnv rHist rWF rMapper 0 0 rC1 true 0 0 site_unsigned 4
      (.uint 4 4000000000) (by decide) (by decide)
  have hu : u = true := by
    have : rC1.table.unsigned[0]? = some true := by decide
    rw [this] at h4
    exact (Option.some.inj h4).symm
  subst hu
  have := h8 rfl
  injection this with _ hr
  subst hr
  exact ⟨cd, h1, h7⟩

example : ∃ cd, deliveredCol (runCalls {} rEnv rHist) 1 0 true 0 1 = some cd ∧ cd.col = .value (intDec (-1)) := by
  obtain ⟨cd, _, _, _, h1, _, _, _, _, _, _, _, _, h10⟩ :=
    C10_bytes_signedness_from_mapper {} rEnv rHist rWF rMapper 1 0 rC2 true 0 1 site_signed_partial 4
      (.int 4 (-1)) (by decide) (by decide)
  exact ⟨cd, h1, h10⟩

example (E : Ext) (rest : Bytes) :
    cellBytes E (W.cell 3 0 (.uint 4 4000000000) ++ rest) 0 3 0 true = .ok (natDec 4000000000, 4) ∧
    cellBytes E (W.cell 3 0 (.int 4 (-5)) ++ rest) 0 3 0 false = .ok (intDec (-5), 4) :=
  C10_bytes_int_text_is_C10 E 4 3 0 (by decide) 4000000000 (by decide) (-5) (by unfold InRange; decide) rest

example : natDec 4294967295 ≠ intDec (toSigned (8 * 4) 4294967295) :=
  C10_bytes_signedness_matters 4 4294967295 (by decide) (by decide)

/-- it is the flag of the TABLE ordinal j that counts, not that of the ordinal the value has INSIDE a partial image: the
    variant of `C10_bytes_signedness_from_mapper` that looks the flag up at `ordOf (presentOf c after) j` is false.
    Counterexample: the WRITE `rC2` of `rHist`, whose after image holds columns 1, 2, 4 — the signed INT column 1 sits at
    image ordinal 0, and table ordinal 0 is INT UNSIGNED; the bytes ff ff ff ff are delivered as "-1", not "4294967295". -/
theorem C10_bytes_signedness_by_image_ordinal_refuted :
    ¬ (∀ (cfg : W.Cfg) (env : Env) (h : W.History) (_ : WFHist cfg h) (_ : MapperAgrees env h) (i k : Nat)
        (c : W.RowsChange) (after : Bool) (r j : Nat) (hs : Site cfg h i k c after r j) (w : Nat) (v : W.CellVal)
        (_ : (w, (c.table.cols[j]'hs.col).typ) ∈ Props.C10.intTypes) (_ : written c after r j = .value v),
        ∃ cd u raw, deliveredCol (runCalls cfg env h) i k after r j = some cd ∧
          c.table.unsigned[ordOf (presentOf c after) j]? = some u ∧ raw < 2 ^ (8 * w) ∧
          W.cell (c.table.cols[j]'hs.col).typ (c.table.cols[j]'hs.col).md v = Bytes.ofLE w raw ∧
          cd.col = .value (if u then natDec raw else intDec (toSigned (8 * w) raw))) := by
  intro hall
  obtain ⟨cd, u, raw, h1, h2, h3, h4, h5⟩ := hall {} rEnv rHist rWF rMapper 1 0 rC2 true 0 1 site_signed_partial 4
    (.int 4 (-1)) (by decide) (by decide)
  obtain ⟨cd', _, _, _, h1', _, _, _, _, _, _, _, _, h10⟩ :=
    C10_bytes_signedness_from_mapper {} rEnv rHist rWF rMapper 1 0 rC2 true 0 1 site_signed_partial 4
      (.int 4 (-1)) (by decide) (by decide)
  rw [h1] at h1'
  obtain rfl := Option.some.inj h1'
  have hu : u = true := by
    have : rC2.table.unsigned[ordOf (presentOf rC2 true) 1]? = some true := by decide
    rw [this] at h2
    exact (Option.some.inj h2).symm
  subst hu
  have hraw : raw = 4294967295 := by
    have e : W.cell (rC2.table.cols[1]).typ (rC2.table.cols[1]).md (.int 4 (-1)) = Bytes.ofLE 4 4294967295 := by decide
    rw [e] at h4
    exact (GV.C09c.ofLE_inj 4 4294967295 raw (by decide) (by simpa using h3) h4).symm
  subst hraw
  rw [h5] at h10
  have hne := C10_bytes_signedness_matters 4 4294967295 (by decide) (by decide)
  have hs : toSigned (8 * 4) 4294967295 = -1 := by decide
  rw [hs] at hne
  injection h10 with h10
  exact hne h10

/-! … and on `qHist` (GV/Lemmas/C10b.lean; `qWF`, `qMapper`, `qSite`): one WRITE into a table with the columns YEAR,
    BIT(10), ENUM (247), ENUM packed into TypeString, SET packed, SET raw (248), FLOAT, DOUBLE, TINYINT, BIGINT UNSIGNED;
    the float formatters of `qEnv` print the bit pattern (resp. the bit pattern + 1) in decimal -/

example : ∃ cd, deliveredCol (runCalls {} qEnv qHist) 0 0 true 0 0 = some cd ∧ cd.col = .value (natDec 2024) := by
  obtain ⟨cd, b, h1, h2, _, h4⟩ :=
    C10_bytes_year {} qEnv qHist qWF qMapper 0 0 qC true 0 0 (qSite 0 (by decide)) (.year 124) rfl (by decide)
  injection h2 with hb
  subst hb
  exact ⟨cd, h1, by rw [h4]; simp⟩
example : ∃ cd, deliveredCol (runCalls {} qEnv qHist) 0 0 true 0 1 = some cd ∧ cd.col = .value [3, 255] := by
  obtain ⟨cd, bs, _, h1, h2, _, _, _, _, h7⟩ :=
    C10_bytes_bit {} qEnv qHist qWF qMapper 0 0 qC true 0 1 (qSite 1 (by decide)) (.bit [3, 255]) rfl (by decide)
  injection h2 with hb
  subst hb
  exact ⟨cd, h1, h7⟩
example : ∃ cd, deliveredCol (runCalls {} qEnv qHist) 0 0 true 0 2 = some cd ∧ cd.col = .value (natDec 3) := by
  obtain ⟨cd, w, n, h1, h2, _, _, _, h6⟩ :=
    C10_bytes_enum {} qEnv qHist qWF qMapper 0 0 qC true 0 2 (qSite 2 (by decide)) (.enum 1 3) (Or.inl rfl) (by decide)
  injection h2 with _ hn
  subst hn
  exact ⟨cd, h1, h6⟩
example : ∃ cd, deliveredCol (runCalls {} qEnv qHist) 0 0 true 0 3 = some cd ∧ cd.col = .value (natDec 300) := by
  obtain ⟨cd, w, n, h1, h2, _, _, _, h6⟩ :=
    C10_bytes_enum {} qEnv qHist qWF qMapper 0 0 qC true 0 3 (qSite 3 (by decide)) (.enum 2 300)
      (Or.inr ⟨rfl, by decide⟩) (by decide)
  injection h2 with _ hn
  subst hn
  exact ⟨cd, h1, h6⟩
example : ∃ cd, deliveredCol (runCalls {} qEnv qHist) 0 0 true 0 4 = some cd ∧ cd.col = .value (natDec 5) := by
  obtain ⟨cd, w, n, h1, h2, _, _, _, _, h7⟩ :=
    C10_bytes_set {} qEnv qHist qWF qMapper 0 0 qC true 0 4 (qSite 4 (by decide)) (.set 1 5) rfl (by decide) (by decide)
  injection h2 with _ hn
  subst hn
  exact ⟨cd, h1, h7⟩
example : ∃ cd, deliveredCol (runCalls {} qEnv qHist) 0 0 true 0 5 = some cd ∧ cd.col = .value [1, 2] := by
  obtain ⟨cd, bs, h1, h2, _, h4⟩ :=
    C10_bytes_set_raw {} qEnv qHist qWF qMapper 0 0 qC true 0 5 (qSite 5 (by decide)) (.bit [1, 2]) rfl (by decide)
  injection h2 with hb
  subst hb
  exact ⟨cd, h1, h4⟩
example : ∃ cd, deliveredCol (runCalls {} qEnv qHist) 0 0 true 0 6 = some cd ∧ cd.col = .value (natDec 1065353216) := by
  obtain ⟨cd, b, h1, h2, _, h4⟩ :=
    C10_bytes_float {} qEnv qHist qWF qMapper 0 0 qC true 0 6 (qSite 6 (by decide)) (.f32 1065353216) rfl (by decide)
  injection h2 with hb
  subst hb
  exact ⟨cd, h1, h4⟩
example : ∃ cd, deliveredCol (runCalls {} qEnv qHist) 0 0 true 0 7 = some cd ∧
    cd.col = .value (natDec (4607182418800017408 + 1)) := by
  obtain ⟨cd, b, h1, h2, _, h4⟩ :=
    C10_bytes_double {} qEnv qHist qWF qMapper 0 0 qC true 0 7 (qSite 7 (by decide)) (.f64 4607182418800017408) rfl
      (by decide)
  injection h2 with hb
  subst hb
  exact ⟨cd, h1, h4⟩
/-- TINYINT −128 (signed, the extreme) and BIGINT UNSIGNED 2^64 − 1 (all bytes 0xff: "−1" if it were read signed) -/
example : ∃ cd, deliveredCol (runCalls {} qEnv qHist) 0 0 true 0 8 = some cd ∧ cd.col = .value (intDec (-128)) := by
  obtain ⟨cd, _, _, _, h1, _, _, _, _, _, _, _, _, h10⟩ :=
    C10_bytes_signedness_from_mapper {} qEnv qHist qWF qMapper 0 0 qC true 0 8 (qSite 8 (by decide)) 1
      (.int 1 (-128)) (by decide) (by decide)
  exact ⟨cd, h1, h10⟩
example : ∃ cd, deliveredCol (runCalls {} qEnv qHist) 0 0 true 0 9 = some cd ∧
    cd.col = .value (natDec 18446744073709551615) := by
  obtain ⟨cd, _, _, _, h1, _, _, _, _, _, _, _, _, h10⟩ :=
    C10_bytes_signedness_from_mapper {} qEnv qHist qWF qMapper 0 0 qC true 0 9 (qSite 9 (by decide)) 8
      (.uint 8 18446744073709551615) (by decide) (by decide)
  exact ⟨cd, h1, h10⟩

end GV.Props.C10b
