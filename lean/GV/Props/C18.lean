import GV.Model.Gtid
import GV.Lemmas.C18
import GV.Expect.C18
/-
  C18 — MySQL 5.6 GTID sets behave as mathematical sets of (server UUID, sequence number) pairs (DESIGN §7 C18).
  Property theorems only; helper lemmas in GV/Lemmas/C18.lean.
  Sequence numbers are unbounded integers here; the Go code uses int64, so the statements cover 1 ≤ n < 2^63-1
  (where `end+1` does not wrap).
-/
namespace GV.Props.C18
open GV GV.M

/-- the set of pairs a representation denotes -/
def sem (s : Set56) (sid : Bytes) (n : Int) : Prop := ∃ iv ∈ s.get sid, iv.start ≤ n ∧ n ≤ iv.stop

/-- canonical interval list: starts ≥ 1, non-empty intervals, sorted, disjoint and not adjacent (merged) -/
def CanonIvs : List Iv → Prop
  | [] => True
  | [a] => 1 ≤ a.start ∧ a.start ≤ a.stop
  | a :: b :: r => 1 ≤ a.start ∧ a.start ≤ a.stop ∧ a.stop + 2 ≤ b.start ∧ CanonIvs (b :: r)

/-- the canonical form MySQL emits: one entry per UUID, no empty entries, canonical interval lists -/
structure Canon (s : Set56) : Prop where
  nodup : (s.map (·.1)).Nodup
  nonempty : ∀ p ∈ s, p.2 ≠ []
  ivs : ∀ p ∈ s, CanonIvs p.2

/-! bridges to the pairwise formulation used in GV/Lemmas/C18.lean -/

private theorem canonIvs_iff (l : List Iv) : CanonIvs l ↔ L18.CanonP l := by
  induction l with
  | nil => simp [CanonIvs, L18.canonP_nil]
  | cons a r ih =>
    cases r with
    | nil => simp [CanonIvs, L18.canonP_cons, L18.canonP_nil]
    | cons b r' =>
      rw [CanonIvs, ih, L18.canonP_cons a]
      constructor
      · rintro ⟨h1, h2, h3, h4⟩
        refine ⟨⟨h1, h2⟩, ?_, h4⟩
        have h4' := (L18.canonP_cons b r').1 h4
        intro x hx
        rcases List.mem_cons.1 hx with rfl | hx
        · exact h3
        · have := h4'.2.1 x hx; omega
      · rintro ⟨⟨h1, h2⟩, h3, h4⟩
        exact ⟨h1, h2, h3 b List.mem_cons_self, h4⟩

private theorem canon_iff (s : Set56) : Canon s ↔ L18.CanonS s :=
  ⟨fun h => ⟨h.nodup, h.nonempty, fun p hp => (canonIvs_iff _).1 (h.ivs p hp)⟩,
   fun h => ⟨h.nodup, h.nonempty, fun p hp => (canonIvs_iff _).2 (h.ivs p hp)⟩⟩

private theorem sem_iff (s : Set56) (sid : Bytes) (n : Int) : sem s sid n ↔ L18.semS s sid n := Iff.rfl

theorem C18_containsGTID_iff (s : Set56) (hc : Canon s) (g : Gtid56) :
    s.containsGtid g = true ↔ sem s g.sid g.seq :=
  L18.containsGtid_iff s ((canon_iff s).1 hc) g

theorem C18_contains_iff (a b : Set56) (ha : Canon a) (hb : Canon b) :
    a.contains b = true ↔ ∀ sid n, sem b sid n → sem a sid n :=
  L18.contains_iff a b ((canon_iff a).1 ha) ((canon_iff b).1 hb)

theorem C18_equal_iff (a b : Set56) (ha : Canon a) (hb : Canon b) :
    a.equal b = true ↔ ∀ sid n, (sem a sid n ↔ sem b sid n) :=
  L18.equal_iff a b ((canon_iff a).1 ha) ((canon_iff b).1 hb)

/-- adding a GTID yields exactly the union with that GTID … -/
theorem C18_add_union (s : Set56) (hc : Canon s) (g : Gtid56) (hg : 1 ≤ g.seq) :
    ∀ sid n, sem (s.addGtid g) sid n ↔ (sem s sid n ∨ (sid = g.sid ∧ n = g.seq)) :=
  (L18.addGtid_spec s ((canon_iff s).1 hc) g hg).2

/-- … again in canonical form -/
theorem C18_add_canon (s : Set56) (hc : Canon s) (g : Gtid56) (hg : 1 ≤ g.seq) : Canon (s.addGtid g) :=
  (canon_iff _).2 (L18.addGtid_spec s ((canon_iff s).1 hc) g hg).1

/-- every set derived from a canonical one by any sequence of AddGTID is canonical and denotes the union -/
theorem C18_reachable (s : Set56) (hc : Canon s) (gs : List Gtid56) (hg : ∀ g ∈ gs, 1 ≤ g.seq) :
    Canon (gs.foldl Set56.addGtid s) ∧
    ∀ sid n, sem (gs.foldl Set56.addGtid s) sid n ↔ (sem s sid n ∨ ∃ g ∈ gs, sid = g.sid ∧ n = g.seq) :=
  have h := L18.reachable s ((canon_iff s).1 hc) gs hg
  ⟨(canon_iff _).2 h.1, h.2⟩

/-- the printed form lists the UUIDs sorted (bytewise), each exactly once -/
theorem C18_sids_sorted (s : Set56) (hc : Canon s) :
    (s.sids).Pairwise (fun a b => sidLess a b = true ∨ a = b) ∧ ∀ sid, sid ∈ s.sids ↔ sid ∈ s.map (·.1) := by
  have _ := hc  -- sortedness and membership hold for every set; canonicity is not needed
  exact L18.sids_sorted s

/-- (supplement) "each exactly once": the sorted UUID list has no repetition -/
theorem C18_sids_nodup (s : Set56) (hc : Canon s) : (s.sids).Nodup :=
  L18.sids_nodup s hc.nodup

/-! non-vacuity -/
example : Canon [([1], [⟨1, 2⟩, ⟨4, 5⟩]), ([2], [⟨7, 7⟩])] :=
  ⟨by decide, by intro p hp; simp at hp; rcases hp with rfl | rfl <;> simp,
   by intro p hp; simp at hp; rcases hp with rfl | rfl <;> simp [CanonIvs]⟩
example : (Set56.addGtid [([1], [⟨1, 2⟩, ⟨4, 5⟩])] ⟨[1], 3⟩) = [([1], [⟨1, 5⟩])] := by decide

end GV.Props.C18
