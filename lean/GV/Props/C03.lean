import GV.Spec.Decoded
import GV.Lemmas.Streamer
import GV.Expect.C03
/-
  C03 — position labels chain and are exact resume points (DESIGN §7 C03).  Property theorems only.
-/
namespace GV.Props.C03
open GV GV.M GV.DSpec

/-- the rotation targets of a unit list -/
def rotTargets (us : List DUnit) : List Position :=
  us.filterMap fun u => match u with | .rotate f o => some ⟨f, o⟩ | _ => none

/-- every label's end is in the same file as its start, and its end offset is the end offset of its commit event -/
theorem C03_same_file (p : Position) (us : List DUnit) : ∀ t ∈ dexpected p us, t.next.file = t.now.file := by
  sorry

/-- the start label equals the previous transaction's end label, or the initial position, or the target of an
    intervening rotation -/
theorem C03_chain (p : Position) (us : List DUnit) :
    (∀ t, (dexpected p us).head? = some t → t.now = p ∨ t.now ∈ rotTargets us) ∧
    (∀ k a b, (dexpected p us)[k]? = some a → (dexpected p us)[k + 1]? = some b →
        b.now = a.next ∨ b.now ∈ rotTargets us) := by
  sorry

/-- compositionality: what is delivered for us1 ++ us2 is what is delivered for us1 followed by what is delivered
    for us2 from the position reached — the basis of resumability -/
theorem C03_split (p : Position) (us1 us2 : List DUnit) :
    dexpected p (us1 ++ us2) = dexpected p us1 ++ dexpected (dendPos p us1) us2 ∧
    dendPos p (us1 ++ us2) = dendPos (dendPos p us1) us2 := by
  sorry

/-- the end label of the last delivered transaction is the position reached (when the log ends in a committing unit
    possibly followed by ignorable units) -/
theorem C03_end_label (p : Position) (us : List DUnit) (t : Transaction)
    (h : (dexpected p us).getLast? = some t) (hr : ∀ f o, DUnit.rotate f o ∉ us) : t.next = dendPos p us := by
  sorry

/-- Resume: a fresh parser started at the position reached after us1 (whatever its format / table state), fed the
    remaining units, makes exactly the remaining calls — identical contents and labels, none skipped, none repeated. -/
theorem C03_resume (us1 us2 : List DUnit) (st st' : PState) (hi : Idle st) (hi' : Idle st')
    (hpos : st'.pos = dendPos st.pos us1) (hwf : ∀ u ∈ us1 ++ us2, WFUnit u) :
    (runD (fun _ => true) st' ((us2.flatMap devs).map some)).calls
      = (runD (fun _ => true) st (((us1 ++ us2).flatMap devs).map some)).calls.drop (dexpected st.pos us1).length ∧
    (runD (fun _ => true) st' ((us2.flatMap devs).map some)).pos
      = (runD (fun _ => true) st (((us1 ++ us2).flatMap devs).map some)).pos := by
  sorry

/-! non-vacuity -/
example : dexpected ⟨[97], 4⟩ [.single (.stmt Facts.StatementCreate ⟨[], none, [99]⟩ 90 7), .rotate [98] 4,
      .tx ⟨[], none, []⟩ 120 8 [] .xid 150 9]
    = [⟨⟨[97], 4⟩, ⟨[97], 90⟩, 7, [stmtEvent Facts.StatementCreate ⟨[], none, [99]⟩ 7]⟩, ⟨⟨[98], 4⟩, ⟨[98], 150⟩, 9, []⟩] := by
  decide

end GV.Props.C03
