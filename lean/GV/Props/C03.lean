import GV.Spec.Decoded
import GV.Lemmas.Streamer
import GV.Expect.C03
/-
  C03 — position labels chain and are exact resume points (DESIGN §7 C03).  Property theorems only.
-/
namespace GV.Props.C03
open GV GV.M GV.DSpec

/-- the rotation targets of a unit list -/
def rotTargets (us : List DUnit) : List Position :=
  us.filterMap fun u => match u with | .rotate f o => some ⟨f, o⟩ | _ => none

/-- every label's end is in the same file as its start, and its end offset is the end offset of its commit event -/
theorem C03_same_file (p : Position) (us : List DUnit) : ∀ t ∈ dexpected p us, t.next.file = t.now.file := by
  induction us generalizing p with
  | nil => simp [dexpected]
  | cons u us ih =>
    cases u with
    | tx bq bn bt cs close next ts =>
      intro t ht
      simp only [dexpected, List.mem_cons] at ht
      rcases ht with rfl | ht
      · rfl
      · exact ih _ t ht
    | single c =>
      intro t ht
      simp only [dexpected] at ht
      split at ht
      · simp only [List.mem_cons] at ht
        rcases ht with rfl | ht
        · rfl
        · exact ih _ t ht
      · exact ih _ t ht
    | _ => simpa [dexpected] using ih _

/-- the start label equals the previous transaction's end label, or the initial position, or the target of an
    intervening rotation -/
theorem C03_chain (p : Position) (us : List DUnit) :
    (∀ t, (dexpected p us).head? = some t → t.now = p ∨ t.now ∈ rotTargets us) ∧
    (∀ k a b, (dexpected p us)[k]? = some a → (dexpected p us)[k + 1]? = some b →
        b.now = a.next ∨ b.now ∈ rotTargets us) := by
  have hsub : ∀ (u : DUnit) (us : List DUnit) (x : Position), x ∈ rotTargets us → x ∈ rotTargets (u :: us) := by
    intro u us x hx
    unfold rotTargets at hx ⊢
    rw [List.filterMap_cons]
    split
    · exact hx
    · exact List.mem_cons_of_mem _ hx
  have hhead : ∀ (us : List DUnit) (p : Position) (t : Transaction),
      (dexpected p us).head? = some t → t.now = p ∨ t.now ∈ rotTargets us := by
    intro us
    induction us with
    | nil => intro p t h; simp [dexpected] at h
    | cons u us ih =>
      intro p t h
      cases u with
      | tx bq bn bt cs close next ts =>
        simp only [dexpected, List.head?_cons, Option.some.injEq] at h
        subst h; exact Or.inl rfl
      | single c =>
        simp only [dexpected] at h
        split at h
        · simp only [List.head?_cons, Option.some.injEq] at h
          subst h; exact Or.inl rfl
        · exact (ih p t h).imp id (hsub _ _ _)
      | rotate f o =>
        simp only [dexpected] at h
        rcases ih _ t h with h1 | h1
        · exact Or.inr (by simp [rotTargets, h1])
        · exact Or.inr (hsub _ _ _ h1)
      | skip => exact (ih p t (by simpa [dexpected] using h)).imp id (hsub _ _ _)
      | tableMap tid tc known => exact (ih p t (by simpa [dexpected] using h)).imp id (hsub _ _ _)
      | format f => exact (ih p t (by simpa [dexpected] using h)).imp id (hsub _ _ _)
  refine ⟨hhead us p, ?_⟩
  induction us generalizing p with
  | nil => intro k a b h; simp [dexpected] at h
  | cons u us ih =>
    intro k a b ha hb
    have hcons : ∀ (T : Transaction) (q : Position), dexpected p (u :: us) = T :: dexpected q us → T.next = q →
        b.now = a.next ∨ b.now ∈ rotTargets (u :: us) := by
      intro T q he hq
      rw [he] at ha hb
      cases k with
      | zero =>
        simp only [List.getElem?_cons_zero, Option.some.injEq] at ha
        simp only [Nat.zero_add, List.getElem?_cons_succ] at hb
        subst ha
        rw [← List.head?_eq_getElem?] at hb
        rcases hhead us q b hb with h1 | h1
        · exact Or.inl (h1.trans hq.symm)
        · exact Or.inr (hsub _ _ _ h1)
      | succ k =>
        simp only [List.getElem?_cons_succ] at ha hb
        exact (ih q k a b ha hb).imp id (hsub _ _ _)
    have hskip : ∀ (q : Position), dexpected p (u :: us) = dexpected q us →
        b.now = a.next ∨ b.now ∈ rotTargets (u :: us) := by
      intro q he
      rw [he] at ha hb
      exact (ih q k a b ha hb).imp id (hsub _ _ _)
    cases u with
    | tx bq bn bt cs close next ts => exact hcons _ _ (by simp only [dexpected]; rfl) rfl
    | single c =>
      cases hc : changeNextTs c with
      | none => exact hskip p (by simp [dexpected, hc])
      | some nt =>
        cases hs : seOf c with
        | none => exact hskip p (by simp [dexpected, hc, hs])
        | some se => exact hcons _ _ (by simp only [dexpected, hc, hs]; rfl) rfl
    | rotate f o => exact hskip _ (by simp only [dexpected]; rfl)
    | skip => exact hskip p (by simp only [dexpected])
    | tableMap tid tc known => exact hskip p (by simp only [dexpected])
    | format f => exact hskip p (by simp only [dexpected])

/-- compositionality: what is delivered for us1 ++ us2 is what is delivered for us1 followed by what is delivered
    for us2 from the position reached — the basis of resumability -/
theorem C03_split (p : Position) (us1 us2 : List DUnit) :
    dexpected p (us1 ++ us2) = dexpected p us1 ++ dexpected (dendPos p us1) us2 ∧
    dendPos p (us1 ++ us2) = dendPos (dendPos p us1) us2 := by
  exact SL.dexpected_append p us1 us2

/-- the end label of the last delivered transaction is the position reached (when the log ends in a committing unit
    possibly followed by ignorable units) -/
theorem C03_end_label (p : Position) (us : List DUnit) (t : Transaction)
    (h : (dexpected p us).getLast? = some t) (hr : ∀ f o, DUnit.rotate f o ∉ us) : t.next = dendPos p us := by
  have key : ∀ (us : List DUnit) (p : Position), (∀ f o, DUnit.rotate f o ∉ us) →
      dendPos p us = ((dexpected p us).getLast?.map (·.next)).getD p := by
    intro us
    induction us with
    | nil => intro p _; simp [dexpected, dendPos]
    | cons u us ih =>
      intro p hr
      have hr' : ∀ f o, DUnit.rotate f o ∉ us := fun f o hm => hr f o (List.mem_cons_of_mem _ hm)
      have hcons : ∀ (T : Transaction) (q : Position), dexpected p (u :: us) = T :: dexpected q us →
          dendPos p (u :: us) = dendPos q us → T.next = q →
          dendPos p (u :: us) = ((dexpected p (u :: us)).getLast?.map (·.next)).getD p := by
        intro T q he hd hq
        rw [he, hd, ih q hr', List.getLast?_cons]
        cases (dexpected q us).getLast? <;> simp [hq]
      cases u with
      | tx bq bn bt cs close next ts => exact hcons _ _ (by simp only [dexpected]; rfl) (by simp only [dendPos]) rfl
      | single c =>
        cases hc : changeNextTs c with
        | none => simp [dexpected, dendPos, hc, ih p hr']
        | some nt =>
          cases hs : seOf c with
          | none => simp [dexpected, dendPos, hc, hs, ih p hr']
          | some se => exact hcons _ _ (by simp only [dexpected, hc, hs]; rfl) (by simp only [dendPos, hc, hs]) rfl
      | rotate f o => exact absurd (List.mem_cons_self) (hr f o)
      | skip => simp [dexpected, dendPos, ih p hr']
      | tableMap tid tc known => simp [dexpected, dendPos, ih p hr']
      | format f => simp [dexpected, dendPos, ih p hr']
  rw [key us p hr, h]; rfl

/-- Resume: a fresh parser started at the position reached after us1 (whatever its format / table state), fed the
    remaining units, makes exactly the remaining calls — identical contents and labels, none skipped, none repeated. -/
theorem C03_resume (us1 us2 : List DUnit) (st st' : PState) (hi : Idle st) (hi' : Idle st')
    (hpos : st'.pos = dendPos st.pos us1) (hwf : ∀ u ∈ us1 ++ us2, WFUnit u) :
    (runD (fun _ => true) st' ((us2.flatMap devs).map some)).calls
      = (runD (fun _ => true) st (((us1 ++ us2).flatMap devs).map some)).calls.drop (dexpected st.pos us1).length ∧
    (runD (fun _ => true) st' ((us2.flatMap devs).map some)).pos
      = (runD (fun _ => true) st (((us1 ++ us2).flatMap devs).map some)).pos := by
  have hwf1 : ∀ u ∈ us2, WFUnit u := fun u hu => hwf u (by simp [hu])
  rw [SL.run_all us2 st' hi' hwf1, SL.run_all (us1 ++ us2) st hi hwf, hpos]
  simp [(SL.dexpected_append st.pos us1 us2).1, (SL.dexpected_append st.pos us1 us2).2]

/-! non-vacuity -/
example : dexpected ⟨[97], 4⟩ [.single (.stmt Facts.StatementCreate ⟨[], none, [99]⟩ 90 7), .rotate [98] 4,
      .tx ⟨[], none, []⟩ 120 8 [] .xid 150 9]
    = [⟨⟨[97], 4⟩, ⟨[97], 90⟩, 7, [stmtEvent Facts.StatementCreate ⟨[], none, [99]⟩ 7]⟩, ⟨⟨[98], 4⟩, ⟨[98], 150⟩, 9, []⟩] := by
  decide

end GV.Props.C03
