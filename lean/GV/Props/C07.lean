import GV.Model.Conn
import GV.Lemmas.Dec
import GV.Lemmas.C07
import GV.Expect.C07
/-
  C07 — the replica handshake asks the master for exactly the configured stream (DESIGN §7 C07).
  Property theorems only.  The literal passed to Exec and the argument expressions of NoticeDump are extracted from
  the source on every run (`Facts.execLiterals`, `Facts.noticeDumpCalls`); the packet layout is the driver's contract
  (validated on the wire by the simulated master, not proved: the driver is outside /repo).
-/
namespace GV.Props.C07
open GV GV.M

/-- every attempt: checksum awareness is announced first, then exactly one blocking (flags = 0) dump request
    carrying the configured server id and the streamer's current file name and offset; nothing else -/
theorem C07_trace (serverID : Nat) (pos : Position) :
    attemptTrace serverID pos
      = some [.exec (asc "SET @master_binlog_checksum=@@global.binlog_checksum"),
              .noticeDump serverID (ofInt 32 pos.offset) pos.file 0] := by
  simp [attemptTrace, Facts.execLiterals, Facts.noticeDumpCalls, dumpCallOf, evalDumpArg]

/-- for offsets 4 … 2^32-1 the 32-bit conversion is the identity -/
theorem C07_offset_exact (off : Int) (h : 4 ≤ off ∧ off < 2 ^ 32) : ofInt 32 off = off.toNat ∧ (off.toNat : Int) = off := by
  unfold ofInt
  have h1 : off % ((2 ^ 32 : Nat) : Int) = off := Int.emod_eq_of_lt (by omega) (by omega)
  rw [h1]
  omega

/-- the request round-trips through the wire format for all ids (including ≥ 2^31), offsets and file names -/
theorem C07_roundtrip (serverID pos flags : Nat) (file : Bytes) (hid : serverID < 2 ^ 32) (hp : pos < 2 ^ 32)
    (hf : flags < 2 ^ 16) : decodeDump (dumpPacket serverID pos file flags) = some (serverID, pos, file, flags) := by
  have aux : ∀ (a b c f : Bytes), a.length = 4 → b.length = 2 → c.length = 4 →
      decodeDump (0x12 :: (a ++ (b ++ (c ++ f)))) = some (Bytes.le c, Bytes.le a, f, Bytes.le b) := by
    intro a b c f ha hb hc
    match a, ha with
    | [a0, a1, a2, a3], _ =>
      match b, hb with
      | [b0, b1], _ =>
        match c, hc with
        | [c0, c1, c2, c3], _ => simp [decodeDump]
  have e : dumpPacket serverID pos file flags
      = 0x12 :: (Bytes.ofLE 4 pos ++ (Bytes.ofLE 2 flags ++ (Bytes.ofLE 4 serverID ++ file))) := by
    simp [dumpPacket]
  rw [e, aux _ _ _ _ (ofLE_length _ _) (ofLE_length _ _) (ofLE_length _ _), le_ofLE, le_ofLE, le_ofLE]
  have a : serverID % 256 ^ 4 = serverID := Nat.mod_eq_of_lt (by omega)
  have b : pos % 256 ^ 4 = pos := Nat.mod_eq_of_lt (by omega)
  have c : flags % 256 ^ 2 = flags := Nat.mod_eq_of_lt (by omega)
  rw [a, b, c]

/-- the position used is the one given to SetBinlogPosition on the first attempt and the stored resume position
    (what parseEvents returned, written back by Stream) on every later one -/
theorem C07_position_source (env : Env) (h1 h2 : Transaction → Bool) (s : StreamerState) (in1 in2 : List Input) :
    let a1 := streamAttempt env h1 s in1
    let a2 := streamAttempt env h2 a1.2.1 in2
    a1.1 = attemptTrace s.serverID s.nowPos ∧
    a2.1 = attemptTrace s.serverID a1.2.2.pos ∧
    a2.2.1.serverID = s.serverID := by
  simp [streamAttempt]

/-- the event handed to the parser is the packet payload without its status byte; EOF and ERR packets are
    classified by that byte -/
theorem C07_read_event (payload : Bytes) (b : UInt8) (rest : Bytes) (h : payload = b :: rest) :
    readBinlogEvent payload = .ok (if b.toNat = 0xfe then .eof else if b.toNat = 0xff then .err else .event rest) := by
  subst h
  simp [readBinlogEvent, Bytes.get]
  split
  · rfl
  · split <;> rfl

/-! non-vacuity -/
example : decodeDump (dumpPacket 4294967295 4 (asc "mysql-bin.000001") 0) = some (4294967295, 4, asc "mysql-bin.000001", 0) := by
  decide

end GV.Props.C07
