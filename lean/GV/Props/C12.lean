import GV.Model.Cell
import GV.Spec.Cell
import GV.Lemmas.Dec
import GV.Lemmas.C12
import GV.Expect.C12
/-
  C12 — temporal values decode to MySQL's canonical text (DESIGN §7 C12).
  Property theorems only; helper lemmas live in GV/Lemmas/C12.lean.
  `lc` (local civil text of an instant), `f32`, `f64` are the Spec's runtime parameters and are irrelevant
  for every type but TIMESTAMP(2).
-/
namespace GV.Props.C12
open GV GV.M

/-- DATE / NEWDATE (3-byte packed): every (y ≤ 9999, m ≤ 12, d ≤ 31) including zero dates -/
theorem C12_date (E : Ext) (typ md y m d : Nat) (ht : typ = 10 ∨ typ = 14) (hy : y ≤ 9999) (hm : m ≤ 12) (hd : d ≤ 31)
    (u : Bool) (rest : Bytes) (lc f32 f64 : Nat → Bytes) :
    cellBytes E (W.cell typ md (.date y m d) ++ rest) 0 typ md u
      = .ok (W.text md lc f32 f64 (.date y m d), 3) := by
  sorry

/-- pre-5.6.4 TIME (3-byte ±hhmmss), hours up to 838, both signs -/
theorem C12_time_old (E : Ext) (md h m s : Nat) (neg : Bool) (hh : h ≤ 838) (hm : m ≤ 59) (hs : s ≤ 59)
    (hz : neg = true → h + m + s ≠ 0) (u : Bool) (rest : Bytes) (lc f32 f64 : Nat → Bytes) :
    cellBytes E (W.cell 11 md (.time neg h m s) ++ rest) 0 11 md u
      = .ok (W.text md lc f32 f64 (.time neg h m s), 3) := by
  sorry

/-- pre-5.6.4 DATETIME (8-byte decimal-coded) -/
theorem C12_datetime_old (E : Ext) (md y mo d h mi s : Nat) (hy : y ≤ 9999) (hmo : mo ≤ 12) (hd : d ≤ 31)
    (hh : h ≤ 23) (hmi : mi ≤ 59) (hs : s ≤ 59) (u : Bool) (rest : Bytes) (lc f32 f64 : Nat → Bytes) :
    cellBytes E (W.cell 12 md (.datetime y mo d h mi s) ++ rest) 0 12 md u
      = .ok (W.text md lc f32 f64 (.datetime y mo d h mi s), 8) := by
  sorry

/-- TIME2, fsp 0..6, both signs, with the negative-fraction borrow -/
theorem C12_time2 (E : Ext) (fsp h m s frac : Nat) (neg : Bool) (hf : fsp ≤ 6) (hh : h ≤ 838) (hm : m ≤ 59) (hs : s ≤ 59)
    (hfr : frac < 10 ^ fsp) (hz : neg = true → h + m + s + frac ≠ 0) (u : Bool) (rest : Bytes)
    (lc f32 f64 : Nat → Bytes) :
    cellBytes E (W.cell 19 fsp (.time2 neg h m s frac) ++ rest) 0 19 fsp u
      = .ok (W.text fsp lc f32 f64 (.time2 neg h m s frac), 3 + (fsp + 1) / 2) := by
  sorry

/-- DATETIME2, fsp 0..6 -/
theorem C12_datetime2 (E : Ext) (fsp y mo d h mi s frac : Nat) (hf : fsp ≤ 6) (hy : y ≤ 9999) (hmo : mo ≤ 12)
    (hd : d ≤ 31) (hh : h ≤ 23) (hmi : mi ≤ 59) (hs : s ≤ 59) (hfr : frac < 10 ^ fsp) (u : Bool) (rest : Bytes)
    (lc f32 f64 : Nat → Bytes) :
    cellBytes E (W.cell 18 fsp (.datetime2 y mo d h mi s frac) ++ rest) 0 18 fsp u
      = .ok (W.text fsp lc f32 f64 (.datetime2 y mo d h mi s frac), 5 + (fsp + 1) / 2) := by
  sorry

/-! TIMESTAMP / TIMESTAMP2 (partial; named facet: which UTC offset applies to an instant is Go's time-zone
    database and enters as the parameter `E.tzOffset`).  Proved: the bytes reach `printTimestamp` as the stored
    instant, zero is the zero timestamp, the fraction is rendered canonically, and the civil-date arithmetic of
    `printTimestamp` is the proleptic Gregorian calendar (`civilOfDays ∘ daysOfCivil = id`). -/

/-- days since 1970-01-01 of a civil date (Hinnant's days_from_civil); the inverse the model must undo -/
def daysOfCivil (y m d : Int) : Int :=
  let y' := if m ≤ 2 then y - 1 else y
  let era := y' / 400
  let yoe := y' - era * 400
  let mp := if m > 2 then m - 3 else m + 9
  let doy := (153 * mp + 2) / 5 + d - 1
  let doe := yoe * 365 + yoe / 4 - yoe / 100 + doy
  era * 146097 + doe - 719468

def daysInMonth (y m : Int) : Int :=
  if m = 2 then (if y % 4 = 0 ∧ (y % 100 ≠ 0 ∨ y % 400 = 0) then 29 else 28)
  else if m = 4 ∨ m = 6 ∨ m = 9 ∨ m = 11 then 30 else 31

theorem C12_civil_roundtrip (y m d : Int) (hy : 1900 ≤ y ∧ y ≤ 2200) (hm : 1 ≤ m ∧ m ≤ 12)
    (hd : 1 ≤ d ∧ d ≤ daysInMonth y m) : civilOfDays (daysOfCivil y m d) = (y, m, d) := by
  sorry

theorem C12_timestamp_partial (E : Ext) (md sec : Nat) (hs : sec < 2 ^ 32) (u : Bool) (rest : Bytes) :
    cellBytes E (W.cell 7 md (.timestamp sec) ++ rest) 0 7 md u = .ok (printTimestamp E sec, 4) ∧
    printTimestamp E 0 = asc "0000-00-00 00:00:00" := by
  sorry

theorem C12_timestamp2_partial (E : Ext) (fsp sec frac : Nat) (hf : fsp ≤ 6) (hs : sec < 2 ^ 32)
    (hfr : frac < 10 ^ fsp) (u : Bool) (rest : Bytes) :
    cellBytes E (W.cell 17 fsp (.timestamp2 sec frac) ++ rest) 0 17 fsp u
      = .ok (printTimestamp E sec ++ W.fracText fsp frac, 4 + (fsp + 1) / 2) := by
  sorry

/-! non-vacuity: the hypotheses are satisfiable on non-trivial values -/
example : (838 ≤ 838 ∧ 59 ≤ 59 ∧ 59 ≤ 59) ∧ ((true = true) → 838 + 59 + 59 + 999999 ≠ 0) ∧ 999999 < 10 ^ 6 := by decide
example : (1 : Int) ≤ 29 ∧ (29 : Int) ≤ daysInMonth 2024 2 := by decide

end GV.Props.C12
