import GV.Model.Cell
import GV.Spec.Cell
import GV.Lemmas.Dec
import GV.Lemmas.C12
import GV.Expect.C12
/-
  C12 — temporal values decode to MySQL's canonical text (DESIGN §7 C12).
  Property theorems only; helper lemmas live in GV/Lemmas/C12.lean.
  `lc` (local civil text of an instant), `f32`, `f64` are the Spec's runtime parameters and are irrelevant
  for every type but TIMESTAMP(2).
-/
namespace GV.Props.C12
open GV GV.M

/-- DATE / NEWDATE (3-byte packed): every (y ≤ 9999, m ≤ 12, d ≤ 31) including zero dates -/
theorem C12_date (E : Ext) (typ md y m d : Nat) (ht : typ = 10 ∨ typ = 14) (hy : y ≤ 9999) (hm : m ≤ 12) (hd : d ≤ 31)
    (u : Bool) (rest : Bytes) (lc f32 f64 : Nat → Bytes) :
    cellBytes E (W.cell typ md (.date y m d) ++ rest) 0 typ md u
      = .ok (W.text md lc f32 f64 (.date y m d), 3) := by
  have hv : (d + 32 * m + 512 * y) % 256 ^ 3 = d + 32 * m + 512 * y := by omega
  have h1 : (d + 32 * m + 512 * y) / 512 = y := by omega
  have h2 : (d + 32 * m + 512 * y) / 32 % 16 = m := by omega
  have h3 : (d + 32 * m + 512 * y) % 32 = d := by omega
  rw [date_body E typ md ht]
  simp only [W.cell, leIdx_head12, Res.ok_bind, Res.pure_eq, hv, h1, h2, h3, W.text,
    pad4_year y hy, pad2_two m (by omega), pad2_two d (by omega)]

/-- pre-5.6.4 TIME (3-byte ±hhmmss), hours up to 838, both signs -/
theorem C12_time_old (E : Ext) (md h m s : Nat) (neg : Bool) (hh : h ≤ 838) (hm : m ≤ 59) (hs : s ≤ 59)
    (hz : neg = true → h + m + s ≠ 0) (u : Bool) (rest : Bytes) (lc f32 f64 : Nat → Bytes) :
    cellBytes E (W.cell 11 md (.time neg h m s) ++ rest) 0 11 md u
      = .ok (W.text md lc f32 f64 (.time neg h m s), 3) := by
  have h1 : (h * 10000 + m * 100 + s) / 10000 = h := by omega
  have h2 : (h * 10000 + m * 100 + s) % 10000 / 100 = m := by omega
  have h3 : (h * 10000 + m * 100 + s) % 100 = s := by omega
  have hb : h * 10000 + m * 100 + s ≤ 8385959 := by omega
  rw [time_old_body]
  simp only [W.cell, get2_ofLE3, leIdx_head12, Res.ok_bind, Res.pure_eq, toNat_ofNat_mod,
    W.text, ← pad2_hours h (by omega), ← pad2_two m (by omega), ← pad2_two s (by omega)]
  cases neg with
  | false =>
    have hn : ¬ ((h * 10000 + m * 100 + s) / 256 / 256 % 256 ≥ 128) := by
      generalize h * 10000 + m * 100 + s = v at hb; omega
    have hv : (h * 10000 + m * 100 + s) % 256 ^ 3 = h * 10000 + m * 100 + s := by omega
    simp only [Bool.false_eq_true, if_false, hn, hv, h1, h2, h3]
  | true =>
    have hp : h + m + s ≠ 0 := hz rfl
    have hb' : 0 < h * 10000 + m * 100 + s := by omega
    have hn : ((2 ^ 24 - (h * 10000 + m * 100 + s)) / 256 / 256 % 256 ≥ 128) := by
      generalize h * 10000 + m * 100 + s = v at hb hb'; omega
    have hv : 2 ^ 24 - (2 ^ 24 - (h * 10000 + m * 100 + s)) % 256 ^ 3 = h * 10000 + m * 100 + s := by omega
    simp only [if_true, hn, hv, h1, h2, h3]

/-- pre-5.6.4 DATETIME (8-byte decimal-coded) -/
theorem C12_datetime_old (E : Ext) (md y mo d h mi s : Nat) (hy : y ≤ 9999) (hmo : mo ≤ 12) (hd : d ≤ 31)
    (hh : h ≤ 23) (hmi : mi ≤ 59) (hs : s ≤ 59) (u : Bool) (rest : Bytes) (lc f32 f64 : Nat → Bytes) :
    cellBytes E (W.cell 12 md (.datetime y mo d h mi s) ++ rest) 0 12 md u
      = .ok (W.text md lc f32 f64 (.datetime y mo d h mi s), 8) := by
  have hE : (y * 10000 + mo * 100 + d) * 1000000 + h * 10000 + mi * 100 + s
      = (y * 10000 + mo * 100 + d) * 1000000 + (h * 10000 + mi * 100 + s) := by omega
  obtain ⟨hv, hD, hT⟩ := dt_split (y * 10000 + mo * 100 + d) (h * 10000 + mi * 100 + s) (by omega) (by omega)
  rw [datetime_old_body]
  simp only [W.cell, readLE_head, Res.ok_bind, Res.pure_eq, hE, hv, hD, hT,
    dec3_1 y mo d (by omega) (by omega), dec3_2 y mo d (by omega) (by omega), dec3_3 y mo d (by omega),
    dec3_1 h mi s (by omega) (by omega), dec3_2 h mi s (by omega) (by omega), dec3_3 h mi s (by omega),
    W.text, pad4_year y hy, pad2_two mo (by omega), pad2_two d (by omega), pad2_two h (by omega),
    pad2_two mi (by omega), pad2_two s (by omega)]

/-- TIME2, fsp 0..6, both signs, with the negative-fraction borrow -/
theorem C12_time2 (E : Ext) (fsp h m s frac : Nat) (neg : Bool) (hf : fsp ≤ 6) (hh : h ≤ 838) (hm : m ≤ 59) (hs : s ≤ 59)
    (hfr : frac < 10 ^ fsp) (hz : neg = true → h + m + s + frac ≠ 0) (u : Bool) (rest : Bytes)
    (lc f32 f64 : Nat → Bytes) :
    cellBytes E (W.cell 19 fsp (.time2 neg h m s frac) ++ rest) 0 19 fsp u
      = .ok (W.text fsp lc f32 f64 (.time2 neg h m s frac), 3 + (fsp + 1) / 2) := by
  obtain ⟨hlt, hB⟩ := time2_stored_lt fsp frac hf hfr
  have hz' : neg = true → (h * 64 + m) * 64 + s + W.fracStored fsp frac ≠ 0 := by
    intro hn; have := hz hn; unfold W.fracStored; split <;> omega
  obtain ⟨a1, a2, a3⟩ := time2_arith (256 ^ W.fracBytes fsp) ((h * 64 + m) * 64 + s) (W.fracStored fsp frac) _ _ _ neg
    hB (by omega) hlt hz' rfl rfl rfl
  have hw : ∀ v, v % 256 ^ W.fracBytes fsp ≠ 0 → W.fracBytes fsp ≠ 0 := by
    intro v hv h0; rw [h0] at hv; simp [Nat.mod_one] at hv
  rw [time2_body']
  simp only [W.cell, time2_w fsp hf, (time2_read _ _ rest).1, (time2_read _ _ rest).2, Res.ok_bind, Res.pure_eq]
  rw [time2Out_spec fsp _ _ _ frac neg hf hfr a1 a2 a3 (hw _)]
  simp only [W.text, hms_h h m s hm hs, hms_m h m s hm hs, hms_s h m s hs, pad2_two m (by omega),
    pad2_two s (by omega), List.append_assoc]
  rw [Nat.mod_eq_of_lt (by omega : h < 1024), pad2_hours h (by omega)]

/-- DATETIME2, fsp 0..6 -/
theorem C12_datetime2 (E : Ext) (fsp y mo d h mi s frac : Nat) (hf : fsp ≤ 6) (hy : y ≤ 9999) (hmo : mo ≤ 12)
    (hd : d ≤ 31) (hh : h ≤ 23) (hmi : mi ≤ 59) (hs : s ≤ 59) (hfr : frac < 10 ^ fsp) (u : Bool) (rest : Bytes)
    (lc f32 f64 : Nat → Bytes) :
    cellBytes E (W.cell 18 fsp (.datetime2 y mo d h mi s frac) ++ rest) 0 18 fsp u
      = .ok (W.text fsp lc f32 f64 (.datetime2 y mo d h mi s frac), 5 + (fsp + 1) / 2) := by
  have hv := subU64_off _ (dt2_bound y mo d h mi s hy hmo hd hh hmi hs)
  rw [datetime2_body]
  simp only [W.cell, List.append_assoc, beIdx_head, Res.ok_bind, Res.pure_eq, hv,
    fracSuffix_spec (Bytes.ofBE 5 _) rest 5 fsp frac (by simp) hf hfr,
    dt2_hi _ h mi s hh hmi hs, dt2_lo _ h mi s hh hmi hs, ymd_y y mo d hmo hd, ymd_m y mo d hmo hd,
    ymd_d y mo d hd, hms_h h mi s hmi hs, hms_m h mi s hmi hs, hms_s h mi s hs, W.text,
    pad4_year y hy, pad2_two mo (by omega), pad2_two d (by omega), pad2_two h (by omega),
    pad2_two mi (by omega), pad2_two s (by omega)]

/-! TIMESTAMP / TIMESTAMP2 (partial; named facet: which UTC offset applies to an instant is Go's time-zone
    database and enters as the parameter `E.tzOffset`).  Proved: the bytes reach `printTimestamp` as the stored
    instant, zero is the zero timestamp, the fraction is rendered canonically, and the civil-date arithmetic of
    `printTimestamp` is the proleptic Gregorian calendar (`civilOfDays ∘ daysOfCivil = id`). -/

/-- days since 1970-01-01 of a civil date (Hinnant's days_from_civil); the inverse the model must undo -/
def daysOfCivil (y m d : Int) : Int :=
  let y' := if m ≤ 2 then y - 1 else y
  let era := y' / 400
  let yoe := y' - era * 400
  let mp := if m > 2 then m - 3 else m + 9
  let doy := (153 * mp + 2) / 5 + d - 1
  let doe := yoe * 365 + yoe / 4 - yoe / 100 + doy
  era * 146097 + doe - 719468

def daysInMonth (y m : Int) : Int :=
  if m = 2 then (if y % 4 = 0 ∧ (y % 100 ≠ 0 ∨ y % 400 = 0) then 29 else 28)
  else if m = 4 ∨ m = 6 ∨ m = 9 ∨ m = 11 then 30 else 31

theorem C12_civil_roundtrip (y m d : Int) (hy : 1900 ≤ y ∧ y ≤ 2200) (hm : 1 ≤ m ∧ m ≤ 12)
    (hd : 1 ≤ d ∧ d ≤ daysInMonth y m) : civilOfDays (daysOfCivil y m d) = (y, m, d) := by
  have _ := hy
  unfold daysInMonth at hd
  unfold daysOfCivil
  by_cases h : m ≤ 2
  · have h2 : ¬ (m > 2) := by omega
    simp only [h, h2, if_false, if_true]
    apply roundtrip_early y m d ⟨hm.1, h⟩ hd.1
    have := hd.2
    split at this <;> split <;> first | exact this | omega
  · have h2 : m > 2 := by omega
    simp only [h, h2, if_false, if_true]
    apply roundtrip_late y m d ⟨by omega, hm.2⟩ hd.1
    have := hd.2
    rw [if_neg (by omega)] at this
    exact this

theorem C12_timestamp_partial (E : Ext) (md sec : Nat) (hs : sec < 2 ^ 32) (u : Bool) (rest : Bytes) :
    cellBytes E (W.cell 7 md (.timestamp sec) ++ rest) 0 7 md u = .ok (printTimestamp E sec, 4) ∧
    printTimestamp E 0 = asc "0000-00-00 00:00:00" := by
  constructor
  · have e : sec % 256 ^ 4 = sec := Nat.mod_eq_of_lt (by omega)
    rw [timestamp_body]
    simp only [W.cell, readLE_head, Res.ok_bind, Res.pure_eq, e]
  · simp [printTimestamp]

theorem C12_timestamp2_partial (E : Ext) (fsp sec frac : Nat) (hf : fsp ≤ 6) (hs : sec < 2 ^ 32)
    (hfr : frac < 10 ^ fsp) (u : Bool) (rest : Bytes) :
    cellBytes E (W.cell 17 fsp (.timestamp2 sec frac) ++ rest) 0 17 fsp u
      = .ok (printTimestamp E sec ++ W.fracText fsp frac, 4 + (fsp + 1) / 2) := by
  have e : sec % 256 ^ 4 = sec := Nat.mod_eq_of_lt (by omega)
  rw [timestamp2_body]
  simp only [W.cell, List.append_assoc, readBE_head, Res.ok_bind, Res.pure_eq,
    fracSuffix_spec (Bytes.ofBE 4 _) rest 4 fsp frac (by simp) hf hfr, e]

/-! non-vacuity: the hypotheses are satisfiable on non-trivial values -/
example : (838 ≤ 838 ∧ 59 ≤ 59 ∧ 59 ≤ 59) ∧ ((true = true) → 838 + 59 + 59 + 999999 ≠ 0) ∧ 999999 < 10 ^ 6 := by decide
example : (1 : Int) ≤ 29 ∧ (29 : Int) ≤ daysInMonth 2024 2 := by decide

end GV.Props.C12
