import GV.Model.Cell
import GV.Spec.Json
import GV.Spec.JsonWF
import GV.Lemmas.Dec
import GV.Lemmas.C14
import GV.Expect.C14
/-
  C14 — JSON columns decode to the document the master stored (DESIGN §7 C14).
  Property theorems only; helper lemmas in GV/Lemmas/C14.lean.
  `W.jsonb d` is the independent writer (checked against byte vectors captured from real servers),
  `W.render fmtE true d` the text the property demands, `M.printJSONData` the model of the decoder.
-/
namespace GV.Props.C14
open GV GV.M

/- `ScalarOK`, `isScalar`, `fitsFormat`, `WFDoc`, `WFVals`, `WFKVs` (which documents are well-formed) are Spec-side
   definitions: GV/Spec/JsonWF.lean (namespace GV.W); the names stay usable here. -/
export GV.W (ScalarOK isScalar fitsFormat WFDoc WFVals WFKVs)

/-- `ScalarOK` is the lemma file's `C14.SOK` (same clauses) -/
theorem scalarOK_iff (d : W.JDoc) : ScalarOK d ↔ C14.SOK d := by
  cases d <;> exact Iff.rfl

/-- the variable-length size prefix round-trips for every size a MySQL value can have -/
theorem C14_varlen (pre rest : Bytes) (n : Nat) (hn : n < 2 ^ 32) :
    readVariableLength (pre ++ (W.varlen n ++ rest)) pre.length = .ok (n, pre.length + (W.varlen n).length) :=
  C14.readVariableLength_varlen pre rest n hn

/-- every scalar document (literals, integers of every width, doubles, strings, opaque date / time / datetime /
    decimal — both signs of TIME) decodes to its text, as a whole column value -/
theorem C14_scalars (E : Ext) (d : W.JDoc) (hs : isScalar d = true) (hok : ScalarOK d) :
    printJSONData E (W.jsonb d) = .ok (W.render E.fmtFloat64E true d) := by
  have _ := hs   -- implied by `ScalarOK` (containers are excluded there)
  exact C14.scalar_doc E d ((scalarOK_iff d).mp hok)

theorem wfVals_mem (vs : List W.JDoc) (h : WFVals vs) : ∀ v ∈ vs, WFDoc v := by
  induction vs with
  | nil => simp
  | cons d ds ih =>
    simp only [WFVals] at h
    intro v hv
    simp only [List.mem_cons] at hv
    rcases hv with rfl | hv
    · exact h.1
    · exact ih h.2 v hv

theorem wfKVs_mem (kvs : List (Bytes × W.JDoc)) (h : WFKVs kvs) : ∀ p ∈ kvs, p.1.length < 65536 ∧ WFDoc p.2 := by
  induction kvs with
  | nil => simp
  | cons p ps ih =>
    obtain ⟨k, d⟩ := p
    simp only [WFKVs] at h
    intro v hv
    simp only [List.mem_cons] at hv
    rcases hv with rfl | hv
    · exact ⟨h.1, h.2.1⟩
    · exact ih h.2.2 v hv

/-- `WFDoc` provides what the induction in the lemma file needs -/
theorem wfDoc_spec : C14.WFSpec WFDoc where
  obj := by
    intro large kvs h
    simp only [WFDoc, fitsFormat] at h
    exact ⟨wfKVs_mem kvs h.1, h.2⟩
  arr := by
    intro large vs h
    simp only [WFDoc, fitsFormat] at h
    exact ⟨wfVals_mem vs h.1, h.2⟩
  scalar := by
    intro d h ho ha
    cases d with
    | obj l kvs => exact absurd rfl (ho l kvs)
    | arr l vs => exact absurd rfl (ha l vs)
    | _ => exact (scalarOK_iff _).mp (by simpa only [WFDoc] using h)

/-- containers whose children are all scalars, any fan-out, both storage formats, inlined and out-of-line values -/
theorem C14_doc_flat (E : Ext) (d : W.JDoc) (hw : WFDoc d)
    (hflat : match d with
      | .obj _ kvs => ∀ p ∈ kvs, isScalar p.2 = true
      | .arr _ vs => ∀ v ∈ vs, isScalar v = true
      | _ => True) :
    printJSONData E (W.jsonb d) = .ok (W.render E.fmtFloat64E true d) := by
  have _ := hflat   -- not needed: the general theorem `C14_doc` below covers every nesting depth
  exact C14.doc_data wfDoc_spec E d hw

/-- every well-formed document, at any nesting depth -/
theorem C14_doc (E : Ext) (d : W.JDoc) (hw : WFDoc d) :
    printJSONData E (W.jsonb d) = .ok (W.render E.fmtFloat64E true d) :=
  C14.doc_data wfDoc_spec E d hw

/-- and through the cell decoder: a JSON column cell (4 length bytes) decodes to the same text and consumes itself -/
theorem C14_cell (E : Ext) (d : W.JDoc) (hw : WFDoc d) (hl : (W.jsonb d).length < 2 ^ 32) (u : Bool) (rest : Bytes) :
    cellBytes E (Bytes.ofLE 4 (W.jsonb d).length ++ W.jsonb d ++ rest) 0 245 4 u
      = .ok (W.render E.fmtFloat64E true d, 4 + (W.jsonb d).length) :=
  C14.cell_json E (W.jsonb d) rest _ u hl (C14_doc E d hw)

/-- the same for every width of the length prefix (metadata 1 … 4) and wherever the cell sits in the row image: the length
    rule skips exactly the cell, the decoder delivers the document's text (DOUBLE scalars included, through the runtime's
    formatter) and consumes exactly the cell -/
theorem C14_cell_at (E : Ext) (d : W.JDoc) (hw : WFDoc d) (md : Nat) (h1 : 1 ≤ md) (h4 : md ≤ 4)
    (hl : (W.jsonb d).length < 256 ^ md) (u : Bool) (pre rest : Bytes) :
    cellLength (pre ++ (Bytes.ofLE md (W.jsonb d).length ++ W.jsonb d ++ rest)) pre.length 245 md
      = .ok (md + (W.jsonb d).length) ∧
    cellBytes E (pre ++ (Bytes.ofLE md (W.jsonb d).length ++ W.jsonb d ++ rest)) pre.length 245 md u
      = .ok (W.render E.fmtFloat64E true d, md + (W.jsonb d).length) :=
  C14.cell_json_at E pre (W.jsonb d) rest _ md u h1 h4 hl (C14_doc E d hw)

/-! non-vacuity -/
example : WFDoc (.obj false [([97], .i16 (-1)), ([98, 99], .arr false [.lit 0, .str [97, 98], .u32 70000])]) := by
  simp [WFDoc, WFKVs, WFVals, ScalarOK, fitsFormat, W.encVal, W.encKVs, W.encKeys, W.encVals, W.assemble,
    W.assemble.go1, W.assemble.go2, W.inlined, W.ow, C14.varlen_lt 2 (by omega)]

end GV.Props.C14
