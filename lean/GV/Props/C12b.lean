import GV.Props.C13b
import GV.Lemmas.C12b
/-
  C12 (byte level, END TO END) — temporal values as the HANDLER receives them: DATE / NEWDATE, TIME, DATETIME, TIMESTAMP,
  TIMESTAMP(fsp), TIME(fsp), DATETIME(fsp) are delivered as the canonical texts of GV/Props/C12.lean (DESIGN §7 C12).
  Corollaries of `C01_fidelity_bytes` + `GV.C13b.delivered_value` (what is delivered at a site); the texts are
  `W.text md … v`, the right-hand sides of the C12 value theorems (which `GV.C09R.cell_exact`, hence `C01_classify_rows`,
  is built from).  TIMESTAMP / TIMESTAMP2 go through the environment's civil-time function exactly as in C12.lean:
  the instant is rendered by `printTimestamp env.ext` (the UTC offset of an instant is the parameter `env.ext.tzOffset`;
  zero is the zero timestamp).  Property theorems and non-vacuity examples only; helper lemmas (inversion of `W.CellOK`
  per temporal type) and the concrete history `tHist` in GV/Lemmas/C12b.lean.
  Vocabulary (`runCalls`, `deliveredCol`, `written`, `Site`): see GV/Props/C13b.lean; `temporalTypes` (GV/Lemmas/C12b.lean)
  is the list of type codes [10, 14, 11, 12, 7, 17, 19, 18].
-/
namespace GV.Props.C12b
open GV GV.M GV.Props.C01 GV.Props.C01b GV.Props.C09b GV.C01c GV.C13b GV.C12b

/-- TEMPORAL VALUES, end to end.  Table column j has a temporal type and holds a value v in the image at hand.  Then
    the handler receives the Spec's canonical text of v for the column's metadata (fsp), with the local civil time of
    an instant given by `printTimestamp env.ext` (`f32`, `f64` are the Spec text's float parameters, irrelevant here),
    and v has the form that goes with the column's type, with all fields in range:
      10 / 14  `.date y m d`                      "YYYY-MM-DD" (zero dates included)
      11       `.time neg h m s`                  "[-]HH:MM:SS", hours up to 838 (three digits from 100 on)
      12       `.datetime y mo d h mi s`          "YYYY-MM-DD HH:MM:SS"
      7        `.timestamp sec`                   `printTimestamp env.ext sec` ("0000-00-00 00:00:00" for 0)
      17       `.timestamp2 sec frac`, fsp ≤ 6    `printTimestamp env.ext sec` ++ ".ffffff" (fsp digits; nothing for 0)
      19       `.time2 neg h m s frac`, fsp ≤ 6   "[-]HH:MM:SS[.ffffff]"
      18       `.datetime2 y mo d h mi s frac`    "YYYY-MM-DD HH:MM:SS[.ffffff]" -/
theorem C12_bytes_temporal_delivered (cfg : W.Cfg) (env : Env) (h : W.History) (hwf : WFHist cfg h)
    (hm : MapperAgrees env h) (i k : Nat) (c : W.RowsChange) (after : Bool) (r j : Nat)
    (hs : Site cfg h i k c after r j) (v : W.CellVal)
    (ht : (c.table.cols[j]'hs.col).typ ∈ temporalTypes) (hv : written c after r j = .value v)
    (f32 f64 : Nat → Bytes) :
    ∃ cd, deliveredCol (runCalls cfg env h) i k after r j = some cd ∧
      cd.col = .value (W.text (c.table.cols[j]'hs.col).md (fun sec => printTimestamp env.ext sec) f32 f64 v) ∧
      (((c.table.cols[j]'hs.col).typ = 10 ∨ (c.table.cols[j]'hs.col).typ = 14) →
        ∃ y m d, v = .date y m d ∧ y ≤ 9999 ∧ m ≤ 12 ∧ d ≤ 31 ∧
          cd.col = .value (digitsN 4 y ++ [45] ++ W.two m ++ [45] ++ W.two d)) ∧
      ((c.table.cols[j]'hs.col).typ = 11 →
        ∃ neg hh m s, v = .time neg hh m s ∧ hh ≤ 838 ∧ m ≤ 59 ∧ s ≤ 59 ∧ (neg = true → hh + m + s ≠ 0) ∧
          cd.col = .value ((if neg then [45] else []) ++ W.hoursText hh ++ [58] ++ W.two m ++ [58] ++ W.two s)) ∧
      ((c.table.cols[j]'hs.col).typ = 12 →
        ∃ y mo d hh mi s, v = .datetime y mo d hh mi s ∧ y ≤ 9999 ∧ mo ≤ 12 ∧ d ≤ 31 ∧ hh ≤ 23 ∧ mi ≤ 59 ∧ s ≤ 59 ∧
          cd.col = .value (digitsN 4 y ++ [45] ++ W.two mo ++ [45] ++ W.two d ++ [32] ++ W.two hh ++ [58] ++ W.two mi
                            ++ [58] ++ W.two s)) ∧
      ((c.table.cols[j]'hs.col).typ = 7 →
        ∃ sec, v = .timestamp sec ∧ sec < 2 ^ 32 ∧ cd.col = .value (printTimestamp env.ext sec) ∧
          (sec = 0 → cd.col = .value (asc "0000-00-00 00:00:00"))) ∧
      ((c.table.cols[j]'hs.col).typ = 17 →
        ∃ sec frac, v = .timestamp2 sec frac ∧ (c.table.cols[j]'hs.col).md ≤ 6 ∧ sec < 2 ^ 32 ∧
          frac < 10 ^ (c.table.cols[j]'hs.col).md ∧
          cd.col = .value (printTimestamp env.ext sec ++ W.fracText (c.table.cols[j]'hs.col).md frac)) ∧
      ((c.table.cols[j]'hs.col).typ = 19 →
        ∃ neg hh m s frac, v = .time2 neg hh m s frac ∧ (c.table.cols[j]'hs.col).md ≤ 6 ∧ hh ≤ 838 ∧ m ≤ 59 ∧ s ≤ 59 ∧
          frac < 10 ^ (c.table.cols[j]'hs.col).md ∧ (neg = true → hh + m + s + frac ≠ 0) ∧
          cd.col = .value ((if neg then [45] else []) ++ W.hoursText hh ++ [58] ++ W.two m ++ [58] ++ W.two s
                            ++ W.fracText (c.table.cols[j]'hs.col).md frac)) ∧
      ((c.table.cols[j]'hs.col).typ = 18 →
        ∃ y mo d hh mi s frac, v = .datetime2 y mo d hh mi s frac ∧ (c.table.cols[j]'hs.col).md ≤ 6 ∧ y ≤ 9999 ∧
          mo ≤ 12 ∧ d ≤ 31 ∧ hh ≤ 23 ∧ mi ≤ 59 ∧ s ≤ 59 ∧ frac < 10 ^ (c.table.cols[j]'hs.col).md ∧
          cd.col = .value (digitsN 4 y ++ [45] ++ W.two mo ++ [45] ++ W.two d ++ [32] ++ W.two hh ++ [58] ++ W.two mi
                            ++ [58] ++ W.two s ++ W.fracText (c.table.cols[j]'hs.col).md frac)) := by
  obtain ⟨_, u, _, _, hok, hd⟩ := delivered_value cfg env h hwf hm i k c after r j hs v hv
  refine ⟨_, hd, ?_, ?_, ?_, ?_, ?_, ?_, ?_, ?_⟩
  · -- the canonical text does not depend on the float parameters for a temporal value
    simp only [temporalTypes, List.mem_cons, List.not_mem_nil, or_false] at ht
    rcases ht with e | e | e | e | e | e | e | e
    · obtain ⟨y, m, d, rfl, _⟩ := inv_date _ _ u _ (Or.inl e) hok; rfl
    · obtain ⟨y, m, d, rfl, _⟩ := inv_date _ _ u _ (Or.inr e) hok; rfl
    · rw [e] at hok; obtain ⟨_, _, _, _, rfl, _⟩ := inv_time _ _ _ hok; rfl
    · rw [e] at hok; obtain ⟨_, _, _, _, _, _, rfl, _⟩ := inv_datetime _ _ _ hok; rfl
    · rw [e] at hok; obtain ⟨_, rfl, _⟩ := inv_timestamp _ _ _ hok; rfl
    · rw [e] at hok; obtain ⟨_, _, rfl, _⟩ := inv_timestamp2 _ _ _ hok; rfl
    · rw [e] at hok; obtain ⟨_, _, _, _, _, rfl, _⟩ := inv_time2 _ _ _ hok; rfl
    · rw [e] at hok; obtain ⟨_, _, _, _, _, _, _, rfl, _⟩ := inv_datetime2 _ _ _ hok; rfl
  · intro e
    obtain ⟨y, m, d, rfl, h1, h2, h3⟩ := inv_date _ _ u _ e hok
    exact ⟨y, m, d, rfl, h1, h2, h3, rfl⟩
  · intro e
    rw [e] at hok
    obtain ⟨neg, hh, m, s, rfl, h1, h2, h3, h4⟩ := inv_time _ _ _ hok
    exact ⟨neg, hh, m, s, rfl, h1, h2, h3, h4, rfl⟩
  · intro e
    rw [e] at hok
    obtain ⟨y, mo, d, hh, mi, s, rfl, h1, h2, h3, h4, h5, h6⟩ := inv_datetime _ _ _ hok
    exact ⟨y, mo, d, hh, mi, s, rfl, h1, h2, h3, h4, h5, h6, rfl⟩
  · intro e
    rw [e] at hok
    obtain ⟨sec, rfl, h1⟩ := inv_timestamp _ _ _ hok
    have ht : textOf env.ext (c.table.cols[j]'hs.col).md (.timestamp sec) = printTimestamp env.ext sec :=
      GV.C09R.ts_text env.ext sec
    refine ⟨sec, rfl, h1, by rw [ht], ?_⟩
    rintro rfl
    rw [ht]
    simp [printTimestamp]
  · intro e
    rw [e] at hok
    obtain ⟨sec, frac, rfl, h1, h2, h3⟩ := inv_timestamp2 _ _ _ hok
    refine ⟨sec, frac, rfl, h1, h2, h3, ?_⟩
    show Col.value ((if sec = 0 then asc "0000-00-00 00:00:00" else printTimestamp env.ext sec) ++ _) = _
    rw [GV.C09R.ts_text]
  · intro e
    rw [e] at hok
    obtain ⟨neg, hh, m, s, frac, rfl, h1, h2, h3, h4, h5, h6⟩ := inv_time2 _ _ _ hok
    exact ⟨neg, hh, m, s, frac, rfl, h1, h2, h3, h4, h5, h6, rfl⟩
  · intro e
    rw [e] at hok
    obtain ⟨y, mo, d, hh, mi, s, frac, rfl, h1, h2, h3, h4, h5, h6, h7, h8⟩ := inv_datetime2 _ _ _ hok
    exact ⟨y, mo, d, hh, mi, s, frac, rfl, h1, h2, h3, h4, h5, h6, h7, h8, rfl⟩

/-- the delivered texts are those of GV/Props/C12.lean: what `cellBytes` returns on the Spec's cell (shown for the two
    types whose text depends on the environment; for the others `C12.C12_date`, `C12_time_old`, `C12_datetime_old`,
    `C12_time2`, `C12_datetime2` have `W.text …` itself as right-hand side) -/
theorem C12_bytes_timestamp_text_is_C12 (E : Ext) (md fsp sec frac : Nat) (hf : fsp ≤ 6) (hs : sec < 2 ^ 32)
    (hfr : frac < 10 ^ fsp) (u : Bool) (rest : Bytes) :
    cellBytes E (W.cell 7 md (.timestamp sec) ++ rest) 0 7 md u = .ok (textOf E md (.timestamp sec), 4) ∧
    cellBytes E (W.cell 17 fsp (.timestamp2 sec frac) ++ rest) 0 17 fsp u
      = .ok (textOf E fsp (.timestamp2 sec frac), 4 + (fsp + 1) / 2) := by
  refine ⟨?_, ?_⟩
  · rw [(Props.C12.C12_timestamp_partial E md sec hs u rest).1]
    show _ = Res.ok ((if sec = 0 then asc "0000-00-00 00:00:00" else printTimestamp E sec), 4)
    rw [GV.C09R.ts_text]
  · rw [Props.C12.C12_timestamp2_partial E fsp sec frac hf hs hfr u rest]
    show _ = Res.ok ((if sec = 0 then asc "0000-00-00 00:00:00" else printTimestamp E sec) ++ _, _)
    rw [GV.C09R.ts_text]

/-! non-vacuity, on `tHist` (GV/Lemmas/C12b.lean; `tWF`, `tMapper`, `tSite`): one DELETE whose before image holds a
    DATE, TIME, DATETIME, TIMESTAMP, TIMESTAMP(3), TIME(2), DATETIME(6); time zone UTC+1.
    (Also `rHist` of GV/Lemmas/C13b.lean has a DATETIME(3) column, delivered in a partial image.) -/

example : ∃ cd, deliveredCol (runCalls {} tEnv tHist) 0 0 false 0 0 = some cd ∧ cd.col = .value (asc "2024-02-29") := by
  obtain ⟨cd, h1, h2, _⟩ := C12_bytes_temporal_delivered {} tEnv tHist tWF tMapper 0 0 tC false 0 0 (tSite 0 (by decide))
    (.date 2024 2 29) (by decide) (by decide) (fun _ => []) (fun _ => [])
  exact ⟨cd, h1, h2⟩
example : ∃ cd, deliveredCol (runCalls {} tEnv tHist) 0 0 false 0 1 = some cd ∧
    cd.col = .value (asc "-" ++ natDec 838 ++ asc ":" ++ asc "59" ++ asc ":" ++ asc "59") := by
  obtain ⟨cd, h1, h2, _⟩ := C12_bytes_temporal_delivered {} tEnv tHist tWF tMapper 0 0 tC false 0 1 (tSite 1 (by decide))
    (.time true 838 59 59) (by decide) (by decide) (fun _ => []) (fun _ => [])
  exact ⟨cd, h1, h2⟩
example : ∃ cd, deliveredCol (runCalls {} tEnv tHist) 0 0 false 0 2 = some cd ∧
    cd.col = .value (asc "1999-12-31 23:59:59") := by
  obtain ⟨cd, h1, h2, _⟩ := C12_bytes_temporal_delivered {} tEnv tHist tWF tMapper 0 0 tC false 0 2 (tSite 2 (by decide))
    (.datetime 1999 12 31 23 59 59) (by decide) (by decide) (fun _ => []) (fun _ => [])
  exact ⟨cd, h1, h2⟩
example : ∃ cd, deliveredCol (runCalls {} tEnv tHist) 0 0 false 0 3 = some cd ∧
    cd.col = .value (printTimestamp tEnv.ext 86400) := by
  obtain ⟨cd, h1, _, _, _, _, h5, _⟩ := C12_bytes_temporal_delivered {} tEnv tHist tWF tMapper 0 0 tC false 0 3
    (tSite 3 (by decide)) (.timestamp 86400) (by decide) (by decide) (fun _ => []) (fun _ => [])
  obtain ⟨sec, e, _, h, _⟩ := h5 rfl
  injection e with e
  subst e
  exact ⟨cd, h1, h⟩
example : ∃ cd, deliveredCol (runCalls {} tEnv tHist) 0 0 false 0 4 = some cd ∧
    cd.col = .value (asc "0000-00-00 00:00:00.007") := by
  obtain ⟨cd, h1, h2, _⟩ := C12_bytes_temporal_delivered {} tEnv tHist tWF tMapper 0 0 tC false 0 4 (tSite 4 (by decide))
    (.timestamp2 0 7) (by decide) (by decide) (fun _ => []) (fun _ => [])
  exact ⟨cd, h1, h2⟩
example : ∃ cd, deliveredCol (runCalls {} tEnv tHist) 0 0 false 0 5 = some cd ∧ cd.col = .value (asc "-01:02:03.45") := by
  obtain ⟨cd, h1, h2, _⟩ := C12_bytes_temporal_delivered {} tEnv tHist tWF tMapper 0 0 tC false 0 5 (tSite 5 (by decide))
    (.time2 true 1 2 3 45) (by decide) (by decide) (fun _ => []) (fun _ => [])
  exact ⟨cd, h1, h2⟩
example : ∃ cd, deliveredCol (runCalls {} tEnv tHist) 0 0 false 0 6 = some cd ∧
    cd.col = .value (asc "9999-12-31 23:59:59.999999") := by
  obtain ⟨cd, h1, h2, _⟩ := C12_bytes_temporal_delivered {} tEnv tHist tWF tMapper 0 0 tC false 0 6 (tSite 6 (by decide))
    (.datetime2 9999 12 31 23 59 59 999999) (by decide) (by decide) (fun _ => []) (fun _ => [])
  exact ⟨cd, h1, h2⟩
example (E : Ext) (rest : Bytes) :
    cellBytes E (W.cell 7 0 (.timestamp 86400) ++ rest) 0 7 0 false = .ok (textOf E 0 (.timestamp 86400), 4) ∧
    cellBytes E (W.cell 17 3 (.timestamp2 0 7) ++ rest) 0 17 3 false = .ok (textOf E 3 (.timestamp2 0 7), 4 + (3 + 1) / 2) :=
  ⟨(C12_bytes_timestamp_text_is_C12 E 0 3 86400 7 (by decide) (by decide) (by decide) false rest).1,
   (C12_bytes_timestamp_text_is_C12 E 0 3 0 7 (by decide) (by decide) (by decide) false rest).2⟩

end GV.Props.C12b
