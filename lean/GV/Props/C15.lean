import GV.Model.Streamer
import GV.Spec.Events
import GV.Lemmas.Dec
import GV.Lemmas.C15
import GV.Expect.C15
/-
  C15 — table maps decode exactly and rows are attributed to the right columns (DESIGN §7 C15).
  Property theorems only; helper lemmas in GV/Lemmas/C15.lean.
-/
namespace GV.Props.C15
open GV GV.M

/-- a column definition whose metadata fits the width MySQL writes for its type -/
def colOK (c : W.ColDef) : Bool :=
  decide (c.typ < 256) &&
  match lookup Facts.metadataClass c.typ with
  | some 0 => c.md == 0
  | some 1 => decide (c.md < 256)
  | some 2 => decide (c.md < 65536)
  | some 3 => decide (c.md < 65536)
  | _ => false

def ColOK (c : W.ColDef) : Prop := colOK c = true

/-- length-encoded integers: every width (1, 3, 4, 9 bytes); the multi-byte forms need at least one more byte
    after them, which is always the case inside a table map or rows event -/
theorem C15_lenenc (pre rest : Bytes) (n : Nat) (x : UInt8) (hn : n < 2 ^ 64) :
    readLenEncInt (pre ++ (W.lenenc n ++ x :: rest)) pre.length = .ok (some (n, pre.length + (W.lenenc n).length)) :=
  GV.C15.lenenc_read pre rest n x hn

/-- the metadata reader undoes the writer for every supported type, in the right byte order -/
theorem C15_metadata (pre rest : Bytes) (c : W.ColDef) (hc : ColOK c) :
    metadataRead (pre ++ (W.mdBytes c ++ rest)) pre.length c.typ = .ok (c.md, pre.length + (W.mdBytes c).length) :=
  GV.C15.metadata_read pre rest c hc

/-
  ORIGINAL STATEMENT — FALSE as written (refuted below by `C15_tablemap_refuted`):

/-- A table-map event decodes to exactly the schema the master logged: names, column count (including ≥ 251),
    per-column types, per-type metadata, nullability — independent of optional metadata appended after it. -/
theorem C15_tablemap (f : Format) (hf : f.headerLength = 19) (hdr : Bytes) (hh : hdr.length = 19)
    (idw id flags : Nat) (hidw : idw = 4 ∨ idw = 6)
    (hhs : f.headerSize Facts.eTableMapEvent = .ok (if idw = 4 then 6 else 8))
    (hid : id < 256 ^ idw) (hfl : flags < 65536) (db tbl : Bytes) (hdb : db.length < 256) (htbl : tbl.length < 256)
    (cols : List W.ColDef) (hne : cols ≠ []) (hcols : ∀ c ∈ cols, ColOK c) (hn : cols.length < 2 ^ 31) (optional : Bytes) :
    tableMap f (hdr ++ W.tableMapBody idw id flags db tbl cols optional)
      = .ok { flags := flags, database := db, name := tbl, types := cols.map (fun c => UInt8.ofNat c.typ),
              canBeNull := ⟨W.bitmapBytes (cols.map (·.nullable)), cols.length⟩, metadata := cols.map (·.md) }

  Why: the decoder applies the `> math.MaxInt32` sanity check twice — to the column count and to the BYTE LENGTH of
  the metadata block.  The metadata block is up to 2 bytes per column, so with 2^30 ≤ cols.length < 2^31 columns of a
  two-byte-metadata type (e.g. VARCHAR, type 15) the block is ≥ 2^31 bytes and the decoder returns an error although
  the column count itself passes.  The `_partial` versions below bound the metadata length (or, sufficient for that,
  cols.length < 2^30).  (Real MySQL tables have at most 4096 columns, so the gap is theoretical.)
-/

/-- exact behaviour of the decoder on a written table map: the only way to fail is the metadata-length guard -/
theorem C15_tablemap_general (f : Format) (hf : f.headerLength = 19) (hdr : Bytes) (hh : hdr.length = 19)
    (idw id flags : Nat) (hidw : idw = 4 ∨ idw = 6)
    (hhs : f.headerSize Facts.eTableMapEvent = .ok (if idw = 4 then 6 else 8))
    (hfl : flags < 65536) (db tbl : Bytes) (hdb : db.length < 256) (htbl : tbl.length < 256)
    (cols : List W.ColDef) (hne : cols ≠ []) (hcols : ∀ c ∈ cols, ColOK c) (hn : cols.length < 2 ^ 31) (optional : Bytes) :
    tableMap f (hdr ++ W.tableMapBody idw id flags db tbl cols optional)
      = if (cols.flatMap W.mdBytes).length > maxInt32 then .err else
        .ok { flags := flags, database := db, name := tbl, types := cols.map (fun c => UInt8.ofNat c.typ),
              canBeNull := ⟨W.bitmapBytes (cols.map (·.nullable)), cols.length⟩, metadata := cols.map (·.md) } :=
  GV.C15.tableMap_general f hf hdr hh idw id flags hidw hhs hfl db tbl hdb htbl cols hne hcols hn optional

/-- A table-map event decodes to exactly the schema the master logged: names, column count (including ≥ 251),
    per-column types, per-type metadata, nullability — independent of optional metadata appended after it.
    (corrected: the metadata block must also pass the decoder's int32 guard) -/
theorem C15_tablemap_partial_md (f : Format) (hf : f.headerLength = 19) (hdr : Bytes) (hh : hdr.length = 19)
    (idw id flags : Nat) (hidw : idw = 4 ∨ idw = 6)
    (hhs : f.headerSize Facts.eTableMapEvent = .ok (if idw = 4 then 6 else 8))
    (_hid : id < 256 ^ idw) (hfl : flags < 65536) (db tbl : Bytes) (hdb : db.length < 256) (htbl : tbl.length < 256)
    (cols : List W.ColDef) (hne : cols ≠ []) (hcols : ∀ c ∈ cols, ColOK c) (hn : cols.length < 2 ^ 31)
    (hmd : (cols.flatMap W.mdBytes).length < 2 ^ 31) (optional : Bytes) :
    tableMap f (hdr ++ W.tableMapBody idw id flags db tbl cols optional)
      = .ok { flags := flags, database := db, name := tbl, types := cols.map (fun c => UInt8.ofNat c.typ),
              canBeNull := ⟨W.bitmapBytes (cols.map (·.nullable)), cols.length⟩, metadata := cols.map (·.md) } :=
  GV.C15.tableMap_ok f hf hdr hh idw id flags hidw hhs hfl db tbl hdb htbl cols hne hcols hn hmd optional

/-- same, with the simpler sufficient bound on the column count -/
theorem C15_tablemap_partial (f : Format) (hf : f.headerLength = 19) (hdr : Bytes) (hh : hdr.length = 19)
    (idw id flags : Nat) (hidw : idw = 4 ∨ idw = 6)
    (hhs : f.headerSize Facts.eTableMapEvent = .ok (if idw = 4 then 6 else 8))
    (hid : id < 256 ^ idw) (hfl : flags < 65536) (db tbl : Bytes) (hdb : db.length < 256) (htbl : tbl.length < 256)
    (cols : List W.ColDef) (hne : cols ≠ []) (hcols : ∀ c ∈ cols, ColOK c) (hn : cols.length < 2 ^ 30) (optional : Bytes) :
    tableMap f (hdr ++ W.tableMapBody idw id flags db tbl cols optional)
      = .ok { flags := flags, database := db, name := tbl, types := cols.map (fun c => UInt8.ofNat c.typ),
              canBeNull := ⟨W.bitmapBytes (cols.map (·.nullable)), cols.length⟩, metadata := cols.map (·.md) } := by
  have hle := GV.C15.flatMap_mdBytes_length_le cols
  simp only [Nat.reducePow] at hn
  exact C15_tablemap_partial_md f hf hdr hh idw id flags hidw hhs hid hfl db tbl hdb htbl cols hne hcols
    (by simp only [Nat.reducePow]; omega) (by simp only [Nat.reducePow]; omega) optional

/-- the original statement (bound `cols.length < 2 ^ 31` only) does not hold: 2^30 VARCHAR columns -/
theorem C15_tablemap_refuted :
    ¬ (∀ (f : Format) (_ : f.headerLength = 19) (hdr : Bytes) (_ : hdr.length = 19)
      (idw id flags : Nat) (_ : idw = 4 ∨ idw = 6)
      (_ : f.headerSize Facts.eTableMapEvent = .ok (if idw = 4 then 6 else 8))
      (_ : id < 256 ^ idw) (_ : flags < 65536) (db tbl : Bytes) (_ : db.length < 256) (_ : tbl.length < 256)
      (cols : List W.ColDef) (_ : cols ≠ []) (_ : ∀ c ∈ cols, ColOK c) (_ : cols.length < 2 ^ 31) (optional : Bytes),
      tableMap f (hdr ++ W.tableMapBody idw id flags db tbl cols optional)
        = .ok { flags := flags, database := db, name := tbl, types := cols.map (fun c => UInt8.ofNat c.typ),
                canBeNull := ⟨W.bitmapBytes (cols.map (·.nullable)), cols.length⟩, metadata := cols.map (·.md) }) := by
  intro h
  obtain ⟨n, hn1, hn2⟩ : ∃ n : Nat, 1073741824 ≤ n ∧ n < 2147483648 := ⟨1073741824, by decide, by decide⟩
  let f : Format := ⟨4, [], 19, 0, List.replicate 19 6⟩
  let c0 : W.ColDef := ⟨15, 0, false⟩
  have hc0 : ColOK c0 := by unfold ColOK; decide
  have hne : List.replicate n c0 ≠ [] := by
    intro e; have := congrArg List.length e
    rw [List.length_replicate, List.length_nil] at this; omega
  have hcols : ∀ c ∈ List.replicate n c0, ColOK c := by
    intro c hc; rw [List.eq_of_mem_replicate hc]; exact hc0
  have hlen : (List.replicate n c0).length < 2 ^ 31 := by
    rw [List.length_replicate]; simp only [Nat.reducePow]; exact hn2
  have hhs : f.headerSize Facts.eTableMapEvent = .ok (if (4 : Nat) = 4 then 6 else 8) := by decide
  have hmd : 2 ^ 31 ≤ ((List.replicate n c0).flatMap W.mdBytes).length := by
    rw [GV.C15.flatMap_replicate_length]
    have : (W.mdBytes c0).length = 2 := by decide
    rw [this]; simp only [Nat.reducePow]; omega
  have h1 := h f rfl (List.replicate 19 0) (by decide) 4 0 0 (Or.inl rfl) hhs (by decide) (by decide) [] []
    (by decide) (by decide) (List.replicate n c0) hne hcols hlen []
  have h2 := GV.C15.tableMap_rejects f rfl (List.replicate 19 0) (by decide) 4 0 0 (Or.inl rfl) hhs (by decide) [] []
    (by decide) (by decide) (List.replicate n c0) hne hcols hlen hmd []
  rw [h2] at h1
  cases h1

/-- the table id, 4 or 6 bytes by the post-header length the format description announces -/
theorem C15_tableid (f : Format) (hf : f.headerLength = 19) (hdr : Bytes) (hh : hdr.length = 19) (typ : UInt8)
    (h4 : hdr[4]? = some typ) (idw id : Nat) (hidw : idw = 4 ∨ idw = 6)
    (hhs : f.headerSize typ.toNat = .ok (if idw = 4 then 6 else 8)) (hid : id < 256 ^ idw) (rest : Bytes) :
    tableID f (hdr ++ (Bytes.ofLE idw id ++ rest)) = .ok id :=
  GV.C15.tableID_read f hf hdr hh typ h4 idw id hidw hhs hid rest

/-- bitmaps: bit i of the written bitmap is the i-th flag -/
theorem C15_bitmap (bits : List Bool) (i : Nat) (hi : i < bits.length) :
    (Bitmap.bit ⟨W.bitmapBytes bits, bits.length⟩ i) = .ok bits[i] :=
  GV.C15.bitmap_bit bits i hi

/-- rows are decoded with the most recent table map announced for their id; names and signedness stay the ones the
    mapper gave at the first announcement (of that table: `classify` calls a TABLE_MAP event `known` only when the id is
    cached for the same database and name — GV/Props/C15c.lean) -/
theorem C15_latest_map (st : PState) (id : Nat) (tc old : TableCache) (ho : findTable st.tables id = some old) :
    ∃ st', stepD st (.tableMap id tc true) = .cont st' ∧ findTable st'.tables id = some tc ∧
      (∀ j, j ≠ id → findTable st'.tables j = findTable st.tables j) ∧ st'.pos = st.pos ∧ st'.tran = st.tran :=
  ⟨_, rfl, GV.C15.findTable_update_same st.tables id tc old ho,
    fun j hj => GV.C15.findTable_update_other st.tables id tc j hj, rfl, rfl⟩

theorem C15_first_map (st : PState) (id : Nat) (tc : TableCache) (ho : findTable st.tables id = none) :
    ∃ st', stepD st (.tableMap id tc false) = .cont st' ∧ findTable st'.tables id = some tc ∧
      (∀ j, j ≠ id → findTable st'.tables j = findTable st.tables j) ∧ st'.pos = st.pos ∧ st'.tran = st.tran :=
  ⟨{ st with tables := st.tables ++ [(id, tc)] }, by simp [stepD, ho], GV.C15.findTable_append_same st.tables id tc ho,
    fun j hj => GV.C15.findTable_append_other st.tables id tc j hj, rfl, rfl⟩

/-- a mapper table whose column count disagrees with the table map is rejected with an error (and, as for every
    error, nothing is delivered and the position is kept): the classification of such a packet is `decodeErr`. -/
theorem C15_mismatch_rejected (env : Env) (st : PState) (ev ev' : Bytes) (id : Nat) (tm : TableMap) (info : TableInfo)
    (hv : isValid ev = true) (ht0 : evType ev = .ok Facts.eTableMapEvent) (hfz : st.format.isZero = false)
    (hs : stripChecksum56 st.format ev = .ok ev') (ht : evType ev' = .ok Facts.eTableMapEvent)
    (hid : tableID st.format ev' = .ok id) (htm : tableMap st.format ev' = .ok tm)
    (hnew : findTable st.tables id = none) (hm : env.mapper tm.database tm.name = some info)
    (hne : info.columns.length ≠ tm.canBeNull.count) :
    classify env st ev = .decodeErr ∧ stepEvent env st ev = .stop true false := by
  have hc : classify env st ev = .decodeErr := by
    unfold classify
    simp only [hv, ht0, ofRes, hfz, hs, ht, hid, htm, hnew, hm]
    simp [Facts.eTableMapEvent, Facts.eFormatDescriptionEvent, Facts.eXIDEvent, Facts.eRotateEvent,
      Facts.eQueryEvent, hne]
  exact ⟨hc, by unfold stepEvent; rw [hc]; rfl⟩

/-! non-vacuity -/
example : ColOK ⟨246, 10 * 256 + 2, true⟩ ∧ ColOK ⟨15, 300, false⟩ ∧ ColOK ⟨3, 0, true⟩ := by
  unfold ColOK; decide

end GV.Props.C15
