import GV.Props.C01c
import GV.Lemmas.C16b
/-
  C16 (byte level, whole histories) — "decoding any event gives the same result with and without a trailing CRC32
  checksum ONCE THE ANNOUNCED ALGORITHM IS APPLIED", where the algorithm is announced PER BINLOG FILE: every file starts
  with its own FORMAT_DESCRIPTION event, and a master on which `SET GLOBAL binlog_checksum` was changed produces a log
  whose files differ in their setting (DESIGN §7 C16).  `C01_fidelity_bytes` (GV/Props/C01c.lean) covers only the Spec
  master `W.layout` with ONE global setting; here the master is the one of the test driver (GV/Driver/Hist.lean) whose
  files ALTERNATE their setting.  Property theorems and non-vacuity examples only (plus the small mutated parser of the
  refutation); definitions of the vocabulary and all helper lemmas are in GV/Lemmas/C16b.lean (namespace GV.C16b).

  Vocabulary (the rest — `UnitOK`, `histRows`, `annOK`, `MapperAgrees`, `toTx`, `posOf`, `WFHist` — is that of
  GV/Props/C01c.lean):

    D.cfgOfFile cfg k      the configuration file number k (0 = the first) is written with: `cfg` with
                           crc := cfg.crc xor (k odd); `rowsV2` / `idw4` are `cfg`'s   (GV/Driver/Hist.lean)
    D.layoutAuxMix / D.layoutMix cfg h   `W.layoutAux` / `W.layout` where every event of file k — the ROTATE / STOP
                           event that ends it and the artificial ROTATE the dump thread sends when it moves on
                           included — is written with `D.cfgOfFile cfg k`, and file k+1's FORMAT_DESCRIPTION event
                           announces `D.cfgOfFile cfg (k+1)`'s algorithm   (GV/Driver/Hist.lean)
    WFHistMix cfg h        `WFHist cfg h` with the `offsets` clause about `D.layoutMix cfg h` (every laid-out event of
                           the MIXED layout ends below 2^32); `units`, `tables`, `announced` are unchanged, since
                           `W.unitEvs` does not depend on the checksum setting
    serveMix cfg h p       what the mixed master sends for COM_BINLOG_DUMP(p) — `W.serve` over `D.layoutMix`, as
                           `D.handleHist` builds it; at the head of the first file: the artificial ROTATE, then
                           `(D.layoutMix cfg h).map (·.bytes)`   (`serveMix_head`)
    expectedMix / endPosMix cfg h p   `W.expectedAux` / `W.endPosAux` over `W.fromPos (D.layoutMix cfg h) p`
    oneFile u              the unit u is neither a ROTATE nor a master restart (it does not end the current file)
    stepEventStale / parseEventsStale   MUTATED parser (defined below): keeps the checksum algorithm of the FIRST
                           FORMAT_DESCRIPTION event for the whole stream

  RESULTS (nothing is partial, nothing about the mixed master had to be weakened)
    C16_bytes_fidelity_mixed_checksums   the statement asked for: artificial ROTATE, every laid-out event of every
                           file of the mixed layout, closed channel ⟹ exactly the expected transactions, the expected
                           end position, no error, no crash.  The artificial ROTATE between two files follows the OLD
                           file's setting and is read with the old file's format (the parser has not seen the new
                           FORMAT_DESCRIPTION event yet); the STOP event before a restart is an ordinary ignored event of
                           the old file; both conventions check out (evaluated first on `exMix` — 11 units, 3 files,
                           settings A, ¬A, A, rows changes and statements in every file — for all 8 configurations,
                           `#guard` below).
    C16_bytes_fidelity_mixed_serve       the same, stated with `serveMix` / `expectedMix` / `endPosMix`
    C16_mixed_settings_alternate         every file change really flips the setting
    C16_mixed_subsumes_global            Spec side: on a history without ROTATE / restart units the mixed master IS the
                           global-setting master (layout, well-formedness, packets, expectation, end position), and
    C16_global_from_mixed                … so `C01_fidelity_bytes` restricted to such histories is the one-file instance
    C16_stale_algorithm_refuted          the clause is not vacuous: the mutated parser that keeps the first file's
                           algorithm does NOT satisfy the theorem (kernel-computed on the two-file history `exTwo`);
                           `…_silent`: it does not even fail — it delivers the SQL text with the 4 checksum bytes
                           appended, and a ROTATE's file name likewise — while the real model delivers the exact text.
  Surprises: none in the model.  On the Spec side the FORMAT_DESCRIPTION event has the same length under both
  settings (it always carries its 4 trailing bytes), so only the other events of a file change length; the expected
  transactions of the mixed master are NOT those of the global master (offsets in the flipped files differ), which is why
  the statement is about `W.expectedAux (D.layoutMix cfg h)` and not `W.expected cfg h`.
-/
namespace GV.Props.C16b
open GV GV.M GV.Props.C01 GV.Props.C01b GV.C01c GV.C16b

/-- Byte-level fidelity for whole histories (full unit alphabet, all 8 configurations) served by a master whose
    binlog files ALTERNATE their checksum setting (file k is written with `D.cfgOfFile cfg k`, its FORMAT_DESCRIPTION
    event announces that setting): a replica that starts at the head of the first file, is sent the artificial ROTATE,
    then every laid-out event of every file, then the closed channel, and whose handler accepts everything, calls the
    handler with exactly the expected transactions — same labels, timestamps and StreamEvents — in order, nothing else,
    and returns the expected end position without error or crash.  I.e. the parser re-reads the algorithm from every
    file's FORMAT_DESCRIPTION event and strips (or does not strip) the trailing 4 bytes accordingly. -/
theorem C16_bytes_fidelity_mixed_checksums (cfg : W.Cfg) (env : Env) (h : W.History) (hwf : WFHistMix cfg h)
    (hm : MapperAgrees env h) :
    parseEvents env (fun _ => true) (PState.init ⟨W.firstFile, 4⟩)
        (((W.event (W.crcOf cfg 0) { flags := 0x20 } 4 0 (W.rotateBody 4 W.firstFile) (some 0)).1
            :: (D.layoutMix cfg h).map (·.bytes)).map Input.event ++ [Input.closed])
      = ⟨(W.expectedAux (D.layoutMix cfg h) ⟨W.firstFile, 4⟩).map (toTx env.ext),
         (W.expectedAux (D.layoutMix cfg h) ⟨W.firstFile, 4⟩).map (toTx env.ext),
         posOf (W.endPosAux (D.layoutMix cfg h) ⟨W.firstFile, 4⟩), false, false⟩ :=
  GV.C16b.fidelity_head_mix cfg env h hwf hm

/-- the same in the vocabulary of the driver: what `serveMix` sends from the head of the first file -/
theorem C16_bytes_fidelity_mixed_serve (cfg : W.Cfg) (env : Env) (h : W.History) (hwf : WFHistMix cfg h)
    (hm : MapperAgrees env h) :
    parseEvents env (fun _ => true) (PState.init ⟨W.firstFile, 4⟩)
        ((serveMix cfg h ⟨W.firstFile, 4⟩).map Input.event ++ [Input.closed])
      = ⟨(expectedMix cfg h ⟨W.firstFile, 4⟩).map (toTx env.ext), (expectedMix cfg h ⟨W.firstFile, 4⟩).map (toTx env.ext),
         posOf (endPosMix cfg h ⟨W.firstFile, 4⟩), false, false⟩ := by
  rw [serveMix_head, expectedMix_head, endPosMix_head]
  exact C16_bytes_fidelity_mixed_checksums cfg env h hwf hm

/-- the hypothesis is about files that really differ: every file change flips the setting, and the first file has
    `cfg`'s -/
theorem C16_mixed_settings_alternate (cfg : W.Cfg) (k : Nat) :
    D.cfgOfFile cfg 0 = cfg ∧ (D.cfgOfFile cfg (k + 1)).crc = !(D.cfgOfFile cfg k).crc ∧
    (D.cfgOfFile cfg k).rowsV2 = cfg.rowsV2 ∧ (D.cfgOfFile cfg k).idw4 = cfg.idw4 :=
  ⟨cof_zero cfg, cof_succ_crc cfg k, rfl, rfl⟩

/-- Spec side: on a history that stays in ONE file (no ROTATE / restart unit — equivalently `D.filesOf h` is the first
    file alone) the mixed master is the global-setting master: same layout, same well-formedness condition, same
    packets for every start position in that file, same expectation and end position. -/
theorem C16_mixed_subsumes_global (cfg : W.Cfg) (h : W.History) (h1 : ∀ u ∈ h, oneFile u = true) :
    D.filesOf h = [W.firstFile] ∧
    D.layoutMix cfg h = W.layout cfg h ∧ (WFHistMix cfg h ↔ WFHist cfg h) ∧
    (∀ p : W.Pos, p.file = W.firstFile → serveMix cfg h p = W.serve cfg h p) ∧
    (∀ p : W.Pos, expectedMix cfg h p = W.expected cfg h p) ∧
    (∀ p : W.Pos, endPosMix cfg h p = W.endPos cfg h p) := by
  refine ⟨(filesOf_one h).mp h1, layoutMix_eq_layout cfg h h1, wfMix_iff cfg h h1,
    fun p hp => serveMix_eq_serve cfg h h1 p hp, fun p => ?_, fun p => ?_⟩
  · rw [expectedMix, W.expected, layoutMix_eq_layout cfg h h1]
  · rw [endPosMix, W.endPos, layoutMix_eq_layout cfg h h1]

/-- … hence `C01_fidelity_bytes` restricted to one-file histories is an instance of the mixed theorem -/
theorem C16_global_from_mixed (cfg : W.Cfg) (env : Env) (h : W.History) (h1 : ∀ u ∈ h, oneFile u = true)
    (hwf : WFHist cfg h) (hm : MapperAgrees env h) :
    parseEvents env (fun _ => true) (PState.init ⟨W.firstFile, 4⟩)
        ((W.serve cfg h ⟨W.firstFile, 4⟩).map Input.event ++ [Input.closed])
      = ⟨(W.expected cfg h ⟨W.firstFile, 4⟩).map (toTx env.ext), (W.expected cfg h ⟨W.firstFile, 4⟩).map (toTx env.ext),
         posOf (W.endPos cfg h ⟨W.firstFile, 4⟩), false, false⟩ := by
  obtain ⟨_, _, hw, hs, he, hp⟩ := C16_mixed_subsumes_global cfg h h1
  rw [← hs _ rfl, ← he, ← hp]
  exact C16_bytes_fidelity_mixed_serve cfg env h (hw.mpr hwf) hm

/-! ### non-vacuity: three files with settings A, ¬A, A — rows changes and statements in every file, a ROTATE and a
    master restart (STOP event), a rows change in file 2 relying on the TABLE_MAP announcement of file 1 -/

open GV.Props.C01c in
def exMix : W.History :=
  [.gtid (List.replicate 16 3) 5, .tx (asc "BEGIN") [.rows exC1, .stmt exIns] (.xid 9) 90, .ddl exDdl,
   .rotate (asc "bin.000002"),
   .autoRows exC2, .stmtDML exIns, .tx (asc "BEGIN") [.rows exC1] (.commit (asc "COMMIT")) 91,
   .restart (asc "bin.000003"),
   .ddl exDdl, .autoRows exC1, .heartbeat]

def exExt : Ext := ⟨fun _ => [], fun _ => [], fun _ => [], fun _ => 0⟩
def exEnv : Env := ⟨exExt, fun _ _ => some (infoOf exTable)⟩

open GV.Props.C01c in
theorem exMixWF : WFHistMix {} exMix := by
  refine ⟨?_, by decide, ?_, by decide⟩
  · intro u hu
    simp only [exMix, List.mem_cons, List.not_mem_nil, or_false] at hu
    rcases hu with rfl | rfl | rfl | rfl | rfl | rfl | rfl | rfl | rfl | rfl | rfl
    · trivial
    · refine ⟨by decide, ?_, trivial, by decide⟩
      intro c hc
      simp only [List.mem_cons, List.not_mem_nil, or_false] at hc
      rcases hc with rfl | rfl
      · exact ⟨exC1OK, by decide⟩
      · exact ⟨exInsOK, by unfold isChangeCat; decide⟩
    · exact ⟨exDdlOK, by unfold isChangeCat; decide⟩
    · trivial
    · exact ⟨exC2OK, by decide⟩
    · exact ⟨exInsOK, by unfold isChangeCat; decide⟩
    · refine ⟨by decide, ?_, by unfold CloserOK; decide, by decide⟩
      intro c hc
      simp only [List.mem_cons, List.not_mem_nil, or_false] at hc
      subst hc
      exact ⟨exC1OK, by decide⟩
    · show (asc "bin.000003").length < 2 ^ 31
      decide
    · exact ⟨exDdlOK, by unfold isChangeCat; decide⟩
    · exact ⟨exC1OK, by decide⟩
    · trivial
  · exact ⟨Or.inl rfl, Or.inr (by decide), Or.inl rfl, Or.inl rfl, trivial⟩

theorem exMixMapper : MapperAgrees exEnv exMix := by
  intro c hc
  simp [exMix, histRows, unitRows, changeRows] at hc
  rcases hc with rfl | rfl | rfl | rfl <;> rfl

example : parseEvents exEnv (fun _ => true) (PState.init ⟨W.firstFile, 4⟩)
      (((W.event (W.crcOf {} 0) { flags := 0x20 } 4 0 (W.rotateBody 4 W.firstFile) (some 0)).1
          :: (D.layoutMix {} exMix).map (·.bytes)).map Input.event ++ [Input.closed])
    = ⟨(W.expectedAux (D.layoutMix {} exMix) ⟨W.firstFile, 4⟩).map (toTx exExt),
       (W.expectedAux (D.layoutMix {} exMix) ⟨W.firstFile, 4⟩).map (toTx exExt),
       posOf (W.endPosAux (D.layoutMix {} exMix) ⟨W.firstFile, 4⟩), false, false⟩ :=
  C16_bytes_fidelity_mixed_checksums {} exEnv exMix exMixWF exMixMapper

/-- three files, seven commit points (2 + 3 + 2), ending in the third file -/
example : D.filesOf exMix = [asc "bin.000001", asc "bin.000002", asc "bin.000003"] ∧
    (W.expectedAux (D.layoutMix {} exMix) ⟨W.firstFile, 4⟩).length = 7 ∧
    W.endPosAux (D.layoutMix {} exMix) ⟨W.firstFile, 4⟩ = ⟨asc "bin.000003", 261⟩ := by decide

/-- the settings of the three files: off, ON, off -/
example : [0, 1, 2].map (fun k => (D.cfgOfFile {} k).crc) = [false, true, false] := by decide

/-- the events of the second file as the mixed master serves them are 4 bytes longer each than what the
    global-setting master (checksums off) would serve — its FORMAT_DESCRIPTION event excepted, which has the same length
    under both settings; the first and third file are served identically -/
example : fileLens (D.layoutMix {} exMix) (asc "bin.000002") = [121, 41, 69, 42, 44, 52, 43, 23, 41] ∧
    fileLens (W.layout {} exMix) (asc "bin.000002") = [121, 37, 65, 38, 40, 48, 39, 19, 37] ∧
    fileLens (D.layoutMix {} exMix) (asc "bin.000001") = fileLens (W.layout {} exMix) (asc "bin.000001") ∧
    fileLens (D.layoutMix {} exMix) (asc "bin.000003") = fileLens (W.layout {} exMix) (asc "bin.000003") := by decide

/-- … and the labels of the transactions of the second file differ accordingly: the mixed statement is not the
    global one in disguise -/
example : W.expectedAux (D.layoutMix {} exMix) ⟨W.firstFile, 4⟩ ≠ W.expected {} exMix ⟨W.firstFile, 4⟩ := by decide

-- the main statement on `exMix`, computed (evaluator) in all 8 configurations (settings A, ¬A, A for both values of A)
#guard allCfgs.all fun cfg =>
  parseEvents exEnv (fun _ => true) (PState.init ⟨W.firstFile, 4⟩)
      ((serveMix cfg exMix ⟨W.firstFile, 4⟩).map Input.event ++ [Input.closed])
    == ⟨(expectedMix cfg exMix ⟨W.firstFile, 4⟩).map (toTx exExt), (expectedMix cfg exMix ⟨W.firstFile, 4⟩).map (toTx exExt),
        posOf (endPosMix cfg exMix ⟨W.firstFile, 4⟩), false, false⟩

/-! ### the clause is not vacuous: a parser that keeps the FIRST file's algorithm is wrong -/

/-- MUTATED parser step: once a format is in force, a later FORMAT_DESCRIPTION event replaces everything BUT the
    checksum algorithm (the first file's algorithm is kept for the whole stream) — everything else as `stepEvent` -/
def stepEventStale (env : Env) (st : PState) (ev : Bytes) : Step :=
  match classify env st ev with
  | .format f =>
    if st.format.isZero then .cont { st with format := f }
    else .cont { st with format := { f with checksumAlg := st.format.checksumAlg } }
  | d => stepD st d

/-- `parseEvents` over the mutated step -/
def parseEventsStale (env : Env) (handler : Transaction → Bool) : PState → List Input → Outcome
  | st, [] => ⟨[], [], st.pos, false, false⟩
  | st, .closed :: _ => ⟨[], [], st.pos, false, false⟩
  | st, .cancelled :: _ => ⟨[], [], st.pos, false, false⟩
  | st, .event b :: rest =>
    match stepEventStale env st b with
    | .cont st' => parseEventsStale env handler st' rest
    | .stop e c => ⟨[], [], st.pos, e, c⟩
    | .deliver tx acc =>
      if handler tx then
        let o := parseEventsStale env handler acc rest
        { o with calls := tx :: o.calls, accepted := tx :: o.accepted }
      else ⟨[tx], [], st.pos, true, false⟩

/-- two files: a DDL (checksums off), ROTATE, a statement-format INSERT (checksums ON) -/
def exTwo : W.History := [.ddl Props.C01c.exDdl, .rotate (asc "bin.000002"), .stmtDML Props.C01c.exIns]
/-- … and a second ROTATE, written in the second file (checksums ON) -/
def exTwoR : W.History := exTwo ++ [.rotate (asc "bin.000003")]

theorem exTwoWF : WFHistMix {} exTwo := by
  refine ⟨?_, by decide, trivial, by decide⟩
  intro u hu
  simp only [exTwo, List.mem_cons, List.not_mem_nil, or_false] at hu
  rcases hu with rfl | rfl | rfl
  · exact ⟨Props.C01c.exDdlOK, by unfold isChangeCat; decide⟩
  · trivial
  · exact ⟨Props.C01c.exInsOK, by unfold isChangeCat; decide⟩

theorem exTwoMapper : MapperAgrees exEnv exTwo := by
  intro c hc
  simp [exTwo, histRows, unitRows] at hc

set_option maxRecDepth 100000 in
/-- "once the ANNOUNCED algorithm is applied" is not vacuous: `C16_bytes_fidelity_mixed_checksums` is FALSE for the
    mutated parser that keeps the first FORMAT_DESCRIPTION event's algorithm.  On `exTwo` (kernel-computed) it does not
    deliver the expected transactions. -/
theorem C16_stale_algorithm_refuted :
    ¬ (∀ (cfg : W.Cfg) (env : Env) (h : W.History), WFHistMix cfg h → MapperAgrees env h →
        parseEventsStale env (fun _ => true) (PState.init ⟨W.firstFile, 4⟩)
            ((serveMix cfg h ⟨W.firstFile, 4⟩).map Input.event ++ [Input.closed])
          = ⟨(expectedMix cfg h ⟨W.firstFile, 4⟩).map (toTx env.ext), (expectedMix cfg h ⟨W.firstFile, 4⟩).map (toTx env.ext),
             posOf (endPosMix cfg h ⟨W.firstFile, 4⟩), false, false⟩) := by
  intro hall
  have h := congrArg sqlsOf (hall {} exEnv exTwo exTwoWF exTwoMapper)
  have hs : sqlsOf (parseEventsStale exEnv (fun _ => true) (PState.init ⟨W.firstFile, 4⟩)
      ((serveMix {} exTwo ⟨W.firstFile, 4⟩).map Input.event ++ [Input.closed]))
      = [[asc "CREATE table x"], [asc "insert into t values (1)" ++ [92, 42, 196, 31]]] := by decide
  have he : sqlsOf (⟨(expectedMix {} exTwo ⟨W.firstFile, 4⟩).map (toTx exExt), (expectedMix {} exTwo ⟨W.firstFile, 4⟩).map (toTx exExt),
      posOf (endPosMix {} exTwo ⟨W.firstFile, 4⟩), false, false⟩ : Outcome)
      = [[asc "CREATE table x"], [asc "insert into t values (1)"]] := by decide
  rw [hs] at h
  rw [show exEnv.ext = exExt from rfl, he] at h
  exact absurd h (by decide)

set_option maxRecDepth 100000 in
/-- … and the failure is SILENT: no error, no crash; the statement of the second file is delivered with the 4
    checksum bytes appended to its SQL text, and (on `exTwoR`) the ROTATE written in the second file moves the position
    to a file name with 4 checksum bytes appended — while the real model (by `C16_bytes_fidelity_mixed_serve`, and
    computed here) delivers the exact text and the exact file name. -/
theorem C16_stale_algorithm_silent :
    let stale := fun h => parseEventsStale exEnv (fun _ => true) (PState.init ⟨W.firstFile, 4⟩)
      ((serveMix {} h ⟨W.firstFile, 4⟩).map Input.event ++ [Input.closed])
    let real := fun h => parseEvents exEnv (fun _ => true) (PState.init ⟨W.firstFile, 4⟩)
      ((serveMix {} h ⟨W.firstFile, 4⟩).map Input.event ++ [Input.closed])
    (stale exTwo).err = false ∧ (stale exTwo).crash = false ∧
    sqlsOf (stale exTwo) = [[asc "CREATE table x"], [asc "insert into t values (1)" ++ [92, 42, 196, 31]]] ∧
    sqlsOf (real exTwo) = [[asc "CREATE table x"], [asc "insert into t values (1)"]] ∧
    (stale exTwoR).err = false ∧ (stale exTwoR).pos.file = asc "bin.000003" ++ [106, 116, 154, 27] ∧
    (real exTwoR).pos.file = asc "bin.000003" := by decide

-- the mutated parser misses the expectation on `exTwo` in all 8 configurations (either direction of the flip:
-- checksum bytes kept in the text, or 4 bytes of the text stripped) while the model meets it (evaluator)
#guard allCfgs.all fun cfg =>
  let exp : Outcome := ⟨(expectedMix cfg exTwo ⟨W.firstFile, 4⟩).map (toTx exExt), (expectedMix cfg exTwo ⟨W.firstFile, 4⟩).map (toTx exExt),
        posOf (endPosMix cfg exTwo ⟨W.firstFile, 4⟩), false, false⟩
  parseEventsStale exEnv (fun _ => true) (PState.init ⟨W.firstFile, 4⟩)
      ((serveMix cfg exTwo ⟨W.firstFile, 4⟩).map Input.event ++ [Input.closed]) != exp &&
  parseEvents exEnv (fun _ => true) (PState.init ⟨W.firstFile, 4⟩)
      ((serveMix cfg exTwo ⟨W.firstFile, 4⟩).map Input.event ++ [Input.closed]) == exp

end GV.Props.C16b
