import GV.Driver.Hist
import GV.Model.Marshal
/- Driver: marshal a transaction given in an abstract syntax; returns the model's JSON text (hex). -/
namespace GV.D
open GV.M

def parseJCol (s : String) : JCol :=
  match s.splitOn "." with
  | [f, t, e, d] => ⟨hb f, n t, e == "1", if d == "N" then none else some (hb d)⟩
  | _ => default

def parseJRows (s : String) : Option (List (List JCol)) :=
  if s == "N" then none
  else some ((splitNE s "~").map fun r => (splitNE (String.ofList (r.toList.drop 1)) "_").map parseJCol)

def parseJEvent (s : String) : JEvent :=
  match s.splitOn "," with
  | [t, db, tb, sql, ts, rv, ri] =>
    { typ := n t, db := hb db, table := hb tb, sql := hb sql, ts := ts.toInt?.getD 0,
      rowValues := parseJRows rv, rowIdentifies := parseJRows ri }
  | _ => default

def handleMarshal (a : Args) : String :=
  let pos (s : String) : Bytes × Int := match s.splitOn ":" with
    | [f, o] => (hb f, o.toInt?.getD 0)
    | _ => ([], 0)
  let (nf, no) := pos (arg a "now")
  let (xf, xo) := pos (arg a "next")
  let times : List (Int × Bytes) := (splitNE (arg a "times") ",").filterMap fun t => match t.splitOn ":" with
    | [k, v] => some (k.toInt?.getD 0, hb v)
    | _ => none
  let fmtTime : Int → Bytes := fun t => match times.find? (fun p => p.1 == t) with | some p => p.2 | none => []
  let evs : Option (List JEvent) := if arg a "events" == "N" then none else some ((splitNE (arg a "events") ";").map parseJEvent)
  let tx : JTx := ⟨nf, no, xf, xo, argInt a "ts", evs⟩
  match arg a "what" with
  | "escape" => "model=" ++ toHex (jsonEscape (argHex a "s"))
  | _ => "model=" ++ toHex (marshalTx fmtTime tx)

end GV.D
