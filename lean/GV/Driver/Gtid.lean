import GV.Driver.Util
import GV.Model.Gtid
/- Driver: GTID commands. Sets travel in an abstract syntax: `sidhex:s~e:s~e;sidhex:…` (5.6), `d-s-q,d-s-q` (MariaDB). -/
namespace GV.D
open GV.M

def parseIvs (l : List String) : List Iv :=
  l.filterMap fun t => match t.splitOn "~" with
    | [a, b] => some ⟨a.toInt?.getD 0, b.toInt?.getD 0⟩
    | _ => none

def parseSet56Abs (s : String) : Set56 :=
  if s == "" then [] else (s.splitOn ";").filterMap fun t =>
    match t.splitOn ":" with
    | sid :: ivs => some ((hexToBytes sid).getD [], parseIvs ivs)
    | [] => none

def showSet56 (s : Set56) : String :=
  String.intercalate ";" (s.sids.map fun sid =>
    String.intercalate ":" (toHex sid :: (s.get sid).map fun iv => s!"{iv.start}~{iv.stop}"))

def parseSetMariaAbs (s : String) : SetMaria :=
  if s == "" then [] else (s.splitOn ",").filterMap fun t =>
    match t.splitOn "-" with
    | [a, b, c] => some ⟨a.toNat?.getD 0, b.toNat?.getD 0, c.toNat?.getD 0⟩
    | _ => none

def showGM (g : GtidMaria) : String := s!"{g.domain}-{g.server}-{g.seq}"
def showSetMaria (s : SetMaria) : String := String.intercalate "," (s.map showGM)
def showOpt {α} (f : α → String) : Option α → String
  | some a => "ok:" ++ f a
  | none => "err"
def b01 (b : Bool) : String := if b then "1" else "0"

def handleGtid (cmd : String) (a : Args) : String :=
  let op := arg a "op"
  let s := argHex a "s"
  match cmd, op with
  | "g56", "parse_sid" => "model=" ++ showOpt toHex (parseSID s)
  | "g56", "sid_string" => "model=" ++ toHex (sidString (argHex a "sid"))
  | "g56", "parse_gtid" => "model=" ++ showOpt (fun g => s!"{toHex g.sid},{g.seq}") (parseGtid56 s)
  | "g56", "gtid_string" => "model=" ++ toHex (gtid56String ⟨argHex a "sid", argInt a "seq"⟩)
  | "g56", "parse_set" => "model=" ++ showOpt showSet56 (parseSet56 s)
  | "g56", "string" => "model=" ++ toHex (set56String (parseSet56Abs (arg a "set")))
  | "g56", "contains_gtid" => "model=" ++ b01 ((parseSet56Abs (arg a "set")).containsGtid ⟨argHex a "sid", argInt a "seq"⟩)
  | "g56", "contains" => "model=" ++ b01 ((parseSet56Abs (arg a "a")).contains (parseSet56Abs (arg a "b")))
  | "g56", "equal" => "model=" ++ b01 ((parseSet56Abs (arg a "a")).equal (parseSet56Abs (arg a "b")))
  | "g56", "add" => "model=" ++ showSet56 ((parseSet56Abs (arg a "set")).addGtid ⟨argHex a "sid", argInt a "seq"⟩)
  | "g56", "sidblock" => "model=" ++ toHex (sidBlock (parseSet56Abs (arg a "set")))
  | "g56", "fromblock" => "model=" ++ showOpt showSet56 (fromSidBlock (argHex a "b"))
  | "mar", "parse_gtid" => "model=" ++ showOpt showGM (parseGtidMaria s)
  | "mar", "gtid_string" => "model=" ++ toHex (gtidMariaString ⟨argNat a "d", argNat a "sv", argNat a "q"⟩)
  | "mar", "parse_set" => "model=" ++ showOpt showSetMaria (parseSetMaria s)
  | "mar", "string" => "model=" ++ toHex (setMariaString (parseSetMariaAbs (arg a "set")))
  | "mar", "contains_gtid" => "model=" ++ b01 ((parseSetMariaAbs (arg a "set")).containsGtid ⟨argNat a "d", argNat a "sv", argNat a "q"⟩)
  | "mar", "contains" => "model=" ++ b01 ((parseSetMariaAbs (arg a "a")).contains (parseSetMariaAbs (arg a "b")))
  | "mar", "equal" => "model=" ++ b01 ((parseSetMariaAbs (arg a "a")).equal (parseSetMariaAbs (arg a "b")))
  | "mar", "add" => "model=" ++ showSetMaria ((parseSetMariaAbs (arg a "set")).addGtid ⟨argNat a "d", argNat a "sv", argNat a "q"⟩)
  | "tag", "decode" => "model=" ++ showOpt (fun g => match g with
      | .m56 g => s!"MySQL56,{toHex g.sid},{g.seq}"
      | .maria g => "MariaDB," ++ showGM g) (decodeGTID s)
  | "tag", "encode56" => "model=" ++ toHex (encodeGTID (.m56 ⟨argHex a "sid", argInt a "seq"⟩))
  | "tag", "encodemaria" => "model=" ++ toHex (encodeGTID (.maria ⟨argNat a "d", argNat a "sv", argNat a "q"⟩))
  | _, _ => "bad-op"

end GV.D
