import GV.Driver.Util
import GV.Model.Rows
import GV.Spec.Cell
/- The driver's pure command table: one abstract or raw case in, the model's (and the spec's) answer out. -/
namespace GV.D
open GV.M

def parseFormat (s : String) : Format :=
  -- hl:alg:headersizes-hex[:version]
  match s.splitOn ":" with
  | hl :: alg :: hs :: _ =>
    { formatVersion := 4, serverVersion := [], headerLength := hl.toNat?.getD 0,
      checksumAlg := alg.toNat?.getD 0, headerSizes := (hexToBytes hs).getD [] }
  | _ => Format.zero

def parseAssoc (s : String) : List (Nat × Bytes) :=
  if s == "" then [] else (s.splitOn ",").filterMap fun t =>
    match t.splitOn ":" with
    | [k, v] => some (k.toNat?.getD 0, (hexToBytes v).getD [])
    | _ => none

def parseAssocInt (s : String) : List (Nat × Int) :=
  if s == "" then [] else (s.splitOn ",").filterMap fun t =>
    match t.splitOn ":" with
    | [k, v] => some (k.toNat?.getD 0, v.toInt?.getD 0)
    | _ => none

def look {β} (d : β) (l : List (Nat × β)) (k : Nat) : β :=
  match l.find? (fun p => p.1 == k) with
  | some p => p.2
  | none => d

/-- external parameters carried on the case line: f32=bits:hex,… f64=… f64e=… tz=sec:offset,… -/
def extOf (a : Args) : Ext :=
  { fmtFloat32 := look [] (parseAssoc (arg a "f32")),
    fmtFloat64 := look [] (parseAssoc (arg a "f64")),
    fmtFloat64E := look [] (parseAssoc (arg a "f64e")),
    tzOffset := look 0 (parseAssocInt (arg a "tz")) }

def parseTM (s : String) : TableMap :=
  -- typeshex/md,md,…
  match s.splitOn "/" with
  | [t, m] => { flags := 0, database := [], name := [], types := (hexToBytes t).getD [],
                canBeNull := ⟨[], 0⟩, metadata := natList m }
  | _ => default

def showBitmap (b : Bitmap) : String := toHex b.data ++ "/" ++ toString b.count

def showFormat (f : Format) : String :=
  s!"{f.formatVersion},{toHex f.serverVersion},{f.headerLength},{f.checksumAlg},{toHex f.headerSizes}"

def showQuery (q : Query) : String :=
  let cs := match q.charset with
    | some (a, b, c) => s!"{a}.{b}.{c}"
    | none => "N"
  s!"{toHex q.database},{cs},{toHex q.sql}"

def showTM (t : TableMap) : String :=
  s!"{t.flags},{toHex t.database},{toHex t.name},{toHex t.types},{showBitmap t.canBeNull},{showNatList t.metadata}"

def showRow (r : Row) : String :=
  s!"{showBitmap r.nullIdentify};{toHex r.identify};{showBitmap r.nullData};{toHex r.data}"

def showRows (r : Rows) : String :=
  s!"{r.flags},{showBitmap r.identifyColumns},{showBitmap r.dataColumns},[" ++
    String.intercalate "|" (r.rows.map showRow) ++ "]"

def showCol (c : ColumnData) : String :=
  let v := match c.col with
    | .absent => "A"
    | .null => "N"
    | .value b => "V" ++ toHex b
  s!"{toHex c.field}:{c.typ}:{v}"

def showCols (l : List ColumnData) : String := String.intercalate "," (l.map showCol)

def parseTI (s : String) : TableInfo :=
  -- name:u,name:u,…  (names in hex)
  let cols := if s == "" then [] else (s.splitOn ",").map fun t =>
    match t.splitOn ":" with
    | [n, u] => ((hexToBytes n).getD [], u == "1")
    | _ => ([], false)
  { db := [], table := [], columns := cols }

def parseBitmap (s : String) : Bitmap :=
  match s.splitOn "/" with
  | [d, c] => ⟨(hexToBytes d).getD [], c.toNat?.getD 0⟩
  | _ => ⟨[], 0⟩

/-! abstract cell values: v=kind:fields -/
def parseDigits (s : String) : List Nat := s.toList.map fun c => c.toNat - 48

def parseCellVal (s : String) : Option W.CellVal :=
  let n (t : String) := t.toNat?.getD 0
  match s.splitOn ":" with
  | ["i", w, v] => some (.int (n w) (v.toInt?.getD 0))
  | ["u", w, v] => some (.uint (n w) (n v))
  | ["f32", b] => some (.f32 (n b))
  | ["f64", b] => some (.f64 (n b))
  | ["y", b] => some (.year (n b))
  | ["bit", h] => some (.bit ((hexToBytes h).getD []))
  | ["en", w, v] => some (.enum (n w) (n v))
  | ["set", w, v] => some (.set (n w) (n v))
  | ["dec", neg, i, f] => some (.dec (neg == "1") (parseDigits i) (parseDigits f))
  | ["d", y, m, d] => some (.date (n y) (n m) (n d))
  | ["t", neg, h, m, s] => some (.time (neg == "1") (n h) (n m) (n s))
  | ["dt", y, mo, d, h, mi, s] => some (.datetime (n y) (n mo) (n d) (n h) (n mi) (n s))
  | ["ts", s] => some (.timestamp (n s))
  | ["t2", neg, h, m, s, f] => some (.time2 (neg == "1") (n h) (n m) (n s) (n f))
  | ["dt2", y, mo, d, h, mi, s, f] => some (.datetime2 (n y) (n mo) (n d) (n h) (n mi) (n s) (n f))
  | ["ts2", s, f] => some (.timestamp2 (n s) (n f))
  | ["s", h] => some (.str ((hexToBytes h).getD []))
  | ["raw", h] => let b := (hexToBytes h).getD []; some (.raw b b)
  | _ => none

def showCell (r : Res (Bytes × Nat)) : String := showRes (fun p => toHex p.1 ++ ":" ++ toString p.2) r

def handle (cmd : String) (a : Args) : String :=
  let b := argHex a "b"
  let f := parseFormat (arg a "f")
  match cmd with
  | "isvalid" => s!"model={if isValid b then 1 else 0}"
  | "hdr" =>
      let r : Res String := do
        let ts ← evTimestamp b; let t ← evType b; let sid ← evServerID b
        let l ← evLength b; let np ← evNextPosition b; let fl ← evFlags b
        pure s!"{ts},{t},{sid},{l},{np},{fl}"
      "model=" ++ showRes id r
  | "format" => "model=" ++ showRes showFormat (format b)
  | "strip56" => "model=" ++ showRes toHex (stripChecksum56 f b)
  | "stripmaria" => "model=" ++ showRes toHex (stripChecksumMaria f b)
  | "rotate" => "model=" ++ showRes (fun p => toHex p.1 ++ "," ++ toString p.2) (rotate f b)
  | "query" => "model=" ++ showRes showQuery (query f b)
  | "intvar" => "model=" ++ showRes (fun p => s!"{p.1},{p.2}") (intVar f b)
  | "rand" => "model=" ++ showRes (fun p => s!"{p.1},{p.2}") (rand f b)
  | "tableid" => "model=" ++ showRes toString (tableID f b)
  | "gtid56ev" => "model=" ++ showRes (fun p => toHex p.1 ++ "," ++ toString p.2) (gtid56 f b)
  | "gtidmariaev" => "model=" ++ showRes (fun p => s!"{p.1},{p.2.1},{p.2.2.1},{if p.2.2.2 then 1 else 0}") (gtidMaria f b)
  | "tmap" => "model=" ++ showRes showTM (tableMap f b)
  | "rows" => "model=" ++ showRes showRows (rows f (parseTM (arg a "tm")) b)
  | "lenenc" => "model=" ++ showRes (fun o => match o with | some (v, p) => s!"{v},{p}" | none => "F") (readLenEncInt b (argNat a "pos"))
  | "mdread" => "model=" ++ showRes (fun p => s!"{p.1},{p.2}") (metadataRead b (argNat a "pos") (argNat a "t"))
  | "clen" => "model=" ++ showRes toString (cellLength b (argNat a "pos") (argNat a "t") (argNat a "md"))
  | "cbytes" => "model=" ++ showCell (cellBytes (extOf a) b (argNat a "pos") (argNat a "t") (argNat a "md") (argBool a "u"))
  | "clenbytes" =>
      s!"clen={showRes toString (cellLength b (argNat a "pos") (argNat a "t") (argNat a "md"))} model={showCell (cellBytes (extOf a) b (argNat a "pos") (argNat a "t") (argNat a "md") (argBool a "u"))}"
  | "json" => "model=" ++ showRes toHex (printJSONData (extOf a) b)
  | "varlen" => "model=" ++ showRes (fun p => s!"{p.1},{p.2}") (readVariableLength b (argNat a "pos"))
  | "rowcols" =>
      let tm := parseTM (arg a "tm")
      let ti := parseTI (arg a "ti")
      let present := parseBitmap (arg a "present")
      let nulls := parseBitmap (arg a "nulls")
      "model=" ++ showRes showCols (rowColumns (extOf a) tm ti present nulls b present.count 0 0 0)
  | "cell" =>
      -- abstract cell: writer bytes, model on those bytes (+rest), spec text
      match parseCellVal (arg a "v") with
      | none => "bad-case"
      | some v =>
        let t := argNat a "t"; let md := argNat a "md"
        let bytes := W.cell t md v
        let rest := argHex a "rest"
        let E := extOf a
        let localCivil : Nat → Bytes := look [] (parseAssoc (arg a "civil"))
        let spec := W.text md localCivil E.fmtFloat32 E.fmtFloat64 v
        let data := bytes ++ rest
        s!"bytes={toHex bytes} clen={showRes toString (cellLength data 0 t md)} model={showCell (cellBytes E data 0 t md (argBool a "u"))} spec={toHex spec}:{bytes.length}"
  | _ => "bad-op"

end GV.D
