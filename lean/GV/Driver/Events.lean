import GV.Driver.Hist
/- Driver: single events from abstract descriptions (Spec writers) → bytes, model decode, spec expectation. -/
namespace GV.D
open GV.M

def crcArg (a : Args) : Option Bytes := if hasArg a "crc" then some (argHex a "crc") else none

/-- the format in force: header length 19, algorithm by presence of a checksum, MySQL's post-header lengths
    (or an explicit table) -/
def fmtFor (a : Args) : Format :=
  let hs := if hasArg a "hs" then argHex a "hs" else W.headerSizesFor (argBool a "idw4")
  { formatVersion := 4, serverVersion := [], headerLength := 19,
    checksumAlg := if hasArg a "alg" then argNat a "alg" else (if hasArg a "crc" then 1 else 0), headerSizes := hs }

def metaOf (a : Args) : W.EvMeta := { ts := argNat a "ts", sid := argNat a "sid", flags := argNat a "flags" }

/-- run a body decoder the way parseEvents does: strip, then decode -/
def viaStrip {α} (f : Format) (ev : Bytes) (dec : Format → Bytes → Res α) : Res α := do
  let e ← stripChecksum56 f ev
  dec f e

def parseColDefs (s : String) : List W.ColDef :=
  (splitNE s "/").map fun c => match c.splitOn "." with
    | [t, md, nl] => ⟨n t, n md, nl == "1"⟩
    | _ => default

def showRowSpec (pad : Bool) (hasB hasA : Bool) (cols : List W.ColDef) (pb pa : List Bool)
    (r : List (Option W.CellVal) × List (Option W.CellVal)) : String :=
  let img (present : List Bool) (vals : List (Option W.CellVal)) : String × String :=
    let pc := W.selectPresent present cols
    (toHex (bmBytes pad (vals.map (·.isNone))) ++ "/" ++ toString vals.length,
     toHex ((List.zip pc vals).flatMap fun (c, v) => match v with | some x => W.cell c.typ c.md x | none => []))
  let (nb, ib) := if hasB then img pb r.1 else ("/0", "")
  let (na, ia) := if hasA then img pa r.2 else ("/0", "")
  s!"{nb};{ib};{na};{ia}"

def handleEvent (a : Args) : String :=
  let kind := arg a "kind"
  let crc := crcArg a
  let f := fmtFor a
  let m := metaOf a
  let start := argNat a "start"
  match kind with
  | "hdr" =>
      let body := argHex a "body"
      let (ev, next) := W.event crc m (argNat a "typ") start body
      let r : Res String := do
        let ts ← evTimestamp ev; let t ← evType ev; let sid ← evServerID ev
        let l ← evLength ev; let np ← evNextPosition ev; let fl ← evFlags ev
        pure s!"{ts},{t},{sid},{l},{np},{fl}"
      s!"bytes={toHex ev} model={showRes id r} valid={if isValid ev then 1 else 0} spec={m.ts},{argNat a "typ"},{m.sid},{ev.length},{next},{m.flags}"
  | "fde" =>
      let sv := argHex a "sv"; let hs := argHex a "hs"; let alg := argNat a "alg"
      let (ev, _) := W.event none m 15 start (W.fdeBody sv (argNat a "created") hs alg (argHex a "fcrc"))
      s!"bytes={toHex ev} model={showRes showFormat (format ev)} spec=4,{toHex sv},19,{alg},{toHex hs}"
  | "rotate" =>
      let (ev, _) := W.event crc m 4 start (W.rotateBody (argNat a "pos") (argHex a "name"))
      s!"bytes={toHex ev} model={showRes (fun p => toHex p.1 ++ "," ++ toString p.2) (viaStrip f ev rotate)} spec={toHex (argHex a "name")},{argNat a "pos"}"
  | "query" =>
      let vars := parseVars (arg a "vars")
      let (ev, _) := W.event crc m 2 start (W.queryBody (argNat a "thread") (argNat a "exec") (argNat a "err") vars (argHex a "db") (argHex a "sql"))
      s!"bytes={toHex ev} model={showRes showQuery (viaStrip f ev query)} spec={toHex (argHex a "db")},{arg a "cs"},{toHex (argHex a "sql")}"
  | "intvar" =>
      let (ev, _) := W.event crc m 5 start (W.intVarBody (argNat a "t") (argNat a "v"))
      s!"bytes={toHex ev} model={showRes (fun p => s!"{p.1},{p.2}") (viaStrip f ev intVar)} spec={argNat a "t"},{argNat a "v"}"
  | "rand" =>
      let (ev, _) := W.event crc m 13 start (W.randBody (argNat a "s1") (argNat a "s2"))
      s!"bytes={toHex ev} model={showRes (fun p => s!"{p.1},{p.2}") (viaStrip f ev rand)} spec={argNat a "s1"},{argNat a "s2"}"
  | "tmap" =>
      let idw := if argBool a "idw4" then 4 else 6
      let cols := parseColDefs (arg a "cols")
      let (ev, _) := W.event crc m 19 start (W.tableMapBody idw (argNat a "id") (argNat a "tflags") (argHex a "db") (argHex a "tbl") cols (argHex a "opt"))
      let spec := s!"{argNat a "tflags"},{toHex (argHex a "db")},{toHex (argHex a "tbl")},{toHex (cols.map fun c => UInt8.ofNat c.typ)},{toHex (W.bitmapBytes (cols.map (·.nullable)))}/{cols.length},{showNatList (cols.map (·.md))}"
      s!"bytes={toHex ev} model={showRes showTM (viaStrip f ev tableMap)} id={showRes toString (viaStrip f ev tableID)} spec={spec} specid={argNat a "id"}"
  | "rowsev" =>
      let idw := if argBool a "idw4" then 4 else 6
      let cols := parseColDefs (arg a "cols")
      let k : W.RowKind := if arg a "k" == "w" then .write else if arg a "k" == "u" then .update else .delete
      let v2 := argBool a "v2"
      let pb := bits (arg a "pb"); let pa := bits (arg a "pa")
      let rows := (splitNE (arg a "rows") "~").map fun r => match r.splitOn "^" with
        | [b, c] => (parseImage b, parseImage c)
        | _ => ([], [])
      let pad := argBool a "pad"
      let (ev, _) := W.event crc m (W.rowsEventType k v2) start (rowsBodyP pad k v2 idw (argNat a "id") (argNat a "rflags") (argHex a "extra") cols pb pa rows)
      let tm : TableMap := { flags := 0, database := [], name := [], types := cols.map (fun c => UInt8.ofNat c.typ),
                             canBeNull := ⟨[], 0⟩, metadata := cols.map (·.md) }
      let hasB := k != .write; let hasA := k != .delete
      let bmS (has : Bool) (p : List Bool) : String := if has then toHex (bmBytes pad p) ++ "/" ++ toString cols.length else "/0"
      let spec := s!"{argNat a "rflags"},{bmS hasB pb},{bmS hasA pa},[" ++ String.intercalate "|" (rows.map (showRowSpec pad hasB hasA cols pb pa)) ++ "]"
      s!"bytes={toHex ev} model={showRes showRows (viaStrip f ev (fun f e => M.rows f tm e))} id={showRes toString (viaStrip f ev tableID)} spec={spec} specid={argNat a "id"}"
  | _ => "bad-op"

end GV.D
