import GV.Driver.Util
import GV.Model.Proto
import GV.Model.ErrorVal
/- Driver: enumerate the interleavings the protocol model allows for a given stimulus and report the set of
   observable outcomes (Stream's result class, the first Error() result class). -/
namespace GV.D
open GV.Proto

/-- exploration node: protocol state + how much of the stimulus has been consumed -/
structure Node where
  s : State
  pk : Nat          -- packets delivered to the reader so far
  ev : Nat          -- events taken by the parser so far
  dl : Nat          -- handler calls finished so far
  deriving DecidableEq

structure Stim where
  packets : List Char      -- 'e' event, 'E' EOF, 'F' failure (ERR packet / transport)
  verdicts : List Char     -- per event packet: 'c' cont, 'd' deliver, 'x' decode error
  hfail : Option Nat       -- the handler call that fails
  cancel : String          -- never | anytime | late

def succs (st : Stim) (n : Node) : List Node :=
  let mk (a : Action) (f : Node → Node) : List Node :=
    match step n.s a with
    | some s' => [f { n with s := s' }]
    | none => []
  let netA : List Node := match st.packets[n.pk]? with
    | some 'e' => mk (.net .event) fun m => { m with pk := m.pk + 1 }
    | some 'E' => mk (.net .eof) fun m => { m with pk := m.pk + 1 }
    | some 'F' => mk (.net .fail) fun m => { m with pk := m.pk + 1 }
    | _ => []
  let hand : List Node := match st.verdicts[n.ev]? with
    | some 'd' => mk (.handoff .deliver) fun m => { m with ev := m.ev + 1 }
    | some 'x' => mk (.handoff .decodeError) fun m => { m with ev := m.ev + 1 }
    | _ => mk (.handoff .cont) fun m => { m with ev := m.ev + 1 }
  let hret : List Node := mk (.handlerReturns (st.hfail != some n.dl)) fun m => { m with dl := m.dl + 1 }
  let returned := match n.s.parser with | .returned _ => true | _ => false
  let canc : List Node :=
    if n.s.cancelled then []
    else if st.cancel == "anytime" || (st.cancel == "late" && returned) then mk .callerCancels id else []
  -- Error() is called once, after the return (and, for "late", after the cancel)
  let callE : List Node :=
    if n.s.firstError = .notCalled && returned && (st.cancel != "late" || n.s.cancelled) then mk .callError id else []
  netA ++ mk .readFails id ++ hand ++ mk .readerCtxDone id ++ mk .publish id ++ hret ++ mk .parserSeesClosed id ++
    mk .parserCtxDone id ++ mk .epilogue id ++ canc ++ callE

partial def explore (st : Stim) (todo : List Node) (seen : List Node) (finals : List Node) : List Node :=
  match todo with
  | [] => finals
  | n :: rest =>
    if seen.contains n then explore st rest seen finals
    else
      let ss := succs st n
      if ss.isEmpty then explore st rest (n :: seen) (n :: finals)
      else explore st (ss ++ rest) (n :: seen) finals

def showOutcome (n : Node) : String :=
  let r := match n.s.parser with
    | .returned true => "ret:err"
    | .returned false => "ret:nil"
    | _ => "ret:hang"
  let e := match n.s.firstError with
    | .isNil => "err:nil"
    | .isErr => "err:err"
    | .notCalled => "err:blocked"
  let g := if n.s.reader = .done then "reader:done" else "reader:left"
  s!"{r},{e},{g}"

def handleProto (a : Args) : String :=
  let st : Stim := { packets := (arg a "pk").toList, verdicts := (arg a "vd").toList,
                     hfail := if hasArg a "hfail" then some (argNat a "hfail") else none, cancel := arg a "cancel" }
  let finals := explore st [⟨init, 0, 0, 0⟩] [] []
  let outs := (finals.map showOutcome).eraseDups
  "outcomes=" ++ String.intercalate "|" outs

/-- the text Error() must print for an ERR packet -/
def handleErrPkt (a : Args) : String :=
  "model=" ++ toHex (GV.M.errPacketError (argNat a "code") (argHex a "msg")).errorString

end GV.D
