import GV.Driver.Cmd
import GV.Spec.Json
/- Driver: JSON documents in a small prefix syntax → Spec bytes, model text, Spec text. -/
namespace GV.D
open GV.M

/-- tokens up to one of the delimiters -/
def takeUntil (cs : List Char) (stop : Char → Bool) : String × List Char :=
  let pre := cs.takeWhile (fun c => !stop c)
  (String.ofList pre, cs.drop pre.length)

mutual
partial def parseDoc (cs : List Char) : Option (W.JDoc × List Char) :=
  match cs with
  | 'o' :: l :: '(' :: rest =>
    match parseKVs rest [] with
    | some (kvs, rest') => some (.obj (l == '1') kvs, rest')
    | none => none
  | 'a' :: l :: '(' :: rest =>
    match parseVals rest [] with
    | some (vs, rest') => some (.arr (l == '1') vs, rest')
    | none => none
  | _ =>
    let (tok, rest) := takeUntil cs (fun c => c == ',' || c == ')')
    let nn (t : String) := t.toNat?.getD 0
    match tok.splitOn ":" with
    | ["l", b] => some (.lit (nn b), rest)
    | ["i16", v] => some (.i16 (v.toInt?.getD 0), rest)
    | ["u16", v] => some (.u16 (nn v), rest)
    | ["i32", v] => some (.i32 (v.toInt?.getD 0), rest)
    | ["u32", v] => some (.u32 (nn v), rest)
    | ["i64", v] => some (.i64 (v.toInt?.getD 0), rest)
    | ["u64", v] => some (.u64 (nn v), rest)
    | ["d", v] => some (.dbl (nn v), rest)
    | ["s", h] => some (.str ((hexToBytes h).getD []), rest)
    | ["od", y, m, d] => some (.odate (nn y) (nn m) (nn d), rest)
    | ["ot", ng, h, mi, s, mc] => some (.otime (ng == "1") (nn h) (nn mi) (nn s) (nn mc), rest)
    | ["odt", y, mo, d, h, mi, s, mc] => some (.odatetime (nn y) (nn mo) (nn d) (nn h) (nn mi) (nn s) (nn mc), rest)
    | ["odec", p, s, ng, i, f] => some (.odecimal (nn p) (nn s) (ng == "1") (parseDigits i) (parseDigits f), rest)
    | _ => none
partial def parseVals (cs : List Char) (acc : List W.JDoc) : Option (List W.JDoc × List Char) :=
  match cs with
  | ')' :: rest => some (acc.reverse, rest)
  | ',' :: rest => parseVals rest acc
  | _ => match parseDoc cs with
    | some (d, rest) => parseVals rest (d :: acc)
    | none => none
partial def parseKVs (cs : List Char) (acc : List (Bytes × W.JDoc)) : Option (List (Bytes × W.JDoc) × List Char) :=
  match cs with
  | ')' :: rest => some (acc.reverse, rest)
  | ',' :: rest => parseKVs rest acc
  | _ =>
    let (k, rest) := takeUntil cs (fun c => c == '=')
    match rest with
    | '=' :: rest' => match parseDoc rest' with
      | some (d, rest'') => parseKVs rest'' (((hexToBytes k).getD [], d) :: acc)
      | none => none
    | _ => none
end

def handleJsonDoc (a : Args) : String :=
  match parseDoc (arg a "doc").toList with
  | none => "bad-case"
  | some (d, _) =>
    let E := extOf a
    let b := W.jsonb d
    s!"bytes={toHex b} model={showRes toHex (printJSONData E b)} spec={toHex (W.render E.fmtFloat64E true d)}"

end GV.D
