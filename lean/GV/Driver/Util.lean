import GV.Base.Go
/- Line-protocol helpers for the driver (Appendix B of DESIGN.md). -/
namespace GV.D

def hexVal (c : Char) : Option Nat :=
  if '0' ≤ c ∧ c ≤ '9' then some (c.toNat - 48)
  else if 'a' ≤ c ∧ c ≤ 'f' then some (c.toNat - 87)
  else if 'A' ≤ c ∧ c ≤ 'F' then some (c.toNat - 55)
  else none

def hexToBytesAux : List Char → Bytes → Option Bytes
  | [], acc => some acc.reverse
  | [_], _ => none
  | a :: b :: rest, acc =>
    match hexVal a, hexVal b with
    | some x, some y => hexToBytesAux rest (UInt8.ofNat (x * 16 + y) :: acc)
    | _, _ => none

def hexToBytes (s : String) : Option Bytes := hexToBytesAux s.toList []

def hexChar (n : Nat) : Char := if n < 10 then Char.ofNat (48 + n) else Char.ofNat (87 + n)

def toHex (b : Bytes) : String :=
  String.ofList (b.foldr (fun x acc => hexChar (x.toNat / 16) :: hexChar (x.toNat % 16) :: acc) [])

abbrev Args := List (String × String)

def parseArgs (toks : List String) : Args :=
  toks.filterMap fun t =>
    match t.splitOn "=" with
    | k :: v :: rest => some (k, String.intercalate "=" (v :: rest))
    | _ => none

def arg (a : Args) (k : String) : String :=
  match a.find? (fun p => p.1 == k) with
  | some p => p.2
  | none => ""

def hasArg (a : Args) (k : String) : Bool := (a.find? (fun p => p.1 == k)).isSome

def argNat (a : Args) (k : String) : Nat := (arg a k).toNat?.getD 0
def argInt (a : Args) (k : String) : Int := (arg a k).toInt?.getD 0
def argHex (a : Args) (k : String) : Bytes := (hexToBytes (arg a k)).getD []
def argBool (a : Args) (k : String) : Bool := arg a k == "1"

def natList (s : String) : List Nat :=
  if s == "" then [] else (s.splitOn ",").map fun t => t.toNat?.getD 0

def showRes {α} (f : α → String) : Res α → String
  | .ok a => "ok:" ++ f a
  | .err => "err"
  | .panic => "panic"
  | .diverge => "diverge"

def showNatList (l : List Nat) : String := String.intercalate "," (l.map toString)

end GV.D
