import GV.Driver.Cmd
import GV.Model.Streamer
import GV.Spec.History
/- Driver: histories.  Parses the `hist` line, runs Spec (serve / expected) and Model (parseEvents), prints both in
   one canonical syntax. -/
namespace GV.D
open GV.M

def n (t : String) : Nat := t.toNat?.getD 0
def hb (t : String) : Bytes := (hexToBytes t).getD []
def bits (t : String) : List Bool := t.toList.map (· == '1')
def splitNE (s : String) (sep : String) : List String := if s == "" then [] else s.splitOn sep

def parseCol (s : String) : W.ColDef × Bytes × Bool :=
  match s.splitOn "." with
  | [t, md, nl, nm, u] => (⟨n t, n md, nl == "1"⟩, hb nm, u == "1")
  | _ => (default, [], false)

def parseTable (s : String) : W.TableDef :=
  match s.splitOn "," with
  | [id, db, nm, cols] =>
    let cs := (splitNE cols "/").map parseCol
    { id := n id, db := hb db, name := hb nm, cols := cs.map (·.1), names := cs.map (·.2.1), unsigned := cs.map (·.2.2) }
  | _ => default

def parseVal (s : String) : Option W.CellVal := if s == "N" then none else parseCellVal s
def parseImage (s : String) : List (Option W.CellVal) := (splitNE s "_").map parseVal

def parseVars (s : String) : List W.StatusVar :=
  (splitNE s "/").map fun v => match v.splitOn "." with
    | [c, p] => ⟨n c, hb p⟩
    | _ => ⟨0, []⟩

def parseCharset (s : String) : Option (Nat × Nat × Nat) :=
  match s.splitOn "." with
  | [a, b, c] => some (n a, n b, n c)
  | _ => none

def parseStmt (s : String) : W.StmtChange :=
  match s.splitOn "," with
  | [sql, db, ts, cat, vars, cs] => { sql := hb sql, db := hb db, ts := n ts, vars := parseVars vars, cat := n cat, charset := parseCharset cs }
  | _ => default

def parseRowsChange (tables : List W.TableDef) (s : String) : W.RowsChange :=
  match s.splitOn "," with
  | [kind, ti, ts, flags, extra, pb, pa, ann, opt, rows] =>
    { kind := if kind == "w" then .write else if kind == "u" then .update else .delete,
      table := tables.getD (n ti) default, ts := n ts, flags := n flags, extra := hb extra,
      presentBefore := bits pb, presentAfter := bits pa, announce := ann == "1", tmOptional := hb opt,
      rows := (splitNE rows "~").map fun r => match r.splitOn "^" with
        | [b, a] => (parseImage b, parseImage a)
        | _ => ([], []) }
  | _ => default

def parseChange (tables : List W.TableDef) (s : String) : W.Change :=
  if s.startsWith "R" then .rows (parseRowsChange tables (String.ofList (s.toList.drop 1))) else .stmt (parseStmt (String.ofList (s.toList.drop 1)))

def parseCloser (s : String) : W.Closer :=
  if s.startsWith "x" then .xid (n (String.ofList (s.toList.drop 1)))
  else if s.startsWith "c" then .commit (hb (String.ofList (s.toList.drop 1)))
  else .rollback (hb (String.ofList (s.toList.drop 1)))

def parseUnit (tables : List W.TableDef) (s : String) : W.Unit :=
  match s.splitOn "|" with
  | ["tx", b, cl, ts, chs] => .tx (hb b) ((splitNE chs "+").map (parseChange tables)) (parseCloser cl) (n ts)
  | ["ddl", st] => .ddl (parseStmt st)
  | ["dml", st] => .stmtDML (parseStmt st)
  | ["ust", st] => .unknownStmt (parseStmt st)
  | ["ar", rc] => .autoRows (parseRowsChange tables rc)
  | ["rot", f] => .rotate (hb f)
  | ["rst", f] => .restart (hb f)
  | ["gt", sid, gno] => .gtid (hb sid) (n gno)
  | ["ag"] => .anonGtid
  | ["pg", b] => .prevGtids (hb b)
  | ["hb"] => .heartbeat
  | ["ue", t, b] => .unknownEvent (n t) (hb b)
  | _ => .heartbeat

def parseCfg (s : String) : W.Cfg :=
  match s.toList with
  | [a, b, c] => { crc := a == '1', rowsV2 := b == '1', idw4 := c == '1' }
  | _ => {}

def parsePos (s : String) : W.Pos :=
  match s.splitOn ":" with
  | [f, o] => ⟨hb f, n o⟩
  | _ => ⟨[], 0⟩

/-! canonical text -/
def showPos (f : Bytes) (o : Int) : String := s!"{toHex f}:{o}"
def showColS (nm : Bytes) (typ : Nat) (v : String) : String := s!"{toHex nm}:{typ}:{v}"
def showCS (cs : Option (Nat × Nat × Nat)) : String := match cs with | some (a, b, c) => s!"{a}.{b}.{c}" | none => "N"

def showModelCol (c : ColumnData) : String :=
  showColS c.field c.typ (match c.col with | .absent => "A" | .null => "N" | .value b => "V" ++ toHex b)
def showModelRow (r : List ColumnData) : String := String.intercalate "," (r.map showModelCol)
def showModelEv (e : StreamEvent) : String :=
  match e.query with
  | some q => s!"S:{e.typ}:{toHex q.database}:{showCS q.charset}:{toHex q.sql}:{e.timestamp}"
  | none => s!"R:{e.typ}:{toHex e.table.1}.{toHex e.table.2}:{e.timestamp}:V[" ++ String.intercalate "|" (e.rowValues.map showModelRow)
              ++ "]:I[" ++ String.intercalate "|" (e.rowIdentifies.map showModelRow) ++ "]"
def showModelTx (t : Transaction) : String :=
  s!"now={showPos t.now.file t.now.offset},next={showPos t.next.file t.next.offset},ts={t.timestamp},ev=<" ++
    String.intercalate ";" (t.events.map showModelEv) ++ ">"

/-- spec: a full-width row from the present bitmap and the present values -/
def specRow (txt : Nat → W.CellVal → Bytes) (t : W.TableDef) (present : List Bool) (vals : List (Option W.CellVal)) : String :=
  let rec go (cols : List (W.ColDef × Bytes)) (present : List Bool) (vals : List (Option W.CellVal)) : List String :=
    match cols, present with
    | (c, nm) :: cs, p :: ps =>
      if !p then showColS nm c.typ "A" :: go cs ps vals
      else match vals with
        | none :: vs => showColS nm c.typ "N" :: go cs ps vs
        | some v :: vs => showColS nm c.typ ("V" ++ toHex (txt c.md v)) :: go cs ps vs
        | [] => ["?"]
    | _, _ => []
  String.intercalate "," (go (List.zip t.cols t.names) present vals)

def kindCat : W.RowKind → Nat
  | .write => 4 | .update => 5 | .delete => 6

def specChange (txt : Nat → W.CellVal → Bytes) : W.Change → String
  | .stmt s => s!"S:{s.cat}:{toHex s.db}:{showCS s.charset}:{toHex s.sql}:{s.ts}"
  | .rows c =>
    let vals := if c.kind == .delete then [] else c.rows.map fun r => specRow txt c.table c.presentAfter r.2
    let ids := if c.kind == .write then [] else c.rows.map fun r => specRow txt c.table c.presentBefore r.1
    s!"R:{kindCat c.kind}:{toHex c.table.db}.{toHex c.table.name}:{c.ts}:V[" ++ String.intercalate "|" vals ++ "]:I[" ++
      String.intercalate "|" ids ++ "]"

def showSpecTx (txt : Nat → W.CellVal → Bytes) (t : W.ETx) : String :=
  s!"now={showPos t.now.file t.now.offset},next={showPos t.next.file t.next.offset},ts={t.ts},ev=<" ++
    String.intercalate ";" (t.changes.map (specChange txt)) ++ ">"

def mapperOf (tables : List W.TableDef) (mode : String) : Bytes → Bytes → Option TableInfo := fun db nm =>
  match tables.find? (fun t => t.db == db && t.name == nm) with
  | none => none
  | some t =>
    let idx := (tables.findIdx? (fun x => x.db == db && x.name == nm)).getD 0
    if mode == s!"err@{idx}" then none
    else
      let cols := List.zip t.names t.unsigned
      let cols := if mode == s!"more@{idx}" then cols ++ [([120], false)] else if mode == s!"less@{idx}" then cols.dropLast else cols
      some { db := db, table := nm, columns := cols }

/-- `pad=1`: the unused high bits of the last byte of every bitmap are SET, as a real master leaves them
    (`bitmap_set_all` for the column bitmaps, `null_bits = (1 << 8) - 1` in pack_row); the Spec writers of
    GV/Spec/Events.lean clear them. Readers must not look at those bits. -/
def bmBytes (pad : Bool) (bits : List Bool) : Bytes :=
  if pad then W.bitmapBytes (bits ++ List.replicate ((8 - bits.length % 8) % 8) true) else W.bitmapBytes bits

def imageBytesP (pad : Bool) (cols : List W.ColDef) (vals : List (Option W.CellVal)) : Bytes :=
  bmBytes pad (vals.map (·.isNone)) ++
    (List.zip cols vals).flatMap fun (c, v) => match v with | some x => W.cell c.typ c.md x | none => []

def rowsBodyP (pad : Bool) (k : W.RowKind) (v2 : Bool) (idw id flags : Nat) (extra : Bytes) (cols : List W.ColDef)
    (presentBefore presentAfter : List Bool) (rows : List (List (Option W.CellVal) × List (Option W.CellVal))) : Bytes :=
  let hasBefore := k != .write
  let hasAfter := k != .delete
  Bytes.ofLE idw id ++ Bytes.ofLE 2 flags ++ (if v2 then Bytes.ofLE 2 (2 + extra.length) ++ extra else [])
    ++ W.lenenc cols.length
    ++ (if hasBefore then bmBytes pad presentBefore else [])
    ++ (if hasAfter then bmBytes pad presentAfter else [])
    ++ rows.flatMap fun (b, a) =>
        (if hasBefore then imageBytesP pad (W.selectPresent presentBefore cols) b else []) ++
        (if hasAfter then imageBytesP pad (W.selectPresent presentAfter cols) a else [])

/-- the rows changes of a history, in log order -/
def rowsOfUnit : W.Unit → List W.RowsChange
  | .tx _ cs _ _ => cs.filterMap fun c => match c with | .rows r => some r | _ => none
  | .autoRows c => [c]
  | _ => []

/-- `pad=1` on a history: every ROWS event is re-written with the padding bits of its bitmaps set (same length, so
    offsets and headers are unchanged): the packet whose body equals the Spec body of a rows change gets the padded body -/
def padPacket (cfg : W.Cfg) (rcs : List W.RowsChange) (b : Bytes) : Bytes :=
  let idw := if cfg.idw4 then 4 else 6
  match rcs.find? (fun c =>
      let body := W.rowsBody c.kind cfg.rowsV2 idw c.table.id c.flags c.extra c.table.cols c.presentBefore c.presentAfter c.rows
      (b.drop 19).take body.length == body && b.getD 4 0 == UInt8.ofNat (W.rowsEventType c.kind cfg.rowsV2)) with
  | some c =>
      let body := W.rowsBody c.kind cfg.rowsV2 idw c.table.id c.flags c.extra c.table.cols c.presentBefore c.presentAfter c.rows
      b.take 19 ++ rowsBodyP true c.kind cfg.rowsV2 idw c.table.id c.flags c.extra c.table.cols c.presentBefore c.presentAfter c.rows
        ++ b.drop (19 + body.length)
  | none => b

/-- `bias=N` (large-offset histories): every offset beyond the head FORMAT_DESCRIPTION event of a file is moved up
    by N, as if N more bytes of earlier events lay between the file head and the first served unit. An event's bytes
    depend on its place only through the header's next_position field (and the checksum, which the replica does not
    verify), so the relocated stream is what a master would serve for the same units at the higher offsets. -/
def relocOff (fnext N o : Nat) : Nat := if o ≤ fnext then o else o + N
def unrelocOff (fnext N o : Nat) : Nat := if o ≤ fnext then o else o - N
def relocPacket (fnext N : Nat) (b : Bytes) : Bytes :=
  if b.length < 19 then b else
  let np := Bytes.le ((b.drop 13).take 4)
  if np == 0 then b else b.take 13 ++ Bytes.ofLE 4 (relocOff fnext N np) ++ b.drop 17
/-- the artificial ROTATE that opens a dump carries the requested offset in its body -/
def relocFirst (fnext N : Nat) (b : Bytes) : Bytes :=
  if b.length < 27 || b.getD 4 0 != 4 then b else
  b.take 19 ++ Bytes.ofLE 8 (relocOff fnext N (Bytes.le ((b.drop 19).take 8))) ++ b.drop 27

/-- `crcmix=1`: the checksum setting alternates from one binlog file to the next (a master on which
    `SET GLOBAL binlog_checksum` was changed: the change rotates the log, and every file's FORMAT_DESCRIPTION event
    announces that file's algorithm). File number k (0 = the first) uses `cfg.crc` xor (k odd). The artificial ROTATE
    sent when the dump thread moves on still follows the old file's setting, as the sender has not read the new
    file's description yet. Same code as `W.layoutAux` otherwise. -/
def cfgOfFile (cfg : W.Cfg) (k : Nat) : W.Cfg := { cfg with crc := if k % 2 == 1 then !cfg.crc else cfg.crc }

def layoutAuxMix (cfg : W.Cfg) : Nat → List W.AEv → Bytes → Nat → List W.Laid
  | _, [], _, _ => []
  | k, e :: es, file, off =>
    let c := cfgOfFile cfg k
    let (b, next) := W.event (W.crcOf c off) { ts := e.ts } e.typ off e.body
    let here : W.Laid := ⟨file, off, next, b, e.ts, e.tag, e.unitStart⟩
    let fakeRot (f : Bytes) : W.Laid :=
      ⟨file, next, next, (W.event (W.crcOf c next) { flags := 0x20 } 4 0 (W.rotateBody 4 f) (some 0)).1, 0, .rotateTo f, false⟩
    match e.tag with
    | .rotateTo f =>
      let (fb, fnext) := W.fdeEvent (cfgOfFile cfg (k + 1)) 4 none
      here :: fakeRot f :: ⟨f, 4, fnext, fb, 0, .fileHead, false⟩ :: layoutAuxMix cfg (k + 1) es f fnext
    | .stopThenRotateTo f =>
      let (fb, fnext) := W.fdeEvent (cfgOfFile cfg (k + 1)) 4 none
      { here with tag := .none } :: fakeRot f :: ⟨f, 4, fnext, fb, 0, .fileHead, false⟩ :: layoutAuxMix cfg (k + 1) es f fnext
    | _ => here :: layoutAuxMix cfg k es file next

def layoutMix (cfg : W.Cfg) (h : W.History) : List W.Laid :=
  let (fb, fnext) := W.fdeEvent cfg 4 none
  ⟨W.firstFile, 4, fnext, fb, 0, .fileHead, false⟩ :: layoutAuxMix cfg 0 (h.flatMap (W.unitEvs cfg)) W.firstFile fnext

def filesOf (h : W.History) : List Bytes :=
  W.firstFile :: h.flatMap fun u => match u with | .rotate f => [f] | .restart f => [f] | _ => []

def handleHist (a : Args) : String :=
  let cfg := parseCfg (arg a "cfg")
  let tables := (splitNE (arg a "tables") ";").map parseTable
  let h : W.History := (splitNE (arg a "units") ";").map (parseUnit tables)
  let bias := argNat a "bias"
  let fnext := (W.fdeEvent cfg 4 none).2
  let rl := relocOff fnext bias
  let pB := parsePos (arg a "p")                      -- as the replica names it (relocated)
  -- an empty file name asks for the oldest binlog: the master serves its first file (and names it in the artificial
  -- ROTATE, which the replica skips before the format description), the replica keeps labelling with "" until a
  -- real ROTATE names the next file
  let emptyStart := pB.file.isEmpty
  let rn (f : Bytes) : Bytes := if emptyStart && f == W.firstFile then [] else f
  let p : W.Pos := ⟨if emptyStart then W.firstFile else pB.file, unrelocOff fnext bias pB.offset⟩
  let E := extOf a
  let localCivil : Nat → Bytes := look [] (parseAssoc (arg a "civil"))
  -- jtext=<cell bytes hex>:<text hex>,…  — JSON columns: the cell travels pre-encoded (`.raw`: length prefix + the
  -- document serialised by the Spec's JSON writer, obtained from the `jdoc` command); its canonical text is the
  -- Spec's rendering of the document, carried here
  let jtext : List (Bytes × Bytes) := (splitNE (arg a "jtext") ",").filterMap fun t =>
    match t.splitOn ":" with | [k, v] => some (hb k, hb v) | _ => none
  let txt : Nat → W.CellVal → Bytes := fun md v => match v with
    | .raw b _ => (match jtext.find? (fun q => q.1 == b) with | some q => q.2 | none => b)
    | _ => W.text md localCivil E.fmtFloat32 E.fmtFloat64 v
  let mix := argBool a "crcmix"
  let full : List W.Laid := if mix then layoutMix cfg h else W.layout cfg h
  let rest := W.fromPos full p
  -- what the master sends for COM_BINLOG_DUMP(p) (as W.serve, over `full`): artificial ROTATE, the file's FDE
  -- (artificial, announcing that file's algorithm, when p is past the head), then the events from p on
  let cfgP := if mix then cfgOfFile cfg ((filesOf h).idxOf p.file) else cfg
  let fakeRot := (W.event (W.crcOf cfg 0) { flags := 0x20 } 4 0 (W.rotateBody p.offset p.file) (some 0)).1
  let headFde : List Bytes := match rest with
    | e :: _ => if e.tag == .fileHead then [] else [(W.fdeEvent cfgP 4 (some 0)).1]
    | [] => [(W.fdeEvent cfgP 4 (some 0)).1]
  let packets := fakeRot :: headFde ++ rest.map (·.bytes)
  let packets := if bias == 0 then packets else match packets with
    | f :: rest => relocFirst fnext bias f :: rest.map (relocPacket fnext bias)
    | [] => []
  let packets := if argBool a "pad" then packets.map (padPacket cfg (h.flatMap rowsOfUnit)) else packets
  -- noise=<i>:<hex>;…  — extra packets the master sends right after the laid-out event number i (counted over the
  -- whole log, so the same noise shows up wherever a dump starts): ignorable events and statements the parser does
  -- not know, also INSIDE transactions (the Spec grammar only has them between units). The Spec's expectation is
  -- unchanged: such packets must not alter grouping, labels or the kept position. Their next_position field is set
  -- to that of the event they follow (they claim no room of their own).
  let noise : List (Nat × Bytes) := (splitNE (arg a "noise") ";").filterMap fun t =>
    match t.splitOn ":" with | [i, b] => some (n i, hb b) | _ => none
  let packets := if noise.isEmpty then packets else
    let laidN := rest.length
    let pre := packets.length - laidN
    let base := full.length - laidN
    let setNext (nz pred : Bytes) : Bytes :=
      if nz.length < 19 || pred.length < 19 then nz else nz.take 13 ++ (pred.drop 13).take 4 ++ nz.drop 17
    let rec weave (k : Nat) : List Bytes → List Bytes
      | [] => []
      | b :: bs => b :: ((noise.filter (·.1 == base + k)).map (fun nz => setNext nz.2 b)) ++ weave (k + 1) bs
    packets.take pre ++ weave 0 (packets.drop pre)
  -- packets the harness wants injected / replaced: inject=<index>:<hex>
  let packets := match (arg a "inject").splitOn ":" with
    | [i, b] => packets.take (n i) ++ [hb b] ++ packets.drop (n i)
    | _ => packets
  let packets := if hasArg a "cut" then packets.take (argNat a "cut") else packets
  let exp := (W.expectedAux rest p).map fun t => { t with now := ⟨rn t.now.file, rl t.now.offset⟩, next := ⟨rn t.next.file, rl t.next.offset⟩ }
  let failAt := if hasArg a "failat" then some (argNat a "failat") else none
  let failKey : Option W.Pos := match failAt with | some j => (exp[j]?).map (·.next) | none => none
  let handler : Transaction → Bool := fun tx =>
    match failKey with
    | some k => !(tx.next.file == k.file && tx.next.offset == (k.offset : Int))
    | none => true
  let env : Env := { ext := E, mapper := mapperOf tables (arg a "mapper") }
  let st := PState.init ⟨pB.file, pB.offset⟩
  let inputs := packets.map Input.event ++ [if arg a "end" == "cancel" then Input.cancelled else Input.closed]
  let o := parseEvents env handler st inputs
  let cls := if o.crash then "crash" else if o.err then "err" else "nil"
  let model := s!"{cls}@{showPos o.pos.file o.pos.offset}#" ++ String.intercalate "&" (o.calls.map showModelTx)
  let spec := String.intercalate "&" (exp.map (showSpecTx txt))
  -- per packet: what the parser does with it (c = continue, d = deliver, x = stop with an error), handler accepting
  let rec verdicts (st : PState) : List Bytes → List Char
    | [] => []
    | b :: bs => match stepEvent env st b with
      | .cont st' => 'c' :: verdicts st' bs
      | .deliver _ acc => 'd' :: verdicts acc bs
      | .stop _ _ => ['x']
  let vd := String.ofList (verdicts st packets)
  let bounds : List W.Pos := (full.filterMap fun e => if e.unitStart || e.tag == .fileHead then some ⟨e.file, e.start⟩ else none) ++
    (match full.getLast? with | some e => [⟨e.file, e.next⟩] | none => [])
  let bnd := String.intercalate "," (bounds.map fun b => showPos (rn b.file) (rl b.offset))
  let ep0 := W.endPosAux rest p
  let ep : W.Pos := ⟨rn ep0.file, rl ep0.offset⟩
  s!"packets={String.intercalate "," (packets.map toHex)} model={model} spec={spec} endpos={showPos ep.file ep.offset} boundaries={bnd} vd={vd}"

end GV.D
