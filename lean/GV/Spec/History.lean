import GV.Spec.Events
/-
  Spec side: the abstract binlog grammar (History), the master (`serve`) and what a replica must deliver
  (`expected`).  Written from the unit structure — it never looks at the parser model.
-/
namespace GV.W
open Bytes

structure Cfg where
  crc : Bool := false
  rowsV2 : Bool := true
  idw4 : Bool := false
  deriving Repr, DecidableEq, BEq, Inhabited

/-- a table as master and mapper see it -/
structure TableDef where
  id : Nat
  db : Bytes
  name : Bytes
  cols : List ColDef
  names : List Bytes            -- column names (mapper)
  unsigned : List Bool          -- signedness by ordinal (mapper)
  deriving Repr, DecidableEq, BEq, Inhabited

/-- a column value in a full-width row: absent from the image, NULL, or a value -/
inductive ColVal where
  | absent | null | value (v : CellVal)
  deriving Repr, DecidableEq, BEq, Inhabited

structure RowsChange where
  kind : RowKind
  table : TableDef
  ts : Nat
  flags : Nat
  extra : Bytes                                   -- v2 extra data
  presentBefore : List Bool
  presentAfter : List Bool
  rows : List (List (Option CellVal) × List (Option CellVal))   -- present columns only
  announce : Bool                                 -- preceded by its TABLE_MAP event
  tmOptional : Bytes                              -- optional metadata appended to that table map
  deriving Repr, DecidableEq, BEq, Inhabited

structure StmtChange where
  sql : Bytes
  db : Bytes
  ts : Nat
  vars : List StatusVar
  cat : Nat := 0                -- the statement type the replica must report (given by whoever wrote the SQL)
  charset : Option (Nat × Nat × Nat) := none   -- what the status variables say about the session charset
  deriving Repr, DecidableEq, BEq, Inhabited

inductive Change where
  | rows (c : RowsChange)
  | stmt (s : StmtChange)
  deriving Repr, DecidableEq, BEq, Inhabited

/-- how a transaction is closed -/
inductive Closer where
  | xid (n : Nat) | commit (sql : Bytes) | rollback (sql : Bytes)
  deriving Repr, DecidableEq, BEq, Inhabited

inductive Unit where
  | tx (beginSql : Bytes) (cs : List Change) (close : Closer) (ts : Nat)
  | ddl (s : StmtChange)                  -- DDL outside BEGIN…COMMIT: a transaction of its own
  | autoRows (c : RowsChange)             -- autocommitted row change
  | stmtDML (s : StmtChange)              -- statement-format DML outside a transaction
  | rotate (file : Bytes)                 -- ROTATE to `file`; the next file starts with its FDE
  | restart (file : Bytes)                -- the master restarted: the file ends with a STOP event (no ROTATE event);
                                          -- the dump thread announces the next file with an artificial ROTATE only
  | gtid (sid : Bytes) (gno : Nat) | anonGtid | prevGtids (block : Bytes) | heartbeat
  | unknownEvent (typ : Nat) (body : Bytes)
  | unknownStmt (s : StmtChange)
  deriving Repr, DecidableEq, BEq, Inhabited

abbrev History := List Unit

/-- abstract event before layout: type, body, header timestamp, and what it means for delivery -/
inductive Tag where
  | none
  | commit (cs : List Change)       -- a commit point delivering these changes
  | rotateTo (file : Bytes)
  | stopThenRotateTo (file : Bytes) -- STOP event closing a file; the next file is announced by an artificial rotate
  | fileHead                        -- FDE at the head of a file
  deriving Repr, DecidableEq, BEq, Inhabited

structure AEv where
  typ : Nat
  body : Bytes
  ts : Nat
  tag : Tag
  unitStart : Bool                  -- first event of a unit: a valid resume boundary is its start offset
  deriving Repr, DecidableEq, BEq, Inhabited

def tableMapEv (cfg : Cfg) (c : RowsChange) : AEv :=
  ⟨19, tableMapBody (if cfg.idw4 then 4 else 6) c.table.id 1 c.table.db c.table.name c.table.cols c.tmOptional, c.ts, .none, false⟩

def rowsEv (cfg : Cfg) (c : RowsChange) (tag : Tag) : AEv :=
  ⟨rowsEventType c.kind cfg.rowsV2,
   rowsBody c.kind cfg.rowsV2 (if cfg.idw4 then 4 else 6) c.table.id c.flags c.extra c.table.cols c.presentBefore c.presentAfter c.rows,
   c.ts, tag, false⟩

def stmtEv (s : StmtChange) (tag : Tag) : AEv := ⟨2, queryBody 1 0 0 s.vars s.db s.sql, s.ts, tag, false⟩

def changeEvs (cfg : Cfg) : Change → List AEv
  | .rows c => (if c.announce then [tableMapEv cfg c] else []) ++ [rowsEv cfg c .none]
  | .stmt s => [stmtEv s .none]

def markStart : List AEv → List AEv
  | [] => []
  | e :: es => { e with unitStart := true } :: es

def delivered (close : Closer) (cs : List Change) : List Change :=
  match close with
  | .rollback _ => []
  | _ => cs

def unitEvs (cfg : Cfg) : Unit → List AEv
  | .tx b cs close ts =>
      let closeEv : AEv := match close with
        | .xid n => ⟨16, xidBody n, ts, .commit cs, false⟩
        | .commit sql => stmtEv ⟨sql, [], ts, [], 0, none⟩ (.commit cs)
        | .rollback sql => stmtEv ⟨sql, [], ts, [], 0, none⟩ (.commit [])
      markStart ([stmtEv ⟨b, [], ts, [], 0, none⟩ .none] ++ cs.flatMap (changeEvs cfg) ++ [closeEv])
  | .ddl s => markStart [stmtEv s (.commit [.stmt s])]
  | .autoRows c => markStart ((if c.announce then [tableMapEv cfg c] else []) ++ [rowsEv cfg c (.commit [.rows c])])
  | .stmtDML s => markStart [stmtEv s (.commit [.stmt s])]
  | .rotate f => markStart [⟨4, rotateBody 4 f, 0, .rotateTo f, false⟩]
  | .restart f => markStart [⟨3, [], 0, .stopThenRotateTo f, false⟩]
  | .gtid sid gno => markStart [⟨33, gtidBody 0 sid gno [], 0, .none, false⟩]
  | .anonGtid => markStart [⟨34, gtidBody 0 (List.replicate 16 0) 0 [], 0, .none, false⟩]
  | .prevGtids b => markStart [⟨35, b, 0, .none, false⟩]
  | .heartbeat => markStart [⟨27, asc "hb", 0, .none, false⟩]
  | .unknownEvent t b => markStart [⟨t, b, 0, .none, false⟩]
  | .unknownStmt s => markStart [stmtEv s .none]

/-- a laid-out event: where it sits, its bytes, what it means -/
structure Laid where
  file : Bytes
  start : Nat
  next : Nat
  bytes : Bytes
  ts : Nat
  tag : Tag
  unitStart : Bool
  deriving Repr, DecidableEq, BEq, Inhabited

def crcOf (cfg : Cfg) (seed : Nat) : Option Bytes := if cfg.crc then some (ofLE 4 (seed * 2654435761 + 0xdeadbeef)) else none

def fdeEvent (cfg : Cfg) (start : Nat) (nextOverride : Option Nat) : Bytes × Nat :=
  event none {} 15 start (fdeBody (asc "5.7.44-log") 0 (headerSizesFor cfg.idw4) (if cfg.crc then 1 else 0) [0xaa, 0xbb, 0xcc, 0xdd]) nextOverride

/-- lay the abstract events out in files: each file starts with the magic (4 bytes) and its FDE -/
def layoutAux (cfg : Cfg) : List AEv → Bytes → Nat → List Laid
  | [], _, _ => []
  | e :: es, file, off =>
    let (b, next) := event (crcOf cfg off) { ts := e.ts } e.typ off e.body
    let here : Laid := ⟨file, off, next, b, e.ts, e.tag, e.unitStart⟩
    -- when the dump thread moves on to the next file it first sends an artificial ROTATE (timestamp 0,
    -- next_position 0, flag 0x20; with a checksum when checksums are on, as rpl_binlog_sender.cc does) naming it,
    -- then that file's FORMAT_DESCRIPTION event
    let fakeRot (f : Bytes) : Laid :=
      ⟨file, next, next, (event (crcOf cfg next) { flags := 0x20 } 4 0 (rotateBody 4 f) (some 0)).1, 0, .rotateTo f, false⟩
    match e.tag with
    | .rotateTo f =>
      let (fb, fnext) := fdeEvent cfg 4 none
      here :: fakeRot f :: ⟨f, 4, fnext, fb, 0, .fileHead, false⟩ :: layoutAux cfg es f fnext
    | .stopThenRotateTo f =>
      let (fb, fnext) := fdeEvent cfg 4 none
      { here with tag := .none } :: fakeRot f :: ⟨f, 4, fnext, fb, 0, .fileHead, false⟩ :: layoutAux cfg es f fnext
    | _ => here :: layoutAux cfg es file next

def firstFile : Bytes := asc "bin.000001"

def layout (cfg : Cfg) (h : History) : List Laid :=
  let (fb, fnext) := fdeEvent cfg 4 none
  ⟨firstFile, 4, fnext, fb, 0, .fileHead, false⟩ :: layoutAux cfg (h.flatMap (unitEvs cfg)) firstFile fnext

structure Pos where
  file : Bytes
  offset : Nat
  deriving Repr, DecidableEq, BEq, Inhabited

/-- the events of `l` from position p on: the rest of p's file from offset p.offset, then all later files -/
def fromPos (l : List Laid) (p : Pos) : List Laid :=
  l.dropWhile fun e => !(e.file == p.file && e.start ≥ p.offset)

/-- what the master sends for COM_BINLOG_DUMP(p): a fake ROTATE naming the file, the file's FDE
    (artificial when p is past the head), then the events from p on -/
def serve (cfg : Cfg) (h : History) (p : Pos) : List Bytes :=
  let l := layout cfg h
  let fake := (event (crcOf cfg 0) { flags := 0x20 } 4 0 (rotateBody p.offset p.file) (some 0)).1
  let rest := fromPos l p
  let head : List Bytes := match rest with
    | e :: _ => if e.tag == .fileHead then [] else [(fdeEvent cfg 4 (some 0)).1]
    | [] => [(fdeEvent cfg 4 (some 0)).1]
  fake :: head ++ rest.map (·.bytes)

/-- the valid start positions: the head of every file, the start of every unit, and the end of the log -/
def boundaries (cfg : Cfg) (h : History) : List Pos :=
  let l := layout cfg h
  (l.filterMap fun e => if e.unitStart || e.tag == .fileHead then some ⟨e.file, e.start⟩ else none) ++
    (match l.getLast? with | some e => [⟨e.file, e.next⟩] | none => [])

/-- an expected transaction: labels, commit timestamp, the changes -/
structure ETx where
  now : Pos
  next : Pos
  ts : Nat
  changes : List Change
  deriving Repr, DecidableEq, BEq, Inhabited

def expectedAux : List Laid → Pos → List ETx
  | [], _ => []
  | e :: es, cur =>
    match e.tag with
    | .commit cs => ⟨cur, ⟨e.file, e.next⟩, e.ts, cs⟩ :: expectedAux es ⟨e.file, e.next⟩
    | .rotateTo f => expectedAux es ⟨f, 4⟩
    | _ => expectedAux es cur

/-- what a replica started at p must hand to its handler -/
def expected (cfg : Cfg) (h : History) (p : Pos) : List ETx := expectedAux (fromPos (layout cfg h) p) p

/-- the position after everything was consumed -/
def endPosAux : List Laid → Pos → Pos
  | [], cur => cur
  | e :: es, cur =>
    match e.tag with
    | .commit _ => endPosAux es ⟨e.file, e.next⟩
    | .rotateTo f => endPosAux es ⟨f, 4⟩
    | _ => endPosAux es cur

def endPos (cfg : Cfg) (h : History) (p : Pos) : Pos := endPosAux (fromPos (layout cfg h) p) p

end GV.W
