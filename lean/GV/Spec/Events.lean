import GV.Spec.Cell
/-
  Spec side: independent writers for the binlog event formats (MySQL 5.6/5.7 v4 events), written from the
  MySQL documentation, not from the decoder.  Used by the theorems (decode ∘ write = id) and, through the
  driver, as the source of bytes for the correspondence runs and the simulated master.
-/
namespace GV.W
open Bytes

/-- MySQL length-encoded integer -/
def lenenc (n : Nat) : Bytes :=
  if n < 251 then [UInt8.ofNat n]
  else if n < 65536 then 0xfc :: ofLE 2 n
  else if n < 16777216 then 0xfd :: ofLE 3 n
  else 0xfe :: ofLE 8 n

/-- common v4 header (19 bytes) -/
def header (ts typ sid len next flags : Nat) : Bytes :=
  ofLE 4 ts ++ [UInt8.ofNat typ] ++ ofLE 4 sid ++ ofLE 4 len ++ ofLE 4 next ++ ofLE 2 flags

structure EvMeta where
  ts : Nat := 0
  sid : Nat := 1
  flags : Nat := 0
  deriving Repr, DecidableEq, BEq, Inhabited

/-- a complete event: header + body (+ 4 checksum bytes).  `start` is its offset in the file; returns the
    bytes and the end offset (= next_position). `nextOverride` is for artificial events (fake rotate: 0). -/
def event (crc : Option Bytes) (m : EvMeta) (typ start : Nat) (body : Bytes) (nextOverride : Option Nat := none) : Bytes × Nat :=
  let tail := match crc with | some c => c | none => []
  let len := 19 + body.length + tail.length
  let next := start + len
  (header m.ts typ m.sid len (nextOverride.getD next) m.flags ++ body ++ tail, next)

/-- bits → bitmap bytes, bit i in byte i/8 at position i%8 -/
def bitmapBytes (bits : List Bool) : Bytes :=
  go bits ((bits.length + 7) / 8)
where
  byteOf (bs : List Bool) : Nat := (bs.take 8).foldr (fun b acc => acc * 2 + (if b then 1 else 0)) 0
  go (bits : List Bool) : Nat → Bytes
    | 0 => []
    | n + 1 => UInt8.ofNat (byteOf bits) :: go (bits.drop 8) n

def padTo (n : Nat) (b : Bytes) : Bytes := b ++ List.replicate (n - b.length) 0

/-- FORMAT_DESCRIPTION_EVENT body: version 4, server version NUL-padded to 50, create timestamp, header length 19,
    per-type post-header lengths, checksum algorithm, and its own 4 checksum bytes (always present since 5.6.1) -/
def fdeBody (serverVersion : Bytes) (created : Nat) (headerSizes : Bytes) (alg : Nat) (crc : Bytes) : Bytes :=
  ofLE 2 4 ++ padTo 50 serverVersion ++ ofLE 4 created ++ [19] ++ headerSizes ++ [UInt8.ofNat alg] ++ crc

/-- post-header lengths of MySQL 5.6/5.7 (40 entries); table-map and rows entries depend on the table id width -/
def headerSizesFor (idw4 : Bool) : Bytes :=
  let tm : UInt8 := if idw4 then 6 else 8
  let r1 : UInt8 := if idw4 then 6 else 8
  let r2 : UInt8 := if idw4 then 6 else 10
  [56, 13, 0, 8, 0, 18, 0, 4, 4, 4, 4, 18, 0, 0, 95, 0, 4, 26, tm, 0, 0, 0, r1, r1, r1, 2, 0, 0, 0, r2, r2, r2,
   25, 25, 0, 18, 52, 0, 0, 0]

def rotateBody (pos : Nat) (name : Bytes) : Bytes := ofLE 8 pos ++ name

/-- one status variable of a QUERY event -/
structure StatusVar where
  code : Nat
  payload : Bytes
  deriving Repr, DecidableEq, BEq, Inhabited

def statusVarBytes (v : StatusVar) : Bytes := UInt8.ofNat v.code :: v.payload

/-- QUERY_EVENT body -/
def queryBody (thread exec errCode : Nat) (vars : List StatusVar) (db sql : Bytes) : Bytes :=
  let vb := vars.flatMap statusVarBytes
  ofLE 4 thread ++ ofLE 4 exec ++ [UInt8.ofNat db.length] ++ ofLE 2 errCode ++ ofLE 2 vb.length ++ vb ++ db ++ [0] ++ sql

def charsetVar (client conn server : Nat) : StatusVar := ⟨4, ofLE 2 client ++ ofLE 2 conn ++ ofLE 2 server⟩

def xidBody (xid : Nat) : Bytes := ofLE 8 xid
def intVarBody (typ v : Nat) : Bytes := UInt8.ofNat typ :: ofLE 8 v
def randBody (a b : Nat) : Bytes := ofLE 8 a ++ ofLE 8 b
/-- GTID_LOG_EVENT / ANONYMOUS_GTID body: flags, 16-byte SID, GNO (+ anything newer servers append) -/
def gtidBody (flags : Nat) (sid : Bytes) (gno : Nat) (extra : Bytes) : Bytes :=
  UInt8.ofNat flags :: (sid ++ ofLE 8 gno ++ extra)
/-- MariaDB GTID event body -/
def mariaGtidBody (seq domain flags2 : Nat) (extra : Bytes) : Bytes := ofLE 8 seq ++ ofLE 4 domain ++ [UInt8.ofNat flags2] ++ extra

/-- a column of a table as the binlog sees it -/
structure ColDef where
  typ : Nat
  md : Nat
  nullable : Bool
  deriving Repr, DecidableEq, BEq, Inhabited

/-- per-type metadata bytes of a TABLE_MAP event (MySQL's field metadata) -/
def mdBytes (c : ColDef) : Bytes :=
  let t := c.typ
  if t = 4 ∨ t = 5 ∨ t = 17 ∨ t = 18 ∨ t = 19 ∨ t = 245 ∨ t = 249 ∨ t = 250 ∨ t = 251 ∨ t = 252 ∨ t = 255 then ofLE 1 c.md
  else if t = 246 ∨ t = 247 ∨ t = 248 ∨ t = 254 then ofBE 2 c.md       -- two bytes, first byte = high part
  else if t = 15 ∨ t = 16 ∨ t = 253 then ofLE 2 c.md                    -- two bytes little-endian
  else []

/-- TABLE_MAP_EVENT body -/
def tableMapBody (idw id flags : Nat) (db tbl : Bytes) (cols : List ColDef) (optional : Bytes) : Bytes :=
  let md := cols.flatMap mdBytes
  ofLE idw id ++ ofLE 2 flags ++ [UInt8.ofNat db.length] ++ db ++ [0] ++ [UInt8.ofNat tbl.length] ++ tbl ++ [0]
    ++ lenenc cols.length ++ cols.map (fun c => UInt8.ofNat c.typ) ++ lenenc md.length ++ md
    ++ bitmapBytes (cols.map (·.nullable)) ++ optional

/-- one row image: NULL bitmap over the present columns, then the non-NULL cells.
    `vals` lists the present columns only: none = NULL. `cols` are the present columns' definitions. -/
def imageBytes (cols : List ColDef) (vals : List (Option CellVal)) : Bytes :=
  bitmapBytes (vals.map (·.isNone)) ++
    (List.zip cols vals).flatMap fun (c, v) => match v with | some x => cell c.typ c.md x | none => []

def selectPresent {α} (present : List Bool) (xs : List α) : List α :=
  (List.zip present xs).filterMap fun (p, x) => if p then some x else none

inductive RowKind where | write | update | delete
  deriving Repr, DecidableEq, BEq, Inhabited

def rowsEventType (k : RowKind) (v2 : Bool) : Nat :=
  match k, v2 with
  | .write, false => 23 | .update, false => 24 | .delete, false => 25
  | .write, true => 30 | .update, true => 31 | .delete, true => 32

/-- ROWS event body.  `before`/`after` images list the present columns only. -/
def rowsBody (k : RowKind) (v2 : Bool) (idw id flags : Nat) (extra : Bytes) (cols : List ColDef)
    (presentBefore presentAfter : List Bool) (rows : List (List (Option CellVal) × List (Option CellVal))) : Bytes :=
  let hasBefore := k != .write
  let hasAfter := k != .delete
  ofLE idw id ++ ofLE 2 flags ++ (if v2 then ofLE 2 (2 + extra.length) ++ extra else [])
    ++ lenenc cols.length
    ++ (if hasBefore then bitmapBytes presentBefore else [])
    ++ (if hasAfter then bitmapBytes presentAfter else [])
    ++ rows.flatMap fun (b, a) =>
        (if hasBefore then imageBytes (selectPresent presentBefore cols) b else []) ++
        (if hasAfter then imageBytes (selectPresent presentAfter cols) a else [])

end GV.W
