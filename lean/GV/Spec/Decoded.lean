import GV.Model.Streamer
/-
  Spec side at the decoded-event level: the abstract binlog grammar over *decoded* events and what must be
  delivered for it.  (Shares only the data types of the model.)  The byte level is tied to this level by the
  decode ∘ write theorems of C09 / C15 / C16.
-/
namespace GV.DSpec
open GV GV.M

/-- a change logged inside a transaction (or on its own when autocommitted) -/
inductive DChange where
  | rows (se : StreamEvent) (next ts : Nat)
  | stmt (cat : Nat) (q : Query) (next ts : Nat)     -- DDL or statement-format DML
  | noise                                            -- an ignorable event in the middle of a transaction
  | unknownStmt (cat : Nat) (q : Query) (next ts : Nat)
  deriving Repr, DecidableEq, BEq, Inhabited

inductive DCloser where
  | xid | commit (q : Query) | rollback (q : Query)
  deriving Repr, DecidableEq, BEq, Inhabited

inductive DUnit where
  | tx (beginQ : Query) (bnext bts : Nat) (cs : List DChange) (close : DCloser) (next ts : Nat)
  | single (c : DChange)                 -- DDL / statement DML / autocommitted row change outside BEGIN…COMMIT
  | rotate (file : Bytes) (off : Int)
  | skip                                 -- GTID, anonymous GTID, previous GTIDs, heartbeat, unknown event type
  | tableMap (id : Nat) (tc : TableCache) (known : Bool)
  | format (f : Format)
  deriving Repr, DecidableEq, BEq, Inhabited

/-- categories that are neither boundaries nor changes -/
def unknownCat (cat : Nat) : Prop :=
  cat ≠ Facts.StatementBegin ∧ cat ≠ Facts.StatementCommit ∧ cat ≠ Facts.StatementRollback ∧
  isBoundaryDDL cat = false ∧ isDML cat = false

def WFChange : DChange → Prop
  | .rows _ _ _ => True
  | .stmt cat _ _ _ => isBoundaryDDL cat = true ∨ isDML cat = true
  | .noise => True
  | .unknownStmt cat _ _ _ => unknownCat cat

def WFUnit : DUnit → Prop
  | .tx _ _ _ cs _ _ _ => ∀ c ∈ cs, WFChange c
  | .single c => WFChange c
  | _ => True

def stmtEvent (cat : Nat) (q : Query) (ts : Nat) : StreamEvent :=
  { typ := cat, table := ([], []), query := some q, timestamp := ts, rowValues := [], rowIdentifies := [] }

/-- the delivered form of a change (none: delivers nothing) -/
def seOf : DChange → Option StreamEvent
  | .rows se _ _ => some se
  | .stmt cat q _ ts => some (stmtEvent cat q ts)
  | .noise => none
  | .unknownStmt _ _ _ _ => none

def decChange : DChange → Decoded
  | .rows se next ts => .rows se next ts
  | .stmt cat q next ts => .stmt cat q next ts
  | .noise => .skip
  | .unknownStmt cat q next ts => .stmt cat q next ts

/-- the decoded events a unit consists of, in log order -/
def devs : DUnit → List Decoded
  | .tx bq bnext bts cs close next ts =>
      [.stmt Facts.StatementBegin bq bnext bts] ++ cs.map decChange ++
        [match close with
         | .xid => .xid next ts
         | .commit q => .stmt Facts.StatementCommit q next ts
         | .rollback q => .stmt Facts.StatementRollback q next ts]
  | .single c => [decChange c]
  | .rotate f o => [.rotate f o]
  | .skip => [.skip]
  | .tableMap id tc known => [.tableMap id tc known]
  | .format f => [.format f]

/-- the end offset and timestamp of a change's own event (for autocommitted changes) -/
def changeNextTs : DChange → Option (Nat × Nat)
  | .rows _ n t => some (n, t)
  | .stmt _ _ n t => some (n, t)
  | _ => none

/-- what the handler must receive, with labels, starting from position `cur` -/
def dexpected : Position → List DUnit → List Transaction
  | _, [] => []
  | cur, .tx _ _ _ cs close next ts :: us =>
      let nx : Position := { cur with offset := next }
      ⟨cur, nx, ts, match close with | .rollback _ => [] | _ => cs.filterMap seOf⟩ :: dexpected nx us
  | cur, .single c :: us =>
      match changeNextTs c, seOf c with
      | some (n, t), some se =>
        let nx : Position := { cur with offset := n }
        ⟨cur, nx, t, [se]⟩ :: dexpected nx us
      | _, _ => dexpected cur us
  | _, .rotate f o :: us => dexpected ⟨f, o⟩ us
  | cur, _ :: us => dexpected cur us

/-- the position a replica holds after consuming the units -/
def dendPos : Position → List DUnit → Position
  | cur, [] => cur
  | cur, .tx _ _ _ _ _ next _ :: us => dendPos { cur with offset := next } us
  | cur, .single c :: us =>
      match changeNextTs c, seOf c with
      | some (n, _), some _ => dendPos { cur with offset := n } us
      | _, _ => dendPos cur us
  | _, .rotate f o :: us => dendPos ⟨f, o⟩ us
  | cur, _ :: us => dendPos cur us

/-- the parser is between units: no open transaction -/
def Idle (st : PState) : Prop := st.tran = none ∧ st.autocommit = true

/-- ignorable units -/
def Ignorable : DUnit → Prop
  | .skip => True
  | .tableMap _ _ _ => True
  | .format _ => True
  | .single (.noise) => True
  | .single (.unknownStmt cat _ _ _) => unknownCat cat
  | _ => False

/-- ways a stream attempt can stop other than by a handler failure: the channel closes / cancellation (none),
    an invalid packet, any decode / lookup / unsupported-event error -/
def Stopper (d : Option Decoded) : Prop := d = none ∨ d = some .invalid ∨ d = some .decodeErr

end GV.DSpec
