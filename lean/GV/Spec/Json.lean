import GV.Spec.Cell
/-
  Spec side for JSON columns: abstract documents, an independent writer for MySQL's binary JSON (json_binary.cc
  layout) and the text the decoder must produce for them.  Never looks at the decoder model.
-/
namespace GV.W
open Bytes

/-- documents as the master stores them; `large` selects the 4-byte-offset storage format of a container -/
inductive JDoc where
  | obj (large : Bool) (kvs : List (Bytes × JDoc))
  | arr (large : Bool) (vs : List JDoc)
  | lit (b : Nat)                       -- 0 null, 1 true, 2 false
  | i16 (v : Int) | u16 (n : Nat) | i32 (v : Int) | u32 (n : Nat) | i64 (v : Int) | u64 (n : Nat)
  | dbl (bits : Nat)
  | str (b : Bytes)
  | odate (y m d : Nat)
  | otime (neg : Bool) (h mi s micro : Nat)
  | odatetime (y mo d h mi s micro : Nat)
  | odecimal (p s : Nat) (neg : Bool) (i f : List Nat)
  deriving Repr, Inhabited

/-- variable-length size prefix: 7 bits per byte, least significant group first, high bit = more follow -/
def varlen (n : Nat) : Bytes :=
  if h : n < 128 then [UInt8.ofNat n] else UInt8.ofNat (n % 128 + 128) :: varlen (n / 128)
decreasing_by omega

/-- MySQL's packed temporal: ((year*13+month)<<5 | day)<<17 | (hour<<12 | minute<<6 | second), then <<24 | micro -/
def packedDateTime (y mo d h mi s micro : Nat) : Nat :=
  ((((y * 13 + mo) * 32 + d) * 2 ^ 17) + (h * 4096 + mi * 64 + s)) * 2 ^ 24 + micro

def packedTime (neg : Bool) (h mi s micro : Nat) : Nat :=
  let v := (h * 4096 + mi * 64 + s) * 2 ^ 24 + micro
  if neg then (2 ^ 64 - v) % 2 ^ 64 else v

/-- width of offsets / counts -/
def ow (large : Bool) : Nat := if large then 4 else 2

/-- is a (type, bytes) value stored inside its value entry? -/
def inlined (large : Bool) (typ : Nat) : Bool :=
  typ = 4 || typ = 5 || typ = 6 || (large && (typ = 7 || typ = 8))

/-- assemble a container from its keys (objects only) and its already encoded children -/
def assemble (large : Bool) (keys : Option (List Bytes)) (children : List (Nat × Bytes)) : Bytes :=
  let w := ow large
  let n := children.length
  let ks := keys.getD []
  let keyEntriesLen := if keys.isSome then n * (w + 2) else 0
  let headLen := 2 * w + keyEntriesLen + n * (1 + w)
  let keysLen := (ks.map List.length).sum
  -- key entries
  let keyEntries : Bytes := (go1 w ks (headLen)).flatMap id
  -- value entries and out-of-line values
  let (entries, tail) := go2 large w children (headLen + keysLen)
  let size := headLen + keysLen + tail.length
  ofLE w n ++ ofLE w size ++ keyEntries ++ entries ++ ks.flatMap id ++ tail
where
  go1 (w : Nat) : List Bytes → Nat → List Bytes
    | [], _ => []
    | k :: ks, off => (ofLE w off ++ ofLE 2 k.length) :: go1 w ks (off + k.length)
  go2 (large : Bool) (w : Nat) : List (Nat × Bytes) → Nat → Bytes × Bytes
    | [], _ => ([], [])
    | (t, b) :: rest, off =>
      if inlined large t then
        let (es, tl) := go2 large w rest off
        (UInt8.ofNat t :: (b ++ List.replicate (w - b.length) 0) ++ es, tl)
      else
        let (es, tl) := go2 large w rest (off + b.length)
        (UInt8.ofNat t :: ofLE w off ++ es, b ++ tl)

mutual
/-- (type byte, value bytes) of a document -/
def encVal : JDoc → Nat × Bytes
  | .obj large kvs => (if large then 1 else 0, assemble large (some (encKeys kvs)) (encKVs kvs))
  | .arr large vs => (if large then 3 else 2, assemble large none (encVals vs))
  | .lit b => (4, [UInt8.ofNat b])
  | .i16 v => (5, ofLE 2 (ofInt 16 v))
  | .u16 n => (6, ofLE 2 n)
  | .i32 v => (7, ofLE 4 (ofInt 32 v))
  | .u32 n => (8, ofLE 4 n)
  | .i64 v => (9, ofLE 8 (ofInt 64 v))
  | .u64 n => (10, ofLE 8 n)
  | .dbl bits => (11, ofLE 8 bits)
  | .str b => (12, varlen b.length ++ b)
  | .odate y m d => (15, [10] ++ varlen 8 ++ ofLE 8 (packedDateTime y m d 0 0 0 0))
  | .otime neg h mi s micro => (15, [11] ++ varlen 8 ++ ofLE 8 (packedTime neg h mi s micro))
  | .odatetime y mo d h mi s micro => (15, [12] ++ varlen 8 ++ ofLE 8 (packedDateTime y mo d h mi s micro))
  | .odecimal p s neg i f =>
      let body := [UInt8.ofNat p, UInt8.ofNat s] ++ decimalBytes neg i f
      (15, [246] ++ varlen body.length ++ body)
def encVals : List JDoc → List (Nat × Bytes)
  | [] => []
  | d :: ds => encVal d :: encVals ds
def encKVs : List (Bytes × JDoc) → List (Nat × Bytes)
  | [] => []
  | (_, d) :: rest => encVal d :: encKVs rest
def encKeys : List (Bytes × JDoc) → List Bytes
  | [] => []
  | (k, _) :: rest => k :: encKeys rest
end

/-- the column value: type byte followed by the value -/
def jsonb (d : JDoc) : Bytes :=
  let (t, b) := encVal d
  UInt8.ofNat t :: b

/-! ### the text the property demands (the decoder's SQL-expression form) -/

def sq (top : Bool) (t : Bytes) : Bytes := if top then [39] ++ t ++ [39] else t
def castTop (top : Bool) (t : Bytes) : Bytes := if top then asc "CAST(" ++ t ++ asc " AS JSON)" else t

def decText (neg : Bool) (i f : List Nat) : Bytes :=
  let ip := match stripLeadingZeros i with | [] => [digit 0] | ds => digitsText ds
  (if neg then [45] else []) ++ ip ++ (if f.isEmpty then [] else [46] ++ digitsText f)

mutual
def render (fmtE : Nat → Bytes) (top : Bool) : JDoc → Bytes
  | .obj _ kvs => asc "JSON_OBJECT(" ++ renderKVs fmtE true kvs ++ [41]
  | .arr _ vs => asc "JSON_ARRAY(" ++ renderVals fmtE true vs ++ [41]
  | .lit b => sq top (if b = 0 then asc "null" else if b = 1 then asc "true" else asc "false")
  | .i16 v => sq top (intDec v) | .i32 v => sq top (intDec v) | .i64 v => sq top (intDec v)
  | .u16 n => sq top (natDec n) | .u32 n => sq top (natDec n) | .u64 n => sq top (natDec n)
  | .dbl bits => sq top (fmtE bits)
  | .str b => if top then asc "'\"" ++ b ++ asc "\"'" else [39] ++ b ++ [39]
  | .odate y m d => castTop top (asc "CAST('" ++ digitsN 4 y ++ [45] ++ two m ++ [45] ++ two d ++ asc "' AS DATE)")
  | .otime neg h mi s micro =>
      castTop top (asc "CAST('" ++ (if neg then [45] else []) ++ hoursText h ++ [58] ++ two mi ++ [58] ++ two s ++
        (if micro = 0 then [] else [46] ++ digitsN 6 micro) ++ asc "' AS TIME(6))")
  | .odatetime y mo d h mi s micro =>
      castTop top (asc "CAST('" ++ digitsN 4 y ++ [45] ++ two mo ++ [45] ++ two d ++ [32] ++ two h ++ [58] ++ two mi ++ [58]
        ++ two s ++ (if micro = 0 then [] else [46] ++ digitsN 6 micro) ++ asc "' AS DATETIME(6))")
  | .odecimal p s neg i f =>
      castTop top (asc "CAST('" ++ decText neg i f ++ asc "' AS DECIMAL(" ++ natDec p ++ [44] ++ natDec s ++ asc "))")
def renderVals (fmtE : Nat → Bytes) (first : Bool) : List JDoc → Bytes
  | [] => []
  | d :: ds => (if first then [] else [44]) ++ render fmtE false d ++ renderVals fmtE false ds
def renderKVs (fmtE : Nat → Bytes) (first : Bool) : List (Bytes × JDoc) → Bytes
  | [] => []
  | (k, d) :: rest => (if first then [] else [44]) ++ [39] ++ k ++ [39, 44] ++ render fmtE false d ++ renderKVs fmtE false rest
end

end GV.W
