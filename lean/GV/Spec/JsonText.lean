import GV.Model.Marshal
import GV.Model.Gtid
/-
  Spec side for C20: what "well-formed JSON that preserves the structure" means, written as an independent
  reader of JSON text: UTF-8 validity, the string-body grammar, an un-escaper, a small JSON value parser, and the
  abstract shape a transaction must parse back to.  (Shares only the data types of the model.)
-/
namespace GV.JT
open GV GV.M

/-- valid UTF-8 (same acceptance as Go's utf8.Valid) -/
def validUtf8Aux : Nat → Bytes → Bool
  | 0, _ => false
  | _ + 1, [] => true
  | fuel + 1, b :: rest =>
    match decodeRune (b :: rest) with
    | some (_, w) => validUtf8Aux fuel ((b :: rest).drop w)
    | none => false
def validUtf8 (s : Bytes) : Bool := validUtf8Aux (s.length + 1) s

def isHex (c : UInt8) : Bool := (unhexDigit c).isSome

/-- the body of a JSON string literal (between the quotes): no raw quote, no raw control byte, every backslash
    starts a legal escape; (UTF-8 validity is checked separately) -/
def strBodyOK : Bytes → Bool
  | [] => true
  | 0x5c :: c :: rest =>
    if c = 0x22 ∨ c = 0x5c ∨ c = 0x2f ∨ c = 0x62 ∨ c = 0x66 ∨ c = 0x6e ∨ c = 0x72 ∨ c = 0x74 then strBodyOK rest
    else if c = 0x75 then
      match rest with
      | h1 :: h2 :: h3 :: h4 :: rest' => isHex h1 && isHex h2 && isHex h3 && isHex h4 && strBodyOK rest'
      | _ => false
    else false
  | [0x5c] => false
  | c :: rest => c ≠ 0x22 && c.toNat ≥ 0x20 && strBodyOK rest

/-- UTF-8 encoding of a BMP code point that is not a surrogate -/
def utf8Enc (cp : Nat) : Bytes :=
  if cp < 0x80 then [UInt8.ofNat cp]
  else if cp < 0x800 then [UInt8.ofNat (0xC0 + cp / 64), UInt8.ofNat (0x80 + cp % 64)]
  else [UInt8.ofNat (0xE0 + cp / 4096), UInt8.ofNat (0x80 + cp / 64 % 64), UInt8.ofNat (0x80 + cp % 64)]

def hexVal4 (a b c d : UInt8) : Option Nat :=
  match unhexDigit a, unhexDigit b, unhexDigit c, unhexDigit d with
  | some w, some x, some y, some z => some (((w * 16 + x) * 16 + y) * 16 + z)
  | _, _, _, _ => none

/-- what a JSON reader makes of a string body -/
def unescape : Bytes → Option Bytes
  | [] => some []
  | 0x5c :: c :: rest =>
    let simple (b : UInt8) := (unescape rest).map (b :: ·)
    if c = 0x22 then simple 0x22 else if c = 0x5c then simple 0x5c else if c = 0x2f then simple 0x2f
    else if c = 0x62 then simple 0x08 else if c = 0x66 then simple 0x0c else if c = 0x6e then simple 0x0a
    else if c = 0x72 then simple 0x0d else if c = 0x74 then simple 0x09
    else if c = 0x75 then
      match rest with
      | h1 :: h2 :: h3 :: h4 :: rest' =>
        match hexVal4 h1 h2 h3 h4, unescape rest' with
        | some cp, some r => if 0xD800 ≤ cp ∧ cp ≤ 0xDFFF then none else some (utf8Enc cp ++ r)
        | _, _ => none
      | _ => none
    else none
  | [0x5c] => none
  | c :: rest => (unescape rest).map (c :: ·)

/-- JSON values as a reader sees them (strings un-escaped, numbers as integers: the marshalers emit no fractions) -/
inductive JV where
  | null
  | bool (b : Bool)
  | num (v : Int)
  | str (s : Bytes)
  | arr (items : List JV)
  | obj (fields : List (Bytes × JV))
  deriving Repr, Inhabited

/-- split a string literal's body off the input (input starts after the opening quote) -/
def takeStrBody : Bytes → Bytes → Option (Bytes × Bytes)
  | [], _ => none
  | 0x22 :: rest, acc => some (acc.reverse, rest)
  | 0x5c :: c :: rest, acc => takeStrBody rest (c :: 0x5c :: acc)
  | c :: rest, acc => takeStrBody rest (c :: acc)

def takeDigits : Bytes → Bytes → Bytes × Bytes
  | [], acc => (acc.reverse, [])
  | c :: rest, acc => if isDigit c then takeDigits rest (c :: acc) else (acc.reverse, c :: rest)

mutual
/-- a strict parser for the compact JSON the marshalers emit (no white space) -/
def parseJV : Nat → Bytes → Option (JV × Bytes)
  | 0, _ => none
  | fuel + 1, inp =>
    match inp with
    | 0x6e :: 0x75 :: 0x6c :: 0x6c :: rest => some (.null, rest)
    | 0x74 :: 0x72 :: 0x75 :: 0x65 :: rest => some (.bool true, rest)
    | 0x66 :: 0x61 :: 0x6c :: 0x73 :: 0x65 :: rest => some (.bool false, rest)
    | 0x22 :: rest =>
      (match takeStrBody rest [] with
       | some (body, rest') =>
         if strBodyOK body && validUtf8 body then (unescape body).map fun s => (.str s, rest') else none
       | none => none)
    | 0x5b :: 0x5d :: rest => some (.arr [], rest)
    | 0x5b :: rest => (parseItems fuel rest).map fun (l, r) => (.arr l, r)
    | 0x7b :: 0x7d :: rest => some (.obj [], rest)
    | 0x7b :: rest => (parseFields fuel rest).map fun (l, r) => (.obj l, r)
    | 0x2d :: rest =>
      (match takeDigits rest [] with
       | (ds, rest') => (decValue ds).map fun v => (.num (-(v : Int)), rest'))
    | c :: rest =>
      if isDigit c then
        (match takeDigits (c :: rest) [] with
         | (ds, rest') => (decValue ds).map fun v => (.num (v : Int), rest'))
      else none
    | [] => none
/-- items of a non-empty array, up to and including the closing bracket -/
def parseItems : Nat → Bytes → Option (List JV × Bytes)
  | 0, _ => none
  | fuel + 1, inp =>
    match parseJV fuel inp with
    | some (v, 0x2c :: rest) => (parseItems fuel rest).map fun (l, r) => (v :: l, r)
    | some (v, 0x5d :: rest) => some ([v], rest)
    | _ => none
/-- fields of a non-empty object, up to and including the closing brace -/
def parseFields : Nat → Bytes → Option (List (Bytes × JV) × Bytes)
  | 0, _ => none
  | fuel + 1, inp =>
    match inp with
    | 0x22 :: rest =>
      (match takeStrBody rest [] with
       | some (kb, 0x3a :: rest') =>
         if strBodyOK kb && validUtf8 kb then
           match unescape kb, parseJV fuel rest' with
           | some k, some (v, 0x2c :: rest'') => (parseFields fuel rest'').map fun (l, r) => ((k, v) :: l, r)
           | some k, some (v, 0x7d :: rest'') => some ([(k, v)], rest'')
           | _, _ => none
         else none
       | _ => none)
    | _ => none
end

/-- parse a whole text -/
def parse (t : Bytes) : Option JV :=
  match parseJV (t.length + 1) t with
  | some (v, []) => some v
  | _ => none

/-- what a reader sees of a Go string after encoding/json: valid UTF-8 verbatim, each invalid byte as U+FFFD -/
def sanitizeAux : Nat → Bytes → Bytes
  | 0, _ => []
  | _ + 1, [] => []
  | fuel + 1, b :: rest =>
    match decodeRune (b :: rest) with
    | some (_, w) => (b :: rest).take w ++ sanitizeAux fuel ((b :: rest).drop w)
    | none => [0xEF, 0xBF, 0xBD] ++ sanitizeAux fuel rest
def sanitize (s : Bytes) : Bytes := sanitizeAux (s.length + 1) s

def k (s : String) : Bytes := asc s
def jstrV (s : Bytes) : JV := .str (sanitize s)

def shapeCol (c : JCol) : JV :=
  .obj [(k "filed", jstrV c.filed), (k "type", jstrV (asc (columnTypeName c.typ))), (k "isEmpty", .bool c.isEmpty),
        (k "data", match c.data with | none => .null | some d => jstrV d)]

def shapeRows : Option (List (List JCol)) → JV
  | none => .null
  | some rs => .arr (rs.map fun r => .obj [(k "Columns", .arr (r.map shapeCol))])

def shapeEvent (fmtTime : Int → Bytes) (e : JEvent) : JV :=
  let base := [(k "name", JV.obj [(k "db", jstrV e.db), (k "table", jstrV e.table)]),
               (k "type", jstrV (asc (statementName e.typ))), (k "timestamp", jstrV (fmtTime e.ts))]
  if e.sql ≠ [] then .obj (base ++ [(k "sql", jstrV e.sql)])
  else .obj (base ++ [(k "rowValues", shapeRows e.rowValues), (k "rowIdentifies", shapeRows e.rowIdentifies)])

/-- the structure a serialised transaction must parse back to: both positions, event kinds and order, table names,
    SQL text, and for every column its name, type name, absent flag and data (NULL as null, distinct from "") -/
def shapeTx (fmtTime : Int → Bytes) (t : JTx) : JV :=
  .obj [(k "nowPosition", .obj [(k "filename", jstrV t.nowFile), (k "offset", .num t.nowOff)]),
        (k "nextPosition", .obj [(k "filename", jstrV t.nextFile), (k "offset", .num t.nextOff)]),
        (k "timestamp", jstrV (fmtTime t.ts)),
        (k "events", match t.events with | none => .null | some es => .arr (es.map (shapeEvent fmtTime)))]

end GV.JT
