import GV.Base.Go
/-
  Spec side for cell values: abstract values, an *independent writer* for MySQL's row-image encoding of
  each column type, and the canonical text the properties C10–C13 demand.  Nothing here looks at the
  decoder model.
-/
namespace GV.W

/-- abstract column values (what the master stored) -/
inductive CellVal where
  | int (w : Nat) (v : Int)                 -- TINY/SHORT/INT24/LONG/LONGLONG read as signed, w bytes
  | uint (w : Nat) (n : Nat)                -- … read as unsigned
  | f32 (bits : Nat) | f64 (bits : Nat)
  | year (b : Nat)                          -- stored byte: 0 = 0000, else 1900 + b
  | bit (bytes : Bytes)                     -- big-endian bit string, ⌈nbits/8⌉ bytes
  | enum (w n : Nat)                        -- member index, 1 or 2 bytes
  | set (w n : Nat)                         -- member mask, w bytes
  | dec (neg : Bool) (intg frac : List Nat) -- digit lists, most significant first; lengths p-s and s
  | date (y m d : Nat)
  | time (neg : Bool) (h m s : Nat)         -- pre-5.6.4 TIME
  | datetime (y mo d h mi s : Nat)          -- pre-5.6.4 DATETIME
  | timestamp (sec : Nat)
  | time2 (neg : Bool) (h m s : Nat) (frac : Nat)      -- frac = the fsp digits as a number < 10^fsp
  | datetime2 (y mo d h mi s : Nat) (frac : Nat)
  | timestamp2 (sec : Nat) (frac : Nat)
  | str (b : Bytes)                         -- VARCHAR/CHAR/BINARY/BLOB/GEOMETRY payload
  | raw (b t : Bytes)                       -- travels pre-encoded as the bytes b, canonical text t (JSON columns:
                                            -- b and t are tied to a document by `CellOK`, GV/Spec/CellWF.lean)
  deriving Repr, DecidableEq, BEq, Inhabited

open Bytes

/-- 9 decimal digits → value -/
def digitsVal (ds : List Nat) : Nat := ds.foldl (fun a d => a * 10 + d) 0

def dig2bytesSpec (k : Nat) : Nat := (k + 1) / 2   -- MySQL: ⌈k/2⌉ bytes for k ≤ 8 leftover digits … see decimal.c
-- (0→0,1→1,2→1,3→2,4→2,5→3,6→3,7→4,8→4); equality with the code's table is a Facts expectation.

/-- integer part: leftover digits first, then full 9-digit groups (big-endian) -/
def decIntBytes (ds : List Nat) : Bytes :=
  let lead := ds.length % 9
  ofBE (dig2bytesSpec lead) (digitsVal (ds.take lead)) ++ groups (ds.drop lead) (ds.length / 9)
where
  groups (ds : List Nat) : Nat → Bytes
    | 0 => []
    | n + 1 => ofBE 4 (digitsVal (ds.take 9)) ++ groups (ds.drop 9) n

/-- fraction part: full groups first, leftover digits last -/
def decFracBytes (ds : List Nat) : Bytes :=
  decIntBytes.groups ds (ds.length / 9) ++
    ofBE (dig2bytesSpec (ds.length % 9)) (digitsVal (ds.drop (ds.length / 9 * 9)))

/-- MySQL packed DECIMAL: sign bit flipped on the first byte; all bytes inverted when negative -/
def decimalBytes (neg : Bool) (intg frac : List Nat) : Bytes :=
  let raw := decIntBytes intg ++ decFracBytes frac
  let flipped := match raw with
    | [] => []
    | b :: bs => (b ^^^ 0x80) :: bs
  if neg then flipped.map (· ^^^ 0xff) else flipped

def fracBytes (fsp : Nat) : Nat := (fsp + 1) / 2
/-- the stored fraction: fsp digits scaled to an even number of digits -/
def fracStored (fsp frac : Nat) : Nat := if fsp % 2 = 1 then frac * 10 else frac

/-- length prefix of a string-like value: w bytes little-endian -/
def lenPrefix (w : Nat) (b : Bytes) : Bytes := ofLE w b.length ++ b

/-- `prefix width` for the string-like types from (typ, md) — MySQL's rule, written from the documentation -/
def strPrefixWidth (typ md : Nat) : Nat :=
  if typ = 15 ∨ typ = 253 then (if md > 255 then 2 else 1)
  else if typ = 254 then
    -- md = (real_type ^ ((len & 0x300) >> 4)) << 8 | (len & 0xff); len > 255 ⇔ two-byte prefix
    let len := (((md / 16) &&& 0x300) ^^^ 0x300) + (md &&& 0xff)
    if len > 255 then 2 else 1
  else md   -- blob family, geometry, json: md = number of length bytes

/-- the writer: bytes of one non-NULL cell in a row image -/
def cell (typ md : Nat) : CellVal → Bytes
  | .int w v => ofLE w (ofInt (8 * w) v)
  | .uint w n => ofLE w n
  | .f32 b => ofLE 4 b
  | .f64 b => ofLE 8 b
  | .year b => [UInt8.ofNat b]
  | .bit bs => bs
  | .enum w n => ofLE w n
  | .set w n => ofLE w n
  | .dec neg i f => decimalBytes neg i f
  | .date y m d => ofLE 3 (d + 32 * m + 512 * y)
  | .time neg h m s =>
      let v := h * 10000 + m * 100 + s
      ofLE 3 (if neg then 2 ^ 24 - v else v)
  | .datetime y mo d h mi s => ofLE 8 ((y * 10000 + mo * 100 + d) * 1000000 + h * 10000 + mi * 100 + s)
  | .timestamp sec => ofLE 4 sec
  | .time2 neg h m s frac =>
      -- TIME2: 3 bytes int part + fraction, offset binary; negative values are the offset minus the magnitude
      let fb := fracBytes md
      let mag := ((h * 64 + m) * 64 + s) * 256 ^ fb + fracStored md frac
      let v := if neg then 0x800000 * 256 ^ fb - mag else 0x800000 * 256 ^ fb + mag
      ofBE (3 + fb) v
  | .datetime2 y mo d h mi s frac =>
      let ym := y * 13 + mo
      let v := (((ym * 32 + d) * 32 + h) * 64 + mi) * 64 + s
      ofBE 5 (v + 0x8000000000) ++ ofBE (fracBytes md) (fracStored md frac)
  | .timestamp2 sec frac => ofBE 4 sec ++ ofBE (fracBytes md) (fracStored md frac)
  | .str b => lenPrefix (strPrefixWidth typ md) b
  | .raw b _ => b

/-! ### canonical text (the property's right-hand side) -/

def two (n : Nat) : Bytes := digitsN 2 n
def stripLeadingZeros : List Nat → List Nat
  | 0 :: ds => stripLeadingZeros ds
  | ds => ds
def digitsText (ds : List Nat) : Bytes := ds.map digit

/-- hours can need three digits (up to 838) -/
def hoursText (h : Nat) : Bytes := if h < 100 then two h else natDec h

def fracText (fsp frac : Nat) : Bytes := if fsp = 0 then [] else [46] ++ digitsN fsp frac

/-- canonical text of a value; `tz` gives the local civil fields of an instant (runtime parameter);
    `ff` the float formatter (runtime parameter) -/
def text (md : Nat) (localCivil : Nat → Bytes) (ff32 ff64 : Nat → Bytes) : CellVal → Bytes
  | .int _ v => intDec v
  | .uint _ n => natDec n
  | .f32 b => ff32 b
  | .f64 b => ff64 b
  | .year b => if b = 0 then asc "0000" else natDec (1900 + b)
  | .bit bs => bs
  | .enum _ n => natDec n
  | .set _ n => natDec n
  | .dec neg i f =>
      let ip := match stripLeadingZeros i with | [] => [digit 0] | ds => digitsText ds
      (if neg then [45] else []) ++ ip ++ (if f.isEmpty then [] else [46] ++ digitsText f)
  | .date y m d => digitsN 4 y ++ [45] ++ two m ++ [45] ++ two d
  | .time neg h m s => (if neg then [45] else []) ++ hoursText h ++ [58] ++ two m ++ [58] ++ two s
  | .datetime y mo d h mi s =>
      digitsN 4 y ++ [45] ++ two mo ++ [45] ++ two d ++ [32] ++ two h ++ [58] ++ two mi ++ [58] ++ two s
  | .timestamp sec => if sec = 0 then asc "0000-00-00 00:00:00" else localCivil sec
  | .time2 neg h m s frac =>
      (if neg then [45] else []) ++ hoursText h ++ [58] ++ two m ++ [58] ++ two s ++ fracText md frac
  | .datetime2 y mo d h mi s frac =>
      digitsN 4 y ++ [45] ++ two mo ++ [45] ++ two d ++ [32] ++ two h ++ [58] ++ two mi ++ [58] ++ two s
        ++ fracText md frac
  | .timestamp2 sec frac =>
      (if sec = 0 then asc "0000-00-00 00:00:00" else localCivil sec) ++ fracText md frac
  | .str b => b
  | .raw _ t => t

end GV.W
