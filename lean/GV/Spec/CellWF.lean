import GV.Spec.Events
import GV.Spec.JsonWF
/-
  Spec side: which (type, metadata, value) combinations are well-formed row-image cells — the union of the
  hypotheses of the per-type theorems of C10–C13.  Used to state the uniform cell / image / rows theorems of C09
  and the byte-level fidelity theorem of C01.
-/
namespace GV.W

def charMd (maxLen : Nat) : Nat := ((254 ^^^ ((maxLen &&& 0x300) >>> 4)) <<< 8) ||| (maxLen &&& 0xff)

def intTypes : List (Nat × Nat) := [(1, 1), (2, 2), (3, 9), (4, 3), (8, 8)]

/-- a well-formed cell; `u` is the signedness the table mapper reports for the column -/
def CellOK (typ md : Nat) (u : Bool) : CellVal → Prop
  | .int w v => (w, typ) ∈ intTypes ∧ u = false ∧ -(2 ^ (8 * w - 1) : Int) ≤ v ∧ v < (2 ^ (8 * w - 1) : Int)
  | .uint w n => (w, typ) ∈ intTypes ∧ u = true ∧ n < 2 ^ (8 * w)
  | .f32 b => typ = 4 ∧ b < 2 ^ 32
  | .f64 b => typ = 5 ∧ b < 2 ^ 64
  | .year b => typ = 13 ∧ b < 256
  | .bit bs => (typ = 16 ∧ ∃ nbits, 1 ≤ nbits ∧ nbits ≤ 64 ∧ md = nbits / 8 * 256 + nbits % 8 ∧ bs.length = (nbits + 7) / 8) ∨
               (typ = 248 ∧ md < 256 ∧ bs.length = md)
  | .enum w n => ((typ = 247 ∧ md = w) ∨ (typ = 254 ∧ md = 247 * 256 + w)) ∧ (w = 1 ∨ w = 2) ∧ n < 256 ^ w
  | .set w n => typ = 254 ∧ md = 248 * 256 + w ∧ 1 ≤ w ∧ w ≤ 8 ∧ n < 256 ^ w
  | .dec _ i f => typ = 246 ∧ ∃ p s, md = p * 256 + s ∧ 1 ≤ p ∧ p ≤ 65 ∧ s ≤ 30 ∧ s ≤ p ∧ i.length = p - s ∧ f.length = s ∧
                    (∀ d ∈ i, d < 10) ∧ (∀ d ∈ f, d < 10)
  | .date y m d => (typ = 10 ∨ typ = 14) ∧ y ≤ 9999 ∧ m ≤ 12 ∧ d ≤ 31
  | .time neg h m s => typ = 11 ∧ h ≤ 838 ∧ m ≤ 59 ∧ s ≤ 59 ∧ (neg = true → h + m + s ≠ 0)
  | .datetime y mo d h mi s => typ = 12 ∧ y ≤ 9999 ∧ mo ≤ 12 ∧ d ≤ 31 ∧ h ≤ 23 ∧ mi ≤ 59 ∧ s ≤ 59
  | .timestamp sec => typ = 7 ∧ sec < 2 ^ 32
  | .time2 neg h m s frac => typ = 19 ∧ md ≤ 6 ∧ h ≤ 838 ∧ m ≤ 59 ∧ s ≤ 59 ∧ frac < 10 ^ md ∧ (neg = true → h + m + s + frac ≠ 0)
  | .datetime2 y mo d h mi s frac => typ = 18 ∧ md ≤ 6 ∧ y ≤ 9999 ∧ mo ≤ 12 ∧ d ≤ 31 ∧ h ≤ 23 ∧ mi ≤ 59 ∧ s ≤ 59 ∧ frac < 10 ^ md
  | .timestamp2 sec frac => typ = 17 ∧ md ≤ 6 ∧ sec < 2 ^ 32 ∧ frac < 10 ^ md
  | .str b => ((typ = 15 ∨ typ = 253) ∧ md ≤ 65535 ∧ b.length ≤ md) ∨
              (typ = 254 ∧ ∃ maxLen, maxLen ≤ 1023 ∧ md = charMd maxLen ∧ b.length ≤ maxLen) ∨
              ((typ = 249 ∨ typ = 250 ∨ typ = 251 ∨ typ = 252 ∨ typ = 255) ∧ 1 ≤ md ∧ md ≤ 4 ∧ b.length < 256 ^ md)
  -- JSON columns: the length-prefixed binary document of a well-formed document d, and d's text.  Documents holding a
  -- DOUBLE are left out: their text depends on the runtime float formatter (covered at cell level by C14_doc).
  | .raw b t => typ = 245 ∧ 1 ≤ md ∧ md ≤ 4 ∧ ∃ d : JDoc, WFDoc d ∧ NoDbl d ∧ (jsonb d).length < 256 ^ md ∧
                  b = Bytes.ofLE md (jsonb d).length ++ jsonb d ∧ t = render (fun _ => []) true d

end GV.W
