import GV.Spec.Json
/-
  Spec side: which JSON documents are well-formed (what a MySQL master can store), and which of them have a text
  that does not depend on the runtime float formatter.  Used by C14 (GV/Props/C14.lean, which re-exports these names)
  and by `W.CellOK` (GV/Spec/CellWF.lean) for JSON columns.  Never looks at the decoder model.
-/
namespace GV.W

/-- scalars within the ranges of their storage width -/
def ScalarOK : JDoc → Prop
  | .lit b => b < 3
  | .i16 v => -(2 ^ 15 : Int) ≤ v ∧ v < 2 ^ 15
  | .u16 n => n < 2 ^ 16
  | .i32 v => -(2 ^ 31 : Int) ≤ v ∧ v < 2 ^ 31
  | .u32 n => n < 2 ^ 32
  | .i64 v => -(2 ^ 63 : Int) ≤ v ∧ v < 2 ^ 63
  | .u64 n => n < 2 ^ 64
  | .dbl bits => bits < 2 ^ 64
  | .str b => b.length < 2 ^ 32
  | .odate y m d => y ≤ 9999 ∧ m ≤ 12 ∧ d ≤ 31
  | .otime neg h mi s micro => h ≤ 838 ∧ mi ≤ 59 ∧ s ≤ 59 ∧ micro ≤ 999999 ∧ (neg = true → h + mi + s + micro ≠ 0)
  | .odatetime y mo d h mi s micro => y ≤ 9999 ∧ mo ≤ 12 ∧ d ≤ 31 ∧ h ≤ 23 ∧ mi ≤ 59 ∧ s ≤ 59 ∧ micro ≤ 999999
  | .odecimal p s _ i f => 1 ≤ p ∧ p ≤ 65 ∧ s ≤ 30 ∧ s ≤ p ∧ i.length = p - s ∧ f.length = s ∧ (∀ d ∈ i, d < 10) ∧ (∀ d ∈ f, d < 10)
  | .obj _ _ => False
  | .arr _ _ => False

def isScalar : JDoc → Bool
  | .obj _ _ => false
  | .arr _ _ => false
  | _ => true

/-- well-formed documents: scalars in range; every container's count, size and offsets fit its storage format
    (2-byte fields for small, 4-byte for large), keys shorter than 64KB -/
def fitsFormat (large : Bool) (n : Nat) (body : Bytes) : Prop :=
  n < 2 ^ (8 * ow large) ∧ body.length < 2 ^ (8 * ow large)

mutual
def WFDoc : JDoc → Prop
  | .obj large kvs => WFKVs kvs ∧ fitsFormat large kvs.length (encVal (.obj large kvs)).2
  | .arr large vs => WFVals vs ∧ fitsFormat large vs.length (encVal (.arr large vs)).2
  | d => ScalarOK d
def WFVals : List JDoc → Prop
  | [] => True
  | d :: ds => WFDoc d ∧ WFVals ds
def WFKVs : List (Bytes × JDoc) → Prop
  | [] => True
  | (k, d) :: rest => k.length < 65536 ∧ WFDoc d ∧ WFKVs rest
end

mutual
/-- no DOUBLE scalar at any depth: the text of such a document does not depend on the runtime float formatter
    (`GV.C14.render_noDbl`, GV/Lemmas/C14.lean) -/
def NoDbl : JDoc → Prop
  | .obj _ kvs => NoDblKVs kvs
  | .arr _ vs => NoDblVals vs
  | .dbl _ => False
  | _ => True
def NoDblVals : List JDoc → Prop
  | [] => True
  | d :: ds => NoDbl d ∧ NoDblVals ds
def NoDblKVs : List (Bytes × JDoc) → Prop
  | [] => True
  | (_, d) :: rest => NoDbl d ∧ NoDblKVs rest
end

/-- the row-image cell of a JSON column holding document `d` (`md` = number of length bytes, from the table map): it
    travels as the length-prefixed binary document; its canonical text is `d`'s text.  The float formatter passed to
    `render` is irrelevant for the documents `CellOK` allows (`NoDbl`). -/
def jsonCell (md : Nat) (d : JDoc) : CellVal :=
  .raw (Bytes.ofLE md (jsonb d).length ++ jsonb d) (render (fun _ => []) true d)

end GV.W
