import GV.Lemmas.C13b
/-
  Helper lemmas for GV/Props/C11b.lean: the values a well-formed cell of a DECIMAL column (type 246) can hold and the
  canonical text of zero.  (The non-vacuity examples use `rHist` of GV/Lemmas/C13b.lean, which has a DECIMAL(5,2)
  column with the values -12.34 and 0.00.)
-/
namespace GV
namespace C11b
open Bytes M

theorem inv_dec (md : Nat) (u : Bool) (v : W.CellVal) (h : W.CellOK 246 md u v) :
    ∃ neg i f p s, v = .dec neg i f ∧ md = p * 256 + s ∧ (1 ≤ p ∧ p ≤ 65) ∧ (s ≤ 30 ∧ s ≤ p) ∧ Props.C11.WF p s i f := by
  cases v <;> simp [W.CellOK, W.intTypes] at h
  case dec neg i f =>
    obtain ⟨p, s, h1, h2, h3, h4, h5, h6, h7, h8, h9⟩ := h
    exact ⟨neg, i, f, p, s, rfl, h1, ⟨h2, h3⟩, ⟨h4, h5⟩, ⟨h6, h7, h8, h9⟩⟩

theorem strip_zeros (k : Nat) : W.stripLeadingZeros (List.replicate k 0) = [] := by
  induction k with
  | zero => rfl
  | succ k ih => simpa [List.replicate_succ, W.stripLeadingZeros] using ih

/-- zero of DECIMAL(p,s) — all digits 0 — is "0" for s = 0 and "0." followed by s zeros otherwise -/
theorem zero_text (md k s : Nat) (lc f32 f64 : Nat → Bytes) :
    W.text md lc f32 f64 (.dec false (List.replicate k 0) (List.replicate s 0))
      = 48 :: (if s = 0 then [] else 46 :: List.replicate s 48) := by
  rw [C11.text_dec, C11.intText_nil _ (strip_zeros k)]
  cases s with
  | zero => simp
  | succ s =>
    have hd : digit 0 = 48 := by decide
    simp [W.digitsText, List.replicate_succ, hd]

end C11b
end GV
