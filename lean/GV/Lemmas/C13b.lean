import GV.Props.C01c
import GV.Props.C15c
import GV.Lemmas.C15b
import GV.Lemmas.C09c
/-
  Definitions and helper lemmas for GV/Props/C13b.lean, C10b.lean, C11b.lean, C12b.lean: the cell-level properties
  (C10–C13) END TO END, i.e. as statements about what the HANDLER receives for one column of one row of a rows change
  of a well-formed history — corollaries of the byte-level fidelity theorem (what is delivered) and of the shape of
  `seOfRows` / `GV.C09R.expectCols` (how a delivered row looks).
  The first section holds the vocabulary the property statements are made of.

  The lemmas that talk about a whole history (`site_rowsOK_reuse`, `delivered_col_reuse`, `delivered_value_reuse`) are
  proved for `GV.C15c.WFHistReuse` — histories in which a table id may be re-used for ANOTHER table — from
  `C15_bytes_fidelity_id_reuse` (GV/Props/C15c.lean); the `WFHist` versions (`site_rowsOK`, `delivered_col`,
  `delivered_value`: corollaries of `C01_fidelity_bytes`) are their instances through `C15_id_reuse_subsumes`.
-/
namespace GV
namespace C13b
open Bytes M GV.Props.C01 GV.Props.C01b GV.C01c

/-! ### the statements' vocabulary -/

/-- the handler calls of the run of `C01_fidelity_bytes`: a replica started at the head of the first file, fed what the
    Spec master serves for `h`, with a handler that accepts everything -/
def runCalls (cfg : W.Cfg) (env : Env) (h : W.History) : List Transaction :=
  (parseEvents env (fun _ => true) (PState.init ⟨W.firstFile, 4⟩)
    ((W.serve cfg h ⟨W.firstFile, 4⟩).map Input.event ++ [Input.closed])).calls

/-- what the handler got for TABLE column `j` of row `r` of the k-th event of its i-th call: in the after image
    (`RowValues`, `after = true`) or the before image (`RowIdentifies`, `after = false`) -/
def deliveredCol (calls : List Transaction) (i k : Nat) (after : Bool) (r j : Nat) : Option ColumnData :=
  match calls[i]? with
  | none => none
  | some tx =>
    match tx.events[k]? with
    | none => none
    | some e =>
      match (if after then e.rowValues else e.rowIdentifies)[r]? with
      | none => none
      | some row => row[j]?

/-- the presence bitmap of an image of a rows change -/
def presentOf (c : W.RowsChange) (after : Bool) : List Bool := if after then c.presentAfter else c.presentBefore

/-- the values the master wrote for the image of row `r` (PRESENT columns only, in image order) -/
def imageOf (c : W.RowsChange) (after : Bool) (r : Nat) : List (Option W.CellVal) :=
  match c.rows[r]? with
  | some row => if after then row.2 else row.1
  | none => []

/-- the ordinal INSIDE the image of table column `j`: the number of present columns before it -/
def ordOf (ps : List Bool) (j : Nat) : Nat := (ps.take j).count true

/-- what the master logged for table column `j` in an image: not part of the image, NULL, or a value -/
def written (c : W.RowsChange) (after : Bool) (r j : Nat) : W.ColVal :=
  if (presentOf c after)[j]? = some true then
    match (imageOf c after r)[ordOf (presentOf c after) j]? with
    | some (some v) => .value v
    | _ => .null
  else .absent

/-- the place talked about: the k-th change of the i-th transaction expected from the head of `h` is the rows change
    `c`; `c` has the image in question (no after image in a DELETE, no before image in a WRITE); `r` is one of its
    rows and `j` one of its table's columns -/
structure Site (cfg : W.Cfg) (h : W.History) (i k : Nat) (c : W.RowsChange) (after : Bool) (r j : Nat) : Prop where
  tx : ∃ t, (W.expected cfg h ⟨W.firstFile, 4⟩)[i]? = some t ∧ t.changes[k]? = some (.rows c)
  img : if after then c.kind ≠ .delete else c.kind ≠ .write
  row : r < c.rows.length
  col : j < c.table.cols.length

/-! ### one column of `expectCols` -/

/-- the absent / NULL / text observation for table column `j` -/
def colOf (E : Ext) (md : Nat) (ps : List Bool) (vs : List (Option W.CellVal)) (j : Nat) : Col :=
  if ps[j]? = some true then
    match vs[ordOf ps j]? with
    | some (some x) => .value (C09R.txt E md x)
    | _ => .null
  else .absent

theorem ordOf_false (ps : List Bool) (j : Nat) : ordOf (false :: ps) (j + 1) = ordOf ps j := by
  simp [ordOf]

theorem ordOf_true (ps : List Bool) (j : Nat) : ordOf (true :: ps) (j + 1) = ordOf ps j + 1 := by
  simp [ordOf]

theorem expectCols_get (E : Ext) : ∀ (cs : List (W.ColDef × Bool)) (ps : List Bool) (ns : List Bytes)
    (vs : List (Option W.CellVal)),
    ps.length = cs.length → ns.length = cs.length → (W.selectPresent ps cs).length = vs.length →
    ∀ j (hj : j < cs.length), ∃ n, ns[j]? = some n ∧
      (C09R.expectCols E cs ps ns vs)[j]? = some ⟨n, (cs[j]).1.typ, colOf E (cs[j]).1.md ps vs j⟩ := by
  intro cs
  induction cs with
  | nil => intro ps ns vs _ _ _ j hj; simp at hj
  | cons col cs ih =>
    intro ps ns vs hp hn hs j hj
    match ps, ns, hp, hn with
    | p :: ps, n :: ns, hp, hn =>
      have hp' : ps.length = cs.length := by simpa using hp
      have hn' : ns.length = cs.length := by simpa using hn
      cases p with
      | false =>
        rw [C09R.sel_false] at hs
        cases j with
        | zero => exact ⟨n, rfl, by simp [C09R.expectCols, colOf]⟩
        | succ j =>
          obtain ⟨m, hm, h⟩ := ih ps ns vs hp' hn' hs j (by simpa using hj)
          refine ⟨m, by simpa using hm, ?_⟩
          simp only [C09R.expectCols, List.getElem?_cons_succ, List.getElem_cons_succ, h]
          simp [colOf, ordOf_false]
      | true =>
        rw [C09R.sel_true] at hs
        match vs, hs with
        | v :: vs, hs =>
          have hs' : (W.selectPresent ps cs).length = vs.length := by simpa using hs
          cases v with
          | none =>
            cases j with
            | zero => exact ⟨n, rfl, by simp [C09R.expectCols, colOf, ordOf]⟩
            | succ j =>
              obtain ⟨m, hm, h⟩ := ih ps ns vs hp' hn' hs' j (by simpa using hj)
              refine ⟨m, by simpa using hm, ?_⟩
              simp only [C09R.expectCols, List.getElem?_cons_succ, List.getElem_cons_succ, h]
              simp [colOf, ordOf_true]
          | some x =>
            cases j with
            | zero => exact ⟨n, rfl, by simp [C09R.expectCols, colOf, ordOf]⟩
            | succ j =>
              obtain ⟨m, hm, h⟩ := ih ps ns vs hp' hn' hs' j (by simpa using hj)
              refine ⟨m, by simpa using hm, ?_⟩
              simp only [C09R.expectCols, List.getElem?_cons_succ, List.getElem_cons_succ, h]
              simp [colOf, ordOf_true]

/-- a present table column sits at its image ordinal among the selected columns -/
theorem sel_get {α} : ∀ (ps : List Bool) (xs : List α), ps.length = xs.length →
    ∀ j (hj : j < xs.length), ps[j]? = some true → (W.selectPresent ps xs)[ordOf ps j]? = some xs[j] := by
  intro ps
  induction ps with
  | nil => intro xs hl j hj; simp at hl; omega
  | cons p ps ih =>
    intro xs hl j hj hp
    match xs, hl with
    | x :: xs, hl =>
      have hl' : ps.length = xs.length := by simpa using hl
      cases j with
      | zero =>
        simp at hp; subst hp
        simp [C09R.sel_true, ordOf]
      | succ j =>
        have hp' : ps[j]? = some true := by simpa using hp
        have := ih xs hl' j (by simpa using hj) hp'
        cases p with
        | false => rw [C09R.sel_false, ordOf_false]; simpa using this
        | true => rw [C09R.sel_true, ordOf_true]; simpa using this

/-! ### the delivered column -/

theorem colsU_length (t : W.TableDef) (hu : t.unsigned.length = t.cols.length) : (colsU t).length = t.cols.length := by
  simp [colsU, hu]

theorem colsU_get (t : W.TableDef) (hu : t.unsigned.length = t.cols.length) (j : Nat) (hj : j < t.cols.length) :
    ∃ u, t.unsigned[j]? = some u ∧ (colsU t)[j]? = some (t.cols[j], u) := by
  have hj' : j < t.unsigned.length := by omega
  exact ⟨t.unsigned[j], List.getElem?_eq_getElem hj', by simp [colsU, List.getElem?_zip_eq_some, hj, hj']⟩

/-- the rows change of a site is one of the history's and well-formed — also when table ids are re-used -/
theorem site_rowsOK_reuse {cfg : W.Cfg} {h : W.History} (hwf : C15c.WFHistReuse cfg h) {i k : Nat} {c : W.RowsChange}
    {after : Bool} {r j : Nat} (hs : Site cfg h i k c after r j) : c ∈ histRows h ∧ RowsOK cfg c := by
  obtain ⟨t, ht, hc⟩ := hs.tx
  have hmem := C15b.expected_rows_sub cfg h t (List.mem_of_getElem? ht) c (List.mem_of_getElem? hc)
  exact ⟨hmem, C09c.histRows_ok cfg h hwf.units c hmem⟩

theorem site_rowsOK {cfg : W.Cfg} {h : W.History} (hwf : WFHist cfg h) {i k : Nat} {c : W.RowsChange} {after : Bool}
    {r j : Nat} (hs : Site cfg h i k c after r j) : c ∈ histRows h ∧ RowsOK cfg c :=
  site_rowsOK_reuse (Props.C15c.C15_id_reuse_subsumes cfg h hwf) hs

/-- the image of row r is well-formed against the selected columns -/
theorem site_image {cfg : W.Cfg} {c : W.RowsChange} (hrows : RowsOK cfg c) {after : Bool}
    (himg : if after then c.kind ≠ .delete else c.kind ≠ .write) {r : Nat} (hr : r < c.rows.length) :
    Props.C09b.ImageOK (W.selectPresent (presentOf c after) (colsU c.table)) (imageOf c after r) := by
  have hi := hrows.images c.rows[r] (List.getElem_mem hr)
  cases after with
  | true => simpa [presentOf, imageOf, List.getElem?_eq_getElem hr] using hi.2 (by simpa using himg)
  | false => simpa [presentOf, imageOf, List.getElem?_eq_getElem hr] using hi.1 (by simpa using himg)

theorem presentOf_length {cfg : W.Cfg} {c : W.RowsChange} (hrows : RowsOK cfg c) (after : Bool) :
    (presentOf c after).length = c.table.cols.length := by
  cases after
  · exact hrows.pb
  · exact hrows.pa

/-- the row the handler gets for an image is `expectCols` of that image -/
theorem seOfRows_image (E : Ext) (c : W.RowsChange) (after : Bool)
    (himg : if after then c.kind ≠ .delete else c.kind ≠ .write) (r : Nat) (hr : r < c.rows.length) :
    (if after then (seOfRows E c).rowValues else (seOfRows E c).rowIdentifies)[r]?
      = some (C09R.expectCols E (colsU c.table) (presentOf c after) c.table.names (imageOf c after r)) := by
  cases after with
  | true =>
    have hk : c.kind ≠ .delete := by simpa using himg
    simp [seOfRows, hk, presentOf, imageOf, List.getElem?_eq_getElem hr]
  | false =>
    have hk : c.kind ≠ .write := by simpa using himg
    simp [seOfRows, hk, presentOf, imageOf, List.getElem?_eq_getElem hr]

/-- the handler calls are the expected transactions — the byte-level fidelity theorem for histories in which table ids
    may be re-used for other tables, in terms of `runCalls` -/
theorem runCalls_reuse (cfg : W.Cfg) (env : Env) (h : W.History) (hwf : C15c.WFHistReuse cfg h)
    (hm : MapperAgrees env h) : runCalls cfg env h = (W.expected cfg h ⟨W.firstFile, 4⟩).map (toTx env.ext) := by
  unfold runCalls
  rw [Props.C15c.C15_bytes_fidelity_id_reuse cfg env h hwf hm]

/-- MAIN LEMMA: what the handler receives for one column, end to end — for histories in which table ids may be re-used
    for other tables: name, type and metadata are those of `c.table`, the table announced for THIS rows change -/
theorem delivered_col_reuse (cfg : W.Cfg) (env : Env) (h : W.History) (hwf : C15c.WFHistReuse cfg h)
    (hm : MapperAgrees env h)
    (i k : Nat) (c : W.RowsChange) (after : Bool) (r j : Nat) (hs : Site cfg h i k c after r j) :
    ∃ n, c.table.names[j]? = some n ∧
      deliveredCol (runCalls cfg env h) i k after r j
        = some ⟨n, (c.table.cols[j]'hs.col).typ,
                colOf env.ext (c.table.cols[j]'hs.col).md (presentOf c after) (imageOf c after r) j⟩ := by
  obtain ⟨_, hrows⟩ := site_rowsOK_reuse hwf hs
  obtain ⟨t, ht, hc⟩ := hs.tx
  have hcu := colsU_length c.table hrows.table.unsigned
  have hio := site_image hrows hs.img hs.row
  obtain ⟨n, hn, hget⟩ := expectCols_get env.ext (colsU c.table) (presentOf c after) c.table.names (imageOf c after r)
    (by rw [presentOf_length hrows, hcu]) (by rw [hrows.table.names, hcu]) hio.1 j (by rw [hcu]; exact hs.col)
  obtain ⟨u, _, hu⟩ := colsU_get c.table hrows.table.unsigned j hs.col
  have hcj : (colsU c.table)[j]'(by rw [hcu]; exact hs.col) = (c.table.cols[j]'hs.col, u) := by
    have := List.getElem?_eq_getElem (l := colsU c.table) (i := j) (by rw [hcu]; exact hs.col)
    rw [hu] at this
    exact (Option.some.inj this).symm
  refine ⟨n, hn, ?_⟩
  rw [hcj] at hget
  have hrun := runCalls_reuse cfg env h hwf hm
  have hev : (toTx env.ext t).events[k]? = some (seOfRows env.ext c) := by
    simp [toTx, hc, seOfChange]
  unfold deliveredCol
  rw [hrun]
  simp only [List.getElem?_map, ht, Option.map_some, hev, seOfRows_image env.ext c after hs.img r hs.row]
  exact hget

/-- … for histories in which a table id names one table throughout -/
theorem delivered_col (cfg : W.Cfg) (env : Env) (h : W.History) (hwf : WFHist cfg h) (hm : MapperAgrees env h)
    (i k : Nat) (c : W.RowsChange) (after : Bool) (r j : Nat) (hs : Site cfg h i k c after r j) :
    ∃ n, c.table.names[j]? = some n ∧
      deliveredCol (runCalls cfg env h) i k after r j
        = some ⟨n, (c.table.cols[j]'hs.col).typ,
                colOf env.ext (c.table.cols[j]'hs.col).md (presentOf c after) (imageOf c after r) j⟩ :=
  delivered_col_reuse cfg env h (Props.C15c.C15_id_reuse_subsumes cfg h hwf) hm i k c after r j hs

/-! ### the Spec side of a site: which of the three cases column j is in, and the well-formedness of a value -/

theorem site_cases {cfg : W.Cfg} {c : W.RowsChange} (hrows : RowsOK cfg c) {after : Bool}
    (himg : if after then c.kind ≠ .delete else c.kind ≠ .write) {r : Nat} (hr : r < c.rows.length)
    {j : Nat} (hj : j < c.table.cols.length) :
    (presentOf c after)[j]? = some false ∨
    ((presentOf c after)[j]? = some true ∧
      ((imageOf c after r)[ordOf (presentOf c after) j]? = some none ∨
       ∃ v, (imageOf c after r)[ordOf (presentOf c after) j]? = some (some v))) := by
  have hl := presentOf_length hrows after
  have hj' : j < (presentOf c after).length := by omega
  rw [List.getElem?_eq_getElem hj']
  cases hb : (presentOf c after)[j] with
  | false => exact Or.inl rfl
  | true =>
    refine Or.inr ⟨rfl, ?_⟩
    have hp : (presentOf c after)[j]? = some true := by rw [List.getElem?_eq_getElem hj', hb]
    have hcu := colsU_length c.table hrows.table.unsigned
    have hsel := sel_get (presentOf c after) (colsU c.table) (by rw [hl, hcu]) j (by rw [hcu]; exact hj) hp
    have hlt : ordOf (presentOf c after) j < (imageOf c after r).length := by
      rw [← (site_image hrows himg hr).1]
      exact (List.getElem?_eq_some_iff.mp hsel).1
    rw [List.getElem?_eq_getElem hlt]
    cases (imageOf c after r)[ordOf (presentOf c after) j] with
    | none => exact Or.inl rfl
    | some v => exact Or.inr ⟨v, rfl⟩

/-- a value the master wrote at table column j is a well-formed cell for that column's type, metadata and the
    mapper's signedness flag for ORDINAL j — also when the image is partial and the value sits at another ordinal -/
theorem site_cellOK {cfg : W.Cfg} {c : W.RowsChange} (hrows : RowsOK cfg c) {after : Bool}
    (himg : if after then c.kind ≠ .delete else c.kind ≠ .write) {r : Nat} (hr : r < c.rows.length)
    {j : Nat} (hj : j < c.table.cols.length) {v : W.CellVal}
    (hp : (presentOf c after)[j]? = some true)
    (hv : (imageOf c after r)[ordOf (presentOf c after) j]? = some (some v)) :
    ∃ u, c.table.unsigned[j]? = some u ∧ W.CellOK (c.table.cols[j]).typ (c.table.cols[j]).md u v := by
  have hl := presentOf_length hrows after
  have hcu := colsU_length c.table hrows.table.unsigned
  obtain ⟨u, hu, hcj⟩ := colsU_get c.table hrows.table.unsigned j hj
  have hsel := sel_get (presentOf c after) (colsU c.table) (by rw [hl, hcu]) j (by rw [hcu]; exact hj) hp
  have hcj' : (colsU c.table)[j]'(by rw [hcu]; exact hj) = (c.table.cols[j], u) := by
    have := List.getElem?_eq_getElem (l := colsU c.table) (i := j) (by rw [hcu]; exact hj)
    rw [hcj] at this
    exact (Option.some.inj this).symm
  rw [hcj'] at hsel
  have hio := site_image hrows himg hr
  have hz : (List.zip (W.selectPresent (presentOf c after) (colsU c.table)) (imageOf c after r))[ordOf (presentOf c after) j]?
      = some ((c.table.cols[j], u), some v) := by
    rw [List.getElem?_zip_eq_some]
    exact ⟨hsel, hv⟩
  have := hio.2 _ (List.mem_of_getElem? hz)
  exact ⟨u, hu, this⟩

theorem written_absent {c : W.RowsChange} {after : Bool} {r j : Nat} (hp : (presentOf c after)[j]? = some false) :
    written c after r j = .absent := by
  simp [written, hp]

theorem written_null {c : W.RowsChange} {after : Bool} {r j : Nat} (hp : (presentOf c after)[j]? = some true)
    (hv : (imageOf c after r)[ordOf (presentOf c after) j]? = some none) : written c after r j = .null := by
  simp [written, hp, hv]

theorem written_value {c : W.RowsChange} {after : Bool} {r j : Nat} {v : W.CellVal}
    (hp : (presentOf c after)[j]? = some true)
    (hv : (imageOf c after r)[ordOf (presentOf c after) j]? = some (some v)) : written c after r j = .value v := by
  simp [written, hp, hv]

/-- `written = value v` unfolded -/
theorem written_value_inv {c : W.RowsChange} {after : Bool} {r j : Nat} {v : W.CellVal}
    (h : written c after r j = .value v) :
    (presentOf c after)[j]? = some true ∧ (imageOf c after r)[ordOf (presentOf c after) j]? = some (some v) := by
  unfold written at h
  split at h
  · rename_i hp
    refine ⟨hp, ?_⟩
    split at h
    · rename_i x hx
      rw [hx]
      cases h
      rfl
    · cases h
  · cases h

/-- END TO END for a written value: the handler gets its canonical text, and the value is a well-formed cell for the
    column's type / metadata / mapper signedness — those of `c.table`, the table announced for THIS rows change, also
    when its id was used for another table before -/
theorem delivered_value_reuse (cfg : W.Cfg) (env : Env) (h : W.History) (hwf : C15c.WFHistReuse cfg h)
    (hm : MapperAgrees env h)
    (i k : Nat) (c : W.RowsChange) (after : Bool) (r j : Nat) (hs : Site cfg h i k c after r j) (v : W.CellVal)
    (hv : written c after r j = .value v) :
    ∃ n u, c.table.names[j]? = some n ∧ c.table.unsigned[j]? = some u ∧
      W.CellOK (c.table.cols[j]'hs.col).typ (c.table.cols[j]'hs.col).md u v ∧
      deliveredCol (runCalls cfg env h) i k after r j
        = some ⟨n, (c.table.cols[j]'hs.col).typ, .value (Props.C09b.textOf env.ext (c.table.cols[j]'hs.col).md v)⟩ := by
  obtain ⟨_, hrows⟩ := site_rowsOK_reuse hwf hs
  obtain ⟨hp, hx⟩ := written_value_inv hv
  obtain ⟨n, hn, hd⟩ := delivered_col_reuse cfg env h hwf hm i k c after r j hs
  obtain ⟨u, hu, hok⟩ := site_cellOK hrows hs.img hs.row hs.col hp hx
  refine ⟨n, u, hn, hu, hok, ?_⟩
  rw [hd]
  simp [colOf, hp, hx, Props.C09b.textOf]

/-- … for histories in which a table id names one table throughout -/
theorem delivered_value (cfg : W.Cfg) (env : Env) (h : W.History) (hwf : WFHist cfg h) (hm : MapperAgrees env h)
    (i k : Nat) (c : W.RowsChange) (after : Bool) (r j : Nat) (hs : Site cfg h i k c after r j) (v : W.CellVal)
    (hv : written c after r j = .value v) :
    ∃ n u, c.table.names[j]? = some n ∧ c.table.unsigned[j]? = some u ∧
      W.CellOK (c.table.cols[j]'hs.col).typ (c.table.cols[j]'hs.col).md u v ∧
      deliveredCol (runCalls cfg env h) i k after r j
        = some ⟨n, (c.table.cols[j]'hs.col).typ, .value (Props.C09b.textOf env.ext (c.table.cols[j]'hs.col).md v)⟩ :=
  delivered_value_reuse cfg env h (Props.C15c.C15_id_reuse_subsumes cfg h hwf) hm i k c after r j hs v hv

/-! ### the three observations -/

theorem colOf_absent (E : Ext) (md : Nat) {ps : List Bool} (vs : List (Option W.CellVal)) {j : Nat}
    (hp : ps[j]? = some false) : colOf E md ps vs j = .absent := by
  simp [colOf, hp]

theorem colOf_null (E : Ext) (md : Nat) {ps : List Bool} {vs : List (Option W.CellVal)} {j : Nat}
    (hp : ps[j]? = some true) (hv : vs[ordOf ps j]? = some none) : colOf E md ps vs j = .null := by
  simp [colOf, hp, hv]

theorem colOf_value (E : Ext) (md : Nat) {ps : List Bool} {vs : List (Option W.CellVal)} {j : Nat} {v : W.CellVal}
    (hp : ps[j]? = some true) (hv : vs[ordOf ps j]? = some (some v)) :
    colOf E md ps vs j = .value (Props.C09b.textOf E md v) := by
  simp [colOf, hp, hv, Props.C09b.textOf]

/-- a decidable form of `Site.tx`, for concrete histories -/
theorem site_tx_of_bind {l : List W.ETx} {i k : Nat} {c : W.RowsChange}
    (h : (l[i]?.bind fun t => t.changes[k]?) = some (.rows c)) :
    ∃ t, l[i]? = some t ∧ t.changes[k]? = some (.rows c) := by
  cases hl : l[i]? with
  | none => simp [hl] at h
  | some t => exact ⟨t, rfl, by simpa [hl] using h⟩

/-! ### a concrete history for the non-vacuity examples -/

def rT : W.TableDef :=
  { id := 9, db := [100], name := [116],
    cols := [⟨3, 0, false⟩, ⟨3, 0, true⟩, ⟨15, 300, true⟩, ⟨246, 5 * 256 + 2, true⟩, ⟨18, 3, true⟩],
    names := [[97], [98], [99], [100], [101]], unsigned := [true, false, false, false, false] }

def rC1 : W.RowsChange :=
  { kind := .update, table := rT, ts := 77, flags := 1, extra := [7],
    presentBefore := [true, false, true, false, false],
    presentAfter := [true, true, true, true, true],
    rows := [([some (.uint 4 4000000000), some (.str [])],
              [some (.uint 4 4000000000), some (.int 4 (-5)), none, some (.dec true [0, 1, 2] [3, 4]),
               some (.datetime2 2024 2 29 13 5 9 123)]),
             ([some (.uint 4 1), none],
              [some (.uint 4 2), none, some (.str [104, 105]), some (.dec false [0, 0, 0] [0, 0]), none])],
    announce := true, tmOptional := [] }

def rC2 : W.RowsChange :=
  { rC1 with
    kind := .write
    presentAfter := [false, true, true, false, true]
    rows := [([], [some (.int 4 (-1)), some (.str []), some (.datetime2 0 0 0 0 0 0 0)])]
    announce := false }

def rHist : W.History := [.tx (asc "BEGIN") [.rows rC1] (.xid 9) 90, .autoRows rC2]
def rEnv : Env := ⟨⟨fun _ => [70], fun _ => [71], fun _ => [72], fun _ => 0⟩, fun _ _ => some (infoOf rT)⟩

theorem rTOK : TableOK {} rT :=
  ⟨by decide, by intro c hc; simp [rT] at hc; rcases hc with rfl | rfl | rfl | rfl | rfl <;> (unfold Props.C15.ColOK; decide),
   by decide, rfl, rfl, by decide, by decide, by decide⟩

theorem ok_u (n : Nat) (h : n < 2 ^ 32) : W.CellOK 3 0 true (.uint 4 n) := ⟨by decide, rfl, h⟩
theorem ok_i (z : Int) (h : -(2 ^ 31 : Int) ≤ z ∧ z < 2 ^ 31) : W.CellOK 3 0 false (.int 4 z) := ⟨by decide, rfl, h⟩
theorem ok_s (b : Bytes) (h : b.length ≤ 300) : W.CellOK 15 300 false (.str b) := Or.inl ⟨Or.inl rfl, by decide, h⟩
theorem ok_d (neg : Bool) (a b c d e : Nat) (h : a < 10 ∧ b < 10 ∧ c < 10 ∧ d < 10 ∧ e < 10) :
    W.CellOK 246 (5 * 256 + 2) false (.dec neg [a, b, c] [d, e]) :=
  ⟨rfl, 5, 2, rfl, by decide, by decide, by decide, by decide, rfl, rfl, by simp; omega, by simp; omega⟩
theorem ok_t (y mo d hh mi s f : Nat) (h : y ≤ 9999 ∧ mo ≤ 12 ∧ d ≤ 31 ∧ hh ≤ 23 ∧ mi ≤ 59 ∧ s ≤ 59 ∧ f < 1000) :
    W.CellOK 18 3 false (.datetime2 y mo d hh mi s f) :=
  ⟨rfl, by decide, h.1, h.2.1, h.2.2.1, h.2.2.2.1, h.2.2.2.2.1, h.2.2.2.2.2.1, h.2.2.2.2.2.2⟩

set_option exponentiation.threshold 512 in
theorem rC1OK : RowsOK {} rC1 := by
  refine ⟨rTOK, rfl, rfl, by decide, by decide, by decide, ?_, ?_⟩
  · intro r hr
    simp only [rC1, List.mem_cons, List.not_mem_nil, or_false] at hr
    rcases hr with rfl | rfl
    · refine ⟨fun _ => ⟨rfl, ?_⟩, fun _ => ⟨rfl, ?_⟩⟩
      · intro p hp
        simp [rC1, rT, colsU, W.selectPresent] at hp
        rcases hp with rfl | rfl
        · exact ok_u _ (by decide)
        · exact ok_s _ (by decide)
      · intro p hp
        simp [rC1, rT, colsU, W.selectPresent] at hp
        rcases hp with rfl | rfl | rfl | rfl | rfl
        · exact ok_u _ (by decide)
        · exact ok_i _ (by decide)
        · trivial
        · exact ok_d _ _ _ _ _ _ (by decide)
        · exact ok_t _ _ _ _ _ _ _ (by decide)
    · refine ⟨fun _ => ⟨rfl, ?_⟩, fun _ => ⟨rfl, ?_⟩⟩
      · intro p hp
        simp [rC1, rT, colsU, W.selectPresent] at hp
        rcases hp with rfl | rfl
        · exact ok_u _ (by decide)
        · trivial
      · intro p hp
        simp [rC1, rT, colsU, W.selectPresent] at hp
        rcases hp with rfl | rfl | rfl | rfl | rfl
        · exact ok_u _ (by decide)
        · trivial
        · exact ok_s _ (by decide)
        · exact ok_d _ _ _ _ _ _ (by decide)
        · trivial
  · decide

theorem rC2OK : RowsOK {} rC2 := by
  refine ⟨rTOK, rfl, rfl, by decide, by decide, by decide, ?_, ?_⟩
  · intro r hr
    simp only [rC2, List.mem_cons, List.not_mem_nil, or_false] at hr
    subst hr
    refine ⟨fun h => absurd rfl h, fun _ => ⟨rfl, ?_⟩⟩
    intro p hp
    simp [rC2, rC1, rT, colsU, W.selectPresent] at hp
    rcases hp with rfl | rfl | rfl
    · exact ok_i _ (by decide)
    · exact ok_s _ (by decide)
    · exact ok_t _ _ _ _ _ _ _ (by decide)
  · decide

theorem rWF : WFHist {} rHist := by
  refine ⟨?_, ?_, ?_, ?_⟩
  · intro u hu
    simp only [rHist, List.mem_cons, List.not_mem_nil, or_false] at hu
    rcases hu with rfl | rfl
    · refine ⟨by decide, ?_, trivial, by decide⟩
      intro c hc
      simp only [List.mem_cons, List.not_mem_nil, or_false] at hc
      subst hc
      exact ⟨rC1OK, by decide⟩
    · exact ⟨rC2OK, by decide⟩
  · decide
  · exact ⟨Or.inl rfl, Or.inr (by decide), trivial⟩
  · decide

theorem rMapper : MapperAgrees rEnv rHist := by
  intro c hc
  simp [rHist, histRows, unitRows, changeRows] at hc
  rcases hc with rfl | rfl <;> rfl

end C13b
end GV
