import GV.Lemmas.C13b
import GV.Props.C14
/-
  Helper lemmas and the concrete history `jHist` for GV/Props/C14b.lean: JSON columns END TO END (what the handler
  receives for a JSON column of a row of a rows change of a well-formed history).
-/
namespace GV
namespace C14b
open Bytes M GV.Props.C01 GV.Props.C01b GV.C01c GV.C13b

/-! ### two documents with the same binary form have the same text -/

/-- the decoder is a function of the bytes: well-formed documents whose binary forms coincide render alike -/
theorem render_of_jsonb_eq (E : Ext) (d d' : W.JDoc) (hw : W.WFDoc d) (hw' : W.WFDoc d') (h : W.jsonb d = W.jsonb d') :
    W.render E.fmtFloat64E true d = W.render E.fmtFloat64E true d' := by
  have h1 := Props.C14.C14_doc E d hw
  have h2 := Props.C14.C14_doc E d' hw'
  rw [h, h2] at h1
  exact (Res.ok.inj h1).symm

/-- a length-prefixed cell determines its payload -/
theorem payload_eq (md n n' : Nat) (x x' : Bytes) (h : ofLE md n ++ x = ofLE md n' ++ x') : x = x' :=
  (List.append_inj h (by simp)).2

/-- what `W.CellOK` says about a `.raw` cell, with the document's text for any float formatter -/
theorem inv_raw (E : Ext) (typ md : Nat) (u : Bool) (b t : Bytes) (h : W.CellOK typ md u (.raw b t)) :
    typ = 245 ∧ 1 ≤ md ∧ md ≤ 4 ∧ ∃ d, W.WFDoc d ∧ W.NoDbl d ∧ (W.jsonb d).length < 256 ^ md ∧
      b = ofLE md (W.jsonb d).length ++ W.jsonb d ∧ t = W.render E.fmtFloat64E true d := by
  obtain ⟨ht, h1, h4, d, hw, hn, hl, hb, htx⟩ := h
  exact ⟨ht, h1, h4, d, hw, hn, hl, hb, by rw [htx]; exact C14.render_noDbl _ _ true d hn⟩

/-- every value of a JSON column (type 245) of a well-formed image is a `.raw` cell -/
theorem inv_json (md : Nat) (u : Bool) (v : W.CellVal) (h : W.CellOK 245 md u v) : ∃ b t, v = .raw b t := by
  cases v <;> simp [W.CellOK, W.intTypes] at h
  exact ⟨_, _, rfl⟩

/-- the cell of a well-formed document without DOUBLE is a well-formed cell of a JSON column -/
theorem jsonCell_ok (md : Nat) (u : Bool) (d : W.JDoc) (h1 : 1 ≤ md) (h4 : md ≤ 4) (hw : W.WFDoc d) (hn : W.NoDbl d)
    (hl : (W.jsonb d).length < 256 ^ md) : W.CellOK 245 md u (W.jsonCell md d) :=
  ⟨rfl, h1, h4, d, hw, hn, hl, rfl, rfl⟩

/-! ### a concrete history for the non-vacuity examples: a table (INT, JSON with 4 length bytes) -/

def jT : W.TableDef :=
  { id := 12, db := [100], name := [106],
    cols := [⟨3, 0, false⟩, ⟨245, 4, true⟩],
    names := [[105], [106]], unsigned := [false, false] }

/-- {"a": -1, "bc": [null, "ab", 70000, {"k": [true, DATE 2024-02-29]}], "d": [1, "x", 5]}: nesting depth 4; the array
    under "d" is stored in the LARGE format (4-byte counts / offsets), the others in the small format; inlined
    (literals, int16) and out-of-line (string, uint32 in a small container, opaque) values -/
def jD1 : W.JDoc :=
  .obj false [([97], .i16 (-1)),
              ([98, 99], .arr false [.lit 0, .str [97, 98], .u32 70000,
                                    .obj false [([107], .arr false [.lit 1, .odate 2024 2 29])]]),
              ([100], .arr true [.i16 1, .str [120], .u32 5])]
/-- a scalar document: the string "hi" -/
def jD2 : W.JDoc := .str [104, 105]
/-- a LARGE array holding an object and an opaque DECIMAL(5,2): [{"z": -9000000000}, -12.34] -/
def jD3 : W.JDoc := .arr true [.obj false [([122], .i64 (-9000000000))], .odecimal 5 2 true [0, 1, 2] [3, 4]]
/-- the JSON literal null (not SQL NULL) -/
def jD4 : W.JDoc := .lit 0

/-- the binary documents, as literals (`W.jsonb` evaluated) -/
def jB1 : Bytes :=
  [0, 3, 0, 109, 0, 25, 0, 1, 0, 26, 0, 2, 0, 28, 0, 1, 0, 5, 255, 255, 2, 29, 0, 3, 84, 0, 97, 98, 99, 100, 4, 0, 55, 0,
   4, 0, 0, 12, 16, 0, 8, 19, 0, 0, 23, 0, 2, 97, 98, 112, 17, 1, 0, 1, 0, 32, 0, 11, 0, 1, 0, 2, 12, 0, 107, 2, 0, 20, 0,
   4, 1, 0, 15, 10, 0, 10, 8, 0, 0, 0, 0, 0, 186, 178, 25, 3, 0, 0, 0, 25, 0, 0, 0, 5, 1, 0, 0, 0, 12, 23, 0, 0, 0, 8, 5,
   0, 0, 0, 1, 120]
def jB2 : Bytes := [12, 2, 104, 105]
def jB3 : Bytes :=
  [3, 2, 0, 0, 0, 45, 0, 0, 0, 0, 18, 0, 0, 0, 15, 38, 0, 0, 0, 1, 0, 20, 0, 11, 0, 1, 0, 9, 12, 0, 122, 0, 230, 142, 231,
   253, 255, 255, 255, 246, 5, 5, 2, 127, 243, 221]
def jB4 : Bytes := [4, 0]

#guard W.jsonb jD1 == jB1 && W.jsonb jD2 == jB2 && W.jsonb jD3 == jB3 && W.jsonb jD4 == jB4

/- `W.varlen` is defined by well-founded recursion, so `decide` cannot evaluate it: the size prefixes are rewritten first -/
theorem jsonb1 : W.jsonb jD1 = jB1 := by
  simp only [jD1, W.jsonb, W.encVal, W.encKVs, W.encVals, W.encKeys, List.length_cons, List.length_nil]
  rw [C14.varlen_lt 2 (by decide), C14.varlen_lt 1 (by decide), C14.varlen_lt 8 (by decide)]
  decide
theorem jsonb2 : W.jsonb jD2 = jB2 := by
  simp only [jD2, W.jsonb, W.encVal, List.length_cons, List.length_nil]
  rw [C14.varlen_lt 2 (by decide)]
  decide
theorem jsonb3 : W.jsonb jD3 = jB3 := by
  have hl : ([UInt8.ofNat 5, UInt8.ofNat 2] ++ W.decimalBytes true [0, 1, 2] [3, 4]).length = 5 := by decide
  simp only [jD3, W.jsonb, W.encVal, W.encKVs, W.encVals, W.encKeys]
  rw [hl, C14.varlen_lt 5 (by decide)]
  decide
theorem jsonb4 : W.jsonb jD4 = jB4 := by decide


theorem wf1 : W.WFDoc jD1 := by
  simp only [jD1, W.WFDoc, W.WFKVs, W.WFVals, W.ScalarOK, W.fitsFormat, W.encVal, W.encKVs, W.encVals, W.encKeys,
    List.length_cons, List.length_nil]
  rw [C14.varlen_lt 2 (by decide), C14.varlen_lt 1 (by decide), C14.varlen_lt 8 (by decide)]
  decide
theorem wf2 : W.WFDoc jD2 := by simp [jD2, W.WFDoc, W.ScalarOK]
theorem wf3 : W.WFDoc jD3 := by
  have hl : ([UInt8.ofNat 5, UInt8.ofNat 2] ++ W.decimalBytes true [0, 1, 2] [3, 4]).length = 5 := by decide
  simp only [jD3, W.WFDoc, W.WFKVs, W.WFVals, W.ScalarOK, W.fitsFormat, W.encVal, W.encKVs, W.encVals, W.encKeys,
    List.length_cons, List.length_nil]
  rw [hl, C14.varlen_lt 5 (by decide)]
  decide
theorem wf4 : W.WFDoc jD4 := by simp [jD4, W.WFDoc, W.ScalarOK]
theorem nd1 : W.NoDbl jD1 := by simp [jD1, W.NoDbl, W.NoDblKVs, W.NoDblVals]
theorem nd2 : W.NoDbl jD2 := by simp [jD2, W.NoDbl]
theorem nd3 : W.NoDbl jD3 := by simp [jD3, W.NoDbl, W.NoDblKVs, W.NoDblVals]
theorem nd4 : W.NoDbl jD4 := by simp [jD4, W.NoDbl]

/-- the JSON cells of the history: 4 length bytes + the binary document; text = the document's text -/
theorem cell1 : W.jsonCell 4 jD1 = .raw (ofLE 4 jB1.length ++ jB1) (W.render (fun _ => []) true jD1) := by
  rw [W.jsonCell, jsonb1]
theorem cell2 : W.jsonCell 4 jD2 = .raw (ofLE 4 jB2.length ++ jB2) (W.render (fun _ => []) true jD2) := by
  rw [W.jsonCell, jsonb2]
theorem cell3 : W.jsonCell 4 jD3 = .raw (ofLE 4 jB3.length ++ jB3) (W.render (fun _ => []) true jD3) := by
  rw [W.jsonCell, jsonb3]
theorem cell4 : W.jsonCell 4 jD4 = .raw (ofLE 4 jB4.length ++ jB4) (W.render (fun _ => []) true jD4) := by
  rw [W.jsonCell, jsonb4]

/-- WRITE, two rows in one event: (1, jD1) and (2, "hi") -/
def jC1 : W.RowsChange :=
  { kind := .write, table := jT, ts := 77, flags := 1, extra := [],
    presentBefore := [true, true], presentAfter := [true, true],
    rows := [([], [some (.int 4 1), some (W.jsonCell 4 jD1)]),
             ([], [some (.int 4 2), some (W.jsonCell 4 jD2)])],
    announce := true, tmOptional := [] }
/-- UPDATE, two rows: (2, "hi") → (2, jD3) and (1, SQL NULL) → (1, JSON null) -/
def jC2 : W.RowsChange :=
  { jC1 with
    kind := .update
    rows := [([some (.int 4 2), some (W.jsonCell 4 jD2)], [some (.int 4 2), some (W.jsonCell 4 jD3)]),
             ([some (.int 4 1), none], [some (.int 4 1), some (W.jsonCell 4 jD4)])] }

def jHist : W.History := [.tx (asc "BEGIN") [.rows jC1] (.xid 9) 90, .tx (asc "BEGIN") [.rows jC2] (.xid 10) 91]
def jEnv : Env := ⟨⟨fun _ => [70], fun _ => [71], fun _ => [72], fun _ => 0⟩, fun _ _ => some (infoOf jT)⟩

theorem jTOK : TableOK {} jT :=
  ⟨by decide, by intro c hc; simp [jT] at hc; rcases hc with rfl | rfl <;> (unfold Props.C15.ColOK; decide),
   by decide, rfl, rfl, by decide, by decide, by decide⟩

theorem ok_i (z : Int) (h : -(2 ^ 31 : Int) ≤ z ∧ z < 2 ^ 31) : W.CellOK 3 0 false (.int 4 z) := ⟨by decide, rfl, h⟩
theorem ok_1 : W.CellOK 245 4 false (W.jsonCell 4 jD1) :=
  jsonCell_ok 4 false jD1 (by decide) (by decide) wf1 nd1 (by rw [jsonb1]; decide)
theorem ok_2 : W.CellOK 245 4 false (W.jsonCell 4 jD2) :=
  jsonCell_ok 4 false jD2 (by decide) (by decide) wf2 nd2 (by rw [jsonb2]; decide)
theorem ok_3 : W.CellOK 245 4 false (W.jsonCell 4 jD3) :=
  jsonCell_ok 4 false jD3 (by decide) (by decide) wf3 nd3 (by rw [jsonb3]; decide)
theorem ok_4 : W.CellOK 245 4 false (W.jsonCell 4 jD4) :=
  jsonCell_ok 4 false jD4 (by decide) (by decide) wf4 nd4 (by rw [jsonb4]; decide)

theorem jC1OK : RowsOK {} jC1 := by
  refine ⟨jTOK, rfl, rfl, by decide, by decide, by decide, ?_, ?_⟩
  · intro r hr
    simp only [jC1, List.mem_cons, List.not_mem_nil, or_false] at hr
    rcases hr with rfl | rfl
    · refine ⟨fun h => absurd rfl h, fun _ => ⟨rfl, ?_⟩⟩
      intro p hp
      simp [jC1, jT, colsU, W.selectPresent] at hp
      rcases hp with rfl | rfl
      · exact ok_i _ (by decide)
      · exact ok_1
    · refine ⟨fun h => absurd rfl h, fun _ => ⟨rfl, ?_⟩⟩
      intro p hp
      simp [jC1, jT, colsU, W.selectPresent] at hp
      rcases hp with rfl | rfl
      · exact ok_i _ (by decide)
      · exact ok_2
  · simp only [jC1, cell1, cell2]
    decide

theorem jC2OK : RowsOK {} jC2 := by
  refine ⟨jTOK, rfl, rfl, by decide, by decide, by decide, ?_, ?_⟩
  · intro r hr
    simp only [jC2, List.mem_cons, List.not_mem_nil, or_false] at hr
    rcases hr with rfl | rfl
    · refine ⟨fun _ => ⟨rfl, ?_⟩, fun _ => ⟨rfl, ?_⟩⟩
      · intro p hp
        simp [jC2, jC1, jT, colsU, W.selectPresent] at hp
        rcases hp with rfl | rfl
        · exact ok_i _ (by decide)
        · exact ok_2
      · intro p hp
        simp [jC2, jC1, jT, colsU, W.selectPresent] at hp
        rcases hp with rfl | rfl
        · exact ok_i _ (by decide)
        · exact ok_3
    · refine ⟨fun _ => ⟨rfl, ?_⟩, fun _ => ⟨rfl, ?_⟩⟩
      · intro p hp
        simp [jC2, jC1, jT, colsU, W.selectPresent] at hp
        rcases hp with rfl | rfl
        · exact ok_i _ (by decide)
        · trivial
      · intro p hp
        simp [jC2, jC1, jT, colsU, W.selectPresent] at hp
        rcases hp with rfl | rfl
        · exact ok_i _ (by decide)
        · exact ok_4
  · simp only [jC2, jC1, cell2, cell3, cell4]
    decide

theorem jWF : WFHist {} jHist := by
  refine ⟨?_, ?_, ?_, ?_⟩
  · intro u hu
    simp only [jHist, List.mem_cons, List.not_mem_nil, or_false] at hu
    rcases hu with rfl | rfl
    · refine ⟨by decide, ?_, trivial, by decide⟩
      intro c hc
      simp only [List.mem_cons, List.not_mem_nil, or_false] at hc
      subst hc
      exact ⟨jC1OK, by simp [jC1]⟩
    · refine ⟨by decide, ?_, trivial, by decide⟩
      intro c hc
      simp only [List.mem_cons, List.not_mem_nil, or_false] at hc
      subst hc
      exact ⟨jC2OK, by simp [jC2]⟩
  · intro c1 h1 c2 h2 _
    simp [jHist, histRows, unitRows, changeRows] at h1 h2
    rcases h1 with rfl | rfl <;> rcases h2 with rfl | rfl <;> rfl
  · exact ⟨Or.inl rfl, Or.inl rfl, trivial⟩
  · simp only [jHist, jC2, jC1, cell1, cell2, cell3, cell4]
    set_option maxRecDepth 100000 in decide

theorem jMapper : MapperAgrees jEnv jHist := by
  intro c hc
  simp [jHist, histRows, unitRows, changeRows] at hc
  rcases hc with rfl | rfl <;> rfl

end C14b
end GV
