import GV.Model.Streamer
import GV.Spec.Events
import GV.Lemmas.Dec
/- helper lemmas for GV/Props/C15.lean -/
namespace GV
namespace C15
open Bytes M

/-! ### toolkit -/

theorem toNat_ofNat_lt (n : Nat) (h : n < 256) : (UInt8.ofNat n).toNat = n := by
  rw [UInt8.toNat_ofNat']; omega

theorem get_at (a : Bytes) (x : UInt8) (c : Bytes) (pos : Nat) (hp : pos = a.length) :
    Bytes.get (a ++ x :: c) pos = .ok x := by
  subst hp; exact get_mid a x c

theorem readLE_at (a c : Bytes) (pos w n : Nat) (hp : pos = a.length) :
    readLE (a ++ (ofLE w n ++ c)) pos w = .ok (n % 256 ^ w) := by
  subst hp; exact readLE_mid a c w n

theorem sliceFrom_app (a b : Bytes) (n : Nat) (h : n = a.length) : Bytes.sliceFrom (a ++ b) n = .ok b := by
  subst h; simp [Bytes.sliceFrom]

/-! ### length-encoded integers -/

theorem lenenc_length_pos (n : Nat) : 0 < (W.lenenc n).length := by
  unfold W.lenenc
  split
  · simp
  · split
    · simp
    · split <;> simp

theorem lenenc_read (pre rest : Bytes) (n : Nat) (x : UInt8) (hn : n < 2 ^ 64) :
    readLenEncInt (pre ++ (W.lenenc n ++ x :: rest)) pre.length
      = .ok (some (n, pre.length + (W.lenenc n).length)) := by
  unfold W.lenenc
  by_cases h1 : n < 251
  · have hx : (UInt8.ofNat n).toNat = n := toNat_ofNat_lt n (by omega)
    simp only [h1, if_true, List.cons_append, List.nil_append]
    unfold readLenEncInt
    have hl : ¬ (pre.length ≥ (pre ++ UInt8.ofNat n :: x :: rest).length) := by simp
    rw [if_neg hl, get_mid]
    simp only [Res.ok_bind, hx]
    rw [if_neg (by omega), if_neg (by omega), if_neg (by omega)]
    simp
  · by_cases h2 : n < 65536
    · simp only [h1, h2, if_true, if_false, List.cons_append]
      unfold readLenEncInt
      have hl : ¬ (pre.length ≥ (pre ++ (0xfc : UInt8) :: (ofLE 2 n ++ x :: rest)).length) := by simp
      rw [if_neg hl, get_mid]
      have hb : (0xfc : UInt8).toNat = 0xfc := by decide
      simp only [Res.ok_bind, hb, if_true]
      have hl2 : ¬ (pre.length + 2 ≥ (pre ++ (0xfc : UInt8) :: (ofLE 2 n ++ x :: rest)).length) := by
        simp; omega
      rw [if_neg hl2]
      have hs : pre ++ (0xfc : UInt8) :: (ofLE 2 n ++ x :: rest) = (pre ++ [0xfc]) ++ (ofLE 2 n ++ x :: rest) := by simp
      rw [hs, readLE_at (pre ++ [0xfc]) (x :: rest) (pre.length + 1) 2 n (by simp)]
      have : n % 256 ^ 2 = n := Nat.mod_eq_of_lt (by simp only [Nat.reducePow]; omega)
      simp [this]
    · by_cases h3 : n < 16777216
      · simp only [h1, h2, h3, if_true, if_false, List.cons_append]
        unfold readLenEncInt
        have hl : ¬ (pre.length ≥ (pre ++ (0xfd : UInt8) :: (ofLE 3 n ++ x :: rest)).length) := by simp
        rw [if_neg hl, get_mid]
        have hb : (0xfd : UInt8).toNat = 0xfd := by decide
        simp only [Res.ok_bind, hb, Nat.reduceEqDiff, reduceIte]
        have hl2 : ¬ (pre.length + 3 ≥ (pre ++ (0xfd : UInt8) :: (ofLE 3 n ++ x :: rest)).length) := by
          simp; omega
        rw [if_neg hl2]
        have hs : pre ++ (0xfd : UInt8) :: (ofLE 3 n ++ x :: rest) = (pre ++ [0xfd]) ++ (ofLE 3 n ++ x :: rest) := by simp
        rw [hs, readLE_at (pre ++ [0xfd]) (x :: rest) (pre.length + 1) 3 n (by simp)]
        have : n % 256 ^ 3 = n := Nat.mod_eq_of_lt (by simp only [Nat.reducePow]; omega)
        simp [this]
      · simp only [h1, h2, h3, if_false, List.cons_append]
        unfold readLenEncInt
        have hl : ¬ (pre.length ≥ (pre ++ (0xfe : UInt8) :: (ofLE 8 n ++ x :: rest)).length) := by simp
        rw [if_neg hl, get_mid]
        have hb : (0xfe : UInt8).toNat = 0xfe := by decide
        simp only [Res.ok_bind, hb, Nat.reduceEqDiff, reduceIte]
        have hl2 : ¬ (pre.length + 8 ≥ (pre ++ (0xfe : UInt8) :: (ofLE 8 n ++ x :: rest)).length) := by
          simp; omega
        rw [if_neg hl2]
        have hs : pre ++ (0xfe : UInt8) :: (ofLE 8 n ++ x :: rest) = (pre ++ [0xfe]) ++ (ofLE 8 n ++ x :: rest) := by simp
        rw [hs, readLE_at (pre ++ [0xfe]) (x :: rest) (pre.length + 1) 8 n (by simp)]
        have : n % 256 ^ 8 = n := Nat.mod_eq_of_lt (by simp only [Nat.reducePow] at hn ⊢; omega)
        simp [this]

/-! ### per-type metadata -/

/-- the writer's byte layout for a type code, read off `W.mdBytes` -/
def mdKind (t : Nat) : Nat :=
  if t = 4 ∨ t = 5 ∨ t = 17 ∨ t = 18 ∨ t = 19 ∨ t = 245 ∨ t = 249 ∨ t = 250 ∨ t = 251 ∨ t = 252 ∨ t = 255 then 1
  else if t = 246 ∨ t = 247 ∨ t = 248 ∨ t = 254 then 2
  else if t = 15 ∨ t = 16 ∨ t = 253 then 3
  else 0

theorem mdBytes_kind (c : W.ColDef) :
    W.mdBytes c = if mdKind c.typ = 1 then ofLE 1 c.md else if mdKind c.typ = 2 then ofBE 2 c.md
      else if mdKind c.typ = 3 then ofLE 2 c.md else [] := by
  unfold W.mdBytes mdKind
  dsimp only
  by_cases h1 : (c.typ = 4 ∨ c.typ = 5 ∨ c.typ = 17 ∨ c.typ = 18 ∨ c.typ = 19 ∨ c.typ = 245 ∨ c.typ = 249 ∨
      c.typ = 250 ∨ c.typ = 251 ∨ c.typ = 252 ∨ c.typ = 255)
  · simp only [h1, if_true]
  · by_cases h2 : (c.typ = 246 ∨ c.typ = 247 ∨ c.typ = 248 ∨ c.typ = 254)
    · simp only [h1, h2, if_true, if_false, Nat.reduceEqDiff]
    · by_cases h3 : (c.typ = 15 ∨ c.typ = 16 ∨ c.typ = 253)
      · simp only [h1, h2, h3, if_true, if_false, Nat.reduceEqDiff]
      · simp only [h1, h2, h3, if_false, Nat.reduceEqDiff]

/-- the extracted class table and the (independent) writer agree on every type code -/
theorem class_kind : ∀ t, t < 256 →
    lookup Facts.metadataClass t = none ∨ lookup Facts.metadataClass t = some (mdKind t) := by
  decide +kernel

/-- same as `GV.Props.C15.colOK` -/
def colOK (c : W.ColDef) : Bool :=
  decide (c.typ < 256) &&
  match lookup Facts.metadataClass c.typ with
  | some 0 => c.md == 0
  | some 1 => decide (c.md < 256)
  | some 2 => decide (c.md < 65536)
  | some 3 => decide (c.md < 65536)
  | _ => false

theorem colOK_typ (c : W.ColDef) (hc : colOK c = true) : c.typ < 256 := by
  unfold colOK at hc
  simp only [Bool.and_eq_true, decide_eq_true_eq] at hc
  exact hc.1

theorem mdBytes_length_le (c : W.ColDef) : (W.mdBytes c).length ≤ 2 := by
  rw [mdBytes_kind]
  split
  · simp
  · split
    · simp
    · split <;> simp

theorem metadata_read (pre rest : Bytes) (c : W.ColDef) (hc : colOK c = true) :
    metadataRead (pre ++ (W.mdBytes c ++ rest)) pre.length c.typ
      = .ok (c.md, pre.length + (W.mdBytes c).length) := by
  have hlt := colOK_typ c hc
  unfold colOK at hc
  simp only [Bool.and_eq_true, decide_eq_true_eq] at hc
  have hc2 := hc.2
  rcases class_kind c.typ hlt with hk | hk
  · rw [hk] at hc2; simp at hc2
  · rw [mdBytes_kind]
    unfold metadataRead
    rw [hk] at hc2 ⊢
    generalize mdKind c.typ = k at hc2 ⊢
    match k, hc2 with
    | 0, h =>
      have : c.md = 0 := by simpa using h
      simp [this]
    | 1, h =>
      have h : c.md < 256 := by simpa using h
      simp only [Nat.reduceEqDiff, if_true, ofLE, List.cons_append, List.nil_append]
      rw [get_mid]
      simp [Nat.mod_eq_of_lt h]
    | 2, h =>
      have h : c.md < 65536 := by simpa using h
      simp only [Nat.reduceEqDiff, if_true, if_false, ofBE, ofLE, List.reverse_cons, List.reverse_nil,
        List.nil_append, List.cons_append]
      rw [get_mid]
      have hs : pre ++ UInt8.ofNat (c.md / 256 % 256) :: UInt8.ofNat (c.md % 256) :: rest
          = (pre ++ [UInt8.ofNat (c.md / 256 % 256)]) ++ UInt8.ofNat (c.md % 256) :: rest := by simp
      rw [hs, get_at (pre ++ [UInt8.ofNat (c.md / 256 % 256)]) _ rest (pre.length + 1) (by simp)]
      simp only [Res.ok_bind, Res.pure_eq, toNat_ofNat_mod, u16, List.length_cons, List.length_nil]
      congr 2
      omega
    | 3, h =>
      have h : c.md < 65536 := by simpa using h
      simp only [Nat.reduceEqDiff, if_true, if_false, ofLE, List.cons_append, List.nil_append]
      rw [get_mid]
      have hs : pre ++ UInt8.ofNat (c.md % 256) :: UInt8.ofNat (c.md / 256 % 256) :: rest
          = (pre ++ [UInt8.ofNat (c.md % 256)]) ++ UInt8.ofNat (c.md / 256 % 256) :: rest := by simp
      rw [hs, get_at (pre ++ [UInt8.ofNat (c.md % 256)]) _ rest (pre.length + 1) (by simp)]
      simp only [Res.ok_bind, Res.pure_eq, toNat_ofNat_mod, u16, List.length_cons, List.length_nil]
      congr 2
      omega
    | k + 4, h => simp at h

/-! ### bitmaps -/

def bitsVal (bs : List Bool) : Nat := bs.foldr (fun b acc => acc * 2 + (if b then 1 else 0)) 0

theorem byteOf_eq (bs : List Bool) : W.bitmapBytes.byteOf bs = bitsVal (bs.take 8) := rfl

theorem bitsVal_cons (b : Bool) (bs : List Bool) : bitsVal (b :: bs) = bitsVal bs * 2 + (if b then 1 else 0) := rfl

theorem bitsVal_lt (bs : List Bool) : bitsVal bs < 2 ^ bs.length := by
  induction bs with
  | nil => simp [bitsVal]
  | cons b t ih =>
    rw [bitsVal_cons, List.length_cons, Nat.pow_succ]
    cases b <;> simp <;> omega

theorem bitsVal_bit (bs : List Bool) (k : Nat) (hk : k < bs.length) :
    (bitsVal bs / 2 ^ k % 2 == 1) = bs[k] := by
  induction bs generalizing k with
  | nil => simp at hk
  | cons b t ih =>
    rw [bitsVal_cons]
    cases k with
    | zero => cases b <;> simp <;> omega
    | succ k =>
      have hk' : k < t.length := by simpa using hk
      have : (bitsVal t * 2 + (if b then 1 else 0)) / 2 ^ (k + 1) = bitsVal t / 2 ^ k := by
        rw [Nat.pow_succ', ← Nat.div_div_eq_div_mul]
        congr 1
        cases b <;> simp <;> omega
      rw [this, ih k hk']
      simp

theorem go_length (bits : List Bool) (n : Nat) : (W.bitmapBytes.go bits n).length = n := by
  induction n generalizing bits with
  | zero => rfl
  | succ n ih => simp [W.bitmapBytes.go, ih]

theorem bitmapBytes_length (bits : List Bool) : (W.bitmapBytes bits).length = (bits.length + 7) / 8 := by
  unfold W.bitmapBytes; exact go_length _ _

theorem go_get (bits : List Bool) (n j : Nat) (hj : j < n) :
    (W.bitmapBytes.go bits n)[j]? = some (UInt8.ofNat (W.bitmapBytes.byteOf (bits.drop (8 * j)))) := by
  induction n generalizing bits j with
  | zero => omega
  | succ n ih =>
    cases j with
    | zero => simp [W.bitmapBytes.go]
    | succ j =>
      simp only [W.bitmapBytes.go, List.getElem?_cons_succ]
      rw [ih (bits.drop 8) j (by omega), List.drop_drop]
      have : 8 + 8 * j = 8 * (j + 1) := by omega
      rw [this]

theorem bitmap_bit (bits : List Bool) (i : Nat) (hi : i < bits.length) :
    Bitmap.bit ⟨W.bitmapBytes bits, bits.length⟩ i = .ok bits[i] := by
  unfold Bitmap.bit W.bitmapBytes
  simp only [Bytes.get]
  rw [go_get bits _ (i / 8) (by omega)]
  simp only [Res.ok_bind, Res.pure_eq, byteOf_eq]
  have hlen : ((bits.drop (8 * (i / 8))).take 8).length ≤ 8 := by simp; omega
  have hlt := bitsVal_lt ((bits.drop (8 * (i / 8))).take 8)
  have h256 : bitsVal ((bits.drop (8 * (i / 8))).take 8) < 256 :=
    Nat.lt_of_lt_of_le hlt (Nat.pow_le_pow_right (by omega) hlen)
  rw [toNat_ofNat_lt _ h256]
  have hk : i % 8 < ((bits.drop (8 * (i / 8))).take 8).length := by simp; omega
  rw [bitsVal_bit _ _ hk]
  simp only [List.getElem_take, List.getElem_drop]
  congr 2
  omega

/-! ### the table cache -/

theorem findTable_cons (p : Nat × TableCache) (ts : List (Nat × TableCache)) (j : Nat) :
    findTable (p :: ts) j = if p.1 == j then some p.2 else findTable ts j := by
  unfold findTable
  rw [List.find?_cons]
  cases h : (p.1 == j) <;> simp

theorem findTable_update_same (ts : List (Nat × TableCache)) (id : Nat) (tc old : TableCache)
    (h : findTable ts id = some old) :
    findTable (ts.map fun p => if p.1 == id then (p.1, tc) else p) id = some tc := by
  induction ts with
  | nil => simp [findTable] at h
  | cons p ts ih =>
    rw [findTable_cons] at h
    rw [List.map_cons, findTable_cons]
    cases hp : (p.1 == id)
    · rw [hp] at h
      simp only [Bool.false_eq_true, if_false] at h ⊢
      rw [hp]
      simp only [Bool.false_eq_true, if_false]
      exact ih h
    · simp [hp]

theorem findTable_update_other (ts : List (Nat × TableCache)) (id : Nat) (tc : TableCache) (j : Nat) (hj : j ≠ id) :
    findTable (ts.map fun p => if p.1 == id then (p.1, tc) else p) j = findTable ts j := by
  induction ts with
  | nil => rfl
  | cons p ts ih =>
    rw [List.map_cons, findTable_cons, findTable_cons, ih]
    cases hp : (p.1 == id)
    · simp
    · have h1 : p.1 = id := by simpa using hp
      have h2 : ¬ (p.1 = j) := by omega
      simp [h2]

theorem findTable_append_same (ts : List (Nat × TableCache)) (id : Nat) (tc : TableCache)
    (h : findTable ts id = none) : findTable (ts ++ [(id, tc)]) id = some tc := by
  induction ts with
  | nil => simp [findTable]
  | cons p ts ih =>
    rw [findTable_cons] at h
    rw [List.cons_append, findTable_cons]
    cases hp : (p.1 == id)
    · rw [hp] at h
      simp only [Bool.false_eq_true, if_false] at h ⊢
      exact ih h
    · rw [hp] at h; simp at h

theorem findTable_append_other (ts : List (Nat × TableCache)) (id : Nat) (tc : TableCache) (j : Nat) (hj : j ≠ id) :
    findTable (ts ++ [(id, tc)]) j = findTable ts j := by
  induction ts with
  | nil =>
    have : ¬ (id = j) := by omega
    simp [findTable, this]
  | cons p ts ih =>
    rw [List.cons_append, findTable_cons, findTable_cons, ih]

/-! ### the column loop -/

theorem readMetadata_cols (pre rest : Bytes) (cols : List W.ColDef) (hcols : ∀ c ∈ cols, colOK c = true) :
    readMetadata (pre ++ (cols.flatMap W.mdBytes ++ rest)) (cols.map (fun c => UInt8.ofNat c.typ)) pre.length
      = .ok (cols.map (·.md), pre.length + (cols.flatMap W.mdBytes).length) := by
  induction cols generalizing pre with
  | nil => simp [readMetadata]
  | cons c cs ih =>
    have hc := hcols c (by simp)
    have hcs : ∀ c ∈ cs, colOK c = true := fun d hd => hcols d (by simp [hd])
    simp only [List.flatMap_cons, List.map_cons, List.append_assoc, readMetadata]
    rw [toNat_ofNat_lt _ (colOK_typ c hc), metadata_read pre _ c hc]
    simp only [Res.ok_bind]
    have hs : pre ++ (W.mdBytes c ++ (cs.flatMap W.mdBytes ++ rest))
        = (pre ++ W.mdBytes c) ++ (cs.flatMap W.mdBytes ++ rest) := by simp
    have hl : pre.length + (W.mdBytes c).length = (pre ++ W.mdBytes c).length := by simp
    rw [hs, hl, ih (pre ++ W.mdBytes c) hcs]
    simp [Nat.add_assoc]

theorem flatMap_mdBytes_length_le (cols : List W.ColDef) : (cols.flatMap W.mdBytes).length ≤ 2 * cols.length := by
  induction cols with
  | nil => simp
  | cons c cs ih =>
    have := mdBytes_length_le c
    simp only [List.flatMap_cons, List.length_append, List.length_cons]
    omega

/-! ### walking through a TABLE_MAP body -/

theorem get_at' (a : Bytes) (x : UInt8) (c : Bytes) (pos : Nat) (hp : pos = a.length) :
    Bytes.get (a ++ ([x] ++ c)) pos = .ok x := get_at a x c pos hp

theorem lenenc_read' (pre rest : Bytes) (n pos : Nat) (hn : n < 2 ^ 64) (hr : rest ≠ []) (hp : pos = pre.length) :
    readLenEncInt (pre ++ (W.lenenc n ++ rest)) pos = .ok (some (n, pos + (W.lenenc n).length)) := by
  subst hp
  cases rest with
  | nil => exact absurd rfl hr
  | cons x r => exact lenenc_read pre r n x hn

theorem tableMap_general (f : Format) (hf : f.headerLength = 19) (hdr : Bytes) (hh : hdr.length = 19)
    (idw id flags : Nat) (hidw : idw = 4 ∨ idw = 6)
    (hhs : f.headerSize Facts.eTableMapEvent = .ok (if idw = 4 then 6 else 8))
    (hfl : flags < 65536) (db tbl : Bytes) (hdb : db.length < 256) (htbl : tbl.length < 256)
    (cols : List W.ColDef) (hne : cols ≠ []) (hcols : ∀ c ∈ cols, colOK c = true) (hn : cols.length < 2 ^ 31)
    (optional : Bytes) :
    tableMap f (hdr ++ W.tableMapBody idw id flags db tbl cols optional)
      = if (cols.flatMap W.mdBytes).length > maxInt32 then .err else
        .ok { flags := flags, database := db, name := tbl, types := cols.map (fun c => UInt8.ofNat c.typ),
              canBeNull := ⟨W.bitmapBytes (cols.map (·.nullable)), cols.length⟩, metadata := cols.map (·.md) } := by
  have hD : W.tableMapBody idw id flags db tbl cols optional
      = ofLE idw id ++ (ofLE 2 flags ++ ([UInt8.ofNat db.length] ++ (db ++ ([0] ++ ([UInt8.ofNat tbl.length] ++ (tbl ++
          ([0] ++ (W.lenenc cols.length ++ (cols.map (fun c => UInt8.ofNat c.typ) ++
          (W.lenenc (cols.flatMap W.mdBytes).length ++ (cols.flatMap W.mdBytes ++
          (W.bitmapBytes (cols.map (·.nullable)) ++ optional)))))))))))) := by
    simp [W.tableMapBody]
  generalize W.tableMapBody idw id flags db tbl cols optional = data at hD ⊢
  generalize hT : cols.map (fun c => UInt8.ofNat c.typ) = T at hD ⊢
  generalize hM : cols.flatMap W.mdBytes = M at hD ⊢
  generalize hB : W.bitmapBytes (cols.map (·.nullable)) = B at hD ⊢
  have hTl : T.length = cols.length := by rw [← hT]; simp
  have hBl : B.length = (cols.length + 7) / 8 := by rw [← hB, bitmapBytes_length]; simp
  have hcl : 0 < cols.length := List.length_pos_iff.mpr hne
  have hMl : M.length ≤ 2 * cols.length := by rw [← hM]; exact flatMap_mdBytes_length_le cols
  have hn' : cols.length < 2147483648 := by simpa using hn
  have hM64 : M.length < 2 ^ 64 := by simp only [Nat.reducePow]; omega
  have hp0 : (if (if idw = 4 then 6 else 8) = 6 then 4 else 6) = idw := by
    rcases hidw with rfl | rfl <;> rfl
  have hdl : (UInt8.ofNat db.length).toNat = db.length := toNat_ofNat_lt _ hdb
  have htl : (UInt8.ofNat tbl.length).toNat = tbl.length := toNat_ofNat_lt _ htbl
  have h0 : Bytes.sliceFrom (hdr ++ data) f.headerLength = .ok data := sliceFrom_app _ _ _ (by omega)
  have h1 : readLE data idw 2 = .ok flags := by
    rw [hD, readLE_at _ _ idw 2 flags (by simp)]
    congr 1; exact Nat.mod_eq_of_lt (by simp only [Nat.reducePow]; omega)
  have h2 : data.get (idw + 2) = .ok (UInt8.ofNat db.length) := by
    rw [hD, ← List.append_assoc]
    exact get_at' _ _ _ _ (by simp <;> omega)
  have h3 : data.slice (idw + 2 + 1) (idw + 2 + 1 + db.length) = .ok db := by
    rw [hD]; iterate 2 rw [← List.append_assoc]
    exact slice_mid' _ _ _ _ _ (by simp <;> omega) (by simp <;> omega)
  have h4 : data.get (idw + 2 + 1 + db.length + 1) = .ok (UInt8.ofNat tbl.length) := by
    rw [hD]; iterate 4 rw [← List.append_assoc]
    exact get_at' _ _ _ _ (by simp <;> omega)
  have h5 : data.slice (idw + 2 + 1 + db.length + 1 + 1) (idw + 2 + 1 + db.length + 1 + 1 + tbl.length) = .ok tbl := by
    rw [hD]; iterate 5 rw [← List.append_assoc]
    exact slice_mid' _ _ _ _ _ (by simp <;> omega) (by simp <;> omega)
  have hTne : T ++ (W.lenenc M.length ++ (M ++ (B ++ optional))) ≠ [] := by
    intro h; have := congrArg List.length h; simp only [List.length_append, List.length_nil] at this; omega
  have h6 : readLenEncInt data (idw + 2 + 1 + db.length + 1 + 1 + tbl.length + 1)
      = .ok (some (cols.length, idw + 2 + 1 + db.length + 1 + 1 + tbl.length + 1 + (W.lenenc cols.length).length)) := by
    rw [hD]; iterate 7 rw [← List.append_assoc]
    exact lenenc_read' _ _ _ _ (Nat.lt_trans hn (by decide)) hTne (by simp <;> omega)
  generalize hP1 : idw + 2 + 1 + db.length + 1 + 1 + tbl.length + 1 + (W.lenenc cols.length).length = P1 at h6
  have h7 : data.slice P1 (P1 + cols.length) = .ok T := by
    rw [hD]; iterate 8 rw [← List.append_assoc]
    exact slice_mid' _ _ _ _ _ (by simp; omega) (by simp; omega)
  have hBne : M ++ (B ++ optional) ≠ [] := by
    intro h; have := congrArg List.length h; simp only [List.length_append, List.length_nil] at this; omega
  have h8 : readLenEncInt data (P1 + cols.length)
      = .ok (some (M.length, P1 + cols.length + (W.lenenc M.length).length)) := by
    rw [hD]; iterate 9 rw [← List.append_assoc]
    exact lenenc_read' _ _ _ _ hM64 hBne (by simp; omega)
  generalize hP2 : P1 + cols.length + (W.lenenc M.length).length = P2 at h8
  have h9 : readMetadata data T P2 = .ok (cols.map (·.md), P2 + M.length) := by
    have := readMetadata_cols
      (ofLE idw id ++ ofLE 2 flags ++ [UInt8.ofNat db.length] ++ db ++ [0] ++ [UInt8.ofNat tbl.length] ++ tbl ++
        [0] ++ W.lenenc cols.length ++ T ++ W.lenenc M.length) (B ++ optional) cols hcols
    rw [hT, hM] at this
    have hl : (ofLE idw id ++ ofLE 2 flags ++ [UInt8.ofNat db.length] ++ db ++ [0] ++ [UInt8.ofNat tbl.length] ++ tbl ++
        [0] ++ W.lenenc cols.length ++ T ++ W.lenenc M.length).length = P2 := by simp; omega
    rw [hl] at this
    rw [hD]; iterate 10 rw [← List.append_assoc]
    exact this
  have h10 : newBitmap data (P2 + M.length) cols.length = .ok (⟨B, cols.length⟩, P2 + M.length + (cols.length + 7) / 8) := by
    unfold newBitmap
    have : data.slice (P2 + M.length) (P2 + M.length + (cols.length + 7) / 8) = .ok B := by
      rw [hD]; iterate 11 rw [← List.append_assoc]
      exact slice_mid' _ _ _ _ _ (by simp; omega) (by simp; omega)
    simp only [this, Res.ok_bind, Res.pure_eq]
  have hg1 : ¬ (cols.length > maxInt32) := by unfold maxInt32; omega
  unfold tableMap
  simp only [h0, hhs, hp0, h1, h2, hdl, h3, h4, htl, h5, h6, h7, h8, h9, h10, hg1, Res.ok_bind, Res.pure_eq, if_false,
    bne_self_eq_false, Bool.false_eq_true]

/-- with the bound the second `maxInt32` guard needs -/
theorem tableMap_ok (f : Format) (hf : f.headerLength = 19) (hdr : Bytes) (hh : hdr.length = 19)
    (idw id flags : Nat) (hidw : idw = 4 ∨ idw = 6)
    (hhs : f.headerSize Facts.eTableMapEvent = .ok (if idw = 4 then 6 else 8))
    (hfl : flags < 65536) (db tbl : Bytes) (hdb : db.length < 256) (htbl : tbl.length < 256)
    (cols : List W.ColDef) (hne : cols ≠ []) (hcols : ∀ c ∈ cols, colOK c = true) (hn : cols.length < 2 ^ 31)
    (hmd : (cols.flatMap W.mdBytes).length < 2 ^ 31) (optional : Bytes) :
    tableMap f (hdr ++ W.tableMapBody idw id flags db tbl cols optional)
      = .ok { flags := flags, database := db, name := tbl, types := cols.map (fun c => UInt8.ofNat c.typ),
              canBeNull := ⟨W.bitmapBytes (cols.map (·.nullable)), cols.length⟩, metadata := cols.map (·.md) } := by
  rw [tableMap_general f hf hdr hh idw id flags hidw hhs hfl db tbl hdb htbl cols hne hcols hn optional]
  have : ¬ ((cols.flatMap W.mdBytes).length > maxInt32) := by
    unfold maxInt32; simp only [Nat.reducePow] at hmd; omega
  rw [if_neg this]

/-- ... and beyond it the decoder rejects the event (the Go code's `int32` sanity check on the metadata length) -/
theorem tableMap_rejects (f : Format) (hf : f.headerLength = 19) (hdr : Bytes) (hh : hdr.length = 19)
    (idw id flags : Nat) (hidw : idw = 4 ∨ idw = 6)
    (hhs : f.headerSize Facts.eTableMapEvent = .ok (if idw = 4 then 6 else 8))
    (hfl : flags < 65536) (db tbl : Bytes) (hdb : db.length < 256) (htbl : tbl.length < 256)
    (cols : List W.ColDef) (hne : cols ≠ []) (hcols : ∀ c ∈ cols, colOK c = true) (hn : cols.length < 2 ^ 31)
    (hmd : 2 ^ 31 ≤ (cols.flatMap W.mdBytes).length) (optional : Bytes) :
    tableMap f (hdr ++ W.tableMapBody idw id flags db tbl cols optional) = .err := by
  rw [tableMap_general f hf hdr hh idw id flags hidw hhs hfl db tbl hdb htbl cols hne hcols hn optional]
  have : (cols.flatMap W.mdBytes).length > maxInt32 := by
    unfold maxInt32; simp only [Nat.reducePow] at hmd; omega
  rw [if_pos this]

/-! ### the table id -/

theorem tableID_read (f : Format) (hf : f.headerLength = 19) (hdr : Bytes) (hh : hdr.length = 19) (typ : UInt8)
    (h4 : hdr[4]? = some typ) (idw id : Nat) (hidw : idw = 4 ∨ idw = 6)
    (hhs : f.headerSize typ.toNat = .ok (if idw = 4 then 6 else 8)) (hid : id < 256 ^ idw) (rest : Bytes) :
    tableID f (hdr ++ (ofLE idw id ++ rest)) = .ok id := by
  have ht : evType (hdr ++ (ofLE idw id ++ rest)) = .ok typ.toNat := by
    unfold evType Bytes.get
    rw [List.getElem?_append_left (by omega), h4]
    rfl
  unfold tableID
  rw [ht]
  simp only [Res.ok_bind, hhs, hf]
  rcases hidw with rfl | rfl
  · simp only [if_true]
    rw [readLE_at hdr rest 19 4 id hh.symm, Nat.mod_eq_of_lt hid]
  · have hg : ∀ k, k < 6 → Bytes.get (hdr ++ (ofLE 6 id ++ rest)) (19 + k) = .ok ((ofLE 6 id)[k]?.getD 0) := by
      intro k hk
      unfold Bytes.get
      rw [List.getElem?_append_right (by omega), hh, Nat.add_sub_cancel_left,
        List.getElem?_append_left (by simp; omega)]
      have : k < (ofLE 6 id).length := by simp; omega
      simp [List.getElem?_eq_getElem this]
    have h0 := hg 0 (by omega)
    have h1 := hg 1 (by omega)
    have h2 := hg 2 (by omega)
    have h3 := hg 3 (by omega)
    have h4 := hg 4 (by omega)
    have h5 := hg 5 (by omega)
    simp only [Nat.add_zero, Nat.reduceAdd] at h0 h1 h2 h3 h4 h5
    simp only [Nat.reduceEqDiff, if_false, Nat.reduceAdd, h0, h1, h2, h3, h4, h5, Res.ok_bind, Res.pure_eq]
    have : [(ofLE 6 id)[0]?.getD 0, (ofLE 6 id)[1]?.getD 0, (ofLE 6 id)[2]?.getD 0, (ofLE 6 id)[3]?.getD 0,
        (ofLE 6 id)[4]?.getD 0, (ofLE 6 id)[5]?.getD 0] = ofLE 6 id := by simp [ofLE]
    rw [this, le_ofLE, Nat.mod_eq_of_lt hid]

theorem flatMap_replicate_length {α β} (f : α → List β) (n : Nat) (a : α) :
    ((List.replicate n a).flatMap f).length = n * (f a).length := by
  induction n with
  | zero => simp
  | succ n ih => simp [List.replicate_succ, ih, Nat.succ_mul, Nat.add_comm]

end C15
end GV
