import GV.Props.C03b
import GV.Driver.Hist
/-
  Definitions and helper lemmas for GV/Props/C03c.lean: the two dimensions the test driver (GV/Driver/Hist.lean) adds
  OUTSIDE the Spec — relocation of every offset beyond a file's head FORMAT_DESCRIPTION event (`bias=N`, binlog files
  larger than 2 GiB) and an empty / foreign start file name.

  MODEL level (no Spec involved):
    Agree / RelocRel      two packets that differ in bytes 13..16 (next_position) only; every decoder `classify` calls
                          reads the packet at offsets < 13 (timestamp, type, length) or ≥ headerLength ≥ 17, except
                          `evNextPosition` — so `classify` commutes with the relocation (`classify_reloc`, through
                          `classifyTail`, the part of `classify` behind the checksum strip, `classify_eq : … := rfl`)
    stepD_reloc           the state machine copies next_position into the labels and the kept position and does nothing
                          else with it; a decoded ROTATE puts its body's offset there, which relocation must fix
    stepEvent_reloc, parse_reloc, parse_reloc_stream    the run, any handler / cut / quiet ending
    stepD_ren, parse_ren  the start file name is only ever copied into labels until a ROTATE replaces it
    Safe env RotP st bs   along the parser's run over bs every ROTATE it decodes satisfies RotP (the side condition of
                          both simulations: offset ≤ fnext, resp. name ≠ g)
  SPEC level:
    gsafe_rules / gsafe_units / safe_serve   `Safe` for every dump the Spec master serves, by the generic walk of
                          GV/Lemmas/C04b.lean (`Rules`, `units_run`)
    layoutAux_shape, typOK_units, fitP_layoutAux, rotateTo_target   what the laid-out events look like
    relocation_lands, start_name_lands       the two results against the Spec master
-/
namespace GV
namespace C03c
open Bytes M GV.Props.C01 GV.Props.C01b GV.C01c GV.C01d GV.C04b
open GV.D (relocOff relocPacket relocFirst)

/-- two packets that differ at most in bytes 13..16 (the header's next_position field) -/
structure Agree (b b' : Bytes) : Prop where
  len : b'.length = b.length
  pre : b'.take 13 = b.take 13
  post : b'.drop 17 = b.drop 17

theorem agree_getElem? {b b' : Bytes} (h : Agree b b') (i : Nat) (hi : i < 13 ∨ 17 ≤ i) : b'[i]? = b[i]? := by
  rcases hi with hi | hi
  · have h1 : (b'.take 13)[i]? = b'[i]? := List.getElem?_take_of_lt hi
    have h2 : (b.take 13)[i]? = b[i]? := List.getElem?_take_of_lt hi
    rw [← h1, ← h2, h.pre]
  · have h1 : (b'.drop 17)[i - 17]? = b'[i]? := by rw [List.getElem?_drop]; congr 1; omega
    have h2 : (b.drop 17)[i - 17]? = b[i]? := by rw [List.getElem?_drop]; congr 1; omega
    rw [← h1, ← h2, h.post]

theorem agree_get {b b' : Bytes} (h : Agree b b') (i : Nat) (hi : i < 13 ∨ 17 ≤ i) : Bytes.get b' i = Bytes.get b i := by
  unfold Bytes.get; rw [agree_getElem? h i hi]

theorem agree_drop {b b' : Bytes} (h : Agree b b') (k : Nat) (hk : 17 ≤ k) : b'.drop k = b.drop k := by
  have h1 : b'.drop k = (b'.drop 17).drop (k - 17) := by rw [List.drop_drop]; congr 1; omega
  have h2 : b.drop k = (b.drop 17).drop (k - 17) := by rw [List.drop_drop]; congr 1; omega
  rw [h1, h2, h.post]

theorem agree_take_le {b b' : Bytes} (h : Agree b b') (k : Nat) (hk : k ≤ 13) : b'.take k = b.take k := by
  have h1 : b'.take k = (b'.take 13).take k := by rw [List.take_take]; congr 1; omega
  have h2 : b.take k = (b.take 13).take k := by rw [List.take_take]; congr 1; omega
  rw [h1, h2, h.pre]

theorem agree_sliceFrom {b b' : Bytes} (h : Agree b b') (k : Nat) (hk : 17 ≤ k) :
    Bytes.sliceFrom b' k = Bytes.sliceFrom b k := by
  unfold Bytes.sliceFrom; rw [h.len, agree_drop h k hk]

theorem agree_slice {b b' : Bytes} (h : Agree b b') (lo hi : Nat) (hk : hi ≤ 13 ∨ 17 ≤ lo) :
    Bytes.slice b' lo hi = Bytes.slice b lo hi := by
  unfold Bytes.slice
  rw [h.len]
  split
  · rename_i hc
    congr 1
    rcases hk with hk | hk
    · have e1 : ∀ c : Bytes, (c.drop lo).take (hi - lo) = ((c.take 13).drop lo).take (hi - lo) := by
        intro c; rw [List.drop_take, List.take_take]; congr 1; omega
      rw [e1 b', e1 b, h.pre]
    · rw [agree_drop h lo hk]
  · rfl

theorem agree_readLE {b b' : Bytes} (h : Agree b b') (pos w : Nat) (hk : pos + w ≤ 13 ∨ 17 ≤ pos) :
    readLE b' pos w = readLE b pos w := by
  unfold readLE; rw [agree_slice h pos (pos + w) hk]

theorem agree_take {b b' : Bytes} (h : Agree b b') (m : Nat) : Agree (b.take m) (b'.take m) := by
  refine ⟨by simp [h.len], ?_, ?_⟩
  · rw [List.take_take, List.take_take]
    exact agree_take_le h _ (Nat.min_le_left ..)
  · rw [List.drop_take, List.drop_take, h.post]

theorem head_evType {b b' : Bytes} (hp : b'.take 13 = b.take 13) : evType b' = evType b := by
  unfold evType Bytes.get
  have h1 : (b'.take 13)[4]? = b'[4]? := List.getElem?_take_of_lt (by decide)
  have h2 : (b.take 13)[4]? = b[4]? := List.getElem?_take_of_lt (by decide)
  rw [← h1, ← h2, hp]

theorem head_isValid {b b' : Bytes} (hl : b'.length = b.length) (hp : b'.take 13 = b.take 13) : isValid b' = isValid b := by
  have e1 : ∀ c : Bytes, (c.drop 9).take (9 + 4 - 9) = ((c.take 13).drop 9).take (9 + 4 - 9) := by
    intro c; rw [List.drop_take, List.take_take]; rfl
  unfold isValid evLength readLE Bytes.slice
  rw [hl, e1 b', e1 b, hp]

theorem agree_evType {b b' : Bytes} (h : Agree b b') : evType b' = evType b := head_evType h.pre

theorem agree_evTimestamp {b b' : Bytes} (h : Agree b b') : evTimestamp b' = evTimestamp b := by
  unfold evTimestamp Bytes.sliceTo; rw [h.len, agree_take_le h 4 (by decide)]

theorem agree_isValid {b b' : Bytes} (h : Agree b b') : isValid b' = isValid b := head_isValid h.len h.pre

theorem agree_format {b b' : Bytes} (h : Agree b b') : format b' = format b := by
  unfold format; rw [agree_sliceFrom h 19 (by decide)]

theorem agree_strip {b b' : Bytes} (h : Agree b b') (f : Format) :
    (stripChecksum56 f b' = stripChecksum56 f b ∧ ∀ ev, stripChecksum56 f b ≠ .ok ev) ∨
    ∃ m, stripChecksum56 f b = .ok (b.take m) ∧ stripChecksum56 f b' = .ok (b'.take m) := by
  unfold stripChecksum56
  rw [h.len]
  by_cases h1 : f.checksumAlg = 0 ∨ f.checksumAlg = 255
  · right; refine ⟨b.length, ?_, ?_⟩
    · simp [h1]
    · rw [← h.len]; simp [h1]
  · by_cases h2 : f.checksumAlg = 1
    · by_cases h3 : b.length < 4
      · left; simp [h2, h3]
      · right; exact ⟨b.length - 4, by simp [h2, h3], by simp [h2, h3]⟩
    · left; simp [h1, h2]

theorem agree_rotate {b b' : Bytes} (h : Agree b b') (f : Format) (hf : 17 ≤ f.headerLength) : rotate f b' = rotate f b := by
  unfold rotate; rw [agree_sliceFrom h _ hf]

theorem agree_query {b b' : Bytes} (h : Agree b b') (f : Format) (hf : 17 ≤ f.headerLength) : query f b' = query f b := by
  unfold query; rw [agree_sliceFrom h _ hf]

theorem agree_tableMap {b b' : Bytes} (h : Agree b b') (f : Format) (hf : 17 ≤ f.headerLength) :
    tableMap f b' = tableMap f b := by
  unfold tableMap; rw [agree_sliceFrom h _ hf]

theorem agree_rows {b b' : Bytes} (h : Agree b b') (f : Format) (hf : 17 ≤ f.headerLength) (tm : TableMap) :
    rows f tm b' = rows f tm b := by
  unfold rows; rw [agree_sliceFrom h _ hf, agree_evType h]

theorem agree_tableID {b b' : Bytes} (h : Agree b b') (f : Format) (hf : 17 ≤ f.headerLength) :
    tableID f b' = tableID f b := by
  unfold tableID
  simp only [agree_evType h, agree_readLE h _ 4 (Or.inr hf), agree_get h _ (Or.inr hf),
    agree_get h (f.headerLength + 1) (Or.inr (by omega)),
    agree_get h (f.headerLength + 2) (Or.inr (by omega)), agree_get h (f.headerLength + 3) (Or.inr (by omega)),
    agree_get h (f.headerLength + 4) (Or.inr (by omega)), agree_get h (f.headerLength + 5) (Or.inr (by omega))]


/-! ### `classify` split at the checksum strip -/

/-- everything `classify` does with the stripped event (the same term as in GV/Model/Streamer.lean) -/
def classifyTail (env : Env) (st : PState) (ev : Bytes) : Decoded :=
  ofRes (evType ev) fun typ =>
  let withNT (k : Nat → Nat → Decoded) : Decoded :=
    ofRes (evNextPosition ev) fun next => ofRes (evTimestamp ev) fun ts => k next ts
  if typ = Facts.eXIDEvent then withNT fun next ts => .xid next ts
  else if typ = Facts.eRotateEvent then ofRes (rotate st.format ev) fun (n, o) => .rotate n o
  else if typ = Facts.eQueryEvent then
    ofRes (query st.format ev) fun q => withNT fun next ts => .stmt (statementCategory q.sql) q next ts
  else if typ = Facts.eTableMapEvent then
    ofRes (tableID st.format ev) fun id =>
    ofRes (tableMap st.format ev) fun tm =>
    let fresh : Decoded :=
      match env.mapper tm.database tm.name with
      | none => .decodeErr
      | some info =>
        if info.columns.length != tm.canBeNull.count then .decodeErr
        else .tableMap id ⟨tm, info⟩ false
    match findTable st.tables id with
    | some tc =>
      if tc.tableMap.database = tm.database ∧ tc.tableMap.name = tm.name then
        .tableMap id { tc with tableMap := tm } true
      else fresh
    | none => fresh
  else if typ = Facts.eWriteRowsEventV1 ∨ typ = Facts.eWriteRowsEventV2 ∨ typ = Facts.eUpdateRowsEventV1 ∨
          typ = Facts.eUpdateRowsEventV2 ∨ typ = Facts.eDeleteRowsEventV1 ∨ typ = Facts.eDeleteRowsEventV2 then
    let kind : RowKind :=
      if typ = Facts.eWriteRowsEventV1 ∨ typ = Facts.eWriteRowsEventV2 then .write
      else if typ = Facts.eUpdateRowsEventV1 ∨ typ = Facts.eUpdateRowsEventV2 then .update else .delete
    ofRes (tableID st.format ev) fun id =>
    match findTable st.tables id with
    | none => .decodeErr
    | some tc =>
      ofRes (rows st.format tc.tableMap ev) fun rs =>
      withNT fun next ts =>
      ofRes (rowsOf env.ext tc rs kind rs.rows) fun (vals, ids) =>
        .rows { typ := kindStmt kind, table := (tc.info.db, tc.info.table), query := none, timestamp := ts,
                rowValues := vals, rowIdentifies := ids } next ts
  else if typ = Facts.ePreviousGTIDsEvent ∨ typ = Facts.eGTIDEvent then .skip
  else if typ = Facts.eRandEvent ∨ typ = Facts.eIntVarEvent ∨ typ = Facts.eRowsQueryEvent then .decodeErr
  else .skip

theorem classify_eq (env : Env) (st : PState) (ev0 : Bytes) :
    classify env st ev0 =
      if !isValid ev0 then .invalid else
      ofRes (evType ev0) fun typ0 =>
      if typ0 = Facts.eFormatDescriptionEvent then ofRes (format ev0) .format
      else if st.format.isZero then (if typ0 = Facts.eRotateEvent then .skip else .decodeErr)
      else ofRes (stripChecksum56 st.format ev0) (classifyTail env st) := rfl


/-! ### relocation of decoded events -/

def relocD (fnext N : Nat) : Decoded → Decoded
  | .xid next ts => .xid (relocOff fnext N next) ts
  | .stmt cat q next ts => .stmt cat q (relocOff fnext N next) ts
  | .rows se next ts => .rows se (relocOff fnext N next) ts
  | d => d

def mapOk (g : Nat → Nat) : Res Nat → Res Nat
  | .ok n => .ok (g n)
  | r => r

/-- `ev'` is `ev` with its next_position field relocated -/
structure RelocRel (fnext N : Nat) (ev ev' : Bytes) : Prop where
  agree : Agree ev ev'
  next : evNextPosition ev' = mapOk (relocOff fnext N) (evNextPosition ev)

theorem relocD_ofRes (fnext N : Nat) {α} (r : Res α) (k : α → Decoded) :
    relocD fnext N (ofRes r k) = ofRes r (fun a => relocD fnext N (k a)) := by cases r <;> rfl

theorem ofRes_mapOk (g : Nat → Nat) (r : Res Nat) (k : Nat → Decoded) :
    ofRes (mapOk g r) k = ofRes r (fun n => k (g n)) := by cases r <;> rfl

theorem tail_reloc (fnext N : Nat) (env : Env) (st : PState) (ev ev' : Bytes) (h : RelocRel fnext N ev ev')
    (hf : 17 ≤ st.format.headerLength) :
    classifyTail env st ev' = relocD fnext N (classifyTail env st ev) := by
  have hA := h.agree
  unfold classifyTail
  simp only [agree_evType hA, agree_evTimestamp hA, agree_rotate hA _ hf, agree_query hA _ hf, agree_tableMap hA _ hf,
    agree_rows hA _ hf, agree_tableID hA _ hf, h.next, relocD_ofRes, ofRes_mapOk, apply_ite (relocD fnext N)]
  congr 1; funext typ
  by_cases h1 : typ = Facts.eXIDEvent
  · simp only [if_pos h1, relocD]
  by_cases h2 : typ = Facts.eRotateEvent
  · simp only [if_neg h1, if_pos h2, relocD]
  by_cases h3 : typ = Facts.eQueryEvent
  · simp only [if_neg h1, if_neg h2, if_pos h3, relocD]
  by_cases h4 : typ = Facts.eTableMapEvent
  · simp only [if_neg h1, if_neg h2, if_neg h3, if_pos h4]
    congr 1; funext id; congr 1; funext tm
    have hfresh : ∀ fresh : Decoded,
        (fresh = match env.mapper tm.database tm.name with
          | none => Decoded.decodeErr
          | some info =>
            if info.columns.length != tm.canBeNull.count then Decoded.decodeErr
            else Decoded.tableMap id ⟨tm, info⟩ false) → relocD fnext N fresh = fresh := by
      intro fresh hfr
      subst hfr
      cases env.mapper tm.database tm.name with
      | none => rfl
      | some info => simp only []; split <;> rfl
    cases findTable st.tables id with
    | some tc =>
      simp only []
      split
      · rfl
      · exact (hfresh _ rfl).symm
    | none => exact (hfresh _ rfl).symm
  simp only [if_neg h1, if_neg h2, if_neg h3, if_neg h4]
  split
  · congr 1; funext id
    cases findTable st.tables id with
    | none => rfl
    | some tc => simp only [relocD_ofRes]; rfl
  · split
    · rfl
    · split <;> rfl


/-! ### `.format` comes from the FORMAT_DESCRIPTION decoder only, with a header length ≥ 19 -/

def isFormat : Decoded → Bool
  | .format _ => true
  | _ => false

theorem isFormat_ofRes {α} (r : Res α) (k : α → Decoded) (h : ∀ a, isFormat (k a) = false) :
    isFormat (ofRes r k) = false := by cases r <;> first | exact h _ | rfl

theorem tail_not_format (env : Env) (st : PState) (ev : Bytes) : isFormat (classifyTail env st ev) = false := by
  unfold classifyTail
  repeat' (first | rfl | (apply isFormat_ofRes; intro _) | split)

theorem format_hl (b : Bytes) (f : Format) (h : format b = .ok f) : 19 ≤ f.headerLength := by
  unfold format at h
  simp only [Res.bind_eq_ok] at h
  obtain ⟨a, _, v, _, h⟩ := h
  split at h
  · cases h
  · simp only [Res.bind_eq_ok] at h
    obtain ⟨sv, _, hl, _, h⟩ := h
    split at h
    · cases h
    · split at h
      · cases h
      · simp only [Res.bind_eq_ok] at h
        obtain ⟨ca, _, hs, _, h⟩ := h
        cases h
        show 19 ≤ hl.toNat
        omega


theorem classify_format (env : Env) (st : PState) (b : Bytes) (f : Format) (h : classify env st b = .format f) :
    19 ≤ f.headerLength := by
  rw [classify_eq] at h
  split at h
  · cases h
  · cases ht : evType b with
    | ok typ0 =>
      rw [ht] at h
      simp only [ofRes] at h
      split at h
      · cases hf : format b with
        | ok f' => rw [hf] at h; simp only at h; cases h; exact format_hl b _ hf
        | err => rw [hf] at h; cases h
        | panic => rw [hf] at h; cases h
        | diverge => rw [hf] at h; cases h
      · split at h
        · split at h <;> cases h
        · cases hs : stripChecksum56 st.format b with
          | ok ev =>
            rw [hs] at h; simp only at h
            have := tail_not_format env st ev
            rw [h] at this; cases this
          | err => rw [hs] at h; cases h
          | panic => rw [hs] at h; cases h
          | diverge => rw [hs] at h; cases h
    | err => rw [ht] at h; cases h
    | panic => rw [ht] at h; cases h
    | diverge => rw [ht] at h; cases h


/-! ### what `relocPacket` does to a packet -/

/-- the relocated next_position still fits the 4-byte field -/
def FitP (fnext N : Nat) (b : Bytes) : Prop := 19 ≤ b.length → relocOff fnext N (le ((b.drop 13).take 4)) < 2 ^ 32

theorem agree_refl (b : Bytes) : Agree b b := ⟨rfl, rfl, rfl⟩

theorem evNext_of_len (b : Bytes) (h : 17 ≤ b.length) : evNextPosition b = .ok (le ((b.drop 13).take 4)) := by
  unfold evNextPosition readLE Bytes.slice
  rw [if_pos ⟨by omega, h⟩]; rfl

theorem evNext_short (b : Bytes) (h : b.length < 17) : evNextPosition b = .panic := by
  unfold evNextPosition readLE Bytes.slice
  rw [if_neg (by omega)]; rfl

theorem relocOff_zero (fnext N : Nat) : relocOff fnext N 0 = 0 := by simp [relocOff]

theorem relocPacket_rel (fnext N : Nat) (b : Bytes) (hl : 19 ≤ b.length) (hfit : FitP fnext N b) :
    RelocRel fnext N b (relocPacket fnext N b) := by
  have hn := evNext_of_len b (by omega)
  unfold relocPacket
  rw [if_neg (by omega)]
  simp only
  split
  · rename_i h0
    have h0' : le ((b.drop 13).take 4) = 0 := by simpa using h0
    refine ⟨agree_refl b, ?_⟩
    rw [hn, h0']; simp [mapOk, relocOff_zero]
  · have hr := hfit hl
    have h13 : (b.take 13).length = 13 := by rw [List.length_take]; omega
    refine ⟨⟨?_, ?_, ?_⟩, ?_⟩
    · simp only [List.length_append, List.length_take, List.length_drop, ofLE_length]; omega
    · rw [List.append_assoc, List.take_append_of_le_length (by omega), List.take_take]; simp
    · rw [List.append_assoc, List.drop_append, h13]
      have : List.drop 17 (List.take 13 b) = [] := by simp; omega
      rw [this, List.nil_append, List.drop_append]
      simp [ofLE_length]
    · rw [hn]
      simp only [mapOk]
      unfold evNextPosition
      have := readLE_mid (b.take 13) (b.drop 17) 4 (relocOff fnext N (le ((b.drop 13).take 4)))
      rw [h13, Nat.mod_eq_of_lt (by simpa using hr)] at this
      rw [List.append_assoc]; exact this


theorem relocRel_take (fnext N : Nat) {ev ev' : Bytes} (h : RelocRel fnext N ev ev') (m : Nat) :
    RelocRel fnext N (ev.take m) (ev'.take m) := by
  refine ⟨agree_take h.agree m, ?_⟩
  have hlen := h.agree.len
  by_cases hm : 17 ≤ m
  · by_cases hl : 17 ≤ ev.length
    · have e1 : ∀ c : Bytes, ((c.take m).drop 13).take 4 = (c.drop 13).take 4 := by
        intro c; rw [List.drop_take, List.take_take]; congr 1; omega
      have hn := h.next
      rw [evNext_of_len ev hl, evNext_of_len ev' (by omega)] at hn
      rw [evNext_of_len (ev.take m) (by rw [List.length_take]; omega),
        evNext_of_len (ev'.take m) (by rw [List.length_take]; omega), e1, e1]
      exact hn
    · rw [evNext_short (ev.take m) (by rw [List.length_take]; omega),
        evNext_short (ev'.take m) (by rw [List.length_take]; omega)]; rfl
  · rw [evNext_short (ev.take m) (by rw [List.length_take]; omega),
      evNext_short (ev'.take m) (by rw [List.length_take]; omega)]; rfl

/-- the format the parser holds is the zero value or has a header length that leaves the common header alone -/
def FmtOK (st : PState) : Prop := st.format.isZero = true ∨ 17 ≤ st.format.headerLength

/-- `classify` commutes with the relocation of next_position -/
theorem classify_reloc (fnext N : Nat) (env : Env) (st : PState) (b b' : Bytes) (hf : FmtOK st)
    (h : RelocRel fnext N b b') : classify env st b' = relocD fnext N (classify env st b) := by
  have hA := h.agree
  rw [classify_eq, classify_eq, agree_isValid hA, agree_evType hA, agree_format hA]
  split
  · rfl
  · rw [relocD_ofRes]
    congr 1; funext typ0
    split
    · rw [relocD_ofRes]; rfl
    · split
      · split <;> rfl
      · rename_i hz
        have hh : 17 ≤ st.format.headerLength := by
          rcases hf with hf | hf
          · exact absurd hf hz
          · exact hf
        rcases agree_strip hA st.format with ⟨h1, h2⟩ | ⟨m, h1, h2⟩
        · rw [h1]
          cases hs : stripChecksum56 st.format b with
          | ok ev => exact absurd hs (h2 ev)
          | err => rfl
          | panic => rfl
          | diverge => rfl
        · rw [h1, h2]
          exact tail_reloc fnext N env st _ _ (relocRel_take fnext N h m) hh


/-! ### the state machine under relocation -/

def relocI (fnext N : Nat) (o : Int) : Int := if o ≤ (fnext : Int) then o else o + (N : Int)
def relocPosn (fnext N : Nat) (p : Position) : Position := ⟨p.file, relocI fnext N p.offset⟩
def relocSt (fnext N : Nat) (st : PState) : PState := { st with pos := relocPosn fnext N st.pos }
def relocTx (fnext N : Nat) (t : Transaction) : Transaction :=
  { t with now := relocPosn fnext N t.now, next := relocPosn fnext N t.next }
def relocOutcome (fnext N : Nat) (o : Outcome) : Outcome :=
  ⟨o.calls.map (relocTx fnext N), o.accepted.map (relocTx fnext N), relocPosn fnext N o.pos, o.err, o.crash⟩
def relocStep (fnext N : Nat) : Step → Step
  | .cont s => .cont (relocSt fnext N s)
  | .deliver tx acc => .deliver (relocTx fnext N tx) (relocSt fnext N acc)
  | .stop e c => .stop e c

theorem relocI_cast (fnext N n : Nat) : relocI fnext N (n : Int) = ((relocOff fnext N n : Nat) : Int) := by
  unfold relocI relocOff
  by_cases h : n ≤ fnext
  · rw [if_pos (by omega), if_pos h]
  · rw [if_neg (by omega), if_neg h]; omega

theorem commit_reloc (fnext N : Nat) (st : PState) (evs : Option (List StreamEvent)) (next ts : Nat) :
    commitStep (relocSt fnext N st) evs (relocOff fnext N next) ts = relocStep fnext N (commitStep st evs next ts) := by
  simp [commitStep, relocStep, relocSt, relocTx, relocPosn, relocI_cast]

theorem stepD_reloc (fnext N : Nat) (st : PState) (d : Decoded) (hrot : ∀ f o, d = .rotate f o → o ≤ (fnext : Int)) :
    stepD (relocSt fnext N st) (relocD fnext N d) = relocStep fnext N (stepD st d) := by
  have ha : (relocSt fnext N st).autocommit = st.autocommit := rfl
  have ht : (relocSt fnext N st).tran = st.tran := rfl
  cases d with
  | xid next ts => exact commit_reloc fnext N st _ next ts
  | rotate f o =>
    have := hrot f o rfl
    simp [stepD, relocD, relocStep, relocSt, relocPosn, relocI, this]
  | stmt cat q next ts =>
    simp only [stepD, relocD, ha, ht]
    split
    · rfl
    · split
      · split
        · exact commit_reloc fnext N _ _ next ts
        · rfl
      · split
        · exact commit_reloc fnext N st _ next ts
        · split
          · exact commit_reloc fnext N st _ next ts
          · rfl
  | rows se next ts =>
    simp only [stepD, relocD, ha, ht]
    split
    · exact commit_reloc fnext N _ _ next ts
    · rfl
  | tableMap id tc known =>
    have htab : (relocSt fnext N st).tables = st.tables := rfl
    simp only [stepD, relocD, htab]
    split
    · rfl
    · split <;> rfl
  | _ => rfl


/-- the parser's step commutes with relocation -/
theorem stepEvent_reloc (fnext N : Nat) (env : Env) (st : PState) (b : Bytes) (hf : FmtOK st) (hfit : FitP fnext N b)
    (hrot : ∀ f o, classify env st b = .rotate f o → o ≤ (fnext : Int)) :
    stepEvent env (relocSt fnext N st) (relocPacket fnext N b) = relocStep fnext N (stepEvent env st b) := by
  unfold stepEvent
  by_cases hl : 19 ≤ b.length
  · have hc : classify env (relocSt fnext N st) (relocPacket fnext N b) = relocD fnext N (classify env st b) :=
      classify_reloc fnext N env st b _ hf (relocPacket_rel fnext N b hl hfit)
    rw [hc]
    exact stepD_reloc fnext N st _ hrot
  · have hb : relocPacket fnext N b = b := by unfold relocPacket; rw [if_pos (by omega)]
    have hv : isValid b = false := by unfold isValid; rw [if_pos (by omega)]
    have hc : ∀ s : PState, classify env s b = .invalid := by intro s; rw [classify_eq, hv]; rfl
    rw [hb, hc, hc]; rfl

theorem stepD_fmt (st : PState) (d : Decoded) (hd : isFormat d = false) :
    (∀ st', stepD st d = .cont st' → st'.format = st.format) ∧
    (∀ tx acc, stepD st d = .deliver tx acc → acc.format = st.format) := by
  cases d <;> first | cases hd | skip
  all_goals
    refine ⟨?_, ?_⟩
    · intro st' h
      simp only [stepD, commitStep] at h
      repeat' split at h
      all_goals first | (cases h; rfl) | cases h
    · intro tx acc h
      simp only [stepD, commitStep] at h
      repeat' split at h
      all_goals first | (cases h; rfl) | cases h

theorem fmtOK_step (env : Env) (st : PState) (b : Bytes) (hf : FmtOK st) :
    (∀ st', stepEvent env st b = .cont st' → FmtOK st') ∧
    (∀ tx acc, stepEvent env st b = .deliver tx acc → FmtOK acc) := by
  unfold stepEvent
  cases hd : isFormat (classify env st b) with
  | true =>
    cases hc : classify env st b with
    | format f =>
      have := classify_format env st b f hc
      refine ⟨?_, ?_⟩
      · intro st' h; simp only [stepD] at h; cases h; exact Or.inr (by show 17 ≤ f.headerLength; omega)
      · intro tx acc h; simp only [stepD] at h; cases h
    | _ => rw [hc] at hd; cases hd
  | false =>
    obtain ⟨h1, h2⟩ := stepD_fmt st _ hd
    unfold FmtOK at hf ⊢
    exact ⟨fun st' h => by rw [h1 st' h]; exact hf, fun tx acc h => by rw [h2 tx acc h]; exact hf⟩

/-! ### the run under relocation -/

/-- along the run of the parser (handler accepting) every ROTATE it decodes satisfies `RotP` -/
def Safe (env : Env) (RotP : Bytes → Int → Prop) : PState → List Bytes → Prop
  | _, [] => True
  | st, b :: bs => (∀ f o, classify env st b = .rotate f o → RotP f o) ∧
      match stepEvent env st b with
      | .cont st' => Safe env RotP st' bs
      | .deliver _ acc => Safe env RotP acc bs
      | .stop _ _ => True

theorem safe_take (env : Env) (RotP : Bytes → Int → Prop) : ∀ (bs : List Bytes) (st : PState) (k : Nat),
    Safe env RotP st bs → Safe env RotP st (bs.take k)
  | [], _, _, _ => by simp [Safe]
  | b :: bs, st, 0, _ => by simp [Safe]
  | b :: bs, st, k + 1, h => by
    obtain ⟨h1, h2⟩ := h
    refine ⟨h1, ?_⟩
    cases hs : stepEvent env st b with
    | cont st' => rw [hs] at h2; exact safe_take env RotP bs st' k h2
    | deliver tx acc => rw [hs] at h2; exact safe_take env RotP bs acc k h2
    | stop e c => trivial

/-- MODEL level: the parser fed relocated packets from the relocated state does what it does on the original packets,
    with every label and the final position relocated; the handler sees relocated transactions -/
theorem parse_reloc (fnext N : Nat) (env : Env) (acc : Transaction → Bool) (e : Bool) (tail : List Input)
    (ht : EndsWith env e tail) : ∀ (bs : List Bytes) (st : PState), FmtOK st →
    Safe env (fun _ o => o ≤ (fnext : Int)) st bs → (∀ b ∈ bs, FitP fnext N b) →
    parseEvents env acc (relocSt fnext N st) (bs.map (fun b => Input.event (relocPacket fnext N b)) ++ tail)
      = relocOutcome fnext N (parseEvents env (acc ∘ relocTx fnext N) st (bs.map Input.event ++ tail))
  | [], st, _, _, _ => by
    simp only [List.map_nil, List.nil_append]
    rw [ht, ht]; rfl
  | b :: bs, st, hf, hs, hfit => by
    obtain ⟨h1, h2⟩ := hs
    have hstep := stepEvent_reloc fnext N env st b hf (hfit b List.mem_cons_self) h1
    obtain ⟨f1, f2⟩ := fmtOK_step env st b hf
    have hfit' : ∀ x ∈ bs, FitP fnext N x := fun x hx => hfit x (List.mem_cons_of_mem _ hx)
    simp only [List.map_cons, List.cons_append, parseEvents, hstep]
    cases hst : stepEvent env st b with
    | cont st' =>
      rw [hst] at h2
      simp only [relocStep]
      exact parse_reloc fnext N env acc e tail ht bs st' (f1 st' hst) h2 hfit'
    | stop e' c => rfl
    | deliver tx a =>
      rw [hst] at h2
      simp only [relocStep, Function.comp]
      by_cases hacc : acc (relocTx fnext N tx) = true
      · rw [if_pos hacc, if_pos hacc, parse_reloc fnext N env acc e tail ht bs a (f2 tx a hst) h2 hfit']
        rfl
      · rw [if_neg hacc, if_neg hacc]; rfl


/-- the first packet of a dump goes through `relocFirst` (its body holds the requested offset), the others through
    `relocPacket` — what the driver's `bias=N` does to a served stream -/
def relocStream (fnext N : Nat) : List Bytes → List Bytes
  | [] => []
  | f :: rest => relocFirst fnext N f :: rest.map (relocPacket fnext N)

/-- a parser without a format looks at validity and type only: `relocFirst` is invisible to it -/
theorem relocFirst_zero (fnext N : Nat) (env : Env) (st : PState) (hz : st.format.isZero = true) (b : Bytes) :
    classify env st (relocFirst fnext N b) = classify env st b := by
  unfold relocFirst
  split
  · rfl
  · rename_i hc
    simp only [Bool.or_eq_true, decide_eq_true_eq, bne_iff_ne, ne_eq, not_or, Nat.not_lt, Decidable.not_not] at hc
    obtain ⟨hl, h4⟩ := hc
    have h19 : (b.take 19).length = 19 := by rw [List.length_take]; omega
    have hlen : (b.take 19 ++ ofLE 8 (relocOff fnext N (le ((b.drop 19).take 8))) ++ b.drop 27).length = b.length := by
      simp only [List.length_append, List.length_take, List.length_drop, ofLE_length]; omega
    have hpre : (b.take 19 ++ ofLE 8 (relocOff fnext N (le ((b.drop 19).take 8))) ++ b.drop 27).take 13 = b.take 13 := by
      rw [List.append_assoc, List.take_append_of_le_length (by omega), List.take_take]; simp
    have ht : evType b = .ok Facts.eRotateEvent := by
      unfold evType Bytes.get
      have hlt : 4 < b.length := by omega
      rw [List.getElem?_eq_getElem hlt]
      have : b[4] = 4 := by simpa [List.getD_eq_getElem?_getD, List.getElem?_eq_getElem hlt] using h4
      rw [this]; rfl
    rw [classify_eq, classify_eq, head_isValid hlen hpre, head_evType hpre, ht]
    simp [ofRes, hz, Facts.eFormatDescriptionEvent, Facts.eRotateEvent]


theorem relocSt_init (fnext N : Nat) (p : W.Pos) :
    relocSt fnext N (PState.init (posOf p)) = PState.init (posOf ⟨p.file, relocOff fnext N p.offset⟩) := by
  simp [relocSt, PState.init, relocPosn, posOf, relocI_cast]

/-- MODEL level, a whole dump: first packet (skipped by a parser without format) through `relocFirst`, the others
    through `relocPacket`; any handler, any cut k, any quiet ending -/
theorem parse_reloc_stream (fnext N : Nat) (env : Env) (acc : Transaction → Bool) (e : Bool) (tail : List Input)
    (ht : EndsWith env e tail) (st : PState) (hz : st.format.isZero = true) (b0 : Bytes) (rest : List Bytes)
    (h0 : classify env st b0 = .skip) (hs : Safe env (fun _ o => o ≤ (fnext : Int)) st (b0 :: rest))
    (hfit : ∀ b ∈ rest, FitP fnext N b) (k : Nat) :
    parseEvents env acc (relocSt fnext N st) (((relocStream fnext N (b0 :: rest)).take k).map Input.event ++ tail)
      = relocOutcome fnext N
          (parseEvents env (acc ∘ relocTx fnext N) st (((b0 :: rest).take k).map Input.event ++ tail)) := by
  cases k with
  | zero =>
    simp only [List.take_zero, List.map_nil, List.nil_append]
    rw [ht, ht]; rfl
  | succ k =>
    have h0' : classify env (relocSt fnext N st) (relocFirst fnext N b0) = .skip := by
      have : classify env (relocSt fnext N st) (relocFirst fnext N b0) = classify env st (relocFirst fnext N b0) := rfl
      rw [this, relocFirst_zero fnext N env st hz]; exact h0
    have hs' : Safe env (fun _ o => o ≤ (fnext : Int)) st rest := by
      have := hs.2
      simp only [stepEvent, h0, stepD] at this
      exact this
    simp only [relocStream, List.take_succ_cons, List.map_cons, List.cons_append, parseEvents, stepEvent, h0, h0', stepD]
    rw [← List.map_take, List.map_map]
    exact parse_reloc fnext N env acc e tail ht (rest.take k) st (Or.inl hz) (safe_take _ _ _ _ _ hs')
      (fun b hb => hfit b (List.mem_of_mem_take hb))

/-! ### the state machine under a change of the start file name -/

def renPosn (g f0 : Bytes) (p : Position) : Position := if p.file = g then ⟨f0, p.offset⟩ else p
def renSt (g f0 : Bytes) (st : PState) : PState := { st with pos := renPosn g f0 st.pos }
def renTx (g f0 : Bytes) (t : Transaction) : Transaction :=
  { t with now := renPosn g f0 t.now, next := renPosn g f0 t.next }
def renOutcome (g f0 : Bytes) (o : Outcome) : Outcome :=
  ⟨o.calls.map (renTx g f0), o.accepted.map (renTx g f0), renPosn g f0 o.pos, o.err, o.crash⟩
def renStep (g f0 : Bytes) : Step → Step
  | .cont s => .cont (renSt g f0 s)
  | .deliver tx acc => .deliver (renTx g f0 tx) (renSt g f0 acc)
  | .stop e c => .stop e c

theorem commit_ren (g f0 : Bytes) (st : PState) (evs : Option (List StreamEvent)) (next ts : Nat) :
    commitStep (renSt g f0 st) evs next ts = renStep g f0 (commitStep st evs next ts) := by
  simp only [commitStep, renStep, renSt, renTx, renPosn]
  split <;> rfl

theorem stepD_ren (g f0 : Bytes) (st : PState) (d : Decoded) (hrot : ∀ f o, d = .rotate f o → f ≠ g) :
    stepD (renSt g f0 st) d = renStep g f0 (stepD st d) := by
  have ha : (renSt g f0 st).autocommit = st.autocommit := rfl
  have ht : (renSt g f0 st).tran = st.tran := rfl
  cases d with
  | xid next ts => exact commit_ren g f0 st _ next ts
  | rotate f o =>
    have := hrot f o rfl
    simp [stepD, renStep, renSt, renPosn, this]
  | stmt cat q next ts =>
    simp only [stepD, ha, ht]
    split
    · rfl
    · split
      · split
        · exact commit_ren g f0 _ _ next ts
        · rfl
      · split
        · exact commit_ren g f0 st _ next ts
        · split
          · exact commit_ren g f0 st _ next ts
          · rfl
  | rows se next ts =>
    simp only [stepD, ha, ht]
    split
    · exact commit_ren g f0 _ _ next ts
    · rfl
  | tableMap id tc known =>
    have htab : (renSt g f0 st).tables = st.tables := rfl
    simp only [stepD, htab]
    split
    · rfl
    · split <;> rfl
  | _ => rfl

/-- MODEL level: the file name the parser was started with is only ever copied into labels; as long as no ROTATE names
    `g`, a parser started at ⟨f0, o⟩ does what one started at ⟨g, o⟩ does, with `g` replaced by `f0` in every label -/
theorem parse_ren (g f0 : Bytes) (env : Env) (acc : Transaction → Bool) (e : Bool) (tail : List Input)
    (ht : EndsWith env e tail) : ∀ (bs : List Bytes) (st : PState),
    Safe env (fun f _ => f ≠ g) st bs →
    parseEvents env acc (renSt g f0 st) (bs.map Input.event ++ tail)
      = renOutcome g f0 (parseEvents env (acc ∘ renTx g f0) st (bs.map Input.event ++ tail))
  | [], st, _ => by
    simp only [List.map_nil, List.nil_append]
    rw [ht, ht]; rfl
  | b :: bs, st, hs => by
    obtain ⟨h1, h2⟩ := hs
    have hstep : stepEvent env (renSt g f0 st) b = renStep g f0 (stepEvent env st b) :=
      stepD_ren g f0 st _ h1
    simp only [List.map_cons, List.cons_append, parseEvents, hstep]
    cases hst : stepEvent env st b with
    | cont st' =>
      rw [hst] at h2
      simp only [renStep]
      exact parse_ren g f0 env acc e tail ht bs st' h2
    | stop e' c => rfl
    | deliver tx a =>
      rw [hst] at h2
      simp only [renStep, Function.comp]
      by_cases hacc : acc (renTx g f0 tx) = true
      · rw [if_pos hacc, if_pos hacc, parse_ren g f0 env acc e tail ht bs a h2]
        rfl
      · rw [if_neg hacc, if_neg hacc]; rfl


/-! ### `.rotate` comes from a type-4 packet only -/

def isRot : Decoded → Bool
  | .rotate _ _ => true
  | _ => false

theorem isRot_ofRes {α} (r : Res α) (k : α → Decoded) (h : ∀ a, isRot (k a) = false) :
    isRot (ofRes r k) = false := by cases r <;> first | exact h _ | rfl

theorem tail_rot_type (env : Env) (st : PState) (ev : Bytes) (h : evType ev ≠ .ok Facts.eRotateEvent) :
    isRot (classifyTail env st ev) = false := by
  unfold classifyTail
  cases ht : evType ev with
  | ok typ =>
    have hne : typ ≠ Facts.eRotateEvent := by intro hc; rw [ht, hc] at h; exact h rfl
    simp only [ofRes]
    by_cases h1 : typ = Facts.eXIDEvent
    · rw [if_pos h1]; repeat' (first | rfl | (apply isRot_ofRes; intro _))
    rw [if_neg h1, if_neg hne]
    repeat' (first | rfl | (apply isRot_ofRes; intro _) | split)
  | err => rfl
  | panic => rfl
  | diverge => rfl

theorem evType_take (b : Bytes) (m x : Nat) (h : evType (b.take m) = .ok x) : evType b = .ok x := by
  unfold evType Bytes.get at h ⊢
  cases hg : (b.take m)[4]? with
  | none => rw [hg] at h; cases h
  | some y =>
    have : b[4]? = some y := by
      rw [List.getElem?_take] at hg
      split at hg
      · exact hg
      · cases hg
    rw [hg] at h; rw [this]; exact h

theorem classify_rotate_type (env : Env) (st : PState) (b : Bytes) (f : Bytes) (o : Int)
    (h : classify env st b = .rotate f o) : evType b = .ok Facts.eRotateEvent := by
  rw [classify_eq] at h
  split at h
  · cases h
  · cases ht : evType b with
    | ok typ0 =>
      rw [ht] at h
      simp only [ofRes] at h
      split at h
      · cases hf : format b <;> rw [hf] at h <;> cases h
      · split at h
        · split at h <;> cases h
        · rcases agree_strip (agree_refl b) st.format with ⟨_, h2⟩ | ⟨m, h1, _⟩
          · cases hs : stripChecksum56 st.format b with
            | ok ev => exact absurd hs (h2 ev)
            | err => rw [hs] at h; cases h
            | panic => rw [hs] at h; cases h
            | diverge => rw [hs] at h; cases h
          · rw [h1] at h
            simp only at h
            by_cases hty : evType (b.take m) = .ok Facts.eRotateEvent
            · rw [← ht]; exact evType_take b m _ hty
            · have := tail_rot_type env st _ hty
              rw [h] at this; cases this
    | err => rw [ht] at h; cases h
    | panic => rw [ht] at h; cases h
    | diverge => rw [ht] at h; cases h


/-! ### `Safe` for the streams the Spec master serves, by the walk of GV/Lemmas/C04b.lean (`Rules`) -/

/-- laid-out events that are neither commit points nor rotations are not type-4 packets -/
def TypOK (l : List W.Laid) : Prop :=
  ∀ x ∈ l, (x.tag = .none ∨ x.tag = .fileHead) → evType x.bytes ≠ .ok Facts.eRotateEvent

/-- every rotation target satisfies `RotP` at offset 4 -/
def RotOK (RotP : Bytes → Int → Prop) (l : List W.Laid) : Prop := ∀ x ∈ l, ∀ f, x.tag = .rotateTo f → RotP f 4

def GSafe (env : Env) (RotP : Bytes → Int → Prop) (st : PState) (cur : W.Pos) (l : List W.Laid) : Prop :=
  st.pos = posOf cur ∧ (TypOK l → RotOK RotP l → Safe env RotP st (l.map (·.bytes)))

theorem gsafe_rules (env : Env) (RotP : Bytes → Int → Prop) : Rules env (GSafe env RotP) where
  nil := fun st cur hp => ⟨hp, fun _ _ => trivial⟩
  cont := by
    intro st st' cur x l d hp hc hs htag hg
    refine ⟨hp, fun hT hR => ⟨?_, ?_⟩⟩
    · intro f o hcl
      exact absurd (classify_rotate_type env st _ f o hcl) (hT x List.mem_cons_self htag)
    · simp only [stepEvent, hc, hs]
      exact hg.2 (fun y hy => hT y (List.mem_cons_of_mem _ hy)) (fun y hy => hR y (List.mem_cons_of_mem _ hy))
  rot := by
    intro st st' cur x l d f hp hc hs htag hg
    refine ⟨hp, fun hT hR => ⟨?_, ?_⟩⟩
    · intro n o hcl
      rw [hc] at hcl
      subst hcl
      simp only [stepD, Step.cont.injEq] at hs
      have hpos := hg.1
      rw [← hs] at hpos
      simp only [posOf, Position.mk.injEq] at hpos
      obtain ⟨h1, h2⟩ := hpos
      subst h1 h2
      exact hR x List.mem_cons_self _ htag
    · simp only [stepEvent, hc, hs]
      exact hg.2 (fun y hy => hT y (List.mem_cons_of_mem _ hy)) (fun y hy => hR y (List.mem_cons_of_mem _ hy))
  deliver := by
    intro st acc cur x l d cs hp hc hs htag hg
    refine ⟨hp, fun hT hR => ⟨?_, ?_⟩⟩
    · intro n o hcl
      rw [hc] at hcl
      subst hcl
      simp [stepD] at hs
    · simp only [stepEvent, hc, hs]
      exact hg.2 (fun y hy => hT y (List.mem_cons_of_mem _ hy)) (fun y hy => hR y (List.mem_cons_of_mem _ hy))

/-- the units laid out from offset `o` of p's file, parsed with an empty table cache (cf. `goodH_units`) -/
theorem gsafe_units (cfg : W.Cfg) (env : Env) (RotP : Bytes → Int → Prop) (us : List W.Unit) (p : W.Pos) (o : Nat)
    (hu : ∀ u ∈ us, UnitOK cfg u)
    (ht : ∀ c1 ∈ histRows us, ∀ c2 ∈ histRows us, c1.table.id = c2.table.id → c1.table = c2.table)
    (ha : annOK [] (histRows us)) (hm : MapperAgrees env us)
    (hb : Bnd (W.layoutAux cfg (us.flatMap (W.unitEvs cfg)) p.file o)) :
    GSafe env RotP { PState.init (posOf p) with format := fmtOf cfg } p
      (W.layoutAux cfg (us.flatMap (W.unitEvs cfg)) p.file o) := by
  let P : W.TableDef → Prop := fun t => ∃ c ∈ histRows us, c.table = t
  have ctx : Ctx env P := by
    refine ⟨?_, ?_⟩
    · rintro t1 t2 ⟨c1, h1, rfl⟩ ⟨c2, h2, rfl⟩ hid
      exact ht c1 h1 c2 h2 hid
    · rintro t ⟨c, hc, rfl⟩
      exact hm c hc
  have hI : Inv cfg P { PState.init (posOf p) with format := fmtOf cfg } p.file p [] := by
    refine ⟨rfl, rfl, rfl, ?_, ?_⟩
    · intro id tc hf; simp [PState.init, findTable] at hf
    · intro id hid; cases hid
  exact C04b.units_run (gsafe_rules env RotP) ctx us _ p.file o p [] hI rfl rfl hu (fun c hc => ⟨c, hc, rfl⟩) ha hb


/-! ### Spec side: what the laid-out events look like -/

/-- every laid-out event is an abstract event put at some place, the artificial ROTATE naming a rotation target, or
    the FORMAT_DESCRIPTION event at the head of a file -/
theorem layoutAux_shape (cfg : W.Cfg) : ∀ (es : List W.AEv) (f : Bytes) (o : Nat) (x : W.Laid),
    x ∈ W.layoutAux cfg es f o →
    (∃ a ∈ es, ∃ f' o', x = hereOf cfg a f' o') ∨ (∃ f' s, ∃ g ∈ tgts es, x = fakeR cfg f' s g) ∨ (∃ g, x = fdeL cfg g)
  | [], f, o, x, hx => by simp [W.layoutAux] at hx
  | e :: es, f, o, x, hx => by
    have lift : ∀ f1 o1, x ∈ W.layoutAux cfg es f1 o1 → (∀ g ∈ tgts es, g ∈ tgts (e :: es)) →
        (∃ a ∈ e :: es, ∃ f' o', x = hereOf cfg a f' o') ∨ (∃ f' s, ∃ g ∈ tgts (e :: es), x = fakeR cfg f' s g) ∨
          (∃ g, x = fdeL cfg g) := by
      intro f1 o1 h hsub
      rcases layoutAux_shape cfg es f1 o1 x h with ⟨a, ha, r⟩ | ⟨f', s, g, hg, r⟩ | r
      · exact Or.inl ⟨a, List.mem_cons_of_mem _ ha, r⟩
      · exact Or.inr (Or.inl ⟨f', s, g, hsub g hg, r⟩)
      · exact Or.inr (Or.inr r)
    cases hr : rotOf e.tag with
    | none =>
      rw [layoutAux_plain _ _ _ _ _ hr] at hx
      rcases List.mem_cons.mp hx with rfl | hx
      · exact Or.inl ⟨e, List.mem_cons_self, f, o, rfl⟩
      · exact lift _ _ hx (fun g hg => by simpa [tgts, hr] using hg)
    | some g =>
      rw [layoutAux_rot _ _ _ _ _ g hr] at hx
      simp only [List.mem_cons] at hx
      rcases hx with rfl | rfl | rfl | hx
      · exact Or.inl ⟨e, List.mem_cons_self, f, o, rfl⟩
      · exact Or.inr (Or.inl ⟨f, _, g, by simp [tgts, hr], rfl⟩)
      · exact Or.inr (Or.inr ⟨g, rfl⟩)
      · exact lift _ _ hx (fun g' hg => by simp [tgts, hr, hg])

theorem evType_bytesAt (cfg : W.Cfg) (off typ ts : Nat) (body : Bytes) :
    evType (bytesAt cfg off typ ts body) = .ok (typ % 256) := by
  unfold bytesAt W.event
  simp only [List.append_assoc]
  rw [GV.C16.hdr_typ, UInt8.toNat_ofNat']

theorem evType_fde (cfg : W.Cfg) (nx : Option Nat) : evType (W.fdeEvent cfg 4 nx).1 = .ok 15 := by
  unfold W.fdeEvent W.event
  simp only [List.append_assoc]
  rw [GV.C16.hdr_typ]; rfl

theorem mem_markStart {l : List W.AEv} {a : W.AEv} (h : a ∈ W.markStart l) :
    ∃ a' ∈ l, a.typ = a'.typ ∧ a.tag = a'.tag := by
  cases l with
  | nil => cases h
  | cons e es =>
    simp only [W.markStart, List.mem_cons] at h
    rcases h with rfl | h
    · exact ⟨e, List.mem_cons_self, rfl, rfl⟩
    · exact ⟨a, List.mem_cons_of_mem _ h, rfl, rfl⟩

theorem rowsEventType_ne (k : W.RowKind) (v2 : Bool) : W.rowsEventType k v2 % 256 ≠ 4 := by
  cases k <;> cases v2 <;> decide

theorem changeEvs_typ (cfg : W.Cfg) (c : W.Change) : ∀ a ∈ W.changeEvs cfg c, a.typ % 256 ≠ 4 := by
  intro a ha
  cases c with
  | stmt s =>
    simp only [W.changeEvs, List.mem_cons, List.not_mem_nil, or_false] at ha
    subst ha; simp [W.stmtEv]
  | rows c =>
    simp only [W.changeEvs, List.mem_append, List.mem_cons, List.not_mem_nil, or_false] at ha
    rcases ha with ha | rfl
    · split at ha
      · simp only [List.mem_cons, List.not_mem_nil, or_false] at ha
        subst ha; simp [W.tableMapEv]
      · cases ha
    · exact rowsEventType_ne _ _

/-- the abstract events of a well-formed unit: those that do not rotate are not of type 4 -/
theorem unitEvs_typ (cfg : W.Cfg) (u : W.Unit) (hu : UnitOK cfg u) :
    ∀ a ∈ W.unitEvs cfg u, (∀ f, a.tag ≠ .rotateTo f) → a.typ % 256 ≠ 4 := by
  intro a ha hnr
  cases u with
  | tx b cs close ts =>
    simp only [W.unitEvs] at ha
    obtain ⟨a', ha', ht, _⟩ := mem_markStart ha
    rw [ht]
    simp only [List.mem_append, List.mem_cons, List.not_mem_nil, or_false, List.mem_flatMap] at ha'
    rcases ha' with (rfl | ⟨c, _, hc⟩) | rfl
    · simp [W.stmtEv]
    · exact changeEvs_typ cfg c a' hc
    · cases close <;> simp [W.stmtEv]
  | ddl s =>
    simp only [W.unitEvs, W.markStart, List.mem_cons, List.not_mem_nil, or_false] at ha
    subst ha; simp [W.stmtEv]
  | stmtDML s =>
    simp only [W.unitEvs, W.markStart, List.mem_cons, List.not_mem_nil, or_false] at ha
    subst ha; simp [W.stmtEv]
  | unknownStmt s =>
    simp only [W.unitEvs, W.markStart, List.mem_cons, List.not_mem_nil, or_false] at ha
    subst ha; simp [W.stmtEv]
  | autoRows c =>
    simp only [W.unitEvs] at ha
    obtain ⟨a', ha', ht, _⟩ := mem_markStart ha
    rw [ht]
    simp only [List.mem_append, List.mem_cons, List.not_mem_nil, or_false] at ha'
    rcases ha' with ha' | rfl
    · split at ha'
      · simp only [List.mem_cons, List.not_mem_nil, or_false] at ha'
        subst ha'; simp [W.tableMapEv]
      · cases ha'
    · exact rowsEventType_ne _ _
  | rotate f =>
    simp only [W.unitEvs, W.markStart, List.mem_cons, List.not_mem_nil, or_false] at ha
    subst ha; exact absurd rfl (hnr f)
  | restart f =>
    simp only [W.unitEvs, W.markStart, List.mem_cons, List.not_mem_nil, or_false] at ha
    subst ha; show _ % 256 ≠ 4; simp
  | gtid sid gno =>
    simp only [W.unitEvs, W.markStart, List.mem_cons, List.not_mem_nil, or_false] at ha
    subst ha; show _ % 256 ≠ 4; simp
  | anonGtid =>
    simp only [W.unitEvs, W.markStart, List.mem_cons, List.not_mem_nil, or_false] at ha
    subst ha; show _ % 256 ≠ 4; simp
  | prevGtids blk =>
    simp only [W.unitEvs, W.markStart, List.mem_cons, List.not_mem_nil, or_false] at ha
    subst ha; show _ % 256 ≠ 4; simp
  | heartbeat =>
    simp only [W.unitEvs, W.markStart, List.mem_cons, List.not_mem_nil, or_false] at ha
    subst ha; show _ % 256 ≠ 4; simp
  | unknownEvent t body =>
    simp only [W.unitEvs, W.markStart, List.mem_cons, List.not_mem_nil, or_false] at ha
    subst ha
    obtain ⟨hlt, hty⟩ := hu
    show t % 256 ≠ 4
    rw [Nat.mod_eq_of_lt hlt]
    intro h4; subst h4; exact hty (by decide)

theorem laidTag_plain {t : W.Tag} (h : laidTag t = .none ∨ laidTag t = .fileHead) : ∀ f, t ≠ .rotateTo f := by
  intro f hf; subst hf; simp [laidTag] at h

/-- … so the laid-out events of well-formed units satisfy `TypOK` -/
theorem typOK_units (cfg : W.Cfg) (us : List W.Unit) (hu : ∀ u ∈ us, UnitOK cfg u) (f : Bytes) (o : Nat) :
    TypOK (W.layoutAux cfg (us.flatMap (W.unitEvs cfg)) f o) := by
  intro x hx htag
  rcases layoutAux_shape cfg _ f o x hx with ⟨a, ha, f', o', rfl⟩ | ⟨f', s, g, _, rfl⟩ | ⟨g, rfl⟩
  · obtain ⟨u, hu', hau⟩ := List.mem_flatMap.mp ha
    have := unitEvs_typ cfg u (hu u hu') a hau (laidTag_plain htag)
    show evType (bytesAt cfg o' a.typ a.ts a.body) ≠ _
    rw [evType_bytesAt]
    intro h; exact this (Res.ok.inj h)
  · simp [fakeR] at htag
  · show evType (W.fdeEvent cfg 4 none).1 ≠ _
    rw [evType_fde]; decide

/-! ### Spec side: the next_position field of the packets served -/

theorem relocOff_ge (fnext N n : Nat) : n ≤ relocOff fnext N n := by
  unfold relocOff; split <;> omega

theorem next_field (b : Bytes) (n : Nat) (h : evNextPosition b = .ok n) : le ((b.drop 13).take 4) = n := by
  by_cases hl : 17 ≤ b.length
  · rw [evNext_of_len b hl] at h; exact Res.ok.inj h
  · rw [evNext_short b (by omega)] at h; cases h

theorem fitP_event (fnext N : Nat) (crc : Option Bytes) (m : W.EvMeta) (typ start : Nat) (body : Bytes) (nx : Option Nat)
    (h : relocOff fnext N (nx.getD (W.event crc m typ start body nx).2) < 2 ^ 32) :
    FitP fnext N (W.event crc m typ start body nx).1 := by
  intro _
  have hx := Nat.lt_of_le_of_lt (relocOff_ge fnext N _) h
  have hn : evNextPosition (W.event crc m typ start body nx).1
      = .ok (nx.getD (W.event crc m typ start body nx).2 % 256 ^ 4) := by
    unfold W.event
    simp only [List.append_assoc]
    exact GV.C16.hdr_next ..
  rw [next_field _ _ hn, Nat.mod_eq_of_lt (by simpa using hx)]
  exact h

theorem fitP_fde (fnext N : Nat) (cfg : W.Cfg) (nx : Option Nat)
    (h : relocOff fnext N (nx.getD (W.fdeEvent cfg 4 nx).2) < 2 ^ 32) : FitP fnext N (W.fdeEvent cfg 4 nx).1 := by
  unfold W.fdeEvent at h ⊢
  exact fitP_event _ _ _ _ _ _ _ _ h

/-- every packet of a laid-out list whose (relocated) end offsets fit keeps a next_position that fits -/
theorem fitP_layoutAux (fnext N : Nat) (cfg : W.Cfg) (es : List W.AEv) (f : Bytes) (o : Nat)
    (hfit : ∀ x ∈ W.layoutAux cfg es f o, relocOff fnext N x.next < 2 ^ 32) :
    ∀ x ∈ W.layoutAux cfg es f o, FitP fnext N x.bytes := by
  intro x hx
  have hxn := hfit x hx
  rcases layoutAux_shape cfg _ f o x hx with ⟨a, _, f', o', rfl⟩ | ⟨f', s, g, _, rfl⟩ | ⟨g, rfl⟩
  · apply fitP_event
    simp only [Option.getD_none, event_snd]
    exact hxn
  · apply fitP_event
    simp [relocOff_zero]
  · exact fitP_fde fnext N cfg none hxn

/-! ### the stream served for a position where the master lands -/

/-- a dump is the artificial ROTATE, a FORMAT_DESCRIPTION event (artificial, or the one at the head of the file), then
    the layout of the units from p on -/
theorem serve_split (cfg : W.Cfg) (env : Env) (h : W.History) (p : W.Pos) (hl : Lands cfg h p) (hwf : WFFrom cfg h p)
    (hm : MapperAgrees env (unitsFrom cfg h p)) :
    ∃ (nx : Option Nat) (us : List W.Unit) (o : Nat),
      W.serve cfg h p = fakeRotBytes cfg 0 p.offset p.file :: (W.fdeEvent cfg 4 nx).1
        :: (W.layoutAux cfg (us.flatMap (W.unitEvs cfg)) p.file o).map (·.bytes) ∧
      (nx = some 0 ∨ (nx = none ∧ fdeL cfg p.file ∈ served cfg h p)) ∧
      (∀ x ∈ W.layoutAux cfg (us.flatMap (W.unitEvs cfg)) p.file o, x ∈ served cfg h p) ∧
      (∀ u ∈ us, UnitOK cfg u) ∧
      (∀ c1 ∈ histRows us, ∀ c2 ∈ histRows us, c1.table.id = c2.table.id → c1.table = c2.table) ∧
      annOK [] (histRows us) ∧ MapperAgrees env us := by
  obtain ⟨hlen, hu, htb, ha, hoff⟩ := hwf
  rcases served_shape cfg h p hl with hnil | ⟨us₁, us₂, hsplit, hus, hcase⟩
  · refine ⟨some 0, [], 0, ?_, Or.inl rfl, ?_, ?_, ?_, trivial, ?_⟩
    · exact serve_nil cfg h p hnil
    · intro x hx; simp [W.layoutAux] at hx
    · intro u hu'; cases hu'
    · intro c1 h1; simp [histRows] at h1
    · intro c hc; simp [histRows] at hc
  · rw [hus] at hu htb ha hm
    rcases hcase with ⟨x, rest, o, hfp, hnf, hlay⟩ | hlay
    · refine ⟨some 0, us₂, o, ?_, Or.inl rfl, ?_, hu, htb, ha, hm⟩
      · rw [serve_unit cfg h p x rest hfp hnf, ← hfp]
        show _ :: _ :: (served cfg h p).map _ = _
        rw [hlay]
      · intro y hy; rw [hlay]; exact hy
    · refine ⟨none, us₂, FN cfg, ?_, Or.inr ⟨rfl, by rw [hlay]; exact List.mem_cons_self⟩, ?_, hu, htb, ha, hm⟩
      · exact serve_fileHead cfg h p _ _ hlay rfl
      · intro y hy; rw [hlay]; exact List.mem_cons_of_mem _ hy

/-- along the parser's run over a dump every ROTATE it decodes satisfies `RotP`, provided every rotation target served
    does (at offset 4) -/
theorem safe_serve (cfg : W.Cfg) (env : Env) (h : W.History) (p : W.Pos) (hl : Lands cfg h p) (hwf : WFFrom cfg h p)
    (hm : MapperAgrees env (unitsFrom cfg h p)) (RotP : Bytes → Int → Prop)
    (hR : RotOK RotP (served cfg h p)) :
    Safe env RotP (PState.init (posOf p)) (W.serve cfg h p) := by
  obtain ⟨nx, us, o, hs, hnx, hsub, hu, htb, ha, hmu⟩ := serve_split cfg env h p hl hwf hm
  have hfake := cl_fakeRot_first env (PState.init (posOf p)) cfg rfl 0 p.offset p.file hwf.fileLen
  have hfde : classify env (PState.init (posOf p)) (W.fdeEvent cfg 4 nx).1 = .format (fmtOf cfg) := by
    rcases hnx with rfl | ⟨rfl, _⟩
    · exact C01_classify_fde env (PState.init (posOf p)) cfg 4 (some 0) (by decide) (by intro n hn; cases hn; decide)
    · exact C01_classify_fde env (PState.init (posOf p)) cfg 4 none (by decide) (by simp)
  have hb : Bnd (W.layoutAux cfg (us.flatMap (W.unitEvs cfg)) p.file o) := fun x hx => hwf.offsets x (hsub x hx)
  have hg := gsafe_units cfg env RotP us p o hu htb ha hmu hb
  rw [hs]
  refine ⟨?_, ?_⟩
  · intro f o' hc; rw [hfake] at hc; cases hc
  · simp only [stepEvent, hfake, stepD]
    refine ⟨?_, ?_⟩
    · intro f o' hc; rw [hfde] at hc; cases hc
    · simp only [stepEvent, hfde, stepD]
      exact hg.2 (typOK_units cfg us hu _ _) (fun x hx => hR x (hsub x hx))

/-! ### goal 1: relocation against the Spec master -/

/-- every relocated end offset of what is served from p still fits the 4-byte next_position field -/
def RelocFits (cfg : W.Cfg) (h : W.History) (p : W.Pos) (N : Nat) : Prop :=
  ∀ e ∈ served cfg h p, relocOff (FN cfg) N e.next < 2 ^ 32

theorem relocFits_of_layout (cfg : W.Cfg) (h : W.History) (p : W.Pos) (N : Nat)
    (hfit : ∀ e ∈ W.layout cfg h, relocOff (W.fdeEvent cfg 4 none).2 N e.next < 2 ^ 32) : RelocFits cfg h p N := by
  intro e he
  obtain ⟨pre, hpre⟩ := served_suffix cfg h p
  exact hfit e (by rw [hpre]; exact List.mem_append_right _ he)

theorem relocation_lands (cfg : W.Cfg) (env : Env) (h : W.History) (p : W.Pos) (hl : Lands cfg h p)
    (hwf : WFFrom cfg h p) (hm : MapperAgrees env (unitsFrom cfg h p)) (N : Nat) (hfit : RelocFits cfg h p N)
    (acc : Transaction → Bool) (k : Nat) (e : Bool) (tail : List Input) (ht : EndsWith env e tail) :
    parseEvents env acc (PState.init (posOf ⟨p.file, relocOff (FN cfg) N p.offset⟩))
        (((relocStream (FN cfg) N (W.serve cfg h p)).take k).map Input.event ++ tail)
      = relocOutcome (FN cfg) N (parseEvents env (acc ∘ relocTx (FN cfg) N) (PState.init (posOf p))
          (((W.serve cfg h p).take k).map Input.event ++ tail)) := by
  have hsafe := safe_serve cfg env h p hl hwf hm (fun _ o => o ≤ (FN cfg : Int))
    (fun x _ f _ => by have := four_lt_FN cfg; show (4 : Int) ≤ (FN cfg : Int); omega)
  obtain ⟨nx, us, o, hs, hnx, hsub, _⟩ := serve_split cfg env h p hl hwf hm
  have hfake := cl_fakeRot_first env (PState.init (posOf p)) cfg rfl 0 p.offset p.file hwf.fileLen
  rw [hs] at hsafe ⊢
  rw [← relocSt_init]
  refine parse_reloc_stream (FN cfg) N env acc e tail ht _ rfl _ _ hfake hsafe ?_ k
  intro b hb
  rcases List.mem_cons.mp hb with rfl | hb
  · apply fitP_fde
    rcases hnx with rfl | ⟨rfl, hmem⟩
    · simp [relocOff_zero]
    · exact hfit _ hmem
  · obtain ⟨x, hx, rfl⟩ := List.mem_map.mp hb
    exact fitP_layoutAux (FN cfg) N cfg _ _ _ (fun y hy => hfit y (hsub y hy)) x hx

/-! ### goal 2: the start file name -/

theorem mem_tgts : ∀ (es : List W.AEv) (a : W.AEv) (g : Bytes), a ∈ es → rotOf a.tag = some g → g ∈ tgts es
  | [], _, _, h, _ => by cases h
  | e :: es, a, g, h, hr => by
    rcases List.mem_cons.mp h with rfl | h
    · simp [tgts, hr]
    · have := mem_tgts es a g h hr
      cases hre : rotOf e.tag <;> simp [tgts, hre, this]

/-- every rotation the layout announces goes to a ROTATE / restart target of the history -/
theorem rotateTo_target (cfg : W.Cfg) (h : W.History) (x : W.Laid) (hx : x ∈ W.layout cfg h) (f : Bytes)
    (ht : x.tag = .rotateTo f) : f ∈ h.flatMap rotTarget := by
  rw [layout_eq'] at hx
  rcases List.mem_cons.mp hx with rfl | hx
  · simp [fdeL] at ht
  · rw [← tgts_units cfg h]
    rcases layoutAux_shape cfg _ _ _ x hx with ⟨a, ha, f', o', rfl⟩ | ⟨f', s, g, hg, rfl⟩ | ⟨g, rfl⟩
    · exact mem_tgts _ a f ha (laidTag_rot ht)
    · simp only [fakeR, W.Tag.rotateTo.injEq] at ht
      subst ht; exact hg
    · simp [fdeL] at ht

theorem renSt_init (g f0 : Bytes) (off : Nat) :
    renSt g f0 (PState.init (posOf ⟨g, off⟩)) = PState.init ⟨f0, (off : Int)⟩ := by
  simp [renSt, PState.init, renPosn, posOf]

/-- a replica configured with the file name f0 instead of the first file's, against the dump of the first file -/
theorem start_name_lands (cfg : W.Cfg) (env : Env) (h : W.History) (off : Nat) (f0 : Bytes)
    (hl : Lands cfg h ⟨W.firstFile, off⟩) (hwf : WFFrom cfg h ⟨W.firstFile, off⟩)
    (hm : MapperAgrees env (unitsFrom cfg h ⟨W.firstFile, off⟩)) (hfresh : (logFiles h).count W.firstFile ≤ 1)
    (acc : Transaction → Bool) (k : Nat) (e : Bool) (tail : List Input) (ht : EndsWith env e tail) :
    parseEvents env acc (PState.init ⟨f0, (off : Int)⟩)
        (((W.serve cfg h ⟨W.firstFile, off⟩).take k).map Input.event ++ tail)
      = renOutcome W.firstFile f0 (parseEvents env (acc ∘ renTx W.firstFile f0)
          (PState.init (posOf ⟨W.firstFile, off⟩)) (((W.serve cfg h ⟨W.firstFile, off⟩).take k).map Input.event ++ tail)) := by
  have hnot : W.firstFile ∉ h.flatMap rotTarget := cnt_head (f := W.firstFile) hfresh rfl
  have hsafe := safe_serve cfg env h ⟨W.firstFile, off⟩ hl hwf hm (fun f _ => f ≠ W.firstFile) (by
    intro x hx f htag hf
    obtain ⟨pre, hpre⟩ := served_suffix cfg h ⟨W.firstFile, off⟩
    have := rotateTo_target cfg h x (by rw [hpre]; exact List.mem_append_right _ hx) f htag
    rw [hf] at this; exact hnot this)
  rw [← renSt_init W.firstFile f0 off]
  exact parse_ren W.firstFile f0 env acc e tail ht _ _ (safe_take _ _ _ _ k hsafe)

/-! ### Spec-side vocabulary: relocated / renamed positions and expected transactions -/

def relocPos (fnext N : Nat) (p : W.Pos) : W.Pos := ⟨p.file, relocOff fnext N p.offset⟩
def relocETx (fnext N : Nat) (t : W.ETx) : W.ETx :=
  { t with now := relocPos fnext N t.now, next := relocPos fnext N t.next }
def renPos (g f0 : Bytes) (p : W.Pos) : W.Pos := if p.file = g then ⟨f0, p.offset⟩ else p
def renETx (g f0 : Bytes) (t : W.ETx) : W.ETx := { t with now := renPos g f0 t.now, next := renPos g f0 t.next }

theorem posOf_relocPos (fnext N : Nat) (p : W.Pos) : posOf (relocPos fnext N p) = relocPosn fnext N (posOf p) := by
  simp [posOf, relocPos, relocPosn, relocI_cast]

theorem toTx_relocETx (fnext N : Nat) (E : Ext) (t : W.ETx) :
    toTx E (relocETx fnext N t) = relocTx fnext N (toTx E t) := by
  simp [toTx, relocETx, relocTx, posOf_relocPos]

theorem posOf_renPos (g f0 : Bytes) (p : W.Pos) : posOf (renPos g f0 p) = renPosn g f0 (posOf p) := by
  unfold renPos renPosn posOf
  split <;> rfl

theorem toTx_renETx (g f0 : Bytes) (E : Ext) (t : W.ETx) : toTx E (renETx g f0 t) = renTx g f0 (toTx E t) := by
  simp [toTx, renETx, renTx, posOf_renPos]

theorem relocStream_length (fnext N : Nat) (s : List Bytes) : (relocStream fnext N s).length = s.length := by
  cases s <;> simp [relocStream]

/-- the attempt of a replica whose stored position is the relocated p, against the relocated dump -/
def runReloc (cfg : W.Cfg) (env : Env) (h : W.History) (N : Nat) (a : Attempt) (p : W.Pos) : Outcome :=
  parseEvents env a.handler (PState.init (posOf (relocPos (FN cfg) N p)))
    (((relocStream (FN cfg) N (W.serve cfg h p)).take a.cut).map Input.event ++ a.tail)

/-- … the clean complete one -/
def runCleanReloc (cfg : W.Cfg) (env : Env) (h : W.History) (N : Nat) (p : W.Pos) : Outcome :=
  parseEvents env (fun _ => true) (PState.init (posOf (relocPos (FN cfg) N p)))
    ((relocStream (FN cfg) N (W.serve cfg h p)).map Input.event ++ [Input.closed])

theorem relocOutcome_clean (fnext N : Nat) (E : Ext) (l : List W.ETx) (q : W.Pos) :
    relocOutcome fnext N ⟨l.map (toTx E), l.map (toTx E), posOf q, false, false⟩
      = ⟨(l.map (relocETx fnext N)).map (toTx E), (l.map (relocETx fnext N)).map (toTx E),
          posOf (relocPos fnext N q), false, false⟩ := by
  simp [relocOutcome, List.map_map, Function.comp_def, toTx_relocETx, posOf_relocPos]

theorem renOutcome_clean (g f0 : Bytes) (E : Ext) (l : List W.ETx) (q : W.Pos) :
    renOutcome g f0 ⟨l.map (toTx E), l.map (toTx E), posOf q, false, false⟩
      = ⟨(l.map (renETx g f0)).map (toTx E), (l.map (renETx g f0)).map (toTx E), posOf (renPos g f0 q), false, false⟩ := by
  simp [renOutcome, List.map_map, Function.comp_def, toTx_renETx, posOf_renPos]

/-- the clean complete run on the relocated dump -/
theorem reloc_clean (cfg : W.Cfg) (env : Env) (h : W.History) (p : W.Pos) (hl : Lands cfg h p) (hwf : WFFrom cfg h p)
    (hm : MapperAgrees env (unitsFrom cfg h p)) (N : Nat) (hfit : RelocFits cfg h p N) :
    runCleanReloc cfg env h N p = relocOutcome (FN cfg) N (runClean cfg env h p) := by
  have := relocation_lands cfg env h p hl hwf hm N hfit (fun _ => true) (W.serve cfg h p).length false [.closed]
    (endsWith_closed _ _)
  rw [List.take_of_length_le (by rw [relocStream_length]; exact Nat.le_refl _), List.take_length] at this
  exact this

/-- the clean complete run of a replica configured with another start file name -/
theorem start_name_clean (cfg : W.Cfg) (env : Env) (h : W.History) (off : Nat) (f0 : Bytes)
    (hl : Lands cfg h ⟨W.firstFile, off⟩) (hwf : WFFrom cfg h ⟨W.firstFile, off⟩)
    (hm : MapperAgrees env (unitsFrom cfg h ⟨W.firstFile, off⟩)) (hfresh : (logFiles h).count W.firstFile ≤ 1) :
    parseEvents env (fun _ => true) (PState.init ⟨f0, (off : Int)⟩)
        ((W.serve cfg h ⟨W.firstFile, off⟩).map Input.event ++ [Input.closed])
      = renOutcome W.firstFile f0 (runClean cfg env h ⟨W.firstFile, off⟩) := by
  have := start_name_lands cfg env h off f0 hl hwf hm hfresh (fun _ => true) (W.serve cfg h ⟨W.firstFile, off⟩).length
    false [.closed] (endsWith_closed _ _)
  rw [List.take_length] at this
  exact this

/-- the master lands on the FORMAT_DESCRIPTION event of the first file for the head of the log -/
theorem lands_head (cfg : W.Cfg) (h : W.History) : Lands cfg h ⟨W.firstFile, 4⟩ := by
  unfold Lands
  rw [fromPos_head, layout_eq]
  exact Or.inr rfl

/-- the vocabulary is the driver's: `bias=N` of GV/Driver/Hist.lean -/
theorem driver_vocabulary (fnext N : Nat) (f : Bytes) (rest : List Bytes) (o : Nat) :
    relocStream fnext N (f :: rest) = D.relocFirst fnext N f :: rest.map (D.relocPacket fnext N) ∧
    relocStream fnext N [] = [] ∧
    D.relocOff fnext N o = (if o ≤ fnext then o else o + N) := ⟨rfl, rfl, rfl⟩

end C03c
end GV
