import GV.Lemmas.C01c
import GV.Driver.Hist
/-
  Definitions and helper lemmas for GV/Props/C16b.lean (byte-level fidelity when the checksum algorithm differs from
  one binlog file to the next — the master of GV/Driver/Hist.lean: `D.cfgOfFile`, `D.layoutAuxMix`, `D.layoutMix`).

  The induction is the one of GV/Lemmas/C01c.lean (`units_run`) with the invariant generalised: `C01c.Inv` is used at
  the configuration of the CURRENT file, `Inv (D.cfgOfFile cfg k) …`, `k` being the number of the file the layout is
  in; the rotate / restart steps (`newfile_run_mix`) move it from `D.cfgOfFile cfg k` to `D.cfgOfFile cfg (k + 1)`:
  the artificial ROTATE is read with the OLD file's format, the FORMAT_DESCRIPTION event that follows installs the
  NEW file's.  The one-event classification lemmas of C01c (`cl_xid`, `cl_query`, `cl_rotate`, `cl_skip`, `cl_fakeRot`,
  `tm_step`, `cl_rows`) are stated for an arbitrary configuration and are only instantiated here (`cl_rows_k`,
  `tm_step_k` restate the two whose statement mentions `cfg.idw4` / `cfg.rowsV2`, which `D.cfgOfFile` leaves alone).
  The first section holds the definitions the property statements are made of.
-/
namespace GV
namespace C16b
open Bytes M GV.Props.C01 GV.Props.C01b GV.C01c

/-! ### the statements' vocabulary -/

/-- `C01c.WFHist` for the master whose files alternate their checksum setting: only the `offsets` clause changes
    (it speaks about the mixed layout); `W.unitEvs` — hence `UnitOK`, `histRows` — does not depend on the setting -/
structure WFHistMix (cfg : W.Cfg) (h : W.History) : Prop where
  units : ∀ u ∈ h, UnitOK cfg u
  /-- a table id names one table throughout the history -/
  tables : ∀ c1 ∈ histRows h, ∀ c2 ∈ histRows h, c1.table.id = c2.table.id → c1.table = c2.table
  announced : annOK [] (histRows h)
  /-- every event ends below 4 GiB in its file -/
  offsets : ∀ e ∈ D.layoutMix cfg h, e.next < 2 ^ 32

/-- what the mixed master sends for COM_BINLOG_DUMP(p) — `W.serve` over `D.layoutMix`, as `D.handleHist` builds it:
    the artificial ROTATE naming p's file, that file's FORMAT_DESCRIPTION event (artificial, announcing THAT file's
    algorithm, when p is past the head), then the events from p on -/
def serveMix (cfg : W.Cfg) (h : W.History) (p : W.Pos) : List Bytes :=
  let rest := W.fromPos (D.layoutMix cfg h) p
  let cfgP := D.cfgOfFile cfg ((D.filesOf h).idxOf p.file)
  let fake := (W.event (W.crcOf cfg 0) { flags := 0x20 } 4 0 (W.rotateBody p.offset p.file) (some 0)).1
  let head : List Bytes := match rest with
    | e :: _ => if e.tag == .fileHead then [] else [(W.fdeEvent cfgP 4 (some 0)).1]
    | [] => [(W.fdeEvent cfgP 4 (some 0)).1]
  fake :: head ++ rest.map (·.bytes)

def expectedMix (cfg : W.Cfg) (h : W.History) (p : W.Pos) : List W.ETx :=
  W.expectedAux (W.fromPos (D.layoutMix cfg h) p) p

def endPosMix (cfg : W.Cfg) (h : W.History) (p : W.Pos) : W.Pos :=
  W.endPosAux (W.fromPos (D.layoutMix cfg h) p) p

/-- a unit that does not end the current file -/
def oneFile : W.Unit → Bool
  | .rotate _ => false
  | .restart _ => false
  | _ => true

/-! ### the per-file configuration -/

theorem cof_idw4 (cfg : W.Cfg) (k : Nat) : (D.cfgOfFile cfg k).idw4 = cfg.idw4 := rfl
theorem cof_rowsV2 (cfg : W.Cfg) (k : Nat) : (D.cfgOfFile cfg k).rowsV2 = cfg.rowsV2 := rfl

theorem cof_zero (cfg : W.Cfg) : D.cfgOfFile cfg 0 = cfg := by cases cfg; rfl

/-- every file change flips the setting -/
theorem cof_succ_crc (cfg : W.Cfg) (k : Nat) : (D.cfgOfFile cfg (k + 1)).crc = !(D.cfgOfFile cfg k).crc := by
  have h2 : k % 2 = 0 ∨ k % 2 = 1 := by omega
  rcases h2 with h | h
  · have h' : (k + 1) % 2 = 1 := by omega
    simp [D.cfgOfFile, h, h']
  · have h' : (k + 1) % 2 = 0 := by omega
    simp [D.cfgOfFile, h, h']

theorem cof_crc (cfg : W.Cfg) (k : Nat) : (D.cfgOfFile cfg k).crc = if k % 2 = 1 then !cfg.crc else cfg.crc := by
  simp [D.cfgOfFile]

theorem tableOK_file {cfg : W.Cfg} {t : W.TableDef} (k : Nat) (h : TableOK cfg t) : TableOK (D.cfgOfFile cfg k) t :=
  ⟨h.ne, h.cols, h.count, h.names, h.unsigned, h.db, h.name, h.id⟩

theorem rowsOK_file {cfg : W.Cfg} {c : W.RowsChange} (k : Nat) (h : RowsOK cfg c) : RowsOK (D.cfgOfFile cfg k) c :=
  ⟨tableOK_file k h.table, h.pb, h.pa, h.flags, h.extra, h.ts, h.images, h.wide⟩

/-! ### unfolding the mixed layout -/

theorem mix_none (cfg : W.Cfg) (k typ : Nat) (body : Bytes) (ts : Nat) (us : Bool) (es : List W.AEv)
    (file : Bytes) (off : Nat) :
    D.layoutAuxMix cfg k (⟨typ, body, ts, .none, us⟩ :: es) file off
      = ⟨file, off, endOf (D.cfgOfFile cfg k) off body, bytesAt (D.cfgOfFile cfg k) off typ ts body, ts, .none, us⟩
          :: D.layoutAuxMix cfg k es file (endOf (D.cfgOfFile cfg k) off body) := by
  simp only [D.layoutAuxMix, endOf, crcN, bytesAt, event_snd]

theorem mix_commit (cfg : W.Cfg) (k typ : Nat) (body : Bytes) (ts : Nat) (cs : List W.Change) (us : Bool)
    (es : List W.AEv) (file : Bytes) (off : Nat) :
    D.layoutAuxMix cfg k (⟨typ, body, ts, .commit cs, us⟩ :: es) file off
      = ⟨file, off, endOf (D.cfgOfFile cfg k) off body, bytesAt (D.cfgOfFile cfg k) off typ ts body, ts, .commit cs, us⟩
          :: D.layoutAuxMix cfg k es file (endOf (D.cfgOfFile cfg k) off body) := by
  simp only [D.layoutAuxMix, endOf, crcN, bytesAt, event_snd]

/-- a ROTATE event: the event and the artificial ROTATE are written with file k's setting, the FORMAT_DESCRIPTION
    event of the next file (and everything after it) with file k+1's -/
theorem mix_rotate (cfg : W.Cfg) (k typ : Nat) (body : Bytes) (ts : Nat) (f : Bytes) (us : Bool)
    (es : List W.AEv) (file : Bytes) (off : Nat) :
    D.layoutAuxMix cfg k (⟨typ, body, ts, .rotateTo f, us⟩ :: es) file off
      = ⟨file, off, endOf (D.cfgOfFile cfg k) off body, bytesAt (D.cfgOfFile cfg k) off typ ts body, ts, .rotateTo f, us⟩
          :: ⟨file, endOf (D.cfgOfFile cfg k) off body, endOf (D.cfgOfFile cfg k) off body,
              fakeRotBytes (D.cfgOfFile cfg k) (endOf (D.cfgOfFile cfg k) off body) 4 f, 0, .rotateTo f, false⟩
          :: ⟨f, 4, (W.fdeEvent (D.cfgOfFile cfg (k + 1)) 4 none).2, (W.fdeEvent (D.cfgOfFile cfg (k + 1)) 4 none).1, 0,
              .fileHead, false⟩
          :: D.layoutAuxMix cfg (k + 1) es f (W.fdeEvent (D.cfgOfFile cfg (k + 1)) 4 none).2 := by
  simp only [D.layoutAuxMix, endOf, crcN, bytesAt, event_snd, fakeRotBytes]

theorem mix_restart (cfg : W.Cfg) (k typ : Nat) (body : Bytes) (ts : Nat) (f : Bytes) (us : Bool)
    (es : List W.AEv) (file : Bytes) (off : Nat) :
    D.layoutAuxMix cfg k (⟨typ, body, ts, .stopThenRotateTo f, us⟩ :: es) file off
      = ⟨file, off, endOf (D.cfgOfFile cfg k) off body, bytesAt (D.cfgOfFile cfg k) off typ ts body, ts, .none, us⟩
          :: ⟨file, endOf (D.cfgOfFile cfg k) off body, endOf (D.cfgOfFile cfg k) off body,
              fakeRotBytes (D.cfgOfFile cfg k) (endOf (D.cfgOfFile cfg k) off body) 4 f, 0, .rotateTo f, false⟩
          :: ⟨f, 4, (W.fdeEvent (D.cfgOfFile cfg (k + 1)) 4 none).2, (W.fdeEvent (D.cfgOfFile cfg (k + 1)) 4 none).1, 0,
              .fileHead, false⟩
          :: D.layoutAuxMix cfg (k + 1) es f (W.fdeEvent (D.cfgOfFile cfg (k + 1)) 4 none).2 := by
  simp only [D.layoutAuxMix, endOf, crcN, bytesAt, event_snd, fakeRotBytes]

/-! ### the classification lemmas at the current file's configuration
    (`cl_xid`, `cl_query`, `cl_rotate`, `cl_skip`, `cl_fakeRot` of C01c are used as they are, at `D.cfgOfFile cfg k`) -/

theorem cl_rows_k (env : Env) (st : PState) (cfg : W.Cfg) (k : Nat) (hr : Ready (D.cfgOfFile cfg k) st) (off : Nat)
    (c : W.RowsChange) (hrows : RowsOK cfg c) (hne : c.rows ≠ [])
    (hb : endOf (D.cfgOfFile cfg k) off (W.rowsBody c.kind cfg.rowsV2 (if cfg.idw4 then 4 else 6) c.table.id c.flags
            c.extra c.table.cols c.presentBefore c.presentAfter c.rows) < 2 ^ 32)
    (hcache : findTable st.tables c.table.id = some ⟨tmOf c.table, infoOf c.table⟩) :
    classify env st (bytesAt (D.cfgOfFile cfg k) off (W.rowsEventType c.kind cfg.rowsV2) c.ts
        (W.rowsBody c.kind cfg.rowsV2 (if cfg.idw4 then 4 else 6) c.table.id c.flags c.extra c.table.cols
            c.presentBefore c.presentAfter c.rows))
      = .rows (seOfRows env.ext c)
          (endOf (D.cfgOfFile cfg k) off (W.rowsBody c.kind cfg.rowsV2 (if cfg.idw4 then 4 else 6) c.table.id c.flags
            c.extra c.table.cols c.presentBefore c.presentAfter c.rows)) c.ts :=
  cl_rows env st (D.cfgOfFile cfg k) hr off c (rowsOK_file k hrows) hne hb hcache

theorem tm_step_k {env : Env} {cfg : W.Cfg} {k : Nat} {P : W.TableDef → Prop} (ctx : Ctx env P) {st : PState}
    {file : Bytes} {cur : W.Pos} {known : List Nat} (h : Inv (D.cfgOfFile cfg k) P st file cur known) (t : W.TableDef)
    (hP : P t) (ht : TableOK cfg t) (off ts : Nat) (optional : Bytes) (hts : ts < 2 ^ 32)
    (hb : endOf (D.cfgOfFile cfg k) off
            (W.tableMapBody (if cfg.idw4 then 4 else 6) t.id 1 t.db t.name t.cols optional) < 2 ^ 32) :
    ∃ d st', classify env st (bytesAt (D.cfgOfFile cfg k) off 19 ts
          (W.tableMapBody (if cfg.idw4 then 4 else 6) t.id 1 t.db t.name t.cols optional)) = d ∧
      stepD st d = .cont st' ∧ Inv (D.cfgOfFile cfg k) P st' file cur (t.id :: known) ∧ st'.tran = st.tran ∧
      st'.autocommit = st.autocommit ∧ findTable st'.tables t.id = some ⟨tmOf t, infoOf t⟩ :=
  tm_step ctx h t hP (tableOK_file k ht) off ts optional hts hb

/-! ### the invariant across a file change -/

/-- a FORMAT_DESCRIPTION event announcing ANOTHER configuration: the invariant holds at the new one -/
theorem inv_format_to {c c' : W.Cfg} {P : W.TableDef → Prop} {st : PState} {file : Bytes} {cur : W.Pos}
    {known : List Nat} (h : Inv c P st file cur known) :
    Inv c' P { st with format := fmtOf c' } file cur known :=
  ⟨rfl, h.pos, h.file, h.cache, h.known⟩

/-- moving on to file `f` whose setting is `c'` while the current file's is `c`: the artificial ROTATE naming it
    (written — and read — with `c`), then its FORMAT_DESCRIPTION event (announcing `c'`); afterwards the invariant
    holds at `c'`, with the table cache and the transaction state untouched -/
theorem newfile_run_mix {env : Env} {c c' : W.Cfg} {P : W.TableDef → Prop} {st : PState} {file : Bytes} {cur : W.Pos}
    {known : List Nat} (hI : Inv c P st file cur known) (f : Bytes) (seed : Nat)
    (hl : 27 + f.length + (if c.crc then 4 else 0) < 2 ^ 32) (l : List W.Laid)
    (hg : ∀ st', Inv c' P st' f ⟨f, 4⟩ known → st'.tran = st.tran → st'.autocommit = st.autocommit →
      Good env st' ⟨f, 4⟩ l) :
    Good env st cur (⟨file, seed, seed, fakeRotBytes c seed 4 f, 0, .rotateTo f, false⟩
      :: ⟨f, 4, (W.fdeEvent c' 4 none).2, (W.fdeEvent c' 4 none).1, 0, .fileHead, false⟩ :: l) := by
  have h1 := cl_fakeRot env st c hI.fmt seed 4 f (by decide) hl
  refine good_rot env st { st with pos := ⟨f, ((4 : Nat) : Int)⟩ } cur _ _ _ f h1 rfl rfl ?_
  have h2 := C01_classify_fde env { st with pos := ⟨f, ((4 : Nat) : Int)⟩ } c' 4 none (by decide) (by simp)
  refine good_cont env _ { st with pos := ⟨f, ((4 : Nat) : Int)⟩, format := fmtOf c' } ⟨f, 4⟩ _ _ _ h2 rfl (Or.inr rfl) ?_
  exact hg _ (inv_format_to (inv_rotate hI f)) rfl rfl

/-! ### one laid-out event at a time -/

theorem bnd_none {cfg : W.Cfg} {k typ : Nat} {body : Bytes} {ts : Nat} {us : Bool} {es : List W.AEv} {file : Bytes}
    {off : Nat} (h : Bnd (D.layoutAuxMix cfg k (⟨typ, body, ts, .none, us⟩ :: es) file off)) :
    endOf (D.cfgOfFile cfg k) off body < 2 ^ 32 ∧ Bnd (D.layoutAuxMix cfg k es file (endOf (D.cfgOfFile cfg k) off body)) := by
  rw [mix_none] at h; exact bnd_cons h

theorem bnd_commit {cfg : W.Cfg} {k typ : Nat} {body : Bytes} {ts : Nat} {cs : List W.Change} {us : Bool}
    {es : List W.AEv} {file : Bytes} {off : Nat}
    (h : Bnd (D.layoutAuxMix cfg k (⟨typ, body, ts, .commit cs, us⟩ :: es) file off)) :
    endOf (D.cfgOfFile cfg k) off body < 2 ^ 32 ∧ Bnd (D.layoutAuxMix cfg k es file (endOf (D.cfgOfFile cfg k) off body)) := by
  rw [mix_commit] at h; exact bnd_cons h

theorem lay_cont {env : Env} {cfg : W.Cfg} {k : Nat} {st st' : PState} {cur : W.Pos} {typ : Nat} {body : Bytes}
    {ts : Nat} {us : Bool} {es : List W.AEv} {file : Bytes} {off : Nat} (d : Decoded)
    (hc : classify env st (bytesAt (D.cfgOfFile cfg k) off typ ts body) = d) (hs : stepD st d = .cont st')
    (hg : Good env st' cur (D.layoutAuxMix cfg k es file (endOf (D.cfgOfFile cfg k) off body))) :
    Good env st cur (D.layoutAuxMix cfg k (⟨typ, body, ts, .none, us⟩ :: es) file off) := by
  rw [mix_none]
  exact good_cont env st st' cur _ _ d hc hs (Or.inl rfl) hg

theorem lay_deliver {env : Env} {cfg : W.Cfg} {k : Nat} {st acc : PState} {cur : W.Pos} {typ : Nat} {body : Bytes}
    {ts : Nat} {cs : List W.Change} {us : Bool} {es : List W.AEv} {file : Bytes} {off : Nat} (d : Decoded)
    (hc : classify env st (bytesAt (D.cfgOfFile cfg k) off typ ts body) = d)
    (hs : stepD st d = .deliver (toTx env.ext ⟨cur, ⟨file, endOf (D.cfgOfFile cfg k) off body⟩, ts, cs⟩) acc)
    (hg : Good env acc ⟨file, endOf (D.cfgOfFile cfg k) off body⟩
      (D.layoutAuxMix cfg k es file (endOf (D.cfgOfFile cfg k) off body))) :
    Good env st cur (D.layoutAuxMix cfg k (⟨typ, body, ts, .commit cs, us⟩ :: es) file off) := by
  rw [mix_commit]
  exact good_deliver env st acc cur _ _ d cs hc hs rfl hg

/-! ### the TABLE_MAP announcement of a rows change -/

theorem announce_run {env : Env} {cfg : W.Cfg} {k : Nat} {P : W.TableDef → Prop} (ctx : Ctx env P) (c : W.RowsChange)
    (u : Bool) (hP : P c.table) (hok : RowsOK cfg c) {st : PState} {file : Bytes} {cur : W.Pos} {known : List Nat}
    (off : Nat) (hI : Inv (D.cfgOfFile cfg k) P st file cur known) (hann : c.announce = true ∨ c.table.id ∈ known)
    (rest : List W.AEv)
    (hb : Bnd (D.layoutAuxMix cfg k ((if c.announce then [tmAEv cfg c u] else []) ++ rest) file off))
    (kk : ∀ st' off', Inv (D.cfgOfFile cfg k) P st' file cur (c.table.id :: known) → st'.tran = st.tran →
      st'.autocommit = st.autocommit → findTable st'.tables c.table.id = some ⟨tmOf c.table, infoOf c.table⟩ →
      Bnd (D.layoutAuxMix cfg k rest file off') → Good env st' cur (D.layoutAuxMix cfg k rest file off')) :
    Good env st cur (D.layoutAuxMix cfg k ((if c.announce then [tmAEv cfg c u] else []) ++ rest) file off) := by
  cases ha : c.announce with
  | true =>
    simp only [ha, if_true, List.cons_append, List.nil_append, tmAEv] at hb ⊢
    obtain ⟨hb1, hb2⟩ := bnd_none hb
    obtain ⟨d, st', hcl, hs, hI', htr, hau, hf⟩ := tm_step_k ctx hI c.table hP hok.table off c.ts c.tmOptional hok.ts hb1
    exact lay_cont d hcl hs (kk st' _ hI' htr hau hf hb2)
  | false =>
    simp only [ha, Bool.false_eq_true, if_false, List.nil_append] at hb ⊢
    have hk : c.table.id ∈ known := by
      rcases hann with h | h
      · rw [ha] at h; cases h
      · exact h
    have hne := hI.known _ hk
    cases hc : findTable st.tables c.table.id with
    | none => exact absurd hc hne
    | some tc =>
      have := cache_eq ctx hI c.table hP tc hc
      subst this
      refine kk st off ⟨hI.fmt, hI.pos, hI.file, hI.cache, ?_⟩ rfl rfl hc hb
      intro id hid
      rcases List.mem_cons.mp hid with h1 | h1
      · rw [h1, hc]; simp
      · exact hI.known id h1

/-! ### the changes of an open transaction -/

theorem changes_run {env : Env} {cfg : W.Cfg} {k : Nat} {P : W.TableDef → Prop} (ctx : Ctx env P) :
    ∀ (cs : List W.Change) (rest : List W.AEv) (R : List W.RowsChange) (st : PState) (acc : List StreamEvent)
      (file : Bytes) (off : Nat) (cur : W.Pos) (known : List Nat),
    Inv (D.cfgOfFile cfg k) P st file cur known → st.tran = some acc → st.autocommit = false →
    (∀ c ∈ cs, ChangeOK cfg c) → (∀ c ∈ changeRows cs, P c.table) → annOK known (changeRows cs ++ R) →
    Bnd (D.layoutAuxMix cfg k (cs.flatMap (W.changeEvs cfg) ++ rest) file off) →
    (∀ st' off' known', Inv (D.cfgOfFile cfg k) P st' file cur known' →
      st'.tran = some (acc ++ cs.map (seOfChange env.ext)) →
      st'.autocommit = false → annOK known' R → Bnd (D.layoutAuxMix cfg k rest file off') →
      Good env st' cur (D.layoutAuxMix cfg k rest file off')) →
    Good env st cur (D.layoutAuxMix cfg k (cs.flatMap (W.changeEvs cfg) ++ rest) file off) := by
  intro cs
  induction cs with
  | nil =>
    intro rest R st acc file off cur known hI ht ha _ _ hann hb kk
    simp only [List.flatMap_nil, List.nil_append] at hb ⊢
    exact kk st off known hI (by simpa using ht) ha (by simpa [changeRows] using hann) hb
  | cons ch cs ih =>
    intro rest R st acc file off cur known hI ht ha hok hP hann hb kk
    have hok' : ∀ c ∈ cs, ChangeOK cfg c := fun c hc => hok c (List.mem_cons_of_mem _ hc)
    cases ch with
    | stmt s =>
      obtain ⟨hs, hcat⟩ := hok (.stmt s) List.mem_cons_self
      simp only [List.flatMap_cons, W.changeEvs, W.stmtEv, List.cons_append, List.nil_append] at hb ⊢
      obtain ⟨hb1, hb2⟩ := bnd_none hb
      have hcl := cl_query env st (D.cfgOfFile cfg k) hI.fmt off s.ts s.vars s.db s.sql hs.vars hs.varsLen hs.db hs.ts hb1
      rw [hs.cat, ← hs.charset] at hcl
      refine lay_cont _ hcl (sd_stmt_tx st acc ht ha s.cat _ _ s.ts hcat) ?_
      refine ih rest R _ (acc ++ [seOfStmt s]) file _ cur known (inv_tran' hI _) rfl ha hok'
        (by simpa [changeRows] using hP) (by simpa [changeRows] using hann) hb2 ?_
      intro st' off' known' hI' ht' ha' hann' hb'
      exact kk st' off' known' hI' (by simpa [seOfChange] using ht') ha' hann' hb'
    | rows c =>
      obtain ⟨hrc, hne⟩ := hok (.rows c) List.mem_cons_self
      have hPc : P c.table := hP c (by simp [changeRows])
      simp only [changeRows, List.cons_append] at hann
      obtain ⟨hann1, hann2⟩ := hann
      have htm : W.tableMapEv cfg c = tmAEv cfg c false := rfl
      simp only [List.flatMap_cons, W.changeEvs, List.append_assoc, htm] at hb ⊢
      refine announce_run ctx c false hPc hrc off hI hann1 _ hb ?_
      intro st1 off1 hI1 ht1 ha1 hf1 hb1
      simp only [W.rowsEv, List.cons_append, List.nil_append] at hb1 ⊢
      obtain ⟨hb2, hb3⟩ := bnd_none hb1
      have hcl := cl_rows_k env st1 cfg k hI1.fmt off1 c hrc hne hb2 hf1
      refine lay_cont _ hcl (sd_rows_tx st1 acc (ht1.trans ht) (ha1.trans ha) _ _ c.ts) ?_
      refine ih rest R _ (acc ++ [seOfRows env.ext c]) file _ cur (c.table.id :: known) (inv_tran' hI1 _) rfl
        (ha1.trans ha) hok' (fun x hx => hP x (by simp [changeRows, hx])) hann2 hb3 ?_
      intro st' off' known' hI' ht' ha' hann' hb'
      exact kk st' off' known' hI' (by simpa [seOfChange] using ht') ha' hann' hb'

/-! ### whole units -/

/-- an event the parser ignores -/
theorem skip_run {env : Env} {cfg : W.Cfg} {k : Nat} {P : W.TableDef → Prop} {st : PState} {file : Bytes} {cur : W.Pos}
    {known : List Nat} (hI : Inv (D.cfgOfFile cfg k) P st file cur known) (typ : Nat) (body : Bytes) (u : Bool)
    (es : List W.AEv) (off : Nat) (ht : typ < 256) (hty : typ ∉ handledTypes)
    (hb : Bnd (D.layoutAuxMix cfg k (⟨typ, body, 0, .none, u⟩ :: es) file off))
    (kk : Bnd (D.layoutAuxMix cfg k es file (endOf (D.cfgOfFile cfg k) off body)) →
      Good env st cur (D.layoutAuxMix cfg k es file (endOf (D.cfgOfFile cfg k) off body))) :
    Good env st cur (D.layoutAuxMix cfg k (⟨typ, body, 0, .none, u⟩ :: es) file off) := by
  obtain ⟨hb1, hb2⟩ := bnd_none hb
  exact lay_cont _ (cl_skip env st (D.cfgOfFile cfg k) hI.fmt off 0 typ body ht hty (by decide) hb1) rfl (kk hb2)

/-- a statement delivered on its own (DDL / statement-format DML outside a transaction) -/
theorem single_stmt_run {env : Env} {cfg : W.Cfg} {k : Nat} {P : W.TableDef → Prop} {st : PState} {file : Bytes}
    {cur : W.Pos} {known : List Nat} (hI : Inv (D.cfgOfFile cfg k) P st file cur known) (ht : st.tran = none)
    (ha : st.autocommit = true) (s : W.StmtChange) (hs : StmtOK s) (hcat : isChangeCat s.cat) (u : Bool)
    (es : List W.AEv) (off : Nat)
    (hb : Bnd (D.layoutAuxMix cfg k (⟨2, W.queryBody 1 0 0 s.vars s.db s.sql, s.ts, .commit [.stmt s], u⟩ :: es) file off))
    (kk : ∀ st' off', Inv (D.cfgOfFile cfg k) P st' file ⟨file, off'⟩ known → st'.tran = none → st'.autocommit = true →
      Bnd (D.layoutAuxMix cfg k es file off') → Good env st' ⟨file, off'⟩ (D.layoutAuxMix cfg k es file off')) :
    Good env st cur
      (D.layoutAuxMix cfg k (⟨2, W.queryBody 1 0 0 s.vars s.db s.sql, s.ts, .commit [.stmt s], u⟩ :: es) file off) := by
  obtain ⟨hb1, hb2⟩ := bnd_commit hb
  have hcl := cl_query env st (D.cfgOfFile cfg k) hI.fmt off s.ts s.vars s.db s.sql hs.vars hs.varsLen hs.db hs.ts hb1
  rw [hs.cat, ← hs.charset] at hcl
  refine lay_deliver _ hcl ?_ (kk _ _ (inv_commit hI _) rfl rfl hb2)
  rw [sd_stmt_idle st ht ha s.cat _ _ s.ts hcat, toTx_eq hI]
  rfl

theorem crcN_eq (c : W.Cfg) (off : Nat) : crcN c off = if c.crc then 4 else 0 := by
  unfold crcN W.crcOf Props.C16.crcLen
  cases c.crc <;> simp

/-- the induction of `C01c.units_run` over the MIXED layout: `k` is the number of the file the layout is in, the
    invariant holds at that file's configuration, and the rotate / restart cases continue at `k + 1` -/
theorem units_run_mix {env : Env} {cfg : W.Cfg} {P : W.TableDef → Prop} (ctx : Ctx env P) :
    ∀ (us : List W.Unit) (k : Nat) (st : PState) (file : Bytes) (off : Nat) (cur : W.Pos) (known : List Nat),
    Inv (D.cfgOfFile cfg k) P st file cur known → st.tran = none → st.autocommit = true →
    (∀ u ∈ us, UnitOK cfg u) → (∀ c ∈ histRows us, P c.table) → annOK known (histRows us) →
    Bnd (D.layoutAuxMix cfg k (us.flatMap (W.unitEvs cfg)) file off) →
    Good env st cur (D.layoutAuxMix cfg k (us.flatMap (W.unitEvs cfg)) file off) := by
  intro us
  induction us with
  | nil =>
    intro k st file off cur known hI _ _ _ _ _ _
    simp only [List.flatMap_nil, D.layoutAuxMix]
    exact good_nil env st cur hI.pos
  | cons u us ih =>
    intro k st file off cur known hI ht ha hok hP hann hb
    have hok' : ∀ u ∈ us, UnitOK cfg u := fun x hx => hok x (List.mem_cons_of_mem _ hx)
    have hu := hok u List.mem_cons_self
    rw [histRows_cons] at hP hann
    simp only [List.flatMap_cons] at hb ⊢
    cases u with
    | tx b cs close ts =>
      obtain ⟨hbeg, hcs, hclose, hts⟩ := hu
      simp only [unitRows] at hP hann
      -- the events after the changes: the closer, then the later units
      have key : ∀ (closeEv : W.AEv),
          (∀ st' off' known', Inv (D.cfgOfFile cfg k) P st' file cur known' →
            st'.tran = some (cs.map (seOfChange env.ext)) →
            st'.autocommit = false → annOK known' (histRows us) →
            Bnd (D.layoutAuxMix cfg k (closeEv :: us.flatMap (W.unitEvs cfg)) file off') →
            Good env st' cur (D.layoutAuxMix cfg k (closeEv :: us.flatMap (W.unitEvs cfg)) file off')) →
          Bnd (D.layoutAuxMix cfg k (W.markStart ([W.stmtEv ⟨b, [], ts, [], 0, none⟩ .none] ++ cs.flatMap (W.changeEvs cfg) ++ [closeEv])
                ++ us.flatMap (W.unitEvs cfg)) file off) →
          Good env st cur (D.layoutAuxMix cfg k (W.markStart ([W.stmtEv ⟨b, [], ts, [], 0, none⟩ .none] ++ cs.flatMap (W.changeEvs cfg) ++ [closeEv])
                ++ us.flatMap (W.unitEvs cfg)) file off) := by
        intro closeEv kk hb
        simp only [W.stmtEv, List.cons_append, List.nil_append, W.markStart, List.append_assoc] at hb ⊢
        obtain ⟨hb1, hb2⟩ := bnd_none hb
        have hcl := cl_query env st (D.cfgOfFile cfg k) hI.fmt off ts [] [] b (by simp) (by simp) (by simp) hts hb1
        rw [hbeg] at hcl
        refine lay_cont _ hcl (SL.step_begin _ _ _) ?_
        refine changes_run ctx cs _ (histRows us) _ [] file _ cur known (inv_tran hI _ _) rfl rfl hcs
          (fun c hc => hP c (List.mem_append_left _ hc)) hann hb2 ?_
        intro st' off' known' hI' ht' ha' hann' hb'
        exact kk st' off' known' hI' (by simpa using ht') ha' hann' hb'
      cases close with
      | xid n =>
        simp only [W.unitEvs] at hb ⊢
        refine key _ ?_ hb
        intro st' off' known' hI' ht' ha' hann' hb'
        obtain ⟨hb1, hb2⟩ := bnd_commit hb'
        have hcl := cl_xid env st' (D.cfgOfFile cfg k) hI'.fmt off' ts n hts hb1
        refine lay_deliver _ hcl ?_ (ih k _ file _ _ known' (inv_commit hI' _) rfl rfl hok'
          (fun c hc => hP c (List.mem_append_right _ hc)) hann' hb2)
        have := SL.step_closer (st := st') ⟨ht', ha'⟩ .xid (endOf (D.cfgOfFile cfg k) off' (W.xidBody n)) ts
        rw [toTx_eq hI']
        exact this
      | commit sql =>
        simp only [W.unitEvs, W.stmtEv] at hb ⊢
        refine key _ ?_ hb
        intro st' off' known' hI' ht' ha' hann' hb'
        obtain ⟨hb1, hb2⟩ := bnd_commit hb'
        have hcl := cl_query env st' (D.cfgOfFile cfg k) hI'.fmt off' ts [] [] sql (by simp) (by simp) (by simp) hts hb1
        simp only [CloserOK] at hclose
        rw [hclose] at hcl
        refine lay_deliver _ hcl ?_ (ih k _ file _ _ known' (inv_commit hI' _) rfl rfl hok'
          (fun c hc => hP c (List.mem_append_right _ hc)) hann' hb2)
        have := SL.step_closer (st := st') ⟨ht', ha'⟩ (.commit ⟨[], Props.C16.charsetOf [], sql⟩)
          (endOf (D.cfgOfFile cfg k) off' (W.queryBody 1 0 0 [] [] sql)) ts
        rw [toTx_eq hI']
        exact this
      | rollback sql =>
        simp only [W.unitEvs, W.stmtEv] at hb ⊢
        refine key _ ?_ hb
        intro st' off' known' hI' ht' ha' hann' hb'
        obtain ⟨hb1, hb2⟩ := bnd_commit hb'
        have hcl := cl_query env st' (D.cfgOfFile cfg k) hI'.fmt off' ts [] [] sql (by simp) (by simp) (by simp) hts hb1
        simp only [CloserOK] at hclose
        rw [hclose] at hcl
        refine lay_deliver _ hcl ?_ (ih k _ file _ _ known' (inv_commit hI' _) rfl rfl hok'
          (fun c hc => hP c (List.mem_append_right _ hc)) hann' hb2)
        have := SL.step_closer (st := st') ⟨ht', ha'⟩ (.rollback ⟨[], Props.C16.charsetOf [], sql⟩)
          (endOf (D.cfgOfFile cfg k) off' (W.queryBody 1 0 0 [] [] sql)) ts
        rw [toTx_eq hI']
        exact this
    | ddl s =>
      obtain ⟨hs, hcat⟩ := hu
      simp only [unitRows, List.nil_append] at hP hann
      simp only [W.unitEvs, W.stmtEv, W.markStart, List.cons_append, List.nil_append] at hb ⊢
      refine single_stmt_run hI ht ha s hs hcat _ _ off hb ?_
      intro st' off' hI' ht' ha' hb'
      exact ih k st' file off' _ known hI' ht' ha' hok' hP hann hb'
    | stmtDML s =>
      obtain ⟨hs, hcat⟩ := hu
      simp only [unitRows, List.nil_append] at hP hann
      simp only [W.unitEvs, W.stmtEv, W.markStart, List.cons_append, List.nil_append] at hb ⊢
      refine single_stmt_run hI ht ha s hs hcat _ _ off hb ?_
      intro st' off' hI' ht' ha' hb'
      exact ih k st' file off' _ known hI' ht' ha' hok' hP hann hb'
    | autoRows c =>
      obtain ⟨hrc, hne⟩ := hu
      simp only [unitRows, List.cons_append, List.nil_append] at hP hann
      obtain ⟨hann1, hann2⟩ := hann
      have hPc : P c.table := hP c List.mem_cons_self
      have hev : W.unitEvs cfg (.autoRows c) = (if c.announce then [tmAEv cfg c true] else []) ++
          [⟨W.rowsEventType c.kind cfg.rowsV2,
            W.rowsBody c.kind cfg.rowsV2 (if cfg.idw4 then 4 else 6) c.table.id c.flags c.extra c.table.cols
              c.presentBefore c.presentAfter c.rows, c.ts, .commit [.rows c], !c.announce⟩] := by
        simp only [W.unitEvs, W.rowsEv, W.tableMapEv, tmAEv]
        cases c.announce <;> rfl
      rw [hev, List.append_assoc] at hb ⊢
      refine announce_run ctx c true hPc hrc off hI hann1 _ hb ?_
      intro st1 off1 hI1 ht1 ha1 hf1 hb1
      simp only [List.cons_append, List.nil_append] at hb1 ⊢
      obtain ⟨hb2, hb3⟩ := bnd_commit hb1
      have hcl := cl_rows_k env st1 cfg k hI1.fmt off1 c hrc hne hb2 hf1
      refine lay_deliver _ hcl ?_ (ih k _ file _ _ _ (inv_commit hI1 _) rfl rfl hok'
        (fun x hx => hP x (List.mem_cons_of_mem _ hx)) hann2 hb3)
      rw [sd_rows_idle st1 (ht1.trans ht) (ha1.trans ha), toTx_eq hI1]
      rfl
    | rotate f =>
      simp only [unitRows, List.nil_append] at hP hann
      simp only [W.unitEvs, W.markStart, List.cons_append, List.nil_append] at hb ⊢
      rw [mix_rotate] at hb ⊢
      obtain ⟨hb1, hb2⟩ := bnd_cons hb
      obtain ⟨_, hb3⟩ := bnd_cons hb2
      obtain ⟨_, hb4⟩ := bnd_cons hb3
      have hb1' : endOf (D.cfgOfFile cfg k) off (W.rotateBody 4 f) < 2 ^ 32 := hb1
      have hcl := cl_rotate env st (D.cfgOfFile cfg k) hI.fmt off 0 4 f (by decide) (by decide) hb1'
      refine good_rot env st { st with pos := ⟨f, ((4 : Nat) : Int)⟩ } cur _ _ _ f hcl rfl rfl ?_
      have hl : 27 + f.length + (if (D.cfgOfFile cfg k).crc then 4 else 0) < 2 ^ 32 := by
        have hlen : (W.rotateBody 4 f).length = 8 + f.length := by simp [W.rotateBody]
        unfold endOf at hb1'
        rw [hlen, crcN_eq] at hb1'
        omega
      refine newfile_run_mix (c' := D.cfgOfFile cfg (k + 1)) (inv_rotate hI f) f _ hl _ ?_
      intro st' hI' ht' ha'
      exact ih (k + 1) st' f _ _ known hI' (ht'.trans ht) (ha'.trans ha) hok' hP hann hb4
    | restart f =>
      simp only [unitRows, List.nil_append] at hP hann
      simp only [W.unitEvs, W.markStart, List.cons_append, List.nil_append] at hb ⊢
      rw [mix_restart] at hb ⊢
      obtain ⟨hb1, hb2⟩ := bnd_cons hb
      obtain ⟨_, hb3⟩ := bnd_cons hb2
      obtain ⟨_, hb4⟩ := bnd_cons hb3
      have hb1' : endOf (D.cfgOfFile cfg k) off [] < 2 ^ 32 := hb1
      have hcl := cl_skip env st (D.cfgOfFile cfg k) hI.fmt off 0 3 [] (by decide) (by decide) (by decide) hb1'
      refine good_cont env st st cur _ _ _ hcl rfl (Or.inl rfl) ?_
      have hl : 27 + f.length + (if (D.cfgOfFile cfg k).crc then 4 else 0) < 2 ^ 32 := by
        have : f.length < 2 ^ 31 := hu
        simp only [Nat.reducePow] at this ⊢
        split <;> omega
      refine newfile_run_mix (c' := D.cfgOfFile cfg (k + 1)) hI f _ hl _ ?_
      intro st' hI' ht' ha'
      exact ih (k + 1) st' f _ _ known hI' (ht'.trans ht) (ha'.trans ha) hok' hP hann hb4
    | gtid sid gno =>
      simp only [unitRows, List.nil_append] at hP hann
      simp only [W.unitEvs, W.markStart, List.cons_append, List.nil_append] at hb ⊢
      exact skip_run hI _ _ _ _ off (by decide) (by decide) hb
        (fun hb' => ih k st file _ cur known hI ht ha hok' hP hann hb')
    | anonGtid =>
      simp only [unitRows, List.nil_append] at hP hann
      simp only [W.unitEvs, W.markStart, List.cons_append, List.nil_append] at hb ⊢
      exact skip_run hI _ _ _ _ off (by decide) (by decide) hb
        (fun hb' => ih k st file _ cur known hI ht ha hok' hP hann hb')
    | prevGtids blk =>
      simp only [unitRows, List.nil_append] at hP hann
      simp only [W.unitEvs, W.markStart, List.cons_append, List.nil_append] at hb ⊢
      exact skip_run hI _ _ _ _ off (by decide) (by decide) hb
        (fun hb' => ih k st file _ cur known hI ht ha hok' hP hann hb')
    | heartbeat =>
      simp only [unitRows, List.nil_append] at hP hann
      simp only [W.unitEvs, W.markStart, List.cons_append, List.nil_append] at hb ⊢
      exact skip_run hI _ _ _ _ off (by decide) (by decide) hb
        (fun hb' => ih k st file _ cur known hI ht ha hok' hP hann hb')
    | unknownEvent typ body =>
      obtain ⟨hlt, hty⟩ := hu
      simp only [unitRows, List.nil_append] at hP hann
      simp only [W.unitEvs, W.markStart, List.cons_append, List.nil_append] at hb ⊢
      exact skip_run hI _ _ _ _ off hlt hty hb
        (fun hb' => ih k st file _ cur known hI ht ha hok' hP hann hb')
    | unknownStmt s =>
      obtain ⟨hs, hcat⟩ := hu
      simp only [unitRows, List.nil_append] at hP hann
      simp only [W.unitEvs, W.stmtEv, W.markStart, List.cons_append, List.nil_append] at hb ⊢
      obtain ⟨hb1, hb2⟩ := bnd_none hb
      have hcl := cl_query env st (D.cfgOfFile cfg k) hI.fmt off s.ts s.vars s.db s.sql hs.vars hs.varsLen hs.db hs.ts hb1
      rw [hs.cat] at hcl
      exact lay_cont _ hcl (sd_unknown st _ _ _ _ hcat) (ih k st file _ cur known hI ht ha hok' hP hann hb2)

/-! ### from the head of the log -/

theorem layoutMix_eq (cfg : W.Cfg) (h : W.History) :
    D.layoutMix cfg h = ⟨W.firstFile, 4, (W.fdeEvent cfg 4 none).2, (W.fdeEvent cfg 4 none).1, 0, .fileHead, false⟩
      :: D.layoutAuxMix cfg 0 (h.flatMap (W.unitEvs cfg)) W.firstFile (W.fdeEvent cfg 4 none).2 := rfl

theorem fromPos_head_mix (cfg : W.Cfg) (h : W.History) :
    W.fromPos (D.layoutMix cfg h) ⟨W.firstFile, 4⟩ = D.layoutMix cfg h := by
  rw [layoutMix_eq]
  simp [W.fromPos, List.dropWhile]

theorem serveMix_head (cfg : W.Cfg) (h : W.History) :
    serveMix cfg h ⟨W.firstFile, 4⟩
      = (W.event (W.crcOf cfg 0) { flags := 0x20 } 4 0 (W.rotateBody 4 W.firstFile) (some 0)).1
          :: (D.layoutMix cfg h).map (·.bytes) := by
  unfold serveMix
  simp only [fromPos_head_mix]
  rw [layoutMix_eq]
  rfl

theorem expectedMix_head (cfg : W.Cfg) (h : W.History) :
    expectedMix cfg h ⟨W.firstFile, 4⟩ = W.expectedAux (D.layoutMix cfg h) ⟨W.firstFile, 4⟩ := by
  rw [expectedMix, fromPos_head_mix]

theorem endPosMix_head (cfg : W.Cfg) (h : W.History) :
    endPosMix cfg h ⟨W.firstFile, 4⟩ = W.endPosAux (D.layoutMix cfg h) ⟨W.firstFile, 4⟩ := by
  rw [endPosMix, fromPos_head_mix]

theorem fidelity_head_mix (cfg : W.Cfg) (env : Env) (h : W.History) (hwf : WFHistMix cfg h) (hm : MapperAgrees env h) :
    parseEvents env (fun _ => true) (PState.init ⟨W.firstFile, 4⟩)
        (((W.event (W.crcOf cfg 0) { flags := 0x20 } 4 0 (W.rotateBody 4 W.firstFile) (some 0)).1
            :: (D.layoutMix cfg h).map (·.bytes)).map Input.event ++ [Input.closed])
      = ⟨(W.expectedAux (D.layoutMix cfg h) ⟨W.firstFile, 4⟩).map (toTx env.ext),
         (W.expectedAux (D.layoutMix cfg h) ⟨W.firstFile, 4⟩).map (toTx env.ext),
         posOf (W.endPosAux (D.layoutMix cfg h) ⟨W.firstFile, 4⟩), false, false⟩ := by
  let P : W.TableDef → Prop := fun t => ∃ c ∈ histRows h, c.table = t
  have ctx : Ctx env P := by
    refine ⟨?_, ?_⟩
    · rintro t1 t2 ⟨c1, h1, rfl⟩ ⟨c2, h2, rfl⟩ hid
      exact hwf.tables c1 h1 c2 h2 hid
    · rintro t ⟨c, hc, rfl⟩
      exact hm c hc
  let st1 : PState := { PState.init ⟨W.firstFile, 4⟩ with format := fmtOf cfg }
  have hI : Inv (D.cfgOfFile cfg 0) P st1 W.firstFile ⟨W.firstFile, 4⟩ [] := by
    rw [cof_zero]
    refine ⟨rfl, rfl, rfl, ?_, ?_⟩
    · intro id tc hf; simp [st1, PState.init, findTable] at hf
    · intro id hid; cases hid
  have hoff := hwf.offsets
  rw [layoutMix_eq] at hoff
  have hb : Bnd (D.layoutAuxMix cfg 0 (h.flatMap (W.unitEvs cfg)) W.firstFile (W.fdeEvent cfg 4 none).2) :=
    (bnd_cons hoff).2
  have hg := units_run_mix ctx h 0 st1 W.firstFile _ ⟨W.firstFile, 4⟩ [] hI rfl rfl hwf.units
    (fun c hc => ⟨c, hc, rfl⟩) hwf.announced hb
  have hfde := C01_classify_fde env (PState.init ⟨W.firstFile, 4⟩) cfg 4 none (by decide) (by simp)
  have hg2 : Good env (PState.init ⟨W.firstFile, 4⟩) ⟨W.firstFile, 4⟩ (D.layoutMix cfg h) := by
    rw [layoutMix_eq]
    exact good_cont env _ st1 _ _ _ _ hfde rfl (Or.inr rfl) hg
  have hfake := cl_fakeRot_first env (PState.init ⟨W.firstFile, 4⟩) cfg rfl 0 4 W.firstFile
    (by have : W.firstFile.length = 10 := by decide
        rw [this]; simp only [Nat.reducePow]; split <;> omega)
  unfold Good at hg2
  unfold fakeRotBytes at hfake
  simp only [List.map_cons, List.cons_append, parseEvents, stepEvent, hfake, stepD, List.map_map]
  exact hg2

/-! ### Spec side: a history that stays in one file is laid out as by the global-setting master -/

/-- a tag after which the layout moves on to the next file -/
def rotTag : W.Tag → Bool
  | .rotateTo _ => true
  | .stopThenRotateTo _ => true
  | _ => false

def NoRot (es : List W.AEv) : Prop := ∀ e ∈ es, rotTag e.tag = false

theorem noRot_append {a b : List W.AEv} (ha : NoRot a) (hb : NoRot b) : NoRot (a ++ b) := by
  intro e he
  rcases List.mem_append.mp he with h | h
  · exact ha e h
  · exact hb e h

theorem noRot_markStart {l : List W.AEv} (h : NoRot l) : NoRot (W.markStart l) := by
  cases l with
  | nil => exact h
  | cons e es =>
    intro x hx
    simp only [W.markStart, List.mem_cons] at hx
    rcases hx with rfl | hx
    · exact h e List.mem_cons_self
    · exact h x (List.mem_cons_of_mem _ hx)

theorem noRot_single (e : W.AEv) (h : rotTag e.tag = false) : NoRot [e] := by
  intro x hx
  simp only [List.mem_cons, List.not_mem_nil, or_false] at hx
  subst hx; exact h

theorem noRot_changeEvs (cfg : W.Cfg) (c : W.Change) : NoRot (W.changeEvs cfg c) := by
  cases c with
  | stmt s => exact noRot_single _ rfl
  | rows r =>
    simp only [W.changeEvs]
    refine noRot_append ?_ (noRot_single _ rfl)
    cases r.announce
    · intro x hx; simp at hx
    · exact noRot_single _ rfl

theorem noRot_flatMap {α} (f : α → List W.AEv) (l : List α) (h : ∀ a ∈ l, NoRot (f a)) : NoRot (l.flatMap f) := by
  intro e he
  obtain ⟨a, ha, hea⟩ := List.mem_flatMap.mp he
  exact h a ha e hea

theorem noRot_unitEvs (cfg : W.Cfg) (u : W.Unit) (h : oneFile u = true) : NoRot (W.unitEvs cfg u) := by
  cases u with
  | tx b cs close ts =>
    simp only [W.unitEvs]
    refine noRot_markStart (noRot_append (noRot_append (noRot_single _ rfl)
      (noRot_flatMap _ _ (fun c _ => noRot_changeEvs cfg c))) (noRot_single _ ?_))
    cases close <;> rfl
  | autoRows c =>
    simp only [W.unitEvs]
    refine noRot_markStart (noRot_append ?_ (noRot_single _ rfl))
    cases c.announce
    · intro x hx; simp at hx
    · exact noRot_single _ rfl
  | rotate f => cases h
  | restart f => cases h
  | ddl s => exact noRot_markStart (noRot_single _ rfl)
  | stmtDML s => exact noRot_markStart (noRot_single _ rfl)
  | gtid sid gno => exact noRot_markStart (noRot_single _ rfl)
  | anonGtid => exact noRot_markStart (noRot_single _ rfl)
  | prevGtids b => exact noRot_markStart (noRot_single _ rfl)
  | heartbeat => exact noRot_markStart (noRot_single _ rfl)
  | unknownEvent t b => exact noRot_markStart (noRot_single _ rfl)
  | unknownStmt s => exact noRot_markStart (noRot_single _ rfl)

/-- as long as no event ends the file, the mixed layout of file k is the global layout at file k's configuration -/
theorem mix_eq_of_noRot (cfg : W.Cfg) (k : Nat) : ∀ (es : List W.AEv) (file : Bytes) (off : Nat), NoRot es →
    D.layoutAuxMix cfg k es file off = W.layoutAux (D.cfgOfFile cfg k) es file off := by
  intro es
  induction es with
  | nil => intro file off _; simp [D.layoutAuxMix, W.layoutAux]
  | cons e es ih =>
    intro file off h
    have he := h e List.mem_cons_self
    have hes : NoRot es := fun x hx => h x (List.mem_cons_of_mem _ hx)
    obtain ⟨typ, body, ts, tag, us⟩ := e
    cases tag with
    | rotateTo f => cases he
    | stopThenRotateTo f => cases he
    | none => simp only [D.layoutAuxMix, W.layoutAux, ih _ _ hes]
    | commit cs => simp only [D.layoutAuxMix, W.layoutAux, ih _ _ hes]
    | fileHead => simp only [D.layoutAuxMix, W.layoutAux, ih _ _ hes]

theorem layoutMix_eq_layout (cfg : W.Cfg) (h : W.History) (h1 : ∀ u ∈ h, oneFile u = true) :
    D.layoutMix cfg h = W.layout cfg h := by
  rw [layoutMix_eq, layout_eq, mix_eq_of_noRot cfg 0 _ _ _ (noRot_flatMap _ _ (fun u hu => noRot_unitEvs cfg u (h1 u hu))),
    cof_zero]

theorem filesOf_one (h : W.History) : (∀ u ∈ h, oneFile u = true) ↔ D.filesOf h = [W.firstFile] := by
  unfold D.filesOf
  simp only [List.cons.injEq, true_and, List.flatMap_eq_nil_iff]
  constructor
  · intro hh u hu
    have := hh u hu
    cases u <;> first | rfl | cases this
  · intro hh u hu
    have := hh u hu
    cases u <;> first | rfl | simp at this

theorem wfMix_iff (cfg : W.Cfg) (h : W.History) (h1 : ∀ u ∈ h, oneFile u = true) : WFHistMix cfg h ↔ WFHist cfg h := by
  constructor
  · intro hw
    exact ⟨hw.units, hw.tables, hw.announced, by rw [← layoutMix_eq_layout cfg h h1]; exact hw.offsets⟩
  · intro hw
    exact ⟨hw.units, hw.tables, hw.announced, by rw [layoutMix_eq_layout cfg h h1]; exact hw.offsets⟩

/-- the mixed master's packets for a start position in the first file of a one-file history are the global master's -/
theorem serveMix_eq_serve (cfg : W.Cfg) (h : W.History) (h1 : ∀ u ∈ h, oneFile u = true) (p : W.Pos)
    (hp : p.file = W.firstFile) : serveMix cfg h p = W.serve cfg h p := by
  unfold serveMix W.serve
  rw [layoutMix_eq_layout cfg h h1, (filesOf_one h).mp h1, hp]
  simp only [List.idxOf_cons_self, cof_zero]
  cases W.fromPos (W.layout cfg h) p <;> rfl

/-! ### small helpers for the concrete checks of GV/Props/C16b.lean -/

/-- the packet lengths of the laid-out events of file `f` -/
def fileLens (l : List W.Laid) (f : Bytes) : List Nat := (l.filter (·.file == f)).map (·.bytes.length)

def allCfgs : List W.Cfg :=
  [⟨false, false, false⟩, ⟨false, false, true⟩, ⟨false, true, false⟩, ⟨false, true, true⟩,
   ⟨true, false, false⟩, ⟨true, false, true⟩, ⟨true, true, false⟩, ⟨true, true, true⟩]

/-- the SQL texts of the delivered statements, per handler call -/
def sqlsOf (o : Outcome) : List (List Bytes) := o.calls.map fun t => t.events.map fun e => (e.query.map (·.sql)).getD []

end C16b
end GV
