import GV.Spec.Decoded
import GV.Spec.History
import GV.Spec.CellWF
import GV.Props.C01
import GV.Props.C09b
import GV.Props.C15
/- helper lemmas for GV/Props/C01b.lean -/
namespace GV
namespace C01b
open Bytes M GV.C09R GV.Props.C01

/-! ### the front end (copies of the private helpers of Props/C01.lean) -/

theorem crc_pre {cfg : W.Cfg} {st : PState} (hr : Ready cfg st) {crc : Option Bytes} (hc : crcOK cfg crc) :
    C01.CrcFmt st.format crc := by
  unfold Ready at hr
  unfold C01.CrcFmt
  cases crc with
  | none => simp only [crcOK] at hc; simp [hr, fmtOf, hc]
  | some c => simp only [crcOK] at hc; simp [hr, fmtOf, hc.1, hc.2]

theorem meta_pre {crc : Option Bytes} {m : W.EvMeta} {start : Nat} {body : Bytes} (typ : Nat) (ht : typ < 256)
    (hok : EvOK crc m start body) : Props.C16.MetaOK m typ start (19 + body.length + Props.C16.crcLen crc) :=
  ⟨hok.1, hok.2.1, hok.2.2.1, ht, Nat.lt_of_le_of_lt (Nat.le_add_left _ _) hok.2.2.2, hok.2.2.2⟩

theorem notZero {cfg : W.Cfg} {st : PState} (hr : Ready cfg st) : st.format.isZero = false := by
  unfold Ready at hr; rw [hr]; rfl

theorem hl19 {cfg : W.Cfg} {st : PState} (hr : Ready cfg st) : st.format.headerLength = 19 := by
  unfold Ready at hr; rw [hr]; rfl

/-! ### post-header lengths announced by the Spec's FDE -/

theorem hs_tablemap (cfg : W.Cfg) :
    (fmtOf cfg).headerSize Facts.eTableMapEvent = .ok (if (if cfg.idw4 then 4 else 6) = 4 then 6 else 8) := by
  obtain ⟨a, b, c⟩ := cfg
  cases c <;> rfl

theorem hs_rows (cfg : W.Cfg) (k : W.RowKind) :
    (fmtOf cfg).headerSize (W.rowsEventType k cfg.rowsV2)
      = .ok (if (if cfg.idw4 then 4 else 6) = 4 then 6 else if cfg.rowsV2 then 10 else 8) := by
  obtain ⟨a, b, c⟩ := cfg
  cases a <;> cases c <;> cases b <;> cases k <;> decide

theorem rowsType_lt (k : W.RowKind) (v2 : Bool) : W.rowsEventType k v2 < 256 := by
  cases k <;> cases v2 <;> decide

/-! ### the table id, for every post-header length other than 6 -/

theorem tableID_gen (f : Format) (hf : f.headerLength = 19) (hdr : Bytes) (hh : hdr.length = 19) (typ hs : Nat)
    (idw id : Nat) (hidw : idw = 4 ∨ idw = 6) (rest : Bytes)
    (hT : evType (hdr ++ (ofLE idw id ++ rest)) = .ok typ)
    (hhs : f.headerSize typ = .ok hs) (hpos : (if hs = 6 then 4 else 6) = idw) (hid : id < 256 ^ idw) :
    tableID f (hdr ++ (ofLE idw id ++ rest)) = .ok id := by
  unfold tableID
  rw [hT]
  simp only [Res.ok_bind, hhs, hf]
  rcases hidw with rfl | rfl
  · have h6 : hs = 6 := by
      by_cases h : hs = 6
      · exact h
      · rw [if_neg h] at hpos; omega
    simp only [h6, if_true]
    rw [C15.readLE_at hdr rest 19 4 id hh.symm, Nat.mod_eq_of_lt hid]
  · have h6 : ¬ hs = 6 := by
      intro h; rw [if_pos h] at hpos; omega
    have hg : ∀ k, k < 6 → Bytes.get (hdr ++ (ofLE 6 id ++ rest)) (19 + k) = .ok ((ofLE 6 id)[k]?.getD 0) := by
      intro k hk
      unfold Bytes.get
      rw [List.getElem?_append_right (by omega), hh, Nat.add_sub_cancel_left,
        List.getElem?_append_left (by simp; omega)]
      have : k < (ofLE 6 id).length := by simp; omega
      simp [List.getElem?_eq_getElem this]
    have h0 := hg 0 (by omega)
    have h1 := hg 1 (by omega)
    have h2 := hg 2 (by omega)
    have h3 := hg 3 (by omega)
    have h4 := hg 4 (by omega)
    have h5 := hg 5 (by omega)
    simp only [Nat.add_zero, Nat.reduceAdd] at h0 h1 h2 h3 h4 h5
    simp only [h6, if_false, Nat.reduceAdd, h0, h1, h2, h3, h4, h5, Res.ok_bind, Res.pure_eq]
    have : [(ofLE 6 id)[0]?.getD 0, (ofLE 6 id)[1]?.getD 0, (ofLE 6 id)[2]?.getD 0, (ofLE 6 id)[3]?.getD 0,
        (ofLE 6 id)[4]?.getD 0, (ofLE 6 id)[5]?.getD 0] = ofLE 6 id := by simp [ofLE]
    rw [this, le_ofLE, Nat.mod_eq_of_lt hid]

theorem tableMapBody_split (idw id flags : Nat) (db tbl : Bytes) (cols : List W.ColDef) (optional : Bytes) :
    ∃ rest, W.tableMapBody idw id flags db tbl cols optional = ofLE idw id ++ rest := by
  unfold W.tableMapBody
  simp only [List.append_assoc]
  exact ⟨_, rfl⟩

/-! ### the rows decoder looks at the table map's types and metadata only -/

theorem skipImage_congr (data : Bytes) (tm tm' : TableMap) (ht : tm.types = tm'.types) (hm : tm.metadata = tm'.metadata)
    (present nulls : Bitmap) : ∀ (n c vi pos : Nat),
    skipImage data tm present nulls n c vi pos = skipImage data tm' present nulls n c vi pos := by
  intro n
  induction n with
  | zero => intro c vi pos; simp [skipImage]
  | succ n ih =>
    intro c vi pos
    simp only [skipImage, ht, hm, ih]

theorem rowsLoop_congr (data : Bytes) (tm tm' : TableMap) (ht : tm.types = tm'.types) (hm : tm.metadata = tm'.metadata)
    (hi hd : Bool) (cc : Nat) (idc dc : Bitmap) (ni nd : Nat) : ∀ (fuel pos : Nat),
    rowsLoop data tm hi hd cc idc dc ni nd fuel pos = rowsLoop data tm' hi hd cc idc dc ni nd fuel pos := by
  intro fuel
  induction fuel with
  | zero => intro pos; simp [rowsLoop]
  | succ n ih =>
    intro pos
    simp only [rowsLoop, skipImage_congr data tm tm' ht hm, ih]

theorem rows_congr (f : Format) (tm tm' : TableMap) (ht : tm.types = tm'.types) (hm : tm.metadata = tm'.metadata)
    (ev : Bytes) : M.rows f tm ev = M.rows f tm' ev := by
  unfold M.rows
  simp only [rowsLoop_congr _ tm tm' ht hm]

/-! ### the cached table map / mapper answer of a Spec table (mirrors of the definitions in Props/C01b.lean) -/

def tmOf (t : W.TableDef) : TableMap :=
  { flags := 1, database := t.db, name := t.name, types := t.cols.map (fun c => UInt8.ofNat c.typ),
    canBeNull := ⟨W.bitmapBytes (t.cols.map (·.nullable)), t.cols.length⟩, metadata := t.cols.map (·.md) }

def infoOf (t : W.TableDef) : TableInfo := { db := t.db, table := t.name, columns := List.zip t.names t.unsigned }

def colsU (t : W.TableDef) : List (W.ColDef × Bool) := List.zip t.cols t.unsigned

def mk : W.RowKind → RowKind
  | .write => .write | .update => .update | .delete => .delete

theorem colsU_length (t : W.TableDef) (hu : t.unsigned.length = t.cols.length) : (colsU t).length = t.cols.length := by
  simp [colsU, hu]

theorem colsU_fst (t : W.TableDef) (hu : t.unsigned.length = t.cols.length) : (colsU t).map (·.1) = t.cols := by
  unfold colsU
  rw [List.map_fst_zip]
  omega

theorem colsU_typ (t : W.TableDef) (h : ∀ c ∈ t.cols, c.typ < 256) : ∀ c ∈ colsU t, c.1.typ < 256 := by
  intro c hc
  obtain ⟨a, b⟩ := c
  exact h a (List.of_mem_zip hc).1

/-- the column loop on one decoded image of table `t`, against the cached map and the mapper's answer -/
theorem rc_table (E : Ext) (t : W.TableDef) (hn : t.names.length = t.cols.length)
    (hu : t.unsigned.length = t.cols.length) (htyp : ∀ c ∈ t.cols, c.typ < 256)
    (ps : List Bool) (hps : ps.length = t.cols.length) (vals : List (Option W.CellVal))
    (hok : ImgOK (W.selectPresent ps (colsU t)) vals) (k n : Nat) :
    rowColumns E (tmOf t) (infoOf t) ⟨W.bitmapBytes ps, k⟩ ⟨W.bitmapBytes (vals.map (·.isNone)), n⟩
      (cellsOf (W.selectPresent ps (colsU t)) vals) t.cols.length 0 0 0
      = .ok (expectCols E (colsU t) ps t.names vals) := by
  have hl := colsU_length t hu
  have := rc_gen E (tmOf t) (infoOf t) ⟨W.bitmapBytes ps, k⟩ ⟨W.bitmapBytes (vals.map (·.isNone)), n⟩ []
    (colsU t) ps t.names vals 0 0 [] (by omega) (by omega) hok (colsU_typ t htyp)
    (by intro j b hj; rw [Nat.zero_add]; exact bit_written _ _ _ _ hj)
    (by
      intro j col hj
      rw [Nat.zero_add]
      obtain ⟨a, b⟩ := col
      simp only [colsU, List.getElem?_zip_eq_some] at hj
      simp [tmOf, Bytes.get, hj.1])
    (by
      intro j nm col hj hj'
      rw [Nat.zero_add]
      obtain ⟨a, b⟩ := col
      simp only [colsU, List.getElem?_zip_eq_some] at hj'
      simp [infoOf, List.getElem?_zip_eq_some, hj, hj'.2])
    (by intro j v hj; exact nulls_written _ _ _ _ _ hj rfl)
  rw [hl] at this
  simpa using this

/-- `rowsOf` over rows built one by one -/
theorem rowsOf_map (E : Ext) (tc : TableCache) (rs : Rows) (k : W.RowKind) {α} (f : α → Row)
    (V I : α → List ColumnData) : ∀ (rows : List α),
    (k ≠ .delete → ∀ r ∈ rows, getValuesFromRow E tc.tableMap tc.info rs (f r) = .ok (V r)) →
    (k ≠ .write → ∀ r ∈ rows, getIdentifiesFromRow E tc.tableMap tc.info rs (f r) = .ok (I r)) →
    rowsOf E tc rs (mk k) (rows.map f)
      = .ok (if k = .delete then [] else rows.map V, if k = .write then [] else rows.map I) := by
  intro rows
  induction rows with
  | nil => intro _ _; cases k <;> simp [rowsOf]
  | cons r rows ih =>
    intro hv hi
    have ih' := ih (fun h x hx => hv h x (List.mem_cons_of_mem _ hx)) (fun h x hx => hi h x (List.mem_cons_of_mem _ hx))
    cases k with
    | write =>
      have h1 := hv (by decide) r List.mem_cons_self
      simp only [mk] at ih'
      simp only [List.map_cons, rowsOf, mk, h1, ih', Res.ok_bind, Res.pure_eq]
      simp
    | update =>
      have h1 := hv (by decide) r List.mem_cons_self
      have h2 := hi (by decide) r List.mem_cons_self
      simp only [mk] at ih'
      simp only [List.map_cons, rowsOf, mk, h1, h2, ih', Res.ok_bind, Res.pure_eq]
      simp
    | delete =>
      have h2 := hi (by decide) r List.mem_cons_self
      simp only [mk] at ih'
      simp only [List.map_cons, rowsOf, mk, h2, ih', Res.ok_bind, Res.pure_eq]
      simp

theorem bne_write (k : W.RowKind) : ((k != .write) = true) ↔ k ≠ .write := by cases k <;> decide
theorem bne_delete (k : W.RowKind) : ((k != .delete) = true) ↔ k ≠ .delete := by cases k <;> decide

/-- what `binlogEvent.Rows` returns for a written rows event of table `t`, decoded with the cached map -/
def rowsOfTable (t : W.TableDef) (k : W.RowKind) (flags : Nat) (pb pa : List Bool) (rows : List RowV) : Rows :=
  { flags := flags,
    identifyColumns := if (k != .write) then ⟨W.bitmapBytes pb, t.cols.length⟩ else emptyBitmap,
    dataColumns := if (k != .delete) then ⟨W.bitmapBytes pa, t.cols.length⟩ else emptyBitmap,
    rows := rows.map (mkRow (k != .write) (k != .delete) (W.selectPresent pb (colsU t)) (W.selectPresent pa (colsU t))
      (if (k != .write) then (W.selectPresent pb (colsU t)).length else 0)
      (if (k != .delete) then (W.selectPresent pa (colsU t)).length else 0)) }

theorem rows_table (f : Format) (hf : f.headerLength = 19) (hdr : Bytes) (hh : hdr.length = 19)
    (k : W.RowKind) (v2 : Bool) (idw id flags : Nat) (hidw : idw = 4 ∨ idw = 6)
    (t : W.TableDef) (hu : t.unsigned.length = t.cols.length) (hne : t.cols ≠ []) (hn : t.cols.length < 2 ^ 31)
    (extra : Bytes) (hex : extra.length < 65534) (pb pa : List Bool) (rows : List RowV)
    (hT : evType (hdr ++ W.rowsBody k v2 idw id flags extra t.cols pb pa rows) = .ok (W.rowsEventType k v2))
    (hhs : f.headerSize (W.rowsEventType k v2) = .ok (if idw = 4 then 6 else if v2 then 10 else 8))
    (hfl : flags < 65536) (hpb : pb.length = t.cols.length) (hpa : pa.length = t.cols.length)
    (hrows : ∀ r ∈ rows, (k ≠ .write → ImgOK (W.selectPresent pb (colsU t)) r.1) ∧
                         (k ≠ .delete → ImgOK (W.selectPresent pa (colsU t)) r.2))
    (hwide : ∀ r ∈ rows, 0 < ((if k ≠ .write then W.imageBytes ((W.selectPresent pb (colsU t)).map (·.1)) r.1 else []) ++
                              (if k ≠ .delete then W.imageBytes ((W.selectPresent pa (colsU t)).map (·.1)) r.2 else [])).length) :
    M.rows f (tmOf t) (hdr ++ W.rowsBody k v2 idw id flags extra t.cols pb pa rows)
      = .ok (rowsOfTable t k flags pb pa rows) := by
  have hl := colsU_length t hu
  have hfst := colsU_fst t hu
  have hcne : colsU t ≠ [] := by
    intro h; rw [h] at hl; simp at hl; exact hne (List.eq_nil_of_length_eq_zero hl.symm)
  have hS : (hdr ++ W.rowsBody k v2 idw id flags extra t.cols pb pa rows).sliceFrom f.headerLength
      = .ok (W.rowsBody k v2 idw id flags extra t.cols pb pa rows) := by
    rw [hf]; exact C15.sliceFrom_app hdr _ 19 hh.symm
  have hpos : (if (if idw = 4 then 6 else if v2 then 10 else 8) = 6 then 4 else 6) = idw := by
    rcases hidw with rfl | rfl <;> cases v2 <;> simp
  have hkw := bne_write k
  have hkd := bne_delete k
  have key := rows_walk f _ _ _ _ hT hS hhs (k != .write) (k != .delete) v2
    (by cases k <;> cases v2 <;> decide) (by cases k <;> cases v2 <;> decide) (by cases k <;> cases v2 <;> decide)
    (by cases k <;> decide) idw id flags hpos hfl extra hex (colsU t) hcne (by omega) pb pa (by omega) (by omega) rows
    (fun r hr => ⟨fun h => (hrows r hr).1 (hkw.mp h), fun h => (hrows r hr).2 (hkd.mp h)⟩)
    (by
      intro r hr
      have := hwide r hr
      simpa only [rowBytes, hkw, hkd] using this)
    (by rw [← rowsBody_eq k v2 idw id flags extra (colsU t) pb pa rows, hfst])
  have e := rows_congr f (tmOf t)
    { flags := 0, database := [], name := [], types := (colsU t).map (fun c => UInt8.ofNat c.1.typ),
      canBeNull := ⟨[], 0⟩, metadata := (colsU t).map (fun c => c.1.md) }
    (by simp [tmOf, ← hfst]) (by simp [tmOf, ← hfst]) (hdr ++ W.rowsBody k v2 idw id flags extra t.cols pb pa rows)
  rw [e, key, hl]
  rfl

/-- converting the decoded rows of table `t` with the cached map and the mapper's answer -/
theorem rowsOf_table (E : Ext) (t : W.TableDef) (hnm : t.names.length = t.cols.length)
    (hu : t.unsigned.length = t.cols.length) (htyp : ∀ c ∈ t.cols, c.typ < 256)
    (k : W.RowKind) (flags : Nat) (pb pa : List Bool) (hpb : pb.length = t.cols.length) (hpa : pa.length = t.cols.length)
    (rows : List RowV)
    (hrows : ∀ r ∈ rows, (k ≠ .write → ImgOK (W.selectPresent pb (colsU t)) r.1) ∧
                         (k ≠ .delete → ImgOK (W.selectPresent pa (colsU t)) r.2)) :
    rowsOf E ⟨tmOf t, infoOf t⟩ (rowsOfTable t k flags pb pa rows) (mk k) (rowsOfTable t k flags pb pa rows).rows
      = .ok (if k = .delete then [] else rows.map (fun r => expectCols E (colsU t) pa t.names r.2),
             if k = .write then [] else rows.map (fun r => expectCols E (colsU t) pb t.names r.1)) := by
  have hcl : (infoOf t).columns.length = t.cols.length := by simp [infoOf, hnm, hu]
  apply rowsOf_map E ⟨tmOf t, infoOf t⟩ (rowsOfTable t k flags pb pa rows) k _
    (fun r => expectCols E (colsU t) pa t.names r.2) (fun r => expectCols E (colsU t) pb t.names r.1) rows
  · intro hk r hr
    have hb := (bne_delete k).mpr hk
    simp only [getValuesFromRow, rowsOfTable, hb, if_true, hcl, bne_self_eq_false, Bool.false_eq_true, if_false, mkRow]
    exact rc_table E t hnm hu htyp pa hpa r.2 ((hrows r hr).2 hk) _ _
  · intro hk r hr
    have hb := (bne_write k).mpr hk
    simp only [getIdentifiesFromRow, rowsOfTable, hb, if_true, hcl, bne_self_eq_false, Bool.false_eq_true, if_false, mkRow]
    exact rc_table E t hnm hu htyp pb hpb r.1 ((hrows r hr).1 hk) _ _

/-- the dispatch of `classify` on a rows event, once every decoder's answer is known -/
theorem classify_rows_generic (env : Env) (st : PState) (ev0 ev : Bytes) (k : W.RowKind) (v2 : Bool)
    (h1 : isValid ev0 = true) (h2 : evType ev0 = .ok (W.rowsEventType k v2)) (hz : st.format.isZero = false)
    (h3 : stripChecksum56 st.format ev0 = .ok ev) (h4 : evType ev = .ok (W.rowsEventType k v2))
    (id : Nat) (tc : TableCache) (rs : Rows) (next ts : Nat) (vals ids : List (List ColumnData))
    (hid : tableID st.format ev = .ok id) (hf : findTable st.tables id = some tc)
    (hrows : M.rows st.format tc.tableMap ev = .ok rs) (hn : evNextPosition ev = .ok next)
    (hts : evTimestamp ev = .ok ts) (hro : rowsOf env.ext tc rs (mk k) rs.rows = .ok (vals, ids)) :
    classify env st ev0 = .rows { typ := kindStmt (mk k), table := (tc.info.db, tc.info.table), query := none,
                                  timestamp := ts, rowValues := vals, rowIdentifies := ids } next ts := by
  cases k <;> cases v2 <;>
    simp only [W.rowsEventType, mk] at h2 h4 hro ⊢ <;>
    simp [classify, h1, h2, h3, h4, hz, ofRes, hid, hf, hrows, hn, hts, hro, Facts.eFormatDescriptionEvent, Facts.eXIDEvent,
      Facts.eRotateEvent, Facts.eQueryEvent, Facts.eTableMapEvent, Facts.eWriteRowsEventV1, Facts.eWriteRowsEventV2,
      Facts.eUpdateRowsEventV1, Facts.eUpdateRowsEventV2, Facts.eDeleteRowsEventV1, Facts.eDeleteRowsEventV2]

theorem tableID_body (f : Format) (hf : f.headerLength = 19) (hdr : Bytes) (hh : hdr.length = 19) (typ hs : Nat)
    (idw id : Nat) (hidw : idw = 4 ∨ idw = 6) (body rest : Bytes) (hb : body = ofLE idw id ++ rest)
    (hT : evType (hdr ++ body) = .ok typ)
    (hhs : f.headerSize typ = .ok hs) (hpos : (if hs = 6 then 4 else 6) = idw) (hid : id < 256 ^ idw) :
    tableID f (hdr ++ body) = .ok id := by
  subst hb
  exact tableID_gen f hf hdr hh typ hs idw id hidw rest hT hhs hpos hid

theorem rowsBody_split (k : W.RowKind) (v2 : Bool) (idw id flags : Nat) (extra : Bytes) (cols : List W.ColDef)
    (pb pa : List Bool) (rows : List RowV) :
    ∃ rest, W.rowsBody k v2 idw id flags extra cols pb pa rows = ofLE idw id ++ rest := by
  unfold W.rowsBody
  simp only [List.append_assoc]
  exact ⟨_, rfl⟩

end C01b
end GV
