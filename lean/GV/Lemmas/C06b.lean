import GV.Lemmas.C15b
/-
  Definitions and helper lemmas for GV/Props/C06b.lean: a rows event that carries a value the per-type VALUE decoder
  (`cellBytes`) rejects although the per-type LENGTH rule (`cellLength`) accepts it (C06, byte level), and a rows event
  for a table id re-announced with another column count than the one the table mapper answered at the first
  announcement (C15, byte level).
  Sections: the statements' vocabulary; `binlogEvent.Rows` splits a rows event with the LENGTH rule only (the machinery
  of GV/Lemmas/C09Rows.lean re-done for cells that need not be decodable); the row conversion on an image holding an
  undecodable value; the two packet-level results (`classify … = .decodeErr`); the stream-level skeleton (a run that
  stops at the rows event of a change inside a unit, in the style of GV/Lemmas/C15b.lean) and its two instances.
-/
namespace GV
namespace C06b
open Bytes M GV.C09R GV.Props.C01 GV.Props.C01b
open GV.C01c (posOf toTx seOfChange seOfStmt ChangeOK UnitOK StmtOK isChangeCat changeRows unitRows histRows
  endOf bytesAt crcN Bnd bnd_cons bnd_none bnd_commit layoutAux_none layoutAux_commit layoutAux_rotate layoutAux_restart
  cl_query cl_tm_known tmAEv layout_eq fromPos_head serve_head crcOf_ok evOK_at histRows_cons)
open GV.C15b

/-! ### the statements' vocabulary -/

/-- the column types / metadata whose cells the LENGTH rule measures (a fixed number of bytes, returned here) while the
    VALUE decoder rejects every such cell:
      * ENUM announced the usual way — type 254 (STRING) with metadata `247 * 256 + w` — with a pack size `w` that is
        neither 1 nor 2 ("unexpected enum size");
      * ENUM announced directly — type 247 — with `md % 256` neither 1 nor 2;
      * type 6 (MYSQL_TYPE_NULL): length 0, no case in the value decoder. -/
def badWidth (c : W.ColDef) : Option Nat :=
  if c.typ = 254 ∧ c.md / 256 = 247 ∧ c.md % 256 ≠ 1 ∧ c.md % 256 ≠ 2 then some (c.md % 256)
  else if c.typ = 247 ∧ c.md % 256 ≠ 1 ∧ c.md % 256 ≠ 2 then some (c.md % 256)
  else if c.typ = 6 then some 0
  else none

/-- a cell of a column the value decoder rejects, written as exactly the number of bytes the length rule expects
    (`.raw b t` with `b.length = w`, `.enum w n`, … — any value whose written form has that length) -/
def CellBad (c : W.ColDef) (v : W.CellVal) : Prop := ∃ w, badWidth c = some w ∧ (W.cell c.typ c.md v).length = w

/-- a well-formed cell, or a cell of a rejected column type with the right length -/
def CellFine (col : W.ColDef × Bool) (v : W.CellVal) : Prop := W.CellOK col.1.typ col.1.md col.2 v ∨ CellBad col.1 v

/-- `Props.C09b.ImageOK` with `CellFine` for `W.CellOK` -/
def ImageLoose (cols : List (W.ColDef × Bool)) (vals : List (Option W.CellVal)) : Prop :=
  cols.length = vals.length ∧
  ∀ p ∈ List.zip cols vals, match p.2 with | some v => CellFine p.1 v | none => True

/-- the image holds a non-NULL value in a column of a rejected type -/
def imageHasBad (cols : List (W.ColDef × Bool)) (vals : List (Option W.CellVal)) : Prop :=
  ∃ p ∈ List.zip cols vals, p.2.isSome = true ∧ (badWidth p.1.1).isSome = true

instance (cols : List (W.ColDef × Bool)) (vals : List (Option W.CellVal)) : Decidable (imageHasBad cols vals) := by
  unfold imageHasBad; infer_instance

/-- a rows change that is well formed (`Props.C01b.RowsOK`) except that cells of rejected column types are allowed
    (`images`), and that does carry such a cell, non-NULL, in an image the event has: the before image of an UPDATE /
    DELETE row or the after image of a WRITE / UPDATE row (`bad`) -/
structure BadValueChange (cfg : W.Cfg) (c : W.RowsChange) : Prop where
  table : TableOK cfg c.table
  pb : c.presentBefore.length = c.table.cols.length
  pa : c.presentAfter.length = c.table.cols.length
  flags : c.flags < 65536
  extra : c.extra.length < 65534
  ts : c.ts < 2 ^ 32
  images : ∀ r ∈ c.rows, (c.kind ≠ .write → ImageLoose (W.selectPresent c.presentBefore (colsU c.table)) r.1) ∧
                          (c.kind ≠ .delete → ImageLoose (W.selectPresent c.presentAfter (colsU c.table)) r.2)
  wide : ∀ r ∈ c.rows, 0 < ((if c.kind ≠ .write then W.imageBytes ((W.selectPresent c.presentBefore (colsU c.table)).map (·.1)) r.1 else []) ++
                            (if c.kind ≠ .delete then W.imageBytes ((W.selectPresent c.presentAfter (colsU c.table)).map (·.1)) r.2 else [])).length
  bad : ∃ r ∈ c.rows, (c.kind ≠ .write ∧ imageHasBad (W.selectPresent c.presentBefore (colsU c.table)) r.1) ∨
                      (c.kind ≠ .delete ∧ imageHasBad (W.selectPresent c.presentAfter (colsU c.table)) r.2)

/-- the unit `u` holds the rows change `c`, preceded (inside `u`) by the changes `pre`: an autocommitted rows change
    (`pre = []`) or a transaction `BEGIN, pre …, c, …` (what follows `c` in the transaction, and how it is closed, is
    arbitrary) -/
def UnitAt (u : W.Unit) (pre : List W.Change) (c : W.RowsChange) : Prop :=
  (u = .autoRows c ∧ pre = []) ∨
  ∃ b post close ts, u = .tx b (pre ++ .rows c :: post) close ts ∧ statementCategory b = Facts.StatementBegin ∧ ts < 2 ^ 32

/-- the rows changes of the log before `c`: those of h₁, then those of `pre` -/
def rowsBefore (h₁ : W.History) (pre : List W.Change) : List W.RowsChange := histRows h₁ ++ changeRows pre

/-- the log up to the change `c` is well formed: units of h₁ and the changes of `pre` OK; and for the rows changes `R`
    (those in front of `c` — `rowsBefore h₁ pre` — plus `c` itself when its own table map is to be accepted and
    used): the table definitions sharing an id look the same to the mapper (`agree`), every change uses the definition
    most recently announced for its id or announces itself (`current`), the mapper knows the tables (`mapper`); every
    event of h₁ ++ [u] ends below 4 GiB (`offsets`).  Nothing is said about the rest of `u` or about what follows. -/
structure WFUpTo (cfg : W.Cfg) (env : Env) (h₁ : W.History) (u : W.Unit) (pre : List W.Change) (R : List W.RowsChange) :
    Prop where
  units : ∀ u' ∈ h₁, UnitOK cfg u'
  changes : ∀ ch ∈ pre, ChangeOK cfg ch
  agree : ∀ c1 ∈ R, ∀ c2 ∈ R, c1.table.id = c2.table.id → SameInfo c1.table c2.table
  current : curOK [] R
  mapper : ∀ c' ∈ R, env.mapper c'.table.db c'.table.name = some (infoOf c'.table)
  offsets : ∀ e ∈ W.layout cfg (h₁ ++ [u]), e.next < 2 ^ 32

/-! ### the rejected column types: the length rule accepts, the value decoder rejects -/

theorem badWidth_spec (c : W.ColDef) (w : Nat) (h : badWidth c = some w) :
    w < 256 ∧ (∀ data pos, cellLength data pos c.typ c.md = .ok w) ∧
    (∀ E data pos u, cellBytes E data pos c.typ c.md u = .err) := by
  unfold badWidth at h
  split at h
  · rename_i h1
    obtain ⟨ht, hm, h1, h2⟩ := h1
    cases h
    refine ⟨Nat.mod_lt _ (by decide), ?_, ?_⟩
    · intro data pos
      rw [ht, C09.cl_none _ _ _ _ (by decide)]
      simp [hm]
    · intro E data pos u
      unfold cellBytes
      simp [ht, hm, h1, h2]
  · split at h
    · rename_i h1
      obtain ⟨ht, h1, h2⟩ := h1
      cases h
      refine ⟨Nat.mod_lt _ (by decide), ?_, ?_⟩
      · intro data pos
        rw [ht, C09.cl_none _ _ _ _ (by decide)]
        simp
      · intro E data pos u
        unfold cellBytes
        simp [ht, h1, h2]
    · split at h
      · rename_i ht
        cases h
        refine ⟨by decide, ?_, ?_⟩
        · intro data pos
          rw [ht]; exact cl_fixed _ _ _ _ _ (by decide)
        · intro E data pos u
          unfold cellBytes
          simp [ht]
      · cases h

theorem badWidth_typ (c : W.ColDef) (w : Nat) (h : badWidth c = some w) : c.typ < 256 := by
  unfold badWidth at h
  split at h
  · rename_i h1; omega
  · split at h
    · rename_i h1; omega
    · split at h
      · rename_i h1; omega
      · cases h

/-! ### `binlogEvent.Rows` needs the LENGTH rule only -/

/-- the length rule measures the written cell exactly, wherever it stands -/
def LenOK (typ md : Nat) (v : W.CellVal) : Prop :=
  typ < 256 ∧ ∀ pre rest : Bytes,
    cellLength (pre ++ (W.cell typ md v ++ rest)) pre.length typ md = .ok (W.cell typ md v).length

def ImgLen (cols : List (W.ColDef × Bool)) (vals : List (Option W.CellVal)) : Prop :=
  cols.length = vals.length ∧
  ∀ p ∈ List.zip cols vals, match p.2 with | some v => LenOK p.1.1.typ p.1.1.md v | none => True

theorem lenOK_of_fine (col : W.ColDef × Bool) (v : W.CellVal) (h : CellFine col v) : LenOK col.1.typ col.1.md v := by
  rcases h with h | ⟨w, hw, hl⟩
  · exact ⟨cellOK_typ_lt _ _ _ _ h,
      fun pre rest => (cell_exact ⟨fun _ => [], fun _ => [], fun _ => [], fun _ => 0⟩ _ _ _ _ h pre rest).1⟩
  · refine ⟨badWidth_typ _ _ hw, fun pre rest => ?_⟩
    rw [(badWidth_spec _ _ hw).2.1, hl]

theorem imgLen_of_loose {cols : List (W.ColDef × Bool)} {vals : List (Option W.CellVal)} (h : ImageLoose cols vals) :
    ImgLen cols vals := by
  refine ⟨h.1, fun p hp => ?_⟩
  have := h.2 p hp
  obtain ⟨col, v⟩ := p
  cases v with
  | none => trivial
  | some x => exact lenOK_of_fine col x this

theorem imgLen_cons (col : W.ColDef × Bool) (cs : List (W.ColDef × Bool)) (v : Option W.CellVal)
    (vs : List (Option W.CellVal)) (h : ImgLen (col :: cs) (v :: vs)) :
    (∀ x, v = some x → LenOK col.1.typ col.1.md x) ∧ ImgLen cs vs := by
  obtain ⟨hl, hall⟩ := h
  refine ⟨?_, by simpa using hl, ?_⟩
  · intro x hx; subst hx
    exact hall (col, some x) (by simp)
  · intro p hp
    exact hall p (by simp [hp])

theorem skip_len (tm : TableMap) (pb nb : Bitmap) (rest : Bytes) :
    ∀ (cs : List (W.ColDef × Bool)) (ps : List Bool) (vs : List (Option W.CellVal)) (c vi : Nat) (pre : Bytes),
      ps.length = cs.length →
      ImgLen (W.selectPresent ps cs) vs →
      (∀ j b, ps[j]? = some b → pb.bit (c + j) = .ok b) →
      (∀ j col, cs[j]? = some col →
        tm.types.get (c + j) = .ok (UInt8.ofNat col.1.typ) ∧ tm.metadata[c + j]? = some col.1.md) →
      (∀ j v, vs[j]? = some v → nb.bit (vi + j) = .ok v.isNone) →
      skipImage (pre ++ (cellsOf (W.selectPresent ps cs) vs ++ rest)) tm pb nb cs.length c vi pre.length
        = .ok (pre.length + (cellsOf (W.selectPresent ps cs) vs).length) := by
  intro cs
  induction cs with
  | nil =>
    intro ps vs c vi pre hl hok hp ht hn
    simp [skipImage, W.selectPresent, cellsOf]
  | cons col cs ih =>
    intro ps vs c vi pre hl hok hp ht hn
    cases ps with
    | nil => simp at hl
    | cons p ps =>
      have hl' : ps.length = cs.length := by simpa using hl
      have hp0 := hp 0 p rfl
      have ht0 := ht 0 col rfl
      have hp' : ∀ j b, ps[j]? = some b → pb.bit (c + 1 + j) = .ok b := by
        intro j b hj; have := hp (j + 1) b (by simpa using hj); rwa [Nat.add_assoc, Nat.add_comm 1 j]
      have ht' : ∀ j col, cs[j]? = some col →
          tm.types.get (c + 1 + j) = .ok (UInt8.ofNat col.1.typ) ∧ tm.metadata[c + 1 + j]? = some col.1.md := by
        intro j b hj; have := ht (j + 1) b (by simpa using hj); rwa [Nat.add_assoc, Nat.add_comm 1 j]
      rw [Nat.add_zero] at hp0 ht0
      simp only [List.length_cons, skipImage, hp0, Res.ok_bind]
      cases p with
      | false =>
        rw [sel_false] at hok ⊢
        simp only [Bool.not_false, ↓reduceIte]
        exact ih ps vs (c + 1) vi pre hl' hok hp' ht' hn
      | true =>
        rw [sel_true] at hok ⊢
        simp only [Bool.not_true, Bool.false_eq_true, ↓reduceIte]
        cases vs with
        | nil => have := hok.1; simp at this
        | cons v vs =>
          obtain ⟨hv, hok'⟩ := imgLen_cons _ _ _ _ hok
          have hn0 := hn 0 v rfl
          rw [Nat.add_zero] at hn0
          have hn' : ∀ j v, vs[j]? = some v → nb.bit (vi + 1 + j) = .ok v.isNone := by
            intro j b hj; have := hn (j + 1) b (by simpa using hj); rwa [Nat.add_assoc, Nat.add_comm 1 j]
          simp only [hn0, Res.ok_bind]
          cases v with
          | none =>
            rw [cellsOf_none]
            simp only [Option.isNone_none, ↓reduceIte]
            exact ih ps vs (c + 1) (vi + 1) pre hl' hok' hp' ht' hn'
          | some x =>
            have hc := hv x rfl
            have hlt := hc.1
            rw [cellsOf_some]
            simp only [Option.isNone_some, Bool.false_eq_true, ↓reduceIte, ht0.1, ht0.2, Res.ok_bind,
              UInt8.toNat_ofNat', Nat.mod_eq_of_lt hlt, List.append_assoc]
            rw [hc.2 pre _]
            simp only [Res.ok_bind]
            have := ih ps vs (c + 1) (vi + 1) (pre ++ W.cell col.1.typ col.1.md x) hl' hok' hp' ht' hn'
            simp only [List.append_assoc, List.length_append] at this
            rw [this, List.length_append, Nat.add_assoc]

theorem img_facts_len (allCols : List (W.ColDef × Bool)) (ps : List Bool) (hp : ps.length = allCols.length)
    (vals : List (Option W.CellVal)) (hok : ImgLen (W.selectPresent ps allCols) vals) (pre rest : Bytes) (num n : Nat)
    (hnum : num = vals.length) (data : Bytes)
    (hdata : data = pre ++ (W.imageBytes ((W.selectPresent ps allCols).map (·.1)) vals ++ rest)) :
    let tm : TableMap := { flags := 0, database := [], name := [], types := allCols.map (fun c => UInt8.ofNat c.1.typ),
                           canBeNull := ⟨[], 0⟩, metadata := allCols.map (fun c => c.1.md) }
    let bmB := W.bitmapBytes (vals.map (·.isNone))
    let cells := cellsOf (W.selectPresent ps allCols) vals
    newBitmap data pre.length num = .ok (⟨bmB, num⟩, pre.length + bmB.length) ∧
    skipImage data tm ⟨W.bitmapBytes ps, n⟩ ⟨bmB, num⟩ allCols.length 0 0 (pre.length + bmB.length)
      = .ok (pre.length + bmB.length + cells.length) ∧
    data.slice (pre.length + bmB.length) (pre.length + bmB.length + cells.length) = .ok cells ∧
    pre.length + bmB.length + cells.length
      = (pre ++ W.imageBytes ((W.selectPresent ps allCols).map (·.1)) vals).length := by
  intro tm bmB cells
  subst hdata
  rw [imageBytes_eq]
  refine ⟨?_, ?_, ?_, ?_⟩
  · rw [List.append_assoc]
    exact newBitmap_written pre _ _ num _ (by simp [hnum]) rfl
  · have := skip_len tm ⟨W.bitmapBytes ps, n⟩ ⟨bmB, num⟩ rest allCols ps vals 0 0 (pre ++ bmB) hp hok
      (by intro j b hj; rw [Nat.zero_add]; exact bit_written _ _ _ _ hj)
      (by intro j col hj; rw [Nat.zero_add]; simp [tm, Bytes.get, hj])
      (by intro j v hj; exact nulls_written _ _ _ _ _ hj rfl)
    simpa only [List.append_assoc, List.length_append] using this
  · have := slice_mid (pre ++ bmB) cells rest
    simpa only [List.append_assoc, List.length_append] using this
  · simp only [List.length_append, Nat.add_assoc, bmB, cells]

theorem loop_len (allCols : List (W.ColDef × Bool)) (pb pa : List Bool) (hpb : pb.length = allCols.length)
    (hpa : pa.length = allCols.length) (hi hd : Bool) (idCols dataCols : Bitmap) (numId numData : Nat)
    (hid : hi = true → idCols.data = W.bitmapBytes pb ∧ numId = (W.selectPresent pb allCols).length)
    (hdt : hd = true → dataCols.data = W.bitmapBytes pa ∧ numData = (W.selectPresent pa allCols).length) :
    ∀ (rows : List RowV),
      (∀ r ∈ rows, (hi = true → ImgLen (W.selectPresent pb allCols) r.1) ∧
                   (hd = true → ImgLen (W.selectPresent pa allCols) r.2)) →
      (∀ r ∈ rows, 0 < (rowBytes hi hd (W.selectPresent pb allCols) (W.selectPresent pa allCols) r).length) →
      ∀ (pre : Bytes) (fuel : Nat), rows.length < fuel →
      rowsLoop (pre ++ rows.flatMap (rowBytes hi hd (W.selectPresent pb allCols) (W.selectPresent pa allCols)))
        { flags := 0, database := [], name := [], types := allCols.map (fun c => UInt8.ofNat c.1.typ),
          canBeNull := ⟨[], 0⟩, metadata := allCols.map (fun c => c.1.md) }
        hi hd allCols.length idCols dataCols numId numData fuel pre.length
        = .ok (rows.map (mkRow hi hd (W.selectPresent pb allCols) (W.selectPresent pa allCols) numId numData)) := by
  intro rows
  induction rows with
  | nil =>
    intro _ _ pre fuel hf
    cases fuel with
    | zero => omega
    | succ fuel => simp [rowsLoop]
  | cons r rows ih =>
    intro hok hwide pre fuel hf
    cases fuel with
    | zero => omega
    | succ fuel =>
      have hok' := fun r hr => hok r (List.mem_cons_of_mem _ hr)
      have hwide' := fun r hr => hwide r (List.mem_cons_of_mem _ hr)
      have hokr := hok r List.mem_cons_self
      have hw := hwide r List.mem_cons_self
      have hlt : pre.length < (pre ++ (r :: rows).flatMap
          (rowBytes hi hd (W.selectPresent pb allCols) (W.selectPresent pa allCols))).length := by
        simp only [List.flatMap_cons, List.length_append]; omega
      rw [rowsLoop, if_pos hlt]
      obtain ⟨idb, idc⟩ := idCols
      obtain ⟨dtb, dtc⟩ := dataCols
      cases hi with
      | false =>
        cases hd with
        | false => simp [rowBytes] at hw
        | true =>
          obtain ⟨e1, e2⟩ := hdt rfl
          simp only at e1; subst e1
          have hokA := hokr.2 rfl
          have hD : pre ++ (r :: rows).flatMap (rowBytes false true (W.selectPresent pb allCols) (W.selectPresent pa allCols))
              = pre ++ (W.imageBytes ((W.selectPresent pa allCols).map (·.1)) r.2 ++
                rows.flatMap (rowBytes false true (W.selectPresent pb allCols) (W.selectPresent pa allCols))) := by
            simp [rowBytes]
          rw [hD]
          obtain ⟨f1, f2, f3, f4⟩ := img_facts_len allCols pa hpa r.2 hokA pre
            (rows.flatMap (rowBytes false true (W.selectPresent pb allCols) (W.selectPresent pa allCols)))
            numData dtc (by rw [e2]; exact hokA.1) _ rfl
          simp only [Bool.false_eq_true, ↓reduceIte, Res.pure_eq, Res.ok_bind, f1, f2, f3]
          rw [f4]
          have := ih hok' hwide' (pre ++ W.imageBytes ((W.selectPresent pa allCols).map (·.1)) r.2) fuel (by simpa using hf)
          simp only [List.append_assoc] at this
          simp only [this, Res.ok_bind, List.map_cons, mkRow, Bool.false_eq_true, ↓reduceIte]
      | true =>
        obtain ⟨e1, e2⟩ := hid rfl
        simp only at e1; subst e1
        have hokB := hokr.1 rfl
        cases hd with
        | false =>
          have hD : pre ++ (r :: rows).flatMap (rowBytes true false (W.selectPresent pb allCols) (W.selectPresent pa allCols))
              = pre ++ (W.imageBytes ((W.selectPresent pb allCols).map (·.1)) r.1 ++
                rows.flatMap (rowBytes true false (W.selectPresent pb allCols) (W.selectPresent pa allCols))) := by
            simp [rowBytes]
          rw [hD]
          obtain ⟨f1, f2, f3, f4⟩ := img_facts_len allCols pb hpb r.1 hokB pre
            (rows.flatMap (rowBytes true false (W.selectPresent pb allCols) (W.selectPresent pa allCols)))
            numId idc (by rw [e2]; exact hokB.1) _ rfl
          simp only [Bool.false_eq_true, ↓reduceIte, Res.pure_eq, Res.ok_bind, f1, f2, f3]
          rw [f4]
          have := ih hok' hwide' (pre ++ W.imageBytes ((W.selectPresent pb allCols).map (·.1)) r.1) fuel (by simpa using hf)
          simp only [List.append_assoc] at this
          simp only [this, Res.ok_bind, List.map_cons, mkRow, Bool.false_eq_true, ↓reduceIte]
        | true =>
          obtain ⟨g1, g2⟩ := hdt rfl
          simp only at g1; subst g1
          have hokA := hokr.2 rfl
          have hD : pre ++ (r :: rows).flatMap (rowBytes true true (W.selectPresent pb allCols) (W.selectPresent pa allCols))
              = pre ++ (W.imageBytes ((W.selectPresent pb allCols).map (·.1)) r.1 ++
                (W.imageBytes ((W.selectPresent pa allCols).map (·.1)) r.2 ++
                rows.flatMap (rowBytes true true (W.selectPresent pb allCols) (W.selectPresent pa allCols)))) := by
            simp [rowBytes]
          rw [hD]
          obtain ⟨f1, f2, f3, f4⟩ := img_facts_len allCols pb hpb r.1 hokB pre
            (W.imageBytes ((W.selectPresent pa allCols).map (·.1)) r.2 ++
              rows.flatMap (rowBytes true true (W.selectPresent pb allCols) (W.selectPresent pa allCols)))
            numId idc (by rw [e2]; exact hokB.1) _ rfl
          simp only [↓reduceIte, Res.pure_eq, Res.ok_bind, f1, f2, f3]
          rw [f4]
          obtain ⟨f1', f2', f3', f4'⟩ := img_facts_len allCols pa hpa r.2 hokA
            (pre ++ W.imageBytes ((W.selectPresent pb allCols).map (·.1)) r.1)
            (rows.flatMap (rowBytes true true (W.selectPresent pb allCols) (W.selectPresent pa allCols)))
            numData dtc (by rw [g2]; exact hokA.1) _ (List.append_assoc _ _ _).symm
          simp only [f1', f2', f3', Res.ok_bind]
          rw [f4']
          have := ih hok' hwide' ((pre ++ W.imageBytes ((W.selectPresent pb allCols).map (·.1)) r.1) ++
            W.imageBytes ((W.selectPresent pa allCols).map (·.1)) r.2) fuel (by simpa using hf)
          simp only [List.append_assoc] at this ⊢
          simp only [this, Res.ok_bind, List.map_cons, mkRow, ↓reduceIte]

/-- the header walk of `binlogEvent.Rows` followed by the rows loop, for the three Boolean shape parameters -/
theorem rows_walk_len (f : Format) (ev body : Bytes) (typ hs : Nat)
    (hT : evType ev = .ok typ) (hS : ev.sliceFrom f.headerLength = .ok body) (hH : f.headerSize typ = .ok hs)
    (hi hd v2 : Bool)
    (hhi : (typ = Facts.eUpdateRowsEventV1 ∨ typ = Facts.eUpdateRowsEventV2 ∨
            typ = Facts.eDeleteRowsEventV1 ∨ typ = Facts.eDeleteRowsEventV2) ↔ hi = true)
    (hhd : (typ = Facts.eWriteRowsEventV1 ∨ typ = Facts.eWriteRowsEventV2 ∨
            typ = Facts.eUpdateRowsEventV1 ∨ typ = Facts.eUpdateRowsEventV2) ↔ hd = true)
    (hv2 : (typ = Facts.eWriteRowsEventV2 ∨ typ = Facts.eUpdateRowsEventV2 ∨ typ = Facts.eDeleteRowsEventV2) ↔ v2 = true)
    (hor : hi = true ∨ hd = true)
    (idw id flags : Nat) (hpos : (if hs = 6 then 4 else 6) = idw) (hfl : flags < 65536)
    (extra : Bytes) (hex : extra.length < 65534)
    (allCols : List (W.ColDef × Bool)) (hne : allCols ≠ []) (hn : allCols.length < 2 ^ 31)
    (pb pa : List Bool) (hpb : pb.length = allCols.length) (hpa : pa.length = allCols.length)
    (rows : List RowV)
    (hok : ∀ r ∈ rows, (hi = true → ImgLen (W.selectPresent pb allCols) r.1) ∧
                       (hd = true → ImgLen (W.selectPresent pa allCols) r.2))
    (hwide : ∀ r ∈ rows, 0 < (rowBytes hi hd (W.selectPresent pb allCols) (W.selectPresent pa allCols) r).length)
    (hbody : body = ofLE idw id ++ (ofLE 2 flags ++ ((if v2 then ofLE 2 (2 + extra.length) ++ extra else []) ++
      (W.lenenc allCols.length ++ ((if hi then W.bitmapBytes pb else []) ++ ((if hd then W.bitmapBytes pa else []) ++
        rows.flatMap (rowBytes hi hd (W.selectPresent pb allCols) (W.selectPresent pa allCols)))))))) :
    M.rows f { flags := 0, database := [], name := [], types := allCols.map (fun c => UInt8.ofNat c.1.typ),
               canBeNull := ⟨[], 0⟩, metadata := allCols.map (fun c => c.1.md) } ev
      = .ok { flags := flags,
              identifyColumns := if hi then ⟨W.bitmapBytes pb, allCols.length⟩ else emptyBitmap,
              dataColumns := if hd then ⟨W.bitmapBytes pa, allCols.length⟩ else emptyBitmap,
              rows := rows.map (mkRow hi hd (W.selectPresent pb allCols) (W.selectPresent pa allCols)
                (if hi then (W.selectPresent pb allCols).length else 0)
                (if hd then (W.selectPresent pa allCols).length else 0)) } := by
  unfold M.rows
  simp only [hT, hS, hH, Res.ok_bind, hhi, hhd, hv2, Bool.decide_eq_true, hpos]
  -- flags
  have hflags : readLE body idw 2 = .ok flags := by
    rw [hbody, C15.readLE_at (ofLE idw id) _ idw 2 flags (by simp)]
    simp only [Nat.reducePow]; rw [Nat.mod_eq_of_lt hfl]
  simp only [hflags, Res.ok_bind]
  -- the prefix before the column count
  let P1 : Bytes := ofLE idw id ++ (ofLE 2 flags ++ (if v2 then ofLE 2 (2 + extra.length) ++ extra else []))
  let BB : Bytes := if hi then W.bitmapBytes pb else []
  let BA : Bytes := if hd then W.bitmapBytes pa else []
  let R : Bytes := rows.flatMap (rowBytes hi hd (W.selectPresent pb allCols) (W.selectPresent pa allCols))
  have hpos1 : (if v2 = true then (readLE body (idw + 2) 2 >>= fun edl => pure (idw + 2 + edl)) else pure (idw + 2))
      = Res.ok P1.length := by
    cases v2 with
    | false => simp [P1]
    | true =>
      have : body = (ofLE idw id ++ ofLE 2 flags) ++ (ofLE 2 (2 + extra.length) ++ (extra ++
        (W.lenenc allCols.length ++ (BB ++ (BA ++ R))))) := by simp [hbody, BB, BA, R]
      rw [if_pos rfl, this, C15.readLE_at _ _ (idw + 2) 2 (2 + extra.length) (by simp)]
      simp only [Nat.reducePow, Res.ok_bind, Res.pure_eq, P1, if_pos, List.length_append, ofLE_length]
      rw [Nat.mod_eq_of_lt (by omega)]
      congr 1; omega
  simp only [hpos1, Res.ok_bind]
  have hBBne : BB ++ (BA ++ R) ≠ [] := by
    have hpos : 0 < (allCols.length + 7) / 8 := by
      have : 0 < allCols.length := List.length_pos_iff.mpr hne
      omega
    intro h
    have h0 := congrArg List.length h
    simp only [List.length_append, List.length_nil, BB, BA] at h0
    rcases hor with h | h
    · rw [h, if_pos rfl, C15.bitmapBytes_length, hpb] at h0; omega
    · rw [h, if_pos rfl, C15.bitmapBytes_length, hpa] at h0; omega
  have hlen : readLenEncInt body P1.length
      = .ok (some (allCols.length, P1.length + (W.lenenc allCols.length).length)) := by
    have : body = P1 ++ (W.lenenc allCols.length ++ (BB ++ (BA ++ R))) := by simp [hbody, P1, BB, BA, R]
    rw [this]
    exact C15.lenenc_read' P1 _ allCols.length _ (by simp only [Nat.reducePow] at hn ⊢; omega) hBBne rfl
  have hmax : ¬ allCols.length > maxInt32 := by simp only [Nat.reducePow] at hn; unfold maxInt32; omega
  simp only [hlen, Res.ok_bind, hmax, ↓reduceIte]
  let P2 : Bytes := P1 ++ W.lenenc allCols.length
  have hP2 : P1.length + (W.lenenc allCols.length).length = P2.length := by simp [P2]
  rw [hP2]
  have hb2 : body = P2 ++ (BB ++ (BA ++ R)) := by simp [hbody, P2, P1, BB, BA, R]
  have hB : (if hi = true then
        (newBitmap body P2.length allCols.length >>= fun x => x.1.bitCount >>= fun n => pure (x.1, n, x.2))
      else pure (emptyBitmap, 0, P2.length))
      = Res.ok ((if hi then ⟨W.bitmapBytes pb, allCols.length⟩ else emptyBitmap : Bitmap),
          (if hi then (W.selectPresent pb allCols).length else 0), (P2 ++ BB).length) := by
    cases hi with
    | false => simp [BB]
    | true =>
      have : body = P2 ++ (W.bitmapBytes pb ++ (BA ++ R)) := by rw [hb2]; simp [BB]
      rw [if_pos rfl, this, newBitmap_written P2 _ pb _ _ hpb rfl]
      simp only [Res.ok_bind, Res.pure_eq, if_pos]
      have hc := bitCount_written pb
      rw [hpb] at hc
      rw [hc, sel_length pb allCols hpb]
      simp [BB]
  simp only [hB, Res.ok_bind]
  have hb3 : body = (P2 ++ BB) ++ (BA ++ R) := by rw [hb2]; simp
  have hA : (if hd = true then
        (newBitmap body (P2 ++ BB).length allCols.length >>= fun x => x.1.bitCount >>= fun n => pure (x.1, n, x.2))
      else pure (emptyBitmap, 0, (P2 ++ BB).length))
      = Res.ok ((if hd then ⟨W.bitmapBytes pa, allCols.length⟩ else emptyBitmap : Bitmap),
          (if hd then (W.selectPresent pa allCols).length else 0), ((P2 ++ BB) ++ BA).length) := by
    cases hd with
    | false => simp [BA]
    | true =>
      have : body = (P2 ++ BB) ++ (W.bitmapBytes pa ++ R) := by rw [hb3]; simp [BA]
      rw [if_pos rfl, this, newBitmap_written (P2 ++ BB) _ pa _ _ hpa rfl]
      simp only [Res.ok_bind, Res.pure_eq, if_pos]
      have hc := bitCount_written pa
      rw [hpa] at hc
      rw [hc, sel_length pa allCols hpa]
      simp [BA, Nat.add_assoc]
  simp only [hA, Res.ok_bind]
  have hb4 : body = ((P2 ++ BB) ++ BA) ++ R := by rw [hb3]; simp
  have hfuel : rows.length < body.length + 1 := by
    have h1 : rows.length ≤ R.length := by
      clear hb4 hb3 hA hB hb2 hlen hBBne hpos1 hflags hbody hok
      induction rows with
      | nil => simp
      | cons r rows ih =>
        have h0 := hwide r List.mem_cons_self
        have := ih (fun r hr => hwide r (List.mem_cons_of_mem _ hr))
        simp only [R, List.flatMap_cons, List.length_append, List.length_cons] at this ⊢
        omega
    have h2 : R.length ≤ body.length := by rw [hb4]; simp only [List.length_append]; omega
    omega
  have hloop := loop_len allCols pb pa hpb hpa hi hd
    (if hi then ⟨W.bitmapBytes pb, allCols.length⟩ else emptyBitmap)
    (if hd then ⟨W.bitmapBytes pa, allCols.length⟩ else emptyBitmap)
    (if hi then (W.selectPresent pb allCols).length else 0)
    (if hd then (W.selectPresent pa allCols).length else 0)
    (by intro h; simp [h]) (by intro h; simp [h]) rows hok hwide ((P2 ++ BB) ++ BA) (body.length + 1) hfuel
  rw [← hb4] at hloop
  simp only [hloop, Res.ok_bind, Res.pure_eq]

/-- what `binlogEvent.Rows` returns for a written rows event of table `t` whose cells are measured exactly by the
    length rule (decodable or not) -/
theorem rows_table_len (f : Format) (hf : f.headerLength = 19) (hdr : Bytes) (hh : hdr.length = 19)
    (k : W.RowKind) (v2 : Bool) (idw id flags : Nat) (hidw : idw = 4 ∨ idw = 6)
    (t : W.TableDef) (hu : t.unsigned.length = t.cols.length) (hne : t.cols ≠ []) (hn : t.cols.length < 2 ^ 31)
    (extra : Bytes) (hex : extra.length < 65534) (pb pa : List Bool) (rows : List RowV)
    (hT : evType (hdr ++ W.rowsBody k v2 idw id flags extra t.cols pb pa rows) = .ok (W.rowsEventType k v2))
    (hhs : f.headerSize (W.rowsEventType k v2) = .ok (if idw = 4 then 6 else if v2 then 10 else 8))
    (hfl : flags < 65536) (hpb : pb.length = t.cols.length) (hpa : pa.length = t.cols.length)
    (hrows : ∀ r ∈ rows, (k ≠ .write → ImgLen (W.selectPresent pb (colsU t)) r.1) ∧
                         (k ≠ .delete → ImgLen (W.selectPresent pa (colsU t)) r.2))
    (hwide : ∀ r ∈ rows, 0 < ((if k ≠ .write then W.imageBytes ((W.selectPresent pb (colsU t)).map (·.1)) r.1 else []) ++
                              (if k ≠ .delete then W.imageBytes ((W.selectPresent pa (colsU t)).map (·.1)) r.2 else [])).length) :
    M.rows f (tmOf t) (hdr ++ W.rowsBody k v2 idw id flags extra t.cols pb pa rows)
      = .ok (GV.C01b.rowsOfTable t k flags pb pa rows) := by
  have hcu : colsU t = GV.C01b.colsU t := rfl
  rw [hcu] at hrows hwide
  have hl := GV.C01b.colsU_length t hu
  have hfst := GV.C01b.colsU_fst t hu
  have hcne : GV.C01b.colsU t ≠ [] := by
    intro h; rw [h] at hl; simp at hl; exact hne (List.eq_nil_of_length_eq_zero hl.symm)
  have hS : (hdr ++ W.rowsBody k v2 idw id flags extra t.cols pb pa rows).sliceFrom f.headerLength
      = .ok (W.rowsBody k v2 idw id flags extra t.cols pb pa rows) := by
    rw [hf]; exact C15.sliceFrom_app hdr _ 19 hh.symm
  have hpos : (if (if idw = 4 then 6 else if v2 then 10 else 8) = 6 then 4 else 6) = idw := by
    rcases hidw with rfl | rfl <;> cases v2 <;> simp
  have hkw := GV.C01b.bne_write k
  have hkd := GV.C01b.bne_delete k
  have key := rows_walk_len f _ _ _ _ hT hS hhs (k != .write) (k != .delete) v2
    (by cases k <;> cases v2 <;> decide) (by cases k <;> cases v2 <;> decide) (by cases k <;> cases v2 <;> decide)
    (by cases k <;> decide) idw id flags hpos hfl extra hex (GV.C01b.colsU t) hcne (by omega) pb pa (by omega) (by omega) rows
    (fun r hr => ⟨fun h => (hrows r hr).1 (hkw.mp h), fun h => (hrows r hr).2 (hkd.mp h)⟩)
    (by
      intro r hr
      have := hwide r hr
      simpa only [rowBytes, hkw, hkd] using this)
    (by rw [← rowsBody_eq k v2 idw id flags extra (GV.C01b.colsU t) pb pa rows, hfst])
  have e := GV.C01b.rows_congr f (tmOf t)
    { flags := 0, database := [], name := [], types := (GV.C01b.colsU t).map (fun c => UInt8.ofNat c.1.typ),
      canBeNull := ⟨[], 0⟩, metadata := (GV.C01b.colsU t).map (fun c => c.1.md) }
    (by simp [tmOf, ← hfst]) (by simp [tmOf, ← hfst]) (hdr ++ W.rowsBody k v2 idw id flags extra t.cols pb pa rows)
  rw [e, key, hl]
  rfl

/-! ### the row conversion on an image with an undecodable value -/

theorem imageLoose_cons (col : W.ColDef × Bool) (cs : List (W.ColDef × Bool)) (v : Option W.CellVal)
    (vs : List (Option W.CellVal)) (h : ImageLoose (col :: cs) (v :: vs)) :
    (∀ x, v = some x → CellFine col x) ∧ ImageLoose cs vs := by
  obtain ⟨hl, hall⟩ := h
  refine ⟨?_, by simpa using hl, ?_⟩
  · intro x hx; subst hx
    exact hall (col, some x) (by simp)
  · intro p hp
    exact hall p (by simp [hp])

theorem imageHasBad_cons (col : W.ColDef × Bool) (cs : List (W.ColDef × Bool)) (v : Option W.CellVal)
    (vs : List (Option W.CellVal)) (h : imageHasBad (col :: cs) (v :: vs)) :
    (v.isSome = true ∧ (badWidth col.1).isSome = true) ∨ imageHasBad cs vs := by
  obtain ⟨p, hp, h1, h2⟩ := h
  simp only [List.zip_cons_cons, List.mem_cons] at hp
  rcases hp with rfl | hp
  · exact Or.inl ⟨h1, h2⟩
  · exact Or.inr ⟨p, hp, h1, h2⟩

/-- an image without a value of a rejected column type is a well-formed image -/
theorem imgOK_of_loose {cols : List (W.ColDef × Bool)} {vals : List (Option W.CellVal)} (h : ImageLoose cols vals)
    (hno : ¬ imageHasBad cols vals) : ImgOK cols vals := by
  refine ⟨h.1, fun p hp => ?_⟩
  have h1 := h.2 p hp
  obtain ⟨col, v⟩ := p
  cases v with
  | none => trivial
  | some x =>
    rcases h1 with h1 | ⟨w, hw, _⟩
    · exact h1
    · exact absurd ⟨(col, some x), hp, rfl, by simp [hw]⟩ hno

/-- the column loop on an image holding a non-NULL value of a rejected column type returns an error (the columns in
    front of it decode, those behind it are never looked at) -/
theorem rc_bad (E : Ext) (tm : TableMap) (ti : TableInfo) (pb nb : Bitmap) (rest : Bytes) :
    ∀ (cs : List (W.ColDef × Bool)) (ps : List Bool) (ns : List Bytes) (vs : List (Option W.CellVal)) (c vi : Nat)
      (pre : Bytes),
      ps.length = cs.length → ns.length = cs.length →
      ImageLoose (W.selectPresent ps cs) vs →
      imageHasBad (W.selectPresent ps cs) vs →
      (∀ col ∈ cs, col.1.typ < 256) →
      (∀ j b, ps[j]? = some b → pb.bit (c + j) = .ok b) →
      (∀ j col, cs[j]? = some col →
        tm.types.get (c + j) = .ok (UInt8.ofNat col.1.typ) ∧ tm.metadata[c + j]? = some col.1.md) →
      (∀ j n col, ns[j]? = some n → cs[j]? = some col → ti.columns[c + j]? = some (n, col.2)) →
      (∀ j v, vs[j]? = some v → nb.bit (vi + j) = .ok v.isNone) →
      rowColumns E tm ti pb nb (pre ++ (cellsOf (W.selectPresent ps cs) vs ++ rest)) cs.length c vi pre.length
        = .err := by
  intro cs
  induction cs with
  | nil =>
    intro ps ns vs c vi pre hl hnl hok hbad hty hp ht hti hn
    obtain ⟨p, hp', _⟩ := hbad
    simp [W.selectPresent] at hp'
  | cons col cs ih =>
    intro ps ns vs c vi pre hl hnl hok hbad hty hp ht hti hn
    cases ps with
    | nil => simp at hl
    | cons p ps =>
    cases ns with
    | nil => simp at hnl
    | cons n ns =>
      have hl' : ps.length = cs.length := by simpa using hl
      have hnl' : ns.length = cs.length := by simpa using hnl
      have hty' : ∀ col ∈ cs, col.1.typ < 256 := fun x hx => hty x (List.mem_cons_of_mem _ hx)
      have hlt : col.1.typ < 256 := hty col (List.mem_cons_self)
      have hp0 := hp 0 p rfl
      have ht0 := ht 0 col rfl
      have hti0 := hti 0 n col rfl rfl
      have hp' : ∀ j b, ps[j]? = some b → pb.bit (c + 1 + j) = .ok b := by
        intro j b hj; have := hp (j + 1) b (by simpa using hj); rwa [Nat.add_assoc, Nat.add_comm 1 j]
      have ht' : ∀ j col, cs[j]? = some col →
          tm.types.get (c + 1 + j) = .ok (UInt8.ofNat col.1.typ) ∧ tm.metadata[c + 1 + j]? = some col.1.md := by
        intro j b hj; have := ht (j + 1) b (by simpa using hj); rwa [Nat.add_assoc, Nat.add_comm 1 j]
      have hti' : ∀ j n col, ns[j]? = some n → cs[j]? = some col → ti.columns[c + 1 + j]? = some (n, col.2) := by
        intro j a b hj hj'; have := hti (j + 1) a b (by simpa using hj) (by simpa using hj')
        rwa [Nat.add_assoc, Nat.add_comm 1 j]
      rw [Nat.add_zero] at hp0 ht0 hti0
      simp only [List.length_cons, rowColumns, hti0, ht0.1, hp0, Res.ok_bind, UInt8.toNat_ofNat',
        Nat.mod_eq_of_lt hlt]
      cases p with
      | false =>
        rw [sel_false] at hok hbad ⊢
        simp only [Bool.not_false, ↓reduceIte]
        rw [ih ps ns vs (c + 1) vi pre hl' hnl' hok hbad hty' hp' ht' hti' hn]
        rfl
      | true =>
        rw [sel_true] at hok hbad ⊢
        simp only [Bool.not_true, Bool.false_eq_true, ↓reduceIte]
        cases vs with
        | nil => have := hok.1; simp at this
        | cons v vs =>
          obtain ⟨hv, hok'⟩ := imageLoose_cons _ _ _ _ hok
          have hbad' := imageHasBad_cons _ _ _ _ hbad
          have hn0 := hn 0 v rfl
          rw [Nat.add_zero] at hn0
          have hn' : ∀ j v, vs[j]? = some v → nb.bit (vi + 1 + j) = .ok v.isNone := by
            intro j b hj; have := hn (j + 1) b (by simpa using hj); rwa [Nat.add_assoc, Nat.add_comm 1 j]
          simp only [hn0, Res.ok_bind]
          cases v with
          | none =>
            rw [cellsOf_none]
            simp only [Option.isNone_none, ↓reduceIte]
            rcases hbad' with ⟨h1, _⟩ | hbad'
            · cases h1
            · rw [ih ps ns vs (c + 1) (vi + 1) pre hl' hnl' hok' hbad' hty' hp' ht' hti' hn']
              rfl
          | some x =>
            rw [cellsOf_some]
            simp only [Option.isNone_some, Bool.false_eq_true, ↓reduceIte, ht0.2, List.append_assoc]
            rcases hv x rfl with hc | ⟨w, hw, _⟩
            · -- a decodable cell: the undecodable one is further on
              rw [(cell_exact E col.1.typ col.1.md col.2 x hc pre _).2]
              simp only [Res.ok_bind]
              rcases hbad' with ⟨_, h2⟩ | hbad'
              · -- (a column type is either decodable or rejected)
                obtain ⟨w, hw⟩ := Option.isSome_iff_exists.mp h2
                have h3 := (badWidth_spec _ _ hw).2.2 E (pre ++ (W.cell col.1.typ col.1.md x ++ (cellsOf (W.selectPresent ps cs) vs ++ rest)))
                  pre.length col.2
                rw [(cell_exact E col.1.typ col.1.md col.2 x hc pre _).2] at h3
                cases h3
              · have := ih ps ns vs (c + 1) (vi + 1) (pre ++ W.cell col.1.typ col.1.md x) hl' hnl' hok' hbad' hty' hp' ht' hti' hn'
                simp only [List.append_assoc, List.length_append] at this
                rw [this]
                rfl
            · rw [(badWidth_spec _ _ hw).2.2]
              rfl

/-- … for one image of table `t`, against the cached map and the mapper's answer -/
theorem rc_bad_table (E : Ext) (t : W.TableDef) (hn : t.names.length = t.cols.length)
    (hu : t.unsigned.length = t.cols.length) (htyp : ∀ c ∈ t.cols, c.typ < 256)
    (ps : List Bool) (hps : ps.length = t.cols.length) (vals : List (Option W.CellVal))
    (hok : ImageLoose (W.selectPresent ps (colsU t)) vals) (hbad : imageHasBad (W.selectPresent ps (colsU t)) vals)
    (k n : Nat) :
    rowColumns E (tmOf t) (infoOf t) ⟨W.bitmapBytes ps, k⟩ ⟨W.bitmapBytes (vals.map (·.isNone)), n⟩
      (cellsOf (W.selectPresent ps (colsU t)) vals) t.cols.length 0 0 0 = .err := by
  have hl := GV.C01b.colsU_length t hu
  have := rc_bad E (tmOf t) (infoOf t) ⟨W.bitmapBytes ps, k⟩ ⟨W.bitmapBytes (vals.map (·.isNone)), n⟩ []
    (colsU t) ps t.names vals 0 0 [] (by rw [hps]; exact hl.symm) (by rw [hn]; exact hl.symm) hok hbad
    (GV.C01b.colsU_typ t htyp)
    (by intro j b hj; rw [Nat.zero_add]; exact bit_written _ _ _ _ hj)
    (by
      intro j col hj
      rw [Nat.zero_add]
      obtain ⟨a, b⟩ := col
      simp only [colsU, List.getElem?_zip_eq_some] at hj
      simp [tmOf, Bytes.get, hj.1])
    (by
      intro j nm col hj hj'
      rw [Nat.zero_add]
      obtain ⟨a, b⟩ := col
      simp only [colsU, List.getElem?_zip_eq_some] at hj'
      simp [infoOf, List.getElem?_zip_eq_some, hj, hj'.2])
    (by intro j v hj; exact nulls_written _ _ _ _ _ hj rfl)
  have hl' : (colsU t).length = t.cols.length := hl
  rw [hl'] at this
  simpa using this


/-- `rowsOf` over rows built one by one: when every image conversion returns a value or an error and one of them
    (before image first, then after image, row by row) returns an error, the whole conversion returns an error -/
theorem rowsOf_err (E : Ext) (tc : TableCache) (rs : Rows) (k : W.RowKind) {α} (f : α → Row) : ∀ (rows : List α),
    (k ≠ .delete → ∀ r ∈ rows, getValuesFromRow E tc.tableMap tc.info rs (f r) = .err ∨
      ∃ x, getValuesFromRow E tc.tableMap tc.info rs (f r) = .ok x) →
    (k ≠ .write → ∀ r ∈ rows, getIdentifiesFromRow E tc.tableMap tc.info rs (f r) = .err ∨
      ∃ x, getIdentifiesFromRow E tc.tableMap tc.info rs (f r) = .ok x) →
    (∃ r ∈ rows, (k ≠ .write ∧ getIdentifiesFromRow E tc.tableMap tc.info rs (f r) = .err) ∨
                 (k ≠ .delete ∧ getValuesFromRow E tc.tableMap tc.info rs (f r) = .err)) →
    rowsOf E tc rs (GV.C01b.mk k) (rows.map f) = .err := by
  intro rows
  induction rows with
  | nil => intro _ _ ⟨r, hr, _⟩; cases hr
  | cons r rows ih =>
    intro hv hi hbad
    have ih' := ih (fun h x hx => hv h x (List.mem_cons_of_mem _ hx)) (fun h x hx => hi h x (List.mem_cons_of_mem _ hx))
    obtain ⟨r', hr', hb⟩ := hbad
    cases k with
    | write =>
      simp only [GV.C01b.mk] at ih'
      simp only [List.map_cons, rowsOf, GV.C01b.mk]
      rcases hv (by decide) r List.mem_cons_self with h | ⟨x, h⟩
      · rw [h]; rfl
      · rcases List.mem_cons.mp hr' with rfl | hr'
        · rcases hb with ⟨hb, _⟩ | ⟨_, hb⟩
          · exact absurd rfl hb
          · rw [h] at hb; cases hb
        · rw [h, ih' ⟨r', hr', hb⟩]; rfl
    | update =>
      simp only [GV.C01b.mk] at ih'
      simp only [List.map_cons, rowsOf, GV.C01b.mk]
      rcases hi (by decide) r List.mem_cons_self with h | ⟨x, h⟩
      · rw [h]; rfl
      · rcases hv (by decide) r List.mem_cons_self with h2 | ⟨y, h2⟩
        · rw [h, h2]; rfl
        · rcases List.mem_cons.mp hr' with rfl | hr'
          · rcases hb with ⟨_, hb⟩ | ⟨_, hb⟩
            · rw [h] at hb; cases hb
            · rw [h2] at hb; cases hb
          · rw [h, h2, ih' ⟨r', hr', hb⟩]; rfl
    | delete =>
      simp only [GV.C01b.mk] at ih'
      simp only [List.map_cons, rowsOf, GV.C01b.mk]
      rcases hi (by decide) r List.mem_cons_self with h | ⟨x, h⟩
      · rw [h]; rfl
      · rcases List.mem_cons.mp hr' with rfl | hr'
        · rcases hb with ⟨_, hb⟩ | ⟨hb, _⟩
          · rw [h] at hb; cases hb
          · exact absurd rfl hb
        · rw [h, ih' ⟨r', hr', hb⟩]; rfl

/-- converting the decoded rows of a change with an undecodable value: an error -/
theorem rowsOf_bad_table (E : Ext) (t : W.TableDef) (hnm : t.names.length = t.cols.length)
    (hu : t.unsigned.length = t.cols.length) (htyp : ∀ c ∈ t.cols, c.typ < 256)
    (k : W.RowKind) (flags : Nat) (pb pa : List Bool) (hpb : pb.length = t.cols.length) (hpa : pa.length = t.cols.length)
    (rows : List RowV)
    (hrows : ∀ r ∈ rows, (k ≠ .write → ImageLoose (W.selectPresent pb (colsU t)) r.1) ∧
                         (k ≠ .delete → ImageLoose (W.selectPresent pa (colsU t)) r.2))
    (hbad : ∃ r ∈ rows, (k ≠ .write ∧ imageHasBad (W.selectPresent pb (colsU t)) r.1) ∨
                        (k ≠ .delete ∧ imageHasBad (W.selectPresent pa (colsU t)) r.2)) :
    rowsOf E ⟨tmOf t, infoOf t⟩ (GV.C01b.rowsOfTable t k flags pb pa rows) (GV.C01b.mk k)
      (GV.C01b.rowsOfTable t k flags pb pa rows).rows = .err := by
  have hcl : (infoOf t).columns.length = t.cols.length := by simp [infoOf, hnm, hu]
  have hV : ∀ r ∈ rows, k ≠ .delete →
      (imageHasBad (W.selectPresent pa (colsU t)) r.2 →
        getValuesFromRow E (tmOf t) (infoOf t) (GV.C01b.rowsOfTable t k flags pb pa rows)
          (mkRow (k != .write) (k != .delete) (W.selectPresent pb (colsU t)) (W.selectPresent pa (colsU t))
            (if (k != .write) then (W.selectPresent pb (colsU t)).length else 0)
            (if (k != .delete) then (W.selectPresent pa (colsU t)).length else 0) r) = .err) ∧
      (¬ imageHasBad (W.selectPresent pa (colsU t)) r.2 → ∃ x,
        getValuesFromRow E (tmOf t) (infoOf t) (GV.C01b.rowsOfTable t k flags pb pa rows)
          (mkRow (k != .write) (k != .delete) (W.selectPresent pb (colsU t)) (W.selectPresent pa (colsU t))
            (if (k != .write) then (W.selectPresent pb (colsU t)).length else 0)
            (if (k != .delete) then (W.selectPresent pa (colsU t)).length else 0) r) = .ok x) := by
    intro r hr hk
    have hb := (GV.C01b.bne_delete k).mpr hk
    simp only [getValuesFromRow, GV.C01b.rowsOfTable, hb, if_true, hcl, bne_self_eq_false, Bool.false_eq_true, if_false,
      mkRow]
    exact ⟨fun h => rc_bad_table E t hnm hu htyp pa hpa r.2 ((hrows r hr).2 hk) h _ _,
      fun h => ⟨_, GV.C01b.rc_table E t hnm hu htyp pa hpa r.2 (imgOK_of_loose ((hrows r hr).2 hk) h) _ _⟩⟩
  have hI : ∀ r ∈ rows, k ≠ .write →
      (imageHasBad (W.selectPresent pb (colsU t)) r.1 →
        getIdentifiesFromRow E (tmOf t) (infoOf t) (GV.C01b.rowsOfTable t k flags pb pa rows)
          (mkRow (k != .write) (k != .delete) (W.selectPresent pb (colsU t)) (W.selectPresent pa (colsU t))
            (if (k != .write) then (W.selectPresent pb (colsU t)).length else 0)
            (if (k != .delete) then (W.selectPresent pa (colsU t)).length else 0) r) = .err) ∧
      (¬ imageHasBad (W.selectPresent pb (colsU t)) r.1 → ∃ x,
        getIdentifiesFromRow E (tmOf t) (infoOf t) (GV.C01b.rowsOfTable t k flags pb pa rows)
          (mkRow (k != .write) (k != .delete) (W.selectPresent pb (colsU t)) (W.selectPresent pa (colsU t))
            (if (k != .write) then (W.selectPresent pb (colsU t)).length else 0)
            (if (k != .delete) then (W.selectPresent pa (colsU t)).length else 0) r) = .ok x) := by
    intro r hr hk
    have hb := (GV.C01b.bne_write k).mpr hk
    simp only [getIdentifiesFromRow, GV.C01b.rowsOfTable, hb, if_true, hcl, bne_self_eq_false, Bool.false_eq_true,
      if_false, mkRow]
    exact ⟨fun h => rc_bad_table E t hnm hu htyp pb hpb r.1 ((hrows r hr).1 hk) h _ _,
      fun h => ⟨_, GV.C01b.rc_table E t hnm hu htyp pb hpb r.1 (imgOK_of_loose ((hrows r hr).1 hk) h) _ _⟩⟩
  apply rowsOf_err E ⟨tmOf t, infoOf t⟩ (GV.C01b.rowsOfTable t k flags pb pa rows) k _ rows
  · intro hk r hr
    by_cases h : imageHasBad (W.selectPresent pa (colsU t)) r.2
    · exact Or.inl ((hV r hr hk).1 h)
    · exact Or.inr ((hV r hr hk).2 h)
  · intro hk r hr
    by_cases h : imageHasBad (W.selectPresent pb (colsU t)) r.1
    · exact Or.inl ((hI r hr hk).1 h)
    · exact Or.inr ((hI r hr hk).2 h)
  · obtain ⟨r, hr, h⟩ := hbad
    refine ⟨r, hr, ?_⟩
    rcases h with ⟨hk, h⟩ | ⟨hk, h⟩
    · exact Or.inl ⟨hk, (hI r hr hk).1 h⟩
    · exact Or.inr ⟨hk, (hV r hr hk).1 h⟩

/-! ### packet level: the dispatch of `classify` on a rows event whose conversion fails -/

theorem classify_rows_err_generic (env : Env) (st : PState) (ev0 ev : Bytes) (k : W.RowKind) (v2 : Bool)
    (h1 : isValid ev0 = true) (h2 : evType ev0 = .ok (W.rowsEventType k v2)) (hz : st.format.isZero = false)
    (h3 : stripChecksum56 st.format ev0 = .ok ev) (h4 : evType ev = .ok (W.rowsEventType k v2))
    (id : Nat) (tc : TableCache) (rs : Rows) (next ts : Nat)
    (hid : tableID st.format ev = .ok id) (hf : findTable st.tables id = some tc)
    (hrows : M.rows st.format tc.tableMap ev = .ok rs) (hn : evNextPosition ev = .ok next)
    (hts : evTimestamp ev = .ok ts) (hro : rowsOf env.ext tc rs (GV.C01b.mk k) rs.rows = .err) :
    classify env st ev0 = .decodeErr := by
  cases k <;> cases v2 <;>
    simp only [W.rowsEventType, GV.C01b.mk] at h2 h4 hro ⊢ <;>
    simp [classify, h1, h2, h3, h4, hz, ofRes, hid, hf, hrows, hn, hts, hro, Facts.eFormatDescriptionEvent, Facts.eXIDEvent,
      Facts.eRotateEvent, Facts.eQueryEvent, Facts.eTableMapEvent, Facts.eWriteRowsEventV1, Facts.eWriteRowsEventV2,
      Facts.eUpdateRowsEventV1, Facts.eUpdateRowsEventV2, Facts.eDeleteRowsEventV1, Facts.eDeleteRowsEventV2]


/-- the front end shared by the two packet-level results: validity, types, the stripped event, the table id and the
    next position / timestamp of the Spec's rows event for a table with a well-formed definition -/
theorem rows_front (st : PState) (cfg : W.Cfg) (hr : Ready cfg st) (crc : Option Bytes)
    (hc : crcOK cfg crc) (m : W.EvMeta) (start : Nat) (c : W.RowsChange) (ht : TableOK cfg c.table)
    (hok : EvOK crc m start (W.rowsBody c.kind cfg.rowsV2 (idw cfg) c.table.id c.flags c.extra c.table.cols
                              c.presentBefore c.presentAfter c.rows)) :
    ∃ hdr : Bytes, hdr.length = 19 ∧
      isValid (W.event crc m (W.rowsEventType c.kind cfg.rowsV2) start
        (W.rowsBody c.kind cfg.rowsV2 (idw cfg) c.table.id c.flags c.extra c.table.cols c.presentBefore c.presentAfter c.rows)).1 = true ∧
      evType (W.event crc m (W.rowsEventType c.kind cfg.rowsV2) start
        (W.rowsBody c.kind cfg.rowsV2 (idw cfg) c.table.id c.flags c.extra c.table.cols c.presentBefore c.presentAfter c.rows)).1
          = .ok (W.rowsEventType c.kind cfg.rowsV2) ∧
      stripChecksum56 st.format (W.event crc m (W.rowsEventType c.kind cfg.rowsV2) start
        (W.rowsBody c.kind cfg.rowsV2 (idw cfg) c.table.id c.flags c.extra c.table.cols c.presentBefore c.presentAfter c.rows)).1
          = .ok (hdr ++ W.rowsBody c.kind cfg.rowsV2 (idw cfg) c.table.id c.flags c.extra c.table.cols
                          c.presentBefore c.presentAfter c.rows) ∧
      evType (hdr ++ W.rowsBody c.kind cfg.rowsV2 (idw cfg) c.table.id c.flags c.extra c.table.cols
                          c.presentBefore c.presentAfter c.rows) = .ok (W.rowsEventType c.kind cfg.rowsV2) ∧
      (∃ next, evNextPosition (hdr ++ W.rowsBody c.kind cfg.rowsV2 (idw cfg) c.table.id c.flags c.extra c.table.cols
                          c.presentBefore c.presentAfter c.rows) = .ok next) ∧
      (∃ ts, evTimestamp (hdr ++ W.rowsBody c.kind cfg.rowsV2 (idw cfg) c.table.id c.flags c.extra c.table.cols
                          c.presentBefore c.presentAfter c.rows) = .ok ts) ∧
      tableID st.format (hdr ++ W.rowsBody c.kind cfg.rowsV2 (idw cfg) c.table.id c.flags c.extra c.table.cols
                          c.presentBefore c.presentAfter c.rows) = .ok c.table.id ∧
      st.format.headerSize (W.rowsEventType c.kind cfg.rowsV2)
        = .ok (if idw cfg = 4 then 6 else if cfg.rowsV2 then 10 else 8) := by
  have hlt := GV.C01b.rowsType_lt c.kind cfg.rowsV2
  obtain ⟨h1, h2, h3, h4, h5, h6⟩ := C01.pre st.format crc m (W.rowsEventType c.kind cfg.rowsV2) start _
    (GV.C01b.crc_pre hr hc) (GV.C01b.meta_pre _ hlt hok)
  have hf : st.format = fmtOf cfg := hr
  have hhs : st.format.headerSize (W.rowsEventType c.kind cfg.rowsV2)
      = .ok (if idw cfg = 4 then 6 else if cfg.rowsV2 then 10 else 8) := by
    rw [hf]; exact GV.C01b.hs_rows cfg c.kind
  obtain ⟨rest, hb⟩ := GV.C01b.rowsBody_split c.kind cfg.rowsV2 (idw cfg) c.table.id c.flags c.extra c.table.cols
    c.presentBefore c.presentAfter c.rows
  have hid := GV.C01b.tableID_body st.format (GV.C01b.hl19 hr) _ (C01.hdrOf_length ..) _ _ (idw cfg) c.table.id
    (idw_cases cfg) _ rest hb h4 hhs (by rcases idw_cases cfg with h | h <;> cases cfg.rowsV2 <;> simp [h]) ht.id
  exact ⟨_, C01.hdrOf_length .., h1, h2, h3, h4, ⟨_, h5⟩, ⟨_, h6⟩, hid, hhs⟩

/-- PACKET LEVEL (Goal A): the rows event of a change with an undecodable value, for a cached table, is a decoding
    error — whatever the state's transaction is -/
theorem classify_bad_value (env : Env) (st : PState) (cfg : W.Cfg) (hr : Ready cfg st) (crc : Option Bytes)
    (hc : crcOK cfg crc) (m : W.EvMeta) (start : Nat) (c : W.RowsChange) (hbad : BadValueChange cfg c)
    (hok : EvOK crc m start (W.rowsBody c.kind cfg.rowsV2 (idw cfg) c.table.id c.flags c.extra c.table.cols
                              c.presentBefore c.presentAfter c.rows))
    (hcache : findTable st.tables c.table.id = some ⟨tmOf c.table, infoOf c.table⟩) :
    classify env st (W.event crc m (W.rowsEventType c.kind cfg.rowsV2) start
        (W.rowsBody c.kind cfg.rowsV2 (idw cfg) c.table.id c.flags c.extra c.table.cols c.presentBefore c.presentAfter c.rows)).1
      = .decodeErr := by
  obtain ⟨hdr, hh, h1, h2, h3, h4, ⟨next, h5⟩, ⟨ts, h6⟩, hid, hhs⟩ := rows_front st cfg hr crc hc m start c hbad.table hok
  have htypc : ∀ x ∈ c.table.cols, x.typ < 256 := fun x hx => GV.C15.colOK_typ x (hbad.table.cols x hx)
  have hcnt : c.table.cols.length < 2 ^ 31 := by
    have := hbad.table.count
    simp only [Nat.reducePow] at this ⊢; omega
  have hR := rows_table_len st.format (GV.C01b.hl19 hr) hdr hh c.kind cfg.rowsV2 (idw cfg)
    c.table.id c.flags (idw_cases cfg) c.table hbad.table.unsigned hbad.table.ne hcnt c.extra hbad.extra
    c.presentBefore c.presentAfter c.rows h4 hhs hbad.flags hbad.pb hbad.pa
    (fun r hr => ⟨fun h => imgLen_of_loose ((hbad.images r hr).1 h), fun h => imgLen_of_loose ((hbad.images r hr).2 h)⟩)
    hbad.wide
  have hO := rowsOf_bad_table env.ext c.table hbad.table.names hbad.table.unsigned htypc c.kind c.flags
    c.presentBefore c.presentAfter hbad.pb hbad.pa c.rows hbad.images hbad.bad
  exact classify_rows_err_generic env st _ _ c.kind cfg.rowsV2 h1 h2 (GV.C01b.notZero hr) h3 h4 c.table.id
    ⟨tmOf c.table, infoOf c.table⟩ _ next ts hid hcache hR h5 h6 hO

/-- the row conversion compares the event's column count with the mapper table's, first thing for the first row -/
theorem rowsOf_count_mismatch (E : Ext) (t : W.TableDef) (info : TableInfo) (k : W.RowKind) (flags : Nat)
    (pb pa : List Bool) (r : RowV) (rest : List RowV) (h : info.columns.length ≠ t.cols.length) :
    rowsOf E ⟨tmOf t, info⟩ (GV.C01b.rowsOfTable t k flags pb pa (r :: rest)) (GV.C01b.mk k)
      (GV.C01b.rowsOfTable t k flags pb pa (r :: rest)).rows = .err := by
  have hcc : ¬ t.cols.length = info.columns.length := fun h' => h h'.symm
  cases k <;>
    simp (decide := true) [GV.C01b.rowsOfTable, rowsOf, GV.C01b.mk, getValuesFromRow, getIdentifiesFromRow, hcc]

/-- PACKET LEVEL (Goal C): a rows event with at least one row, well formed for the table map cached for its id, when
    the cached mapper answer has another number of columns than that table map: a decoding error -/
theorem classify_count_mismatch (env : Env) (st : PState) (cfg : W.Cfg) (hr : Ready cfg st) (crc : Option Bytes)
    (hc : crcOK cfg crc) (m : W.EvMeta) (start : Nat) (c : W.RowsChange) (hrows : RowsOK cfg c) (hne : c.rows ≠ [])
    (hok : EvOK crc m start (W.rowsBody c.kind cfg.rowsV2 (idw cfg) c.table.id c.flags c.extra c.table.cols
                              c.presentBefore c.presentAfter c.rows))
    (info : TableInfo) (hcache : findTable st.tables c.table.id = some ⟨tmOf c.table, info⟩)
    (hcount : info.columns.length ≠ c.table.cols.length) :
    classify env st (W.event crc m (W.rowsEventType c.kind cfg.rowsV2) start
        (W.rowsBody c.kind cfg.rowsV2 (idw cfg) c.table.id c.flags c.extra c.table.cols c.presentBefore c.presentAfter c.rows)).1
      = .decodeErr := by
  obtain ⟨hdr, hh, h1, h2, h3, h4, ⟨next, h5⟩, ⟨ts, h6⟩, hid, hhs⟩ := rows_front st cfg hr crc hc m start c hrows.table hok
  have hcnt : c.table.cols.length < 2 ^ 31 := by
    have := hrows.table.count
    simp only [Nat.reducePow] at this ⊢; omega
  have hR := GV.C01b.rows_table st.format (GV.C01b.hl19 hr) hdr hh c.kind cfg.rowsV2 (idw cfg)
    c.table.id c.flags (idw_cases cfg) c.table hrows.table.unsigned hrows.table.ne hcnt c.extra hrows.extra
    c.presentBefore c.presentAfter c.rows h4 hhs hrows.flags hrows.pb hrows.pa hrows.images hrows.wide
  have hO : rowsOf env.ext ⟨tmOf c.table, info⟩ (GV.C01b.rowsOfTable c.table c.kind c.flags c.presentBefore c.presentAfter c.rows)
      (GV.C01b.mk c.kind) (GV.C01b.rowsOfTable c.table c.kind c.flags c.presentBefore c.presentAfter c.rows).rows = .err := by
    cases hrs : c.rows with
    | nil => exact absurd hrs hne
    | cons r rest => exact rowsOf_count_mismatch env.ext c.table info c.kind c.flags c.presentBefore c.presentAfter r rest hcount
  exact classify_rows_err_generic env st _ _ c.kind cfg.rowsV2 h1 h2 (GV.C01b.notZero hr) h3 h4 c.table.id
    ⟨tmOf c.table, info⟩ _ next ts hid hcache hR h5 h6 hO


/-! ### stream level: the Spec side -/

/-- where the layout of `es` started at (file, off) ends -/
def layEnd (cfg : W.Cfg) : List W.AEv → Bytes → Nat → Bytes × Nat
  | [], file, off => (file, off)
  | e :: es, file, off =>
    match e.tag with
    | .rotateTo f => layEnd cfg es f (W.fdeEvent cfg 4 none).2
    | .stopThenRotateTo f => layEnd cfg es f (W.fdeEvent cfg 4 none).2
    | _ => layEnd cfg es file (W.event (W.crcOf cfg off) { ts := e.ts } e.typ off e.body).2

theorem layoutAux_append (cfg : W.Cfg) : ∀ (es1 es2 : List W.AEv) (file : Bytes) (off : Nat),
    W.layoutAux cfg (es1 ++ es2) file off
      = W.layoutAux cfg es1 file off ++ W.layoutAux cfg es2 (layEnd cfg es1 file off).1 (layEnd cfg es1 file off).2 := by
  intro es1
  induction es1 with
  | nil => intro es2 file off; rfl
  | cons e es1 ih =>
    intro es2 file off
    obtain ⟨typ, body, ts, tag, us⟩ := e
    cases tag with
    | none => simp only [List.cons_append, W.layoutAux, layEnd, ih, List.cons_append]
    | commit cs => simp only [List.cons_append, W.layoutAux, layEnd, ih, List.cons_append]
    | rotateTo f => simp only [List.cons_append, W.layoutAux, layEnd, ih, List.cons_append]
    | stopThenRotateTo f => simp only [List.cons_append, W.layoutAux, layEnd, ih, List.cons_append]
    | fileHead => simp only [List.cons_append, W.layoutAux, layEnd, ih, List.cons_append]

/-- the layout of one event that is neither a ROTATE nor a STOP -/
theorem layoutAux_plain (cfg : W.Cfg) (typ : Nat) (body : Bytes) (ts : Nat) (tag : W.Tag) (us : Bool)
    (htag : tag = .none ∨ ∃ cs, tag = .commit cs) (es : List W.AEv) (file : Bytes) (off : Nat) :
    W.layoutAux cfg (⟨typ, body, ts, tag, us⟩ :: es) file off
      = ⟨file, off, endOf cfg off body, bytesAt cfg off typ ts body, ts, tag, us⟩
          :: W.layoutAux cfg es file (endOf cfg off body) := by
  rcases htag with rfl | ⟨cs, rfl⟩
  · exact layoutAux_none ..
  · exact layoutAux_commit ..

/-! ### stream level: a run that stops at the rows event of a change inside a unit -/

/-- every rows change of well-formed units is well formed and has a row -/
theorem rowsOK_of_changes (cfg : W.Cfg) : ∀ (cs : List W.Change), (∀ ch ∈ cs, ChangeOK cfg ch) →
    ∀ c ∈ changeRows cs, RowsOK cfg c ∧ c.rows ≠ []
  | [], _, c, hc => by simp [changeRows] at hc
  | .rows c' :: cs, h, c, hc => by
    simp only [changeRows, List.mem_cons] at hc
    rcases hc with rfl | hc
    · exact h (.rows c) List.mem_cons_self
    · exact rowsOK_of_changes cfg cs (fun x hx => h x (List.mem_cons_of_mem _ hx)) c hc
  | .stmt s :: cs, h, c, hc => by
    simp only [changeRows] at hc
    exact rowsOK_of_changes cfg cs (fun x hx => h x (List.mem_cons_of_mem _ hx)) c hc

theorem rowsOK_of_units (cfg : W.Cfg) (h : W.History) (hu : ∀ u ∈ h, UnitOK cfg u) :
    ∀ c ∈ histRows h, RowsOK cfg c ∧ c.rows ≠ [] := by
  intro c hc
  obtain ⟨u, hmem, hcu⟩ := List.mem_flatMap.mp hc
  have hok := hu u hmem
  cases u with
  | tx b cs close ts => exact rowsOK_of_changes cfg cs hok.2.1 c hcu
  | autoRows c' =>
    simp only [unitRows, List.mem_singleton] at hcu
    subst hcu; exact hok
  | ddl s => simp [unitRows] at hcu
  | stmtDML s => simp [unitRows] at hcu
  | rotate f => simp [unitRows] at hcu
  | restart f => simp [unitRows] at hcu
  | gtid sid gno => simp [unitRows] at hcu
  | anonGtid => simp [unitRows] at hcu
  | prevGtids blk => simp [unitRows] at hcu
  | heartbeat => simp [unitRows] at hcu
  | unknownEvent typ body => simp [unitRows] at hcu
  | unknownStmt s => simp [unitRows] at hcu

theorem changeRows_append (a b : List W.Change) : changeRows (a ++ b) = changeRows a ++ changeRows b := by
  induction a with
  | nil => rfl
  | cons ch a ih => cases ch <;> simp [changeRows, ih]

/-- the body of the rows event of `c` -/
abbrev bodyOf (cfg : W.Cfg) (c : W.RowsChange) : Bytes :=
  W.rowsBody c.kind cfg.rowsV2 (if cfg.idw4 then 4 else 6) c.table.id c.flags c.extra c.table.cols
    c.presentBefore c.presentAfter c.rows

/-- what the two instances have to supply: from any state the run can be in when it reaches the change `c` (its own
    TABLE_MAP event, if any, still to come), the parser goes through that TABLE_MAP event and then stops with an error
    at the rows event (laid out anywhere), without delivering anything -/
def FailsAt (cfg : W.Cfg) (env : Env) (P : W.TableDef → Prop) (R : List W.RowsChange) (c : W.RowsChange) : Prop :=
  ∀ (more : List Input) (st : PState) (file : Bytes) (cur : W.Pos) (anns : List W.TableDef) (off o' : Nat) (us : Bool),
    Inv cfg P st file cur anns → curOK anns R →
    Bnd (W.layoutAux cfg (if c.announce then [tmAEv cfg c us] else []) file off) →
    endOf cfg o' (bodyOf cfg c) < 2 ^ 32 →
    Good env (Input.event (bytesAt cfg o' (W.rowsEventType c.kind cfg.rowsV2) c.ts (bodyOf cfg c)) :: more) true st cur
      (W.layoutAux cfg (if c.announce then [tmAEv cfg c us] else []) file off)

/-- the events of `u` in front of the rows event of `c` deliver nothing and lead to `c` -/
def FrontRun (cfg : W.Cfg) (pre : List W.Change) (c : W.RowsChange) (front : List W.AEv) : Prop :=
  (∀ e ∈ front, e.tag = .none) ∧
  ∀ (env : Env) (P : W.TableDef → Prop) (R : List W.RowsChange) (tail : List Input) (st : PState) (file : Bytes)
    (off : Nat) (cur : W.Pos) (anns : List W.TableDef),
    Ctx env P → Inv cfg P st file cur anns → st.tran = none → st.autocommit = true →
    (∀ ch ∈ pre, ChangeOK cfg ch) → (∀ c' ∈ changeRows pre, P c'.table) → curOK anns (changeRows pre ++ R) →
    Bnd (W.layoutAux cfg front file off) →
    (∀ (st' : PState) (off' : Nat) (anns' : List W.TableDef) (us : Bool), Inv cfg P st' file cur anns' → curOK anns' R →
      Bnd (W.layoutAux cfg (if c.announce then [tmAEv cfg c us] else []) file off') →
      Good env tail true st' cur (W.layoutAux cfg (if c.announce then [tmAEv cfg c us] else []) file off')) →
    Good env tail true st cur (W.layoutAux cfg front file off)

theorem unitAt_split (cfg : W.Cfg) (u : W.Unit) (pre : List W.Change) (c : W.RowsChange) (hu : UnitAt u pre c) :
    ∃ (front back : List W.AEv) (tag : W.Tag) (us : Bool),
      W.unitEvs cfg u = front ++ ⟨W.rowsEventType c.kind cfg.rowsV2, bodyOf cfg c, c.ts, tag, us⟩ :: back ∧
      (tag = .none ∨ ∃ cs, tag = .commit cs) ∧ FrontRun cfg pre c front := by
  rcases hu with ⟨rfl, rfl⟩ | ⟨b, post, close, ts, rfl, hbeg, hts⟩
  · refine ⟨if c.announce then [tmAEv cfg c true] else [], [], .commit [.rows c], !c.announce, ?_, Or.inr ⟨_, rfl⟩, ?_, ?_⟩
    · simp only [W.unitEvs, W.rowsEv, W.tableMapEv, tmAEv]
      cases c.announce <;> rfl
    · intro e he
      split at he
      · simp only [List.mem_singleton] at he; subst he; rfl
      · cases he
    · intro env P R tail st file off cur anns _ hI _ _ _ _ hcur hb k
      exact k st off anns true hI (by simpa [changeRows] using hcur) hb
  · obtain ⟨closeEv, hce⟩ : ∃ closeEv, W.unitEvs cfg (.tx b (pre ++ .rows c :: post) close ts)
        = W.markStart ([W.stmtEv ⟨b, [], ts, [], 0, none⟩ .none] ++ (pre ++ .rows c :: post).flatMap (W.changeEvs cfg)
            ++ [closeEv]) := ⟨_, rfl⟩
    refine ⟨⟨2, W.queryBody 1 0 0 [] [] b, ts, .none, true⟩ :: (pre.flatMap (W.changeEvs cfg) ++
        (if c.announce then [tmAEv cfg c false] else [])), post.flatMap (W.changeEvs cfg) ++ [closeEv], .none, false, ?_,
      Or.inl rfl, ?_, ?_⟩
    · rw [hce]
      simp only [W.stmtEv, List.flatMap_append, List.flatMap_cons, W.changeEvs, W.markStart, W.rowsEv, W.tableMapEv, tmAEv,
        List.cons_append, List.nil_append, List.append_assoc]
    · intro e he
      rcases List.mem_cons.mp he with rfl | he
      · rfl
      · rcases List.mem_append.mp he with he | he
        · exact changeEvs_silent cfg pre e he
        · split at he
          · simp only [List.mem_singleton] at he; subst he; rfl
          · cases he
    · intro env P R tail st file off cur anns ctx hI ht hau hpre hP hcur hb k
      obtain ⟨hb1, hb2⟩ := bnd_none hb
      have hcl := cl_query env st cfg hI.fmt off ts [] [] b (by simp) (by simp) (by simp) hts hb1
      rw [hbeg] at hcl
      refine lay_cont _ hcl (SL.step_begin _ _ _) ?_
      refine changes_run (tail := tail) (eb := true) ctx pre _ R _ [] file _ cur anns (inv_tran hI (some []) false) rfl rfl
        hpre hP hcur hb2 ?_
      intro st' off' anns' hI' _ _ hcur' hb'
      exact k st' off' anns' false hI' hcur' hb'

/-- THE SKELETON: h₁ and the changes in front of `c` are well formed, and the parser fails at the rows event of `c`
    (`FailsAt`): the run on everything the master serves for h₁ ++ u :: h₂ delivers exactly the transactions of h₁ and
    stops there with an error, the position kept at the boundary before `u` -/
theorem stop_at_rows (cfg : W.Cfg) (env : Env) (h₁ : W.History) (u : W.Unit) (h₂ : W.History) (pre : List W.Change)
    (c : W.RowsChange) (P : W.TableDef → Prop) (ctx : Ctx env P) (R : List W.RowsChange)
    (hu : UnitAt u pre c) (hunits : ∀ u' ∈ h₁, UnitOK cfg u') (hpre : ∀ ch ∈ pre, ChangeOK cfg ch)
    (hP : ∀ c' ∈ rowsBefore h₁ pre, P c'.table) (hcur : curOK [] (rowsBefore h₁ pre ++ R))
    (hoff : ∀ e ∈ W.layout cfg (h₁ ++ [u]), e.next < 2 ^ 32) (hfin : FailsAt cfg env P R c) :
    parseEvents env (fun _ => true) (PState.init ⟨W.firstFile, 4⟩)
        ((W.serve cfg (h₁ ++ u :: h₂) ⟨W.firstFile, 4⟩).map Input.event ++ [Input.closed])
      = ⟨(W.expected cfg h₁ ⟨W.firstFile, 4⟩).map (toTx env.ext), (W.expected cfg h₁ ⟨W.firstFile, 4⟩).map (toTx env.ext),
         posOf (W.endPos cfg h₁ ⟨W.firstFile, 4⟩), true, false⟩ := by
  obtain ⟨front, back, tag, us, hsplit, htag, hsil, hfront⟩ := unitAt_split cfg u pre c hu
  -- the abstract events: those of h₁ and the silent head of u, the rows event, the rest
  have hfull : (h₁ ++ u :: h₂).flatMap (W.unitEvs cfg)
      = (h₁.flatMap (W.unitEvs cfg) ++ front) ++
          ⟨W.rowsEventType c.kind cfg.rowsV2, bodyOf cfg c, c.ts, tag, us⟩ :: (back ++ h₂.flatMap (W.unitEvs cfg)) := by
    simp [List.flatMap_append, hsplit]
  have hpart : (h₁ ++ [u]).flatMap (W.unitEvs cfg)
      = (h₁.flatMap (W.unitEvs cfg) ++ front) ++
          ⟨W.rowsEventType c.kind cfg.rowsV2, bodyOf cfg c, c.ts, tag, us⟩ :: back := by
    simp [List.flatMap_append, hsplit]
  generalize hfo : layEnd cfg (h₁.flatMap (W.unitEvs cfg) ++ front) W.firstFile (W.fdeEvent cfg 4 none).2 = fo at *
  obtain ⟨f', o'⟩ := fo
  have hlay := layoutAux_append cfg (h₁.flatMap (W.unitEvs cfg) ++ front)
    (⟨W.rowsEventType c.kind cfg.rowsV2, bodyOf cfg c, c.ts, tag, us⟩ :: (back ++ h₂.flatMap (W.unitEvs cfg)))
    W.firstFile (W.fdeEvent cfg 4 none).2
  have hlay' := layoutAux_append cfg (h₁.flatMap (W.unitEvs cfg) ++ front)
    (⟨W.rowsEventType c.kind cfg.rowsV2, bodyOf cfg c, c.ts, tag, us⟩ :: back) W.firstFile (W.fdeEvent cfg 4 none).2
  rw [hfo, layoutAux_plain cfg _ _ _ _ _ htag] at hlay hlay'
  simp only at hlay hlay'
  rw [layout_eq, hpart, hlay'] at hoff
  have hB := (bnd_cons hoff).2
  have hB1 : Bnd (W.layoutAux cfg (h₁.flatMap (W.unitEvs cfg) ++ front) W.firstFile (W.fdeEvent cfg 4 none).2) :=
    fun e he => hB e (List.mem_append_left _ he)
  have hB2 : endOf cfg o' (bodyOf cfg c) < 2 ^ 32 := hB _ (List.mem_append_right _ List.mem_cons_self)
  have hcur' : curOK [] (histRows h₁ ++ (changeRows pre ++ R)) := by
    rw [← List.append_assoc]; exact hcur
  have hg := units_run (cfg := cfg) (eb := true)
    (tail := Input.event (bytesAt cfg o' (W.rowsEventType c.kind cfg.rowsV2) c.ts (bodyOf cfg c)) ::
      ((W.layoutAux cfg (back ++ h₂.flatMap (W.unitEvs cfg)) f' (endOf cfg o' (bodyOf cfg c))).map
          (fun e => Input.event e.bytes) ++ [Input.closed]))
    ctx front (changeRows pre ++ R) h₁ (st1 cfg) W.firstFile _ ⟨W.firstFile, 4⟩ []
    (inv_st1 cfg P) rfl rfl hunits (fun c' hc' => hP c' (List.mem_append_left _ hc')) hcur' hB1
    (by
      intro st' file' off' cur' anns' hI' ht' ha' hc' hb'
      refine hfront env P R _ st' file' off' cur' anns' ctx hI' ht' ha' hpre
        (fun c' hc' => hP c' (List.mem_append_right _ hc')) hc' hb' ?_
      intro st'' off'' anns'' us' hI'' hc'' hb''
      exact hfin _ st'' file' cur' anns'' off'' o' us' hI'' hc'' hb'' hB2)
  -- the Spec side: the silent head of u adds nothing to what h₁ alone delivers
  have hl1 := layoutAux_append cfg (h₁.flatMap (W.unitEvs cfg)) front W.firstFile (W.fdeEvent cfg 4 none).2
  obtain ⟨hs1, hs2⟩ := silent_layout cfg front
    (layEnd cfg (h₁.flatMap (W.unitEvs cfg)) W.firstFile (W.fdeEvent cfg 4 none).2).1
    (layEnd cfg (h₁.flatMap (W.unitEvs cfg)) W.firstFile (W.fdeEvent cfg 4 none).2).2
    (W.endPosAux (W.layoutAux cfg (h₁.flatMap (W.unitEvs cfg)) W.firstFile (W.fdeEvent cfg 4 none).2) ⟨W.firstFile, 4⟩) hsil
  unfold Good at hg
  have hE : W.expectedAux (W.layoutAux cfg (h₁.flatMap (W.unitEvs cfg) ++ front) W.firstFile (W.fdeEvent cfg 4 none).2)
      ⟨W.firstFile, 4⟩ = W.expected cfg h₁ ⟨W.firstFile, 4⟩ := by
    rw [hl1, expectedAux_append, hs1, List.append_nil, W.expected, fromPos_head, layout_eq cfg h₁]
    simp [W.expectedAux]
  have hPp : W.endPosAux (W.layoutAux cfg (h₁.flatMap (W.unitEvs cfg) ++ front) W.firstFile (W.fdeEvent cfg 4 none).2)
      ⟨W.firstFile, 4⟩ = W.endPos cfg h₁ ⟨W.firstFile, 4⟩ := by
    rw [hl1, endPosAux_append, hs2, W.endPos, fromPos_head, layout_eq cfg h₁]
    simp [W.endPosAux]
  rw [hE, hPp] at hg
  rw [serve_head, layout_eq cfg (h₁ ++ u :: h₂), hfull, hlay]
  simp only [List.map_cons, List.cons_append, List.map_map, List.map_append, List.append_assoc]
  refine head_run cfg env h₁ _ _ true _ ?_
  simpa [Function.comp_def] using hg


/-! ### Goal A: an undecodable value -/

theorem cl_bad_value (env : Env) (st : PState) (cfg : W.Cfg) (hr : Ready cfg st) (off : Nat) (c : W.RowsChange)
    (hbad : BadValueChange cfg c) (hb : endOf cfg off (bodyOf cfg c) < 2 ^ 32)
    (hcache : findTable st.tables c.table.id = some ⟨tmOf c.table, infoOf c.table⟩) :
    classify env st (bytesAt cfg off (W.rowsEventType c.kind cfg.rowsV2) c.ts (bodyOf cfg c)) = .decodeErr :=
  classify_bad_value env st cfg hr _ (crcOf_ok cfg off) { ts := c.ts } off c hbad (evOK_at cfg off c.ts _ hbad.ts hb) hcache

theorem failsAt_bad_value (cfg : W.Cfg) (env : Env) (P : W.TableDef → Prop) (ctx : Ctx env P) (c : W.RowsChange)
    (hPc : P c.table) (hbad : BadValueChange cfg c) : FailsAt cfg env P [c] c := by
  intro more st file cur anns off o' us hI hcur hb hB2
  obtain ⟨hann, _⟩ := hcur
  have key : ∀ st' anns', Inv cfg P st' file cur anns' →
      findTable st'.tables c.table.id = some ⟨tmOf c.table, infoOf c.table⟩ →
      Good env (Input.event (bytesAt cfg o' (W.rowsEventType c.kind cfg.rowsV2) c.ts (bodyOf cfg c)) :: more) true st' cur [] :=
    fun st' anns' hI' hf => good_stop env st' cur hI'.pos _ _ (cl_bad_value env st' cfg hI'.fmt o' c hbad hB2 hf)
  cases ha : c.announce with
  | true =>
    simp only [ha, if_true, tmAEv] at hb ⊢
    obtain ⟨hb1, _⟩ := bnd_none hb
    obtain ⟨d, st', hcl, hs, hI', _, _, hf⟩ := tm_step ctx hI c.table hPc hbad.table off c.ts c.tmOptional hbad.ts hb1
    exact lay_cont d hcl hs (key st' _ hI' hf)
  | false =>
    simp only [Bool.false_eq_true, if_false]
    have hk : lastDef anns c.table.id = some c.table := by
      rcases hann with h | h
      · rw [ha] at h; cases h
      · exact h
    have hc := hI.cache c.table.id
    rw [hk] at hc
    exact key st anns hI hc

theorem value_decode_failure (cfg : W.Cfg) (env : Env) (h₁ : W.History) (u : W.Unit) (h₂ : W.History)
    (pre : List W.Change) (c : W.RowsChange) (hu : UnitAt u pre c)
    (hwf : WFUpTo cfg env h₁ u pre (rowsBefore h₁ pre ++ [c])) (hbad : BadValueChange cfg c) :
    parseEvents env (fun _ => true) (PState.init ⟨W.firstFile, 4⟩)
        ((W.serve cfg (h₁ ++ u :: h₂) ⟨W.firstFile, 4⟩).map Input.event ++ [Input.closed])
      = ⟨(W.expected cfg h₁ ⟨W.firstFile, 4⟩).map (toTx env.ext), (W.expected cfg h₁ ⟨W.firstFile, 4⟩).map (toTx env.ext),
         posOf (W.endPos cfg h₁ ⟨W.firstFile, 4⟩), true, false⟩ := by
  let P : W.TableDef → Prop := fun t => ∃ c' ∈ rowsBefore h₁ pre ++ [c], c'.table = t
  have ctx : Ctx env P := by
    refine ⟨?_, ?_⟩
    · rintro t1 t2 ⟨c1, h1, rfl⟩ ⟨c2, h2, rfl⟩ hid _ _
      exact sameInfo_infoOf (hwf.agree c1 h1 c2 h2 hid)
    · rintro t ⟨c', hc', rfl⟩
      exact hwf.mapper c' hc'
  exact stop_at_rows cfg env h₁ u h₂ pre c P ctx [c] hu hwf.units hwf.changes
    (fun c' hc' => ⟨c', List.mem_append_left _ hc', rfl⟩) hwf.current hwf.offsets
    (failsAt_bad_value cfg env P ctx c ⟨c, by simp, rfl⟩ hbad)

/-! ### Goal C: a table id re-announced with another column count -/

/-- after the rows changes R1 (each using the current definition of its id) a definition is current for every id
    announced before or used by R1: a further change using that definition without announcing itself is fine -/
theorem curOK_snoc_last : ∀ (R1 : List W.RowsChange) (anns : List W.TableDef), curOK anns R1 → ∀ id,
    ((∃ t ∈ anns, t.id = id) ∨ ∃ c₀ ∈ R1, c₀.table.id = id) →
    ∃ t, t.id = id ∧ ∀ c₁ : W.RowsChange, c₁.table = t → c₁.announce = false → curOK anns (R1 ++ [c₁])
  | [], anns, _, id, h => by
    rcases h with ⟨t, ht, hid⟩ | ⟨c₀, h, _⟩
    · obtain ⟨t', ht'⟩ := lastDef_of_mem ht hid
      refine ⟨t', (lastDef_some ht').2, ?_⟩
      intro c₁ h1 _
      refine ⟨Or.inr ?_, trivial⟩
      rw [h1, (lastDef_some ht').2, ht']
    · cases h
  | c :: R1, anns, hc, id, h => by
    obtain ⟨h1, h2⟩ := hc
    have hsub : ∀ t ∈ anns, t ∈ annAfter anns c := by
      intro t ht
      unfold annAfter
      split
      · exact List.mem_cons_of_mem _ ht
      · exact ht
    have hself : ∃ t ∈ annAfter anns c, t.id = c.table.id := by
      cases ha : c.announce with
      | true => exact ⟨c.table, by simp [annAfter, ha], rfl⟩
      | false =>
        rcases h1 with h1 | h1
        · rw [ha] at h1; cases h1
        · exact ⟨c.table, hsub _ (lastDef_some h1).1, rfl⟩
    have h' : (∃ t ∈ annAfter anns c, t.id = id) ∨ ∃ c₀ ∈ R1, c₀.table.id = id := by
      rcases h with ⟨t, ht, hid⟩ | ⟨c₀, hc₀, hid⟩
      · exact Or.inl ⟨t, hsub t ht, hid⟩
      · rcases List.mem_cons.mp hc₀ with rfl | hc₀
        · rw [← hid]; exact Or.inl hself
        · exact Or.inr ⟨c₀, hc₀, hid⟩
    obtain ⟨t, htid, ht⟩ := curOK_snoc_last R1 (annAfter anns c) h2 id h'
    exact ⟨t, htid, fun c₁ e1 e2 => ⟨h1, ht c₁ e1 e2⟩⟩

theorem cl_count_mismatch (env : Env) (st : PState) (cfg : W.Cfg) (hr : Ready cfg st) (off : Nat) (c : W.RowsChange)
    (hrows : RowsOK cfg c) (hne : c.rows ≠ []) (hb : endOf cfg off (bodyOf cfg c) < 2 ^ 32)
    (info : TableInfo) (hcache : findTable st.tables c.table.id = some ⟨tmOf c.table, info⟩)
    (hcount : info.columns.length ≠ c.table.cols.length) :
    classify env st (bytesAt cfg off (W.rowsEventType c.kind cfg.rowsV2) c.ts (bodyOf cfg c)) = .decodeErr :=
  classify_count_mismatch env st cfg hr _ (crcOf_ok cfg off) { ts := c.ts } off c hrows hne
    (evOK_at cfg off c.ts _ hrows.ts hb) info hcache hcount

theorem count_redefinition (cfg : W.Cfg) (env : Env) (h₁ : W.History) (u : W.Unit) (h₂ : W.History)
    (pre : List W.Change) (c c₀ : W.RowsChange) (hu : UnitAt u pre c)
    (hwf : WFUpTo cfg env h₁ u pre (rowsBefore h₁ pre)) (hc : RowsOK cfg c) (hne : c.rows ≠ [])
    (hann : c.announce = true) (h0 : c₀ ∈ rowsBefore h₁ pre) (hid : c₀.table.id = c.table.id)
    (hname : c₀.table.db = c.table.db ∧ c₀.table.name = c.table.name)
    (hcount : c₀.table.cols.length ≠ c.table.cols.length) :
    parseEvents env (fun _ => true) (PState.init ⟨W.firstFile, 4⟩)
        ((W.serve cfg (h₁ ++ u :: h₂) ⟨W.firstFile, 4⟩).map Input.event ++ [Input.closed])
      = ⟨(W.expected cfg h₁ ⟨W.firstFile, 4⟩).map (toTx env.ext), (W.expected cfg h₁ ⟨W.firstFile, 4⟩).map (toTx env.ext),
         posOf (W.endPos cfg h₁ ⟨W.firstFile, 4⟩), true, false⟩ := by
  let P : W.TableDef → Prop := fun t => ∃ c' ∈ rowsBefore h₁ pre, c'.table = t
  have ctx : Ctx env P := by
    refine ⟨?_, ?_⟩
    · rintro t1 t2 ⟨c1, h1, rfl⟩ ⟨c2, h2, rfl⟩ hid _ _
      exact sameInfo_infoOf (hwf.agree c1 h1 c2 h2 hid)
    · rintro t ⟨c', hc', rfl⟩
      exact hwf.mapper c' hc'
  have hrok : ∀ c' ∈ rowsBefore h₁ pre, RowsOK cfg c' := by
    intro c' hc'
    rcases List.mem_append.mp hc' with h | h
    · exact (rowsOK_of_units cfg h₁ hwf.units c' h).1
    · exact (rowsOK_of_changes cfg pre hwf.changes c' h).1
  obtain ⟨t, htid, hfake⟩ := curOK_snoc_last (rowsBefore h₁ pre) [] hwf.current c.table.id (Or.inr ⟨c₀, h0, hid⟩)
  have hcur := hfake { c₀ with table := t, announce := false } rfl rfl
  refine stop_at_rows cfg env h₁ u h₂ pre c P ctx [{ c₀ with table := t, announce := false }] hu hwf.units hwf.changes
    (fun c' hc' => ⟨c', hc', rfl⟩) hcur hwf.offsets ?_
  intro more st file cur anns off o' us hI hcurR hb hB2
  obtain ⟨hl, _⟩ := hcurR
  have hl' : lastDef anns c.table.id = some t := by
    rcases hl with h | h
    · cases h
    · simpa [htid] using h
  obtain ⟨c', hc', hct⟩ := hI.anns t (lastDef_some hl').1
  have hsame := hwf.agree c' hc' c₀ h0 (by rw [hct, htid, hid])
  have hT := (hrok c' hc').table
  have hcols : (infoOf t).columns.length ≠ c.table.cols.length := by
    rw [← hct]
    simp only [infoOf, List.length_zip, hT.names, hT.unsigned, Nat.min_self]
    rw [hsame.2.2.2.2]; exact hcount
  have hcache : findTable st.tables c.table.id = some (entryOf t) := by rw [hI.cache, hl']; rfl
  simp only [hann, if_true, tmAEv] at hb ⊢
  obtain ⟨hb1, _⟩ := bnd_none hb
  have hnm : (entryOf t).tableMap.database = c.table.db ∧ (entryOf t).tableMap.name = c.table.name := by
    refine ⟨?_, ?_⟩
    · show t.db = c.table.db
      rw [← hct, hsame.1]; exact hname.1
    · show t.name = c.table.name
      rw [← hct, hsame.2.1]; exact hname.2
  have hcl := cl_tm_known env st cfg hI.fmt off c.ts c.table hc.table c.tmOptional hc.ts hb1 (entryOf t) hcache hnm
  have hs := GV.C15.findTable_update_same st.tables c.table.id ⟨tmOf c.table, infoOf t⟩ (entryOf t) hcache
  let st' : PState :=
    { st with tables := st.tables.map fun p => if p.1 == c.table.id then (p.1, ⟨tmOf c.table, infoOf t⟩) else p }
  have hr' : Ready cfg st' := hI.fmt
  have hp' : st'.pos = posOf cur := hI.pos
  have hstep : stepD st (.tableMap c.table.id { entryOf t with tableMap := tmOf c.table } true) = .cont st' := by
    simp [stepD, entryOf, st']
  exact lay_cont _ hcl hstep (good_stop env st' cur hp' _ _
    (cl_count_mismatch env st' cfg hr' o' c hc hne hB2 (infoOf t) hs hcols))

/-! ### consistency: such a change is outside the domain of the fidelity theorems -/

theorem imageHasBad_not_imgOK {cols : List (W.ColDef × Bool)} {vals : List (Option W.CellVal)}
    (hb : imageHasBad cols vals) (hok : ImgOK cols vals) : False := by
  obtain ⟨p, hp, h1, h2⟩ := hb
  have h := hok.2 p hp
  obtain ⟨col, v⟩ := p
  cases v with
  | none => cases h1
  | some x =>
    obtain ⟨w, hw⟩ := Option.isSome_iff_exists.mp h2
    have e1 := (cell_exact ⟨fun _ => [], fun _ => [], fun _ => [], fun _ => 0⟩ col.1.typ col.1.md col.2 x h [] []).2
    rw [(badWidth_spec _ _ hw).2.2] at e1
    cases e1

theorem bad_not_rowsOK (cfg : W.Cfg) (c : W.RowsChange) (hbad : BadValueChange cfg c) : ¬ RowsOK cfg c := by
  intro hok
  obtain ⟨r, hr, h⟩ := hbad.bad
  rcases h with ⟨hk, h⟩ | ⟨hk, h⟩
  · exact imageHasBad_not_imgOK h ((hok.images r hr).1 hk)
  · exact imageHasBad_not_imgOK h ((hok.images r hr).2 hk)

/-- which image counts, kind by kind -/
theorem bad_by_kind (c : W.RowsChange) :
    (∃ r ∈ c.rows, (c.kind ≠ .write ∧ imageHasBad (W.selectPresent c.presentBefore (colsU c.table)) r.1) ∨
                   (c.kind ≠ .delete ∧ imageHasBad (W.selectPresent c.presentAfter (colsU c.table)) r.2)) ↔
    match c.kind with
    | .write => ∃ r ∈ c.rows, imageHasBad (W.selectPresent c.presentAfter (colsU c.table)) r.2
    | .update => ∃ r ∈ c.rows, imageHasBad (W.selectPresent c.presentBefore (colsU c.table)) r.1 ∨
                               imageHasBad (W.selectPresent c.presentAfter (colsU c.table)) r.2
    | .delete => ∃ r ∈ c.rows, imageHasBad (W.selectPresent c.presentBefore (colsU c.table)) r.1 := by
  cases c.kind <;> simp

end C06b
end GV
