import GV.Model.Cell
import GV.Spec.Cell
import GV.Lemmas.Dec
/- helper lemmas for GV/Props/C11.lean -/
namespace GV
namespace C11
open Bytes

/-! ### digit lists -/

theorem rev_ind {α : Type} {P : List α → Prop} (nil : P []) (snoc : ∀ l a, P l → P (l ++ [a])) :
    ∀ l, P l := by
  intro l
  have h : ∀ l : List α, P l.reverse := by
    intro l
    induction l with
    | nil => exact nil
    | cons a l ih => rw [List.reverse_cons]; exact snoc _ _ ih
  simpa using h l.reverse

theorem dv_nil : W.digitsVal [] = 0 := rfl

theorem dv_snoc (ds : List Nat) (d : Nat) : W.digitsVal (ds ++ [d]) = W.digitsVal ds * 10 + d := by
  simp [W.digitsVal, List.foldl_append]

theorem foldl_dv (acc : Nat) (ds : List Nat) :
    ds.foldl (fun a d => a * 10 + d) acc = acc * 10 ^ ds.length + ds.foldl (fun a d => a * 10 + d) 0 := by
  induction ds generalizing acc with
  | nil => simp
  | cons d ds ih =>
    simp only [List.foldl_cons, List.length_cons]
    rw [ih, ih (0 * 10 + d)]
    simp [Nat.pow_succ, Nat.add_mul, Nat.mul_assoc, Nat.add_assoc, Nat.mul_comm 10]

theorem dv_cons (d : Nat) (ds : List Nat) :
    W.digitsVal (d :: ds) = d * 10 ^ ds.length + W.digitsVal ds := by
  simp only [W.digitsVal, List.foldl_cons]
  rw [foldl_dv]; simp

theorem dv_lt (ds : List Nat) (h : ∀ d ∈ ds, d < 10) : W.digitsVal ds < 10 ^ ds.length := by
  induction ds using rev_ind with
  | nil => simp [dv_nil]
  | snoc l a ih =>
    rw [dv_snoc]
    have h1 := ih (fun d hd => h d (by simp [hd]))
    have h2 := h a (by simp)
    simp only [List.length_append, List.length_singleton, Nat.pow_succ]
    omega

theorem digitsText_append (a b : List Nat) : W.digitsText (a ++ b) = W.digitsText a ++ W.digitsText b := by
  simp [W.digitsText]

theorem digitsN_dv (ds : List Nat) (h : ∀ d ∈ ds, d < 10) :
    digitsN ds.length (W.digitsVal ds) = W.digitsText ds := by
  induction ds using rev_ind with
  | nil => rfl
  | snoc l a ih =>
    have h1 := ih (fun d hd => h d (by simp [hd]))
    have h2 := h a (by simp)
    rw [dv_snoc, digitsText_append]
    simp only [List.length_append, List.length_singleton, digitsN]
    have e1 : (W.digitsVal l * 10 + a) / 10 = W.digitsVal l := by omega
    have e2 : (W.digitsVal l * 10 + a) % 10 = a := by omega
    rw [e1, e2, h1]; rfl

theorem strip_cons_ne (d : Nat) (ds : List Nat) (h : d ≠ 0) : W.stripLeadingZeros (d :: ds) = d :: ds := by
  cases d with
  | zero => exact absurd rfl h
  | succ k => rfl

theorem strip_cons_zero (ds : List Nat) : W.stripLeadingZeros (0 :: ds) = W.stripLeadingZeros ds := rfl

theorem strip_nil_iff (ds : List Nat) : W.stripLeadingZeros ds = [] ↔ W.digitsVal ds = 0 := by
  induction ds with
  | nil => simp [W.stripLeadingZeros, dv_nil]
  | cons d ds ih =>
    rw [dv_cons]
    cases d with
    | zero => rw [strip_cons_zero, ih]; simp
    | succ k =>
      rw [strip_cons_ne _ _ (by omega)]
      have : 0 < 10 ^ ds.length := Nat.pow_pos (by omega)
      have : 10 ^ ds.length ≤ (k + 1) * 10 ^ ds.length := Nat.le_mul_of_pos_left _ (by omega)
      simp; omega

theorem strip_append_ne (a b : List Nat) (h : W.stripLeadingZeros a ≠ []) :
    W.stripLeadingZeros (a ++ b) = W.stripLeadingZeros a ++ b := by
  induction a with
  | nil => exact absurd rfl h
  | cons d a ih =>
    cases d with
    | zero => simp only [List.cons_append, strip_cons_zero] at h ⊢; exact ih h
    | succ k => simp [strip_cons_ne]

theorem strip_append_nil (a b : List Nat) (h : W.stripLeadingZeros a = []) :
    W.stripLeadingZeros (a ++ b) = W.stripLeadingZeros b := by
  induction a with
  | nil => rfl
  | cons d a ih =>
    cases d with
    | zero => simp only [List.cons_append, strip_cons_zero] at h ⊢; exact ih h
    | succ k => rw [strip_cons_ne _ _ (by omega)] at h; cases h

theorem natDec_dv (ds : List Nat) (h : ∀ d ∈ ds, d < 10) (hv : W.digitsVal ds ≠ 0) :
    natDec (W.digitsVal ds) = W.digitsText (W.stripLeadingZeros ds) := by
  induction ds using rev_ind with
  | nil => exact absurd dv_nil hv
  | snoc l a ih =>
    have h1 := ih (fun d hd => h d (by simp [hd]))
    have h2 := h a (by simp)
    rw [dv_snoc] at hv ⊢
    by_cases hl : W.digitsVal l = 0
    · have hs := (strip_nil_iff l).mpr hl
      rw [strip_append_nil _ _ hs, hl]
      have ha : a ≠ 0 := by omega
      rw [strip_cons_ne _ _ ha]
      simp only [Nat.zero_mul, Nat.zero_add]
      rw [natDec_lt a h2]; rfl
    · have hs : W.stripLeadingZeros l ≠ [] := fun e => hl ((strip_nil_iff l).mp e)
      rw [strip_append_ne _ _ hs, digitsText_append, ← h1 hl, natDec_ge _ (by omega)]
      have e1 : (W.digitsVal l * 10 + a) / 10 = W.digitsVal l := by omega
      have e2 : (W.digitsVal l * 10 + a) % 10 = a := by omega
      rw [e1, e2]; rfl

/-! ### bytes -/

theorem ofLE_succ' (w n : Nat) : ofLE (w + 1) n = ofLE w n ++ [UInt8.ofNat (n / 256 ^ w % 256)] := by
  induction w generalizing n with
  | zero => simp [ofLE]
  | succ w ih =>
    rw [ofLE, ih (n / 256)]
    simp only [ofLE, List.cons_append]
    rw [Nat.div_div_eq_div_mul, Nat.pow_succ, Nat.mul_comm 256]

theorem ofBE_succ (w n : Nat) : ofBE (w + 1) n = UInt8.ofNat (n / 256 ^ w % 256) :: ofBE w n := by
  simp [ofBE, ofLE_succ']

/-- non-empty and the top bit of the first byte is clear -/
def TopClear (l : Bytes) : Prop := ∃ b bs, l = b :: bs ∧ b.toNat < 128

theorem topClear_ofBE (w v : Nat) (hw : 0 < w) (hv : v < 128 * 256 ^ (w - 1)) (t : Bytes) :
    TopClear (ofBE w v ++ t) := by
  obtain ⟨w, rfl⟩ : ∃ k, w = k + 1 := ⟨w - 1, by omega⟩
  rw [ofBE_succ]
  refine ⟨_, _, rfl, ?_⟩
  rw [toNat_ofNat_mod]
  simp only [Nat.add_sub_cancel] at hv
  have : v / 256 ^ w < 128 := (Nat.div_lt_iff_lt_mul (Nat.pow_pos (by omega))).mpr hv
  exact Nat.lt_of_le_of_lt (Nat.mod_le _ _) this

theorem lead_bound : ∀ a, a < 9 → 0 < a → 10 ^ a ≤ 128 * 256 ^ ((a + 1) / 2 - 1) := by decide
theorem lead_fits : ∀ a, a < 9 → 10 ^ a ≤ 256 ^ ((a + 1) / 2) := by decide

theorem groups_length (ds : List Nat) (n : Nat) : (W.decIntBytes.groups ds n).length = 4 * n := by
  induction n generalizing ds with
  | zero => rfl
  | succ n ih => simp [W.decIntBytes.groups, ih]; omega

/-! ### sign handling -/

theorem xorN1 : ∀ n, n < 256 → ((n ^^^ 128) ^^^ 255 ^^^ 128 ^^^ 255) = n := by decide +kernel
theorem xorN2 : ∀ n, n < 128 → ((n ^^^ 128) / 128 % 2 == 0) = false := by decide
theorem xorN3 : ∀ n, n < 128 → ((n ^^^ 128 ^^^ 255) / 128 % 2 == 0) = true := by decide

theorem xor_xor (b c : UInt8) : (b ^^^ c) ^^^ c = b := by
  rw [UInt8.xor_assoc, UInt8.xor_self, UInt8.xor_zero]

theorem xor4 (b : UInt8) : (((b ^^^ 0x80) ^^^ 0xff) ^^^ 0x80) ^^^ 0xff = b := by
  apply UInt8.toNat_inj.mp
  simp only [UInt8.toNat_xor]
  exact xorN1 _ b.toNat_lt

theorem sign_pos (b : UInt8) (h : b.toNat < 128) : ((b ^^^ 0x80).toNat / 128 % 2 == 0) = false := by
  simp only [UInt8.toNat_xor]
  exact xorN2 _ h

theorem sign_neg (b : UInt8) (h : b.toNat < 128) : (((b ^^^ 0x80) ^^^ 0xff).toNat / 128 % 2 == 0) = true := by
  simp only [UInt8.toNat_xor]
  exact xorN3 _ h

theorem map_xor_xor (l : Bytes) : (l.map (· ^^^ 0xff)).map (· ^^^ 0xff) = l := by
  induction l with
  | nil => rfl
  | cons x xs ih => simp only [List.map_cons, xor_xor, ih]

/-! ### the group loops -/

theorem groups_succ (ds : List Nat) (n : Nat) :
    W.decIntBytes.groups ds (n + 1) = ofBE 4 (W.digitsVal (ds.take 9)) ++ W.decIntBytes.groups (ds.drop 9) n := rfl

theorem take9_lt10 (ds : List Nat) (hd : ∀ d ∈ ds, d < 10) : W.digitsVal (ds.take 9) < 10 ^ 9 := by
  have h := dv_lt (ds.take 9) (fun d h => hd d (List.mem_of_mem_take h))
  have : (ds.take 9).length ≤ 9 := by simp; omega
  have : 10 ^ (ds.take 9).length ≤ 10 ^ 9 := Nat.pow_le_pow_right (by omega) this
  omega

theorem take9_lt (ds : List Nat) (hd : ∀ d ∈ ds, d < 10) : W.digitsVal (ds.take 9) < 256 ^ 4 := by
  have := take9_lt10 ds hd
  omega

theorem fracGroups (pre post : Bytes) (ds : List Nat) (n : Nat) (txt : Bytes)
    (hd : ∀ d ∈ ds, d < 10) (hl : 9 * n ≤ ds.length) :
    M.decFracGroups (pre ++ (W.decIntBytes.groups ds n ++ post)) n pre.length txt
      = .ok (txt ++ W.digitsText (ds.take (9 * n)), pre.length + 4 * n) := by
  induction n generalizing pre ds txt with
  | zero => simp [M.decFracGroups, W.digitsText]
  | succ n ih =>
    have h9 : (ds.take 9).length = 9 := by simp; omega
    have hv := take9_lt ds hd
    have hd9 : ∀ d ∈ ds.take 9, d < 10 := fun d h => hd d (List.mem_of_mem_take h)
    rw [M.decFracGroups, groups_succ, List.append_assoc, readBE_mid, Nat.mod_eq_of_lt hv]
    simp only [Res.ok_bind]
    have := ih (pre ++ ofBE 4 (W.digitsVal (ds.take 9))) (ds.drop 9)
      (txt ++ padMin 9 (W.digitsVal (List.take 9 ds))) (fun d h => hd d (List.mem_of_mem_drop h))
      (by simp; omega)
    simp only [List.length_append, ofBE_length, List.append_assoc] at this
    rw [this]
    rw [padMin_eq_digitsN 9 _ (take9_lt10 ds hd) (by omega)]
    have e := digitsN_dv (ds.take 9) hd9
    rw [h9] at e
    rw [e, ← digitsText_append, Nat.mul_succ, Nat.add_comm (9 * n) 9, List.take_add]
    congr 2; omega

/-- what the integer loop appends for the digits `ds`, given the incoming `flag` -/
def intOut (flag : Bool) (ds : List Nat) : Bytes :=
  if flag then W.digitsText ds else W.digitsText (W.stripLeadingZeros ds)
def intFlag (flag : Bool) (ds : List Nat) : Bool := flag || !(W.stripLeadingZeros ds).isEmpty

theorem intGroups (pre post : Bytes) (ds : List Nat) (n : Nat) (flag : Bool) (txt : Bytes)
    (hd : ∀ d ∈ ds, d < 10) (hl : ds.length = 9 * n) :
    M.decIntGroups (pre ++ (W.decIntBytes.groups ds n ++ post)) n pre.length flag txt
      = .ok (txt ++ intOut flag ds, intFlag flag ds, pre.length + 4 * n) := by
  induction n generalizing pre ds txt flag with
  | zero =>
    have : ds = [] := List.eq_nil_of_length_eq_zero (by omega)
    subst this
    cases flag <;> simp [M.decIntGroups, intOut, intFlag, W.digitsText, W.stripLeadingZeros]
  | succ n ih =>
    have h9 : (ds.take 9).length = 9 := by simp; omega
    have hv := take9_lt ds hd
    have hd9 : ∀ d ∈ ds.take 9, d < 10 := fun d h => hd d (List.mem_of_mem_take h)
    have hdr : ∀ d ∈ ds.drop 9, d < 10 := fun d h => hd d (List.mem_of_mem_drop h)
    have hlr : (ds.drop 9).length = 9 * n := by simp; omega
    have hds : ds.take 9 ++ ds.drop 9 = ds := List.take_append_drop 9 ds
    rw [M.decIntGroups, groups_succ, List.append_assoc, readBE_mid, Nat.mod_eq_of_lt hv]
    simp only [Res.ok_bind]
    have ih' := fun fl tx => ih (pre ++ ofBE 4 (W.digitsVal (ds.take 9))) (ds.drop 9) fl tx hdr hlr
    simp only [List.length_append, ofBE_length, List.append_assoc] at ih'
    have e4 : pre.length + 4 + 4 * n = pre.length + 4 * (n + 1) := by omega
    cases flag with
    | true =>
      simp only [if_true]
      rw [ih', padMin_eq_digitsN 9 _ (take9_lt10 ds hd) (by omega)]
      have e := digitsN_dv (ds.take 9) hd9
      rw [h9] at e
      rw [e, e4]
      simp only [intOut, intFlag, if_true, Bool.true_or, List.append_assoc]
      rw [← digitsText_append, hds]
    | false =>
      by_cases hpos : W.digitsVal (ds.take 9) > 0
      · have hs : W.stripLeadingZeros (ds.take 9) ≠ [] :=
          fun e => by have := (strip_nil_iff _).mp e; omega
        have hsd : W.stripLeadingZeros ds = W.stripLeadingZeros (ds.take 9) ++ ds.drop 9 := by
          rw [← strip_append_ne _ _ hs, hds]
        simp only [Bool.false_eq_true, if_false, hpos, if_true]
        rw [ih', natDec_dv _ hd9 (by omega), e4]
        simp only [intOut, intFlag, if_true, Bool.false_eq_true, if_false, Bool.false_or, List.append_assoc]
        rw [hsd, digitsText_append]
        cases hc : W.stripLeadingZeros (ds.take 9) with
        | nil => exact absurd hc hs
        | cons a as => simp
      · have hz : W.digitsVal (ds.take 9) = 0 := by omega
        have hs := (strip_nil_iff _).mpr hz
        have hsd : W.stripLeadingZeros ds = W.stripLeadingZeros (ds.drop 9) := by
          have := strip_append_nil _ (ds.drop 9) hs
          rw [hds] at this; exact this
        simp only [Bool.false_eq_true, if_false, hpos]
        rw [ih', e4]
        simp only [intOut, intFlag, Bool.false_eq_true, if_false, Bool.false_or, hsd]

/-! ### explicit-position variants -/

theorem readBE_at (d pre post : Bytes) (w v pos : Nat) (hd : d = pre ++ (ofBE w v ++ post))
    (hpos : pos = pre.length) (hv : v < 256 ^ w) : readBE d pos w = .ok v := by
  subst hd hpos
  rw [readBE_mid, Nat.mod_eq_of_lt hv]

theorem intGroups_at (d pre post : Bytes) (ds : List Nat) (n pos : Nat) (flag : Bool) (txt : Bytes)
    (hdd : d = pre ++ (W.decIntBytes.groups ds n ++ post)) (hpos : pos = pre.length)
    (hd : ∀ d ∈ ds, d < 10) (hl : ds.length = 9 * n) :
    M.decIntGroups d n pos flag txt = .ok (txt ++ intOut flag ds, intFlag flag ds, pos + 4 * n) := by
  subst hdd hpos
  exact intGroups pre post ds n flag txt hd hl

theorem fracGroups_at (d pre post : Bytes) (ds : List Nat) (n pos : Nat) (txt : Bytes)
    (hdd : d = pre ++ (W.decIntBytes.groups ds n ++ post)) (hpos : pos = pre.length)
    (hd : ∀ d ∈ ds, d < 10) (hl : 9 * n ≤ ds.length) :
    M.decFracGroups d n pos txt = .ok (txt ++ W.digitsText (ds.take (9 * n)), pos + 4 * n) := by
  subst hdd hpos
  exact fracGroups pre post ds n txt hd hl

/-! ### the decoder after the sign has been undone -/

/-- the tail of `M.decimalBytes` (same text), as a function of the sign-normalised bytes `d` -/
def decTail (d : Bytes) (txt : Bytes) (intg0 ib frac0 fb frac0x scale l : Nat) : Res (Bytes × Nat) := do
  let v ← readBE d 0 ib
  let (txt, flag) := if v > 0 then (txt ++ natDec v, true) else (txt, false)
  let (txt, flag, p) ← M.decIntGroups d intg0 ib flag txt
  let txt := if flag then txt else txt ++ [48]
  if scale = 0 then pure (txt, l) else
  let txt := txt ++ [46]
  let (txt, p) ← M.decFracGroups d frac0 p txt
  if fb = 0 then pure (txt, l) else
  let v ← readBE d p fb
  pure (txt ++ padMin frac0x v, l)

/-- canonical integer-part text -/
def intText (i : List Nat) : Bytes :=
  match W.stripLeadingZeros i with | [] => [digit 0] | ds => W.digitsText ds

theorem intText_nil (i : List Nat) (h : W.stripLeadingZeros i = []) : intText i = [48] := by
  simp only [intText, h]; decide

theorem intText_ne (i : List Nat) (h : W.stripLeadingZeros i ≠ []) :
    intText i = W.digitsText (W.stripLeadingZeros i) := by
  unfold intText
  cases hc : W.stripLeadingZeros i with
  | nil => exact absurd hc h
  | cons a as => rfl

theorem lead_lt (g : List Nat) (hg : ∀ d ∈ g, d < 10) (hl : g.length < 9) :
    W.digitsVal g < 256 ^ W.dig2bytesSpec g.length := by
  have h1 := dv_lt g hg
  have h2 := lead_fits g.length hl
  unfold W.dig2bytesSpec
  omega

theorem decTail_raw (i f : List Nat) (hid : ∀ d ∈ i, d < 10) (hfd : ∀ d ∈ f, d < 10) (txt0 : Bytes) (l : Nat) :
    decTail (W.decIntBytes i ++ W.decFracBytes f) txt0 (i.length / 9) (W.dig2bytesSpec (i.length % 9))
        (f.length / 9) (W.dig2bytesSpec (f.length % 9)) (f.length % 9) f.length l
      = .ok (txt0 ++ intText i ++ (if f.isEmpty then [] else [46] ++ W.digitsText f), l) := by
  generalize hd : W.decIntBytes i ++ W.decFracBytes f = d
  have hd' : d = ofBE (W.dig2bytesSpec (i.length % 9)) (W.digitsVal (i.take (i.length % 9))) ++
      (W.decIntBytes.groups (i.drop (i.length % 9)) (i.length / 9) ++
        (W.decIntBytes.groups f (f.length / 9) ++
          (ofBE (W.dig2bytesSpec (f.length % 9)) (W.digitsVal (f.drop (f.length / 9 * 9))) ++ []))) := by
    rw [← hd]; simp [W.decIntBytes, W.decFracBytes]
  clear hd
  have hga : (i.take (i.length % 9)).length = i.length % 9 := by
    simp; omega
  have hgd : ∀ d ∈ i.take (i.length % 9), d < 10 := fun d h => hid d (List.mem_of_mem_take h)
  have hrd : ∀ d ∈ i.drop (i.length % 9), d < 10 := fun d h => hid d (List.mem_of_mem_drop h)
  have hrl : (i.drop (i.length % 9)).length = 9 * (i.length / 9) := by simp; omega
  have hgr : i.take (i.length % 9) ++ i.drop (i.length % 9) = i := List.take_append_drop _ _
  have hvi : W.digitsVal (i.take (i.length % 9)) < 256 ^ W.dig2bytesSpec (i.length % 9) := by
    have := lead_lt _ hgd (by rw [hga]; omega)
    rwa [hga] at this
  unfold decTail
  rw [readBE_at d [] _ _ _ 0 hd' rfl hvi]
  simp only [Res.ok_bind]
  have hI := fun fl tx => intGroups_at d _ _ _ _ (W.dig2bytesSpec (i.length % 9)) fl tx hd' (by simp) hrd hrl
  -- the fraction part, for any text so far
  have hF : ∀ tx : Bytes,
      (if f.length = 0 then (pure (tx, l) : Res (Bytes × Nat)) else
        M.decFracGroups d (f.length / 9) (W.dig2bytesSpec (i.length % 9) + 4 * (i.length / 9)) (tx ++ [46])
          >>= fun x =>
            if W.dig2bytesSpec (f.length % 9) = 0 then pure (x.fst, l) else
              readBE d x.snd (W.dig2bytesSpec (f.length % 9)) >>= fun v =>
                pure (x.fst ++ padMin (f.length % 9) v, l))
        = .ok (tx ++ (if f.isEmpty then [] else [46] ++ W.digitsText f), l) := by
    intro tx
    by_cases hf0 : f.length = 0
    · have : f = [] := List.eq_nil_of_length_eq_zero hf0
      subst this
      simp
    · have hfne : f.isEmpty = false := by
        cases f with
        | nil => simp at hf0
        | cons _ _ => rfl
      simp only [hf0, if_false, hfne, Bool.false_eq_true]
      rw [fracGroups_at d
        (ofBE (W.dig2bytesSpec (i.length % 9)) (W.digitsVal (i.take (i.length % 9))) ++
          W.decIntBytes.groups (i.drop (i.length % 9)) (i.length / 9))
        (ofBE (W.dig2bytesSpec (f.length % 9)) (W.digitsVal (f.drop (f.length / 9 * 9))) ++ []) f _ _ _
        (by rw [hd']; simp only [List.append_assoc]) (by simp [groups_length]) hfd (by omega)]
      simp only [Res.ok_bind]
      by_cases hc : W.dig2bytesSpec (f.length % 9) = 0
      · have hc0 : f.length % 9 = 0 := by unfold W.dig2bytesSpec at hc; omega
        simp only [hc, if_true]
        rw [List.take_of_length_le (by omega)]
        simp
      · have hc0 : 0 < f.length % 9 := by
          unfold W.dig2bytesSpec at hc; omega
        have hdl : (f.drop (f.length / 9 * 9)).length = f.length % 9 := by simp; omega
        have hdd : ∀ d ∈ f.drop (f.length / 9 * 9), d < 10 := fun d h => hfd d (List.mem_of_mem_drop h)
        have hvf := lead_lt _ hdd (by rw [hdl]; omega)
        rw [hdl] at hvf
        have hvf10 := dv_lt _ hdd
        rw [hdl] at hvf10
        simp only [hc, if_false]
        rw [readBE_at d
          (ofBE (W.dig2bytesSpec (i.length % 9)) (W.digitsVal (i.take (i.length % 9))) ++
            (W.decIntBytes.groups (i.drop (i.length % 9)) (i.length / 9) ++
              W.decIntBytes.groups f (f.length / 9))) [] _ _ _
          (by rw [hd']; simp only [List.append_assoc]) (by simp [groups_length]; omega) hvf]
        simp only [Res.ok_bind, Res.pure_eq]
        rw [padMin_eq_digitsN _ _ hvf10 hc0]
        have e := digitsN_dv _ hdd
        rw [hdl] at e
        rw [e, List.append_assoc, List.append_assoc, ← digitsText_append, Nat.mul_comm 9,
          List.take_append_drop]
  by_cases hpos : W.digitsVal (i.take (i.length % 9)) > 0
  · simp only [hpos, if_true]
    rw [hI]
    simp only [Res.ok_bind]
    have hs : W.stripLeadingZeros (i.take (i.length % 9)) ≠ [] :=
      fun e => by have := (strip_nil_iff _).mp e; omega
    have hsi : W.stripLeadingZeros i
        = W.stripLeadingZeros (i.take (i.length % 9)) ++ i.drop (i.length % 9) := by
      have := strip_append_ne _ (i.drop (i.length % 9)) hs
      rw [hgr] at this; exact this
    have hsne : W.stripLeadingZeros i ≠ [] := by
      rw [hsi]; intro e; exact hs (List.append_eq_nil_iff.mp e).1
    have hint : (if intFlag true (List.drop (i.length % 9) i) = true then
            txt0 ++ natDec (W.digitsVal (List.take (i.length % 9) i)) ++ intOut true (List.drop (i.length % 9) i)
          else
            txt0 ++ natDec (W.digitsVal (List.take (i.length % 9) i)) ++ intOut true (List.drop (i.length % 9) i) ++
              [48]) = txt0 ++ intText i := by
      rw [intText_ne i hsne, hsi, natDec_dv _ hgd (by omega)]
      simp [intFlag, intOut, digitsText_append]
    rw [hint]
    have := hF (txt0 ++ intText i)
    simp only [List.append_assoc] at this ⊢
    exact this
  · have hz : W.digitsVal (i.take (i.length % 9)) = 0 := by omega
    have hs := (strip_nil_iff _).mpr hz
    have hsi : W.stripLeadingZeros i = W.stripLeadingZeros (i.drop (i.length % 9)) := by
      have := strip_append_nil _ (i.drop (i.length % 9)) hs
      rw [hgr] at this; exact this
    simp only [hpos, if_false]
    rw [hI]
    simp only [Res.ok_bind]
    have hint : (if intFlag false (List.drop (i.length % 9) i) = true then
            txt0 ++ intOut false (List.drop (i.length % 9) i)
          else txt0 ++ intOut false (List.drop (i.length % 9) i) ++ [48]) = txt0 ++ intText i := by
      by_cases he : W.stripLeadingZeros (i.drop (i.length % 9)) = []
      · rw [intText_nil i (by rw [hsi]; exact he)]
        simp [intFlag, intOut, he, W.digitsText]
      · rw [intText_ne i (by rw [hsi]; exact he), hsi]
        have : (W.stripLeadingZeros (i.drop (i.length % 9))).isEmpty = false := by
          cases hc : W.stripLeadingZeros (i.drop (i.length % 9)) with
          | nil => exact absurd hc he
          | cons _ _ => rfl
        simp [intFlag, intOut, this]
    rw [hint]
    have := hF (txt0 ++ intText i)
    simp only [List.append_assoc] at this ⊢
    exact this

/-! ### the unsigned encoding: top bit clear, length -/

theorem topClear_group (ds : List Nat) (hd : ∀ d ∈ ds, d < 10) (t : Bytes) :
    TopClear (ofBE 4 (W.digitsVal (ds.take 9)) ++ t) := by
  apply topClear_ofBE _ _ (by omega)
  have := take9_lt10 ds hd
  omega

theorem topClear_lead (g : List Nat) (hg : ∀ d ∈ g, d < 10) (hl : g.length < 9) (h0 : 0 < g.length) (t : Bytes) :
    TopClear (ofBE (W.dig2bytesSpec g.length) (W.digitsVal g) ++ t) := by
  have h1 := dv_lt g hg
  have h2 := lead_bound g.length hl h0
  apply topClear_ofBE
  · unfold W.dig2bytesSpec; omega
  · unfold W.dig2bytesSpec; omega

theorem raw_topClear (i f : List Nat) (hid : ∀ d ∈ i, d < 10) (hfd : ∀ d ∈ f, d < 10)
    (hne : 0 < i.length + f.length) : TopClear (W.decIntBytes i ++ W.decFracBytes f) := by
  by_cases ha : 0 < i.length % 9
  · have hga : (i.take (i.length % 9)).length = i.length % 9 := by simp; omega
    have hgd : ∀ d ∈ i.take (i.length % 9), d < 10 := fun d h => hid d (List.mem_of_mem_take h)
    have := topClear_lead _ hgd (by rw [hga]; omega) (by rw [hga]; exact ha)
      (W.decIntBytes.groups (i.drop (i.length % 9)) (i.length / 9) ++ W.decFracBytes f)
    rw [hga] at this
    simpa [W.decIntBytes] using this
  · have ha0 : i.length % 9 = 0 := by omega
    by_cases hn : 0 < i.length / 9
    · obtain ⟨k, hk⟩ : ∃ k, i.length / 9 = k + 1 := ⟨i.length / 9 - 1, by omega⟩
      have := topClear_group i hid (W.decIntBytes.groups (i.drop 9) k ++ W.decFracBytes f)
      simpa [W.decIntBytes, ha0, hk, groups_succ, W.dig2bytesSpec, ofBE, ofLE] using this
    · have hi : i = [] := List.eq_nil_of_length_eq_zero (by omega)
      subst hi
      have hfl : 0 < f.length := by simpa using hne
      have e : W.decIntBytes [] = [] := rfl
      rw [e, List.nil_append]
      by_cases hm : 0 < f.length / 9
      · obtain ⟨k, hk⟩ : ∃ k, f.length / 9 = k + 1 := ⟨f.length / 9 - 1, by omega⟩
        have := topClear_group f hfd (W.decIntBytes.groups (f.drop 9) k ++
          ofBE (W.dig2bytesSpec (f.length % 9)) (W.digitsVal (f.drop (f.length / 9 * 9))))
        simpa [W.decFracBytes, hk, groups_succ] using this
      · have hm0 : f.length / 9 = 0 := by omega
        have hc : f.length % 9 = f.length := by omega
        have := topClear_lead f hfd (by omega) hfl []
        simpa [W.decFracBytes, hm0, hc, W.decIntBytes.groups] using this

theorem raw_length (i f : List Nat) :
    (W.decIntBytes i ++ W.decFracBytes f).length
      = i.length / 9 * 4 + W.dig2bytesSpec (i.length % 9) + f.length / 9 * 4 + W.dig2bytesSpec (f.length % 9) := by
  simp [W.decIntBytes, W.decFracBytes, groups_length]; omega

/-! ### the whole decoder on the writer's bytes -/

theorem dig2_spec : ∀ a, a < 9 → M.dig2 a = .ok (W.dig2bytesSpec a) := by decide

theorem decimalBytes_eq (data : Bytes) (pos md : Nat) :
    M.decimalBytes data pos md =
      if md / 256 < md % 256 then .panic else
      M.dig2 (md / 256 - md % 256 - (md / 256 - md % 256) / 9 * 9) >>= fun ib =>
      M.dig2 (md % 256 - md % 256 / 9 * 9) >>= fun fb =>
      data.slice pos (pos + ((md / 256 - md % 256) / 9 * 4 + ib + md % 256 / 9 * 4 + fb)) >>= fun d0 =>
      d0.get 0 >>= fun first =>
      decTail (if first.toNat / 128 % 2 == 0 then ((first ^^^ 0x80) :: d0.drop 1).map (· ^^^ 0xff)
                else (first ^^^ 0x80) :: d0.drop 1)
        (if first.toNat / 128 % 2 == 0 then [45] else [])
        ((md / 256 - md % 256) / 9) ib (md % 256 / 9) fb (md % 256 - md % 256 / 9 * 9) (md % 256)
        ((md / 256 - md % 256) / 9 * 4 + ib + md % 256 / 9 * 4 + fb) := by
  rfl

theorem decimalBytes_enc (p s : Nat) (hp : 1 ≤ p ∧ p ≤ 65) (hs : s ≤ 30 ∧ s ≤ p) (neg : Bool) (i f : List Nat)
    (hil : i.length = p - s) (hfl : f.length = s) (hid : ∀ d ∈ i, d < 10) (hfd : ∀ d ∈ f, d < 10)
    (rest : Bytes) :
    M.decimalBytes (W.decimalBytes neg i f ++ rest) 0 (p * 256 + s)
      = .ok ((if neg then [45] else []) ++ intText i ++ (if f.isEmpty then [] else [46] ++ W.digitsText f),
             (W.decimalBytes neg i f).length) := by
  have hdiv : (p * 256 + s) / 256 = p := by omega
  have hmod : (p * 256 + s) % 256 = s := by omega
  have hlt : ¬ p < s := by omega
  have hx1 : p - s - (p - s) / 9 * 9 = (p - s) % 9 := by omega
  have hx2 : s - s / 9 * 9 = s % 9 := by omega
  obtain ⟨b, bs, hraw, hb⟩ := raw_topClear i f hid hfd (by omega)
  have hrl := raw_length i f
  have htail := fun txt0 l => decTail_raw i f hid hfd txt0 l
  rw [hraw, hil, hfl] at hrl
  rw [hraw, hil, hfl] at htail
  have henc : W.decimalBytes neg i f
      = if neg then ((b ^^^ 0x80) :: bs).map (· ^^^ 0xff) else (b ^^^ 0x80) :: bs := by
    unfold W.decimalBytes
    simp only [hraw]
  rw [decimalBytes_eq]
  simp only [hdiv, hmod, hlt, if_false, hx1, hx2]
  rw [dig2_spec _ (by omega), dig2_spec _ (by omega)]
  simp only [Res.ok_bind]
  cases neg with
  | false =>
    simp only [Bool.false_eq_true, if_false] at henc ⊢
    rw [henc, slice_head _ _ _ (by simp at hrl ⊢; omega)]
    simp only [Res.ok_bind, Bytes.get, List.getElem?_cons_zero, List.drop_succ_cons, List.drop_zero,
      sign_pos b hb, Bool.false_eq_true, if_false, xor_xor]
    rw [htail]
    simp at hrl ⊢
    omega
  | true =>
    simp only [if_true] at henc ⊢
    rw [henc, slice_head _ _ _ (by simp at hrl ⊢; omega)]
    simp only [Res.ok_bind, Bytes.get, List.map_cons, List.getElem?_cons_zero, List.drop_succ_cons, List.drop_zero,
      sign_neg b hb, if_true, xor4, map_xor_xor]
    rw [htail]
    simp at hrl ⊢
    omega

/-! ### dispatch, length, text -/

theorem cellBytes_246 (E : M.Ext) (data : Bytes) (pos md : Nat) (u : Bool) :
    M.cellBytes E data pos 246 md u = M.decimalBytes data pos md := by
  unfold M.cellBytes
  simp

theorem cellLength_246 (data : Bytes) (pos md : Nat) : M.cellLength data pos 246 md = M.decimalLen md := by
  unfold M.cellLength
  have : M.lookup Facts.cellLengthFixed 246 = none := by decide
  simp [this]

theorem enc_length (neg : Bool) (i f : List Nat) :
    (W.decimalBytes neg i f).length = (W.decIntBytes i ++ W.decFracBytes f).length := by
  unfold W.decimalBytes
  cases W.decIntBytes i ++ W.decFracBytes f with
  | nil => cases neg <;> simp
  | cons b bs => cases neg <;> simp

theorem decimalLen_enc (p s : Nat) (hs : s ≤ 30 ∧ s ≤ p) (neg : Bool) (i f : List Nat)
    (hil : i.length = p - s) (hfl : f.length = s) :
    M.decimalLen (p * 256 + s) = .ok (W.decimalBytes neg i f).length := by
  have hdiv : (p * 256 + s) / 256 = p := by omega
  have hmod : (p * 256 + s) % 256 = s := by omega
  have hlt : ¬ p < s := by omega
  have hx1 : p - s - (p - s) / 9 * 9 = (p - s) % 9 := by omega
  have hx2 : s - s / 9 * 9 = s % 9 := by omega
  unfold M.decimalLen
  simp only [hdiv, hmod, hlt, if_false, hx1, hx2]
  rw [dig2_spec _ (by omega), dig2_spec _ (by omega), enc_length, raw_length, hil, hfl]
  rfl

theorem text_dec (md : Nat) (lc f32 f64 : Nat → Bytes) (neg : Bool) (i f : List Nat) :
    W.text md lc f32 f64 (.dec neg i f)
      = (if neg then [45] else []) ++ intText i ++ (if f.isEmpty then [] else [46] ++ W.digitsText f) := rfl

theorem intText_ne_nil (i : List Nat) : intText i ≠ [] := by
  by_cases h : W.stripLeadingZeros i = []
  · rw [intText_nil i h]; simp
  · rw [intText_ne i h]
    cases hc : W.stripLeadingZeros i with
    | nil => exact absurd hc h
    | cons a as => simp [W.digitsText]

theorem intText_value (i : List Nat) (hi : ∀ d ∈ i, d < 10) : decValue (intText i) = some (W.digitsVal i) := by
  by_cases h : W.stripLeadingZeros i = []
  · rw [intText_nil i h, (strip_nil_iff i).mp h]; decide
  · have hv : W.digitsVal i ≠ 0 := fun e => h ((strip_nil_iff i).mpr e)
    rw [intText_ne i h, ← natDec_dv i hi hv, decValue_natDec]

end C11
end GV
