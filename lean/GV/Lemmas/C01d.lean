import GV.Lemmas.C01c
/-
  Definitions and helper lemmas for GV/Props/C01d.lean (byte-level fidelity for a replica that RESUMES at a boundary).
  The first section holds the definitions the property statement is made of.
-/
namespace GV
namespace C01d
open Bytes M GV.Props.C01 GV.Props.C01b GV.C01c

/-! ### the statement's vocabulary -/

/-- the file a unit makes the master move on to -/
def rotTarget : W.Unit → List Bytes
  | .rotate f => [f]
  | .restart f => [f]
  | _ => []

/-- the names of the files of the log, in order: the first file, then every ROTATE / restart target -/
def logFiles (h : W.History) : List Bytes := W.firstFile :: h.flatMap rotTarget

/-- the units the master serves from p on: as many of the last units of the history as there are first-events-of-a-unit
    among the events served -/
def unitsFrom (cfg : W.Cfg) (h : W.History) (p : W.Pos) : W.History :=
  h.drop (h.length - (W.fromPos (W.layout cfg h) p).countP (·.unitStart))

/-- where the Spec master starts serving for p: nothing is left, or at the first event of a unit, or at the
    FORMAT_DESCRIPTION event at the head of a file (never in the middle of a unit, never at an artificial ROTATE) -/
def Lands (cfg : W.Cfg) (h : W.History) (p : W.Pos) : Prop :=
  match W.fromPos (W.layout cfg h) p with
  | [] => True
  | e :: _ => e.unitStart = true ∨ e.tag = .fileHead

/-- well-formedness of what is served from p on (nothing is asked of the units before p) -/
structure WFFrom (cfg : W.Cfg) (h : W.History) (p : W.Pos) : Prop where
  /-- the artificial ROTATE naming p's file fits in an event -/
  fileLen : 27 + p.file.length + (if cfg.crc then 4 else 0) < 2 ^ 32
  units : ∀ u ∈ unitsFrom cfg h p, UnitOK cfg u
  /-- a table id names one table from p on -/
  tables : ∀ c1 ∈ histRows (unitsFrom cfg h p), ∀ c2 ∈ histRows (unitsFrom cfg h p),
    c1.table.id = c2.table.id → c1.table = c2.table
  /-- the replica's table cache is empty at p: every rows change from p on is preceded by its TABLE_MAP event unless
      its table id was announced earlier AT OR AFTER p -/
  announced : annOK [] (histRows (unitsFrom cfg h p))
  /-- every event served ends below 4 GiB in its file -/
  offsets : ∀ e ∈ W.fromPos (W.layout cfg h) p, e.next < 2 ^ 32

/-- the hypothesis of the resume theorem: the name of p's file is not reused (the Spec master finds p by file name),
    and what is served from p on is well-formed -/
structure WFHistFrom (cfg : W.Cfg) (h : W.History) (p : W.Pos) : Prop extends WFFrom cfg h p where
  fresh : (logFiles h).count p.file ≤ 1

/-! ### the layout, one abstract event at a time -/

/-- the file an abstract event makes the layout move on to -/
def rotOf : W.Tag → Option Bytes
  | .rotateTo f => some f
  | .stopThenRotateTo f => some f
  | _ => none

/-- the tag the laid-out event carries -/
def laidTag : W.Tag → W.Tag
  | .stopThenRotateTo _ => .none
  | t => t

/-- end offset of the FORMAT_DESCRIPTION event at the head of a file -/
def FN (cfg : W.Cfg) : Nat := (W.fdeEvent cfg 4 none).2

def hereOf (cfg : W.Cfg) (e : W.AEv) (file : Bytes) (off : Nat) : W.Laid :=
  ⟨file, off, endOf cfg off e.body, bytesAt cfg off e.typ e.ts e.body, e.ts, laidTag e.tag, e.unitStart⟩

/-- the artificial ROTATE at the end of a file -/
def fakeR (cfg : W.Cfg) (file : Bytes) (s : Nat) (g : Bytes) : W.Laid :=
  ⟨file, s, s, fakeRotBytes cfg s 4 g, 0, .rotateTo g, false⟩

/-- the FORMAT_DESCRIPTION event at the head of file g -/
def fdeL (cfg : W.Cfg) (g : Bytes) : W.Laid := ⟨g, 4, FN cfg, (W.fdeEvent cfg 4 none).1, 0, .fileHead, false⟩

theorem layoutAux_plain (cfg : W.Cfg) (e : W.AEv) (es : List W.AEv) (file : Bytes) (off : Nat)
    (hr : rotOf e.tag = none) :
    W.layoutAux cfg (e :: es) file off = hereOf cfg e file off :: W.layoutAux cfg es file (endOf cfg off e.body) := by
  obtain ⟨typ, body, ts, tag, us⟩ := e
  cases tag <;> simp [rotOf] at hr <;>
    simp only [W.layoutAux, endOf, crcN, bytesAt, event_snd, hereOf, laidTag]

theorem layoutAux_rot (cfg : W.Cfg) (e : W.AEv) (es : List W.AEv) (file : Bytes) (off : Nat) (g : Bytes)
    (hr : rotOf e.tag = some g) :
    W.layoutAux cfg (e :: es) file off
      = hereOf cfg e file off :: fakeR cfg file (endOf cfg off e.body) g :: fdeL cfg g :: W.layoutAux cfg es g (FN cfg) := by
  obtain ⟨typ, body, ts, tag, us⟩ := e
  cases tag <;> simp [rotOf] at hr <;> subst hr <;>
    simp only [W.layoutAux, endOf, crcN, bytesAt, event_snd, hereOf, laidTag, fakeR, fdeL, FN, fakeRotBytes]

theorem layout_eq' (cfg : W.Cfg) (h : W.History) :
    W.layout cfg h = fdeL cfg W.firstFile :: W.layoutAux cfg (h.flatMap (W.unitEvs cfg)) W.firstFile (FN cfg) := rfl

/-- the rotation targets of a list of abstract events -/
def tgts : List W.AEv → List Bytes
  | [] => []
  | e :: es => match rotOf e.tag with
    | some g => g :: tgts es
    | none => tgts es

/-- file and offset after laying the events out -/
def adv (cfg : W.Cfg) : List W.AEv → Bytes → Nat → Bytes × Nat
  | [], f, o => (f, o)
  | e :: es, f, o => match rotOf e.tag with
    | some g => adv cfg es g (FN cfg)
    | none => adv cfg es f (endOf cfg o e.body)

theorem layoutAux_append (cfg : W.Cfg) : ∀ (a b : List W.AEv) (f : Bytes) (o : Nat),
    W.layoutAux cfg (a ++ b) f o = W.layoutAux cfg a f o ++ W.layoutAux cfg b (adv cfg a f o).1 (adv cfg a f o).2
  | [], b, f, o => by simp [W.layoutAux, adv]
  | e :: a, b, f, o => by
    cases hr : rotOf e.tag with
    | none =>
      rw [List.cons_append, layoutAux_plain _ _ _ _ _ hr, layoutAux_plain _ _ _ _ _ hr, layoutAux_append cfg a b]
      simp [adv, hr]
    | some g =>
      rw [List.cons_append, layoutAux_rot _ _ _ _ _ g hr, layoutAux_rot _ _ _ _ _ g hr, layoutAux_append cfg a b]
      simp [adv, hr]

theorem tgts_append : ∀ (a b : List W.AEv), tgts (a ++ b) = tgts a ++ tgts b
  | [], b => rfl
  | e :: a, b => by
    cases hr : rotOf e.tag <;> simp [tgts, hr, tgts_append a b]

theorem adv_append (cfg : W.Cfg) : ∀ (a b : List W.AEv) (f : Bytes) (o : Nat),
    adv cfg (a ++ b) f o = adv cfg b (adv cfg a f o).1 (adv cfg a f o).2
  | [], b, f, o => rfl
  | e :: a, b, f, o => by
    cases hr : rotOf e.tag <;> simp [adv, hr, adv_append cfg a b]

theorem lt_endOf (cfg : W.Cfg) (off : Nat) (body : Bytes) : off < endOf cfg off body := by
  unfold endOf; omega

theorem four_lt_FN (cfg : W.Cfg) : 4 < FN cfg := by
  unfold FN; rw [W.fdeEvent, event_snd]; omega

/-- every laid-out event is in the current file at or after the current offset, or in a later file -/
theorem mem_layoutAux (cfg : W.Cfg) : ∀ (es : List W.AEv) (f : Bytes) (o : Nat) (x : W.Laid),
    x ∈ W.layoutAux cfg es f o → (x.file = f ∧ o ≤ x.start) ∨ x.file ∈ tgts es
  | [], f, o, x, hx => by simp [W.layoutAux] at hx
  | e :: es, f, o, x, hx => by
    cases hr : rotOf e.tag with
    | none =>
      rw [layoutAux_plain _ _ _ _ _ hr] at hx
      rcases List.mem_cons.mp hx with rfl | hx
      · exact Or.inl ⟨rfl, Nat.le_refl _⟩
      · rcases mem_layoutAux cfg es _ _ x hx with ⟨h1, h2⟩ | h
        · exact Or.inl ⟨h1, Nat.le_trans (Nat.le_of_lt (lt_endOf cfg o e.body)) h2⟩
        · right; simpa [tgts, hr] using h
    | some g =>
      rw [layoutAux_rot _ _ _ _ _ g hr] at hx
      simp only [List.mem_cons] at hx
      rcases hx with rfl | rfl | rfl | hx
      · exact Or.inl ⟨rfl, Nat.le_refl _⟩
      · exact Or.inl ⟨rfl, Nat.le_of_lt (lt_endOf cfg o e.body)⟩
      · right; simp [tgts, hr, fdeL]
      · rcases mem_layoutAux cfg es _ _ x hx with ⟨h1, _⟩ | h
        · right; simp [tgts, hr, h1]
        · right; simp [tgts, hr, h]

/-! ### the Spec master finds a position by file name: where `fromPos` lands -/

theorem cnt_head {f x : Bytes} {l : List Bytes} (h : (f :: l).count x ≤ 1) (hx : f = x) : x ∉ l := by
  intro hm
  have := List.count_pos_iff.mpr hm
  rw [List.count_cons] at h
  simp only [hx, beq_self_eq_true, if_true] at h
  omega

theorem cnt_tail {f x : Bytes} {l : List Bytes} (h : (f :: l).count x ≤ 1) : l.count x ≤ 1 := by
  rw [List.count_cons] at h
  omega

/-- when the name of e's file is used once, no event laid out before e is in a file of that name at or after e's offset -/
theorem no_match_before (cfg : W.Cfg) : ∀ (es : List W.AEv) (f : Bytes) (o : Nat) (pre : List W.Laid) (e : W.Laid)
    (rest : List W.Laid), W.layoutAux cfg es f o = pre ++ e :: rest → (f :: tgts es).count e.file ≤ 1 →
    ∀ y ∈ pre, ¬(y.file = e.file ∧ e.start ≤ y.start)
  | [], f, o, pre, e, rest, hl, _ => by
    simp [W.layoutAux] at hl
  | a :: es, f, o, pre, e, rest, hl, hc => by
    cases hr : rotOf a.tag with
    | none =>
      rw [layoutAux_plain _ _ _ _ _ hr] at hl
      simp only [tgts, hr] at hc
      cases pre with
      | nil => intro y hy; cases hy
      | cons x pre' =>
        simp only [List.cons_append, List.cons.injEq] at hl
        obtain ⟨hx, hl⟩ := hl
        intro y hy
        rcases List.mem_cons.mp hy with rfl | hy
        · rw [← hx]
          rintro ⟨h1, h2⟩
          have he : e ∈ W.layoutAux cfg es f (endOf cfg o a.body) := by rw [hl]; simp
          rcases mem_layoutAux cfg es _ _ e he with ⟨_, h4⟩ | h3
          · have := lt_endOf cfg o a.body
            simp only [hereOf] at h2
            omega
          · exact cnt_head hc h1 h3
        · exact no_match_before cfg es f _ pre' e rest hl hc y hy
    | some g =>
      rw [layoutAux_rot _ _ _ _ _ g hr] at hl
      simp only [tgts, hr] at hc
      have hc' := cnt_tail hc
      -- an event of the next files is not in a file named like the one just left
      have key : ∀ (pre' : List W.Laid), W.layoutAux cfg es g (FN cfg) = pre' ++ e :: rest → f ≠ e.file := by
        intro pre' hl' h1
        have he : e ∈ W.layoutAux cfg es g (FN cfg) := by rw [hl']; simp
        have : e.file ∈ g :: tgts es := by
          rcases mem_layoutAux cfg es _ _ e he with ⟨h3, _⟩ | h3
          · rw [h3]; exact List.mem_cons_self
          · exact List.mem_cons_of_mem _ h3
        exact cnt_head hc h1 this
      match pre, hl with
      | [], _ => intro y hy; cases hy
      | [x], hl =>
        simp only [List.cons_append, List.nil_append, List.cons.injEq] at hl
        obtain ⟨hx, he, _⟩ := hl
        intro y hy
        simp only [List.mem_cons, List.not_mem_nil, or_false] at hy
        subst hy
        rw [← hx, ← he]
        rintro ⟨_, h2⟩
        have := lt_endOf cfg o a.body
        simp only [hereOf, fakeR] at h2
        omega
      | [x, x2], hl =>
        simp only [List.cons_append, List.nil_append, List.cons.injEq] at hl
        obtain ⟨hx, hx2, he, _⟩ := hl
        have hne : f ≠ e.file := by
          intro h1
          refine cnt_head hc h1 ?_
          rw [← he]; exact List.mem_cons_self
        intro y hy
        simp only [List.mem_cons, List.not_mem_nil, or_false] at hy
        rcases hy with rfl | rfl
        · rw [← hx]; rintro ⟨h1, _⟩; exact hne h1
        · rw [← hx2]; rintro ⟨h1, _⟩; exact hne h1
      | x :: x2 :: x3 :: pre', hl =>
        simp only [List.cons_append, List.cons.injEq] at hl
        obtain ⟨hx, hx2, hx3, hl⟩ := hl
        have hne := key pre' hl
        intro y hy
        simp only [List.mem_cons] at hy
        rcases hy with rfl | rfl | rfl | hy
        · rw [← hx]; rintro ⟨h1, _⟩; exact hne h1
        · rw [← hx2]; rintro ⟨h1, _⟩; exact hne h1
        · rw [← hx3]
          rintro ⟨h1, h2⟩
          have he : e ∈ W.layoutAux cfg es g (FN cfg) := by rw [hl]; simp
          rcases mem_layoutAux cfg es _ _ e he with ⟨_, h4⟩ | h3
          · have := four_lt_FN cfg
            simp only [fdeL] at h2
            omega
          · exact cnt_head hc' h1 h3
        · exact no_match_before cfg es g _ pre' e rest hl hc' y hy

theorem fromPos_split : ∀ (pre : List W.Laid) (e : W.Laid) (rest : List W.Laid),
    (∀ y ∈ pre, ¬(y.file = e.file ∧ e.start ≤ y.start)) →
    W.fromPos (pre ++ e :: rest) ⟨e.file, e.start⟩ = e :: rest
  | [], e, rest, _ => by simp [W.fromPos]
  | y :: pre, e, rest, h => by
    have hy := h y List.mem_cons_self
    have ih := fromPos_split pre e rest (fun z hz => h z (List.mem_cons_of_mem _ hz))
    unfold W.fromPos at ih ⊢
    rw [List.cons_append, List.dropWhile_cons]
    have : (!(y.file == e.file && decide (y.start ≥ e.start))) = true := by
      simp only [Bool.not_eq_true', Bool.and_eq_false_iff, beq_eq_false_iff_ne, decide_eq_false_iff_not]
      by_cases h1 : y.file = e.file
      · right; intro h2; exact hy ⟨h1, h2⟩
      · left; exact h1
    simp only [this, if_true]
    exact ih

/-- nothing of a list none of whose events matches is served -/
theorem fromPos_none : ∀ (l : List W.Laid) (p : W.Pos), (∀ y ∈ l, ¬(y.file = p.file ∧ p.offset ≤ y.start)) →
    W.fromPos l p = []
  | [], _, _ => rfl
  | y :: l, p, h => by
    have hy := h y List.mem_cons_self
    have ih := fromPos_none l p (fun z hz => h z (List.mem_cons_of_mem _ hz))
    unfold W.fromPos at ih ⊢
    rw [List.dropWhile_cons]
    have : (!(y.file == p.file && decide (y.start ≥ p.offset))) = true := by
      simp only [Bool.not_eq_true', Bool.and_eq_false_iff, beq_eq_false_iff_ne, decide_eq_false_iff_not]
      by_cases h1 : y.file = p.file
      · right; intro h2; exact hy ⟨h1, h2⟩
      · left; exact h1
    simp only [this, if_true]
    exact ih

/-! ### the shape of a unit's events -/

/-- an event inside a unit: not a unit start, does not rotate, is not a file head -/
structure Inner (x : W.AEv) : Prop where
  us : x.unitStart = false
  rot : rotOf x.tag = none
  nfh : x.tag ≠ .fileHead

theorem changeEvs_inner (cfg : W.Cfg) (c : W.Change) : ∀ x ∈ W.changeEvs cfg c, Inner x := by
  intro x hx
  cases c with
  | stmt s =>
    simp only [W.changeEvs, List.mem_cons, List.not_mem_nil, or_false] at hx
    subst hx
    exact ⟨rfl, rfl, by simp [W.stmtEv]⟩
  | rows c =>
    simp only [W.changeEvs, List.mem_append, List.mem_cons, List.not_mem_nil, or_false] at hx
    rcases hx with hx | rfl
    · split at hx
      · simp only [List.mem_cons, List.not_mem_nil, or_false] at hx
        subst hx
        exact ⟨rfl, rfl, by simp [W.tableMapEv]⟩
      · cases hx
    · exact ⟨rfl, rfl, by simp [W.rowsEv]⟩

/-- a unit is one event that starts it (the only one that may rotate) followed by inner events -/
theorem unitEvs_shape (cfg : W.Cfg) (u : W.Unit) :
    ∃ e es, W.unitEvs cfg u = e :: es ∧ e.unitStart = true ∧ e.tag ≠ .fileHead ∧ (∀ x ∈ es, Inner x) ∧
      ((rotOf e.tag = none ∧ rotTarget u = []) ∨ ∃ g, rotOf e.tag = some g ∧ es = [] ∧ rotTarget u = [g]) := by
  cases u with
  | tx b cs close ts =>
    refine ⟨{ W.stmtEv ⟨b, [], ts, [], 0, none⟩ .none with unitStart := true },
      cs.flatMap (W.changeEvs cfg) ++ [match close with
        | .xid n => ⟨16, W.xidBody n, ts, .commit cs, false⟩
        | .commit sql => W.stmtEv ⟨sql, [], ts, [], 0, none⟩ (.commit cs)
        | .rollback sql => W.stmtEv ⟨sql, [], ts, [], 0, none⟩ (.commit [])],
      by cases close <;> simp [W.unitEvs, W.markStart], rfl, by simp [W.stmtEv], ?_, Or.inl ⟨rfl, rfl⟩⟩
    intro x hx
    simp only [List.mem_append, List.mem_flatMap, List.mem_cons, List.not_mem_nil, or_false] at hx
    rcases hx with ⟨c, _, hx⟩ | rfl
    · exact changeEvs_inner cfg c x hx
    · cases close <;> exact ⟨rfl, rfl, by simp [W.stmtEv]⟩
  | ddl s => exact ⟨_, _, rfl, rfl, by simp [W.stmtEv], (by intro x hx; cases hx), Or.inl ⟨rfl, rfl⟩⟩
  | stmtDML s => exact ⟨_, _, rfl, rfl, by simp [W.stmtEv], (by intro x hx; cases hx), Or.inl ⟨rfl, rfl⟩⟩
  | autoRows c =>
    cases ha : c.announce with
    | true =>
      refine ⟨{ W.tableMapEv cfg c with unitStart := true }, [W.rowsEv cfg c (.commit [.rows c])], ?_, rfl,
        by simp [W.tableMapEv], ?_, Or.inl ⟨rfl, rfl⟩⟩
      · simp [W.unitEvs, ha, W.markStart]
      · intro x hx
        simp only [List.mem_cons, List.not_mem_nil, or_false] at hx
        subst hx
        exact ⟨rfl, rfl, by simp [W.rowsEv]⟩
    | false =>
      refine ⟨{ W.rowsEv cfg c (.commit [.rows c]) with unitStart := true }, [], ?_, rfl,
        by simp [W.rowsEv], (by intro x hx; cases hx), Or.inl ⟨rfl, rfl⟩⟩
      simp [W.unitEvs, ha, W.markStart]
  | rotate f => exact ⟨_, _, rfl, rfl, by simp, (by intro x hx; cases hx), Or.inr ⟨f, rfl, rfl, rfl⟩⟩
  | restart f => exact ⟨_, _, rfl, rfl, by simp, (by intro x hx; cases hx), Or.inr ⟨f, rfl, rfl, rfl⟩⟩
  | gtid sid gno => exact ⟨_, _, rfl, rfl, by simp, (by intro x hx; cases hx), Or.inl ⟨rfl, rfl⟩⟩
  | anonGtid => exact ⟨_, _, rfl, rfl, by simp, (by intro x hx; cases hx), Or.inl ⟨rfl, rfl⟩⟩
  | prevGtids b => exact ⟨_, _, rfl, rfl, by simp, (by intro x hx; cases hx), Or.inl ⟨rfl, rfl⟩⟩
  | heartbeat => exact ⟨_, _, rfl, rfl, by simp, (by intro x hx; cases hx), Or.inl ⟨rfl, rfl⟩⟩
  | unknownEvent t b => exact ⟨_, _, rfl, rfl, by simp, (by intro x hx; cases hx), Or.inl ⟨rfl, rfl⟩⟩
  | unknownStmt s => exact ⟨_, _, rfl, rfl, by simp [W.stmtEv], (by intro x hx; cases hx), Or.inl ⟨rfl, rfl⟩⟩

theorem laidTag_ne_fileHead {t : W.Tag} (h : t ≠ .fileHead) : laidTag t ≠ .fileHead := by
  cases t <;> simp [laidTag] at h ⊢

/-- inner events are laid out in the same file, as events that are not boundaries -/
theorem inner_run (cfg : W.Cfg) : ∀ (es : List W.AEv) (f : Bytes) (o : Nat), (∀ x ∈ es, Inner x) →
    (∀ y ∈ W.layoutAux cfg es f o, y.unitStart = false ∧ y.tag ≠ .fileHead) ∧ (adv cfg es f o).1 = f ∧ tgts es = []
  | [], f, o, _ => by simp [W.layoutAux, adv, tgts]
  | a :: es, f, o, h => by
    have ha := h a List.mem_cons_self
    obtain ⟨h1, h2, h3⟩ := inner_run cfg es f (endOf cfg o a.body) (fun x hx => h x (List.mem_cons_of_mem _ hx))
    rw [layoutAux_plain _ _ _ _ _ ha.rot]
    refine ⟨?_, by simp [adv, ha.rot, h2], by simp [tgts, ha.rot, h3]⟩
    intro y hy
    rcases List.mem_cons.mp hy with rfl | hy
    · exact ⟨ha.us, laidTag_ne_fileHead ha.nfh⟩
    · exact h1 y hy

theorem skip_prefix {α : Type} (Q : α → Prop) : ∀ (A B pre : List α) (e : α) (rest : List α),
    A ++ B = pre ++ e :: rest → (∀ a ∈ A, ¬ Q a) → Q e → ∃ pre', B = pre' ++ e :: rest
  | [], B, pre, e, rest, h, _, _ => ⟨pre, h⟩
  | a :: A, B, [], e, rest, h, hA, he => by
    simp only [List.cons_append, List.nil_append, List.cons.injEq] at h
    exact absurd (h.1 ▸ he) (hA a List.mem_cons_self)
  | a :: A, B, x :: pre, e, rest, h, hA, he => by
    simp only [List.cons_append, List.cons.injEq] at h
    exact skip_prefix Q A B pre e rest h.2 (fun z hz => hA z (List.mem_cons_of_mem _ hz)) he

/-- a boundary event of the layout — the first event of a unit, or a file head — is where a suffix of the history is
    laid out -/
theorem split_at (cfg : W.Cfg) : ∀ (us : List W.Unit) (f : Bytes) (o : Nat) (pre : List W.Laid) (e : W.Laid)
    (rest : List W.Laid), W.layoutAux cfg (us.flatMap (W.unitEvs cfg)) f o = pre ++ e :: rest →
    (e.unitStart = true ∨ e.tag = .fileHead) →
    ∃ us₁ us₂, us = us₁ ++ us₂ ∧
      ((e.unitStart = true ∧ e.tag ≠ .fileHead ∧
          e :: rest = W.layoutAux cfg (us₂.flatMap (W.unitEvs cfg)) e.file e.start) ∨
       (e = fdeL cfg e.file ∧ rest = W.layoutAux cfg (us₂.flatMap (W.unitEvs cfg)) e.file (FN cfg)))
  | [], f, o, pre, e, rest, hl, _ => by simp [W.layoutAux] at hl
  | u :: us, f, o, pre, e, rest, hl0, hb => by
    obtain ⟨e0, es0, hsh, hus, hnf, hin, hrot⟩ := unitEvs_shape cfg u
    have hl := hl0
    rw [List.flatMap_cons, hsh, List.cons_append] at hl
    -- the first event of the unit: a boundary at (f, o)
    have first : ∀ x, x = hereOf cfg e0 f o → x = e → pre = [] →
        ∃ us₁ us₂, u :: us = us₁ ++ us₂ ∧
          ((e.unitStart = true ∧ e.tag ≠ .fileHead ∧
              e :: rest = W.layoutAux cfg (us₂.flatMap (W.unitEvs cfg)) e.file e.start) ∨
           (e = fdeL cfg e.file ∧ rest = W.layoutAux cfg (us₂.flatMap (W.unitEvs cfg)) e.file (FN cfg))) := by
      intro x hx hxe hpre
      subst hxe hpre
      refine ⟨[], u :: us, rfl, Or.inl ⟨?_, ?_, ?_⟩⟩
      · rw [hx]; exact hus
      · rw [hx]; exact laidTag_ne_fileHead hnf
      · have h1 : x.file = f := by rw [hx]; rfl
        have h2 : x.start = o := by rw [hx]; rfl
        rw [h1, h2, hl0]; rfl
    -- boundaries of the later units
    have later : ∀ pre' f' o', W.layoutAux cfg (us.flatMap (W.unitEvs cfg)) f' o' = pre' ++ e :: rest →
        ∃ us₁ us₂, u :: us = us₁ ++ us₂ ∧
          ((e.unitStart = true ∧ e.tag ≠ .fileHead ∧
              e :: rest = W.layoutAux cfg (us₂.flatMap (W.unitEvs cfg)) e.file e.start) ∨
           (e = fdeL cfg e.file ∧ rest = W.layoutAux cfg (us₂.flatMap (W.unitEvs cfg)) e.file (FN cfg))) := by
      intro pre' f' o' hl'
      obtain ⟨a, b, hab, hd⟩ := split_at cfg us f' o' pre' e rest hl' hb
      exact ⟨u :: a, b, by rw [hab]; rfl, hd⟩
    rcases hrot with ⟨hr, _⟩ | ⟨g, hr, hes, _⟩
    · rw [layoutAux_plain _ _ _ _ _ hr, layoutAux_append] at hl
      obtain ⟨hi1, hi2, _⟩ := inner_run cfg es0 f (endOf cfg o e0.body) hin
      cases pre with
      | nil =>
        simp only [List.nil_append, List.cons.injEq] at hl
        exact first _ rfl hl.1 rfl
      | cons x pre' =>
        simp only [List.cons_append, List.cons.injEq] at hl
        obtain ⟨pre'', hl''⟩ := skip_prefix (fun y : W.Laid => y.unitStart = true ∨ y.tag = .fileHead) _ _ pre' e rest
          hl.2 (fun y hy hq => by
            obtain ⟨h1, h2⟩ := hi1 y hy
            rcases hq with hq | hq
            · rw [h1] at hq; cases hq
            · exact h2 hq) hb
        exact later pre'' _ _ hl''
    · subst hes
      rw [layoutAux_rot _ _ _ _ _ g hr] at hl
      match pre, hl with
      | [], hl =>
        simp only [List.nil_append, List.cons.injEq] at hl
        exact first _ rfl hl.1 rfl
      | [x], hl =>
        simp only [List.cons_append, List.nil_append, List.cons.injEq] at hl
        obtain ⟨_, he, _⟩ := hl
        rw [← he] at hb
        rcases hb with hb | hb <;> simp [fakeR] at hb
      | [x, x2], hl =>
        simp only [List.cons_append, List.nil_append, List.cons.injEq] at hl
        obtain ⟨_, _, he, hrest⟩ := hl
        refine ⟨[u], us, rfl, Or.inr ⟨?_, ?_⟩⟩
        · rw [← he]; rfl
        · rw [← hrest, ← he]; rfl
      | x :: x2 :: x3 :: pre', hl =>
        simp only [List.cons_append, List.cons.injEq] at hl
        exact later pre' _ _ hl.2.2.2

/-- one first-event-of-a-unit per unit -/
theorem countP_units (cfg : W.Cfg) : ∀ (us : List W.Unit) (f : Bytes) (o : Nat),
    (W.layoutAux cfg (us.flatMap (W.unitEvs cfg)) f o).countP (·.unitStart) = us.length
  | [], f, o => by simp [W.layoutAux]
  | u :: us, f, o => by
    obtain ⟨e0, es0, hsh, hus, _, hin, hrot⟩ := unitEvs_shape cfg u
    rw [List.flatMap_cons, hsh, List.cons_append]
    rcases hrot with ⟨hr, _⟩ | ⟨g, hr, hes, _⟩
    · rw [layoutAux_plain _ _ _ _ _ hr, layoutAux_append]
      obtain ⟨hi1, _, _⟩ := inner_run cfg es0 f (endOf cfg o e0.body) hin
      have hz : (W.layoutAux cfg es0 f (endOf cfg o e0.body)).countP (·.unitStart) = 0 := by
        rw [List.countP_eq_zero]
        intro y hy
        simp [(hi1 y hy).1]
      rw [List.countP_cons, List.countP_append, hz, countP_units cfg us]
      simp [hereOf, hus]
    · subst hes
      rw [layoutAux_rot _ _ _ _ _ g hr, List.nil_append]
      simp only [List.countP_cons, countP_units cfg us]
      simp [hereOf, hus, fakeR, fdeL]

theorem tgts_units (cfg : W.Cfg) : ∀ (us : List W.Unit), tgts (us.flatMap (W.unitEvs cfg)) = us.flatMap rotTarget
  | [] => rfl
  | u :: us => by
    obtain ⟨e0, es0, hsh, _, _, hin, hrot⟩ := unitEvs_shape cfg u
    obtain ⟨_, _, ht⟩ := inner_run cfg es0 [] 0 hin
    rw [List.flatMap_cons, List.flatMap_cons, tgts_append, tgts_units cfg us, hsh]
    rcases hrot with ⟨hr, h2⟩ | ⟨g, hr, _, h2⟩ <;> simp [tgts, hr, ht, h2]

/-! ### the whole layout -/

/-- a boundary event of the whole layout is where a suffix of the history is laid out -/
theorem layout_split_at (cfg : W.Cfg) (h : W.History) (pre : List W.Laid) (e : W.Laid) (rest : List W.Laid)
    (hl : W.layout cfg h = pre ++ e :: rest) (hb : e.unitStart = true ∨ e.tag = .fileHead) :
    ∃ us₁ us₂, h = us₁ ++ us₂ ∧
      ((e.unitStart = true ∧ e.tag ≠ .fileHead ∧
          e :: rest = W.layoutAux cfg (us₂.flatMap (W.unitEvs cfg)) e.file e.start) ∨
       (e = fdeL cfg e.file ∧ rest = W.layoutAux cfg (us₂.flatMap (W.unitEvs cfg)) e.file (FN cfg))) := by
  rw [layout_eq'] at hl
  cases pre with
  | nil =>
    simp only [List.nil_append, List.cons.injEq] at hl
    obtain ⟨he, hrest⟩ := hl
    refine ⟨[], h, rfl, Or.inr ⟨?_, ?_⟩⟩
    · rw [← he]; rfl
    · rw [← hrest, ← he]; rfl
  | cons x pre' =>
    simp only [List.cons_append, List.cons.injEq] at hl
    exact split_at cfg h _ _ pre' e rest hl.2 hb

/-- when the name of e's file is used once in the log, no earlier event is in a file of that name at or after e -/
theorem layout_no_match (cfg : W.Cfg) (h : W.History) (pre : List W.Laid) (e : W.Laid) (rest : List W.Laid)
    (hl : W.layout cfg h = pre ++ e :: rest) (hf : (logFiles h).count e.file ≤ 1) :
    ∀ y ∈ pre, ¬(y.file = e.file ∧ e.start ≤ y.start) := by
  rw [layout_eq'] at hl
  unfold logFiles at hf
  rw [← tgts_units cfg h] at hf
  cases pre with
  | nil => intro y hy; cases hy
  | cons x pre' =>
    simp only [List.cons_append, List.cons.injEq] at hl
    obtain ⟨hx, hl⟩ := hl
    intro y hy
    rcases List.mem_cons.mp hy with rfl | hy
    · rw [← hx]
      rintro ⟨h1, h2⟩
      have he : e ∈ W.layoutAux cfg (h.flatMap (W.unitEvs cfg)) W.firstFile (FN cfg) := by rw [hl]; simp
      rcases mem_layoutAux cfg _ _ _ e he with ⟨_, h4⟩ | h3
      · have := four_lt_FN cfg
        simp only [fdeL] at h2
        omega
      · exact cnt_head hf h1 h3
    · exact no_match_before cfg _ _ _ pre' e rest hl hf y hy

/-- … so serving from e's position starts at e -/
theorem fromPos_at (cfg : W.Cfg) (h : W.History) (pre : List W.Laid) (e : W.Laid) (rest : List W.Laid)
    (hl : W.layout cfg h = pre ++ e :: rest) (hf : (logFiles h).count e.file ≤ 1) :
    W.fromPos (W.layout cfg h) ⟨e.file, e.start⟩ = e :: rest := by
  rw [hl]
  exact fromPos_split pre e rest (layout_no_match cfg h pre e rest hl hf)

/-- the end of the log: file and offset after the last event -/
def logEnd (cfg : W.Cfg) (h : W.History) : W.Pos :=
  ⟨(adv cfg (h.flatMap (W.unitEvs cfg)) W.firstFile (FN cfg)).1, (adv cfg (h.flatMap (W.unitEvs cfg)) W.firstFile (FN cfg)).2⟩

theorem getLast_adv (cfg : W.Cfg) : ∀ (es : List W.AEv) (f : Bytes) (o : Nat) (x : W.Laid), x.file = f → x.next = o →
    ∃ z, (x :: W.layoutAux cfg es f o).getLast? = some z ∧ z.file = (adv cfg es f o).1 ∧ z.next = (adv cfg es f o).2
  | [], f, o, x, h1, h2 => ⟨x, by simp [W.layoutAux], h1, h2⟩
  | a :: es, f, o, x, _, _ => by
    cases hr : rotOf a.tag with
    | none =>
      rw [layoutAux_plain _ _ _ _ _ hr, List.getLast?_cons_cons]
      simpa [adv, hr] using getLast_adv cfg es f (endOf cfg o a.body) (hereOf cfg a f o) rfl rfl
    | some g =>
      rw [layoutAux_rot _ _ _ _ _ g hr, List.getLast?_cons_cons, List.getLast?_cons_cons, List.getLast?_cons_cons]
      simpa [adv, hr] using getLast_adv cfg es g (FN cfg) (fdeL cfg g) rfl rfl

theorem layout_getLast (cfg : W.Cfg) (h : W.History) :
    ∃ z, (W.layout cfg h).getLast? = some z ∧ (⟨z.file, z.next⟩ : W.Pos) = logEnd cfg h := by
  obtain ⟨z, h1, h2, h3⟩ := getLast_adv cfg (h.flatMap (W.unitEvs cfg)) W.firstFile (FN cfg) (fdeL cfg W.firstFile) rfl rfl
  exact ⟨z, by rw [layout_eq']; exact h1, by simp [logEnd, h2, h3]⟩

/-- when the name of the last file is used once, nothing is served from the end of the log -/
theorem fromPos_end (cfg : W.Cfg) (h : W.History) (hf : (logFiles h).count (logEnd cfg h).file ≤ 1) :
    W.fromPos (W.layout cfg h) (logEnd cfg h) = [] := by
  -- one more unit would be laid out exactly there
  have hl : W.layout cfg (h ++ [.heartbeat]) = W.layout cfg h ++
      hereOf cfg ⟨27, asc "hb", 0, .none, true⟩ (logEnd cfg h).file (logEnd cfg h).offset :: [] := by
    rw [layout_eq', layout_eq', List.flatMap_append, layoutAux_append, List.cons_append]
    simp only [List.flatMap_cons, List.flatMap_nil, List.append_nil, W.unitEvs, W.markStart]
    rw [layoutAux_plain _ _ _ _ _ rfl]
    simp [W.layoutAux, logEnd]
  have hf' : (logFiles (h ++ [.heartbeat])).count
      (hereOf cfg ⟨27, asc "hb", 0, .none, true⟩ (logEnd cfg h).file (logEnd cfg h).offset).file ≤ 1 := by
    simpa [logFiles, rotTarget, hereOf] using hf
  have := layout_no_match cfg (h ++ [.heartbeat]) _ _ _ hl hf'
  exact fromPos_none _ _ this

theorem tag_beq_fileHead (t : W.Tag) : (t == W.Tag.fileHead) = true ↔ t = .fileHead := by
  cases t <;> simp <;> rfl

theorem mem_boundaries (cfg : W.Cfg) (h : W.History) (p : W.Pos) (hp : p ∈ W.boundaries cfg h) :
    (∃ e ∈ W.layout cfg h, (e.unitStart = true ∨ e.tag = .fileHead) ∧ p = ⟨e.file, e.start⟩) ∨ p = logEnd cfg h := by
  obtain ⟨z, hz1, hz2⟩ := layout_getLast cfg h
  unfold W.boundaries at hp
  simp only [hz1, List.mem_append, List.mem_filterMap, List.mem_cons, List.not_mem_nil, or_false] at hp
  rcases hp with ⟨e, he, hp⟩ | hp
  · left
    split at hp
    · rename_i hc
      refine ⟨e, he, ?_, (Option.some.inj hp).symm⟩
      simpa [tag_beq_fileHead] using hc
    · cases hp
  · right; rw [hp, hz2]

/-- a boundary of a log in which the name of its file is used once: the master starts serving at a boundary event -/
theorem lands_of_boundary (cfg : W.Cfg) (h : W.History) (p : W.Pos) (hp : p ∈ W.boundaries cfg h)
    (hf : (logFiles h).count p.file ≤ 1) : Lands cfg h p := by
  unfold Lands
  rcases mem_boundaries cfg h p hp with ⟨e, he, hb, rfl⟩ | rfl
  · obtain ⟨pre, rest, hl⟩ := List.append_of_mem he
    rw [fromPos_at cfg h pre e rest hl hf]
    exact hb
  · rw [fromPos_end cfg h hf]
    trivial

/-! ### the run of a replica that resumes -/

/-- the first two packets of a dump: the artificial ROTATE (skipped: the parser has no format yet, its position stays
    the one it was started with), then a FORMAT_DESCRIPTION event; then the laid-out events -/
theorem resume_prefix (cfg : W.Cfg) (env : Env) (p : W.Pos) (fdeB : Bytes) (l : List W.Laid)
    (hl : 27 + p.file.length + (if cfg.crc then 4 else 0) < 2 ^ 32)
    (hfde : classify env (PState.init (posOf p)) fdeB = .format (fmtOf cfg))
    (hg : Good env { PState.init (posOf p) with format := fmtOf cfg } p l) :
    parseEvents env (fun _ => true) (PState.init (posOf p))
        ((fakeRotBytes cfg 0 p.offset p.file :: fdeB :: l.map (·.bytes)).map Input.event ++ [Input.closed])
      = ⟨(W.expectedAux l p).map (toTx env.ext), (W.expectedAux l p).map (toTx env.ext),
         posOf (W.endPosAux l p), false, false⟩ := by
  have hfake := cl_fakeRot_first env (PState.init (posOf p)) cfg rfl 0 p.offset p.file hl
  unfold Good at hg
  simp only [List.map_cons, List.cons_append, parseEvents, stepEvent, hfake, hfde, stepD, List.map_map]
  exact hg

/-- the units laid out from offset `o` of p's file, parsed with an empty table cache -/
theorem good_units (cfg : W.Cfg) (env : Env) (us : List W.Unit) (p : W.Pos) (o : Nat)
    (hu : ∀ u ∈ us, UnitOK cfg u)
    (ht : ∀ c1 ∈ histRows us, ∀ c2 ∈ histRows us, c1.table.id = c2.table.id → c1.table = c2.table)
    (ha : annOK [] (histRows us)) (hm : MapperAgrees env us)
    (hb : Bnd (W.layoutAux cfg (us.flatMap (W.unitEvs cfg)) p.file o)) :
    Good env { PState.init (posOf p) with format := fmtOf cfg } p
      (W.layoutAux cfg (us.flatMap (W.unitEvs cfg)) p.file o) := by
  let P : W.TableDef → Prop := fun t => ∃ c ∈ histRows us, c.table = t
  have ctx : Ctx env P := by
    refine ⟨?_, ?_⟩
    · rintro t1 t2 ⟨c1, h1, rfl⟩ ⟨c2, h2, rfl⟩ hid
      exact ht c1 h1 c2 h2 hid
    · rintro t ⟨c, hc, rfl⟩
      exact hm c hc
  have hI : Inv cfg P { PState.init (posOf p) with format := fmtOf cfg } p.file p [] := by
    refine ⟨rfl, rfl, rfl, ?_, ?_⟩
    · intro id tc hf; simp [PState.init, findTable] at hf
    · intro id hid; cases hid
  exact units_run ctx us _ p.file o p [] hI rfl rfl hu (fun c hc => ⟨c, hc, rfl⟩) ha hb

theorem fromPos_head_file (l : List W.Laid) (p : W.Pos) (e : W.Laid) (rest : List W.Laid)
    (h : W.fromPos l p = e :: rest) : e.file = p.file := by
  have := List.head?_dropWhile_not (fun e : W.Laid => !(e.file == p.file && e.start ≥ p.offset)) l
  unfold W.fromPos at h
  rw [h] at this
  simp only [List.head?_cons, Bool.not_eq_false', Bool.and_eq_true, beq_iff_eq] at this
  exact this.1

/-- what is served when `fromPos` lands on a suffix of the history -/
theorem unitsFrom_eq (cfg : W.Cfg) (us₁ us₂ : List W.Unit) (p : W.Pos)
    (hc : (W.fromPos (W.layout cfg (us₁ ++ us₂)) p).countP (·.unitStart) = us₂.length) :
    unitsFrom cfg (us₁ ++ us₂) p = us₂ := by
  unfold unitsFrom
  rw [hc, List.length_append, Nat.add_sub_cancel]
  exact List.drop_left

theorem serve_eq (cfg : W.Cfg) (h : W.History) (p : W.Pos) :
    W.serve cfg h p = fakeRotBytes cfg 0 p.offset p.file ::
      (match W.fromPos (W.layout cfg h) p with
        | e :: _ => if e.tag == .fileHead then [] else [(W.fdeEvent cfg 4 (some 0)).1]
        | [] => [(W.fdeEvent cfg 4 (some 0)).1]) ++ (W.fromPos (W.layout cfg h) p).map (·.bytes) := rfl

theorem serve_nil (cfg : W.Cfg) (h : W.History) (p : W.Pos) (hfp : W.fromPos (W.layout cfg h) p = []) :
    W.serve cfg h p = fakeRotBytes cfg 0 p.offset p.file :: (W.fdeEvent cfg 4 (some 0)).1 :: ([] : List W.Laid).map (·.bytes) := by
  rw [serve_eq, hfp]; rfl

theorem serve_unit (cfg : W.Cfg) (h : W.History) (p : W.Pos) (e : W.Laid) (rest : List W.Laid)
    (hfp : W.fromPos (W.layout cfg h) p = e :: rest) (hnf : e.tag ≠ .fileHead) :
    W.serve cfg h p = fakeRotBytes cfg 0 p.offset p.file :: (W.fdeEvent cfg 4 (some 0)).1 :: (e :: rest).map (·.bytes) := by
  have hne : (e.tag == W.Tag.fileHead) = false := by
    cases hb : (e.tag == W.Tag.fileHead) with
    | false => rfl
    | true => exact absurd ((tag_beq_fileHead _).mp hb) hnf
  rw [serve_eq, hfp]
  simp only [hne, Bool.false_eq_true, if_false, List.cons_append, List.nil_append]

theorem serve_fileHead (cfg : W.Cfg) (h : W.History) (p : W.Pos) (e : W.Laid) (rest : List W.Laid)
    (hfp : W.fromPos (W.layout cfg h) p = e :: rest) (hfh : e.tag = .fileHead) :
    W.serve cfg h p = fakeRotBytes cfg 0 p.offset p.file :: e.bytes :: rest.map (·.bytes) := by
  rw [serve_eq, hfp]
  simp only [(tag_beq_fileHead _).mpr hfh, if_true, List.cons_append, List.nil_append, List.map_cons]

/-- byte-level fidelity for a replica started at p, whenever the master starts serving at a boundary event -/
theorem resume_lands (cfg : W.Cfg) (env : Env) (h : W.History) (p : W.Pos) (hwf : WFFrom cfg h p)
    (hl : Lands cfg h p) (hm : MapperAgrees env (unitsFrom cfg h p)) :
    parseEvents env (fun _ => true) (PState.init (posOf p)) ((W.serve cfg h p).map Input.event ++ [Input.closed])
      = ⟨(W.expected cfg h p).map (toTx env.ext), (W.expected cfg h p).map (toTx env.ext),
         posOf (W.endPos cfg h p), false, false⟩ := by
  have hart := C01_classify_fde env (PState.init (posOf p)) cfg 4 (some 0) (by decide)
    (by intro n hn; cases hn; decide)
  have hreal := C01_classify_fde env (PState.init (posOf p)) cfg 4 none (by decide) (by simp)
  obtain ⟨hlen, hu, ht, ha, hoff⟩ := hwf
  unfold Lands at hl
  unfold W.expected W.endPos
  rcases hfp : W.fromPos (W.layout cfg h) p with _ | ⟨e, rest⟩
  · rw [serve_nil cfg h p hfp]
    exact resume_prefix cfg env p _ [] hlen hart (good_nil env _ p rfl)
  · rw [hfp] at hl hoff
    have hfile := fromPos_head_file _ _ _ _ hfp
    obtain ⟨pre, hpre⟩ : ∃ pre, W.layout cfg h = pre ++ e :: rest := by
      have := List.dropWhile_suffix (l := W.layout cfg h) (fun e : W.Laid => !(e.file == p.file && e.start ≥ p.offset))
      obtain ⟨t, ht⟩ := this
      exact ⟨t, by rw [← ht]; unfold W.fromPos at hfp; rw [hfp]⟩
    obtain ⟨us₁, us₂, hsplit, hcase⟩ := layout_split_at cfg h pre e rest hpre hl
    subst hsplit
    rcases hcase with ⟨_, hnf, hlay⟩ | ⟨he, hlay⟩
    · -- the first event of a unit: the master sends an artificial FORMAT_DESCRIPTION event first
      have hus : unitsFrom cfg (us₁ ++ us₂) p = us₂ := by
        apply unitsFrom_eq
        rw [hfp, hlay, countP_units]
      rw [hus] at hu ht ha hm
      rw [serve_unit cfg _ p e rest hfp hnf]
      rw [hfile] at hlay
      rw [hlay] at hoff ⊢
      exact resume_prefix cfg env p _ _ hlen hart (good_units cfg env us₂ p _ hu ht ha hm hoff)
    · -- the head of a file: the real FORMAT_DESCRIPTION event is the first event served
      have hus : unitsFrom cfg (us₁ ++ us₂) p = us₂ := by
        apply unitsFrom_eq
        rw [hfp, hlay, he, List.countP_cons, countP_units]
        simp [fdeL]
      rw [hus] at hu ht ha hm
      have htag : e.tag = .fileHead := by rw [he]; rfl
      have hbytes : e.bytes = (W.fdeEvent cfg 4 none).1 := by rw [he]; rfl
      have hb2 := (bnd_cons hoff).2
      rw [serve_fileHead cfg _ p e rest hfp htag, hbytes]
      have hx : W.expectedAux (e :: rest) p = W.expectedAux rest p := by simp [W.expectedAux, htag]
      have hy : W.endPosAux (e :: rest) p = W.endPosAux rest p := by simp [W.endPosAux, htag]
      rw [hx, hy]
      rw [hfile] at hlay
      rw [hlay] at hb2 ⊢
      exact resume_prefix cfg env p _ _ hlen hreal (good_units cfg env us₂ p _ hu ht ha hm hb2)

/-! ### from a boundary; sufficient conditions -/

theorem unitsFrom_subset (cfg : W.Cfg) (h : W.History) (p : W.Pos) : ∀ u ∈ unitsFrom cfg h p, u ∈ h :=
  fun _ hu => List.mem_of_mem_drop hu

theorem histRows_unitsFrom (cfg : W.Cfg) (h : W.History) (p : W.Pos) :
    ∀ c ∈ histRows (unitsFrom cfg h p), c ∈ histRows h := by
  intro c hc
  unfold histRows at hc ⊢
  obtain ⟨u, hu, hcu⟩ := List.mem_flatMap.mp hc
  exact List.mem_flatMap.mpr ⟨u, unitsFrom_subset cfg h p u hu, hcu⟩

theorem mapper_unitsFrom {env : Env} {h : W.History} (hm : MapperAgrees env h) (cfg : W.Cfg) (p : W.Pos) :
    MapperAgrees env (unitsFrom cfg h p) :=
  fun c hc => hm c (histRows_unitsFrom cfg h p c hc)

/-- byte-level fidelity for a replica started at a boundary p -/
theorem resume_boundary (cfg : W.Cfg) (env : Env) (h : W.History) (p : W.Pos) (hp : p ∈ W.boundaries cfg h)
    (hwf : WFHistFrom cfg h p) (hm : MapperAgrees env h) :
    parseEvents env (fun _ => true) (PState.init (posOf p)) ((W.serve cfg h p).map Input.event ++ [Input.closed])
      = ⟨(W.expected cfg h p).map (toTx env.ext), (W.expected cfg h p).map (toTx env.ext),
         posOf (W.endPos cfg h p), false, false⟩ :=
  resume_lands cfg env h p hwf.toWFFrom (lands_of_boundary cfg h p hp hwf.fresh) (mapper_unitsFrom hm cfg p)

/-- the hypotheses of the head-of-log theorem on the whole history (but for the announcements, which are asked from p
    on only), plus the two conditions on p's file name, give the hypothesis of the resume theorem -/
theorem wfHistFrom_of_whole (cfg : W.Cfg) (h : W.History) (p : W.Pos)
    (units : ∀ u ∈ h, UnitOK cfg u)
    (tables : ∀ c1 ∈ histRows h, ∀ c2 ∈ histRows h, c1.table.id = c2.table.id → c1.table = c2.table)
    (offsets : ∀ e ∈ W.layout cfg h, e.next < 2 ^ 32)
    (announced : annOK [] (histRows (unitsFrom cfg h p)))
    (fileLen : 27 + p.file.length + (if cfg.crc then 4 else 0) < 2 ^ 32)
    (fresh : (logFiles h).count p.file ≤ 1) : WFHistFrom cfg h p where
  fileLen := fileLen
  units := fun u hu => units u (unitsFrom_subset cfg h p u hu)
  tables := fun c1 h1 c2 h2 => tables c1 (histRows_unitsFrom cfg h p c1 h1) c2 (histRows_unitsFrom cfg h p c2 h2)
  announced := announced
  offsets := fun e he => offsets e ((List.dropWhile_sublist _).subset he)
  fresh := fresh

/-- from the head of the first file everything is served -/
theorem unitsFrom_head (cfg : W.Cfg) (h : W.History) : unitsFrom cfg h ⟨W.firstFile, 4⟩ = h := by
  have := unitsFrom_eq cfg [] h ⟨W.firstFile, 4⟩ (by
    rw [List.nil_append, fromPos_head, layout_eq', List.countP_cons, countP_units]; simp [fdeL])
  simpa using this

/-- the head-of-log hypothesis `WFHist` is the resume hypothesis at the head of the first file, when that file's name
    is not reused -/
theorem wfHistFrom_head (cfg : W.Cfg) (h : W.History) (hwf : WFHist cfg h)
    (fresh : (logFiles h).count W.firstFile ≤ 1) : WFHistFrom cfg h ⟨W.firstFile, 4⟩ :=
  wfHistFrom_of_whole cfg h _ hwf.units hwf.tables hwf.offsets (by rw [unitsFrom_head]; exact hwf.announced)
    (by have : W.firstFile.length = 10 := by decide
        show 27 + W.firstFile.length + _ < _
        rw [this]; simp only [Nat.reducePow]; split <;> omega) fresh

/-! ### the split formulation: h = h₁ ++ h₂, p where h₂ starts -/

theorem layout_append (cfg : W.Cfg) (h₁ h₂ : W.History) :
    W.layout cfg (h₁ ++ h₂) = W.layout cfg h₁ ++
      W.layoutAux cfg (h₂.flatMap (W.unitEvs cfg)) (logEnd cfg h₁).file (logEnd cfg h₁).offset := by
  rw [layout_eq', layout_eq', List.flatMap_append, layoutAux_append, List.cons_append]
  rfl

/-- the first event of a unit is laid out at the current position and marked as a unit start -/
theorem layoutAux_units_cons (cfg : W.Cfg) (u : W.Unit) (us : List W.Unit) (f : Bytes) (o : Nat) :
    ∃ e rest, W.layoutAux cfg ((u :: us).flatMap (W.unitEvs cfg)) f o = e :: rest ∧ e.file = f ∧ e.start = o ∧
      e.unitStart = true := by
  obtain ⟨e0, es0, hsh, hus, _, _, hrot⟩ := unitEvs_shape cfg u
  rw [List.flatMap_cons, hsh, List.cons_append]
  rcases hrot with ⟨hr, _⟩ | ⟨g, hr, _, _⟩
  · rw [layoutAux_plain _ _ _ _ _ hr]; exact ⟨_, _, rfl, rfl, rfl, hus⟩
  · rw [layoutAux_rot _ _ _ _ _ g hr]; exact ⟨_, _, rfl, rfl, rfl, hus⟩

/-- when the name of the file h₁ ends in is used once, the master serves from the end of h₁ exactly the layout of h₂ -/
theorem fromPos_logEnd (cfg : W.Cfg) (h₁ h₂ : W.History) (hf : (logFiles (h₁ ++ h₂)).count (logEnd cfg h₁).file ≤ 1) :
    W.fromPos (W.layout cfg (h₁ ++ h₂)) (logEnd cfg h₁)
      = W.layoutAux cfg (h₂.flatMap (W.unitEvs cfg)) (logEnd cfg h₁).file (logEnd cfg h₁).offset := by
  cases h₂ with
  | nil =>
    rw [List.append_nil] at hf ⊢
    simpa [W.layoutAux] using fromPos_end cfg h₁ hf
  | cons u us =>
    obtain ⟨e, rest, hl, h1, h2, _⟩ := layoutAux_units_cons cfg u us (logEnd cfg h₁).file (logEnd cfg h₁).offset
    have hlay := layout_append cfg h₁ (u :: us)
    rw [hl] at hlay ⊢
    have := fromPos_at cfg (h₁ ++ u :: us) _ e rest hlay (by rw [h1]; exact hf)
    rw [h1, h2] at this
    exact this

theorem unitsFrom_logEnd (cfg : W.Cfg) (h₁ h₂ : W.History) (hf : (logFiles (h₁ ++ h₂)).count (logEnd cfg h₁).file ≤ 1) :
    unitsFrom cfg (h₁ ++ h₂) (logEnd cfg h₁) = h₂ :=
  unitsFrom_eq cfg h₁ h₂ _ (by rw [fromPos_logEnd cfg h₁ h₂ hf, countP_units])

/-- split formulation: the history is h₁ ++ h₂, the replica resumes where h₂ starts; nothing is asked of h₁ but that
    the name of its last file is used once in the log -/
theorem resume_split (cfg : W.Cfg) (env : Env) (h₁ h₂ : W.History)
    (fresh : (logFiles (h₁ ++ h₂)).count (logEnd cfg h₁).file ≤ 1)
    (fileLen : 27 + (logEnd cfg h₁).file.length + (if cfg.crc then 4 else 0) < 2 ^ 32)
    (units : ∀ u ∈ h₂, UnitOK cfg u)
    (tables : ∀ c1 ∈ histRows h₂, ∀ c2 ∈ histRows h₂, c1.table.id = c2.table.id → c1.table = c2.table)
    (announced : annOK [] (histRows h₂))
    (offsets : ∀ e ∈ W.layoutAux cfg (h₂.flatMap (W.unitEvs cfg)) (logEnd cfg h₁).file (logEnd cfg h₁).offset,
      e.next < 2 ^ 32)
    (hm : MapperAgrees env h₂) :
    parseEvents env (fun _ => true) (PState.init (posOf (logEnd cfg h₁)))
        ((W.serve cfg (h₁ ++ h₂) (logEnd cfg h₁)).map Input.event ++ [Input.closed])
      = ⟨(W.expected cfg (h₁ ++ h₂) (logEnd cfg h₁)).map (toTx env.ext),
         (W.expected cfg (h₁ ++ h₂) (logEnd cfg h₁)).map (toTx env.ext),
         posOf (W.endPos cfg (h₁ ++ h₂) (logEnd cfg h₁)), false, false⟩ := by
  have hus := unitsFrom_logEnd cfg h₁ h₂ fresh
  have hfp := fromPos_logEnd cfg h₁ h₂ fresh
  refine resume_lands cfg env _ _ ⟨fileLen, by rw [hus]; exact units, by rw [hus]; exact tables,
    by rw [hus]; exact announced, by rw [hfp]; exact offsets⟩ ?_ (by rw [hus]; exact hm)
  unfold Lands
  rw [hfp]
  cases h₂ with
  | nil => simp [W.layoutAux]
  | cons u us =>
    obtain ⟨e, rest, hl, _, _, h3⟩ := layoutAux_units_cons cfg u us (logEnd cfg h₁).file (logEnd cfg h₁).offset
    rw [hl]
    exact Or.inl h3

/-! ### resuming at the `next` label of a delivered transaction -/

/-- the k-th expected transaction comes from a commit event; the later ones from the events after it -/
theorem expectedAux_at : ∀ (l : List W.Laid) (cur : W.Pos) (k : Nat) (t : W.ETx), (W.expectedAux l cur)[k]? = some t →
    ∃ pre e rest cs, l = pre ++ e :: rest ∧ e.tag = .commit cs ∧ t.next = ⟨e.file, e.next⟩ ∧
      (W.expectedAux l cur).drop (k + 1) = W.expectedAux rest ⟨e.file, e.next⟩
  | [], _, _, _, h => by simp [W.expectedAux] at h
  | e :: es, cur, k, t, h => by
    have other : ∀ cur', W.expectedAux (e :: es) cur = W.expectedAux es cur' →
        ∃ pre e' rest cs, e :: es = pre ++ e' :: rest ∧ e'.tag = .commit cs ∧ t.next = ⟨e'.file, e'.next⟩ ∧
          (W.expectedAux (e :: es) cur).drop (k + 1) = W.expectedAux rest ⟨e'.file, e'.next⟩ := by
      intro cur' heq
      rw [heq] at h ⊢
      obtain ⟨pre, e', rest, cs, h1, h2, h3, h4⟩ := expectedAux_at es cur' k t h
      exact ⟨e :: pre, e', rest, cs, by rw [h1]; rfl, h2, h3, h4⟩
    cases ht : e.tag with
    | commit cs =>
      have heq : W.expectedAux (e :: es) cur
          = ⟨cur, ⟨e.file, e.next⟩, e.ts, cs⟩ :: W.expectedAux es ⟨e.file, e.next⟩ := by simp [W.expectedAux, ht]
      rw [heq] at h ⊢
      cases k with
      | zero =>
        simp only [List.getElem?_cons_zero, Option.some.injEq] at h
        exact ⟨[], e, es, cs, rfl, ht, by rw [← h], by simp⟩
      | succ k =>
        simp only [List.getElem?_cons_succ] at h
        obtain ⟨pre, e', rest, cs', h1, h2, h3, h4⟩ := expectedAux_at es _ k t h
        exact ⟨e :: pre, e', rest, cs', by rw [h1]; rfl, h2, h3, by simpa using h4⟩
    | rotateTo f => exact other ⟨f, 4⟩ (by simp [W.expectedAux, ht])
    | none => exact other cur (by simp [W.expectedAux, ht])
    | stopThenRotateTo f => exact other cur (by simp [W.expectedAux, ht])
    | fileHead => exact other cur (by simp [W.expectedAux, ht])

theorem head_layoutAux (cfg : W.Cfg) (es : List W.AEv) (f : Bytes) (o : Nat) (x : W.Laid) (rest : List W.Laid)
    (h : W.layoutAux cfg es f o = x :: rest) : x.file = f ∧ x.start = o := by
  cases es with
  | nil => simp [W.layoutAux] at h
  | cons a es =>
    cases hr : rotOf a.tag with
    | none =>
      rw [layoutAux_plain _ _ _ _ _ hr] at h
      rw [← (List.cons.inj h).1]; exact ⟨rfl, rfl⟩
    | some g =>
      rw [layoutAux_rot _ _ _ _ _ g hr] at h
      rw [← (List.cons.inj h).1]; exact ⟨rfl, rfl⟩

theorem laidTag_rot_not_commit {t : W.Tag} {g : Bytes} (h : rotOf t = some g) (cs : List W.Change) :
    laidTag t ≠ .commit cs := by
  cases t <;> simp [rotOf, laidTag] at h ⊢

/-- the event after a commit event is laid out right behind it, in the same file -/
theorem after_commit (cfg : W.Cfg) : ∀ (es : List W.AEv) (f : Bytes) (o : Nat) (pre : List W.Laid) (e e' : W.Laid)
    (rest : List W.Laid) (cs : List W.Change), W.layoutAux cfg es f o = pre ++ e :: e' :: rest → e.tag = .commit cs →
    e'.file = e.file ∧ e'.start = e.next
  | [], f, o, pre, e, e', rest, cs, hl, _ => by simp [W.layoutAux] at hl
  | a :: es, f, o, pre, e, e', rest, cs, hl, ht => by
    cases hr : rotOf a.tag with
    | none =>
      rw [layoutAux_plain _ _ _ _ _ hr] at hl
      cases pre with
      | nil =>
        simp only [List.nil_append, List.cons.injEq] at hl
        obtain ⟨he, hl⟩ := hl
        obtain ⟨h1, h2⟩ := head_layoutAux cfg es f _ e' rest hl
        rw [← he]; exact ⟨h1, h2⟩
      | cons x pre' =>
        simp only [List.cons_append, List.cons.injEq] at hl
        exact after_commit cfg es f _ pre' e e' rest cs hl.2 ht
    | some g =>
      rw [layoutAux_rot _ _ _ _ _ g hr] at hl
      match pre, hl with
      | [], hl =>
        simp only [List.nil_append, List.cons.injEq] at hl
        rw [← hl.1] at ht
        exact absurd ht (laidTag_rot_not_commit hr cs)
      | [x], hl =>
        simp only [List.cons_append, List.nil_append, List.cons.injEq] at hl
        rw [← hl.2.1] at ht
        simp [fakeR] at ht
      | [x, x2], hl =>
        simp only [List.cons_append, List.nil_append, List.cons.injEq] at hl
        rw [← hl.2.2.1] at ht
        simp [fdeL] at ht
      | x :: x2 :: x3 :: pre', hl =>
        simp only [List.cons_append, List.cons.injEq] at hl
        exact after_commit cfg es g _ pre' e e' rest cs hl.2.2.2 ht

/-- serving from the `next` label of a commit event starts right after it -/
theorem fromPos_after_commit (cfg : W.Cfg) (h : W.History) (pre : List W.Laid) (e : W.Laid) (rest : List W.Laid)
    (cs : List W.Change) (hl : W.layout cfg h = pre ++ e :: rest) (ht : e.tag = .commit cs)
    (hf : (logFiles h).count e.file ≤ 1) : W.fromPos (W.layout cfg h) ⟨e.file, e.next⟩ = rest := by
  cases rest with
  | nil =>
    obtain ⟨z, hz1, hz2⟩ := layout_getLast cfg h
    rw [hl, List.getLast?_append, List.getLast?_singleton] at hz1
    simp only [Option.some_or, Option.some.injEq] at hz1
    subst hz1
    have hfile : (logEnd cfg h).file = e.file := by rw [← hz2]
    rw [hz2]
    exact fromPos_end cfg h (by rw [hfile]; exact hf)
  | cons e' rest' =>
    have hadj : e'.file = e.file ∧ e'.start = e.next := by
      have hl' := hl
      rw [layout_eq'] at hl'
      cases pre with
      | nil =>
        simp only [List.nil_append, List.cons.injEq] at hl'
        rw [← hl'.1] at ht
        simp [fdeL] at ht
      | cons x pre' =>
        simp only [List.cons_append, List.cons.injEq] at hl'
        exact after_commit cfg _ _ _ pre' e e' rest' cs hl'.2 ht
    have hl2 : W.layout cfg h = (pre ++ [e]) ++ e' :: rest' := by rw [hl]; simp
    have := fromPos_at cfg h _ e' rest' hl2 (by rw [hadj.1]; exact hf)
    rw [hadj.1, hadj.2] at this
    exact this

/-- the transactions expected from the head of the log are the first k+1 of them followed by those expected from the
    `next` label p of the k-th one, when the name of p's file is used once -/
theorem expected_concat (cfg : W.Cfg) (h : W.History) (p : W.Pos) (k : Nat)
    (hk : ((W.expected cfg h ⟨W.firstFile, 4⟩)[k]?).map (·.next) = some p)
    (hf : (logFiles h).count p.file ≤ 1) :
    W.expected cfg h ⟨W.firstFile, 4⟩ = (W.expected cfg h ⟨W.firstFile, 4⟩).take (k + 1) ++ W.expected cfg h p := by
  cases hkt : (W.expected cfg h ⟨W.firstFile, 4⟩)[k]? with
  | none => rw [hkt] at hk; cases hk
  | some t =>
    rw [hkt] at hk
    simp only [Option.map_some, Option.some.injEq] at hk
    have hkt' := hkt
    unfold W.expected at hkt'
    rw [fromPos_head] at hkt'
    obtain ⟨pre, e, rest, cs, h1, h2, h3, h4⟩ := expectedAux_at _ _ k t hkt'
    have hp : p = ⟨e.file, e.next⟩ := by rw [← hk, h3]
    subst hp
    have hfp := fromPos_after_commit cfg h pre e rest cs h1 h2 hf
    have : W.expected cfg h ⟨e.file, e.next⟩ = (W.expected cfg h ⟨W.firstFile, 4⟩).drop (k + 1) := by
      conv => rhs; unfold W.expected; rw [fromPos_head]
      rw [h4]
      unfold W.expected
      rw [hfp]
    rw [this, List.take_append_drop]

theorem endPosAux_commit : ∀ (pre : List W.Laid) (e : W.Laid) (rest : List W.Laid) (cs : List W.Change) (cur : W.Pos),
    e.tag = .commit cs → W.endPosAux (pre ++ e :: rest) cur = W.endPosAux rest ⟨e.file, e.next⟩
  | [], e, rest, cs, cur, ht => by simp [W.endPosAux, ht]
  | x :: pre, e, rest, cs, cur, ht => by
    rw [List.cons_append]
    cases hx : x.tag <;> simp only [W.endPosAux, hx] <;> exact endPosAux_commit pre e rest cs _ ht

/-- … and both runs end at the same position -/
theorem endPos_concat (cfg : W.Cfg) (h : W.History) (p : W.Pos) (k : Nat)
    (hk : ((W.expected cfg h ⟨W.firstFile, 4⟩)[k]?).map (·.next) = some p)
    (hf : (logFiles h).count p.file ≤ 1) :
    W.endPos cfg h ⟨W.firstFile, 4⟩ = W.endPos cfg h p := by
  cases hkt : (W.expected cfg h ⟨W.firstFile, 4⟩)[k]? with
  | none => rw [hkt] at hk; cases hk
  | some t =>
    rw [hkt] at hk
    simp only [Option.map_some, Option.some.injEq] at hk
    unfold W.expected at hkt
    rw [fromPos_head] at hkt
    obtain ⟨pre, e, rest, cs, h1, h2, h3, _⟩ := expectedAux_at _ _ k t hkt
    have hp : p = ⟨e.file, e.next⟩ := by rw [← hk, h3]
    subst hp
    have hfp := fromPos_after_commit cfg h pre e rest cs h1 h2 hf
    unfold W.endPos
    rw [fromPos_head, hfp, h1]
    exact endPosAux_commit pre e rest cs _ h2

/-! ### the length of p's file name, from the well-formedness of the whole history -/

theorem adv_file_mem (cfg : W.Cfg) : ∀ (es : List W.AEv) (f : Bytes) (o : Nat), (adv cfg es f o).1 ∈ f :: tgts es
  | [], f, o => by simp [adv]
  | a :: es, f, o => by
    cases hr : rotOf a.tag with
    | none =>
      simp only [adv, hr, tgts]
      exact adv_file_mem cfg es f _
    | some g =>
      simp only [adv, hr, tgts]
      exact List.mem_cons_of_mem _ (adv_file_mem cfg es g _)

/-- the file of a boundary is one of the files of the log -/
theorem boundary_file_mem (cfg : W.Cfg) (h : W.History) (p : W.Pos) (hp : p ∈ W.boundaries cfg h) :
    p.file ∈ logFiles h := by
  unfold logFiles
  rw [← tgts_units cfg h]
  rcases mem_boundaries cfg h p hp with ⟨e, he, _, rfl⟩ | rfl
  · rw [layout_eq'] at he
    rcases List.mem_cons.mp he with rfl | he
    · exact List.mem_cons_self
    · rcases mem_layoutAux cfg _ _ _ e he with ⟨h1, _⟩ | h1
      · rw [show (⟨e.file, e.start⟩ : W.Pos).file = e.file from rfl, h1]; exact List.mem_cons_self
      · exact List.mem_cons_of_mem _ h1
  · exact adv_file_mem cfg _ _ _

/-- every ROTATE / restart target of a well-formed history is short enough for the artificial ROTATE naming it -/
theorem short_targets (cfg : W.Cfg) : ∀ (us : List W.Unit) (f : Bytes) (o : Nat), (∀ u ∈ us, UnitOK cfg u) →
    Bnd (W.layoutAux cfg (us.flatMap (W.unitEvs cfg)) f o) →
    ∀ g ∈ us.flatMap rotTarget, 27 + g.length + (if cfg.crc then 4 else 0) < 2 ^ 32
  | [], _, _, _, _, g, hg => by simp at hg
  | u :: us, f, o, hu, hb, g, hg => by
    rw [List.flatMap_cons, layoutAux_append] at hb
    have ih := short_targets cfg us _ _ (fun x hx => hu x (List.mem_cons_of_mem _ hx))
      (fun e he => hb e (List.mem_append_right _ he))
    rw [List.flatMap_cons, List.mem_append] at hg
    rcases hg with hg | hg
    · have huo := hu u List.mem_cons_self
      cases u with
      | rotate g' =>
        -- ROTATE: its own event names the file and ends below 2^32
        simp only [rotTarget, List.mem_cons, List.not_mem_nil, or_false] at hg
        subst hg
        have hmem : hereOf cfg ⟨4, W.rotateBody 4 g, 0, .rotateTo g, true⟩ f o
            ∈ W.layoutAux cfg (W.unitEvs cfg (.rotate g)) f o := by
          simp only [W.unitEvs, W.markStart]
          rw [layoutAux_rot _ _ _ _ _ g rfl]
          exact List.mem_cons_self
        have hlt := hb _ (List.mem_append_left _ hmem)
        have hlen : (W.rotateBody 4 g).length = 8 + g.length := by simp [W.rotateBody]
        have hcn : crcN cfg o = if cfg.crc then 4 else 0 := by
          unfold crcN W.crcOf Props.C16.crcLen
          cases cfg.crc <;> simp
        simp only [hereOf, endOf, hlen, hcn] at hlt
        omega
      | restart g' =>
        -- restart: UnitOK bounds the name
        simp only [rotTarget, List.mem_cons, List.not_mem_nil, or_false] at hg
        subst hg
        have : _ < 2 ^ 31 := huo
        simp only [Nat.reducePow] at this ⊢
        split <;> omega
      | _ => simp [rotTarget] at hg
    · exact ih g hg

/-- … so the artificial ROTATE naming the file of any boundary fits -/
theorem fileLen_of_whole (cfg : W.Cfg) (h : W.History) (p : W.Pos) (hp : p ∈ W.boundaries cfg h)
    (units : ∀ u ∈ h, UnitOK cfg u) (offsets : ∀ e ∈ W.layout cfg h, e.next < 2 ^ 32) :
    27 + p.file.length + (if cfg.crc then 4 else 0) < 2 ^ 32 := by
  have hm := boundary_file_mem cfg h p hp
  unfold logFiles at hm
  rcases List.mem_cons.mp hm with h1 | h1
  · have : W.firstFile.length = 10 := by decide
    rw [h1, this]; simp only [Nat.reducePow]; split <;> omega
  · rw [layout_eq'] at offsets
    exact short_targets cfg h _ _ units (bnd_cons offsets).2 _ h1

end C01d
end GV
