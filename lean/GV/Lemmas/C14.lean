import GV.Model.Cell
import GV.Spec.Json
import GV.Spec.JsonWF
import GV.Lemmas.Dec
import GV.Lemmas.C11
/- helper lemmas for GV/Props/C14.lean

   Outline: (1) the variable-length prefix; (2) every in-range scalar decodes, whatever bytes follow it
   (`scalar_val`); (3) the container writer's layout (`assemble_layout`), the key table (`keys_ok`), one value
   entry (`entry_inl` / `entry_out`, `entry_step`) and the two entries loops; (4) `arr_ok` / `obj_ok`: a container
   decodes if its children do; (5) `doc_ok`: induction on `sizeOf` over the nested inductive, for any
   well-formedness predicate satisfying `WFSpec`.  The invariant carried through the recursion is `ChildOK`:
   decoding `encoding ++ anything` with fuel ≥ 2 * (encoding length) gives the rendered text, so no fuel
   monotonicity lemma is needed and `jsonFuel` (2 * length + 8) is always enough. -/
namespace GV
namespace C14
open Bytes M

/-! ### small text lemmas (local copies: the sibling lemma files clash on `GV.leIdx_mid`) -/

theorem natDec3 (n : Nat) (h1 : 100 ≤ n) (h2 : n < 1000) : (natDec n).length = 3 := by
  rw [natDec_ge n (by omega), natDec_ge (n / 10) (by omega), natDec_lt (n / 10 / 10) (by omega)]
  rfl

theorem pad2_two (n : Nat) (h : n < 100) : padMin 2 n = W.two n :=
  padMin_eq_digitsN 2 n (by omega) (by omega)

theorem pad2_hours (h : Nat) (hh : h < 1000) : padMin 2 h = W.hoursText h := by
  unfold W.hoursText
  split
  · exact pad2_two h ‹_›
  · unfold padMin
    rw [natDec3 h (by omega) hh]
    rfl

theorem pad4_year (y : Nat) (h : y ≤ 9999) : padMin 4 y = digitsN 4 y :=
  padMin_eq_digitsN 4 y (by omega) (by omega)

theorem leIdx_at (a c : Bytes) (w n : Nat) :
    M.leIdx (a ++ (ofLE w n ++ c)) a.length w = .ok (n % 256 ^ w) := by
  induction w generalizing a n with
  | zero => simp [M.leIdx, Nat.mod_one]
  | succ w ih =>
    simp only [M.leIdx, ofLE, List.cons_append]
    rw [get_mid]
    have h : a ++ UInt8.ofNat (n % 256) :: (ofLE w (n / 256) ++ c)
        = (a ++ [UInt8.ofNat (n % 256)]) ++ (ofLE w (n / 256) ++ c) := by simp
    have hl : a.length + 1 = (a ++ [UInt8.ofNat (n % 256)]).length := by simp
    rw [h, hl, ih]
    simp only [Res.ok_bind, Res.pure_eq, toNat_ofNat_mod]
    rw [Nat.pow_succ, Nat.mul_comm (256 ^ w) 256, Nat.mod_mul]


/-! ### the variable-length size prefix -/

theorem or_eq_add (res a s : Nat) (h : res < 2 ^ s) : res ||| (a * 2 ^ s) = res + a * 2 ^ s := by
  rw [← Nat.shiftLeft_eq, Nat.or_comm, ← Nat.shiftLeft_add_eq_or_of_lt h, Nat.add_comm]

theorem varlen_lt (n : Nat) (h : n < 128) : W.varlen n = [UInt8.ofNat n] := by
  rw [W.varlen]; simp [h]

theorem varlen_ge (n : Nat) (h : 128 ≤ n) : W.varlen n = UInt8.ofNat (n % 128 + 128) :: W.varlen (n / 128) := by
  rw [W.varlen]; simp [Nat.not_lt.mpr h]

theorem varlen_length_pos (n : Nat) : 1 ≤ (W.varlen n).length := by
  by_cases h : n < 128
  · simp [varlen_lt n h]
  · simp [varlen_ge n (by omega)]

theorem pow7_succ (idx : Nat) : (2:Nat) ^ (7 * (idx + 1)) = 128 * 2 ^ (7 * idx) := by
  rw [show 7 * (idx + 1) = 7 + 7 * idx by omega, Nat.pow_add]

theorem pow7_le (idx : Nat) (h : idx ≤ 4) : (2:Nat) ^ (7 * idx) ≤ 2 ^ 28 := Nat.pow_le_pow_right (by omega) (by omega)

theorem readVarLenAux_step (bb : UInt8) (rest : Bytes) (pos idx res : Nat) (hidx : idx ≤ 4) (hres : res < 2 ^ (7 * idx)) :
    readVarLenAux (bb :: rest) pos idx res =
      if bb.toNat < 128 then .ok (res + bb.toNat % 128 * 2 ^ (7 * idx), pos + 1)
      else readVarLenAux rest (pos + 1) (idx + 1) (res + bb.toNat % 128 * 2 ^ (7 * idx)) := by
  have hsh : (7 * idx) % 256 = 7 * idx := by omega
  have hlt : bb.toNat % 128 * 2 ^ (7 * idx) < 18446744073709551616 := by
    have : bb.toNat % 128 * 2 ^ (7 * idx) ≤ 127 * 2 ^ (7 * idx) := Nat.mul_le_mul_right _ (by omega)
    have := pow7_le idx hidx
    omega
  simp only [readVarLenAux, hsh, u64, Nat.mod_eq_of_lt hlt, show 7 * idx < 64 by omega, if_true,
    show (idx + 1) % 256 = idx + 1 by omega]
  rw [or_eq_add _ _ _ hres]

theorem readVarLenAux_varlen (rest : Bytes) (k : Nat) : ∀ (n pos idx res : Nat), idx + k = 4 → n < 2 ^ (7 * (k + 1)) →
    res < 2 ^ (7 * idx) →
    readVarLenAux (W.varlen n ++ rest) pos idx res = .ok (res + n * 2 ^ (7 * idx), pos + (W.varlen n).length) := by
  induction k with
  | zero =>
    intro n pos idx res hidx hn hres
    have h : n < 128 := by simpa using hn
    have hb : (UInt8.ofNat n).toNat = n := by rw [UInt8.toNat_ofNat']; omega
    rw [varlen_lt n h, List.singleton_append, readVarLenAux_step _ _ _ _ _ (by omega) hres]
    simp [hb, h, Nat.mod_eq_of_lt h]
  | succ k ih =>
    intro n pos idx res hidx hn hres
    by_cases h : n < 128
    · have hb : (UInt8.ofNat n).toNat = n := by rw [UInt8.toNat_ofNat']; omega
      rw [varlen_lt n h, List.singleton_append, readVarLenAux_step _ _ _ _ _ (by omega) hres]
      simp [hb, h, Nat.mod_eq_of_lt h]
    · have hb : (UInt8.ofNat (n % 128 + 128)).toNat = n % 128 + 128 := by rw [UInt8.toNat_ofNat']; omega
      rw [varlen_ge n (by omega), List.cons_append, readVarLenAux_step _ _ _ _ _ (by omega) hres]
      simp only [hb, show ¬ (n % 128 + 128 < 128) by omega, if_false, show (n % 128 + 128) % 128 = n % 128 by omega]
      have hle : n % 128 * 2 ^ (7 * idx) ≤ 127 * 2 ^ (7 * idx) := Nat.mul_le_mul_right _ (by omega)
      rw [ih (n / 128) (pos + 1) (idx + 1) _ (by omega)]
      · rw [pow7_succ, List.length_cons]
        congr 1
        · have : n / 128 * (128 * 2 ^ (7 * idx)) + n % 128 * 2 ^ (7 * idx) = n * 2 ^ (7 * idx) := by
            rw [← Nat.mul_assoc, ← Nat.add_mul]; congr 1; omega
          rw [← this]; simp only [Nat.add_assoc, Nat.add_comm, Nat.add_left_comm]
      · rw [pow7_succ] at hn; omega
      · rw [pow7_succ]; omega

theorem readVariableLength_varlen (pre rest : Bytes) (n : Nat) (hn : n < 2 ^ 32) :
    readVariableLength (pre ++ (W.varlen n ++ rest)) pre.length = .ok (n, pre.length + (W.varlen n).length) := by
  unfold readVariableLength
  have := readVarLenAux_varlen rest 4 n pre.length 0 0 rfl (by omega) (by omega)
  simp at this
  simp [this]


/-! ### reading at a position described by `drop` -/

theorem drop_length_of {data X : Bytes} {pos : Nat} (h : data.drop pos = X) : X.length = data.length - pos := by
  rw [← h]; simp

theorem get_of_drop {data R : Bytes} {pos : Nat} {x : UInt8} (h : data.drop pos = x :: R) : data.get pos = .ok x := by
  have := List.getElem?_drop (xs := data) (i := pos) (j := 0)
  rw [h] at this
  simp at this
  simp [Bytes.get, ← this]

theorem slice_of_drop {data b R : Bytes} {pos hi : Nat} (h : data.drop pos = b ++ R) (hp : pos ≤ data.length)
    (hhi : hi = pos + b.length) : data.slice pos hi = .ok b := by
  have hl := drop_length_of h
  simp at hl
  subst hhi
  unfold Bytes.slice
  rw [h]
  have : pos ≤ pos + b.length ∧ pos + b.length ≤ data.length := by omega
  simp [this]

theorem drop_add_of_drop {data a R : Bytes} {pos : Nat} (h : data.drop pos = a ++ R) (n : Nat) (hn : n = a.length) :
    data.drop (pos + n) = R := by
  rw [← List.drop_drop, h, hn]; simp

theorem readLE_of_drop {data R : Bytes} {pos w n : Nat} (h : data.drop pos = ofLE w n ++ R) (hp : pos ≤ data.length) :
    readLE data pos w = .ok (n % 256 ^ w) := by
  unfold readLE
  rw [slice_of_drop h hp (by simp)]
  simp [le_ofLE]

theorem sliceFrom_of_drop {data X : Bytes} {pos : Nat} (h : data.drop pos = X) (hp : pos ≤ data.length) :
    data.sliceFrom pos = .ok X := by
  simp [Bytes.sliceFrom, hp, h]

theorem readOffsetOrSize_of_drop {data R : Bytes} {pos n : Nat} (large : Bool)
    (h : data.drop pos = ofLE (W.ow large) n ++ R) (hp : pos ≤ data.length) (hn : n < 256 ^ W.ow large) :
    readOffsetOrSize data pos large = .ok (n, pos + W.ow large) := by
  unfold readOffsetOrSize
  cases large
  · simp only [W.ow, Bool.false_eq_true, if_false] at h hn ⊢
    rw [readLE_of_drop h hp, Nat.mod_eq_of_lt hn]; rfl
  · simp only [W.ow, if_true] at h hn ⊢
    rw [readLE_of_drop h hp, Nat.mod_eq_of_lt hn]; rfl

/-! ### scalars -/

theorem q_eq_sq (top : Bool) (t : Bytes) : q top t = W.sq top t := rfl
theorem castWrap_eq (top : Bool) (t : Bytes) : castWrap top t = W.castTop top t := rfl

theorem toNat_ofNat_lt (n : Nat) (h : n < 256) : (UInt8.ofNat n).toNat = n := by
  rw [UInt8.toNat_ofNat']; omega

theorem scalarInt_at (data R : Bytes) (pos w x : Nat) (signed top : Bool) (h : data.drop pos = ofLE w x ++ R)
    (hp : pos ≤ data.length) :
    (data.slice pos (pos + w) >>= fun d => jsonScalarInt d w signed top)
      = .ok (W.sq top (if signed then intDec (toSigned (8 * w) (x % 256 ^ w)) else natDec (x % 256 ^ w))) := by
  rw [slice_of_drop h hp (by simp)]
  have := readLE_head [] w x
  simp only [List.append_nil] at this
  simp [jsonScalarInt, this, q_eq_sq]

theorem toSigned16 (v : Int) (h : -(2 ^ 15 : Int) ≤ v ∧ v < 2 ^ 15) : toSigned 16 (ofInt 16 v % 256 ^ 2) = v := by
  unfold toSigned ofInt; simp only [Nat.reducePow, Nat.reduceSub]; omega
theorem toSigned32 (v : Int) (h : -(2 ^ 31 : Int) ≤ v ∧ v < 2 ^ 31) : toSigned 32 (ofInt 32 v % 256 ^ 4) = v := by
  unfold toSigned ofInt; simp only [Nat.reducePow, Nat.reduceSub]; omega
theorem toSigned64 (v : Int) (h : -(2 ^ 63 : Int) ≤ v ∧ v < 2 ^ 63) : toSigned 64 (ofInt 64 v % 256 ^ 8) = v := by
  unfold toSigned ofInt; simp only [Nat.reducePow, Nat.reduceSub]; omega

/-- in-range scalars (the Props file's `ScalarOK`) -/
def SOK : W.JDoc → Prop
  | .lit b => b < 3
  | .i16 v => -(2 ^ 15 : Int) ≤ v ∧ v < 2 ^ 15
  | .u16 n => n < 2 ^ 16
  | .i32 v => -(2 ^ 31 : Int) ≤ v ∧ v < 2 ^ 31
  | .u32 n => n < 2 ^ 32
  | .i64 v => -(2 ^ 63 : Int) ≤ v ∧ v < 2 ^ 63
  | .u64 n => n < 2 ^ 64
  | .dbl bits => bits < 2 ^ 64
  | .str b => b.length < 2 ^ 32
  | .odate y m d => y ≤ 9999 ∧ m ≤ 12 ∧ d ≤ 31
  | .otime neg h mi s micro => h ≤ 838 ∧ mi ≤ 59 ∧ s ≤ 59 ∧ micro ≤ 999999 ∧ (neg = true → h + mi + s + micro ≠ 0)
  | .odatetime y mo d h mi s micro => y ≤ 9999 ∧ mo ≤ 12 ∧ d ≤ 31 ∧ h ≤ 23 ∧ mi ≤ 59 ∧ s ≤ 59 ∧ micro ≤ 999999
  | .odecimal p s _ i f => 1 ≤ p ∧ p ≤ 65 ∧ s ≤ 30 ∧ s ≤ p ∧ i.length = p - s ∧ f.length = s ∧ (∀ d ∈ i, d < 10) ∧ (∀ d ∈ f, d < 10)
  | .obj _ _ => False
  | .arr _ _ => False

theorem val_lit (E : Ext) (f b : Nat) (hb : b < 3) (R : Bytes) (top : Bool) :
    jsonValue E (f + 1) 4 ([UInt8.ofNat b] ++ R) top = .ok (W.render E.fmtFloat64E top (.lit b)) := by
  obtain rfl | rfl | rfl : b = 0 ∨ b = 1 ∨ b = 2 := by omega
  all_goals simp [jsonValue, Bytes.get, jsonLiteral, Facts.jsonNullLiteral, Facts.jsonTrueLiteral,
    Facts.jsonFalseLiteral, q_eq_sq, W.render]

theorem val_int (E : Ext) (f t w x : Nat) (signed : Bool) (R : Bytes) (top : Bool)
    (ht : (t = 5 ∧ w = 2 ∧ signed = true) ∨ (t = 6 ∧ w = 2 ∧ signed = false) ∨ (t = 7 ∧ w = 4 ∧ signed = true) ∨
      (t = 8 ∧ w = 4 ∧ signed = false) ∨ (t = 9 ∧ w = 8 ∧ signed = true) ∨ (t = 10 ∧ w = 8 ∧ signed = false)) :
    jsonValue E (f + 1) t (ofLE w x ++ R) top
      = .ok (W.sq top (if signed then intDec (toSigned (8 * w) (x % 256 ^ w)) else natDec (x % 256 ^ w))) := by
  have key := scalarInt_at (ofLE w x ++ R) R 0 w x signed top rfl (Nat.zero_le _)
  rw [Nat.zero_add] at key
  rcases ht with ⟨rfl, rfl, rfl⟩ | ⟨rfl, rfl, rfl⟩ | ⟨rfl, rfl, rfl⟩ | ⟨rfl, rfl, rfl⟩ | ⟨rfl, rfl, rfl⟩ | ⟨rfl, rfl, rfl⟩
  all_goals (rw [jsonValue]; simp only [Nat.reduceEqDiff, if_false, if_true]; exact key)

theorem val_dbl (E : Ext) (f x : Nat) (hx : x < 2 ^ 64) (R : Bytes) (top : Bool) :
    jsonValue E (f + 1) 11 (ofLE 8 x ++ R) top = .ok (W.sq top (E.fmtFloat64E x)) := by
  have h1 : (ofLE 8 x ++ R).slice 0 8 = .ok (ofLE 8 x) := slice_head _ _ _ (by simp)
  have h2 := readLE_head [] 8 x
  simp only [List.append_nil] at h2
  rw [jsonValue]
  simp only [Nat.reduceEqDiff, if_false, if_true, h1, Res.ok_bind, h2, Res.pure_eq, q_eq_sq]
  rw [Nat.mod_eq_of_lt (by simpa using hx)]

theorem val_str (E : Ext) (f : Nat) (b : Bytes) (hb : b.length < 2 ^ 32) (R : Bytes) (top : Bool) :
    jsonValue E (f + 1) 12 (W.varlen b.length ++ b ++ R) top = .ok (W.render E.fmtFloat64E top (.str b)) := by
  have h1 := readVariableLength_varlen [] (b ++ R) b.length hb
  simp only [List.nil_append, List.length_nil, Nat.zero_add] at h1
  have h2 : ¬ b.length ≥ 2 ^ 63 := by omega
  have h3 := slice_mid (W.varlen b.length) b R
  rw [jsonValue]
  simp only [Nat.reduceEqDiff, if_false, if_true, jsonString, List.append_assoc, h1, Res.ok_bind, h2, h3]
  cases top <;> simp [W.render]

/-- the shared prefix of the opaque values: type byte, length, payload -/
theorem opaque_prefix (t : UInt8) (body R : Bytes) (top : Bool) (hl : body.length < 2 ^ 32) :
    jsonOpaque ([t] ++ W.varlen body.length ++ body ++ R) top =
      if t.toNat = 10 then jsonDate body top
      else if t.toNat = 11 then jsonTime body top
      else if t.toNat = 12 then jsonDateTime body top
      else if t.toNat = 246 then jsonDecimal body top
      else .err := by
  have h1 := readVariableLength_varlen [t] (body ++ R) body.length hl
  have h2 : ¬ body.length ≥ 2 ^ 63 := by omega
  have h3 := slice_mid ([t] ++ W.varlen body.length) body R
  simp only [List.length_append, List.length_singleton] at h1 h3
  simp only [List.append_assoc] at h3 ⊢
  have h0 : Bytes.get ([t] ++ (W.varlen body.length ++ (body ++ R))) 0 = .ok t := by simp [Bytes.get]
  unfold jsonOpaque
  simp only [h0, h1, Res.ok_bind, h2, if_false, h3]

theorem packed_lt (y mo d h mi s micro : Nat) (hmo : mo ≤ 12) (hd : d ≤ 31) (hh : h ≤ 31)
    (hmi : mi ≤ 59) (hs : s ≤ 59) (hmicro : micro ≤ 999999) (hy : y ≤ 9999) :
    W.packedDateTime y mo d h mi s micro < 2 ^ 63 := by
  unfold W.packedDateTime
  simp only [Nat.reducePow]
  omega

theorem packed_fields (y mo d h mi s micro : Nat) (hmo : mo ≤ 12) (hd : d ≤ 31) (hh : h ≤ 31)
    (hmi : mi ≤ 59) (hs : s ≤ 59) (hmicro : micro ≤ 999999) (hy : y ≤ 9999) (raw : Nat)
    (hraw : raw = W.packedDateTime y mo d h mi s micro % 256 ^ 8) :
    raw / 2 ^ 24 / 2 ^ 22 % 2 ^ 17 / 13 = y ∧ raw / 2 ^ 24 / 2 ^ 22 % 2 ^ 17 % 13 = mo ∧
      raw / 2 ^ 24 / 2 ^ 17 % 32 = d ∧ raw / 2 ^ 24 / 2 ^ 12 % 32 = h ∧
      raw / 2 ^ 24 / 2 ^ 6 % 64 = mi ∧ raw / 2 ^ 24 % 64 = s ∧ raw % 2 ^ 24 = micro := by
  have hlt := packed_lt y mo d h mi s micro hmo hd hh hmi hs hmicro hy
  rw [Nat.mod_eq_of_lt (by simp only [Nat.reducePow] at hlt ⊢; omega)] at hraw
  unfold W.packedDateTime at hraw
  simp only [Nat.reducePow] at hraw ⊢
  have hvalue : raw / 16777216 = ((y * 13 + mo) * 32 + d) * 131072 + (h * 4096 + mi * 64 + s) := by
    rw [hraw]; omega
  have hmic : raw % 16777216 = micro := by rw [hraw]; omega
  rw [hvalue]
  have hym : (((y * 13 + mo) * 32 + d) * 131072 + (h * 4096 + mi * 64 + s)) / 4194304 % 131072 = y * 13 + mo := by
    omega
  rw [hym]
  refine ⟨by omega, by omega, by omega, by omega, by omega, by omega, hmic⟩

theorem val_date (y m d : Nat) (hy : y ≤ 9999) (hm : m ≤ 12) (hd : d ≤ 31) (top : Bool) :
    jsonDate (ofLE 8 (W.packedDateTime y m d 0 0 0 0)) top
      = .ok (W.castTop top (asc "CAST('" ++ digitsN 4 y ++ [45] ++ W.two m ++ [45] ++ W.two d ++ asc "' AS DATE)")) := by
  have h2 := readLE_head [] 8 (W.packedDateTime y m d 0 0 0 0)
  simp only [List.append_nil] at h2
  obtain ⟨e1, e2, e3, _, _, _, _⟩ := packed_fields y m d 0 0 0 0 hm hd (by omega) (by omega) (by omega) (by omega) hy _ rfl
  unfold jsonDate
  simp only [h2, Res.ok_bind, Res.pure_eq, e1, e2, e3, castWrap_eq, pad4_year y hy, pad2_two m (by omega), pad2_two d (by omega)]

theorem val_datetime (y mo d h mi s micro : Nat) (hy : y ≤ 9999) (hmo : mo ≤ 12) (hd : d ≤ 31) (hh : h ≤ 23)
    (hmi : mi ≤ 59) (hs : s ≤ 59) (hmicro : micro ≤ 999999) (top : Bool) :
    jsonDateTime (ofLE 8 (W.packedDateTime y mo d h mi s micro)) top
      = .ok (W.render (fun _ => []) top (.odatetime y mo d h mi s micro)) := by
  have h2 := readLE_head [] 8 (W.packedDateTime y mo d h mi s micro)
  simp only [List.append_nil] at h2
  obtain ⟨e1, e2, e3, e4, e5, e6, e7⟩ := packed_fields y mo d h mi s micro hmo hd (by omega) hmi hs hmicro hy _ rfl
  unfold jsonDateTime
  simp only [h2, Res.ok_bind, Res.pure_eq, e1, e2, e3, e4, e5, e6, e7, castWrap_eq, pad4_year y hy, pad2_two mo (by omega),
    pad2_two d (by omega), pad2_two h (by omega), pad2_two mi (by omega), pad2_two s (by omega),
    padMin_eq_digitsN 6 micro (by omega) (by omega), W.render]
  by_cases hz : micro = 0 <;> simp [hz]

theorem time_fields (neg : Bool) (h mi s micro : Nat) (hh : h ≤ 838) (hmi : mi ≤ 59) (hs : s ≤ 59)
    (hmicro : micro ≤ 999999) (hz : neg = true → h + mi + s + micro ≠ 0) (raw0 : Nat)
    (hraw : raw0 = W.packedTime neg h mi s micro % 256 ^ 8) :
    (raw0 ≥ 2 ^ 63 ↔ neg = true) ∧
    ∀ raw, raw = (if raw0 ≥ 2 ^ 63 then (2 ^ 64 - raw0) % 2 ^ 64 else raw0) →
      raw / 2 ^ 24 / 2 ^ 12 % 1024 = h ∧ raw / 2 ^ 24 / 2 ^ 6 % 64 = mi ∧ raw / 2 ^ 24 % 64 = s ∧
      raw % 2 ^ 24 = micro := by
  unfold W.packedTime at hraw
  simp only [Nat.reducePow] at hraw ⊢
  have hv : (h * 4096 + mi * 64 + s) * 16777216 + micro < 2 ^ 47 := by omega
  generalize hvv : (h * 4096 + mi * 64 + s) * 16777216 + micro = v at hraw hv
  have key : ∀ raw, raw = v → raw / 16777216 / 4096 % 1024 = h ∧ raw / 16777216 / 64 % 64 = mi ∧ raw / 16777216 % 64 = s ∧
      raw % 16777216 = micro := by
    intro raw hr
    have hvalue : raw / 16777216 = h * 4096 + mi * 64 + s := by rw [hr, ← hvv]; omega
    have hmic : raw % 16777216 = micro := by rw [hr, ← hvv]; omega
    rw [hvalue]
    exact ⟨by omega, by omega, by omega, hmic⟩
  cases neg with
  | false =>
    simp only [Bool.false_eq_true, if_false] at hraw
    have h0 : raw0 = v := by rw [hraw]; omega
    have h1 : ¬ raw0 ≥ 9223372036854775808 := by omega
    refine ⟨by simp [h1], ?_⟩
    intro raw hr
    rw [if_neg h1] at hr
    exact key raw (hr.trans h0)
  | true =>
    simp only [if_true] at hraw
    have hvp : 0 < v := by
      have := hz rfl
      rw [← hvv]; omega
    have h0 : raw0 = 18446744073709551616 - v := by rw [hraw]; omega
    have h1 : raw0 ≥ 9223372036854775808 := by omega
    refine ⟨by simp [h1], ?_⟩
    intro raw hr
    rw [if_pos h1] at hr
    exact key raw (by rw [hr, h0]; omega)

theorem val_time (neg : Bool) (h mi s micro : Nat) (hh : h ≤ 838) (hmi : mi ≤ 59) (hs : s ≤ 59)
    (hmicro : micro ≤ 999999) (hz : neg = true → h + mi + s + micro ≠ 0) (top : Bool) :
    jsonTime (ofLE 8 (W.packedTime neg h mi s micro)) top
      = .ok (W.render (fun _ => []) top (.otime neg h mi s micro)) := by
  have h2 := readLE_head [] 8 (W.packedTime neg h mi s micro)
  simp only [List.append_nil] at h2
  obtain ⟨eneg, hf⟩ := time_fields neg h mi s micro hh hmi hs hmicro hz _ rfl
  obtain ⟨e1, e2, e3, e4⟩ := hf _ rfl
  simp only [eneg] at e1 e2 e3 e4
  unfold jsonTime
  simp only [h2, Res.ok_bind, Res.pure_eq, eneg, e1, e2, e3, e4, castWrap_eq, pad2_hours h (by omega),
    pad2_two mi (by omega), pad2_two s (by omega), padMin_eq_digitsN 6 micro (by omega) (by omega), W.render]
  by_cases hz : micro = 0 <;> simp [hz]

/-! decimal -/

theorem decimalBytes_shift (pre d : Bytes) (md : Nat) :
    M.decimalBytes (pre ++ d) pre.length md = M.decimalBytes d 0 md := by
  have hs : ∀ l, Bytes.slice (pre ++ d) pre.length (pre.length + l) = Bytes.slice d 0 (0 + l) := by
    intro l
    unfold Bytes.slice
    simp
  rw [C11.decimalBytes_eq, C11.decimalBytes_eq]
  simp only [hs]

theorem decimal_len_le (neg : Bool) (i f : List Nat) (hi : i.length ≤ 65) (hf : f.length ≤ 30) :
    (W.decimalBytes neg i f).length ≤ 64 := by
  rw [C11.enc_length, C11.raw_length]
  unfold W.dig2bytesSpec
  omega

theorem val_decimal (p s : Nat) (neg : Bool) (i f : List Nat) (hp1 : 1 ≤ p) (hp : p ≤ 65) (hs : s ≤ 30) (hsp : s ≤ p)
    (hil : i.length = p - s) (hfl : f.length = s) (hid : ∀ d ∈ i, d < 10) (hfd : ∀ d ∈ f, d < 10) (top : Bool) :
    jsonDecimal ([UInt8.ofNat p, UInt8.ofNat s] ++ W.decimalBytes neg i f) top
      = .ok (W.render (fun _ => []) top (.odecimal p s neg i f)) := by
  have h0 : Bytes.get ([UInt8.ofNat p, UInt8.ofNat s] ++ W.decimalBytes neg i f) 0 = .ok (UInt8.ofNat p) := by
    simp [Bytes.get]
  have h1 : Bytes.get ([UInt8.ofNat p, UInt8.ofNat s] ++ W.decimalBytes neg i f) 1 = .ok (UInt8.ofNat s) := by
    simp [Bytes.get]
  have hd := decimalBytes_shift [UInt8.ofNat p, UInt8.ofNat s] (W.decimalBytes neg i f) (p * 256 + s)
  have he := C11.decimalBytes_enc p s ⟨hp1, hp⟩ ⟨hs, hsp⟩ neg i f hil hfl hid hfd []
  simp only [List.append_nil] at he
  simp only [List.length_cons, List.length_nil] at hd
  unfold jsonDecimal
  simp only [h0, h1, Res.ok_bind, toNat_ofNat_lt p (by omega), toNat_ofNat_lt s (by omega), hd, he, Res.pure_eq,
    castWrap_eq, W.render]
  rfl

theorem val_opaque (E : Ext) (f : Nat) (t : UInt8) (body R : Bytes) (top : Bool) (hl : body.length < 2 ^ 32) :
    jsonValue E (f + 1) 15 ([t] ++ W.varlen body.length ++ body ++ R) top =
      if t.toNat = 10 then jsonDate body top
      else if t.toNat = 11 then jsonTime body top
      else if t.toNat = 12 then jsonDateTime body top
      else if t.toNat = 246 then jsonDecimal body top
      else .err := by
  rw [jsonValue]
  simp only [Nat.reduceEqDiff, if_false, if_true]
  exact opaque_prefix t body R top hl

/-- every in-range scalar decodes to its text, whatever follows it and whatever fuel (≥ 1) is left -/
theorem scalar_val (E : Ext) (d : W.JDoc) (hok : SOK d) (f : Nat) (R : Bytes) (top : Bool) :
    jsonValue E (f + 1) (W.encVal d).1 ((W.encVal d).2 ++ R) top = .ok (W.render E.fmtFloat64E top d) := by
  cases d with
  | obj l kvs => exact absurd hok (by simp [SOK])
  | arr l vs => exact absurd hok (by simp [SOK])
  | lit b => simpa [W.encVal] using val_lit E f b hok R top
  | i16 v =>
    simp only [W.encVal, W.render]
    rw [val_int E f 5 2 _ true R top (by simp)]
    simp [toSigned16 v hok]
  | u16 n =>
    simp only [W.encVal, W.render]
    rw [val_int E f 6 2 _ false R top (by simp)]
    simp only [SOK] at hok
    simp [Nat.mod_eq_of_lt hok]
  | i32 v =>
    simp only [W.encVal, W.render]
    rw [val_int E f 7 4 _ true R top (by simp)]
    simp [toSigned32 v hok]
  | u32 n =>
    simp only [W.encVal, W.render]
    rw [val_int E f 8 4 _ false R top (by simp)]
    simp only [SOK] at hok
    simp [Nat.mod_eq_of_lt hok]
  | i64 v =>
    simp only [W.encVal, W.render]
    rw [val_int E f 9 8 _ true R top (by simp)]
    simp [toSigned64 v hok]
  | u64 n =>
    simp only [W.encVal, W.render]
    rw [val_int E f 10 8 _ false R top (by simp)]
    simp only [SOK] at hok
    simp [Nat.mod_eq_of_lt hok]
  | dbl bits =>
    simp only [W.encVal, W.render]
    exact val_dbl E f bits hok R top
  | str b => 
    simp only [W.encVal]
    exact val_str E f b hok R top
  | odate y m d =>
    obtain ⟨hy, hm, hd⟩ := hok
    have := val_opaque E f 10 (ofLE 8 (W.packedDateTime y m d 0 0 0 0)) R top (by simp)
    simp only [ofLE_length] at this
    simp only [W.encVal, W.render]
    rw [this]
    simpa using val_date y m d hy hm hd top
  | otime neg h mi s micro =>
    obtain ⟨hh, hmi, hs, hmicro, hz⟩ := hok
    have := val_opaque E f 11 (ofLE 8 (W.packedTime neg h mi s micro)) R top (by simp)
    simp only [ofLE_length] at this
    simp only [W.encVal]
    rw [this]
    simpa [W.render] using val_time neg h mi s micro hh hmi hs hmicro hz top
  | odatetime y mo d h mi s micro =>
    obtain ⟨hy, hmo, hd, hh, hmi, hs, hmicro⟩ := hok
    have := val_opaque E f 12 (ofLE 8 (W.packedDateTime y mo d h mi s micro)) R top (by simp)
    simp only [ofLE_length] at this
    simp only [W.encVal]
    rw [this]
    simpa [W.render] using val_datetime y mo d h mi s micro hy hmo hd hh hmi hs hmicro top
  | odecimal p s neg i f' =>
    obtain ⟨hp1, hp, hs, hsp, hil, hfl, hid, hfd⟩ := hok
    have hlen := decimal_len_le neg i f' (by omega) (by omega)
    have := val_opaque E f 246 ([UInt8.ofNat p, UInt8.ofNat s] ++ W.decimalBytes neg i f') R top
      (by simp only [List.length_append, List.length_cons, List.length_nil]; omega)
    simp only [W.encVal]
    rw [this]
    simpa [W.render] using val_decimal p s neg i f' hp1 hp hs hsp hil hfl hid hfd top

/-! ### the column value -/

theorem encVal_typ_lt (d : W.JDoc) : (W.encVal d).1 < 16 := by
  cases d <;> simp only [W.encVal] <;> (try split) <;> omega

theorem printJSONData_jsonb (E : Ext) (d : W.JDoc) :
    printJSONData E (W.jsonb d)
      = jsonValue E (2 * (W.encVal d).2.length + 9 + 1) (W.encVal d).1 (W.encVal d).2 true := by
  have ht := encVal_typ_lt d
  simp only [W.jsonb, printJSONData, jsonFuel, List.length_cons, toNat_ofNat_lt _ (show (W.encVal d).1 < 256 by omega)]
  congr 1

theorem scalar_doc (E : Ext) (d : W.JDoc) (hok : SOK d) :
    printJSONData E (W.jsonb d) = .ok (W.render E.fmtFloat64E true d) := by
  rw [printJSONData_jsonb]
  simpa using scalar_val E d hok _ [] true

/-! ### the container writer -/

theorem go2_nil (large : Bool) (w off : Nat) : W.assemble.go2 large w [] off = ([], []) := rfl

theorem go2_inl (large : Bool) (w t : Nat) (b : Bytes) (rest : List (Nat × Bytes)) (off : Nat)
    (h : W.inlined large t = true) :
    W.assemble.go2 large w ((t, b) :: rest) off
      = (UInt8.ofNat t :: (b ++ List.replicate (w - b.length) 0) ++ (W.assemble.go2 large w rest off).1,
         (W.assemble.go2 large w rest off).2) := by
  rw [W.assemble.go2, if_pos h]

theorem go2_out (large : Bool) (w t : Nat) (b : Bytes) (rest : List (Nat × Bytes)) (off : Nat)
    (h : W.inlined large t = false) :
    W.assemble.go2 large w ((t, b) :: rest) off
      = (UInt8.ofNat t :: ofLE w off ++ (W.assemble.go2 large w rest (off + b.length)).1,
         b ++ (W.assemble.go2 large w rest (off + b.length)).2) := by
  rw [W.assemble.go2, if_neg (by simp [h])]

/-- offset of the key area -/
def headLen (large isObj : Bool) (n : Nat) : Nat :=
  2 * W.ow large + (if isObj then n * (W.ow large + 2) else 0) + n * (1 + W.ow large)

def keysLen (ks : List Bytes) : Nat := (ks.map List.length).sum

theorem assemble_eq (large : Bool) (keys : Option (List Bytes)) (children : List (Nat × Bytes)) :
    W.assemble large keys children =
      ofLE (W.ow large) children.length ++
      (ofLE (W.ow large) (headLen large keys.isSome children.length + keysLen (keys.getD []) +
          (W.assemble.go2 large (W.ow large) children
            (headLen large keys.isSome children.length + keysLen (keys.getD []))).2.length) ++
      ((W.assemble.go1 (W.ow large) (keys.getD []) (headLen large keys.isSome children.length)).flatMap id ++
      ((W.assemble.go2 large (W.ow large) children
            (headLen large keys.isSome children.length + keysLen (keys.getD []))).1 ++
      ((keys.getD []).flatMap id ++
       (W.assemble.go2 large (W.ow large) children
            (headLen large keys.isSome children.length + keysLen (keys.getD []))).2)))) := by
  simp [W.assemble, headLen, keysLen]

theorem flat_length (ks : List Bytes) : (ks.flatMap id).length = keysLen ks := by
  induction ks with
  | nil => rfl
  | cons k ks ih => simp [keysLen] at ih ⊢

theorem go1_length (w : Nat) (ks : List Bytes) (off : Nat) :
    ((W.assemble.go1 w ks off).flatMap id).length = ks.length * (w + 2) := by
  induction ks generalizing off with
  | nil => simp [W.assemble.go1]
  | cons k ks ih =>
    simp only [W.assemble.go1, List.flatMap_cons, List.length_append, ih, id, ofLE_length, List.length_cons, Nat.add_mul]
    omega

/-! ### reading the key table -/

theorem keysLen_cons (k : Bytes) (ks : List Bytes) : keysLen (k :: ks) = k.length + keysLen ks := by
  simp [keysLen]

theorem pow_ow (large : Bool) : (2:Nat) ^ (8 * W.ow large) = 256 ^ W.ow large := by
  cases large <;> rfl

theorem keys_ok (large : Bool) (ks : List Bytes) : ∀ (data : Bytes) (pos koff : Nat) (R R' : Bytes),
    data.drop pos = (W.assemble.go1 (W.ow large) ks koff).flatMap id ++ R →
    data.drop koff = ks.flatMap id ++ R' →
    pos ≤ data.length → koff ≤ data.length → koff + keysLen ks < 256 ^ W.ow large →
    (∀ k ∈ ks, k.length < 65536) →
    jsonKeys data large ks.length pos = .ok (ks, pos + ks.length * (W.ow large + 2)) := by
  induction ks with
  | nil => intro data pos koff R R' _ _ _ _ _ _; simp [jsonKeys]
  | cons k ks ih =>
    intro data pos koff R R' hent hkeys hpos hkoff hfit hk
    simp only [W.assemble.go1, List.flatMap_cons, id, List.append_assoc] at hent hkeys
    have hl1 := drop_length_of hent
    have hl2 := drop_length_of hkeys
    simp only [List.length_append, ofLE_length] at hl1 hl2
    rw [keysLen_cons] at hfit
    have hw2 : W.ow false = 2 := rfl
    -- the offset
    have h1 := readOffsetOrSize_of_drop large hent hpos (by omega)
    -- the length
    have hent2 := drop_add_of_drop hent (W.ow large) (by simp)
    have h2 := readOffsetOrSize_of_drop (n := k.length) false hent2 (by omega)
      (by have := hk k (by simp); simpa [W.ow] using this)
    -- the key
    have h3 := slice_of_drop hkeys hkoff rfl
    -- the rest
    have hent3 := drop_add_of_drop hent2 (W.ow false) (by simp [hw2])
    have hkeys2 := drop_add_of_drop hkeys k.length rfl
    have h4 := ih data (pos + W.ow large + W.ow false) (koff + k.length) R R' hent3 hkeys2 (by rw [hw2]; omega)
      (by omega) (by omega) (fun k' hk' => hk k' (by simp [hk']))
    simp only [List.length_cons, jsonKeys, h1, Res.ok_bind, h2, h3, h4, Res.pure_eq]
    congr 2
    rw [hw2, Nat.add_mul]
    omega

/-! ### value entries -/

theorem inlined_false_iff (large : Bool) (t : Nat) :
    W.inlined large t = false ↔ t ≠ 4 ∧ t ≠ 5 ∧ t ≠ 6 ∧ ¬ (t = 7 ∧ large = true) ∧ ¬ (t = 8 ∧ large = true) := by
  cases large <;> simp [W.inlined, and_assoc]

/-- an out-of-line value entry hands the bytes at its offset to the value decoder -/
theorem entry_out (E : Ext) (large : Bool) (data : Bytes) (pos off t : Nat) (R X : Bytes) (f : Nat) (ht : t < 16)
    (hinl : W.inlined large t = false)
    (hent : data.drop pos = UInt8.ofNat t :: (ofLE (W.ow large) off ++ R)) (hoff : off < 256 ^ W.ow large)
    (hoffle : off ≤ data.length) (hd : data.drop off = X) :
    jsonEntry E (f + 1) data pos large = jsonValue E f t X false := by
  obtain ⟨n4, n5, n6, n7, n8⟩ := (inlined_false_iff large t).mp hinl
  have hl := drop_length_of hent
  simp only [List.length_cons] at hl
  have h0 := get_of_drop hent
  have hent2 : data.drop (pos + 1) = ofLE (W.ow large) off ++ R :=
    drop_add_of_drop (a := [UInt8.ofNat t]) hent 1 rfl
  have h1 := readOffsetOrSize_of_drop large hent2 (by omega) hoff
  have h2 := sliceFrom_of_drop hd hoffle
  rw [jsonEntry]
  simp only [h0, Res.ok_bind, toNat_ofNat_lt t (by omega), n4, n5, n6, n7, n8, if_false, h1, h2]

theorem inlined_len (large : Bool) (d : W.JDoc) (h : W.inlined large (W.encVal d).1 = true) :
    (W.encVal d).2.length ≤ W.ow large := by
  cases d with
  | obj l kvs => cases l <;> cases large <;> simp [W.encVal, W.inlined] at h
  | arr l kvs => cases l <;> cases large <;> simp [W.encVal, W.inlined] at h
  | _ => cases large <;> simp [W.encVal, W.inlined, W.ow] at h ⊢

/-- an inlined value entry is decoded from the entry itself -/
theorem entry_inl (E : Ext) (large : Bool) (d : W.JDoc) (data : Bytes) (pos : Nat) (R : Bytes) (f : Nat)
    (hinl : W.inlined large (W.encVal d).1 = true) (hok : SOK d)
    (hent : data.drop pos = UInt8.ofNat (W.encVal d).1 :: ((W.encVal d).2 ++ R)) :
    jsonEntry E (f + 1) data pos large = .ok (W.render E.fmtFloat64E false d) := by
  have hl := drop_length_of hent
  simp only [List.length_cons] at hl
  have h0 := get_of_drop hent
  have hent2 : data.drop (pos + 1) = (W.encVal d).2 ++ R :=
    drop_add_of_drop (a := [UInt8.ofNat (W.encVal d).1]) hent 1 rfl
  have hp : pos + 1 ≤ data.length := by omega
  rw [jsonEntry]
  simp only [h0, Res.ok_bind, toNat_ofNat_lt _ (show (W.encVal d).1 < 256 by have := encVal_typ_lt d; omega)]
  cases d with
  | lit b =>
    simp only [W.encVal] at hent2 ⊢
    have h1 := get_of_drop hent2
    simp only [SOK] at hok
    obtain rfl | rfl | rfl : b = 0 ∨ b = 1 ∨ b = 2 := by omega
    all_goals simp [h1, jsonLiteral, Facts.jsonNullLiteral, Facts.jsonTrueLiteral, Facts.jsonFalseLiteral, q, W.render, W.sq]
  | i16 v =>
    simp only [W.encVal] at hent2 ⊢
    have := scalarInt_at data R (pos + 1) 2 _ true false hent2 hp
    simp only [Nat.reduceEqDiff, if_false, if_true, this, toSigned16 v hok, W.render]
  | u16 n =>
    simp only [W.encVal] at hent2 ⊢
    have := scalarInt_at data R (pos + 1) 2 _ false false hent2 hp
    simp only [SOK] at hok
    simp [this, Nat.mod_eq_of_lt hok, W.render]
  | i32 v =>
    cases large with
    | false => simp [W.encVal, W.inlined] at hinl
    | true =>
      simp only [W.encVal] at hent2 ⊢
      have := scalarInt_at data R (pos + 1) 4 _ true false hent2 hp
      simp only [Nat.reduceEqDiff, if_false, if_true, this, toSigned32 v hok, W.render, and_self]
  | u32 n =>
    cases large with
    | false => simp [W.encVal, W.inlined] at hinl
    | true =>
      simp only [W.encVal] at hent2 ⊢
      have := scalarInt_at data R (pos + 1) 4 _ false false hent2 hp
      simp only [SOK] at hok
      simp [this, Nat.mod_eq_of_lt hok, W.render]
  | obj l kvs => cases l <;> cases large <;> simp [W.encVal, W.inlined] at hinl
  | arr l kvs => cases l <;> cases large <;> simp [W.encVal, W.inlined] at hinl
  | _ => cases large <;> simp [W.encVal, W.inlined] at hinl

/-! ### the entries loops -/

/-- what the induction provides for a child: it decodes, followed by anything, with fuel twice its length -/
def ChildOK (E : Ext) (d : W.JDoc) : Prop :=
  ∀ (f : Nat) (R : Bytes) (top : Bool), 2 * (W.encVal d).2.length ≤ f →
    jsonValue E f (W.encVal d).1 ((W.encVal d).2 ++ R) top = .ok (W.render E.fmtFloat64E top d)

theorem step_width (large : Bool) : (if large = true then 5 else 3) = 1 + W.ow large := by
  cases large <;> rfl

/-- one step of either entries loop: the entry decodes to the child's text and the invariant moves on -/
theorem entry_step (E : Ext) (large : Bool) (d : W.JDoc) (rest : List (Nat × Bytes)) (data : Bytes)
    (pos off : Nat) (R R' : Bytes) (F : Nat) (hch : ChildOK E d)
    (hsok : W.inlined large (W.encVal d).1 = true → SOK d)
    (hent : data.drop pos = (W.assemble.go2 large (W.ow large) (W.encVal d :: rest) off).1 ++ R)
    (htail : data.drop off = (W.assemble.go2 large (W.ow large) (W.encVal d :: rest) off).2 ++ R')
    (hoff : off ≤ data.length)
    (hfit : off + (W.assemble.go2 large (W.ow large) (W.encVal d :: rest) off).2.length < 256 ^ W.ow large)
    (hF : 2 * (W.assemble.go2 large (W.ow large) (W.encVal d :: rest) off).2.length + 3 * (rest.length + 1) + 1 ≤ F + 2) :
    jsonEntry E (F + 1) data pos large = .ok (W.render E.fmtFloat64E false d) ∧
    ∃ off', data.drop (pos + (1 + W.ow large)) = (W.assemble.go2 large (W.ow large) rest off').1 ++ R ∧
      data.drop off' = (W.assemble.go2 large (W.ow large) rest off').2 ++ R' ∧ off' ≤ data.length ∧
      off' + (W.assemble.go2 large (W.ow large) rest off').2.length < 256 ^ W.ow large ∧
      2 * (W.assemble.go2 large (W.ow large) rest off').2.length + 3 * rest.length + 1 ≤ F + 1 := by
  by_cases hinl : W.inlined large (W.encVal d).1 = true
  · have e : W.assemble.go2 large (W.ow large) (W.encVal d :: rest) off = _ :=
      go2_inl large (W.ow large) (W.encVal d).1 (W.encVal d).2 rest off hinl
    rw [e] at hent htail hfit hF
    dsimp only at hent htail hfit hF
    simp only [List.cons_append, List.append_assoc] at hent
    have hlen := inlined_len large d hinl
    refine ⟨entry_inl E large d data pos _ F hinl (hsok hinl) hent, off, ?_, htail, hoff, hfit, by omega⟩
    have := drop_add_of_drop (a := UInt8.ofNat (W.encVal d).1 :: ((W.encVal d).2 ++
      List.replicate (W.ow large - (W.encVal d).2.length) 0)) (R := (W.assemble.go2 large (W.ow large) rest off).1 ++ R)
      (by simpa using hent) (1 + W.ow large) (by simp; omega)
    exact this
  · have hinl' : W.inlined large (W.encVal d).1 = false := by simpa using hinl
    have e : W.assemble.go2 large (W.ow large) (W.encVal d :: rest) off = _ :=
      go2_out large (W.ow large) (W.encVal d).1 (W.encVal d).2 rest off hinl'
    rw [e] at hent htail hfit hF
    dsimp only at hent htail hfit hF
    simp only [List.cons_append, List.append_assoc, List.length_append] at hent htail hfit hF
    have hl := drop_length_of htail
    simp only [List.length_append] at hl
    obtain ⟨F', rfl⟩ : ∃ F', F = F' + 1 := ⟨F - 1, by omega⟩
    refine ⟨?_, off + (W.encVal d).2.length, ?_, drop_add_of_drop htail _ rfl, by omega, by omega, by omega⟩
    · rw [entry_out E large data pos off (W.encVal d).1 _ _ (F' + 1) (encVal_typ_lt d) hinl' hent (by omega) hoff htail]
      exact hch (F' + 1) _ false (by omega)
    · exact drop_add_of_drop (a := UInt8.ofNat (W.encVal d).1 :: ofLE (W.ow large) off) (by simpa using hent) _
        (by simp; omega)

theorem arr_entries (E : Ext) (large : Bool) (vs : List W.JDoc) : ∀ (data : Bytes) (pos off : Nat) (R R' : Bytes)
    (F : Nat) (first : Bool),
    (∀ v ∈ vs, ChildOK E v) → (∀ v ∈ vs, W.inlined large (W.encVal v).1 = true → SOK v) →
    data.drop pos = (W.assemble.go2 large (W.ow large) (W.encVals vs) off).1 ++ R →
    data.drop off = (W.assemble.go2 large (W.ow large) (W.encVals vs) off).2 ++ R' →
    off ≤ data.length →
    off + (W.assemble.go2 large (W.ow large) (W.encVals vs) off).2.length < 256 ^ W.ow large →
    2 * (W.assemble.go2 large (W.ow large) (W.encVals vs) off).2.length + 3 * vs.length + 1 ≤ F →
    jsonArrEntries E F data large vs.length pos first = .ok (W.renderVals E.fmtFloat64E first vs) := by
  induction vs with
  | nil =>
    intro data pos off R R' F first _ _ _ _ _ _ hF
    obtain ⟨F', rfl⟩ : ∃ F', F = F' + 1 := ⟨F - 1, by omega⟩
    simp [jsonArrEntries, W.renderVals]
  | cons d ds ih =>
    intro data pos off R R' F first hch hsok hent htail hoff hfit hF
    simp only [W.encVals] at hent htail hfit hF
    have hlen : (W.encVals ds).length = ds.length := by
      clear ih hch hsok hent htail hfit hF
      induction ds with
      | nil => rfl
      | cons a as ih => simp [W.encVals, ih]
    obtain ⟨F', rfl⟩ : ∃ F', F = F' + 2 := ⟨F - 2, by simp only [List.length_cons] at hF; omega⟩
    obtain ⟨h1, off', h2, h3, h4, h5, h6⟩ := entry_step E large d (W.encVals ds) data pos off R R' F'
      (hch d (by simp)) (hsok d (by simp)) hent htail hoff hfit (by rw [hlen]; simpa using hF)
    rw [hlen] at h6
    have h7 := ih data (pos + (1 + W.ow large)) off' R R' (F' + 1) false (fun v hv => hch v (by simp [hv]))
      (fun v hv => hsok v (by simp [hv])) h2 h3 h4 h5 h6
    simp only [List.length_cons, jsonArrEntries, h1, Res.ok_bind, step_width, h7, Res.pure_eq, W.renderVals]

theorem encVals_length (vs : List W.JDoc) : (W.encVals vs).length = vs.length := by
  induction vs with
  | nil => rfl
  | cons a as ih => simp [W.encVals, ih]

theorem encKVs_length (kvs : List (Bytes × W.JDoc)) : (W.encKVs kvs).length = kvs.length := by
  induction kvs with
  | nil => rfl
  | cons a as ih => obtain ⟨k, d⟩ := a; simp [W.encKVs, ih]

theorem encKeys_length (kvs : List (Bytes × W.JDoc)) : (W.encKeys kvs).length = kvs.length := by
  induction kvs with
  | nil => rfl
  | cons a as ih => obtain ⟨k, d⟩ := a; simp [W.encKeys, ih]

theorem obj_entries (E : Ext) (large : Bool) (kvs : List (Bytes × W.JDoc)) : ∀ (data : Bytes) (pos off : Nat)
    (R R' : Bytes) (F : Nat) (first : Bool),
    (∀ p ∈ kvs, ChildOK E p.2) → (∀ p ∈ kvs, W.inlined large (W.encVal p.2).1 = true → SOK p.2) →
    data.drop pos = (W.assemble.go2 large (W.ow large) (W.encKVs kvs) off).1 ++ R →
    data.drop off = (W.assemble.go2 large (W.ow large) (W.encKVs kvs) off).2 ++ R' →
    off ≤ data.length →
    off + (W.assemble.go2 large (W.ow large) (W.encKVs kvs) off).2.length < 256 ^ W.ow large →
    2 * (W.assemble.go2 large (W.ow large) (W.encKVs kvs) off).2.length + 3 * kvs.length + 1 ≤ F →
    jsonObjEntries E F data large (W.encKeys kvs) pos first = .ok (W.renderKVs E.fmtFloat64E first kvs) := by
  induction kvs with
  | nil =>
    intro data pos off R R' F first _ _ _ _ _ _ hF
    obtain ⟨F', rfl⟩ : ∃ F', F = F' + 1 := ⟨F - 1, by omega⟩
    simp [jsonObjEntries, W.renderKVs, W.encKeys]
  | cons p ps ih =>
    obtain ⟨k, d⟩ := p
    intro data pos off R R' F first hch hsok hent htail hoff hfit hF
    simp only [W.encKVs] at hent htail hfit hF
    obtain ⟨F', rfl⟩ : ∃ F', F = F' + 2 := ⟨F - 2, by simp only [List.length_cons] at hF; omega⟩
    obtain ⟨h1, off', h2, h3, h4, h5, h6⟩ := entry_step E large d (W.encKVs ps) data pos off R R' F'
      (hch (k, d) (by simp)) (hsok (k, d) (by simp)) hent htail hoff hfit (by rw [encKVs_length]; simpa using hF)
    rw [encKVs_length] at h6
    have h7 := ih data (pos + (1 + W.ow large)) off' R R' (F' + 1) false (fun v hv => hch v (by simp [hv]))
      (fun v hv => hsok v (by simp [hv])) h2 h3 h4 h5 h6
    simp only [W.encKeys, jsonObjEntries, h1, Res.ok_bind, step_width, h7, Res.pure_eq, W.renderKVs]

/-! ### whole containers -/

theorem go2_fst_length (large : Bool) (cs : List (Nat × Bytes)) (hc : ∀ c ∈ cs, W.inlined large c.1 = true → c.2.length ≤ W.ow large) :
    ∀ off, (W.assemble.go2 large (W.ow large) cs off).1.length = cs.length * (1 + W.ow large) := by
  induction cs with
  | nil => intro off; simp [go2_nil]
  | cons c cs ih =>
    obtain ⟨t, b⟩ := c
    intro off
    have ih' := ih (fun c hc' => hc c (by simp [hc']))
    by_cases hinl : W.inlined large t = true
    · have := hc (t, b) (by simp) hinl
      rw [go2_inl _ _ _ _ _ _ hinl]
      simp only [List.cons_append, List.length_cons, List.length_append, List.length_replicate, ih', Nat.add_mul]
      simp only [] at this
      omega
    · rw [go2_out _ _ _ _ _ _ (by simpa using hinl)]
      simp only [List.cons_append, List.length_cons, List.length_append, ofLE_length, ih', Nat.add_mul]
      omega

theorem encVals_inl (large : Bool) (vs : List W.JDoc) :
    ∀ c ∈ W.encVals vs, W.inlined large c.1 = true → c.2.length ≤ W.ow large := by
  induction vs with
  | nil => simp [W.encVals]
  | cons d ds ih =>
    intro c hc
    simp only [W.encVals, List.mem_cons] at hc
    rcases hc with rfl | hc
    · exact inlined_len large d
    · exact ih c hc

theorem encKVs_inl (large : Bool) (kvs : List (Bytes × W.JDoc)) :
    ∀ c ∈ W.encKVs kvs, W.inlined large c.1 = true → c.2.length ≤ W.ow large := by
  induction kvs with
  | nil => simp [W.encKVs]
  | cons p ps ih =>
    obtain ⟨k, d⟩ := p
    intro c hc
    simp only [W.encKVs, List.mem_cons] at hc
    rcases hc with rfl | hc
    · exact inlined_len large d
    · exact ih c hc

theorem ow_ge (large : Bool) : 2 ≤ W.ow large := by cases large <;> simp [W.ow]

/-- where the parts of an assembled container lie -/
theorem assemble_layout (large : Bool) (keys : Option (List Bytes)) (children : List (Nat × Bytes)) (R : Bytes)
    (hc : ∀ c ∈ children, W.inlined large c.1 = true → c.2.length ≤ W.ow large)
    (hk : keys.isSome = true → (keys.getD []).length = children.length)
    (data : Bytes) (w n kpos epos hl off : Nat) (g : Bytes × Bytes)
    (hdata : data = W.assemble large keys children ++ R) (hw : w = W.ow large) (hn : n = children.length)
    (hkpos : kpos = w + w) (hepos : epos = kpos + (if keys.isSome then n * (w + 2) else 0))
    (hhl : hl = headLen large keys.isSome n) (hoff : off = hl + keysLen (keys.getD []))
    (hg : g = W.assemble.go2 large w children off) :
    data.drop 0 = ofLE w n ++ (ofLE w (off + g.2.length) ++
      ((W.assemble.go1 w (keys.getD []) hl).flatMap id ++ (g.1 ++ ((keys.getD []).flatMap id ++ (g.2 ++ R))))) ∧
    data.drop w = ofLE w (off + g.2.length) ++
      ((W.assemble.go1 w (keys.getD []) hl).flatMap id ++ (g.1 ++ ((keys.getD []).flatMap id ++ (g.2 ++ R)))) ∧
    data.drop kpos = (W.assemble.go1 w (keys.getD []) hl).flatMap id ++ (g.1 ++ ((keys.getD []).flatMap id ++ (g.2 ++ R))) ∧
    data.drop epos = g.1 ++ ((keys.getD []).flatMap id ++ (g.2 ++ R)) ∧
    data.drop hl = (keys.getD []).flatMap id ++ (g.2 ++ R) ∧
    data.drop off = g.2 ++ R ∧
    data.length = off + g.2.length + R.length ∧
    (W.assemble large keys children).length = off + g.2.length := by
  have h0 : data.drop 0 = ofLE w n ++ (ofLE w (off + g.2.length) ++
      ((W.assemble.go1 w (keys.getD []) hl).flatMap id ++ (g.1 ++ ((keys.getD []).flatMap id ++ (g.2 ++ R))))) := by
    rw [hdata, assemble_eq, hg, hoff, hhl, hn, hw]
    simp only [List.drop_zero, List.append_assoc]
  have h1 := drop_add_of_drop h0 w (by simp)
  rw [Nat.zero_add] at h1
  have h2 := drop_add_of_drop h1 w (by simp)
  rw [← hkpos] at h2
  have hkl : ((W.assemble.go1 w (keys.getD []) hl).flatMap id).length = (if keys.isSome then n * (w + 2) else 0) := by
    cases keys with
    | none => simp [W.assemble.go1]
    | some ks =>
      rw [go1_length]
      simp at hk ⊢
      rw [hk, hn]
  have h3 := drop_add_of_drop h2 _ hkl.symm
  rw [← hepos] at h3
  have hel : g.1.length = n * (1 + w) := by rw [hg, hw, go2_fst_length large children hc, hn]
  have hhl' : hl = epos + n * (1 + w) := by rw [hepos, hkpos, hhl, headLen, hw]; omega
  have h4 := drop_add_of_drop h3 _ hel.symm
  rw [← hhl'] at h4
  have h5 := drop_add_of_drop h4 _ (flat_length _).symm
  rw [← hoff] at h5
  have hlen : data.length = off + g.2.length + R.length := by
    have := drop_length_of h0
    simp only [List.length_append, ofLE_length, hkl, hel, flat_length] at this
    rw [hoff, hhl', hepos, hkpos]
    omega
  refine ⟨h0, h1, h2, h3, h4, h5, hlen, ?_⟩
  have : data.length = (W.assemble large keys children).length + R.length := by rw [hdata]; simp
  omega

theorem arr_ok (E : Ext) (large : Bool) (vs : List W.JDoc) (hch : ∀ v ∈ vs, ChildOK E v)
    (hsok : ∀ v ∈ vs, W.inlined large (W.encVal v).1 = true → SOK v)
    (hn : vs.length < 256 ^ W.ow large)
    (hsz : (W.assemble large none (W.encVals vs)).length < 256 ^ W.ow large) :
    ChildOK E (.arr large vs) := by
  intro f R top hf
  simp only [W.encVal] at hf ⊢
  obtain ⟨h0, h1, _, h3, _, h5, hlen, hal⟩ := assemble_layout large none (W.encVals vs) R (encVals_inl large vs)
    (by simp) _ _ _ _ _ _ _ _ rfl rfl rfl rfl rfl rfl rfl rfl
  simp only [encVals_length, Option.isSome_none, Bool.false_eq_true, if_false, Option.getD_none, keysLen,
    List.map_nil, List.sum_nil, Nat.add_zero] at h0 h1 h3 h5 hlen hal
  have hw := ow_ge large
  have hhl : headLen large false vs.length = 2 * W.ow large + vs.length * (1 + W.ow large) := by simp [headLen]
  have hmul : vs.length * (1 + W.ow large) ≥ 3 * vs.length := by
    rw [Nat.mul_comm]; exact Nat.mul_le_mul_right _ (by omega)
  rw [hal] at hf hsz
  obtain ⟨f', rfl⟩ : ∃ f', f = f' + 2 := ⟨f - 2, by omega⟩
  have r1 := readOffsetOrSize_of_drop large h0 (Nat.zero_le _) hn
  have r2 := readOffsetOrSize_of_drop large h1 (by omega) hsz
  have r3 := arr_entries E large vs _ _ _ _ R f' true hch hsok h3 h5 (by omega) hsz (by omega)
  have hjv : jsonValue E (f' + 2) (if large = true then 3 else 2) (W.assemble large none (W.encVals vs) ++ R) top
      = jsonArray E (f' + 1) (W.assemble large none (W.encVals vs) ++ R) large := by
    cases large <;> simp [jsonValue]
  rw [hjv, jsonArray]
  simp only [r1, Res.ok_bind, Nat.zero_add, r2, hlen, show ¬ (headLen large false vs.length +
    (W.assemble.go2 large (W.ow large) (W.encVals vs) (headLen large false vs.length)).2.length >
    headLen large false vs.length + (W.assemble.go2 large (W.ow large) (W.encVals vs)
      (headLen large false vs.length)).2.length + R.length) by omega, if_false, r3, Res.pure_eq, W.render]

theorem encKeys_lt (kvs : List (Bytes × W.JDoc)) (h : ∀ p ∈ kvs, p.1.length < 65536) :
    ∀ k ∈ W.encKeys kvs, k.length < 65536 := by
  induction kvs with
  | nil => simp [W.encKeys]
  | cons p ps ih =>
    obtain ⟨k, d⟩ := p
    intro k' hk'
    simp only [W.encKeys, List.mem_cons] at hk'
    rcases hk' with rfl | hk'
    · exact h (k', d) (by simp)
    · exact ih (fun p hp => h p (by simp [hp])) k' hk'

theorem obj_ok (E : Ext) (large : Bool) (kvs : List (Bytes × W.JDoc)) (hch : ∀ p ∈ kvs, ChildOK E p.2)
    (hsok : ∀ p ∈ kvs, W.inlined large (W.encVal p.2).1 = true → SOK p.2)
    (hkeys : ∀ p ∈ kvs, p.1.length < 65536)
    (hn : kvs.length < 256 ^ W.ow large)
    (hsz : (W.assemble large (some (W.encKeys kvs)) (W.encKVs kvs)).length < 256 ^ W.ow large) :
    ChildOK E (.obj large kvs) := by
  intro f R top hf
  simp only [W.encVal] at hf ⊢
  obtain ⟨h0, h1, h2, h3, h4, h5, hlen, hal⟩ := assemble_layout large (some (W.encKeys kvs)) (W.encKVs kvs) R
    (encKVs_inl large kvs) (by simp [encKeys_length, encKVs_length]) _ _ _ _ _ _ _ _ rfl rfl rfl rfl rfl rfl rfl rfl
  simp only [encKVs_length, Option.isSome_some, if_true, Option.getD_some] at h0 h1 h2 h3 h4 h5 hlen hal
  have hw := ow_ge large
  have hhl : headLen large true kvs.length
      = 2 * W.ow large + kvs.length * (W.ow large + 2) + kvs.length * (1 + W.ow large) := by simp [headLen]
  have hmul : kvs.length * (1 + W.ow large) ≥ 3 * kvs.length := by
    rw [Nat.mul_comm]; exact Nat.mul_le_mul_right _ (by omega)
  rw [hal] at hf hsz
  obtain ⟨f', rfl⟩ : ∃ f', f = f' + 2 := ⟨f - 2, by omega⟩
  have r1 := readOffsetOrSize_of_drop large h0 (Nat.zero_le _) hn
  have r2 := readOffsetOrSize_of_drop large h1 (by omega) hsz
  have r3 := keys_ok large (W.encKeys kvs) _ _ _ _ _ h2 h4 (by omega) (by omega) (by omega) (encKeys_lt kvs hkeys)
  rw [encKeys_length] at r3
  have r4 := obj_entries E large kvs _ _ _ _ R f' true hch hsok h3 h5 (by omega) hsz (by omega)
  have hjv : jsonValue E (f' + 2) (if large = true then 1 else 0)
        (W.assemble large (some (W.encKeys kvs)) (W.encKVs kvs) ++ R) top
      = jsonObject E (f' + 1) (W.assemble large (some (W.encKeys kvs)) (W.encKVs kvs) ++ R) large := by
    cases large <;> simp [jsonValue]
  rw [hjv, jsonObject]
  simp only [r1, Res.ok_bind, Nat.zero_add, r2, hlen, show ¬ (headLen large true kvs.length + keysLen (W.encKeys kvs) +
    (W.assemble.go2 large (W.ow large) (W.encKVs kvs) (headLen large true kvs.length + keysLen (W.encKeys kvs))).2.length >
    headLen large true kvs.length + keysLen (W.encKeys kvs) + (W.assemble.go2 large (W.ow large) (W.encKVs kvs)
      (headLen large true kvs.length + keysLen (W.encKeys kvs))).2.length + R.length) by omega, if_false, r3, r4,
    Res.pure_eq, W.render]

/-! ### all documents -/

/-- what the induction needs from a well-formedness predicate (instantiated by the Props file's `WFDoc`) -/
structure WFSpec (P : W.JDoc → Prop) : Prop where
  obj : ∀ large kvs, P (.obj large kvs) → (∀ p ∈ kvs, p.1.length < 65536 ∧ P p.2) ∧
    kvs.length < 2 ^ (8 * W.ow large) ∧ (W.encVal (.obj large kvs)).2.length < 2 ^ (8 * W.ow large)
  arr : ∀ large vs, P (.arr large vs) → (∀ v ∈ vs, P v) ∧
    vs.length < 2 ^ (8 * W.ow large) ∧ (W.encVal (.arr large vs)).2.length < 2 ^ (8 * W.ow large)
  scalar : ∀ d, P d → (∀ l kvs, d ≠ .obj l kvs) → (∀ l vs, d ≠ .arr l vs) → SOK d

theorem wf_inl {P : W.JDoc → Prop} (hP : WFSpec P) (large : Bool) (d : W.JDoc) (hwf : P d)
    (h : W.inlined large (W.encVal d).1 = true) : SOK d := by
  cases d with
  | obj l kvs => cases l <;> cases large <;> simp [W.encVal, W.inlined] at h
  | arr l kvs => cases l <;> cases large <;> simp [W.encVal, W.inlined] at h
  | _ => exact hP.scalar _ hwf (by intros; simp) (by intros; simp)

theorem scalar_ok (E : Ext) (d : W.JDoc) (hok : SOK d) : ChildOK E d := by
  intro f R top hf
  have hpos : 1 ≤ (W.encVal d).2.length := by
    cases d with
    | obj l kvs => exact absurd hok (by simp [SOK])
    | arr l vs => exact absurd hok (by simp [SOK])
    | str b => have := varlen_length_pos b.length; simp [W.encVal]; omega
    | _ => simp [W.encVal]
  obtain ⟨f', rfl⟩ : ∃ f', f = f' + 1 := ⟨f - 1, by omega⟩
  exact scalar_val E d hok f' R top

theorem doc_ok_aux {P : W.JDoc → Prop} (hP : WFSpec P) (E : Ext) (n : Nat) :
    ∀ d : W.JDoc, sizeOf d < n → P d → ChildOK E d := by
  induction n with
  | zero => intro d hd; omega
  | succ n ih =>
    intro d hd hwf
    cases d with
    | obj large kvs =>
      obtain ⟨hk, hn, hsz⟩ := hP.obj large kvs hwf
      rw [pow_ow] at hn hsz
      simp only [W.encVal] at hsz
      have hsize : ∀ p ∈ kvs, sizeOf p.2 < n := by
        intro p hp
        have h1 := List.sizeOf_lt_of_mem hp
        obtain ⟨k, d⟩ := p
        simp only [W.JDoc.obj.sizeOf_spec, Prod.mk.sizeOf_spec] at hd h1 ⊢
        omega
      exact obj_ok E large kvs (fun p hp => ih p.2 (hsize p hp) (hk p hp).2)
        (fun p hp => wf_inl hP large p.2 (hk p hp).2) (fun p hp => (hk p hp).1) hn hsz
    | arr large vs =>
      obtain ⟨hk, hn, hsz⟩ := hP.arr large vs hwf
      rw [pow_ow] at hn hsz
      simp only [W.encVal] at hsz
      have hsize : ∀ v ∈ vs, sizeOf v < n := by
        intro v hv
        have h1 := List.sizeOf_lt_of_mem hv
        simp only [W.JDoc.arr.sizeOf_spec] at hd
        omega
      exact arr_ok E large vs (fun v hv => ih v (hsize v hv) (hk v hv))
        (fun v hv => wf_inl hP large v (hk v hv)) hn hsz
    | _ => exact scalar_ok E _ (hP.scalar _ hwf (by intros; simp) (by intros; simp))

/-- every well-formed document decodes to its text, followed by anything, with fuel twice its length -/
theorem doc_ok {P : W.JDoc → Prop} (hP : WFSpec P) (E : Ext) (d : W.JDoc) (hwf : P d) : ChildOK E d :=
  doc_ok_aux hP E (sizeOf d + 1) d (by omega) hwf

/-- the column value of every well-formed document -/
theorem doc_data {P : W.JDoc → Prop} (hP : WFSpec P) (E : Ext) (d : W.JDoc) (hwf : P d) :
    printJSONData E (W.jsonb d) = .ok (W.render E.fmtFloat64E true d) := by
  rw [printJSONData_jsonb]
  simpa using doc_ok hP E d hwf _ [] true (by omega)

/-- through the cell decoder: a JSON cell with any of the four length-prefix widths, at any position of the buffer —
    `cellLength` skips exactly the cell, `cellBytes` delivers the document's text and consumes exactly the cell -/
theorem cell_json_at (E : Ext) (pre b rest : Bytes) (t : Bytes) (md : Nat) (u : Bool) (h1 : 1 ≤ md) (h4 : md ≤ 4)
    (hl : b.length < 256 ^ md) (h : printJSONData E b = .ok t) :
    cellLength (pre ++ (ofLE md b.length ++ b ++ rest)) pre.length 245 md = .ok (md + b.length) ∧
    cellBytes E (pre ++ (ofLE md b.length ++ b ++ rest)) pre.length 245 md u = .ok (t, md + b.length) := by
  have hmd : md = 1 ∨ md = 2 ∨ md = 3 ∨ md = 4 := by omega
  rw [List.append_assoc]
  have hb : blobLen (pre ++ (ofLE md b.length ++ (b ++ rest))) pre.length md = .ok b.length := by
    rw [blobLen, if_pos hmd, leIdx_at, Nat.mod_eq_of_lt hl]
  have hs : Bytes.slice (pre ++ (ofLE md b.length ++ (b ++ rest))) (pre.length + md) (pre.length + md + b.length) = .ok b := by
    have := slice_mid (pre ++ ofLE md b.length) b rest
    simpa [List.append_assoc] using this
  refine ⟨?_, ?_⟩
  · unfold cellLength
    have hlk : lookup Facts.cellLengthFixed 245 = none := by decide
    simp only [hlk, hb]
    simp
  · unfold cellBytes
    simp only [hb, Res.ok_bind, hs, h]
    simp [Nat.add_comm]

/-- the same at the head of the buffer, four length bytes -/
theorem cell_json (E : Ext) (b rest : Bytes) (t : Bytes) (u : Bool) (hl : b.length < 2 ^ 32)
    (h : printJSONData E b = .ok t) :
    cellBytes E (ofLE 4 b.length ++ b ++ rest) 0 245 4 u = .ok (t, 4 + b.length) := by
  have := (cell_json_at E [] b rest t 4 u (by omega) (by omega) (by omega) h).2
  simpa using this

/-! ### documents without DOUBLE scalars: the text does not depend on the float formatter -/

mutual
theorem render_noDbl (f g : Nat → Bytes) (top : Bool) : ∀ d : W.JDoc, W.NoDbl d → W.render f top d = W.render g top d
  | .obj _ kvs, h => by
      simp only [W.NoDbl] at h
      simp only [W.render, renderKVs_noDbl f g true kvs h]
  | .arr _ vs, h => by
      simp only [W.NoDbl] at h
      simp only [W.render, renderVals_noDbl f g true vs h]
  | .dbl _, h => by simp [W.NoDbl] at h
  | .lit _, _ | .i16 _, _ | .u16 _, _ | .i32 _, _ | .u32 _, _ | .i64 _, _ | .u64 _, _ | .str _, _
  | .odate .., _ | .otime .., _ | .odatetime .., _ | .odecimal .., _ => by simp only [W.render]
theorem renderVals_noDbl (f g : Nat → Bytes) (first : Bool) :
    ∀ vs : List W.JDoc, W.NoDblVals vs → W.renderVals f first vs = W.renderVals g first vs
  | [], _ => by simp only [W.renderVals]
  | d :: ds, h => by
      simp only [W.NoDblVals] at h
      simp only [W.renderVals, render_noDbl f g false d h.1, renderVals_noDbl f g false ds h.2]
theorem renderKVs_noDbl (f g : Nat → Bytes) (first : Bool) :
    ∀ kvs : List (Bytes × W.JDoc), W.NoDblKVs kvs → W.renderKVs f first kvs = W.renderKVs g first kvs
  | [], _ => by simp only [W.renderKVs]
  | (_, d) :: rest, h => by
      simp only [W.NoDblKVs] at h
      simp only [W.renderKVs, render_noDbl f g false d h.1, renderKVs_noDbl f g false rest h.2]
end

end C14
end GV
