import GV.Model.Cell
import GV.Spec.Cell
import GV.Lemmas.Dec
/- helper lemmas for GV/Props/C12.lean -/
namespace GV
open Bytes GV.M

/-! ### index-by-index readers on appended byte strings -/

theorem leIdx_mid_gen (a b c : Bytes) : leIdx (a ++ (b ++ c)) a.length b.length = .ok (le b) := by
  induction b generalizing a with
  | nil => rfl
  | cons x xs ih =>
    have h := ih (a ++ [x])
    simp only [List.append_assoc, List.singleton_append, List.length_append, List.length_singleton] at h
    simp only [List.length_cons, leIdx, List.cons_append, get_mid, Res.ok_bind, h, Res.pure_eq, le]

theorem beIdx_mid_gen (a b c : Bytes) : beIdx (a ++ (b ++ c)) a.length b.length = .ok (be b) := by
  induction b generalizing a with
  | nil => rfl
  | cons x xs ih =>
    have h := ih (a ++ [x])
    simp only [List.append_assoc, List.singleton_append, List.length_append, List.length_singleton] at h
    simp only [List.length_cons, beIdx, List.cons_append, get_mid, Res.ok_bind, h, Res.pure_eq, be, beAux]
    rw [beAux_eq (0 * 256 + x.toNat) xs]
    simp

theorem leIdx_mid12 (a c : Bytes) (pos w n : Nat) (hp : pos = a.length) :
    leIdx (a ++ (ofLE w n ++ c)) pos w = .ok (n % 256 ^ w) := by
  subst hp
  have := leIdx_mid_gen a (ofLE w n) c
  rwa [ofLE_length, le_ofLE] at this

theorem leIdx_head12 (c : Bytes) (w n : Nat) : leIdx (ofLE w n ++ c) 0 w = .ok (n % 256 ^ w) := by
  simpa using leIdx_mid12 [] c 0 w n rfl

theorem beIdx_mid (a c : Bytes) (pos w n : Nat) (hp : pos = a.length) :
    beIdx (a ++ (ofBE w n ++ c)) pos w = .ok (n % 256 ^ w) := by
  subst hp
  have := beIdx_mid_gen a (ofBE w n) c
  rwa [ofBE_length, be_ofBE] at this

theorem beIdx_head (c : Bytes) (w n : Nat) : beIdx (ofBE w n ++ c) 0 w = .ok (n % 256 ^ w) := by
  simpa using beIdx_mid [] c 0 w n rfl

/-- the third byte of a 3-byte little-endian value -/
theorem get2_ofLE3 (n : Nat) (c : Bytes) :
    Bytes.get (ofLE 3 n ++ c) 2 = .ok (UInt8.ofNat (n / 256 / 256 % 256)) := by
  simp [ofLE, Bytes.get]

/-! ### splitting a big-endian value into a high and a low part -/

theorem ofLE_add (a b n : Nat) : ofLE (b + a) n = ofLE b n ++ ofLE a (n / 256 ^ b) := by
  induction b generalizing n with
  | zero => simp [ofLE]
  | succ b ih =>
    have : b + 1 + a = (b + a) + 1 := by omega
    rw [this]
    simp only [ofLE, ih, List.cons_append]
    rw [Nat.div_div_eq_div_mul, Nat.pow_succ, Nat.mul_comm]

theorem ofBE_add (a b n : Nat) : ofBE (a + b) n = ofBE a (n / 256 ^ b) ++ ofBE b n := by
  unfold ofBE
  rw [Nat.add_comm a b, ofLE_add, List.reverse_append]

/-! ### decimal text of small numbers -/

theorem natDec3 (n : Nat) (h1 : 100 ≤ n) (h2 : n < 1000) : (natDec n).length = 3 := by
  rw [natDec_ge n (by omega), natDec_ge (n / 10) (by omega), natDec_lt (n / 10 / 10) (by omega)]
  rfl

theorem pad2_two (n : Nat) (h : n < 100) : padMin 2 n = W.two n :=
  padMin_eq_digitsN 2 n (by omega) (by omega)

theorem pad2_hours (h : Nat) (hh : h < 1000) : padMin 2 h = W.hoursText h := by
  unfold W.hoursText
  split
  · exact pad2_two h ‹_›
  · unfold padMin
    rw [natDec3 h (by omega) hh]
    rfl

theorem pad4_year (y : Nat) (h : y ≤ 9999) : padMin 4 y = digitsN 4 y :=
  padMin_eq_digitsN 4 y (by omega) (by omega)

/-! ### decimal-coded fields -/

theorem dec3_1 (a b c : Nat) (hb : b < 100) (hc : c < 100) : (a * 10000 + b * 100 + c) / 10000 = a := by omega
theorem dec3_2 (a b c : Nat) (hb : b < 100) (hc : c < 100) : (a * 10000 + b * 100 + c) % 10000 / 100 = b := by omega
theorem dec3_3 (a b c : Nat) (hc : c < 100) : (a * 10000 + b * 100 + c) % 100 = c := by omega

theorem dt_split (D T : Nat) (hD : D ≤ 99991231) (hT : T ≤ 235959) :
    (D * 1000000 + T) % 256 ^ 8 = D * 1000000 + T ∧ (D * 1000000 + T) / 1000000 = D ∧
    (D * 1000000 + T) % 1000000 = T := by
  refine ⟨?_, ?_, ?_⟩
  · apply Nat.mod_eq_of_lt; omega
  · omega
  · omega

/-! ### bit-packed fields (DATETIME2 / TIME2) -/

theorem subU64_off (v : Nat) (hv : v < 2 ^ 39) :
    subU64 ((v + 0x8000000000) % 256 ^ 5) 0x8000000000 = v := by
  have e : (v + 0x8000000000) % 256 ^ 5 = v + 0x8000000000 := Nat.mod_eq_of_lt (by omega)
  rw [e]
  unfold subU64
  omega

theorem dt2_bound (y mo d h mi s : Nat) (hy : y ≤ 9999) (hmo : mo ≤ 12) (hd : d ≤ 31) (hh : h ≤ 23)
    (hmi : mi ≤ 59) (hs : s ≤ 59) : ((((y * 13 + mo) * 32 + d) * 32 + h) * 64 + mi) * 64 + s < 2 ^ 39 := by
  omega

theorem dt2_hi (ymd h mi s : Nat) (hh : h ≤ 23) (hmi : mi ≤ 59) (hs : s ≤ 59) :
    (((ymd * 32 + h) * 64 + mi) * 64 + s) / 2 ^ 17 = ymd := by omega

theorem dt2_lo (ymd h mi s : Nat) (hh : h ≤ 23) (hmi : mi ≤ 59) (hs : s ≤ 59) :
    (((ymd * 32 + h) * 64 + mi) * 64 + s) % 2 ^ 17 = (h * 64 + mi) * 64 + s := by omega

theorem hms_h (h mi s : Nat) (hmi : mi ≤ 59) (hs : s ≤ 59) :
    ((h * 64 + mi) * 64 + s) / 4096 = h := by omega
theorem hms_m (h mi s : Nat) (hmi : mi ≤ 59) (hs : s ≤ 59) :
    ((h * 64 + mi) * 64 + s) / 64 % 64 = mi := by omega
theorem hms_s (h mi s : Nat) (hs : s ≤ 59) :
    ((h * 64 + mi) * 64 + s) % 64 = s := by omega

theorem ymd_y (y mo d : Nat) (hmo : mo ≤ 12) (hd : d ≤ 31) : ((y * 13 + mo) * 32 + d) / 32 / 13 = y := by omega
theorem ymd_m (y mo d : Nat) (hmo : mo ≤ 12) (hd : d ≤ 31) : ((y * 13 + mo) * 32 + d) / 32 % 13 = mo := by omega
theorem ymd_d (y mo d : Nat) (hd : d ≤ 31) : ((y * 13 + mo) * 32 + d) % 32 = d := by omega

/-! ### the fraction bytes shared by TIMESTAMP2 / DATETIME2 -/

theorem fracSuffix_spec (a rest : Bytes) (pos fsp frac : Nat) (hp : pos = a.length) (hf : fsp ≤ 6)
    (hfr : frac < 10 ^ fsp) :
    fracSuffix (a ++ (ofBE (W.fracBytes fsp) (W.fracStored fsp frac) ++ rest)) pos fsp
      = .ok (W.fracText fsp frac, (fsp + 1) / 2) := by
  have hc : fsp = 0 ∨ fsp = 1 ∨ fsp = 2 ∨ fsp = 3 ∨ fsp = 4 ∨ fsp = 5 ∨ fsp = 6 := by omega
  rcases hc with rfl | rfl | rfl | rfl | rfl | rfl | rfl
  · simp [fracSuffix, W.fracText]
  · have e : (frac * 10) % 256 ^ 1 / 10 = frac := by omega
    simp only [fracSuffix, W.fracBytes, W.fracStored, W.fracText, beIdx_mid a rest pos _ _ hp, if_true,
      Res.ok_bind, Res.pure_eq, Nat.reduceAdd, Nat.reduceDiv, Nat.reduceMod, e,
      padMin_eq_digitsN 1 frac hfr (by omega)]
    simp
  · have e : frac % 256 = frac := by omega
    simp only [fracSuffix, W.fracBytes, W.fracStored, W.fracText, beIdx_mid a rest pos _ _ hp, if_true,
      Res.ok_bind, Res.pure_eq, Nat.reduceAdd, Nat.reduceDiv, Nat.reduceMod,]
    simp
    rw [e]; exact padMin_eq_digitsN 2 frac hfr (by omega)
  · have e : (frac * 10) % 256 ^ 2 / 10 = frac := by omega
    simp only [fracSuffix, W.fracBytes, W.fracStored, W.fracText, beIdx_mid a rest pos _ _ hp, if_true,
      Res.ok_bind, Res.pure_eq, Nat.reduceAdd, Nat.reduceDiv, Nat.reduceMod, e,
      padMin_eq_digitsN 3 frac hfr (by omega)]
    simp
  · have e : frac % 65536 = frac := by omega
    simp only [fracSuffix, W.fracBytes, W.fracStored, W.fracText, beIdx_mid a rest pos _ _ hp, if_true,
      Res.ok_bind, Res.pure_eq, Nat.reduceAdd, Nat.reduceDiv, Nat.reduceMod,]
    simp
    rw [e]; exact padMin_eq_digitsN 4 frac hfr (by omega)
  · have e : (frac * 10) % 256 ^ 3 / 10 = frac := by omega
    simp only [fracSuffix, W.fracBytes, W.fracStored, W.fracText, beIdx_mid a rest pos _ _ hp, if_true,
      Res.ok_bind, Res.pure_eq, Nat.reduceAdd, Nat.reduceDiv, Nat.reduceMod, e,
      padMin_eq_digitsN 5 frac hfr (by omega)]
    simp
  · have e : frac % 16777216 = frac := by omega
    simp only [fracSuffix, W.fracBytes, W.fracStored, W.fracText, beIdx_mid a rest pos _ _ hp, if_true,
      Res.ok_bind, Res.pure_eq, Nat.reduceAdd, Nat.reduceDiv, Nat.reduceMod,]
    simp
    rw [e]; exact padMin_eq_digitsN 6 frac hfr (by omega)



/-! ### the branch of `cellBytes` taken for each temporal type code -/

theorem date_body (E : Ext) (typ md : Nat) (ht : typ = 10 ∨ typ = 14) (u : Bool) (data : Bytes) :
    cellBytes E data 0 typ md u = (do
    let v ← leIdx data 0 3
    pure (padMin 4 (v / 512) ++ [45] ++ padMin 2 (v / 32 % 16) ++ [45] ++ padMin 2 (v % 32), 3)) := by
  unfold cellBytes
  rcases ht with rfl | rfl <;> simp only [Nat.reduceEqDiff, or_true, true_or, ↓reduceIte]

theorem timestamp_body (E : Ext) (md : Nat) (u : Bool) (data : Bytes) :
    cellBytes E data 0 7 md u = (do
    let v ← readLE data 0 4
    pure (printTimestamp E v, 4)) := by
  unfold cellBytes
  simp only [Nat.reduceEqDiff, ↓reduceIte]

theorem time_old_body (E : Ext) (md : Nat) (u : Bool) (data : Bytes) :
    cellBytes E data 0 11 md u = (do
    let b2 ← data.get 2
    let v ← leIdx data 0 3
    let neg := b2.toNat ≥ 128
    let a := if neg then 2 ^ 24 - v else v
    pure ((if neg then [45] else []) ++ padMin 2 (a / 10000) ++ [58] ++ padMin 2 (a % 10000 / 100) ++ [58]
            ++ padMin 2 (a % 100), 3)) := by
  unfold cellBytes
  simp only [Nat.reduceEqDiff, or_self, ↓reduceIte, Nat.zero_add]

theorem datetime_old_body (E : Ext) (md : Nat) (u : Bool) (data : Bytes) :
    cellBytes E data 0 12 md u = (do
    let v ← readLE data 0 8
    let d := v / 1000000
    let t := v % 1000000
    pure (padMin 4 (d / 10000) ++ [45] ++ padMin 2 (d % 10000 / 100) ++ [45] ++ padMin 2 (d % 100) ++ [32]
            ++ padMin 2 (t / 10000) ++ [58] ++ padMin 2 (t % 10000 / 100) ++ [58] ++ padMin 2 (t % 100), 8)) := by
  unfold cellBytes
  simp only [Nat.reduceEqDiff, or_self, ↓reduceIte]

theorem datetime2_body (E : Ext) (md : Nat) (u : Bool) (data : Bytes) :
    cellBytes E data 0 18 md u = (do
    let raw ← beIdx data 0 5
    let ymdhms := subU64 raw 0x8000000000
    let ymd := ymdhms / 2 ^ 17
    let ym := ymd / 32
    let hms := ymdhms % 2 ^ 17
    let txt := padMin 4 (ym / 13) ++ [45] ++ padMin 2 (ym % 13) ++ [45] ++ padMin 2 (ymd % 32) ++ [32]
                ++ padMin 2 (hms / 4096) ++ [58] ++ padMin 2 (hms / 64 % 64) ++ [58] ++ padMin 2 (hms % 64)
    let (fr, n) ← fracSuffix data 5 md
    pure (txt ++ fr, 5 + n)) := by
  unfold cellBytes
  simp only [Nat.reduceEqDiff, or_self, ↓reduceIte, Nat.zero_add]

theorem timestamp2_body (E : Ext) (md : Nat) (u : Bool) (data : Bytes) :
    cellBytes E data 0 17 md u = (do
    let sec ← readBE data 0 4
    let (fr, n) ← fracSuffix data 4 md
    pure (printTimestamp E sec ++ fr, 4 + n)) := by
  unfold cellBytes
  simp only [Nat.reduceEqDiff, or_self, ↓reduceIte, Nat.zero_add]

theorem time2_body (E : Ext) (md : Nat) (u : Bool) (data : Bytes) :
    cellBytes E data 0 19 md u = (do
    let raw ← beIdx data 0 3
    let neg := raw < 0x800000
    let hms0 := if neg then 0x800000 - raw else raw - 0x800000
    let w := if md = 1 ∨ md = 2 then 1 else if md = 3 ∨ md = 4 then 2 else if md = 5 ∨ md = 6 then 3 else 0
    let fr0 ← beIdx data 3 w
    let borrow := neg ∧ fr0 ≠ 0 ∧ w ≠ 0
    let hms := if borrow then hms0 - 1 else hms0
    let fr := if borrow then 256 ^ w - fr0 else fr0
    let fracStr : Bytes :=
      if md = 1 then [46] ++ padMin 1 (fr / 10) else if md = 2 then [46] ++ padMin 2 fr
      else if md = 3 then [46] ++ padMin 3 (fr / 10) else if md = 4 then [46] ++ padMin 4 fr
      else if md = 5 then [46] ++ padMin 5 (fr / 10) else if md = 6 then [46] ++ padMin 6 fr else []
    pure ((if neg then [45] else []) ++ padMin 2 (hms / 4096 % 1024) ++ [58] ++ padMin 2 (hms / 64 % 64) ++ [58]
            ++ padMin 2 (hms % 64) ++ fracStr, 3 + (md + 1) / 2)) := by
  unfold cellBytes
  simp only [Nat.reduceEqDiff, or_self, ↓reduceIte, Nat.zero_add]


/-! ### TIME2 -/

theorem time2_arith (B hms fs v raw fr0 : Nat) (neg : Bool) (hB : B = 1 ∨ B = 256 ∨ B = 65536 ∨ B = 16777216)
    (hhms : hms < 2 ^ 22) (hfs : fs < B) (hz : neg = true → hms + fs ≠ 0)
    (hv : v = if neg = true then 0x800000 * B - (hms * B + fs) else 0x800000 * B + (hms * B + fs))
    (hraw : raw = v / B % 256 ^ 3) (hfr : fr0 = v % B) :
    (raw < 0x800000 ↔ neg = true) ∧
    (if raw < 0x800000 ∧ fr0 ≠ 0 then (if raw < 0x800000 then 0x800000 - raw else raw - 0x800000) - 1
      else (if raw < 0x800000 then 0x800000 - raw else raw - 0x800000)) = hms ∧
    (if raw < 0x800000 ∧ fr0 ≠ 0 then B - fr0 else fr0) = fs := by
  cases neg with
  | false =>
    simp only [Bool.false_eq_true, if_false] at hv
    have h1 : raw = 0x800000 + hms ∧ fr0 = fs := by
      rcases hB with rfl | rfl | rfl | rfl <;> omega
    obtain ⟨rfl, rfl⟩ := h1
    have hn : ¬ (8388608 + hms < 8388608) := by omega
    simp [hn]
  | true =>
    simp only [if_true] at hv
    have hp : hms + fs ≠ 0 := hz rfl
    by_cases hf0 : fs = 0
    · subst hf0
      have h1 : raw = 0x800000 - hms ∧ fr0 = 0 := by
        rcases hB with rfl | rfl | rfl | rfl <;> omega
      obtain ⟨rfl, rfl⟩ := h1
      have hn : 8388608 - hms < 8388608 := by omega
      simp [hn]; omega
    · have h1 : raw = 0x800000 - hms - 1 ∧ fr0 = B - fs := by
        rcases hB with rfl | rfl | rfl | rfl <;> omega
      obtain ⟨rfl, rfl⟩ := h1
      have hn : 8388608 - hms - 1 < 8388608 := by omega
      have hn2 : B - fs ≠ 0 := by omega
      simp [hn, hn2]; omega

theorem time2_read (fb v : Nat) (rest : Bytes) :
    beIdx (ofBE (3 + fb) v ++ rest) 0 3 = .ok (v / 256 ^ fb % 256 ^ 3) ∧
    beIdx (ofBE (3 + fb) v ++ rest) 3 fb = .ok (v % 256 ^ fb) := by
  rw [ofBE_add, List.append_assoc]
  exact ⟨beIdx_head _ 3 _, beIdx_mid (ofBE 3 _) rest 3 fb v (by simp)⟩

theorem time2_w (fsp : Nat) (hf : fsp ≤ 6) :
    (if fsp = 1 ∨ fsp = 2 then 1 else if fsp = 3 ∨ fsp = 4 then 2 else if fsp = 5 ∨ fsp = 6 then 3 else 0)
      = W.fracBytes fsp := by
  have hc : fsp = 0 ∨ fsp = 1 ∨ fsp = 2 ∨ fsp = 3 ∨ fsp = 4 ∨ fsp = 5 ∨ fsp = 6 := by omega
  rcases hc with rfl | rfl | rfl | rfl | rfl | rfl | rfl <;> rfl

theorem time2_frac (fsp frac : Nat) (hf : fsp ≤ 6) (hfr : frac < 10 ^ fsp) :
    (if fsp = 1 then [46] ++ padMin 1 (W.fracStored fsp frac / 10) else if fsp = 2 then [46] ++ padMin 2 (W.fracStored fsp frac)
      else if fsp = 3 then [46] ++ padMin 3 (W.fracStored fsp frac / 10) else if fsp = 4 then [46] ++ padMin 4 (W.fracStored fsp frac)
      else if fsp = 5 then [46] ++ padMin 5 (W.fracStored fsp frac / 10) else if fsp = 6 then [46] ++ padMin 6 (W.fracStored fsp frac)
      else ([] : Bytes)) = W.fracText fsp frac := by
  have hc : fsp = 0 ∨ fsp = 1 ∨ fsp = 2 ∨ fsp = 3 ∨ fsp = 4 ∨ fsp = 5 ∨ fsp = 6 := by omega
  rcases hc with rfl | rfl | rfl | rfl | rfl | rfl | rfl
  · rfl
  · have e : frac * 10 / 10 = frac := by omega
    simp [W.fracStored, W.fracText, e, padMin_eq_digitsN 1 frac hfr]
  · simp [W.fracStored, W.fracText, padMin_eq_digitsN 2 frac hfr]
  · have e : frac * 10 / 10 = frac := by omega
    simp [W.fracStored, W.fracText, e, padMin_eq_digitsN 3 frac hfr]
  · simp [W.fracStored, W.fracText, padMin_eq_digitsN 4 frac hfr]
  · have e : frac * 10 / 10 = frac := by omega
    simp [W.fracStored, W.fracText, e, padMin_eq_digitsN 5 frac hfr]
  · simp [W.fracStored, W.fracText, padMin_eq_digitsN 6 frac hfr]

theorem time2_stored_lt (fsp frac : Nat) (hf : fsp ≤ 6) (hfr : frac < 10 ^ fsp) :
    W.fracStored fsp frac < 256 ^ W.fracBytes fsp ∧
    (256 ^ W.fracBytes fsp = 1 ∨ 256 ^ W.fracBytes fsp = 256 ∨ 256 ^ W.fracBytes fsp = 65536 ∨
      256 ^ W.fracBytes fsp = 16777216) := by
  have hc : fsp = 0 ∨ fsp = 1 ∨ fsp = 2 ∨ fsp = 3 ∨ fsp = 4 ∨ fsp = 5 ∨ fsp = 6 := by omega
  rcases hc with rfl | rfl | rfl | rfl | rfl | rfl | rfl <;>
    simp [W.fracStored, W.fracBytes] at hfr ⊢ <;> omega

/-- the pure tail of the TIME2 branch of `cellBytes`, as a function of the two values read -/
def time2Out (md raw fr0 : Nat) : Bytes × Nat :=
  let neg := raw < 0x800000
  let hms0 := if neg then 0x800000 - raw else raw - 0x800000
  let w := if md = 1 ∨ md = 2 then 1 else if md = 3 ∨ md = 4 then 2 else if md = 5 ∨ md = 6 then 3 else 0
  let borrow := neg ∧ fr0 ≠ 0 ∧ w ≠ 0
  let hms := if borrow then hms0 - 1 else hms0
  let fr := if borrow then 256 ^ w - fr0 else fr0
  let fracStr : Bytes :=
    if md = 1 then [46] ++ padMin 1 (fr / 10) else if md = 2 then [46] ++ padMin 2 fr
    else if md = 3 then [46] ++ padMin 3 (fr / 10) else if md = 4 then [46] ++ padMin 4 fr
    else if md = 5 then [46] ++ padMin 5 (fr / 10) else if md = 6 then [46] ++ padMin 6 fr else []
  ((if neg then [45] else []) ++ padMin 2 (hms / 4096 % 1024) ++ [58] ++ padMin 2 (hms / 64 % 64) ++ [58]
          ++ padMin 2 (hms % 64) ++ fracStr, 3 + (md + 1) / 2)

theorem time2_body' (E : Ext) (md : Nat) (u : Bool) (data : Bytes) :
    cellBytes E data 0 19 md u = (do
    let raw ← beIdx data 0 3
    let fr0 ← beIdx data 3
      (if md = 1 ∨ md = 2 then 1 else if md = 3 ∨ md = 4 then 2 else if md = 5 ∨ md = 6 then 3 else 0)
    pure (time2Out md raw fr0)) := by
  rw [time2_body]; rfl

theorem time2Out_spec (fsp raw fr0 hms frac : Nat) (neg : Bool) (hf : fsp ≤ 6) (hfr : frac < 10 ^ fsp)
    (a1 : raw < 0x800000 ↔ neg = true)
    (a2 : (if raw < 0x800000 ∧ fr0 ≠ 0 then (if raw < 0x800000 then 0x800000 - raw else raw - 0x800000) - 1
      else (if raw < 0x800000 then 0x800000 - raw else raw - 0x800000)) = hms)
    (a3 : (if raw < 0x800000 ∧ fr0 ≠ 0 then 256 ^ W.fracBytes fsp - fr0 else fr0) = W.fracStored fsp frac)
    (hw : fr0 ≠ 0 → W.fracBytes fsp ≠ 0) :
    time2Out fsp raw fr0 = ((if neg = true then [45] else []) ++ padMin 2 (hms / 4096 % 1024) ++ [58]
      ++ padMin 2 (hms / 64 % 64) ++ [58] ++ padMin 2 (hms % 64) ++ W.fracText fsp frac, 3 + (fsp + 1) / 2) := by
  have hiff : (raw < 0x800000 ∧ fr0 ≠ 0 ∧ W.fracBytes fsp ≠ 0) ↔ (raw < 0x800000 ∧ fr0 ≠ 0) :=
    ⟨fun ⟨x, y, _⟩ => ⟨x, y⟩, fun ⟨x, y⟩ => ⟨x, y, hw y⟩⟩
  unfold time2Out
  simp only [time2_w fsp hf, hiff]
  simp only [a2, a3]
  simp only [time2_frac fsp frac hf hfr, a1]


/-! ### the proleptic Gregorian calendar: civil_from_days ∘ days_from_civil = id -/

theorem civil_yoe_c0 (yoe doy : Int) (h0 : 0 ≤ yoe) (h1 : yoe ≤ 99) (hd0 : 0 ≤ doy)
    (hd : doy ≤ 364 ∨ (doy = 365 ∧ yoe % 4 = 3 ∧ yoe ≠ 99)) :
    let doe := yoe * 365 + yoe / 4 - yoe / 100 + doy
    0 ≤ doe ∧ doe ≤ 146096 ∧ (doe - doe / 1460 + doe / 36524 - doe / 146096) / 365 = yoe := by
  intro doe
  have e1 : yoe / 100 = 0 := by omega
  have e2 : doe = yoe * 365 + yoe / 4 - 0 + doy := by omega
  have e3 : doe / 36524 = 0 := by omega
  have e4 : doe / 146096 = 0 := by omega
  rw [e3, e4]
  omega

theorem civil_yoe_c1 (yoe doy : Int) (h0 : 100 ≤ yoe) (h1 : yoe ≤ 199) (hd0 : 0 ≤ doy)
    (hd : doy ≤ 364 ∨ (doy = 365 ∧ yoe % 4 = 3 ∧ yoe ≠ 199)) :
    let doe := yoe * 365 + yoe / 4 - yoe / 100 + doy
    0 ≤ doe ∧ doe ≤ 146096 ∧ (doe - doe / 1460 + doe / 36524 - doe / 146096) / 365 = yoe := by
  intro doe
  have e1 : yoe / 100 = 1 := by omega
  have e2 : doe = yoe * 365 + yoe / 4 - 1 + doy := by omega
  have e3 : doe / 36524 = 1 := by omega
  have e4 : doe / 146096 = 0 := by omega
  rw [e3, e4]
  omega

theorem civil_yoe_c2 (yoe doy : Int) (h0 : 200 ≤ yoe) (h1 : yoe ≤ 299) (hd0 : 0 ≤ doy)
    (hd : doy ≤ 364 ∨ (doy = 365 ∧ yoe % 4 = 3 ∧ yoe ≠ 299)) :
    let doe := yoe * 365 + yoe / 4 - yoe / 100 + doy
    0 ≤ doe ∧ doe ≤ 146096 ∧ (doe - doe / 1460 + doe / 36524 - doe / 146096) / 365 = yoe := by
  intro doe
  have e1 : yoe / 100 = 2 := by omega
  have e2 : doe = yoe * 365 + yoe / 4 - 2 + doy := by omega
  have e3 : doe / 36524 = 2 := by omega
  have e4 : doe / 146096 = 0 := by omega
  rw [e3, e4]
  omega

theorem civil_yoe_c3 (yoe doy : Int) (h0 : 300 ≤ yoe) (h1 : yoe ≤ 399) (hd0 : 0 ≤ doy)
    (hd : doy ≤ 364 ∨ (doy = 365 ∧ yoe % 4 = 3)) :
    let doe := yoe * 365 + yoe / 4 - yoe / 100 + doy
    0 ≤ doe ∧ doe ≤ 146096 ∧ (doe - doe / 1460 + doe / 36524 - doe / 146096) / 365 = yoe := by
  intro doe
  have e1 : yoe / 100 = 3 := by omega
  have e2 : doe = yoe * 365 + yoe / 4 - 3 + doy := by omega
  have e3 : doe / 36524 = 3 ∨ (doe / 36524 = 4 ∧ yoe = 399 ∧ doy = 365) := by omega
  have e4 : doe / 146096 = 0  ∨ (doe / 146096 = 1 ∧ yoe = 399 ∧ doy = 365) := by omega
  omega

/-- the year-of-era recovery step of civil_from_days -/
theorem civil_yoe (yoe doy : Int) (h0 : 0 ≤ yoe) (h1 : yoe ≤ 399) (hd0 : 0 ≤ doy)
    (hd : doy ≤ 364 ∨ (doy = 365 ∧ yoe % 4 = 3 ∧ (yoe % 100 ≠ 99 ∨ yoe = 399))) :
    let doe := yoe * 365 + yoe / 4 - yoe / 100 + doy
    0 ≤ doe ∧ doe ≤ 146096 ∧ (doe - doe / 1460 + doe / 36524 - doe / 146096) / 365 = yoe := by
  have hc : yoe ≤ 99 ∨ (100 ≤ yoe ∧ yoe ≤ 199) ∨ (200 ≤ yoe ∧ yoe ≤ 299) ∨ 300 ≤ yoe := by omega
  rcases hc with hc | ⟨hc, hc'⟩ | ⟨hc, hc'⟩ | hc
  · exact civil_yoe_c0 yoe doy h0 hc hd0 (by omega)
  · exact civil_yoe_c1 yoe doy hc hc' hd0 (by omega)
  · exact civil_yoe_c2 yoe doy hc hc' hd0 (by omega)
  · exact civil_yoe_c3 yoe doy hc h1 hd0 (by omega)

/-- civil_from_days undoes "era·146097 + day-of-era − 719468" -/
theorem civilOfDays_inv (era yoe doy : Int) (h0 : 0 ≤ yoe) (h1 : yoe ≤ 399) (hd0 : 0 ≤ doy)
    (hd : doy ≤ 364 ∨ (doy = 365 ∧ yoe % 4 = 3 ∧ (yoe % 100 ≠ 99 ∨ yoe = 399))) :
    civilOfDays (era * 146097 + (yoe * 365 + yoe / 4 - yoe / 100 + doy) - 719468) =
      (if (if (5 * doy + 2) / 153 < 10 then (5 * doy + 2) / 153 + 3 else (5 * doy + 2) / 153 - 9) ≤ 2
        then yoe + era * 400 + 1 else yoe + era * 400,
       if (5 * doy + 2) / 153 < 10 then (5 * doy + 2) / 153 + 3 else (5 * doy + 2) / 153 - 9,
       doy - (153 * ((5 * doy + 2) / 153) + 2) / 5 + 1) := by
  obtain ⟨a, b, c⟩ := civil_yoe yoe doy h0 h1 hd0 hd
  unfold civilOfDays
  generalize hg : yoe * 365 + yoe / 4 - yoe / 100 + doy = doe at a b c
  have hz : era * 146097 + doe - 719468 + 719468 = era * 146097 + doe := by omega
  have he : (era * 146097 + doe) / 146097 = era := by omega
  have hdoe : era * 146097 + doe - era * 146097 = doe := by omega
  have hdoy : doe - (365 * yoe + yoe / 4 - yoe / 100) = doy := by omega
  simp only [hz, he, hdoe, c, hdoy]

/-- day-of-shifted-year → month index (March = 0 … February = 11) -/
theorem month_inv (mp d : Int) (hd1 : 1 ≤ d)
    (h : (mp = 0 ∧ d ≤ 31) ∨ (mp = 1 ∧ d ≤ 30) ∨ (mp = 2 ∧ d ≤ 31) ∨ (mp = 3 ∧ d ≤ 30) ∨ (mp = 4 ∧ d ≤ 31) ∨
      (mp = 5 ∧ d ≤ 31) ∨ (mp = 6 ∧ d ≤ 30) ∨ (mp = 7 ∧ d ≤ 31) ∨ (mp = 8 ∧ d ≤ 30) ∨ (mp = 9 ∧ d ≤ 31) ∨
      (mp = 10 ∧ d ≤ 31) ∨ (mp = 11 ∧ d ≤ 29)) :
    (5 * ((153 * mp + 2) / 5 + d - 1) + 2) / 153 = mp ∧ 0 ≤ (153 * mp + 2) / 5 + d - 1 ∧
      ((153 * mp + 2) / 5 + d - 1 ≤ 364 ∨ (mp = 11 ∧ d = 29 ∧ (153 * mp + 2) / 5 + d - 1 = 365)) := by
  rcases h with ⟨rfl, h⟩ | ⟨rfl, h⟩ | ⟨rfl, h⟩ | ⟨rfl, h⟩ | ⟨rfl, h⟩ | ⟨rfl, h⟩ | ⟨rfl, h⟩ | ⟨rfl, h⟩ | ⟨rfl, h⟩ |
    ⟨rfl, h⟩ | ⟨rfl, h⟩ | ⟨rfl, h⟩ <;> omega

/-- months March..December: the shifted year is `y`, month index m-3 (the argument is `daysOfCivil y m d`
    with its `if`s resolved) -/
theorem roundtrip_late (y m d : Int) (hm : 3 ≤ m ∧ m ≤ 12) (hd1 : 1 ≤ d)
    (hd : d ≤ (if m = 4 ∨ m = 6 ∨ m = 9 ∨ m = 11 then 30 else 31)) :
    civilOfDays (y / 400 * 146097 + ((y - y / 400 * 400) * 365 + (y - y / 400 * 400) / 4
      - (y - y / 400 * 400) / 100 + ((153 * (m - 3) + 2) / 5 + d - 1)) - 719468) = (y, m, d) := by
  have hmc : m = 3 ∨ m = 4 ∨ m = 5 ∨ m = 6 ∨ m = 7 ∨ m = 8 ∨ m = 9 ∨ m = 10 ∨ m = 11 ∨ m = 12 := by omega
  obtain ⟨e1, e2, e3⟩ := month_inv (m - 3) d hd1
    (by rcases hmc with rfl | rfl | rfl | rfl | rfl | rfl | rfl | rfl | rfl | rfl <;> simp at hd <;> omega)
  have h1 : ¬ (m ≤ 2) := by omega
  rw [civilOfDays_inv (y / 400) (y - y / 400 * 400) ((153 * (m - 3) + 2) / 5 + d - 1) (by omega) (by omega)
    e2 (by omega), e1]
  have e4 : (if m - 3 < 10 then m - 3 + 3 else m - 3 - 9) = m := by rw [if_pos (by omega)]; omega
  have e5 : y - y / 400 * 400 + y / 400 * 400 = y := by omega
  have e6 : (153 * (m - 3) + 2) / 5 + d - 1 - (153 * (m - 3) + 2) / 5 + 1 = d := by omega
  rw [e4, if_neg h1, e5, e6]

/-- January / February: the shifted year is `y-1`, month index m+9 -/
theorem roundtrip_early (y m d : Int) (hm : 1 ≤ m ∧ m ≤ 2) (hd1 : 1 ≤ d)
    (hd : d ≤ (if m = 2 then (if y % 4 = 0 ∧ (y % 100 ≠ 0 ∨ y % 400 = 0) then 29 else 28) else 31)) :
    civilOfDays ((y - 1) / 400 * 146097 + ((y - 1 - (y - 1) / 400 * 400) * 365 + (y - 1 - (y - 1) / 400 * 400) / 4
      - (y - 1 - (y - 1) / 400 * 400) / 100 + ((153 * (m + 9) + 2) / 5 + d - 1)) - 719468) = (y, m, d) := by
  have hmc : m = 1 ∨ m = 2 := by omega
  obtain ⟨e1, e2, e3⟩ := month_inv (m + 9) d hd1
    (by rcases hmc with rfl | rfl <;> simp at hd <;> (try split at hd) <;> omega)
  have h1 : m ≤ 2 := by omega
  rw [civilOfDays_inv ((y - 1) / 400) (y - 1 - (y - 1) / 400 * 400) ((153 * (m + 9) + 2) / 5 + d - 1)
    (by omega) (by omega) e2 ?leap, e1]
  case leap =>
    rcases e3 with e3 | ⟨e3, e3', e3''⟩
    · exact Or.inl e3
    · have : m = 2 := by omega
      subst this; subst e3'
      simp at hd
      split at hd
      · right; omega
      · omega
  have e4 : (if m + 9 < 10 then m + 9 + 3 else m + 9 - 9) = m := by rw [if_neg (by omega)]; omega
  have e5 : y - 1 - (y - 1) / 400 * 400 + (y - 1) / 400 * 400 + 1 = y := by omega
  have e6 : (153 * (m + 9) + 2) / 5 + d - 1 - (153 * (m + 9) + 2) / 5 + 1 = d := by omega
  rw [e4, if_pos h1, e5, e6]

end GV
