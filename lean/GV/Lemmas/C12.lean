import GV.Model.Cell
import GV.Spec.Cell
import GV.Lemmas.Dec
/- helper lemmas for GV/Props/C12.lean -/
namespace GV
open Bytes GV.M

/-! ### index-by-index readers on appended byte strings -/

theorem leIdx_mid_gen (a b c : Bytes) : leIdx (a ++ (b ++ c)) a.length b.length = .ok (le b) := by
  induction b generalizing a with
  | nil => rfl
  | cons x xs ih =>
    have h := ih (a ++ [x])
    simp only [List.append_assoc, List.singleton_append, List.length_append, List.length_singleton] at h
    simp only [List.length_cons, leIdx, List.cons_append, get_mid, Res.ok_bind, h, Res.pure_eq, le]

theorem beIdx_mid_gen (a b c : Bytes) : beIdx (a ++ (b ++ c)) a.length b.length = .ok (be b) := by
  induction b generalizing a with
  | nil => rfl
  | cons x xs ih =>
    have h := ih (a ++ [x])
    simp only [List.append_assoc, List.singleton_append, List.length_append, List.length_singleton] at h
    simp only [List.length_cons, beIdx, List.cons_append, get_mid, Res.ok_bind, h, Res.pure_eq, be, beAux]
    rw [beAux_eq (0 * 256 + x.toNat) xs]
    simp

theorem leIdx_mid (a c : Bytes) (pos w n : Nat) (hp : pos = a.length) :
    leIdx (a ++ (ofLE w n ++ c)) pos w = .ok (n % 256 ^ w) := by
  subst hp
  have := leIdx_mid_gen a (ofLE w n) c
  rwa [ofLE_length, le_ofLE] at this

theorem leIdx_head (c : Bytes) (w n : Nat) : leIdx (ofLE w n ++ c) 0 w = .ok (n % 256 ^ w) := by
  simpa using leIdx_mid [] c 0 w n rfl

theorem beIdx_mid (a c : Bytes) (pos w n : Nat) (hp : pos = a.length) :
    beIdx (a ++ (ofBE w n ++ c)) pos w = .ok (n % 256 ^ w) := by
  subst hp
  have := beIdx_mid_gen a (ofBE w n) c
  rwa [ofBE_length, be_ofBE] at this

theorem beIdx_head (c : Bytes) (w n : Nat) : beIdx (ofBE w n ++ c) 0 w = .ok (n % 256 ^ w) := by
  simpa using beIdx_mid [] c 0 w n rfl

/-- the third byte of a 3-byte little-endian value -/
theorem get2_ofLE3 (n : Nat) (c : Bytes) :
    Bytes.get (ofLE 3 n ++ c) 2 = .ok (UInt8.ofNat (n / 256 / 256 % 256)) := by
  simp [ofLE, Bytes.get]

/-! ### splitting a big-endian value into a high and a low part -/

theorem ofLE_add (a b n : Nat) : ofLE (b + a) n = ofLE b n ++ ofLE a (n / 256 ^ b) := by
  induction b generalizing n with
  | zero => simp [ofLE]
  | succ b ih =>
    have : b + 1 + a = (b + a) + 1 := by omega
    rw [this]
    simp only [ofLE, ih, List.cons_append]
    rw [Nat.div_div_eq_div_mul, Nat.pow_succ, Nat.mul_comm]

theorem ofBE_add (a b n : Nat) : ofBE (a + b) n = ofBE a (n / 256 ^ b) ++ ofBE b n := by
  unfold ofBE
  rw [Nat.add_comm a b, ofLE_add, List.reverse_append]

/-! ### decimal text of small numbers -/

theorem natDec3 (n : Nat) (h1 : 100 ≤ n) (h2 : n < 1000) : (natDec n).length = 3 := by
  rw [natDec_ge n (by omega), natDec_ge (n / 10) (by omega), natDec_lt (n / 10 / 10) (by omega)]
  rfl

theorem pad2_two (n : Nat) (h : n < 100) : padMin 2 n = W.two n :=
  padMin_eq_digitsN 2 n (by omega) (by omega)

theorem pad2_hours (h : Nat) (hh : h < 1000) : padMin 2 h = W.hoursText h := by
  unfold W.hoursText
  split
  · exact pad2_two h ‹_›
  · unfold padMin
    rw [natDec3 h (by omega) hh]
    rfl

theorem pad4_year (y : Nat) (h : y ≤ 9999) : padMin 4 y = digitsN 4 y :=
  padMin_eq_digitsN 4 y (by omega) (by omega)

end GV
