import GV.Spec.Decoded
import GV.Spec.History
import GV.Spec.CellWF
import GV.Model.Streamer
import GV.Props.C16
import GV.Props.C02
/- helper lemmas for GV/Props/C01.lean -/
namespace GV
namespace C01
open Bytes M GV.C16 GV.Props.C16

/-- the validity gate on any writer-shaped header whose length field is the actual length -/
theorem isValid_hdr (ts typ sid len next flags : Nat) (rest : Bytes)
    (hl : len = 19 + rest.length) (h : len < 2 ^ 32) :
    isValid (W.header ts typ sid len next flags ++ rest) = true := by
  simp only [Nat.reducePow] at h
  unfold isValid
  rw [hdr_len, Nat.mod_eq_of_lt (by simpa using h)]
  have hL : (W.header ts typ sid len next flags ++ rest).length = len := by
    simp [header_length]; omega
  rw [hL]
  have h1 : u32 len = len := by unfold u32; omega
  rw [h1]
  have h2 : ¬ len < 19 := by omega
  simp [h2]

/-- `format` never looks at the header -/
theorem format_hdr_irrel (h h' b : Bytes) (hl : h.length = 19) (hl' : h'.length = 19) :
    format (h ++ b) = format (h' ++ b) := by
  unfold format
  rw [sliceFrom_append _ _ _ hl, sliceFrom_append _ _ _ hl']

/-- the header of the event once its checksum is gone: the length and next-position fields still count it -/
def hdrOf (crc : Option Bytes) (m : W.EvMeta) (typ start : Nat) (body : Bytes) : Bytes :=
  W.header m.ts typ m.sid (19 + body.length + crcLen crc) (start + (19 + body.length + crcLen crc)) m.flags

theorem hdrOf_length (crc : Option Bytes) (m : W.EvMeta) (typ start : Nat) (body : Bytes) :
    (hdrOf crc m typ start body).length = 19 := header_length ..

/-- the format in force announces exactly the checksum the writer appends -/
def CrcFmt (f : Format) (crc : Option Bytes) : Prop :=
  match crc with | some c => f.checksumAlg = 1 ∧ c.length = 4 | none => f.checksumAlg = 0

/-- everything `classify` does with a writer-produced event before the dispatch on its type -/
theorem pre (f : Format) (crc : Option Bytes) (m : W.EvMeta) (typ start : Nat) (body : Bytes)
    (hc : CrcFmt f crc)
    (h : MetaOK m typ start (19 + body.length + crcLen crc)) :
    isValid (W.event crc m typ start body).1 = true ∧
    evType (W.event crc m typ start body).1 = .ok typ ∧
    stripChecksum56 f (W.event crc m typ start body).1 = .ok (hdrOf crc m typ start body ++ body) ∧
    evType (hdrOf crc m typ start body ++ body) = .ok typ ∧
    evNextPosition (hdrOf crc m typ start body ++ body) = .ok (start + (19 + body.length + crcLen crc)) ∧
    evTimestamp (hdrOf crc m typ start body ++ body) = .ok m.ts := by
  have hH := C16_header crc m typ start body h
  simp only at hH
  obtain ⟨_, hty, _, _, _, _, hv, _⟩ := hH
  have h1 := h.ts; have h4 := h.typ; have h6 := h.next
  simp only [Nat.reducePow] at h1 h6
  refine ⟨hv, hty, ?_, ?_, ?_, ?_⟩
  · unfold CrcFmt at hc
    cases crc with
    | none =>
      have := (C16_strip f (hdrOf none m typ start body ++ body) [0, 0, 0, 0] rfl).1 (Or.inl hc)
      simpa [W.event, hdrOf, crcLen] using this.1
    | some c =>
      have := (C16_strip f (hdrOf (some c) m typ start body ++ body) c hc.2).2.1 hc.1
      simpa [W.event, hdrOf, crcLen] using this
  · unfold hdrOf; rw [hdr_typ, toNat_ofNat_lt _ h4]
  · unfold hdrOf; rw [hdr_next, Nat.mod_eq_of_lt (by simpa using h6)]
  · unfold hdrOf; rw [hdr_ts, Nat.mod_eq_of_lt (by simpa using h1)]

/-- the Spec's FORMAT_DESCRIPTION event: valid, type 15, and its format, whatever the next-position override -/
theorem fde_facts (cfg : W.Cfg) (start : Nat) (nx : Option Nat) :
    isValid (W.fdeEvent cfg start nx).1 = true ∧
    evType (W.fdeEvent cfg start nx).1 = .ok 15 ∧
    format (W.fdeEvent cfg start nx).1 = .ok
      { formatVersion := 4, serverVersion := asc "5.7.44-log", headerLength := 19,
        checksumAlg := if cfg.crc then 1 else 0, headerSizes := W.headerSizesFor cfg.idw4 } := by
  have hsv : (asc "5.7.44-log").length ≤ 50 := by decide
  have hz : (asc "5.7.44-log").getLast? ≠ some 0 := by decide
  have hhs : (W.headerSizesFor cfg.idw4).length = 40 := by cases cfg.idw4 <;> rfl
  have ha : (if cfg.crc then 1 else 0) < 256 := by split <;> omega
  have hbl : (W.fdeBody (asc "5.7.44-log") 0 (W.headerSizesFor cfg.idw4) (if cfg.crc then 1 else 0)
      [0xaa, 0xbb, 0xcc, 0xdd]).length = 102 := by
    simp [W.fdeBody, padTo_length _ hsv, hhs]
  have hfmt := C16_format {} start 0 (asc "5.7.44-log") (W.headerSizesFor cfg.idw4) [0xaa, 0xbb, 0xcc, 0xdd]
    (if cfg.crc then 1 else 0) hsv hz (by decide) ha rfl
  generalize hB : W.fdeBody (asc "5.7.44-log") 0 (W.headerSizesFor cfg.idw4) (if cfg.crc then 1 else 0)
      [0xaa, 0xbb, 0xcc, 0xdd] = B at hbl hfmt
  simp only [W.fdeEvent, hB, W.event, List.append_nil, List.length_nil, Nat.add_zero] at hfmt ⊢
  refine ⟨?_, ?_, ?_⟩
  · exact isValid_hdr _ _ _ _ _ _ _ rfl (by rw [hbl]; decide)
  · rw [hdr_typ]; rfl
  · rw [← hfmt]
    exact format_hdr_irrel _ _ _ (header_length ..) (header_length ..)

end C01
end GV
