import GV.Model.Rows
import GV.Spec.Events
import GV.Lemmas.Dec
/- helper lemmas for GV/Props/C16.lean -/
namespace GV
namespace C16
open Bytes M

/-! ### reads behind a prefix -/

theorem sliceFrom_append (h b : Bytes) (n : Nat) (hn : h.length = n) : Bytes.sliceFrom (h ++ b) n = .ok b := by
  subst hn; simp [Bytes.sliceFrom]

theorem get_append_right (h b : Bytes) (n i : Nat) (hn : h.length = n) :
    Bytes.get (h ++ b) (n + i) = Bytes.get b i := by
  subst hn; simp [Bytes.get, List.getElem?_append_right]

theorem get_append_right0 (h b : Bytes) (n : Nat) (hn : h.length = n) :
    Bytes.get (h ++ b) n = Bytes.get b 0 := by
  simpa using get_append_right h b n 0 hn

theorem slice_append_right (h b : Bytes) (n lo hi : Nat) (hn : h.length = n) :
    Bytes.slice (h ++ b) (n + lo) (n + hi) = Bytes.slice b lo hi := by
  subst hn
  unfold Bytes.slice
  have e : h.length + hi - (h.length + lo) = hi - lo := by omega
  by_cases c : lo ≤ hi ∧ hi ≤ b.length
  · have c' : h.length + lo ≤ h.length + hi ∧ h.length + hi ≤ (h ++ b).length := by simp; omega
    simp only [c, c', and_self, if_true, e]
    congr 2
    rw [List.drop_append]; simp
  · have c' : ¬ (h.length + lo ≤ h.length + hi ∧ h.length + hi ≤ (h ++ b).length) := by simp; omega
    simp only [c, c', if_false]

theorem readLE_append_right (h b : Bytes) (n pos w : Nat) (hn : h.length = n) :
    readLE (h ++ b) (n + pos) w = readLE b pos w := by
  unfold readLE
  rw [Nat.add_assoc, slice_append_right h b n pos (pos + w) hn]

theorem readLE_append_right0 (h b : Bytes) (n w : Nat) (hn : h.length = n) :
    readLE (h ++ b) n w = readLE b 0 w := by
  simpa using readLE_append_right h b n 0 w hn

theorem header_length (ts typ sid len next flags : Nat) : (W.header ts typ sid len next flags).length = 19 := by
  simp [W.header]

/-! ### header fields of a writer-produced event -/

theorem hdr_ts (ts typ sid len next flags : Nat) (rest : Bytes) :
    evTimestamp (W.header ts typ sid len next flags ++ rest) = .ok (ts % 256 ^ 4) := by
  unfold evTimestamp Bytes.sliceTo W.header
  simp [le_ofLE]

theorem hdr_typ (ts typ sid len next flags : Nat) (rest : Bytes) :
    evType (W.header ts typ sid len next flags ++ rest) = .ok (UInt8.ofNat typ).toNat := by
  unfold evType W.header
  simp only [List.append_assoc, List.cons_append, List.nil_append]
  have := get_mid (ofLE 4 ts) (UInt8.ofNat typ) (ofLE 4 sid ++ (ofLE 4 len ++ (ofLE 4 next ++ (ofLE 2 flags ++ rest))))
  simp only [ofLE_length] at this
  rw [this]; rfl

theorem hdr_sid (ts typ sid len next flags : Nat) (rest : Bytes) :
    evServerID (W.header ts typ sid len next flags ++ rest) = .ok (sid % 256 ^ 4) := by
  unfold evServerID W.header
  have := readLE_mid (ofLE 4 ts ++ [UInt8.ofNat typ]) (ofLE 4 len ++ (ofLE 4 next ++ (ofLE 2 flags ++ rest))) 4 sid
  simpa using this

theorem hdr_len (ts typ sid len next flags : Nat) (rest : Bytes) :
    evLength (W.header ts typ sid len next flags ++ rest) = .ok (len % 256 ^ 4) := by
  unfold evLength W.header
  have := readLE_mid (ofLE 4 ts ++ [UInt8.ofNat typ] ++ ofLE 4 sid) (ofLE 4 next ++ (ofLE 2 flags ++ rest)) 4 len
  simpa using this

theorem hdr_next (ts typ sid len next flags : Nat) (rest : Bytes) :
    evNextPosition (W.header ts typ sid len next flags ++ rest) = .ok (next % 256 ^ 4) := by
  unfold evNextPosition W.header
  have := readLE_mid (ofLE 4 ts ++ [UInt8.ofNat typ] ++ ofLE 4 sid ++ ofLE 4 len) (ofLE 2 flags ++ rest) 4 next
  simpa using this

theorem hdr_flags (ts typ sid len next flags : Nat) (rest : Bytes) :
    evFlags (W.header ts typ sid len next flags ++ rest) = .ok (flags % 256 ^ 2) := by
  unfold evFlags W.header
  have := readLE_mid (ofLE 4 ts ++ [UInt8.ofNat typ] ++ ofLE 4 sid ++ ofLE 4 len ++ ofLE 4 next) rest 2 flags
  simpa using this

theorem header_aux (m : W.EvMeta) (typ start : Nat) (body tail : Bytes)
    (h1 : m.ts < 2 ^ 32) (h2 : m.sid < 2 ^ 32) (h3 : m.flags < 2 ^ 16) (h4 : typ < 256)
    (h5 : 19 + body.length + tail.length < 2 ^ 32) (h6 : start + (19 + body.length + tail.length) < 2 ^ 32) :
    let ev := W.header m.ts typ m.sid (19 + body.length + tail.length) (start + (19 + body.length + tail.length)) m.flags
      ++ (body ++ tail)
    evTimestamp ev = .ok m.ts ∧ evType ev = .ok typ ∧ evServerID ev = .ok m.sid ∧
    evLength ev = .ok (19 + body.length + tail.length) ∧
    evNextPosition ev = .ok (start + (19 + body.length + tail.length)) ∧ evFlags ev = .ok m.flags ∧
    isValid ev = true := by
  simp only [Nat.reducePow] at *
  have hty : (UInt8.ofNat typ).toNat = typ := by
    rw [UInt8.toNat_ofNat']; omega
  have hlen := hdr_len m.ts typ m.sid (19 + body.length + tail.length) (start + (19 + body.length + tail.length)) m.flags
    (body ++ tail)
  rw [Nat.mod_eq_of_lt (by simpa using h5)] at hlen
  refine ⟨?_, ?_, ?_, hlen, ?_, ?_, ?_⟩
  · rw [hdr_ts, Nat.mod_eq_of_lt (by simpa using h1)]
  · rw [hdr_typ, hty]
  · rw [hdr_sid, Nat.mod_eq_of_lt (by simpa using h2)]
  · rw [hdr_next, Nat.mod_eq_of_lt (by simpa using h6)]
  · rw [hdr_flags, Nat.mod_eq_of_lt (by simpa using h3)]
  · unfold isValid
    rw [hlen]
    have hL : (W.header m.ts typ m.sid (19 + body.length + tail.length) (start + (19 + body.length + tail.length)) m.flags ++
        (body ++ tail)).length = 19 + body.length + tail.length := by
      simp [header_length]; omega
    rw [hL]
    have : u32 (19 + body.length + tail.length) = 19 + body.length + tail.length := by unfold u32; omega
    rw [this]
    have : ¬ (19 + body.length + tail.length < 19) := by omega
    simp [this]

theorem evType_append (h body : Bytes) (hl : h.length = 19) :
    evType (h ++ body) = (match h[4]? with | some x => .ok x.toNat | none => .panic) := by
  unfold evType Bytes.get
  rw [List.getElem?_append_left (by omega)]
  cases h[4]? <;> rfl

/-! ### the status-variable scan of QUERY -/

abbrev CS := Option (Nat × Nat × Nat)

theorem toNat_ofNat_lt (n : Nat) (h : n < 256) : (UInt8.ofNat n).toNat = n := by
  rw [UInt8.toNat_ofNat']; omega

/-- one iteration of the scan on a variable whose code byte is `code` -/
theorem scan_unfold (pre payload R : Bytes) (code f : Nat) (hc : code < 256) (cs : CS) :
    scanVars (pre ++ (UInt8.ofNat code :: (payload ++ R))) (f + 1) pre.length cs =
    (let vars := pre ++ (UInt8.ofNat code :: (payload ++ R))
     let pos := pre.length + 1
     if code = 0 ∨ code = 3 then scanVars vars f (pos + 4) cs
      else if code = 1 then scanVars vars f (pos + 8) cs
      else if code = 2 then
        if pos + 1 > vars.length then .err else do
          let l ← vars.get pos
          scanVars vars f (pos + 1 + l.toNat + 1) cs
      else if code = 6 then
        if pos + 1 > vars.length then .err else do
          let l ← vars.get pos
          scanVars vars f (pos + 1 + l.toNat) cs
      else if code = 4 then
        if pos + 6 > vars.length then .err else do
          let a ← readLE vars pos 2
          let b ← readLE vars (pos + 2) 2
          let c ← readLE vars (pos + 4) 2
          scanVars vars f (pos + 6) (some (a, b, c))
      else .ok cs) := by
  rw [scanVars]
  have hlt : pre.length < (pre ++ (UInt8.ofNat code :: (payload ++ R))).length := by simp
  simp only [hlt, if_true, get_mid, Res.ok_bind, toNat_ofNat_lt code hc]

/-- a status variable the decoder knows how to skip (same shape as `Props.C16.KnownVar`) -/
def Known (v : W.StatusVar) : Prop :=
  ((v.code = 0 ∨ v.code = 3) ∧ v.payload.length = 4) ∨ (v.code = 1 ∧ v.payload.length = 8) ∨
  (v.code = 2 ∧ ∃ s : Bytes, s.length < 256 ∧ v.payload = UInt8.ofNat s.length :: (s ++ [0])) ∨
  (v.code = 6 ∧ ∃ s : Bytes, s.length < 256 ∧ v.payload = UInt8.ofNat s.length :: s) ∨
  (v.code = 4 ∧ v.payload.length = 6)

def csOf (v : W.StatusVar) : Nat × Nat × Nat :=
  (Bytes.le (v.payload.take 2), Bytes.le ((v.payload.drop 2).take 2), Bytes.le ((v.payload.drop 4).take 2))

/-- what the loop has in `cs` after scanning the variables, starting from `acc` -/
def csAcc (acc : CS) : List W.StatusVar → CS
  | [] => acc
  | v :: vs => csAcc (if v.code = 4 then some (csOf v) else acc) vs

theorem readLE_two (pre : Bytes) (x y : UInt8) (R : Bytes) :
    readLE (pre ++ (x :: y :: R)) pre.length 2 = .ok (Bytes.le [x, y]) := by
  unfold readLE
  have := slice_mid pre [x, y] R
  simp only [List.cons_append, List.nil_append, List.length_cons, List.length_nil] at this
  rw [this]; rfl

/-- one known variable is consumed by one iteration -/
theorem scan_one (pre R : Bytes) (v : W.StatusVar) (hv : Known v) (f : Nat) (cs : CS) :
    scanVars (pre ++ (W.statusVarBytes v ++ R)) (f + 1) pre.length cs =
    scanVars (pre ++ (W.statusVarBytes v ++ R)) f (pre.length + (W.statusVarBytes v).length)
      (if v.code = 4 then some (csOf v) else cs) := by
  obtain ⟨code, payload⟩ := v
  simp only [W.statusVarBytes, List.cons_append, List.length_cons]
  rcases hv with ⟨h, hl⟩ | ⟨h, hl⟩ | ⟨h, s, hs, hp⟩ | ⟨h, s, hs, hp⟩ | ⟨h, hl⟩
  · simp only at h hl
    rw [scan_unfold _ _ _ _ _ (by omega)]
    have h4 : code ≠ 4 := by omega
    simp only [h, if_true, h4, if_false, hl]
  · simp only at h hl
    subst h
    rw [scan_unfold _ _ _ _ _ (by omega)]
    simp [hl]
  · simp only at h hp
    subst h hp
    rw [scan_unfold _ _ _ _ _ (by omega)]
    have hg : Bytes.get (pre ++ (UInt8.ofNat 2 :: ((UInt8.ofNat s.length :: (s ++ [0])) ++ R))) (pre.length + 1)
        = .ok (UInt8.ofNat s.length) := by
      have := get_mid (pre ++ [UInt8.ofNat 2]) (UInt8.ofNat s.length) ((s ++ [0]) ++ R)
      simpa using this
    have hgd : ¬ (pre.length + 1 + 1 > (pre ++ (UInt8.ofNat 2 :: ((UInt8.ofNat s.length :: (s ++ [0])) ++ R))).length) := by
      simp; omega
    simp only [hgd, hg, toNat_ofNat_lt _ hs, Res.ok_bind]
    simp
    congr 1; omega
  · simp only at h hp
    subst h hp
    rw [scan_unfold _ _ _ _ _ (by omega)]
    have hg : Bytes.get (pre ++ (UInt8.ofNat 6 :: ((UInt8.ofNat s.length :: s) ++ R))) (pre.length + 1)
        = .ok (UInt8.ofNat s.length) := by
      have := get_mid (pre ++ [UInt8.ofNat 6]) (UInt8.ofNat s.length) (s ++ R)
      simpa using this
    have hgd : ¬ (pre.length + 1 + 1 > (pre ++ (UInt8.ofNat 6 :: ((UInt8.ofNat s.length :: s) ++ R))).length) := by
      simp; omega
    simp only [hgd, hg, toNat_ofNat_lt _ hs, Res.ok_bind]
    simp
    congr 1; omega
  · simp only at h hl
    subst h
    match payload, hl with
    | [a, b, c, d, e, g], _ =>
      rw [scan_unfold _ _ _ _ _ (by omega)]
      have e1 : readLE (pre ++ (UInt8.ofNat 4 :: ([a, b, c, d, e, g] ++ R))) (pre.length + 1) 2 = .ok (Bytes.le [a, b]) := by
        have := readLE_two (pre ++ [UInt8.ofNat 4]) a b (c :: d :: e :: g :: R)
        simpa using this
      have e2 : readLE (pre ++ (UInt8.ofNat 4 :: ([a, b, c, d, e, g] ++ R))) (pre.length + 1 + 2) 2 = .ok (Bytes.le [c, d]) := by
        have := readLE_two (pre ++ [UInt8.ofNat 4, a, b]) c d (e :: g :: R)
        simpa using this
      have e3 : readLE (pre ++ (UInt8.ofNat 4 :: ([a, b, c, d, e, g] ++ R))) (pre.length + 1 + 4) 2 = .ok (Bytes.le [e, g]) := by
        have := readLE_two (pre ++ [UInt8.ofNat 4, a, b, c, d]) e g R
        simpa using this
      have hgd : ¬ (pre.length + 1 + 6 > (pre ++ (UInt8.ofNat 4 :: ([a, b, c, d, e, g] ++ R))).length) := by
        simp; omega
      simp only [hgd, e1, e2, e3, Res.ok_bind]
      simp [csOf]

/-- where the scan stops: end of the variables, or a code byte outside {0,1,2,3,4,6} -/
def Stops (t : Bytes) : Prop :=
  t = [] ∨ ∃ c rest, t = c :: rest ∧ c.toNat ≠ 0 ∧ c.toNat ≠ 1 ∧ c.toNat ≠ 2 ∧ c.toNat ≠ 3 ∧ c.toNat ≠ 4 ∧ c.toNat ≠ 6

theorem scan_stop (pre t : Bytes) (ht : Stops t) (f : Nat) (cs : CS) :
    scanVars (pre ++ t) (f + 1) pre.length cs = .ok cs := by
  rw [scanVars]
  rcases ht with rfl | ⟨c, rest, rfl, h0, h1, h2, h3, h4, h6⟩
  · simp
  · have hlt : pre.length < (pre ++ c :: rest).length := by simp
    simp only [hlt, if_true, get_mid, Res.ok_bind]
    simp [h0, h1, h2, h3, h4, h6]

theorem scan_known (known : List W.StatusVar) (hk : ∀ v ∈ known, Known v) (t : Bytes) (ht : Stops t)
    (pre : Bytes) (cs : CS) (fuel : Nat) (hf : known.length + 1 ≤ fuel) :
    scanVars (pre ++ (known.flatMap W.statusVarBytes ++ t)) fuel pre.length cs = .ok (csAcc cs known) := by
  induction known generalizing pre cs fuel with
  | nil =>
    obtain ⟨f, rfl⟩ : ∃ f, fuel = f + 1 := ⟨fuel - 1, by omega⟩
    simpa [csAcc] using scan_stop pre t ht f cs
  | cons v vs ih =>
    obtain ⟨f, rfl⟩ : ∃ f, fuel = f + 1 := ⟨fuel - 1, by omega⟩
    simp only [List.flatMap_cons, List.append_assoc, csAcc]
    rw [scan_one pre _ v (hk v (by simp)) f cs]
    have := ih (fun w hw => hk w (by simp [hw])) (pre ++ W.statusVarBytes v)
      (if v.code = 4 then some (csOf v) else cs) f (by simp at hf; omega)
    simpa using this

theorem length_le_flatMap (l : List W.StatusVar) : l.length ≤ (l.flatMap W.statusVarBytes).length := by
  induction l with
  | nil => simp
  | cons v vs ih => simp [W.statusVarBytes] at *; omega

/-- everything in `query` except the status-variable scan -/
theorem query_frame (f : Format) (hf : f.headerLength = 19) (hdr : Bytes) (hh : hdr.length = 19)
    (thread exec err : Nat) (vb db sql : Bytes) (hvb : vb.length < 65536) (hdb : db.length < 256) :
    query f (hdr ++ (ofLE 4 thread ++ (ofLE 4 exec ++ (UInt8.ofNat db.length :: (ofLE 2 err ++ (ofLE 2 vb.length ++
      (vb ++ (db ++ (0 :: sql)))))))))
    = (do let cs ← scanVars vb (vb.length + 1) 0 none
          pure { database := db, charset := cs, sql := sql }) := by
  unfold query
  rw [hf, sliceFrom_append _ _ _ hh]
  simp only [Res.ok_bind]
  generalize hD : (ofLE 4 thread ++ (ofLE 4 exec ++ (UInt8.ofNat db.length :: (ofLE 2 err ++ (ofLE 2 vb.length ++
      (vb ++ (db ++ (0 :: sql)))))))) = D
  have g8 : D.get 8 = .ok (UInt8.ofNat db.length) := by
    have := get_mid (ofLE 4 thread ++ ofLE 4 exec) (UInt8.ofNat db.length) (ofLE 2 err ++ (ofLE 2 vb.length ++ (vb ++ (db ++ (0 :: sql)))))
    rw [← hD]; simpa using this
  have r11 : readLE D 11 2 = .ok vb.length := by
    have := readLE_mid (ofLE 4 thread ++ (ofLE 4 exec ++ (UInt8.ofNat db.length :: ofLE 2 err))) (vb ++ (db ++ (0 :: sql))) 2 vb.length
    rw [Nat.mod_eq_of_lt (by simpa using hvb)] at this
    rw [← hD]; simpa using this
  have hL : D.length = 13 + vb.length + db.length + 1 + sql.length := by
    rw [← hD]; simp; omega
  have sdb : D.slice (13 + vb.length) (13 + vb.length + db.length) = .ok db := by
    have := slice_mid' (ofLE 4 thread ++ (ofLE 4 exec ++ (UInt8.ofNat db.length :: (ofLE 2 err ++ (ofLE 2 vb.length ++ vb))))) db (0 :: sql)
      (13 + vb.length) (13 + vb.length + db.length) (by simp; omega) (by simp; omega)
    rw [← hD]; simpa using this
  have ssql : D.sliceFrom (13 + vb.length + db.length + 1) = .ok sql := by
    have := sliceFrom_append (ofLE 4 thread ++ (ofLE 4 exec ++ (UInt8.ofNat db.length :: (ofLE 2 err ++ (ofLE 2 vb.length ++ (vb ++ (db ++ [0]))))))) sql
      (13 + vb.length + db.length + 1) (by simp; omega)
    rw [← hD]; simpa using this
  have svb : D.slice 13 (13 + vb.length) = .ok vb := by
    have := slice_mid' (ofLE 4 thread ++ (ofLE 4 exec ++ (UInt8.ofNat db.length :: (ofLE 2 err ++ ofLE 2 vb.length)))) vb (db ++ (0 :: sql))
      13 (13 + vb.length) (by simp) (by simp)
    rw [← hD]; simpa using this
  have hgd : ¬ (13 + vb.length + db.length + 1 > D.length) := by omega
  simp only [g8, r11, Res.ok_bind, toNat_ofNat_lt _ hdb, hgd, if_false, sdb, ssql, svb]


/-! ### FORMAT_DESCRIPTION helpers -/

theorem dropWhile_replicate_zero (n : Nat) (l : Bytes) :
    (List.replicate n (0 : UInt8) ++ l).dropWhile (· == 0) = l.dropWhile (· == 0) := by
  induction n with
  | zero => rfl
  | succ n ih => simp [List.replicate_succ, ih]

theorem trim_pad (sv : Bytes) (n : Nat) (hz : sv.getLast? ≠ some 0) :
    trimRightZeros (sv ++ List.replicate n 0) = sv := by
  unfold trimRightZeros
  rw [List.reverse_append, List.reverse_replicate, dropWhile_replicate_zero]
  have : sv.reverse.dropWhile (· == 0) = sv.reverse := by
    cases hr : sv.reverse with
    | nil => rfl
    | cons x xs =>
      have : sv.getLast? = some x := by
        rw [← List.head?_reverse, hr]; rfl
      have hx : x ≠ 0 := by
        intro h; apply hz; rw [this, h]
      have hb : (x == 0) = false := by simpa using hx
      rw [List.dropWhile_cons, hb]; rfl
  rw [this, List.reverse_reverse]

theorem padTo_length (sv : Bytes) (h : sv.length ≤ 50) : (W.padTo 50 sv).length = 50 := by
  simp [W.padTo]; omega

end C16
end GV
