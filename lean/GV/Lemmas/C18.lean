import GV.Model.Gtid
/- helper lemmas for GV/Props/C18.lean -/
set_option linter.unusedSimpArgs false
namespace GV.L18
open GV GV.M

/-! ### `Iv` has a lawful `BEq` -/

theorem iv_beq (a b : Iv) : (a == b) = (a.start == b.start && a.stop == b.stop) := by
  cases a; cases b; rfl

instance : LawfulBEq Iv where
  eq_of_beq := by
    intro a b h; rw [iv_beq] at h; cases a; cases b; simp_all
  rfl := by intro a; rw [iv_beq]; simp

/-! ### interval lists -/

/-- the integers an interval list denotes -/
def memIvs (l : List Iv) (n : Int) : Prop := ∃ iv ∈ l, iv.start ≤ n ∧ n ≤ iv.stop

/-- canonical interval list, pairwise form -/
def CanonP (l : List Iv) : Prop :=
  (∀ iv ∈ l, 1 ≤ iv.start ∧ iv.start ≤ iv.stop) ∧ l.Pairwise (fun a b => a.stop + 2 ≤ b.start)

theorem memIvs_nil (n : Int) : memIvs [] n ↔ False := by simp [memIvs]

theorem memIvs_cons (a : Iv) (l : List Iv) (n : Int) :
    memIvs (a :: l) n ↔ (a.start ≤ n ∧ n ≤ a.stop) ∨ memIvs l n := by simp [memIvs]

theorem memIvs_append (l₁ l₂ : List Iv) (n : Int) :
    memIvs (l₁ ++ l₂) n ↔ memIvs l₁ n ∨ memIvs l₂ n := by
  simp only [memIvs, List.mem_append]
  constructor
  · rintro ⟨iv, h | h, hh⟩
    · exact Or.inl ⟨iv, h, hh⟩
    · exact Or.inr ⟨iv, h, hh⟩
  · rintro (⟨iv, h, hh⟩ | ⟨iv, h, hh⟩)
    · exact ⟨iv, Or.inl h, hh⟩
    · exact ⟨iv, Or.inr h, hh⟩

theorem canonP_nil : CanonP [] := ⟨by simp, List.Pairwise.nil⟩

theorem canonP_cons (a : Iv) (l : List Iv) :
    CanonP (a :: l) ↔ (1 ≤ a.start ∧ a.start ≤ a.stop) ∧ (∀ b ∈ l, a.stop + 2 ≤ b.start) ∧ CanonP l := by
  simp only [CanonP, List.mem_cons, List.pairwise_cons, forall_eq_or_imp]
  constructor
  · rintro ⟨⟨h1, h2⟩, h3, h4⟩; exact ⟨h1, h3, h2, h4⟩
  · rintro ⟨h1, h3, h2, h4⟩; exact ⟨⟨h1, h2⟩, h3, h4⟩

/-- everything a canonical list denotes lies at or above the first start -/
theorem memIvs_ge_head {a : Iv} {l : List Iv} (hc : CanonP (a :: l)) {n : Int} (h : memIvs (a :: l) n) :
    a.start ≤ n := by
  rw [canonP_cons] at hc
  rw [memIvs_cons] at h
  rcases h with h | ⟨b, hb, h1, _⟩
  · exact h.1
  · have := hc.2.1 b hb; omega

theorem memIvs_tail_ge {a : Iv} {l : List Iv} (hc : CanonP (a :: l)) {n : Int} (h : memIvs l n) :
    a.stop + 2 ≤ n := by
  rw [canonP_cons] at hc
  obtain ⟨b, hb, h1, _⟩ := h
  have := hc.2.1 b hb; omega

theorem containsGtidIvs_iff (n : Int) (l : List Iv) (hc : CanonP l) :
    containsGtidIvs n l = true ↔ memIvs l n := by
  induction l with
  | nil => simp [containsGtidIvs, memIvs_nil]
  | cons a r ih =>
    have hc' := (canonP_cons a r).1 hc
    unfold containsGtidIvs
    by_cases h1 : a.start > n
    · simp only [h1, if_true]
      constructor
      · intro h; cases h
      · intro h; have := memIvs_ge_head hc h; omega
    · simp only [h1, if_false]
      by_cases h2 : n ≤ a.stop
      · simp only [h2, if_true, true_iff]
        rw [memIvs_cons]; left; omega
      · simp only [h2, if_false]
        rw [ih hc'.2.2, memIvs_cons]
        constructor
        · intro h; exact Or.inr h
        · rintro (h | h)
          · omega
          · exact h

/-! ### Contains on interval lists -/

/-- an interval lying in the union of a canonical list lies inside one of its intervals -/
theorem iv_in_one (mine : List Iv) (hc : CanonP mine) (o : Iv) (ho : o.start ≤ o.stop)
    (h : ∀ n, o.start ≤ n → n ≤ o.stop → memIvs mine n) :
    ∃ m ∈ mine, m.start ≤ o.start ∧ o.stop ≤ m.stop := by
  induction mine with
  | nil => exact absurd (h o.start (Int.le_refl _) ho) (by simp [memIvs_nil])
  | cons a r ih =>
    have hc' := (canonP_cons a r).1 hc
    have h0 := h o.start (Int.le_refl _) ho
    rw [memIvs_cons] at h0
    rcases h0 with h0 | h0
    · refine ⟨a, List.mem_cons_self, h0.1, ?_⟩
      by_cases hle : o.stop ≤ a.stop
      · exact hle
      · exfalso
        have h1 := h (a.stop + 1) (by omega) (by omega)
        rw [memIvs_cons] at h1
        rcases h1 with h1 | h1
        · omega
        · have := memIvs_tail_ge hc h1; omega
    · have hge := memIvs_tail_ge hc h0
      have : ∃ m ∈ r, m.start ≤ o.start ∧ o.stop ≤ m.stop := by
        apply ih hc'.2.2
        intro n hn1 hn2
        have h1 := h n hn1 hn2
        rw [memIvs_cons] at h1
        rcases h1 with h1 | h1
        · omega
        · exact h1
      obtain ⟨m, hm, hh⟩ := this
      exact ⟨m, List.mem_cons_of_mem _ hm, hh⟩

theorem subset_iff_cover (mine other : List Iv) (hm : CanonP mine) (ho : CanonP other) :
    (∀ n, memIvs other n → memIvs mine n) ↔
      ∀ o ∈ other, ∃ m ∈ mine, m.start ≤ o.start ∧ o.stop ≤ m.stop := by
  constructor
  · intro h o hoo
    apply iv_in_one mine hm o (ho.1 o hoo).2
    intro n h1 h2
    exact h n ⟨o, hoo, h1, h2⟩
  · rintro h n ⟨o, hoo, h1, h2⟩
    obtain ⟨m, hmm, h3, h4⟩ := h o hoo
    exact ⟨m, hmm, by omega, by omega⟩

theorem containsIvs_iff_cover (mine other : List Iv) (hm : CanonP mine) (ho : CanonP other) :
    containsIvs mine other = true ↔
      ∀ o ∈ other, ∃ m ∈ mine, m.start ≤ o.start ∧ o.stop ≤ m.stop := by
  induction h : mine.length + other.length using Nat.strongRecOn generalizing mine other with
  | _ k ih =>
    match mine, other with
    | _, [] => unfold containsIvs; simp
    | [], o :: os =>
      unfold containsIvs
      constructor
      · intro hh; cases hh
      · intro hh; obtain ⟨x, hx, _⟩ := hh o List.mem_cons_self; cases hx
    | m :: ms, o :: os =>
      have hm' := (canonP_cons m ms).1 hm
      have ho' := (canonP_cons o os).1 ho
      unfold containsIvs
      by_cases hcont : m.contains o = true
      · rw [if_pos hcont]
        rw [ih ((m :: ms).length + os.length) (by subst h; simp) (m :: ms) os hm ho'.2.2 rfl]
        simp only [Iv.contains, Bool.and_eq_true, decide_eq_true_eq] at hcont
        constructor
        · intro hh x hx
          rcases List.mem_cons.1 hx with rfl | hx
          · exact ⟨m, List.mem_cons_self, hcont⟩
          · exact hh x hx
        · intro hh x hx
          exact hh x (List.mem_cons_of_mem _ hx)
      · rw [if_neg hcont]
        rw [ih (ms.length + (o :: os).length) (by subst h; simp only [List.length_cons]; omega) ms (o :: os) hm'.2.2 ho rfl]
        simp only [Iv.contains, Bool.and_eq_true, decide_eq_true_eq] at hcont
        constructor
        · intro hh x hx
          obtain ⟨y, hy, h1⟩ := hh x hx
          exact ⟨y, List.mem_cons_of_mem _ hy, h1⟩
        · intro hh
          -- o is covered by some m' ∈ ms
          obtain ⟨m', hm'mem, h1, h2⟩ := hh o List.mem_cons_self
          rcases List.mem_cons.1 hm'mem with rfl | hm'ms
          · exact absurd ⟨h1, h2⟩ hcont
          · clear hm'mem
            intro x hx
            rcases List.mem_cons.1 hx with rfl | hx
            · exact ⟨m', hm'ms, h1, h2⟩
            · obtain ⟨y, hy, h3, h4⟩ := hh x (List.mem_cons_of_mem _ hx)
              rcases List.mem_cons.1 hy with rfl | hy
              · exfalso
                have a1 := hm'.2.1 m' hm'ms
                have a2 := ho'.2.1 x hx
                have a3 := (ho.1 x (List.mem_cons_of_mem _ hx)).2
                have a4 := ho'.1.2
                omega
              · exact ⟨y, hy, h3, h4⟩

theorem containsIvs_iff (mine other : List Iv) (hm : CanonP mine) (ho : CanonP other) :
    containsIvs mine other = true ↔ ∀ n, memIvs other n → memIvs mine n := by
  rw [containsIvs_iff_cover mine other hm ho, subset_iff_cover mine other hm ho]

/-! ### canonical lists are determined by what they denote -/

theorem stop_le_of_subset {a b : Iv} {r₁ r₂ : List Iv} (h₁ : CanonP (a :: r₁)) (h₂ : CanonP (b :: r₂))
    (e : a.start = b.start) (h : ∀ n, memIvs (a :: r₁) n → memIvs (b :: r₂) n) : a.stop ≤ b.stop := by
  have ha := (canonP_cons a r₁).1 h₁
  have hb := (canonP_cons b r₂).1 h₂
  by_cases hle : a.stop ≤ b.stop
  · exact hle
  · exfalso
    have h1 := h (b.stop + 1) ((memIvs_cons ..).2 (Or.inl ⟨by omega, by omega⟩))
    rw [memIvs_cons] at h1
    rcases h1 with h1 | h1
    · omega
    · have := memIvs_tail_ge h₂ h1; omega

theorem canonP_ext (l₁ l₂ : List Iv) (h₁ : CanonP l₁) (h₂ : CanonP l₂)
    (h : ∀ n, memIvs l₁ n ↔ memIvs l₂ n) : l₁ = l₂ := by
  induction l₁ generalizing l₂ with
  | nil =>
    cases l₂ with
    | nil => rfl
    | cons b r =>
      exfalso
      have hb := (canonP_cons b r).1 h₂
      have := (h b.start).2 ((memIvs_cons ..).2 (Or.inl ⟨Int.le_refl _, hb.1.2⟩))
      exact (memIvs_nil _).1 this
  | cons a r₁ ih =>
    cases l₂ with
    | nil =>
      exfalso
      have ha := (canonP_cons a r₁).1 h₁
      have := (h a.start).1 ((memIvs_cons ..).2 (Or.inl ⟨Int.le_refl _, ha.1.2⟩))
      exact (memIvs_nil _).1 this
    | cons b r₂ =>
      have ha := (canonP_cons a r₁).1 h₁
      have hb := (canonP_cons b r₂).1 h₂
      have e1 : a.start = b.start := by
        have x1 := memIvs_ge_head h₂ ((h a.start).1 ((memIvs_cons ..).2 (Or.inl ⟨Int.le_refl _, ha.1.2⟩)))
        have x2 := memIvs_ge_head h₁ ((h b.start).2 ((memIvs_cons ..).2 (Or.inl ⟨Int.le_refl _, hb.1.2⟩)))
        omega
      have e2 : a.stop = b.stop := by
        have x1 := stop_le_of_subset h₁ h₂ e1 (fun n => (h n).1)
        have x2 := stop_le_of_subset h₂ h₁ e1.symm (fun n => (h n).2)
        omega
      have e : a = b := by cases a; cases b; simp_all
      subst e
      congr 1
      apply ih r₂ ha.2.2 hb.2.2
      intro n
      constructor
      · intro hn
        have h1 := (h n).1 ((memIvs_cons ..).2 (Or.inr hn))
        rw [memIvs_cons] at h1
        rcases h1 with h1 | h1
        · have := memIvs_tail_ge h₁ hn; omega
        · exact h1
      · intro hn
        have h1 := (h n).2 ((memIvs_cons ..).2 (Or.inr hn))
        rw [memIvs_cons] at h1
        rcases h1 with h1 | h1
        · have := memIvs_tail_ge h₂ hn; omega
        · exact h1

/-! ### the AddGTID loop -/

/-- clean recursive description of what the loop of AddGTID computes (on a canonical list not containing `g`) -/
def insP (g : Int) : List Iv → List Iv × Bool
  | [] => ([], false)
  | iv :: rest =>
    if g = iv.start - 1 then (⟨g, iv.stop⟩ :: rest, true)
    else if g = iv.stop + 1 then
      match rest with
      | [] => ([⟨iv.start, g⟩], true)
      | iv' :: rest' =>
        if iv'.start = g + 1 then (⟨iv.start, iv'.stop⟩ :: rest', true)
        else (⟨iv.start, g⟩ :: iv' :: rest', true)
    else if g < iv.start - 1 then (⟨g, g⟩ :: iv :: rest, true)
    else (iv :: (insP g rest).1, (insP g rest).2)

/-- once `added` is set the loop only copies (no merge can fire on a canonical remainder) -/
theorem addIvs_true (g : Int) (rest : List Iv) (acc : List Iv) (last : Iv)
    (hr : CanonP rest) (hl : ∀ b ∈ rest, last.stop + 2 ≤ b.start) :
    addIvs g rest (acc ++ [last]) true = (acc ++ [last] ++ rest, true) := by
  induction rest generalizing acc last with
  | nil => simp [addIvs]
  | cons iv r ih =>
    have hr' := (canonP_cons iv r).1 hr
    have h1 := hl iv List.mem_cons_self
    have hne : ¬ (iv.start = last.stop + 1) := by omega
    unfold addIvs
    simp only [if_true, List.getLast?_concat, hne, if_false]
    rw [ih (acc ++ [last]) iv hr'.2.2 hr'.2.1]
    simp

/-- the merge-with-previous tail of one loop iteration -/
def mergeStep (g : Int) (r : List Iv) (iv : Iv) (acc : List Iv) (added : Bool) : List Iv × Bool :=
  match acc.getLast? with
  | some last =>
    if iv.start = last.stop + 1 then addIvs g r (acc.dropLast ++ [{ last with stop := iv.stop }]) added
    else addIvs g r (acc ++ [iv]) added
  | none => addIvs g r (acc ++ [iv]) added

theorem addIvs_cons_true (g : Int) (iv : Iv) (r acc : List Iv) :
    addIvs g (iv :: r) acc true = mergeStep g r iv acc true := by
  rw [addIvs]; rfl

theorem addIvs_cons_false (g : Int) (iv : Iv) (r acc : List Iv) :
    addIvs g (iv :: r) acc false =
      if g = iv.start - 1 then mergeStep g r ⟨g, iv.stop⟩ acc true
      else if g = iv.stop + 1 then mergeStep g r ⟨iv.start, g⟩ acc true
      else if g < iv.start - 1 then mergeStep g r iv (acc ++ [⟨g, g⟩]) true
      else mergeStep g r iv acc false := by
  rw [addIvs]
  simp only [Bool.false_eq_true, if_false]
  by_cases c1 : g = iv.start - 1
  · simp only [if_pos c1]; rfl
  · by_cases c2 : g = iv.stop + 1
    · simp only [if_neg c1, if_pos c2]; rfl
    · by_cases c3 : g < iv.start - 1
      · simp only [if_neg c1, if_neg c2, if_pos c3]; rfl
      · simp only [if_neg c1, if_neg c2, if_neg c3]; rfl

theorem mergeStep_nomerge (g : Int) (r : List Iv) (iv : Iv) (acc : List Iv) (added : Bool)
    (h : ∀ last, acc.getLast? = some last → ¬ (iv.start = last.stop + 1)) :
    mergeStep g r iv acc added = addIvs g r (acc ++ [iv]) added := by
  unfold mergeStep
  cases hl : acc.getLast? with
  | none => rfl
  | some last => simp only [h last hl, if_false]

theorem mergeStep_merge (g : Int) (r : List Iv) (iv : Iv) (acc : List Iv) (last : Iv) (added : Bool)
    (h : iv.start = last.stop + 1) :
    mergeStep g r iv (acc ++ [last]) added = addIvs g r (acc ++ [⟨last.start, iv.stop⟩]) added := by
  unfold mergeStep
  simp only [List.getLast?_concat, h, if_true, List.dropLast_concat]

/-- the loop of AddGTID computes `insP` (appended to what was accumulated) -/
theorem addIvs_false (g : Int) (rest acc : List Iv) (hr : CanonP rest) (hg : ¬ memIvs rest g)
    (hacc : ∀ last, acc.getLast? = some last → last.stop + 2 ≤ g ∧ ∀ b ∈ rest, last.stop + 2 ≤ b.start) :
    addIvs g rest acc false = (acc ++ (insP g rest).1, (insP g rest).2) := by
  induction rest generalizing acc with
  | nil => simp [addIvs, insP]
  | cons iv r ih =>
    have hr' := (canonP_cons iv r).1 hr
    have hgiv : ¬ (iv.start ≤ g ∧ g ≤ iv.stop) := fun h => hg ((memIvs_cons ..).2 (Or.inl h))
    have hgr : ¬ memIvs r g := fun h => hg ((memIvs_cons ..).2 (Or.inr h))
    rw [addIvs_cons_false]
    unfold insP
    by_cases c1 : g = iv.start - 1
    · simp only [if_pos c1]
      rw [mergeStep_nomerge, addIvs_true g r acc ⟨g, iv.stop⟩ hr'.2.2 hr'.2.1]
      · simp
      · intro last hl; have := (hacc last hl).1; simp only; omega
    · simp only [if_neg c1]
      by_cases c2 : g = iv.stop + 1
      · simp only [if_pos c2]
        rw [mergeStep_nomerge]
        · cases r with
          | nil => simp [addIvs]
          | cons iv' r' =>
            have hr'' := (canonP_cons iv' r').1 hr'.2.2
            rw [addIvs_cons_true]
            by_cases c4 : iv'.start = g + 1
            · simp only [if_pos c4]
              rw [mergeStep_merge _ _ _ _ _ _ (by simp only; omega),
                addIvs_true g r' acc ⟨iv.start, iv'.stop⟩ hr''.2.2 hr''.2.1]
              simp
            · simp only [if_neg c4]
              rw [mergeStep_nomerge, addIvs_true g r' (acc ++ [(⟨iv.start, g⟩ : Iv)]) iv' hr''.2.2 hr''.2.1]
              · simp
              · intro last hl
                rw [List.getLast?_concat] at hl
                cases hl
                simp only; omega
        · intro last hl; have := (hacc last hl).2 iv List.mem_cons_self; simp only; omega
      · simp only [if_neg c2]
        by_cases c3 : g < iv.start - 1
        · simp only [if_pos c3]
          rw [mergeStep_nomerge, addIvs_true g r (acc ++ [(⟨g, g⟩ : Iv)]) iv hr'.2.2 hr'.2.1]
          · simp
          · intro last hl
            rw [List.getLast?_concat] at hl
            cases hl
            simp only; omega
        · simp only [if_neg c3]
          rw [mergeStep_nomerge, ih (acc ++ [iv]) hr'.2.2 hgr]
          · simp
          · intro last hl
            rw [List.getLast?_concat] at hl
            cases hl
            exact ⟨by omega, hr'.2.1⟩
          · intro last hl; have := (hacc last hl).2 iv List.mem_cons_self; omega

theorem insP_spec (g : Int) (l : List Iv) (hc : CanonP l) (h1 : 1 ≤ g) (hg : ¬ memIvs l g) :
    ((insP g l).2 = true → CanonP (insP g l).1 ∧ ∀ n, memIvs (insP g l).1 n ↔ (memIvs l n ∨ n = g)) ∧
    ((insP g l).2 = false → (insP g l).1 = l ∧ ∀ b ∈ l, b.stop + 2 ≤ g) := by
  induction l with
  | nil => simp [insP]
  | cons iv r ih =>
    have hc' := (canonP_cons iv r).1 hc
    have hgiv : ¬ (iv.start ≤ g ∧ g ≤ iv.stop) := fun h => hg ((memIvs_cons ..).2 (Or.inl h))
    have hgr : ¬ memIvs r g := fun h => hg ((memIvs_cons ..).2 (Or.inr h))
    unfold insP
    by_cases c1 : g = iv.start - 1
    · simp only [if_pos c1]
      refine ⟨fun _ => ⟨?_, ?_⟩, fun h => absurd h (by simp)⟩
      · rw [canonP_cons]
        exact ⟨⟨h1, by simp only; omega⟩, hc'.2.1, hc'.2.2⟩
      · intro n
        rw [memIvs_cons, memIvs_cons]
        by_cases hM : memIvs r n <;> simp only [hM, or_true, true_or, or_false, false_or, iff_self] <;> omega
    · simp only [if_neg c1]
      by_cases c2 : g = iv.stop + 1
      · simp only [if_pos c2]
        cases r with
        | nil =>
          refine ⟨fun _ => ⟨?_, ?_⟩, fun h => absurd h (by simp)⟩
          · rw [canonP_cons]
            exact ⟨⟨hc'.1.1, by simp only; omega⟩, by simp, canonP_nil⟩
          · intro n
            simp only [memIvs_cons, memIvs_nil, or_false]
            omega
        | cons iv' r' =>
          have hc'' := (canonP_cons iv' r').1 hc'.2.2
          have hii := hc'.2.1 iv' List.mem_cons_self
          by_cases c4 : iv'.start = g + 1
          · simp only [if_pos c4]
            refine ⟨fun _ => ⟨?_, ?_⟩, fun h => absurd h (by simp)⟩
            · rw [canonP_cons]
              exact ⟨⟨hc'.1.1, by simp only; omega⟩, hc''.2.1, hc''.2.2⟩
            · intro n
              rw [memIvs_cons, memIvs_cons, memIvs_cons]
              by_cases hM : memIvs r' n <;> simp only [hM, or_true, true_or, or_false, false_or, iff_self] <;> omega
          · simp only [if_neg c4]
            refine ⟨fun _ => ⟨?_, ?_⟩, fun h => absurd h (by simp)⟩
            · rw [canonP_cons]
              refine ⟨⟨hc'.1.1, by simp only; omega⟩, ?_, hc'.2.2⟩
              intro b hb
              rcases List.mem_cons.1 hb with rfl | hb
              · simp only; omega
              · have := hc''.2.1 b hb; simp only; omega
            · intro n
              rw [memIvs_cons, memIvs_cons (a := iv)]
              by_cases hM : memIvs (iv' :: r') n <;> simp only [hM, or_true, true_or, or_false, false_or, iff_self] <;> omega
      · simp only [if_neg c2]
        by_cases c3 : g < iv.start - 1
        · simp only [if_pos c3]
          refine ⟨fun _ => ⟨?_, ?_⟩, fun h => absurd h (by simp)⟩
          · rw [canonP_cons]
            refine ⟨⟨h1, Int.le_refl _⟩, ?_, hc⟩
            intro b hb
            rcases List.mem_cons.1 hb with rfl | hb
            · simp only; omega
            · have := hc'.2.1 b hb; simp only; omega
          · intro n
            rw [memIvs_cons]
            by_cases hM : memIvs (iv :: r) n <;> simp only [hM, or_true, true_or, or_false, false_or, iff_self] <;> omega
        · simp only [if_neg c3]
          have ih' := ih hc'.2.2 hgr
          constructor
          · intro hf
            obtain ⟨hX, hmem⟩ := ih'.1 hf
            constructor
            · rw [canonP_cons]
              refine ⟨hc'.1, ?_, hX⟩
              intro b hb
              have hbb := (hX.1 b hb).2
              have : memIvs (insP g r).1 b.start := ⟨b, hb, Int.le_refl _, hbb⟩
              rcases (hmem _).1 this with h | h
              · exact memIvs_tail_ge hc h
              · omega
            · intro n
              rw [memIvs_cons, memIvs_cons, hmem n]
              by_cases hM : memIvs r n <;> simp only [hM, or_true, true_or, or_false, false_or, iff_self] <;> omega
          · intro hf
            obtain ⟨hX, hall⟩ := ih'.2 hf
            refine ⟨by rw [hX], ?_⟩
            intro b hb
            rcases List.mem_cons.1 hb with rfl | hb
            · omega
            · exact hall b hb

/-- the interval list AddGTID stores for the SID of the added GTID -/
def addRes (g : Int) (l : List Iv) : List Iv :=
  if (addIvs g l [] false).2 then (addIvs g l [] false).1 else (addIvs g l [] false).1 ++ [⟨g, g⟩]

theorem addRes_spec (g : Int) (l : List Iv) (hc : CanonP l) (h1 : 1 ≤ g) (hg : ¬ memIvs l g) :
    CanonP (addRes g l) ∧ ∀ n, memIvs (addRes g l) n ↔ (memIvs l n ∨ n = g) := by
  have e := addIvs_false g l [] hc hg (by simp)
  have sp := insP_spec g l hc h1 hg
  unfold addRes
  rw [e]
  simp only [List.nil_append]
  cases hf : (insP g l).2 with
  | true =>
    simp only [if_true]
    exact sp.1 hf
  | false =>
    simp only [Bool.false_eq_true, if_false]
    obtain ⟨hX, hall⟩ := sp.2 hf
    rw [hX]
    constructor
    · refine ⟨?_, ?_⟩
      · intro b hb
        rcases List.mem_append.1 hb with hb | hb
        · exact hc.1 b hb
        · simp only [List.mem_singleton] at hb; subst hb; exact ⟨h1, Int.le_refl _⟩
      · rw [List.pairwise_append]
        refine ⟨hc.2, by simp, ?_⟩
        intro a ha b hb
        simp only [List.mem_singleton] at hb; subst hb
        exact hall a ha
    · intro n
      rw [memIvs_append, memIvs_cons]
      simp only [memIvs_nil, or_false]
      by_cases hM : memIvs l n <;> simp only [hM, or_true, true_or, or_false, false_or, iff_self] <;> omega

theorem addRes_ne_nil (g : Int) (l : List Iv) (hc : CanonP l) (h1 : 1 ≤ g) (hg : ¬ memIvs l g) :
    addRes g l ≠ [] := by
  intro h
  have := ((addRes_spec g l hc h1 hg).2 g).2 (Or.inr rfl)
  rw [h] at this
  exact (memIvs_nil _).1 this

/-! ### association lists -/

theorem get_cons (q : Bytes × List Iv) (t : Set56) (sid : Bytes) :
    Set56.get (q :: t) sid = if q.1 = sid then q.2 else Set56.get t sid := by
  unfold Set56.get
  rw [List.find?_cons]
  by_cases h : q.1 = sid
  · have hb : (q.1 == sid) = true := by simp [h]
    simp only [hb, if_pos h]
  · have hb : (q.1 == sid) = false := by simp [h]
    simp only [hb, if_neg h]

theorem has_iff (s : Set56) (sid : Bytes) : s.has sid = true ↔ sid ∈ s.map (·.1) := by
  unfold Set56.has
  rw [List.find?_isSome]
  simp

theorem get_of_not_mem {s : Set56} {sid : Bytes} (h : sid ∉ s.map (·.1)) : s.get sid = [] := by
  induction s with
  | nil => rfl
  | cons q t ih =>
    simp only [List.map_cons, List.mem_cons, not_or] at h
    rw [get_cons, if_neg (fun e => h.1 e.symm), ih h.2]

theorem get_of_mem {s : Set56} (hn : (s.map (·.1)).Nodup) {p : Bytes × List Iv} (hp : p ∈ s) :
    s.get p.1 = p.2 := by
  induction s with
  | nil => cases hp
  | cons q t ih =>
    simp only [List.map_cons, List.nodup_cons] at hn
    rw [get_cons]
    rcases List.mem_cons.1 hp with rfl | hp
    · simp
    · have : q.1 ≠ p.1 := by
        intro e; apply hn.1; rw [e]; exact List.mem_map.2 ⟨p, hp, rfl⟩
      rw [if_neg this, ih hn.2 hp]

theorem mem_of_get_ne_nil {s : Set56} {sid : Bytes} (h : s.get sid ≠ []) : (sid, s.get sid) ∈ s := by
  induction s with
  | nil => exact absurd rfl h
  | cons q t ih =>
    rw [get_cons] at h ⊢
    by_cases e : q.1 = sid
    · rw [if_pos e]; subst e; exact List.mem_cons_self
    · rw [if_neg e] at h ⊢; exact List.mem_cons_of_mem _ (ih h)

theorem subset_of_nodup_of_length_le {α} [DecidableEq α] {l₁ l₂ : List α} (h₁ : l₁.Nodup) (hs : l₁ ⊆ l₂)
    (hl : l₂.length ≤ l₁.length) : l₂ ⊆ l₁ := by
  intro x hx
  by_cases hx1 : x ∈ l₁
  · exact hx1
  · exfalso
    have hsub : l₁ ⊆ l₂.erase x := fun y hy =>
      (List.mem_erase_of_ne (by rintro rfl; exact hx1 hy)).2 (hs hy)
    have h2 := h₁.length_le_of_subset hsub
    rw [List.length_erase_of_mem hx] at h2
    have := List.length_pos_of_mem hx
    omega

/-! ### canonical sets -/

/-- canonical set (pairwise form of the interval condition) -/
structure CanonS (s : Set56) : Prop where
  nodup : (s.map (·.1)).Nodup
  nonempty : ∀ p ∈ s, p.2 ≠ []
  ivs : ∀ p ∈ s, CanonP p.2

/-- the pairs a set denotes -/
def semS (s : Set56) (sid : Bytes) (n : Int) : Prop := memIvs (s.get sid) n

theorem CanonS.get {s : Set56} (hc : CanonS s) (sid : Bytes) : CanonP (s.get sid) := by
  by_cases h : s.get sid = []
  · rw [h]; exact canonP_nil
  · exact hc.ivs _ (mem_of_get_ne_nil h)

theorem CanonS.mem_keys_iff {s : Set56} (hc : CanonS s) (sid : Bytes) :
    sid ∈ s.map (·.1) ↔ s.get sid ≠ [] := by
  constructor
  · intro h
    obtain ⟨p, hp, rfl⟩ := List.mem_map.1 h
    rw [get_of_mem hc.nodup hp]
    exact hc.nonempty p hp
  · intro h
    exact List.mem_map.2 ⟨_, mem_of_get_ne_nil h, rfl⟩

theorem containsGtid_iff (s : Set56) (hc : CanonS s) (g : Gtid56) :
    s.containsGtid g = true ↔ semS s g.sid g.seq :=
  containsGtidIvs_iff g.seq (s.get g.sid) (hc.get g.sid)

theorem contains_iff (a b : Set56) (ha : CanonS a) (hb : CanonS b) :
    a.contains b = true ↔ ∀ sid n, semS b sid n → semS a sid n := by
  unfold Set56.contains semS
  rw [List.all_eq_true]
  constructor
  · intro h sid n hn
    have hne : b.get sid ≠ [] := by
      intro e; rw [e] at hn; exact (memIvs_nil _).1 hn
    have hmem := mem_of_get_ne_nil hne
    have := h _ hmem
    exact (containsIvs_iff _ _ (ha.get sid) (hb.get sid)).1 this n hn
  · intro h p hp
    rw [containsIvs_iff _ _ (ha.get p.1) (hb.ivs p hp)]
    intro n hn
    apply h p.1 n
    rw [get_of_mem hb.nodup hp]; exact hn

theorem get_eq_of_sem_eq (a b : Set56) (ha : CanonS a) (hb : CanonS b)
    (h : ∀ sid n, semS a sid n ↔ semS b sid n) (sid : Bytes) : a.get sid = b.get sid :=
  canonP_ext _ _ (ha.get sid) (hb.get sid) (h sid)

theorem equal_iff (a b : Set56) (ha : CanonS a) (hb : CanonS b) :
    a.equal b = true ↔ ∀ sid n, (semS a sid n ↔ semS b sid n) := by
  unfold Set56.equal
  rw [Bool.and_eq_true, beq_iff_eq, List.all_eq_true]
  constructor
  · rintro ⟨hlen, hall⟩
    have hall' : ∀ p ∈ a, b.get p.1 = p.2 := fun p hp => eq_of_beq (hall p hp)
    have hsub : a.map (·.1) ⊆ b.map (·.1) := by
      intro x hx
      obtain ⟨p, hp, rfl⟩ := List.mem_map.1 hx
      rw [hb.mem_keys_iff, hall' p hp]
      exact ha.nonempty p hp
    have hsub' : b.map (·.1) ⊆ a.map (·.1) :=
      subset_of_nodup_of_length_le ha.nodup hsub (by simp [hlen])
    have hget : ∀ sid, a.get sid = b.get sid := by
      intro sid
      by_cases hk : sid ∈ a.map (·.1)
      · obtain ⟨p, hp, rfl⟩ := List.mem_map.1 hk
        rw [get_of_mem ha.nodup hp, hall' p hp]
      · rw [get_of_not_mem hk, get_of_not_mem (fun h => hk (hsub' h))]
    intro sid n
    unfold semS
    rw [hget sid]
  · intro h
    have hget := get_eq_of_sem_eq a b ha hb h
    constructor
    · have hperm : List.Perm (a.map (·.1)) (b.map (·.1)) := by
        rw [List.perm_ext_iff_of_nodup ha.nodup hb.nodup]
        intro x
        rw [ha.mem_keys_iff, hb.mem_keys_iff, hget x]
      simpa using hperm.length_eq
    · intro p hp
      rw [← hget p.1, get_of_mem ha.nodup hp]
      exact beq_self_eq_true _

/-! ### AddGTID on sets -/

/-- replace the entry of `sid` -/
def upd (s : Set56) (sid : Bytes) (ivs : List Iv) : Set56 :=
  s.map (fun p => if p.1 == sid then (sid, ivs) else p)

theorem keys_upd (s : Set56) (sid : Bytes) (ivs : List Iv) : (upd s sid ivs).map (·.1) = s.map (·.1) := by
  unfold upd
  rw [List.map_map]
  apply List.map_congr_left
  intro p _
  by_cases h : p.1 = sid <;> simp [h]

theorem upd_cons (q : Bytes × List Iv) (t : Set56) (sid : Bytes) (ivs : List Iv) :
    upd (q :: t) sid ivs = (if q.1 = sid then (sid, ivs) else q) :: upd t sid ivs := by
  unfold upd
  by_cases h : q.1 = sid <;> simp [h]

theorem get_upd (s : Set56) (sid : Bytes) (ivs : List Iv) (sid' : Bytes) :
    (upd s sid ivs).get sid' =
      if sid' = sid then (if sid ∈ s.map (·.1) then ivs else []) else s.get sid' := by
  induction s with
  | nil => simp [upd, Set56.get]
  | cons q t ih =>
    rw [upd_cons, get_cons, get_cons, ih]
    by_cases h1 : q.1 = sid
    · by_cases h2 : sid' = sid
      · subst h2; simp [h1]
      · have : ¬ (sid = sid') := fun e => h2 e.symm
        simp [h1, h2, this]
    · by_cases h2 : sid' = sid
      · subst h2
        have hm : sid' ∈ (q :: t).map (·.1) ↔ sid' ∈ t.map (·.1) := by
          rw [List.map_cons, List.mem_cons]
          exact ⟨fun h => h.resolve_left (fun e => h1 e.symm), Or.inr⟩
        simp only [if_neg h1, if_true]
        by_cases hm' : sid' ∈ t.map (·.1)
        · rw [if_pos hm', if_pos (hm.2 hm')]
        · rw [if_neg hm', if_neg (fun h => hm' (hm.1 h))]
      · simp [h1, h2]

theorem mem_upd {s : Set56} {sid : Bytes} {ivs : List Iv} {q : Bytes × List Iv} (h : q ∈ upd s sid ivs) :
    q = (sid, ivs) ∨ q ∈ s := by
  unfold upd at h
  obtain ⟨p, hp, rfl⟩ := List.mem_map.1 h
  by_cases e : p.1 = sid
  · left; simp [e]
  · right; simpa [e] using hp

theorem upd_upd (s : Set56) (sid : Bytes) (a b : List Iv) : upd (upd s sid a) sid b = upd s sid b := by
  unfold upd
  rw [List.map_map]
  apply List.map_congr_left
  intro p _
  by_cases e : p.1 = sid <;> simp [e]

theorem get_append_single (s : Set56) (sid : Bytes) (ivs : List Iv) (sid' : Bytes) :
    (s ++ [(sid, ivs)]).get sid' =
      if sid' ∈ s.map (·.1) then s.get sid' else if sid = sid' then ivs else [] := by
  induction s with
  | nil => by_cases h : sid = sid' <;> simp [get_cons, Set56.get, h]
  | cons q t ih =>
    rw [List.cons_append, get_cons, get_cons, ih]
    by_cases h1 : q.1 = sid'
    · simp [h1]
    · have hm : sid' ∈ (q :: t).map (·.1) ↔ sid' ∈ t.map (·.1) := by
        rw [List.map_cons, List.mem_cons]
        exact ⟨fun h => h.resolve_left (fun e => h1 e.symm), Or.inr⟩
      simp only [if_neg h1]
      by_cases hm' : sid' ∈ t.map (·.1)
      · rw [if_pos hm', if_pos (hm.2 hm')]
      · rw [if_neg hm', if_neg (fun h => hm' (hm.1 h))]

def newSetOf (s : Set56) (g : Gtid56) : Set56 :=
  s.map (fun p => (p.1, if p.1 == g.sid then (addIvs g.seq p.2 [] false).1 else p.2))

def addedOf (s : Set56) (g : Gtid56) : Bool :=
  s.any (fun p => p.1 == g.sid && (addIvs g.seq p.2 [] false).2)

theorem addGtid_unfold (s : Set56) (g : Gtid56) :
    s.addGtid g = if s.containsGtid g then s else
      if addedOf s g then newSetOf s g
      else (newSetOf s g).put g.sid ((newSetOf s g).get g.sid ++ [⟨g.seq, g.seq⟩]) := by
  have e1 : (s.map fun p => if p.1 == g.sid then (p.1, (addIvs g.seq p.2 [] false)) else (p.1, (p.2, false))).map
      (fun p => (p.1, p.2.1)) = newSetOf s g := by
    rw [List.map_map]; unfold newSetOf
    apply List.map_congr_left
    intro p _
    by_cases h : p.1 = g.sid <;> simp [h]
  have e2 : (s.map fun p => if p.1 == g.sid then (p.1, (addIvs g.seq p.2 [] false)) else (p.1, (p.2, false))).any
      (fun p => p.2.2) = addedOf s g := by
    rw [List.any_map]; unfold addedOf
    congr 1
    funext p
    by_cases h : p.1 = g.sid <;> simp [h]
  unfold Set56.addGtid
  simp only [e1, e2]

/-- AddGTID when the SID is already present: its entry is replaced by `addRes` -/
theorem addGtid_present (s : Set56) (hn : (s.map (·.1)).Nodup) (g : Gtid56)
    (hcont : s.containsGtid g = false) (hk : g.sid ∈ s.map (·.1)) :
    s.addGtid g = upd s g.sid (addRes g.seq (s.get g.sid)) := by
  obtain ⟨p, hp, hp1⟩ := List.mem_map.1 hk
  have hp1 : p.1 = g.sid := hp1
  have hq : ∀ q ∈ s, q.1 = g.sid → q.2 = s.get g.sid := by
    intro q hq e; rw [← e, get_of_mem hn hq]
  have e1 : newSetOf s g = upd s g.sid (addIvs g.seq (s.get g.sid) [] false).1 := by
    unfold newSetOf upd
    apply List.map_congr_left
    intro q hqs
    by_cases e : q.1 = g.sid
    · simp [e, hq q hqs e]
    · simp [e]
  have e2 : addedOf s g = (addIvs g.seq (s.get g.sid) [] false).2 := by
    unfold addedOf
    rw [Bool.eq_iff_iff, List.any_eq_true]
    constructor
    · rintro ⟨q, hqs, h⟩
      simp only [Bool.and_eq_true, beq_iff_eq] at h
      rw [← hq q hqs h.1]; exact h.2
    · intro h
      refine ⟨p, hp, ?_⟩
      simp only [Bool.and_eq_true, beq_iff_eq]
      refine ⟨hp1, ?_⟩
      rw [hq p hp hp1]; exact h
  rw [addGtid_unfold, hcont, e1, e2]
  simp only [Bool.false_eq_true, if_false]
  unfold addRes
  cases hf : (addIvs g.seq (s.get g.sid) [] false).2 with
  | true => simp only [if_true]
  | false =>
    simp only [Bool.false_eq_true, if_false]
    unfold Set56.put
    have hhas : (upd s g.sid (addIvs g.seq (s.get g.sid) [] false).1).has g.sid = true := by
      rw [has_iff, keys_upd]; exact hk
    rw [hhas, if_pos rfl, get_upd, if_pos rfl, if_pos hk]
    exact upd_upd _ _ _ _

/-- AddGTID when the SID is absent: a new entry is appended -/
theorem addGtid_absent (s : Set56) (g : Gtid56) (hk : g.sid ∉ s.map (·.1)) :
    s.addGtid g = s ++ [(g.sid, [⟨g.seq, g.seq⟩])] := by
  have hq : ∀ q ∈ s, ¬ (q.1 = g.sid) := by
    intro q hqs e; exact hk (List.mem_map.2 ⟨q, hqs, e⟩)
  have hget : s.get g.sid = [] := get_of_not_mem hk
  have hcont : s.containsGtid g = false := by
    unfold Set56.containsGtid; rw [hget]; rfl
  have e1 : newSetOf s g = s := by
    unfold newSetOf
    conv => rhs; rw [← List.map_id s]
    apply List.map_congr_left
    intro q hqs
    simp [hq q hqs]
  have e2 : addedOf s g = false := by
    unfold addedOf
    rw [List.any_eq_false]
    intro q hqs
    simp [hq q hqs]
  rw [addGtid_unfold, hcont, e1, e2]
  simp only [Bool.false_eq_true, if_false]
  unfold Set56.put
  have hhas : s.has g.sid = false := by
    rw [← Bool.not_eq_true, has_iff]; exact hk
  rw [hhas, hget]
  simp

theorem canonS_upd (s : Set56) (hc : CanonS s) (sid : Bytes) (ivs : List Iv) (h1 : ivs ≠ []) (h2 : CanonP ivs) :
    CanonS (upd s sid ivs) where
  nodup := by rw [keys_upd]; exact hc.nodup
  nonempty := by
    intro q hq
    rcases mem_upd hq with rfl | hq
    · exact h1
    · exact hc.nonempty q hq
  ivs := by
    intro q hq
    rcases mem_upd hq with rfl | hq
    · exact h2
    · exact hc.ivs q hq

theorem canonS_append (s : Set56) (hc : CanonS s) (sid : Bytes) (ivs : List Iv) (hk : sid ∉ s.map (·.1))
    (h1 : ivs ≠ []) (h2 : CanonP ivs) : CanonS (s ++ [(sid, ivs)]) where
  nodup := by
    rw [List.map_append, List.nodup_append]
    refine ⟨hc.nodup, by simp, ?_⟩
    intro a ha b hb
    simp only [List.map_cons, List.map_nil, List.mem_singleton] at hb
    subst hb
    intro e; subst e; exact hk ha
  nonempty := by
    intro q hq
    rcases List.mem_append.1 hq with hq | hq
    · exact hc.nonempty q hq
    · simp only [List.mem_singleton] at hq; subst hq; exact h1
  ivs := by
    intro q hq
    rcases List.mem_append.1 hq with hq | hq
    · exact hc.ivs q hq
    · simp only [List.mem_singleton] at hq; subst hq; exact h2

theorem canonP_single (g : Int) (h : 1 ≤ g) : CanonP [⟨g, g⟩] := by
  rw [canonP_cons]; exact ⟨⟨h, Int.le_refl _⟩, by simp, canonP_nil⟩

theorem addGtid_spec (s : Set56) (hc : CanonS s) (g : Gtid56) (hg : 1 ≤ g.seq) :
    CanonS (s.addGtid g) ∧
    ∀ sid n, semS (s.addGtid g) sid n ↔ (semS s sid n ∨ (sid = g.sid ∧ n = g.seq)) := by
  by_cases hcont : s.containsGtid g = true
  · have e : s.addGtid g = s := by rw [addGtid_unfold, if_pos hcont]
    rw [e]
    refine ⟨hc, fun sid n => ⟨Or.inl, fun h => h.elim id ?_⟩⟩
    rintro ⟨rfl, rfl⟩
    exact (containsGtid_iff s hc g).1 hcont
  · have hng : ¬ memIvs (s.get g.sid) g.seq := fun h => hcont ((containsGtid_iff s hc g).2 h)
    have hcont' : s.containsGtid g = false := by simpa using hcont
    by_cases hk : g.sid ∈ s.map (·.1)
    · have sp := addRes_spec g.seq (s.get g.sid) (hc.get _) hg hng
      rw [addGtid_present s hc.nodup g hcont' hk]
      refine ⟨canonS_upd s hc _ _ (addRes_ne_nil _ _ (hc.get _) hg hng) sp.1, ?_⟩
      intro sid n
      unfold semS
      rw [get_upd]
      by_cases hs : sid = g.sid
      · subst hs
        rw [if_pos rfl, if_pos hk, sp.2 n]
        constructor
        · rintro (h | h)
          · exact Or.inl h
          · exact Or.inr ⟨rfl, h⟩
        · rintro (h | ⟨_, h⟩)
          · exact Or.inl h
          · exact Or.inr h
      · rw [if_neg hs]
        exact ⟨Or.inl, fun h => h.elim id (fun h => absurd h.1 hs)⟩
    · rw [addGtid_absent s g hk]
      refine ⟨canonS_append s hc _ _ hk (by simp) (canonP_single _ hg), ?_⟩
      intro sid n
      unfold semS
      rw [get_append_single]
      by_cases hs : sid ∈ s.map (·.1)
      · rw [if_pos hs]
        have : sid ≠ g.sid := by rintro rfl; exact hk hs
        exact ⟨Or.inl, fun h => h.elim id (fun h => absurd h.1 this)⟩
      · rw [if_neg hs, get_of_not_mem hs]
        by_cases e : g.sid = sid
        · subst e
          rw [if_pos rfl, memIvs_cons]
          simp only [memIvs_nil, or_false, false_or, true_and]
          omega
        · rw [if_neg e]
          simp only [memIvs_nil, false_or, false_iff, not_and]
          intro h; exact absurd h.symm e

theorem reachable (s : Set56) (hc : CanonS s) (gs : List Gtid56) (hg : ∀ g ∈ gs, 1 ≤ g.seq) :
    CanonS (gs.foldl Set56.addGtid s) ∧
    ∀ sid n, semS (gs.foldl Set56.addGtid s) sid n ↔
      (semS s sid n ∨ ∃ g ∈ gs, sid = g.sid ∧ n = g.seq) := by
  induction gs generalizing s with
  | nil => exact ⟨hc, fun sid n => by simp⟩
  | cons g gs ih =>
    have sp := addGtid_spec s hc g (hg g List.mem_cons_self)
    have h2 := ih (s.addGtid g) sp.1 (fun g' h => hg g' (List.mem_cons_of_mem _ h))
    rw [List.foldl_cons]
    refine ⟨h2.1, fun sid n => ?_⟩
    rw [h2.2 sid n, sp.2 sid n]
    constructor
    · rintro ((h | h) | ⟨g', hg', h⟩)
      · exact Or.inl h
      · exact Or.inr ⟨g, List.mem_cons_self, h⟩
      · exact Or.inr ⟨g', List.mem_cons_of_mem _ hg', h⟩
    · rintro (h | ⟨g', hg', h⟩)
      · exact Or.inl (Or.inl h)
      · rcases List.mem_cons.1 hg' with rfl | hg'
        · exact Or.inl (Or.inr h)
        · exact Or.inr ⟨g', hg', h⟩

/-! ### sorting -/

theorem sidLess_trans : ∀ a b c : Bytes, sidLess a b = true → sidLess b c = true → sidLess a c = true
  | [], [], _, h, _ => by simp [sidLess] at h
  | [], _ :: _, [], _, h => by simp [sidLess] at h
  | [], _ :: _, _ :: _, _, _ => by simp [sidLess]
  | _ :: _, [], _, h, _ => by simp [sidLess] at h
  | _ :: _, _ :: _, [], _, h => by simp [sidLess] at h
  | x :: xs, y :: ys, z :: zs, h1, h2 => by
    unfold sidLess at h1 h2 ⊢
    by_cases a1 : x.toNat < y.toNat
    · by_cases a2 : y.toNat < z.toNat
      · have : x.toNat < z.toNat := by omega
        simp [this]
      · by_cases a3 : y.toNat > z.toNat
        · simp [a2, a3] at h2
        · have : x.toNat < z.toNat := by omega
          simp [this]
    · by_cases a1' : x.toNat > y.toNat
      · simp [a1, a1'] at h1
      · simp only [a1, a1', if_false] at h1
        by_cases a2 : y.toNat < z.toNat
        · have : x.toNat < z.toNat := by omega
          simp [this]
        · by_cases a3 : y.toNat > z.toNat
          · simp [a2, a3] at h2
          · simp only [a2, a3, if_false] at h2
            have b1 : ¬ x.toNat < z.toNat := by omega
            have b2 : ¬ x.toNat > z.toNat := by omega
            simp only [b1, b2, if_false]
            exact sidLess_trans xs ys zs h1 h2

theorem sidLess_total : ∀ a b : Bytes, sidLess a b = false → sidLess b a = true ∨ b = a
  | [], [], _ => Or.inr rfl
  | [], _ :: _, h => by simp [sidLess] at h
  | _ :: _, [], _ => by simp [sidLess]
  | x :: xs, y :: ys, h => by
    unfold sidLess at h ⊢
    by_cases a1 : x.toNat < y.toNat
    · simp [a1] at h
    · by_cases a2 : x.toNat > y.toNat
      · left
        have : y.toNat < x.toNat := by omega
        simp [this]
      · simp only [a1, a2, if_false] at h
        have b1 : ¬ y.toNat < x.toNat := by omega
        have b2 : ¬ y.toNat > x.toNat := by omega
        simp only [b1, b2, if_false]
        have e : x = y := UInt8.toNat_inj.1 (by omega)
        rcases sidLess_total xs ys h with h' | h'
        · exact Or.inl h'
        · right; rw [e, h']

theorem mem_insertSorted {α} (lt : α → α → Bool) (x y : α) (l : List α) :
    y ∈ insertSorted lt x l ↔ y = x ∨ y ∈ l := by
  induction l with
  | nil => simp [insertSorted]
  | cons z zs ih =>
    unfold insertSorted
    by_cases h : lt x z = true
    · simp [h]
    · simp only [h, if_false, List.mem_cons, ih, Bool.false_eq_true]
      constructor
      · rintro (h | h | h)
        · exact Or.inr (Or.inl h)
        · exact Or.inl h
        · exact Or.inr (Or.inr h)
      · rintro (h | h | h)
        · exact Or.inr (Or.inl h)
        · exact Or.inl h
        · exact Or.inr (Or.inr h)

theorem mem_sortBy {α} (lt : α → α → Bool) (y : α) (l : List α) : y ∈ sortBy lt l ↔ y ∈ l := by
  induction l with
  | nil => simp [sortBy]
  | cons z zs ih =>
    have : sortBy lt (z :: zs) = insertSorted lt z (sortBy lt zs) := rfl
    rw [this, mem_insertSorted, ih, List.mem_cons]

theorem pairwise_insertSorted {α} (lt : α → α → Bool)
    (htot : ∀ a b, lt a b = false → lt b a = true ∨ b = a)
    (htrans : ∀ a b c, lt a b = true → lt b c = true → lt a c = true)
    (x : α) (l : List α) (h : l.Pairwise (fun a b => lt a b = true ∨ a = b)) :
    (insertSorted lt x l).Pairwise (fun a b => lt a b = true ∨ a = b) := by
  induction l with
  | nil => simp [insertSorted]
  | cons z zs ih =>
    rw [List.pairwise_cons] at h
    unfold insertSorted
    by_cases hxz : lt x z = true
    · rw [if_pos hxz, List.pairwise_cons]
      refine ⟨?_, List.pairwise_cons.2 h⟩
      intro b hb
      rcases List.mem_cons.1 hb with rfl | hb
      · exact Or.inl hxz
      · rcases h.1 b hb with h' | h'
        · exact Or.inl (htrans _ _ _ hxz h')
        · subst h'; exact Or.inl hxz
    · rw [if_neg hxz, List.pairwise_cons]
      refine ⟨?_, ih h.2⟩
      intro b hb
      rcases (mem_insertSorted lt x b zs).1 hb with rfl | hb
      · exact htot _ _ (by simpa using hxz)
      · exact h.1 b hb

theorem pairwise_sortBy {α} (lt : α → α → Bool)
    (htot : ∀ a b, lt a b = false → lt b a = true ∨ b = a)
    (htrans : ∀ a b c, lt a b = true → lt b c = true → lt a c = true) (l : List α) :
    (sortBy lt l).Pairwise (fun a b => lt a b = true ∨ a = b) := by
  induction l with
  | nil => simp [sortBy]
  | cons z zs ih => exact pairwise_insertSorted lt htot htrans z _ ih

theorem sids_sorted (s : Set56) :
    (s.sids).Pairwise (fun a b => sidLess a b = true ∨ a = b) ∧ ∀ sid, sid ∈ s.sids ↔ sid ∈ s.map (·.1) :=
  ⟨pairwise_sortBy sidLess sidLess_total sidLess_trans _, fun sid => mem_sortBy sidLess sid _⟩

theorem perm_insertSorted {α} (lt : α → α → Bool) (x : α) (l : List α) :
    List.Perm (insertSorted lt x l) (x :: l) := by
  induction l with
  | nil => exact List.Perm.refl _
  | cons y ys ih =>
    unfold insertSorted
    by_cases h : lt x y = true
    · rw [if_pos h]
    · rw [if_neg h]
      exact (List.Perm.cons y ih).trans (List.Perm.swap x y ys)

theorem perm_sortBy {α} (lt : α → α → Bool) (l : List α) : List.Perm (sortBy lt l) l := by
  induction l with
  | nil => exact List.Perm.refl _
  | cons z zs ih => exact (perm_insertSorted lt z _).trans (List.Perm.cons z ih)

theorem sids_nodup (s : Set56) (hn : (s.map (·.1)).Nodup) : (s.sids).Nodup :=
  (perm_sortBy sidLess _).symm.nodup hn

end GV.L18
