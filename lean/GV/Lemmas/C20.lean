import GV.Spec.JsonText
import GV.Lemmas.Dec
/- helper lemmas for GV/Props/C20.lean -/
namespace GV
open GV.M GV.JT

theorem decodeRune_ascii (b : UInt8) (rest : Bytes) (h : b.toNat < 0x80) :
    decodeRune (b :: rest) = some (b.toNat, 1) := by
  simp [decodeRune, h]

/-- shapes of a successfully decoded rune -/
inductive RuneAt : Bytes → Nat → Nat → Prop
  | r1 (b0 : UInt8) (t : Bytes) : b0.toNat < 0x80 → RuneAt (b0 :: t) b0.toNat 1
  | r2 (b0 b1 : UInt8) (t : Bytes) : 0xC2 ≤ b0.toNat → b0.toNat ≤ 0xDF → 0x80 ≤ b1.toNat → b1.toNat ≤ 0xBF →
      RuneAt (b0 :: b1 :: t) ((b0.toNat % 32) * 64 + b1.toNat % 64) 2
  | r3 (b0 b1 b2 : UInt8) (t : Bytes) : 0xE0 ≤ b0.toNat → b0.toNat ≤ 0xEF →
      (if b0.toNat = 0xE0 then 0xA0 else 0x80) ≤ b1.toNat → b1.toNat ≤ (if b0.toNat = 0xED then 0x9F else 0xBF) →
      0x80 ≤ b2.toNat → b2.toNat ≤ 0xBF →
      RuneAt (b0 :: b1 :: b2 :: t) (((b0.toNat % 16) * 64 + b1.toNat % 64) * 64 + b2.toNat % 64) 3
  | r4 (b0 b1 b2 b3 : UInt8) (t : Bytes) : 0xF0 ≤ b0.toNat → b0.toNat ≤ 0xF4 →
      (if b0.toNat = 0xF0 then 0x90 else 0x80) ≤ b1.toNat → b1.toNat ≤ (if b0.toNat = 0xF4 then 0x8F else 0xBF) →
      0x80 ≤ b2.toNat → b2.toNat ≤ 0xBF → 0x80 ≤ b3.toNat → b3.toNat ≤ 0xBF →
      RuneAt (b0 :: b1 :: b2 :: b3 :: t)
        ((((b0.toNat % 8) * 64 + b1.toNat % 64) * 64 + b2.toNat % 64) * 64 + b3.toNat % 64) 4

theorem decodeRune_runeAt {xs : Bytes} {cp w : Nat} (h : decodeRune xs = some (cp, w)) : RuneAt xs cp w := by
  rcases xs with _ | ⟨b0, rest⟩
  · simp [decodeRune] at h
  · by_cases c1 : b0.toNat < 128
    · simp [decodeRune, c1] at h; obtain ⟨rfl, rfl⟩ := h; exact .r1 _ _ c1
    · by_cases c2 : 194 ≤ b0.toNat ∧ b0.toNat ≤ 223
      · rcases rest with _ | ⟨b1, t⟩
        · simp [decodeRune, c1, c2] at h
        · simp [decodeRune, c1, c2] at h
          obtain ⟨⟨h3, h4⟩, rfl, rfl⟩ := h
          exact .r2 _ _ _ c2.1 c2.2 h3 h4
      · by_cases c3 : 224 ≤ b0.toNat ∧ b0.toNat ≤ 239
        · rcases rest with _ | ⟨b1, _ | ⟨b2, t⟩⟩
          · simp [decodeRune, c1, c2, c3] at h
          · simp [decodeRune, c1, c2, c3] at h
          · simp [decodeRune, c1, c2, c3] at h
            obtain ⟨⟨⟨h3, h4⟩, h5, h6⟩, rfl, rfl⟩ := h
            exact .r3 _ _ _ _ c3.1 c3.2 h3 h4 h5 h6
        · by_cases c4 : 240 ≤ b0.toNat ∧ b0.toNat ≤ 244
          · rcases rest with _ | ⟨b1, _ | ⟨b2, _ | ⟨b3, t⟩⟩⟩
            · simp [decodeRune, c1, c2, c3, c4] at h
            · simp [decodeRune, c1, c2, c3, c4] at h
            · simp [decodeRune, c1, c2, c3, c4] at h
            · simp [decodeRune, c1, c2, c3, c4] at h
              obtain ⟨⟨⟨⟨h3, h4⟩, h5, h6⟩, h7, h8⟩, rfl, rfl⟩ := h
              exact .r4 _ _ _ _ _ c4.1 c4.2 h3 h4 h5 h6 h7 h8
          · simp [decodeRune, c1, c2, c3, c4] at h

theorem runeAt_decodeRune {xs : Bytes} {cp w : Nat} (h : RuneAt xs cp w) : decodeRune xs = some (cp, w) := by
  cases h with
  | r1 b0 t h => exact decodeRune_ascii _ _ h
  | r2 b0 b1 t h1 h2 h3 h4 =>
    have : ¬ b0.toNat < 128 := by omega
    simp [decodeRune, this, h1, h2, h3, h4]
  | r3 b0 b1 b2 t h1 h2 h3 h4 h5 h6 =>
    have : ¬ b0.toNat < 128 := by omega
    have : ¬ (194 ≤ b0.toNat ∧ b0.toNat ≤ 223) := by omega
    simp [decodeRune, *]
  | r4 b0 b1 b2 b3 t h1 h2 h3 h4 h5 h6 h7 h8 =>
    have : ¬ b0.toNat < 128 := by omega
    have : ¬ (194 ≤ b0.toNat ∧ b0.toNat ≤ 223) := by omega
    have : ¬ (224 ≤ b0.toNat ∧ b0.toNat ≤ 239) := by omega
    simp [decodeRune, *]

theorem RuneAt.width {xs : Bytes} {cp w : Nat} (h : RuneAt xs cp w) : 1 ≤ w ∧ w ≤ xs.length := by
  cases h <;> simp

theorem RuneAt.take_append {xs : Bytes} {cp w : Nat} (h : RuneAt xs cp w) (ys : Bytes) :
    RuneAt (xs.take w ++ ys) cp w := by
  cases h with
  | r1 b0 t h => exact .r1 _ _ h
  | r2 b0 b1 t h1 h2 h3 h4 => exact .r2 _ _ _ h1 h2 h3 h4
  | r3 b0 b1 b2 t h1 h2 h3 h4 h5 h6 => exact .r3 _ _ _ _ h1 h2 h3 h4 h5 h6
  | r4 b0 b1 b2 b3 t h1 h2 h3 h4 h5 h6 h7 h8 => exact .r4 _ _ _ _ _ h1 h2 h3 h4 h5 h6 h7 h8

theorem RuneAt.high {xs : Bytes} {cp w : Nat} (h : RuneAt xs cp w) (hb : ∀ b t, xs = b :: t → 0x80 ≤ b.toNat) :
    ∀ c ∈ xs.take w, 0x80 ≤ c.toNat := by
  cases h with
  | r1 b0 t h => have := hb _ _ rfl; omega
  | r2 b0 b1 t h1 h2 h3 h4 => simp; omega
  | r3 b0 b1 b2 t h1 h2 h3 h4 h5 h6 => simp; split at h3 <;> omega
  | r4 b0 b1 b2 b3 t h1 h2 h3 h4 h5 h6 h7 h8 => simp; split at h3 <;> omega

theorem UInt8.eq_of_toNat {a b : UInt8} (h : a.toNat = b.toNat) : a = b := UInt8.toNat_inj.mp h

theorem utf8Enc_2028 : utf8Enc 0x2028 = [0xE2, 0x80, 0xA8] := by decide
theorem utf8Enc_2029 : utf8Enc 0x2029 = [0xE2, 0x80, 0xA9] := by decide

theorem RuneAt.ls {xs : Bytes} {cp w : Nat} (h : RuneAt xs cp w) (hc : cp = 0x2028 ∨ cp = 0x2029) :
    xs.take w = utf8Enc cp := by
  cases h with
  | r1 b0 t h => omega
  | r2 b0 b1 t h1 h2 h3 h4 => omega
  | r3 b0 b1 b2 t h1 h2 h3 h4 h5 h6 =>
    have h3' : 0x80 ≤ b1.toNat := by split at h3 <;> omega
    have h4' : b1.toNat ≤ 0xBF := by split at h4 <;> omega
    clear h3 h4
    have e0 : b0 = 0xE2 := UInt8.eq_of_toNat (by simp; omega)
    have e1 : b1 = 0x80 := UInt8.eq_of_toNat (by simp; omega)
    rcases hc with hc | hc
    · have e2 : b2 = 0xA8 := UInt8.eq_of_toNat (by simp; omega)
      rw [hc, utf8Enc_2028]; subst e0 e1 e2; rfl
    · have e2 : b2 = 0xA9 := UInt8.eq_of_toNat (by simp; omega)
      rw [hc, utf8Enc_2029]; subst e0 e1 e2; rfl
  | r4 b0 b1 b2 b3 t h1 h2 h3 h4 h5 h6 h7 h8 => split at h3 <;> split at h4 <;> omega


/-! ### fuel independence and unfolding of the fuelled string functions -/

theorem decodeRune_drop_le {b : UInt8} {rest : Bytes} {cp w : Nat} (h : decodeRune (b :: rest) = some (cp, w)) :
    ((b :: rest).drop w).length ≤ rest.length := by
  have := (decodeRune_runeAt h).width
  simp only [List.length_drop, List.length_cons] at *; omega

/-- the escape of one ASCII byte -/
def escAscii (b : UInt8) : Bytes :=
  let c := b.toNat
  if c = 0x22 then [0x5c, 0x22] else if c = 0x5c then [0x5c, 0x5c]
  else if c = 0x08 then asc "\\b" else if c = 0x0c then asc "\\f"
  else if c = 0x0a then asc "\\n" else if c = 0x0d then asc "\\r" else if c = 0x09 then asc "\\t"
  else if c < 0x20 ∨ c = 0x3c ∨ c = 0x3e ∨ c = 0x26 then asc "\\u" ++ hex4 c
  else [b]

theorem jsonEscapeAux_fuel (n : Nat) : ∀ (m : Nat) (s : Bytes), s.length < n → s.length < m →
    jsonEscapeAux n s = jsonEscapeAux m s := by
  induction n with
  | zero => intro m s h; omega
  | succ n ih =>
    intro m s hn hm
    rcases m with _ | m
    · omega
    rcases s with _ | ⟨b, rest⟩
    · simp [jsonEscapeAux]
    · simp only [List.length_cons] at hn hm
      simp only [jsonEscapeAux]
      split
      · rw [ih m rest (by omega) (by omega)]
      · split
        · rw [ih m rest (by omega) (by omega)]
        · rename_i cp w hd
          have := decodeRune_drop_le hd
          rw [ih m _ (by omega) (by omega)]

theorem jsonEscape_nil : jsonEscape [] = [] := by simp [jsonEscape, jsonEscapeAux]

theorem jsonEscape_aux (n : Nat) (s : Bytes) (h : s.length < n) : jsonEscapeAux n s = jsonEscape s :=
  jsonEscapeAux_fuel _ _ _ h (by omega)

theorem jsonEscape_ascii (b : UInt8) (rest : Bytes) (h : b.toNat < 0x80) :
    jsonEscape (b :: rest) = escAscii b ++ jsonEscape rest := by
  rw [jsonEscape, List.length_cons, jsonEscapeAux, if_pos h, jsonEscape_aux _ _ (by omega)]
  rfl

theorem jsonEscape_bad (b : UInt8) (rest : Bytes) (h : ¬ b.toNat < 0x80) (hd : decodeRune (b :: rest) = none) :
    jsonEscape (b :: rest) = asc "\\ufffd" ++ jsonEscape rest := by
  rw [jsonEscape, List.length_cons, jsonEscapeAux, if_neg h, jsonEscape_aux _ _ (by omega)]
  simp only [hd]

theorem jsonEscape_ls (b : UInt8) (rest : Bytes) (cp w : Nat) (h : ¬ b.toNat < 0x80)
    (hd : decodeRune (b :: rest) = some (cp, w)) (hc : cp = 0x2028 ∨ cp = 0x2029) :
    jsonEscape (b :: rest) = asc "\\u" ++ hex4 cp ++ jsonEscape ((b :: rest).drop w) := by
  have := decodeRune_drop_le hd
  rw [jsonEscape, List.length_cons, jsonEscapeAux, if_neg h]
  simp only [hd, if_pos hc]
  rw [jsonEscape_aux _ _ (by omega)]

theorem jsonEscape_rune (b : UInt8) (rest : Bytes) (cp w : Nat) (h : ¬ b.toNat < 0x80)
    (hd : decodeRune (b :: rest) = some (cp, w)) (hc : ¬ (cp = 0x2028 ∨ cp = 0x2029)) :
    jsonEscape (b :: rest) = (b :: rest).take w ++ jsonEscape ((b :: rest).drop w) := by
  have := decodeRune_drop_le hd
  rw [jsonEscape, List.length_cons, jsonEscapeAux, if_neg h]
  simp only [hd, if_neg hc]
  rw [jsonEscape_aux _ _ (by omega)]

theorem sanitizeAux_fuel (n : Nat) : ∀ (m : Nat) (s : Bytes), s.length < n → s.length < m →
    sanitizeAux n s = sanitizeAux m s := by
  induction n with
  | zero => intro m s h; omega
  | succ n ih =>
    intro m s hn hm
    rcases m with _ | m
    · omega
    rcases s with _ | ⟨b, rest⟩
    · simp [sanitizeAux]
    · simp only [List.length_cons] at hn hm
      simp only [sanitizeAux]
      split
      · rename_i cp w hd
        have := decodeRune_drop_le hd
        rw [ih m _ (by omega) (by omega)]
      · rw [ih m rest (by omega) (by omega)]

theorem sanitize_nil : sanitize [] = [] := by simp [sanitize, sanitizeAux]

theorem sanitize_aux (n : Nat) (s : Bytes) (h : s.length < n) : sanitizeAux n s = sanitize s :=
  sanitizeAux_fuel _ _ _ h (by omega)

theorem sanitize_rune (b : UInt8) (rest : Bytes) (cp w : Nat) (hd : decodeRune (b :: rest) = some (cp, w)) :
    sanitize (b :: rest) = (b :: rest).take w ++ sanitize ((b :: rest).drop w) := by
  have := decodeRune_drop_le hd
  rw [sanitize, List.length_cons, sanitizeAux]
  simp only [hd]
  rw [sanitize_aux _ _ (by omega)]

theorem sanitize_bad (b : UInt8) (rest : Bytes) (hd : decodeRune (b :: rest) = none) :
    sanitize (b :: rest) = [0xEF, 0xBF, 0xBD] ++ sanitize rest := by
  rw [sanitize, List.length_cons, sanitizeAux]
  simp only [hd]
  rw [sanitize_aux _ _ (by omega)]

theorem validUtf8Aux_fuel (n : Nat) : ∀ (m : Nat) (s : Bytes), s.length < n → s.length < m →
    validUtf8Aux n s = validUtf8Aux m s := by
  induction n with
  | zero => intro m s h; omega
  | succ n ih =>
    intro m s hn hm
    rcases m with _ | m
    · omega
    rcases s with _ | ⟨b, rest⟩
    · simp [validUtf8Aux]
    · simp only [List.length_cons] at hn hm
      simp only [validUtf8Aux]
      split
      · rename_i cp w hd
        have := decodeRune_drop_le hd
        rw [ih m _ (by omega) (by omega)]
      · rfl

theorem validUtf8_nil : validUtf8 [] = true := by simp [validUtf8, validUtf8Aux]

theorem validUtf8_aux (n : Nat) (s : Bytes) (h : s.length < n) : validUtf8Aux n s = validUtf8 s :=
  validUtf8Aux_fuel _ _ _ h (by omega)

theorem validUtf8_rune (xs : Bytes) (cp w : Nat) (hd : decodeRune xs = some (cp, w)) :
    validUtf8 xs = validUtf8 (xs.drop w) := by
  rcases xs with _ | ⟨b, rest⟩
  · simp [decodeRune] at hd
  have := decodeRune_drop_le hd
  rw [validUtf8, List.length_cons, validUtf8Aux]
  simp only [hd]
  rw [validUtf8_aux _ _ (by omega)]

theorem validUtf8_bad (b : UInt8) (rest : Bytes) (hd : decodeRune (b :: rest) = none) :
    validUtf8 (b :: rest) = false := by
  rw [validUtf8, List.length_cons, validUtf8Aux]
  simp only [hd]


/-! ### string-body fragments: complete escapes and plain bytes -/

theorem strBodyOK_bs (c : UInt8) (rest : Bytes) : strBodyOK (0x5c :: c :: rest) =
    if c = 0x22 ∨ c = 0x5c ∨ c = 0x2f ∨ c = 0x62 ∨ c = 0x66 ∨ c = 0x6e ∨ c = 0x72 ∨ c = 0x74 then strBodyOK rest
    else if c = 0x75 then
      match rest with
      | h1 :: h2 :: h3 :: h4 :: rest' => isHex h1 && isHex h2 && isHex h3 && isHex h4 && strBodyOK rest'
      | _ => false
    else false := by
  conv => lhs; unfold strBodyOK
  rfl

theorem unescape_bs (c : UInt8) (rest : Bytes) : unescape (0x5c :: c :: rest) =
    (let simple (b : UInt8) := (unescape rest).map (b :: ·)
    if c = 0x22 then simple 0x22 else if c = 0x5c then simple 0x5c else if c = 0x2f then simple 0x2f
    else if c = 0x62 then simple 0x08 else if c = 0x66 then simple 0x0c else if c = 0x6e then simple 0x0a
    else if c = 0x72 then simple 0x0d else if c = 0x74 then simple 0x09
    else if c = 0x75 then
      match rest with
      | h1 :: h2 :: h3 :: h4 :: rest' =>
        match hexVal4 h1 h2 h3 h4, unescape rest' with
        | some cp, some r => if 0xD800 ≤ cp ∧ cp ≤ 0xDFFF then none else some (utf8Enc cp ++ r)
        | _, _ => none
      | _ => none
    else none) := by
  conv => lhs; unfold unescape
  rfl

theorem strBodyOK_plain (c : UInt8) (rest : Bytes) (h : c ≠ 0x5c) :
    strBodyOK (c :: rest) = (decide (c ≠ 0x22) && decide (c.toNat ≥ 0x20) && strBodyOK rest) :=
  strBodyOK.eq_5 c rest (fun _ _ e _ => h e) (fun e _ => h e)

theorem unescape_plain (c : UInt8) (rest : Bytes) (h : c ≠ 0x5c) :
    unescape (c :: rest) = (unescape rest).map (c :: ·) :=
  unescape.eq_5 c rest (fun _ _ e _ => h e) (fun e _ => h e)

theorem takeStrBody_plain (c : UInt8) (rest acc : Bytes) (h : c ≠ 0x5c) (h' : c ≠ 0x22) :
    takeStrBody (c :: rest) acc = takeStrBody rest (c :: acc) :=
  takeStrBody.eq_4 acc c rest h' (fun _ _ e _ => h e)

/-- `f` is a sequence of complete string-body tokens that a reader decodes to `u` -/
structure Frag (f u : Bytes) : Prop where
  sb : ∀ r, strBodyOK (f ++ r) = strBodyOK r
  un : ∀ r, unescape (f ++ r) = (unescape r).map (u ++ ·)
  ts : ∀ r acc, takeStrBody (f ++ r) acc = takeStrBody r (f.reverse ++ acc)

theorem Frag.nil : Frag [] [] := ⟨fun _ => rfl, fun r => by simp, fun _ _ => rfl⟩

theorem Frag.append {f u g v : Bytes} (hf : Frag f u) (hg : Frag g v) : Frag (f ++ g) (u ++ v) where
  sb r := by rw [List.append_assoc, hf.sb, hg.sb]
  un r := by
    rw [List.append_assoc, hf.un, hg.un]
    cases unescape r <;> simp
  ts r acc := by rw [List.append_assoc, hf.ts, hg.ts]; simp

theorem Frag.plain (c : UInt8) (h1 : c ≠ 0x22) (h2 : c ≠ 0x5c) (h3 : 0x20 ≤ c.toNat) : Frag [c] [c] where
  sb r := by simp [strBodyOK_plain c r h2, h1, h3]
  un r := by simp [unescape_plain c r h2]
  ts r acc := by simp [takeStrBody_plain c r acc h2 h1]

theorem Frag.plains (f : Bytes) (h : ∀ c ∈ f, 0x80 ≤ c.toNat) : Frag f f := by
  induction f with
  | nil => exact Frag.nil
  | cons c t ih =>
    have hc := h c (by simp)
    have : Frag [c] [c] := Frag.plain c (by intro e; subst e; simp at hc) (by intro e; subst e; simp at hc) (by omega)
    exact this.append (ih (fun d hd => h d (by simp [hd])))

/-- two-byte escapes -/
theorem Frag.simple (c u : UInt8)
    (h : (c, u) ∈ [((0x22 : UInt8), (0x22 : UInt8)), (0x5c, 0x5c), (0x2f, 0x2f), (0x62, 0x08), (0x66, 0x0c), (0x6e, 0x0a), (0x72, 0x0d), (0x74, 0x09)]) :
    Frag [0x5c, c] [u] := by
  simp at h
  rcases h with ⟨rfl, rfl⟩ | ⟨rfl, rfl⟩ | ⟨rfl, rfl⟩ | ⟨rfl, rfl⟩ | ⟨rfl, rfl⟩ | ⟨rfl, rfl⟩ | ⟨rfl, rfl⟩ | ⟨rfl, rfl⟩ <;>
  exact ⟨fun r => by simp [strBodyOK_bs], fun r => by simp [unescape_bs], fun r acc => by simp [takeStrBody]⟩

theorem isHex_ne (h : UInt8) (hh : isHex h = true) : h ≠ 0x5c ∧ h ≠ 0x22 := by
  constructor <;> (intro e; subst e; revert hh; decide)

/-- `\uXXXX` escapes of a non-surrogate -/
theorem Frag.uni (h1 h2 h3 h4 : UInt8) (cp : Nat) (hv : hexVal4 h1 h2 h3 h4 = some cp)
    (hs : ¬ (0xD800 ≤ cp ∧ cp ≤ 0xDFFF)) : Frag [0x5c, 0x75, h1, h2, h3, h4] (utf8Enc cp) := by
  have x1 : isHex h1 = true := by
    unfold hexVal4 at hv; unfold isHex; cases e : unhexDigit h1 <;> simp [e] at hv ⊢
  have x2 : isHex h2 = true := by
    unfold hexVal4 at hv; unfold isHex; cases e : unhexDigit h2 <;> simp [e] at hv ⊢
  have x3 : isHex h3 = true := by
    unfold hexVal4 at hv; unfold isHex; cases e : unhexDigit h3 <;> simp [e] at hv ⊢
  have x4 : isHex h4 = true := by
    unfold hexVal4 at hv; unfold isHex; cases e : unhexDigit h4 <;> simp [e] at hv ⊢
  refine ⟨fun r => ?_, fun r => ?_, fun r acc => ?_⟩
  · simp [strBodyOK_bs, x1, x2, x3, x4]
  · simp only [List.cons_append, List.nil_append, unescape_bs, hv]
    cases unescape r <;> simp [hs]
  · have n1 := isHex_ne h1 x1
    have n2 := isHex_ne h2 x2
    have n3 := isHex_ne h3 x3
    have n4 := isHex_ne h4 x4
    simp only [List.cons_append, List.nil_append, takeStrBody]
    rw [takeStrBody_plain _ _ _ n1.1 n1.2, takeStrBody_plain _ _ _ n2.1 n2.2, takeStrBody_plain _ _ _ n3.1 n3.2,
      takeStrBody_plain _ _ _ n4.1 n4.2]
    simp


theorem hexVal4_hex4_small : ∀ n, n < 128 →
    hexVal4 (hexDigit (n / 4096)) (hexDigit (n / 256 % 16)) (hexDigit (n / 16 % 16)) (hexDigit (n % 16)) = some n := by
  decide +kernel

theorem utf8Enc_small (b : UInt8) (h : b.toNat < 0x80) : utf8Enc b.toNat = [b] := by
  simp [utf8Enc, h]

theorem asc_u_hex4 (n : Nat) : asc "\\u" ++ hex4 n =
    [0x5c, 0x75, hexDigit (n / 4096), hexDigit (n / 256 % 16), hexDigit (n / 16 % 16), hexDigit (n % 16)] := rfl

theorem Frag.ascii (b : UInt8) (h : b.toNat < 0x80) : Frag (escAscii b) [b] := by
  unfold escAscii
  simp only
  split
  · rename_i e; have : b = 0x22 := UInt8.eq_of_toNat e; subst this; exact Frag.simple _ _ (by simp)
  split
  · rename_i e; have : b = 0x5c := UInt8.eq_of_toNat e; subst this; exact Frag.simple _ _ (by simp)
  split
  · rename_i e; have : b = 0x08 := UInt8.eq_of_toNat e; subst this; exact Frag.simple 0x62 _ (by simp)
  split
  · rename_i e; have : b = 0x0c := UInt8.eq_of_toNat e; subst this; exact Frag.simple 0x66 _ (by simp)
  split
  · rename_i e; have : b = 0x0a := UInt8.eq_of_toNat e; subst this; exact Frag.simple 0x6e _ (by simp)
  split
  · rename_i e; have : b = 0x0d := UInt8.eq_of_toNat e; subst this; exact Frag.simple 0x72 _ (by simp)
  split
  · rename_i e; have : b = 0x09 := UInt8.eq_of_toNat e; subst this; exact Frag.simple 0x74 _ (by simp)
  split
  · rw [asc_u_hex4, ← utf8Enc_small b h]
    exact Frag.uni _ _ _ _ _ (hexVal4_hex4_small _ h) (by omega)
  · rename_i n1 n2 _ _ _ _ _ n3
    refine Frag.plain b ?_ ?_ (by omega)
    · intro e; subst e; simp at n1
    · intro e; subst e; simp at n2

theorem Frag.fffd : Frag (asc "\\ufffd") [0xEF, 0xBF, 0xBD] :=
  Frag.uni 0x66 0x66 0x66 0x64 0xfffd (by decide) (by decide)

theorem Frag.ls (cp : Nat) (h : cp = 0x2028 ∨ cp = 0x2029) : Frag (asc "\\u" ++ hex4 cp) (utf8Enc cp) := by
  rw [asc_u_hex4]
  rcases h with rfl | rfl
  · exact Frag.uni _ _ _ _ _ (by decide) (by decide)
  · exact Frag.uni _ _ _ _ _ (by decide) (by decide)

/-- the escaper's output is a sequence of complete tokens decoding to the sanitised input -/
theorem Frag.escape (s : Bytes) : Frag (jsonEscape s) (sanitize s) := by
  generalize hn : s.length = n
  induction n using Nat.strongRecOn generalizing s with
  | _ n ih =>
    rcases s with _ | ⟨b, rest⟩
    · rw [jsonEscape_nil, sanitize_nil]; exact Frag.nil
    · simp only [List.length_cons] at hn
      by_cases hb : b.toNat < 0x80
      · rw [jsonEscape_ascii b rest hb, sanitize_rune b rest _ _ (decodeRune_ascii b rest hb)]
        exact (Frag.ascii b hb).append (ih rest.length (by omega) rest rfl)
      · cases hd : decodeRune (b :: rest) with
        | none =>
          rw [jsonEscape_bad b rest hb hd, sanitize_bad b rest hd]
          exact Frag.fffd.append (ih rest.length (by omega) rest rfl)
        | some p =>
          obtain ⟨cp, w⟩ := p
          have hl := decodeRune_drop_le hd
          have hr := decodeRune_runeAt hd
          rw [sanitize_rune b rest cp w hd]
          by_cases hc : cp = 0x2028 ∨ cp = 0x2029
          · rw [jsonEscape_ls b rest cp w hb hd hc, hr.ls hc]
            exact (Frag.ls cp hc).append (ih _ (by omega) _ rfl)
          · rw [jsonEscape_rune b rest cp w hb hd hc]
            refine (Frag.plains _ (hr.high ?_)).append (ih _ (by omega) _ rfl)
            intro b' t e; cases e; omega


/-! ### UTF-8 validity of the escaped text -/

theorem validUtf8_ascii_append (f r : Bytes) (h : ∀ c ∈ f, c.toNat < 0x80) : validUtf8 (f ++ r) = validUtf8 r := by
  induction f with
  | nil => rfl
  | cons c t ih =>
    rw [List.cons_append, validUtf8_rune _ _ _ (decodeRune_ascii c _ (h c (by simp)))]
    exact ih (fun d hd => h d (by simp [hd]))

theorem validUtf8_rune_append (xs r : Bytes) (cp w : Nat) (hd : decodeRune xs = some (cp, w)) :
    validUtf8 (xs.take w ++ r) = validUtf8 r := by
  have hr := decodeRune_runeAt hd
  rw [validUtf8_rune _ _ _ (runeAt_decodeRune (hr.take_append r))]
  have := hr.width
  rw [List.drop_append_of_le_length (by simp; omega)]
  simp

theorem escAscii_ascii_nat : ∀ n, n < 128 → ∀ c ∈ escAscii (UInt8.ofNat n), c.toNat < 0x80 := by
  decide +kernel

theorem escAscii_ascii (b : UInt8) (h : b.toNat < 0x80) : ∀ c ∈ escAscii b, c.toNat < 0x80 := by
  have := escAscii_ascii_nat b.toNat h
  simpa using this

theorem validUtf8_escape (s : Bytes) : validUtf8 (jsonEscape s) = true := by
  generalize hn : s.length = n
  induction n using Nat.strongRecOn generalizing s with
  | _ n ih =>
    rcases s with _ | ⟨b, rest⟩
    · rw [jsonEscape_nil]; exact validUtf8_nil
    · simp only [List.length_cons] at hn
      by_cases hb : b.toNat < 0x80
      · rw [jsonEscape_ascii b rest hb, validUtf8_ascii_append _ _ (escAscii_ascii b hb)]
        exact ih rest.length (by omega) rest rfl
      · cases hd : decodeRune (b :: rest) with
        | none =>
          rw [jsonEscape_bad b rest hb hd, validUtf8_ascii_append _ _ (by decide)]
          exact ih rest.length (by omega) rest rfl
        | some p =>
          obtain ⟨cp, w⟩ := p
          have hl := decodeRune_drop_le hd
          by_cases hc : cp = 0x2028 ∨ cp = 0x2029
          · rw [jsonEscape_ls b rest cp w hb hd hc, validUtf8_ascii_append _ _ (by rcases hc with rfl | rfl <;> decide)]
            exact ih _ (by omega) _ rfl
          · rw [jsonEscape_rune b rest cp w hb hd hc, validUtf8_rune_append _ _ _ _ hd]
            exact ih _ (by omega) _ rfl

theorem sanitize_valid (s : Bytes) (h : validUtf8 s = true) : sanitize s = s := by
  generalize hn : s.length = n
  induction n using Nat.strongRecOn generalizing s with
  | _ n ih =>
    rcases s with _ | ⟨b, rest⟩
    · exact sanitize_nil
    · simp only [List.length_cons] at hn
      cases hd : decodeRune (b :: rest) with
      | none => rw [validUtf8_bad b rest hd] at h; cases h
      | some p =>
        obtain ⟨cp, w⟩ := p
        have hl := decodeRune_drop_le hd
        rw [validUtf8_rune _ _ _ hd] at h
        rw [sanitize_rune b rest cp w hd, ih _ (by omega) _ h rfl, List.take_append_drop]

/-! ### unfolding the parser on a known first byte -/

theorem parseJV_str (f : Nat) (rest : Bytes) : parseJV (f + 1) (0x22 :: rest) =
      (match takeStrBody rest [] with
       | some (body, rest') =>
         if strBodyOK body && validUtf8 body then (unescape body).map fun s => (.str s, rest') else none
       | none => none) := by
  conv => lhs; unfold parseJV
  rfl
theorem parseJV_null (f : Nat) (rest : Bytes) : parseJV (f + 1) (0x6e :: 0x75 :: 0x6c :: 0x6c :: rest) = some (.null, rest) := by
  conv => lhs; unfold parseJV
  rfl
theorem parseJV_true (f : Nat) (rest : Bytes) : parseJV (f + 1) (0x74 :: 0x72 :: 0x75 :: 0x65 :: rest) = some (.bool true, rest) := by
  conv => lhs; unfold parseJV
  rfl
theorem parseJV_false (f : Nat) (rest : Bytes) : parseJV (f + 1) (0x66 :: 0x61 :: 0x6c :: 0x73 :: 0x65 :: rest) = some (.bool false, rest) := by
  conv => lhs; unfold parseJV
  rfl
theorem parseJV_arr0 (f : Nat) (rest : Bytes) : parseJV (f + 1) (0x5b :: 0x5d :: rest) = some (.arr [], rest) := by
  conv => lhs; unfold parseJV
  rfl
theorem parseJV_arr (f : Nat) (rest : Bytes) : parseJV (f + 1) (0x5b :: 0x7b :: rest) =
    (parseItems f (0x7b :: rest)).map fun (l, r) => (.arr l, r) := by
  conv => lhs; unfold parseJV
  rfl
theorem parseJV_obj (f : Nat) (rest : Bytes) : parseJV (f + 1) (0x7b :: 0x22 :: rest) =
    (parseFields f (0x22 :: rest)).map fun (l, r) => (.obj l, r) := by
  conv => lhs; unfold parseJV
  rfl
theorem parseJV_neg (f : Nat) (rest : Bytes) : parseJV (f + 1) (0x2d :: rest) =
      (match takeDigits rest [] with
       | (ds, rest') => (decValue ds).map fun v => (.num (-(v : Int)), rest')) := by
  conv => lhs; unfold parseJV
  rfl
theorem parseItems_unf (f : Nat) (inp : Bytes) : parseItems (f + 1) inp =
    match parseJV f inp with
    | some (v, 0x2c :: rest) => (parseItems f rest).map fun (l, r) => (v :: l, r)
    | some (v, 0x5d :: rest) => some ([v], rest)
    | _ => none := by
  conv => lhs; unfold parseItems
  rfl
theorem parseFields_unf (f : Nat) (rest : Bytes) : parseFields (f + 1) (0x22 :: rest) =
      (match takeStrBody rest [] with
       | some (kb, 0x3a :: rest') =>
         if strBodyOK kb && validUtf8 kb then
           match unescape kb, parseJV f rest' with
           | some k, some (v, 0x2c :: rest'') => (parseFields f rest'').map fun (l, r) => ((k, v) :: l, r)
           | some k, some (v, 0x7d :: rest'') => some ([(k, v)], rest'')
           | _, _ => none
         else none
       | _ => none) := by
  conv => lhs; unfold parseFields
  rfl
theorem parseJV_dig (f : Nat) (c : UInt8) (rest : Bytes) (h : isDigit c = true) : parseJV (f + 1) (c :: rest) =
        (match takeDigits (c :: rest) [] with
         | (ds, rest') => (decValue ds).map fun v => (.num (v : Int), rest')) := by
  have hd : ∀ n, n < 256 → isDigit (UInt8.ofNat n) = true → n = 48 ∨ n = 49 ∨ n = 50 ∨ n = 51 ∨ n = 52 ∨ n = 53 ∨
      n = 54 ∨ n = 55 ∨ n = 56 ∨ n = 57 := by decide +kernel
  have hc : c = UInt8.ofNat c.toNat := by simp
  have := hd c.toNat (UInt8.toNat_lt c) (by rw [← hc]; exact h)
  rcases this with e | e | e | e | e | e | e | e | e | e <;>
  · rw [e] at hc
    subst hc
    conv => lhs; unfold parseJV
    rfl

/-! ### print/parse combinators (fuel bound: more fuel than printed bytes) -/

/-- the input does not continue with a digit (so a number ends here) -/
def ND (rest : Bytes) : Prop := ∀ c t, rest = c :: t → isDigit c = false

theorem ND_nil : ND [] := by intro c t h; cases h
theorem ND_cons (c : UInt8) (t : Bytes) (h : isDigit c = false) : ND (c :: t) := by
  intro c' t' e; cases e; exact h

/-- `p` is a text that parses to `v`, whatever follows -/
def PJ (p : Bytes) (v : JV) : Prop := ∀ f rest, p.length < f → parseJV f (p ++ rest) = some (v, rest)
/-- `p` is a text that parses to `v`, if no digit follows -/
def PJw (p : Bytes) (v : JV) : Prop := ∀ f rest, p.length < f → ND rest → parseJV f (p ++ rest) = some (v, rest)
/-- `q` is the text of the fields of an object including the closing brace -/
def PF (q : Bytes) (l : List (Bytes × JV)) : Prop := ∀ f rest, q.length < f → parseFields f (q ++ rest) = some (l, rest)
/-- `q` is the text of the items of an array including the closing bracket -/
def PI (q : Bytes) (l : List JV) : Prop := ∀ f rest, q.length < f → parseItems f (q ++ rest) = some (l, rest)

theorem PJ.cast {p p' : Bytes} {v v' : JV} (h : PJ p v) (e : p' = p) (e2 : v' = v) : PJ p' v' := by
  subst e e2; exact h

theorem PJ.w {p : Bytes} {v : JV} (h : PJ p v) : PJw p v := fun f rest hf _ => h f rest hf

theorem takeStrBody_escape (s rest : Bytes) :
    takeStrBody (jsonEscape s ++ 0x22 :: rest) [] = some (jsonEscape s, rest) := by
  rw [(Frag.escape s).ts, takeStrBody.eq_2]; simp

theorem strBodyOK_escape (s : Bytes) : strBodyOK (jsonEscape s) = true := by
  have := (Frag.escape s).sb []
  simpa [strBodyOK] using this

theorem unescape_escape (s : Bytes) : unescape (jsonEscape s) = some (sanitize s) := by
  have := (Frag.escape s).un []
  simpa [unescape] using this

theorem PJ_str (s : Bytes) : PJ (jstr s) (.str (sanitize s)) := by
  intro f rest hf
  rcases f with _ | f
  · omega
  have e : jstr s ++ rest = 0x22 :: (jsonEscape s ++ 0x22 :: rest) := by simp [jstr]
  rw [e, parseJV_str, takeStrBody_escape]
  simp [strBodyOK_escape, validUtf8_escape, unescape_escape]

theorem PJ_null : PJ (asc "null") .null := by
  intro f rest hf
  rcases f with _ | f
  · omega
  exact parseJV_null f rest

theorem PJ_bool (b : Bool) : PJ (if b then asc "true" else asc "false") (.bool b) := by
  intro f rest hf
  rcases f with _ | f
  · omega
  cases b
  · exact parseJV_false f rest
  · exact parseJV_true f rest

theorem takeDigits_append (ds rest acc : Bytes) (hd : ∀ c ∈ ds, isDigit c = true) (hr : ND rest) :
    takeDigits (ds ++ rest) acc = (acc.reverse ++ ds, rest) := by
  induction ds generalizing acc with
  | nil =>
    rcases rest with _ | ⟨c, t⟩
    · simp [takeDigits]
    · simp [takeDigits, hr c t rfl]
  | cons d ds ih =>
    simp only [List.cons_append, takeDigits, hd d (by simp), if_true]
    rw [ih _ (fun c hc => hd c (by simp [hc]))]
    simp

theorem natDec_cons (n : Nat) : ∃ d t, natDec n = d :: t ∧ isDigit d = true := by
  have h1 := natDec_ne_nil n
  have h2 := natDec_all_digits n
  rcases h : natDec n with _ | ⟨d, t⟩
  · exact absurd h h1
  · exact ⟨d, t, rfl, h2 d (by simp [h])⟩

theorem PJw_int (v : Int) : PJw (intDec v) (.num v) := by
  intro f rest hf hr
  rcases f with _ | f
  · omega
  unfold intDec
  split
  · rename_i hneg
    rw [List.cons_append, parseJV_neg, takeDigits_append _ _ _ (natDec_all_digits _) hr]
    have hv : -(v.natAbs : Int) = v := by omega
    simp [decValue_natDec, hv]
  · rename_i hpos
    obtain ⟨d, t, e, hd⟩ := natDec_cons v.natAbs
    have h2 := natDec_all_digits v.natAbs
    have h3 := decValue_natDec v.natAbs
    rw [e] at h2 h3 ⊢
    rw [List.cons_append, parseJV_dig f d _ hd, ← List.cons_append, takeDigits_append _ _ _ h2 hr]
    have hv : (v.natAbs : Int) = v := by omega
    simp [h3, hv]

/-- key literals that need no escaping -/
def KeyOK (k : String) : Prop := jsonEscape (asc k) = asc k ∧ sanitize (asc k) = asc k

theorem jkey_eq (k : String) (hk : KeyOK k) (x : Bytes) :
    jkey k ++ x = 0x22 :: (jsonEscape (asc k) ++ 0x22 :: 0x3a :: x) := by
  rw [hk.1]; simp [jkey]; rfl

theorem jkey_length (k : String) : (jkey k).length = (asc k).length + 3 := by
  simp [jkey]; rfl

theorem PF_last (k : String) (hk : KeyOK k) {pv : Bytes} {v : JV} (hv : PJw pv v) :
    PF (jkey k ++ pv ++ [0x7d]) [(asc k, v)] := by
  intro f rest hf
  rcases f with _ | f
  · omega
  simp only [List.length_append, jkey_length, List.length_singleton] at hf
  rw [List.append_assoc, List.append_assoc, jkey_eq k hk, parseFields_unf, takeStrBody_escape]
  simp only [strBodyOK_escape, validUtf8_escape, unescape_escape, hk.2, Bool.and_self, if_true, List.cons_append,
    List.nil_append]
  rw [hv f _ (by omega) (ND_cons _ _ (by decide))]
  rfl

theorem PF_cons (k : String) (hk : KeyOK k) {pv : Bytes} {v : JV} (hv : PJw pv v) {q : Bytes} {l : List (Bytes × JV)}
    (hq : PF q l) : PF (jkey k ++ pv ++ [0x2c] ++ q) ((asc k, v) :: l) := by
  intro f rest hf
  rcases f with _ | f
  · omega
  simp only [List.length_append, jkey_length, List.length_singleton] at hf
  rw [List.append_assoc, List.append_assoc, List.append_assoc, jkey_eq k hk, parseFields_unf, takeStrBody_escape]
  simp only [strBodyOK_escape, validUtf8_escape, unescape_escape, hk.2, Bool.and_self, if_true, List.cons_append,
    List.nil_append]
  rw [hv f _ (by omega) (ND_cons _ _ (by decide))]
  simp only []
  rw [hq f rest (by omega)]
  rfl

theorem PJ_obj {q : Bytes} {l : List (Bytes × JV)} (hq : PF q l) (h0 : q.head? = some 0x22) :
    PJ (0x7b :: q) (.obj l) := by
  intro f rest hf
  rcases f with _ | f
  · omega
  rcases q with _ | ⟨c, t⟩
  · simp at h0
  simp only [List.head?_cons, Option.some.injEq] at h0
  subst h0
  simp only [List.length_cons] at hf
  have := hq f rest (by simp only [List.length_cons]; omega)
  rw [List.cons_append, List.cons_append, parseJV_obj, ← List.cons_append, this]
  rfl

theorem PI_last {p : Bytes} {v : JV} (hv : PJw p v) : PI (p ++ [0x5d]) [v] := by
  intro f rest hf
  rcases f with _ | f
  · omega
  simp only [List.length_append, List.length_singleton] at hf
  rw [List.append_assoc, parseItems_unf, List.cons_append, List.nil_append, hv f _ (by omega) (ND_cons _ _ (by decide))]
  rfl

theorem PI_cons {p : Bytes} {v : JV} (hv : PJw p v) {q : Bytes} {l : List JV} (hq : PI q l) :
    PI (p ++ [0x2c] ++ q) (v :: l) := by
  intro f rest hf
  rcases f with _ | f
  · omega
  simp only [List.length_append, List.length_singleton] at hf
  rw [List.append_assoc, List.append_assoc, parseItems_unf, List.cons_append, List.nil_append, hv f _ (by omega) (ND_cons _ _ (by decide))]
  simp only []
  rw [hq f rest (by omega)]
  rfl

theorem PI_join {α : Type} (pr : α → Bytes) (sh : α → JV) (i : α) (is : List α)
    (h : ∀ x ∈ i :: is, PJw (pr x) (sh x)) :
    PI (joinWith [0x2c] ((i :: is).map pr) ++ [0x5d]) ((i :: is).map sh) := by
  induction is generalizing i with
  | nil => exact PI_last (h i (by simp))
  | cons j js ih =>
    have := PI_cons (h i (by simp)) (ih j (fun x hx => h x (by simp [hx])))
    simpa [joinWith, List.append_assoc] using this

theorem PJ_arr {α : Type} (pr : α → Bytes) (sh : α → JV) (items : List α)
    (h : ∀ x ∈ items, PJw (pr x) (sh x)) (hb : ∀ x ∈ items, (pr x).head? = some 0x7b) :
    PJ (jarr (items.map pr)) (.arr (items.map sh)) := by
  intro f rest hf
  rcases f with _ | f
  · omega
  rcases items with _ | ⟨i, is⟩
  · exact parseJV_arr0 f rest
  · have hq := PI_join pr sh i is h
    have hl : (jarr ((i :: is).map pr)).length = (joinWith [0x2c] ((i :: is).map pr) ++ [0x5d]).length + 1 := by
      simp [jarr]
    obtain ⟨t, ht⟩ : ∃ t, joinWith [0x2c] ((i :: is).map pr) = 0x7b :: t := by
      obtain ⟨t, ht⟩ : ∃ t, pr i = 0x7b :: t := by
        have := hb i (by simp)
        cases hp : pr i with
        | nil => rw [hp] at this; simp at this
        | cons c t =>
          rw [hp] at this
          simp only [List.head?_cons, Option.some.injEq] at this
          exact ⟨t, by rw [this]⟩
      rcases is with _ | ⟨j, js⟩
      · exact ⟨t, by simp [joinWith, ht]⟩
      · exact ⟨_, by simp only [List.map_cons, joinWith, ht, List.cons_append]; rfl⟩
    have e : jarr ((i :: is).map pr) ++ rest = 0x5b :: (joinWith [0x2c] ((i :: is).map pr) ++ [0x5d] ++ rest) := by
      simp [jarr]
    have := hq f rest (by omega)
    rw [e]
    rw [ht] at this ⊢
    rw [List.cons_append, List.cons_append, parseJV_arr]
    rw [List.cons_append, List.cons_append] at this
    rw [this]
    rfl


/-! ### the marshalers -/

theorem keyOK_all : KeyOK "filed" ∧ KeyOK "type" ∧ KeyOK "isEmpty" ∧ KeyOK "data" ∧ KeyOK "Columns" ∧ KeyOK "name" ∧
    KeyOK "db" ∧ KeyOK "table" ∧ KeyOK "timestamp" ∧ KeyOK "sql" ∧ KeyOK "rowValues" ∧ KeyOK "rowIdentifies" ∧
    KeyOK "nowPosition" ∧ KeyOK "nextPosition" ∧ KeyOK "filename" ∧ KeyOK "offset" ∧ KeyOK "events" := by
  unfold KeyOK; decide +kernel

theorem asc_comma : asc "," = [0x2c] := rfl
theorem asc_lb : asc "{" = [0x7b] := rfl
theorem asc_rb : asc "}" = [0x7d] := rfl
theorem asc_rbc : asc "}," = [0x7d, 0x2c] := rfl

theorem PJ_col (c : JCol) : PJ (marshalCol c) (shapeCol c) := by
  obtain ⟨k1, k2, k3, k4, -⟩ := keyOK_all
  have key : ∀ (pd : Bytes) (vd : JV), PJw pd vd →
      PJ (asc "{" ++ jkey "filed" ++ jstr c.filed ++ asc "," ++ jkey "type" ++ jstr (asc (columnTypeName c.typ)) ++
        asc "," ++ jkey "isEmpty" ++ (if c.isEmpty then asc "true" else asc "false") ++ asc "," ++ jkey "data" ++
        pd ++ asc "}")
      (.obj [(k "filed", jstrV c.filed), (k "type", jstrV (asc (columnTypeName c.typ))), (k "isEmpty", .bool c.isEmpty),
        (k "data", vd)]) := by
    intro pd vd hdata
    have h := PJ_obj (PF_cons "filed" k1 (PJ_str c.filed).w (PF_cons "type" k2 (PJ_str (asc (columnTypeName c.typ))).w
      (PF_cons "isEmpty" k3 (PJ_bool c.isEmpty).w (PF_last "data" k4 hdata)))) (by simp [jkey])
    refine h.cast ?_ rfl
    simp only [asc_comma, asc_lb, asc_rb, List.append_assoc, List.cons_append, List.nil_append]
  obtain ⟨filed, typ, isEmpty, data⟩ := c
  cases data with
  | none => exact key _ _ PJ_null.w
  | some d => exact key _ _ (PJ_str d).w


theorem marshalCol_head (c : JCol) : (marshalCol c).head? = some 0x7b := by
  simp [marshalCol, asc_lb]

theorem PJ_row (r : List JCol) : PJ (marshalRow r) (.obj [(k "Columns", .arr (r.map shapeCol))]) := by
  obtain ⟨-, -, -, -, k5, -⟩ := keyOK_all
  have h := PJ_obj (PF_last "Columns" k5
    (PJ_arr marshalCol shapeCol r (fun x _ => (PJ_col x).w) (fun x _ => marshalCol_head x)).w) (by simp [jkey])
  refine h.cast ?_ rfl
  simp only [marshalRow, asc_lb, asc_rb, List.append_assoc, List.cons_append, List.nil_append]

theorem marshalRow_head (r : List JCol) : (marshalRow r).head? = some 0x7b := by
  simp [marshalRow, asc_lb]

theorem PJ_rows (rs : Option (List (List JCol))) : PJ (marshalRows rs) (shapeRows rs) := by
  cases rs with
  | none => exact PJ_null
  | some rs =>
    exact PJ_arr marshalRow (fun r => .obj [(k "Columns", .arr (r.map shapeCol))]) rs (fun x _ => (PJ_row x).w)
      (fun x _ => marshalRow_head x)

theorem PJ_pos (file : Bytes) (off : Int) :
    PJ (marshalPos file off) (.obj [(k "filename", jstrV file), (k "offset", .num off)]) := by
  obtain ⟨-, -, -, -, -, -, -, -, -, -, -, -, -, -, k15, k16, -⟩ := keyOK_all
  have h := PJ_obj (PF_cons "filename" k15 (PJ_str file).w (PF_last "offset" k16 (PJw_int off))) (by simp [jkey])
  refine h.cast ?_ rfl
  simp only [marshalPos, asc_comma, asc_lb, asc_rb, List.append_assoc, List.cons_append, List.nil_append]

theorem PJ_event (ft : Int → Bytes) (e : JEvent) : PJ (marshalEvent ft e) (shapeEvent ft e) := by
  obtain ⟨-, k2, -, -, -, k6, k7, k8, k9, k10, k11, k12, -⟩ := keyOK_all
  have hname := PJ_obj (PF_cons "db" k7 (PJ_str e.db).w (PF_last "table" k8 (PJ_str e.table).w)) (by simp [jkey])
  by_cases hsql : e.sql ≠ []
  · have h := PJ_obj (PF_cons "name" k6 hname.w (PF_cons "type" k2 (PJ_str (asc (statementName e.typ))).w
      (PF_cons "timestamp" k9 (PJ_str (ft e.ts)).w (PF_last "sql" k10 (PJ_str e.sql).w)))) (by simp [jkey])
    refine h.cast ?_ ?_
    · simp only [marshalEvent, if_pos hsql, asc_comma, asc_lb, asc_rb, asc_rbc, List.append_assoc, List.cons_append,
        List.nil_append]
    · simp only [shapeEvent, if_pos hsql]; rfl
  · have h := PJ_obj (PF_cons "name" k6 hname.w (PF_cons "type" k2 (PJ_str (asc (statementName e.typ))).w
      (PF_cons "timestamp" k9 (PJ_str (ft e.ts)).w (PF_cons "rowValues" k11 (PJ_rows e.rowValues).w
      (PF_last "rowIdentifies" k12 (PJ_rows e.rowIdentifies).w))))) (by simp [jkey])
    refine h.cast ?_ ?_
    · simp only [marshalEvent, if_neg hsql, asc_comma, asc_lb, asc_rb, asc_rbc, List.append_assoc, List.cons_append,
        List.nil_append]
    · simp only [shapeEvent, if_neg hsql]; rfl

theorem marshalEvent_head (ft : Int → Bytes) (e : JEvent) : (marshalEvent ft e).head? = some 0x7b := by
  unfold marshalEvent; simp only; split <;> simp [asc_lb]

theorem PJ_tx (ft : Int → Bytes) (t : JTx) : PJ (marshalTx ft t) (shapeTx ft t) := by
  obtain ⟨-, -, -, -, -, -, -, -, k9, -, -, -, k13, k14, -, -, k17⟩ := keyOK_all
  have key : ∀ (pd : Bytes) (vd : JV), PJw pd vd →
      PJ (asc "{" ++ jkey "nowPosition" ++ marshalPos t.nowFile t.nowOff ++ asc "," ++ jkey "nextPosition" ++
        marshalPos t.nextFile t.nextOff ++ asc "," ++ jkey "timestamp" ++ jstr (ft t.ts) ++ asc "," ++ jkey "events" ++
        pd ++ asc "}")
      (.obj [(k "nowPosition", .obj [(k "filename", jstrV t.nowFile), (k "offset", .num t.nowOff)]),
        (k "nextPosition", .obj [(k "filename", jstrV t.nextFile), (k "offset", .num t.nextOff)]),
        (k "timestamp", jstrV (ft t.ts)), (k "events", vd)]) := by
    intro pd vd hd
    have h := PJ_obj (PF_cons "nowPosition" k13 (PJ_pos t.nowFile t.nowOff).w (PF_cons "nextPosition" k14
      (PJ_pos t.nextFile t.nextOff).w (PF_cons "timestamp" k9 (PJ_str (ft t.ts)).w (PF_last "events" k17 hd))))
      (by simp [jkey])
    refine h.cast ?_ rfl
    simp only [asc_comma, asc_lb, asc_rb, List.append_assoc, List.cons_append, List.nil_append]
  obtain ⟨nowFile, nowOff, nextFile, nextOff, ts, events⟩ := t
  cases events with
  | none => exact key _ _ PJ_null.w
  | some es =>
    exact key _ _ (PJ_arr (marshalEvent ft) (shapeEvent ft) es (fun x _ => (PJ_event ft x).w)
      (fun x _ => marshalEvent_head ft x)).w

theorem parse_of_PJ {p : Bytes} {v : JV} (h : PJ p v) : parse p = some v := by
  unfold parse
  have := h (p.length + 1) [] (by omega)
  rw [List.append_nil] at this
  rw [this]

end GV
