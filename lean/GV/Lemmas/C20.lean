import GV.Spec.JsonText
import GV.Lemmas.Dec
/- helper lemmas for GV/Props/C20.lean -/
namespace GV

end GV
