import GV.Lemmas.C01c
/-
  Definitions and helper lemmas for GV/Props/C15b.lean (byte-level fidelity when table ids are RE-DEFINED, and the
  rejection of a mapper table whose column count disagrees with the table map).
  The first section holds the definitions the property statements are made of; the rest generalises the machinery
  of GV/Lemmas/C01c.lean (`Good`, `Inv`, `tm_step`, `announce_run`, `changes_run`, `units_run`) in two directions:
    * the invariant tracks, per table id, the LAST definition announced for it (the cached table map) while the
      cached mapper answer is the one of the first announcement OF THAT TABLE (database, name) since the id was last
      announced for another one — equal to `infoOf` of every later definition of the table, the mapper being a function;
    * `Good` is relative to an arbitrary tail of inputs and final error flag, and the runs take a continuation, so the
      same induction gives the run up to a rejected TABLE_MAP event.
-/
namespace GV
namespace C15b
open Bytes M GV.Props.C01 GV.Props.C01b GV.C01c

/-! ### the statements' vocabulary -/

/-- the definition most recently announced for table id `id`; `anns` lists the announcements (TABLE_MAP events) seen
    so far, most recent first -/
def lastDef (anns : List W.TableDef) (id : Nat) : Option W.TableDef := anns.find? (fun t => t.id == id)

/-- the announcements after the rows change `c`: with `announce := true` its own TABLE_MAP event precedes it -/
def annAfter (anns : List W.TableDef) (c : W.RowsChange) : List W.TableDef :=
  if c.announce then c.table :: anns else anns

/-- every rows change is written in the encoding of the definition MOST RECENTLY announced for its table id at that
    point of the log (its own announcement included) -/
def curOK : List W.TableDef → List W.RowsChange → Prop
  | _, [] => True
  | anns, c :: cs => (c.announce = true ∨ lastDef anns c.table.id = some c.table) ∧ curOK (annAfter anns c) cs

/-- two definitions the table mapper cannot tell apart: same schema / table / column names / signedness / column count
    (column types, metadata and nullability may differ) -/
def SameInfo (t1 t2 : W.TableDef) : Prop :=
  t1.db = t2.db ∧ t1.name = t2.name ∧ t1.names = t2.names ∧ t1.unsigned = t2.unsigned ∧ t1.cols.length = t2.cols.length

/-- well-formed histories with re-definitions: `WFHist` with `tables` (one definition per id) and `announced` replaced
    by `agree` and `current` -/
structure WFHistRedef (cfg : W.Cfg) (h : W.History) : Prop where
  units : ∀ u ∈ h, UnitOK cfg u
  /-- all definitions sharing a table id look the same to the table mapper -/
  agree : ∀ c1 ∈ histRows h, ∀ c2 ∈ histRows h, c1.table.id = c2.table.id → SameInfo c1.table c2.table
  /-- every rows change uses the definition most recently announced for its id -/
  current : curOK [] (histRows h)
  /-- every event ends below 4 GiB in its file -/
  offsets : ∀ e ∈ W.layout cfg h, e.next < 2 ^ 32

/-- the first rows change of a unit (the one whose TABLE_MAP event comes first) -/
def firstRows (u : W.Unit) : Option W.RowsChange := (unitRows u).head?

/-- the mapper fails for `t` (error) or answers with a column count different from the table map's -/
def MapperRejects (env : Env) (t : W.TableDef) : Prop :=
  ∀ info, env.mapper t.db t.name = some info → info.columns.length ≠ t.cols.length

/-! ### `lastDef` -/

theorem lastDef_cons (t : W.TableDef) (anns : List W.TableDef) (id : Nat) :
    lastDef (t :: anns) id = if t.id = id then some t else lastDef anns id := by
  by_cases h : t.id = id <;> simp [lastDef, h]

theorem lastDef_some {anns : List W.TableDef} {id : Nat} {t : W.TableDef} (h : lastDef anns id = some t) :
    t ∈ anns ∧ t.id = id := by
  refine ⟨List.mem_of_find?_eq_some h, ?_⟩
  have := List.find?_some h
  simpa using this

theorem lastDef_none {anns : List W.TableDef} {id : Nat} (h : ∀ t ∈ anns, t.id ≠ id) : lastDef anns id = none := by
  unfold lastDef
  rw [List.find?_eq_none]
  intro t ht
  simpa using h t ht

theorem lastDef_of_mem {anns : List W.TableDef} {id : Nat} {t : W.TableDef} (ht : t ∈ anns) (hid : t.id = id) :
    ∃ t', lastDef anns id = some t' := by
  cases h : lastDef anns id with
  | some t' => exact ⟨t', rfl⟩
  | none =>
    unfold lastDef at h
    rw [List.find?_eq_none] at h
    have := h t ht
    simp [hid] at this

theorem sameInfo_infoOf {t1 t2 : W.TableDef} (h : SameInfo t1 t2) : infoOf t1 = infoOf t2 := by
  obtain ⟨h1, h2, h3, h4, _⟩ := h
  simp [infoOf, h1, h2, h3, h4]

theorem sameInfo_refl (t : W.TableDef) : SameInfo t t := ⟨rfl, rfl, rfl, rfl, rfl⟩

instance (t1 t2 : W.TableDef) : Decidable (SameInfo t1 t2) := by unfold SameInfo; infer_instance

/-! ### `WFHist → WFHistRedef` -/

theorem curOK_of_annOK (Q : W.TableDef → Prop) (uniq : ∀ t1 t2, Q t1 → Q t2 → t1.id = t2.id → t1 = t2) :
    ∀ (cs : List W.RowsChange) (known : List Nat) (anns : List W.TableDef),
      (∀ id ∈ known, ∃ t ∈ anns, t.id = id) → (∀ t ∈ anns, Q t) → (∀ c ∈ cs, Q c.table) → annOK known cs →
      curOK anns cs
  | [], _, _, _, _, _, _ => trivial
  | c :: cs, known, anns, hk, hq, hc, h => by
    obtain ⟨h1, h2⟩ := h
    have hQc : Q c.table := hc c List.mem_cons_self
    refine ⟨?_, curOK_of_annOK Q uniq cs (c.table.id :: known) (annAfter anns c) ?_ ?_
      (fun x hx => hc x (List.mem_cons_of_mem _ hx)) h2⟩
    · rcases h1 with h1 | h1
      · exact Or.inl h1
      · right
        obtain ⟨t, ht, hid⟩ := hk _ h1
        obtain ⟨t', ht'⟩ := lastDef_of_mem ht hid
        obtain ⟨hm, hid'⟩ := lastDef_some ht'
        rw [ht', uniq t' c.table (hq t' hm) hQc hid']
    · intro id hid
      unfold annAfter
      rcases List.mem_cons.mp hid with rfl | hid
      · cases ha : c.announce with
        | true => exact ⟨c.table, by simp, rfl⟩
        | false =>
          rcases h1 with h1 | h1
          · rw [ha] at h1; cases h1
          · simpa using hk _ h1
      · obtain ⟨t, ht, hh⟩ := hk id hid
        refine ⟨t, ?_, hh⟩
        split
        · exact List.mem_cons_of_mem _ ht
        · exact ht
    · intro t ht
      unfold annAfter at ht
      split at ht
      · rcases List.mem_cons.mp ht with rfl | ht
        · exact hQc
        · exact hq t ht
      · exact hq t ht

theorem wfRedef_of_wf {cfg : W.Cfg} {h : W.History} (hwf : WFHist cfg h) : WFHistRedef cfg h := by
  refine ⟨hwf.units, ?_, ?_, hwf.offsets⟩
  · intro c1 h1 c2 h2 hid
    rw [hwf.tables c1 h1 c2 h2 hid]
    exact sameInfo_refl _
  · refine curOK_of_annOK (fun t => ∃ c ∈ histRows h, c.table = t) ?_ (histRows h) [] [] ?_ ?_ ?_ hwf.announced
    · rintro t1 t2 ⟨c1, h1, rfl⟩ ⟨c2, h2, rfl⟩ hid
      exact hwf.tables c1 h1 c2 h2 hid
    · intro id hid; cases hid
    · intro t ht; cases ht
    · intro c hc; exact ⟨c, hc, rfl⟩

/-! ### the goal as a predicate on a laid-out event list, relative to what follows it -/

/-- from state `st`, with the Spec's current position `cur`, the parser fed the laid-out events `l` and then `tail`
    calls the handler with exactly the expected transactions of `l` and returns the position after them, with error
    flag `e` -/
def Good (env : Env) (tail : List Input) (e : Bool) (st : PState) (cur : W.Pos) (l : List W.Laid) : Prop :=
  parseEvents env (fun _ => true) st (l.map (fun e => Input.event e.bytes) ++ tail)
    = ⟨(W.expectedAux l cur).map (toTx env.ext), (W.expectedAux l cur).map (toTx env.ext),
       posOf (W.endPosAux l cur), e, false⟩

theorem good_closed (env : Env) (st : PState) (cur : W.Pos) (hp : st.pos = posOf cur) :
    Good env [Input.closed] false st cur [] := by
  simp [Good, parseEvents, W.expectedAux, W.endPosAux, hp]

theorem good_stop (env : Env) (st : PState) (cur : W.Pos) (hp : st.pos = posOf cur) (b : Bytes) (more : List Input)
    (hc : classify env st b = .decodeErr) : Good env (Input.event b :: more) true st cur [] := by
  simp [Good, parseEvents, stepEvent, stepD, hc, W.expectedAux, W.endPosAux, hp]

theorem good_cont (env : Env) (tail : List Input) (eb : Bool) (st st' : PState) (cur : W.Pos) (e : W.Laid)
    (l : List W.Laid) (d : Decoded)
    (hc : classify env st e.bytes = d) (hs : stepD st d = .cont st')
    (ht : e.tag = .none ∨ e.tag = .fileHead) (hg : Good env tail eb st' cur l) : Good env tail eb st cur (e :: l) := by
  unfold Good at hg ⊢
  simp only [List.map_cons, List.cons_append, parseEvents, stepEvent, hc, hs]
  rw [hg]
  rcases ht with ht | ht <;> simp [W.expectedAux, W.endPosAux, ht]

theorem good_rot (env : Env) (tail : List Input) (eb : Bool) (st st' : PState) (cur : W.Pos) (e : W.Laid)
    (l : List W.Laid) (d : Decoded) (f : Bytes)
    (hc : classify env st e.bytes = d) (hs : stepD st d = .cont st')
    (ht : e.tag = .rotateTo f) (hg : Good env tail eb st' ⟨f, 4⟩ l) : Good env tail eb st cur (e :: l) := by
  unfold Good at hg ⊢
  simp only [List.map_cons, List.cons_append, parseEvents, stepEvent, hc, hs]
  rw [hg]
  simp [W.expectedAux, W.endPosAux, ht]

theorem good_deliver (env : Env) (tail : List Input) (eb : Bool) (st acc : PState) (cur : W.Pos) (e : W.Laid)
    (l : List W.Laid) (d : Decoded) (cs : List W.Change)
    (hc : classify env st e.bytes = d)
    (hs : stepD st d = .deliver (toTx env.ext ⟨cur, ⟨e.file, e.next⟩, e.ts, cs⟩) acc)
    (ht : e.tag = .commit cs) (hg : Good env tail eb acc ⟨e.file, e.next⟩ l) : Good env tail eb st cur (e :: l) := by
  unfold Good at hg ⊢
  simp only [List.map_cons, List.cons_append, parseEvents, stepEvent, hc, hs, if_true]
  rw [hg]
  simp [W.expectedAux, W.endPosAux, ht]

/-! ### the invariant between events -/

/-- the cache entry of a definition: its decoded table map and what the mapper answers for it -/
def entryOf (t : W.TableDef) : TableCache := ⟨tmOf t, infoOf t⟩

/-- what is fixed for the whole run: the definitions of the history (`P`); definitions sharing an id *and the
    database and table name* have the same mapper info (definitions of different tables may share an id: the parser
    asks the mapper again when an id is announced for another table); all are known to the mapper -/
structure Ctx (env : Env) (P : W.TableDef → Prop) : Prop where
  agree : ∀ t1 t2, P t1 → P t2 → t1.id = t2.id → t1.db = t2.db → t1.name = t2.name → infoOf t1 = infoOf t2
  mapper : ∀ t, P t → env.mapper t.db t.name = some (infoOf t)

/-- the parser state against the Spec's bookkeeping: format seen, same position, the layout's current file, and the
    table cache holds, for exactly the ids announced so far, the entry of the LAST definition announced -/
structure Inv (cfg : W.Cfg) (P : W.TableDef → Prop) (st : PState) (file : Bytes) (cur : W.Pos)
    (anns : List W.TableDef) : Prop where
  fmt : Ready cfg st
  pos : st.pos = posOf cur
  file : cur.file = file
  cache : ∀ id, findTable st.tables id = (lastDef anns id).map entryOf
  anns : ∀ t ∈ anns, P t

section inv
variable {cfg : W.Cfg} {P : W.TableDef → Prop} {st : PState} {file : Bytes} {cur : W.Pos} {anns : List W.TableDef}

theorem inv_tran (h : Inv cfg P st file cur anns) (tr : Option (List StreamEvent)) (au : Bool) :
    Inv cfg P { st with tran := tr, autocommit := au } file cur anns :=
  ⟨h.fmt, h.pos, h.file, h.cache, h.anns⟩

theorem inv_tran' (h : Inv cfg P st file cur anns) (tr : Option (List StreamEvent)) :
    Inv cfg P { st with tran := tr } file cur anns :=
  ⟨h.fmt, h.pos, h.file, h.cache, h.anns⟩

theorem inv_commit (h : Inv cfg P st file cur anns) (next : Nat) :
    Inv cfg P { st with pos := { st.pos with offset := next }, tran := none, autocommit := true } file ⟨file, next⟩ anns :=
  ⟨h.fmt, by simp [h.pos, posOf, h.file], rfl, h.cache, h.anns⟩

theorem inv_rotate (h : Inv cfg P st file cur anns) (f : Bytes) :
    Inv cfg P { st with pos := ⟨f, ((4 : Nat) : Int)⟩ } f ⟨f, 4⟩ anns :=
  ⟨h.fmt, rfl, rfl, h.cache, h.anns⟩

theorem inv_format (h : Inv cfg P st file cur anns) : Inv cfg P { st with format := fmtOf cfg } file cur anns :=
  ⟨rfl, h.pos, h.file, h.cache, h.anns⟩

theorem inv_tables {st' : PState} (h : Inv cfg P st file cur anns) (t : W.TableDef) (hP : P t)
    (hf : st'.format = st.format) (hp : st'.pos = st.pos)
    (hsame : findTable st'.tables t.id = some (entryOf t))
    (hother : ∀ j, j ≠ t.id → findTable st'.tables j = findTable st.tables j) :
    Inv cfg P st' file cur (t :: anns) := by
  refine ⟨?_, by rw [hp, h.pos], h.file, ?_, ?_⟩
  · have := h.fmt; unfold Ready at this ⊢; rw [hf, this]
  · intro id
    rw [lastDef_cons]
    by_cases hj : t.id = id
    · subst hj; simp [hsame]
    · rw [if_neg hj, hother id (fun e => hj e.symm)]
      exact h.cache id
  · intro x hx
    rcases List.mem_cons.mp hx with rfl | hx
    · exact hP
    · exact h.anns x hx

/-- the TABLE_MAP event of a history definition: afterwards the cache holds exactly its entry (the table map of THIS
    definition; the mapper info of the first one, which is the same), nothing else changes -/
theorem tm_step {env : Env} (ctx : Ctx env P) (h : Inv cfg P st file cur anns) (t : W.TableDef) (hP : P t)
    (ht : TableOK cfg t) (off ts : Nat) (optional : Bytes) (hts : ts < 2 ^ 32)
    (hb : endOf cfg off (W.tableMapBody (if cfg.idw4 then 4 else 6) t.id 1 t.db t.name t.cols optional) < 2 ^ 32) :
    ∃ d st', classify env st (bytesAt cfg off 19 ts
          (W.tableMapBody (if cfg.idw4 then 4 else 6) t.id 1 t.db t.name t.cols optional)) = d ∧
      stepD st d = .cont st' ∧ Inv cfg P st' file cur (t :: anns) ∧ st'.tran = st.tran ∧
      st'.autocommit = st.autocommit ∧ findTable st'.tables t.id = some (entryOf t) := by
  cases hc : findTable st.tables t.id with
  | none =>
    have hcl := cl_tm_new env st cfg h.fmt off ts t ht optional hts hb hc (ctx.mapper t hP)
    have hs := GV.C15.findTable_append_same st.tables t.id ⟨tmOf t, infoOf t⟩ hc
    refine ⟨_, { st with tables := st.tables ++ [(t.id, ⟨tmOf t, infoOf t⟩)] }, hcl, by simp [stepD, hc], ?_, rfl, rfl, hs⟩
    exact inv_tables h t hP rfl rfl hs (fun j hj => GV.C15.findTable_append_other st.tables t.id _ j hj)
  | some old =>
    have hold := h.cache t.id
    rw [hc] at hold
    cases hl : lastDef anns t.id with
    | none => rw [hl] at hold; cases hold
    | some t' =>
      rw [hl] at hold
      have ho : old = entryOf t' := Option.some.inj hold
      obtain ⟨hm, hid⟩ := lastDef_some hl
      have hs := GV.C15.findTable_update_same st.tables t.id ⟨tmOf t, infoOf t⟩ old hc
      by_cases hsame : old.tableMap.database = t.db ∧ old.tableMap.name = t.name
      · -- the cached entry belongs to the definition of the SAME table announced last for this id: same mapper info
        have hinfo := ctx.agree t' t (h.anns t' hm) hP hid (by simpa [ho, entryOf, tmOf] using hsame.1)
          (by simpa [ho, entryOf, tmOf] using hsame.2)
        have hcl := cl_tm_known env st cfg h.fmt off ts t ht optional hts hb old hc hsame
        have he : ({ old with tableMap := tmOf t } : TableCache) = ⟨tmOf t, infoOf t⟩ := by rw [ho, entryOf, hinfo]
        rw [he] at hcl
        refine ⟨_, { st with tables := st.tables.map fun p => if p.1 == t.id then (p.1, ⟨tmOf t, infoOf t⟩) else p },
          hcl, by simp [stepD], ?_, rfl, rfl, hs⟩
        exact inv_tables h t hP rfl rfl hs (fun j hj => GV.C15.findTable_update_other st.tables t.id _ j hj)
      · -- the id was last announced for ANOTHER table: the mapper is asked again, the stale entry replaced
        have hcl := cl_tm_reused env st cfg h.fmt off ts t ht optional hts hb old hc hsame (ctx.mapper t hP)
        refine ⟨_, { st with tables := st.tables.map fun p => if p.1 == t.id then (p.1, ⟨tmOf t, infoOf t⟩) else p },
          hcl, by simp [stepD, hc], ?_, rfl, rfl, hs⟩
        exact inv_tables h t hP rfl rfl hs (fun j hj => GV.C15.findTable_update_other st.tables t.id _ j hj)

/-- a transaction delivered from `st` at the Spec position `cur`, ending at `next` in `file` -/
theorem toTx_eq (h : Inv cfg P st file cur anns) (E : Ext) (next ts : Nat) (cs : List W.Change) :
    toTx E ⟨cur, ⟨file, next⟩, ts, cs⟩ = ⟨st.pos, { st.pos with offset := next }, ts, cs.map (seOfChange E)⟩ := by
  simp [toTx, h.pos, posOf, h.file]

end inv

/-! ### one laid-out event at a time -/

section run
variable {env : Env} {cfg : W.Cfg} {P : W.TableDef → Prop} {tail : List Input} {eb : Bool}

theorem lay_cont {st st' : PState} {cur : W.Pos} {typ : Nat} {body : Bytes} {ts : Nat}
    {us : Bool} {es : List W.AEv} {file : Bytes} {off : Nat} (d : Decoded)
    (hc : classify env st (bytesAt cfg off typ ts body) = d) (hs : stepD st d = .cont st')
    (hg : Good env tail eb st' cur (W.layoutAux cfg es file (endOf cfg off body))) :
    Good env tail eb st cur (W.layoutAux cfg (⟨typ, body, ts, .none, us⟩ :: es) file off) := by
  rw [layoutAux_none]
  exact good_cont env tail eb st st' cur _ _ d hc hs (Or.inl rfl) hg

theorem lay_deliver {st acc : PState} {cur : W.Pos} {typ : Nat} {body : Bytes} {ts : Nat}
    {cs : List W.Change} {us : Bool} {es : List W.AEv} {file : Bytes} {off : Nat} (d : Decoded)
    (hc : classify env st (bytesAt cfg off typ ts body) = d)
    (hs : stepD st d = .deliver (toTx env.ext ⟨cur, ⟨file, endOf cfg off body⟩, ts, cs⟩) acc)
    (hg : Good env tail eb acc ⟨file, endOf cfg off body⟩ (W.layoutAux cfg es file (endOf cfg off body))) :
    Good env tail eb st cur (W.layoutAux cfg (⟨typ, body, ts, .commit cs, us⟩ :: es) file off) := by
  rw [layoutAux_commit]
  exact good_deliver env tail eb st acc cur _ _ d cs hc hs rfl hg

/-! ### the TABLE_MAP announcement of a rows change -/

theorem announce_run (ctx : Ctx env P) (c : W.RowsChange) (u : Bool)
    (hP : P c.table) (hok : RowsOK cfg c) {st : PState} {file : Bytes} {cur : W.Pos} {anns : List W.TableDef} (off : Nat)
    (hI : Inv cfg P st file cur anns) (hann : c.announce = true ∨ lastDef anns c.table.id = some c.table)
    (rest : List W.AEv)
    (hb : Bnd (W.layoutAux cfg ((if c.announce then [tmAEv cfg c u] else []) ++ rest) file off))
    (k : ∀ st' off', Inv cfg P st' file cur (annAfter anns c) → st'.tran = st.tran →
      st'.autocommit = st.autocommit → findTable st'.tables c.table.id = some ⟨tmOf c.table, infoOf c.table⟩ →
      Bnd (W.layoutAux cfg rest file off') → Good env tail eb st' cur (W.layoutAux cfg rest file off')) :
    Good env tail eb st cur (W.layoutAux cfg ((if c.announce then [tmAEv cfg c u] else []) ++ rest) file off) := by
  cases ha : c.announce with
  | true =>
    simp only [ha, if_true, List.cons_append, List.nil_append, tmAEv] at hb ⊢
    obtain ⟨hb1, hb2⟩ := bnd_none hb
    obtain ⟨d, st', hcl, hs, hI', htr, hau, hf⟩ := tm_step ctx hI c.table hP hok.table off c.ts c.tmOptional hok.ts hb1
    have haa : annAfter anns c = c.table :: anns := by simp [annAfter, ha]
    exact lay_cont d hcl hs (k st' _ (by rw [haa]; exact hI') htr hau hf hb2)
  | false =>
    simp only [ha, Bool.false_eq_true, if_false, List.nil_append] at hb ⊢
    have hk : lastDef anns c.table.id = some c.table := by
      rcases hann with h | h
      · rw [ha] at h; cases h
      · exact h
    have hc := hI.cache c.table.id
    rw [hk] at hc
    have haa : annAfter anns c = anns := by simp [annAfter, ha]
    exact k st off (by rw [haa]; exact hI) rfl rfl hc hb

/-! ### the changes of an open transaction -/

theorem changes_run (ctx : Ctx env P) :
    ∀ (cs : List W.Change) (rest : List W.AEv) (R : List W.RowsChange) (st : PState) (acc : List StreamEvent)
      (file : Bytes) (off : Nat) (cur : W.Pos) (anns : List W.TableDef),
    Inv cfg P st file cur anns → st.tran = some acc → st.autocommit = false →
    (∀ c ∈ cs, ChangeOK cfg c) → (∀ c ∈ changeRows cs, P c.table) → curOK anns (changeRows cs ++ R) →
    Bnd (W.layoutAux cfg (cs.flatMap (W.changeEvs cfg) ++ rest) file off) →
    (∀ st' off' anns', Inv cfg P st' file cur anns' → st'.tran = some (acc ++ cs.map (seOfChange env.ext)) →
      st'.autocommit = false → curOK anns' R → Bnd (W.layoutAux cfg rest file off') →
      Good env tail eb st' cur (W.layoutAux cfg rest file off')) →
    Good env tail eb st cur (W.layoutAux cfg (cs.flatMap (W.changeEvs cfg) ++ rest) file off) := by
  intro cs
  induction cs with
  | nil =>
    intro rest R st acc file off cur anns hI ht ha _ _ hann hb k
    simp only [List.flatMap_nil, List.nil_append] at hb ⊢
    exact k st off anns hI (by simpa using ht) ha (by simpa [changeRows] using hann) hb
  | cons ch cs ih =>
    intro rest R st acc file off cur anns hI ht ha hok hP hann hb k
    have hok' : ∀ c ∈ cs, ChangeOK cfg c := fun c hc => hok c (List.mem_cons_of_mem _ hc)
    cases ch with
    | stmt s =>
      obtain ⟨hs, hcat⟩ := hok (.stmt s) List.mem_cons_self
      simp only [List.flatMap_cons, W.changeEvs, W.stmtEv, List.cons_append, List.nil_append] at hb ⊢
      obtain ⟨hb1, hb2⟩ := bnd_none hb
      have hcl := cl_query env st cfg hI.fmt off s.ts s.vars s.db s.sql hs.vars hs.varsLen hs.db hs.ts hb1
      rw [hs.cat, ← hs.charset] at hcl
      refine lay_cont _ hcl (sd_stmt_tx st acc ht ha s.cat _ _ s.ts hcat) ?_
      refine ih rest R _ (acc ++ [seOfStmt s]) file _ cur anns (inv_tran' hI _) rfl ha hok'
        (by simpa [changeRows] using hP) (by simpa [changeRows] using hann) hb2 ?_
      intro st' off' anns' hI' ht' ha' hann' hb'
      exact k st' off' anns' hI' (by simpa [seOfChange] using ht') ha' hann' hb'
    | rows c =>
      obtain ⟨hrc, hne⟩ := hok (.rows c) List.mem_cons_self
      have hPc : P c.table := hP c (by simp [changeRows])
      simp only [changeRows, List.cons_append] at hann
      obtain ⟨hann1, hann2⟩ := hann
      have htm : W.tableMapEv cfg c = tmAEv cfg c false := rfl
      simp only [List.flatMap_cons, W.changeEvs, List.append_assoc, htm] at hb ⊢
      refine announce_run ctx c false hPc hrc off hI hann1 _ hb ?_
      intro st1 off1 hI1 ht1 ha1 hf1 hb1
      simp only [W.rowsEv, List.cons_append, List.nil_append] at hb1 ⊢
      obtain ⟨hb2, hb3⟩ := bnd_none hb1
      have hcl := cl_rows env st1 cfg hI1.fmt off1 c hrc hne hb2 hf1
      refine lay_cont _ hcl (sd_rows_tx st1 acc (ht1.trans ht) (ha1.trans ha) _ _ c.ts) ?_
      refine ih rest R _ (acc ++ [seOfRows env.ext c]) file _ cur (annAfter anns c) (inv_tran' hI1 _) rfl
        (ha1.trans ha) hok' (fun x hx => hP x (by simp [changeRows, hx])) hann2 hb3 ?_
      intro st' off' anns' hI' ht' ha' hann' hb'
      exact k st' off' anns' hI' (by simpa [seOfChange] using ht') ha' hann' hb'

/-! ### whole units -/

/-- moving on to file `f`: the artificial ROTATE naming it, then its FORMAT_DESCRIPTION event -/
theorem newfile_run {st : PState} {file : Bytes} {cur : W.Pos}
    {anns : List W.TableDef} (hI : Inv cfg P st file cur anns) (f : Bytes) (seed : Nat)
    (hl : 27 + f.length + (if cfg.crc then 4 else 0) < 2 ^ 32) (l : List W.Laid)
    (hg : ∀ st', Inv cfg P st' f ⟨f, 4⟩ anns → st'.tran = st.tran → st'.autocommit = st.autocommit →
      Good env tail eb st' ⟨f, 4⟩ l) :
    Good env tail eb st cur (⟨file, seed, seed, fakeRotBytes cfg seed 4 f, 0, .rotateTo f, false⟩
      :: ⟨f, 4, (W.fdeEvent cfg 4 none).2, (W.fdeEvent cfg 4 none).1, 0, .fileHead, false⟩ :: l) := by
  have h1 := cl_fakeRot env st cfg hI.fmt seed 4 f (by decide) hl
  refine good_rot env tail eb st { st with pos := ⟨f, ((4 : Nat) : Int)⟩ } cur _ _ _ f h1 rfl rfl ?_
  have h2 := C01_classify_fde env { st with pos := ⟨f, ((4 : Nat) : Int)⟩ } cfg 4 none (by decide) (by simp)
  refine good_cont env tail eb _ { st with pos := ⟨f, ((4 : Nat) : Int)⟩, format := fmtOf cfg } ⟨f, 4⟩ _ _ _ h2 rfl
    (Or.inr rfl) ?_
  exact hg _ (inv_format (inv_rotate hI f)) rfl rfl

/-- an event the parser ignores -/
theorem skip_run {st : PState} {file : Bytes} {cur : W.Pos}
    {anns : List W.TableDef} (hI : Inv cfg P st file cur anns) (typ : Nat) (body : Bytes) (u : Bool) (es : List W.AEv)
    (off : Nat) (ht : typ < 256) (hty : typ ∉ handledTypes)
    (hb : Bnd (W.layoutAux cfg (⟨typ, body, 0, .none, u⟩ :: es) file off))
    (k : Bnd (W.layoutAux cfg es file (endOf cfg off body)) →
      Good env tail eb st cur (W.layoutAux cfg es file (endOf cfg off body))) :
    Good env tail eb st cur (W.layoutAux cfg (⟨typ, body, 0, .none, u⟩ :: es) file off) := by
  obtain ⟨hb1, hb2⟩ := bnd_none hb
  exact lay_cont _ (cl_skip env st cfg hI.fmt off 0 typ body ht hty (by decide) hb1) rfl (k hb2)

/-- a statement delivered on its own (DDL / statement-format DML outside a transaction) -/
theorem single_stmt_run {st : PState} {file : Bytes} {cur : W.Pos}
    {anns : List W.TableDef} (hI : Inv cfg P st file cur anns) (ht : st.tran = none) (ha : st.autocommit = true)
    (s : W.StmtChange) (hs : StmtOK s) (hcat : isChangeCat s.cat) (u : Bool) (es : List W.AEv) (off : Nat)
    (hb : Bnd (W.layoutAux cfg (⟨2, W.queryBody 1 0 0 s.vars s.db s.sql, s.ts, .commit [.stmt s], u⟩ :: es) file off))
    (k : ∀ st' off', Inv cfg P st' file ⟨file, off'⟩ anns → st'.tran = none → st'.autocommit = true →
      Bnd (W.layoutAux cfg es file off') → Good env tail eb st' ⟨file, off'⟩ (W.layoutAux cfg es file off')) :
    Good env tail eb st cur
      (W.layoutAux cfg (⟨2, W.queryBody 1 0 0 s.vars s.db s.sql, s.ts, .commit [.stmt s], u⟩ :: es) file off) := by
  obtain ⟨hb1, hb2⟩ := bnd_commit hb
  have hcl := cl_query env st cfg hI.fmt off s.ts s.vars s.db s.sql hs.vars hs.varsLen hs.db hs.ts hb1
  rw [hs.cat, ← hs.charset] at hcl
  refine lay_deliver _ hcl ?_ (k _ _ (inv_commit hI _) rfl rfl hb2)
  rw [sd_stmt_idle st ht ha s.cat _ _ s.ts hcat, toTx_eq hI]
  rfl

/-- the units `us`, followed by more events `rest` (handled by the continuation `k`); `R` are the rows changes after
    those of `us` -/
theorem units_run (ctx : Ctx env P) (rest : List W.AEv) (R : List W.RowsChange) :
    ∀ (us : List W.Unit) (st : PState) (file : Bytes) (off : Nat) (cur : W.Pos) (anns : List W.TableDef),
    Inv cfg P st file cur anns → st.tran = none → st.autocommit = true →
    (∀ u ∈ us, UnitOK cfg u) → (∀ c ∈ histRows us, P c.table) → curOK anns (histRows us ++ R) →
    Bnd (W.layoutAux cfg (us.flatMap (W.unitEvs cfg) ++ rest) file off) →
    (∀ st' file' off' cur' anns', Inv cfg P st' file' cur' anns' → st'.tran = none → st'.autocommit = true →
      curOK anns' R → Bnd (W.layoutAux cfg rest file' off') →
      Good env tail eb st' cur' (W.layoutAux cfg rest file' off')) →
    Good env tail eb st cur (W.layoutAux cfg (us.flatMap (W.unitEvs cfg) ++ rest) file off) := by
  intro us
  induction us with
  | nil =>
    intro st file off cur anns hI ht ha _ _ hann hb k
    simp only [List.flatMap_nil, List.nil_append] at hb ⊢
    exact k st file off cur anns hI ht ha (by simpa [histRows] using hann) hb
  | cons u us ih =>
    intro st file off cur anns hI ht ha hok hP hann hb k
    have hok' : ∀ u ∈ us, UnitOK cfg u := fun x hx => hok x (List.mem_cons_of_mem _ hx)
    have hu := hok u List.mem_cons_self
    rw [histRows_cons] at hP
    rw [histRows_cons, List.append_assoc] at hann
    simp only [List.flatMap_cons, List.append_assoc] at hb ⊢
    cases u with
    | tx b cs close ts =>
      obtain ⟨hbeg, hcs, hclose, hts⟩ := hu
      simp only [unitRows] at hP hann
      -- the events after the changes: the closer, then the later units
      have key : ∀ (closeEv : W.AEv),
          (∀ st' off' anns', Inv cfg P st' file cur anns' → st'.tran = some (cs.map (seOfChange env.ext)) →
            st'.autocommit = false → curOK anns' (histRows us ++ R) →
            Bnd (W.layoutAux cfg (closeEv :: (us.flatMap (W.unitEvs cfg) ++ rest)) file off') →
            Good env tail eb st' cur (W.layoutAux cfg (closeEv :: (us.flatMap (W.unitEvs cfg) ++ rest)) file off')) →
          Bnd (W.layoutAux cfg (W.markStart ([W.stmtEv ⟨b, [], ts, [], 0, none⟩ .none] ++ cs.flatMap (W.changeEvs cfg) ++ [closeEv])
                ++ (us.flatMap (W.unitEvs cfg) ++ rest)) file off) →
          Good env tail eb st cur (W.layoutAux cfg (W.markStart ([W.stmtEv ⟨b, [], ts, [], 0, none⟩ .none] ++ cs.flatMap (W.changeEvs cfg) ++ [closeEv])
                ++ (us.flatMap (W.unitEvs cfg) ++ rest)) file off) := by
        intro closeEv k hb
        simp only [W.stmtEv, List.cons_append, List.nil_append, W.markStart, List.append_assoc] at hb ⊢
        obtain ⟨hb1, hb2⟩ := bnd_none hb
        have hcl := cl_query env st cfg hI.fmt off ts [] [] b (by simp) (by simp) (by simp) hts hb1
        rw [hbeg] at hcl
        refine lay_cont _ hcl (SL.step_begin _ _ _) ?_
        refine changes_run ctx cs _ (histRows us ++ R) _ [] file _ cur anns (inv_tran hI _ _) rfl rfl hcs
          (fun c hc => hP c (List.mem_append_left _ hc)) hann hb2 ?_
        intro st' off' anns' hI' ht' ha' hann' hb'
        exact k st' off' anns' hI' (by simpa using ht') ha' hann' hb'
      cases close with
      | xid n =>
        simp only [W.unitEvs] at hb ⊢
        refine key _ ?_ hb
        intro st' off' anns' hI' ht' ha' hann' hb'
        obtain ⟨hb1, hb2⟩ := bnd_commit hb'
        have hcl := cl_xid env st' cfg hI'.fmt off' ts n hts hb1
        refine lay_deliver _ hcl ?_ (ih _ file _ _ anns' (inv_commit hI' _) rfl rfl hok'
          (fun c hc => hP c (List.mem_append_right _ hc)) hann' hb2 k)
        have := SL.step_closer (st := st') ⟨ht', ha'⟩ .xid (endOf cfg off' (W.xidBody n)) ts
        rw [toTx_eq hI']
        exact this
      | commit sql =>
        simp only [W.unitEvs, W.stmtEv] at hb ⊢
        refine key _ ?_ hb
        intro st' off' anns' hI' ht' ha' hann' hb'
        obtain ⟨hb1, hb2⟩ := bnd_commit hb'
        have hcl := cl_query env st' cfg hI'.fmt off' ts [] [] sql (by simp) (by simp) (by simp) hts hb1
        simp only [CloserOK] at hclose
        rw [hclose] at hcl
        refine lay_deliver _ hcl ?_ (ih _ file _ _ anns' (inv_commit hI' _) rfl rfl hok'
          (fun c hc => hP c (List.mem_append_right _ hc)) hann' hb2 k)
        have := SL.step_closer (st := st') ⟨ht', ha'⟩ (.commit ⟨[], Props.C16.charsetOf [], sql⟩)
          (endOf cfg off' (W.queryBody 1 0 0 [] [] sql)) ts
        rw [toTx_eq hI']
        exact this
      | rollback sql =>
        simp only [W.unitEvs, W.stmtEv] at hb ⊢
        refine key _ ?_ hb
        intro st' off' anns' hI' ht' ha' hann' hb'
        obtain ⟨hb1, hb2⟩ := bnd_commit hb'
        have hcl := cl_query env st' cfg hI'.fmt off' ts [] [] sql (by simp) (by simp) (by simp) hts hb1
        simp only [CloserOK] at hclose
        rw [hclose] at hcl
        refine lay_deliver _ hcl ?_ (ih _ file _ _ anns' (inv_commit hI' _) rfl rfl hok'
          (fun c hc => hP c (List.mem_append_right _ hc)) hann' hb2 k)
        have := SL.step_closer (st := st') ⟨ht', ha'⟩ (.rollback ⟨[], Props.C16.charsetOf [], sql⟩)
          (endOf cfg off' (W.queryBody 1 0 0 [] [] sql)) ts
        rw [toTx_eq hI']
        exact this
    | ddl s =>
      obtain ⟨hs, hcat⟩ := hu
      simp only [unitRows, List.nil_append] at hP hann
      simp only [W.unitEvs, W.stmtEv, W.markStart, List.cons_append, List.nil_append] at hb ⊢
      refine single_stmt_run hI ht ha s hs hcat _ _ off hb ?_
      intro st' off' hI' ht' ha' hb'
      exact ih st' file off' _ anns hI' ht' ha' hok' hP hann hb' k
    | stmtDML s =>
      obtain ⟨hs, hcat⟩ := hu
      simp only [unitRows, List.nil_append] at hP hann
      simp only [W.unitEvs, W.stmtEv, W.markStart, List.cons_append, List.nil_append] at hb ⊢
      refine single_stmt_run hI ht ha s hs hcat _ _ off hb ?_
      intro st' off' hI' ht' ha' hb'
      exact ih st' file off' _ anns hI' ht' ha' hok' hP hann hb' k
    | autoRows c =>
      obtain ⟨hrc, hne⟩ := hu
      simp only [unitRows, List.cons_append, List.nil_append] at hP hann
      obtain ⟨hann1, hann2⟩ := hann
      have hPc : P c.table := hP c List.mem_cons_self
      have hev : W.unitEvs cfg (.autoRows c) = (if c.announce then [tmAEv cfg c true] else []) ++
          [⟨W.rowsEventType c.kind cfg.rowsV2,
            W.rowsBody c.kind cfg.rowsV2 (if cfg.idw4 then 4 else 6) c.table.id c.flags c.extra c.table.cols
              c.presentBefore c.presentAfter c.rows, c.ts, .commit [.rows c], !c.announce⟩] := by
        simp only [W.unitEvs, W.rowsEv, W.tableMapEv, tmAEv]
        cases c.announce <;> rfl
      rw [hev, List.append_assoc] at hb ⊢
      refine announce_run ctx c true hPc hrc off hI hann1 _ hb ?_
      intro st1 off1 hI1 ht1 ha1 hf1 hb1
      simp only [List.cons_append, List.nil_append] at hb1 ⊢
      obtain ⟨hb2, hb3⟩ := bnd_commit hb1
      have hcl := cl_rows env st1 cfg hI1.fmt off1 c hrc hne hb2 hf1
      refine lay_deliver _ hcl ?_ (ih _ file _ _ _ (inv_commit hI1 _) rfl rfl hok'
        (fun x hx => hP x (List.mem_cons_of_mem _ hx)) hann2 hb3 k)
      rw [sd_rows_idle st1 (ht1.trans ht) (ha1.trans ha), toTx_eq hI1]
      rfl
    | rotate f =>
      simp only [unitRows, List.nil_append] at hP hann
      simp only [W.unitEvs, W.markStart, List.cons_append, List.nil_append] at hb ⊢
      rw [layoutAux_rotate] at hb ⊢
      obtain ⟨hb1, hb2⟩ := bnd_cons hb
      obtain ⟨_, hb3⟩ := bnd_cons hb2
      obtain ⟨_, hb4⟩ := bnd_cons hb3
      have hb1' : endOf cfg off (W.rotateBody 4 f) < 2 ^ 32 := hb1
      have hcl := cl_rotate env st cfg hI.fmt off 0 4 f (by decide) (by decide) hb1'
      refine good_rot env tail eb st { st with pos := ⟨f, ((4 : Nat) : Int)⟩ } cur _ _ _ f hcl rfl rfl ?_
      have hl : 27 + f.length + (if cfg.crc then 4 else 0) < 2 ^ 32 := by
        have hlen : (W.rotateBody 4 f).length = 8 + f.length := by simp [W.rotateBody]
        have hcn : crcN cfg off = if cfg.crc then 4 else 0 := by
          unfold crcN W.crcOf Props.C16.crcLen
          cases cfg.crc <;> simp
        unfold endOf at hb1'
        rw [hlen, hcn] at hb1'
        omega
      refine newfile_run (inv_rotate hI f) f _ hl _ ?_
      intro st' hI' ht' ha'
      exact ih st' f _ _ anns hI' (ht'.trans ht) (ha'.trans ha) hok' hP hann hb4 k
    | restart f =>
      simp only [unitRows, List.nil_append] at hP hann
      simp only [W.unitEvs, W.markStart, List.cons_append, List.nil_append] at hb ⊢
      rw [layoutAux_restart] at hb ⊢
      obtain ⟨hb1, hb2⟩ := bnd_cons hb
      obtain ⟨_, hb3⟩ := bnd_cons hb2
      obtain ⟨_, hb4⟩ := bnd_cons hb3
      have hb1' : endOf cfg off [] < 2 ^ 32 := hb1
      have hcl := cl_skip env st cfg hI.fmt off 0 3 [] (by decide) (by decide) (by decide) hb1'
      refine good_cont env tail eb st st cur _ _ _ hcl rfl (Or.inl rfl) ?_
      have hl : 27 + f.length + (if cfg.crc then 4 else 0) < 2 ^ 32 := by
        have : f.length < 2 ^ 31 := hu
        simp only [Nat.reducePow] at this ⊢
        split <;> omega
      refine newfile_run hI f _ hl _ ?_
      intro st' hI' ht' ha'
      exact ih st' f _ _ anns hI' (ht'.trans ht) (ha'.trans ha) hok' hP hann hb4 k
    | gtid sid gno =>
      simp only [unitRows, List.nil_append] at hP hann
      simp only [W.unitEvs, W.markStart, List.cons_append, List.nil_append] at hb ⊢
      exact skip_run hI _ _ _ _ off (by decide) (by decide) hb
        (fun hb' => ih st file _ cur anns hI ht ha hok' hP hann hb' k)
    | anonGtid =>
      simp only [unitRows, List.nil_append] at hP hann
      simp only [W.unitEvs, W.markStart, List.cons_append, List.nil_append] at hb ⊢
      exact skip_run hI _ _ _ _ off (by decide) (by decide) hb
        (fun hb' => ih st file _ cur anns hI ht ha hok' hP hann hb' k)
    | prevGtids blk =>
      simp only [unitRows, List.nil_append] at hP hann
      simp only [W.unitEvs, W.markStart, List.cons_append, List.nil_append] at hb ⊢
      exact skip_run hI _ _ _ _ off (by decide) (by decide) hb
        (fun hb' => ih st file _ cur anns hI ht ha hok' hP hann hb' k)
    | heartbeat =>
      simp only [unitRows, List.nil_append] at hP hann
      simp only [W.unitEvs, W.markStart, List.cons_append, List.nil_append] at hb ⊢
      exact skip_run hI _ _ _ _ off (by decide) (by decide) hb
        (fun hb' => ih st file _ cur anns hI ht ha hok' hP hann hb' k)
    | unknownEvent typ body =>
      obtain ⟨hlt, hty⟩ := hu
      simp only [unitRows, List.nil_append] at hP hann
      simp only [W.unitEvs, W.markStart, List.cons_append, List.nil_append] at hb ⊢
      exact skip_run hI _ _ _ _ off hlt hty hb
        (fun hb' => ih st file _ cur anns hI ht ha hok' hP hann hb' k)
    | unknownStmt s =>
      obtain ⟨hs, hcat⟩ := hu
      simp only [unitRows, List.nil_append] at hP hann
      simp only [W.unitEvs, W.stmtEv, W.markStart, List.cons_append, List.nil_append] at hb ⊢
      obtain ⟨hb1, hb2⟩ := bnd_none hb
      have hcl := cl_query env st cfg hI.fmt off s.ts s.vars s.db s.sql hs.vars hs.varsLen hs.db hs.ts hb1
      rw [hs.cat] at hcl
      exact lay_cont _ hcl (sd_unknown st _ _ _ _ hcat) (ih st file _ cur anns hI ht ha hok' hP hann hb2 k)

end run

/-! ### Goal A: from the head of the log -/

/-- the state after the artificial ROTATE and the first FORMAT_DESCRIPTION event -/
def st1 (cfg : W.Cfg) : PState := { PState.init ⟨W.firstFile, 4⟩ with format := fmtOf cfg }

theorem inv_st1 (cfg : W.Cfg) (P : W.TableDef → Prop) : Inv cfg P (st1 cfg) W.firstFile ⟨W.firstFile, 4⟩ [] := by
  refine ⟨rfl, rfl, rfl, ?_, ?_⟩
  · intro id; simp [st1, PState.init, findTable, lastDef]
  · intro t ht; cases ht

/-- the first two packets (artificial ROTATE, FORMAT_DESCRIPTION) of a dump from the head -/
theorem head_run (cfg : W.Cfg) (env : Env) (h : W.History) (txs : List Transaction) (p : Position) (eb : Bool)
    (rest : List Input)
    (hg : parseEvents env (fun _ => true) (st1 cfg) rest = ⟨txs, txs, p, eb, false⟩) :
    parseEvents env (fun _ => true) (PState.init ⟨W.firstFile, 4⟩)
      (Input.event (fakeRotBytes cfg 0 4 W.firstFile) :: Input.event (W.fdeEvent cfg 4 none).1 :: rest)
      = ⟨txs, txs, p, eb, false⟩ := by
  have _ := h
  have hfde := C01_classify_fde env (PState.init ⟨W.firstFile, 4⟩) cfg 4 none (by decide) (by simp)
  have hfake := cl_fakeRot_first env (PState.init ⟨W.firstFile, 4⟩) cfg rfl 0 4 W.firstFile
    (by have : W.firstFile.length = 10 := by decide
        rw [this]; simp only [Nat.reducePow]; split <;> omega)
  simp only [parseEvents, stepEvent, hfake, hfde, stepD]
  exact hg

/-- the mapper is a function of (database, name): definitions of one table that it knows have the same info -/
theorem ctx_of_mapper (env : Env) (P : W.TableDef → Prop) (hm : ∀ t, P t → env.mapper t.db t.name = some (infoOf t)) :
    Ctx env P := by
  refine ⟨?_, hm⟩
  intro t1 t2 h1 h2 _ hdb hname
  have e1 := hm t1 h1
  have e2 := hm t2 h2
  rw [hdb, hname, e2] at e1
  exact (Option.some.inj e1).symm

/-- fidelity from the three hypotheses that matter: well-formed units, every rows change in the encoding most recently
    announced for its id, offsets below 4 GiB — and a mapper that knows every table.  (Nothing is asked of the
    definitions sharing a table id: when they are definitions of one table the mapper's answer is the same for all of
    them, when they are not the mapper is asked again.) -/
theorem fidelity_cur (cfg : W.Cfg) (env : Env) (h : W.History) (hunits : ∀ u ∈ h, UnitOK cfg u)
    (hcur : curOK [] (histRows h)) (hoffs : ∀ e ∈ W.layout cfg h, e.next < 2 ^ 32) (hm : MapperAgrees env h) :
    parseEvents env (fun _ => true) (PState.init ⟨W.firstFile, 4⟩)
        ((W.serve cfg h ⟨W.firstFile, 4⟩).map Input.event ++ [Input.closed])
      = ⟨(W.expected cfg h ⟨W.firstFile, 4⟩).map (toTx env.ext), (W.expected cfg h ⟨W.firstFile, 4⟩).map (toTx env.ext),
         posOf (W.endPos cfg h ⟨W.firstFile, 4⟩), false, false⟩ := by
  let P : W.TableDef → Prop := fun t => ∃ c ∈ histRows h, c.table = t
  have ctx : Ctx env P := ctx_of_mapper env P (by rintro t ⟨c, hc, rfl⟩; exact hm c hc)
  have hoff := hoffs
  rw [layout_eq] at hoff
  have hb : Bnd (W.layoutAux cfg (h.flatMap (W.unitEvs cfg) ++ []) W.firstFile (W.fdeEvent cfg 4 none).2) := by
    rw [List.append_nil]; exact (bnd_cons hoff).2
  have hg := units_run (tail := [Input.closed]) (eb := false) ctx [] [] h (st1 cfg) W.firstFile _ ⟨W.firstFile, 4⟩ []
    (inv_st1 cfg P) rfl rfl hunits (fun c hc => ⟨c, hc, rfl⟩) (by rw [List.append_nil]; exact hcur) hb
    (by
      intro st' file' off' cur' anns' hI' _ _ _ _
      simp only [W.layoutAux]
      exact good_closed env st' cur' hI'.pos)
  rw [List.append_nil] at hg
  unfold Good at hg
  rw [serve_head, W.expected, W.endPos, fromPos_head, layout_eq]
  simp only [List.map_cons, List.cons_append, List.map_map]
  refine head_run cfg env h _ _ false _ ?_
  simpa [W.expectedAux, W.endPosAux, Function.comp_def] using hg

theorem fidelity_redef (cfg : W.Cfg) (env : Env) (h : W.History) (hwf : WFHistRedef cfg h) (hm : MapperAgrees env h) :
    parseEvents env (fun _ => true) (PState.init ⟨W.firstFile, 4⟩)
        ((W.serve cfg h ⟨W.firstFile, 4⟩).map Input.event ++ [Input.closed])
      = ⟨(W.expected cfg h ⟨W.firstFile, 4⟩).map (toTx env.ext), (W.expected cfg h ⟨W.firstFile, 4⟩).map (toTx env.ext),
         posOf (W.endPos cfg h ⟨W.firstFile, 4⟩), false, false⟩ :=
  fidelity_cur cfg env h hwf.units hwf.current hwf.offsets hm

/-! ### Goal C: a TABLE_MAP event the mapper's answer does not fit -/

/-- the two body decoders on the Spec's TABLE_MAP event, behind the stripped header (as in GV/Props/C01b.lean) -/
theorem tm_decoders (st : PState) (cfg : W.Cfg) (hr : Ready cfg st) (crc : Option Bytes) (m : W.EvMeta) (start : Nat)
    (t : W.TableDef) (ht : TableOK cfg t) (optional : Bytes)
    (h4 : evType (C01.hdrOf crc m 19 start (W.tableMapBody (idw cfg) t.id 1 t.db t.name t.cols optional) ++
            W.tableMapBody (idw cfg) t.id 1 t.db t.name t.cols optional) = .ok 19) :
    tableID st.format (C01.hdrOf crc m 19 start (W.tableMapBody (idw cfg) t.id 1 t.db t.name t.cols optional) ++
        W.tableMapBody (idw cfg) t.id 1 t.db t.name t.cols optional) = .ok t.id ∧
    tableMap st.format (C01.hdrOf crc m 19 start (W.tableMapBody (idw cfg) t.id 1 t.db t.name t.cols optional) ++
        W.tableMapBody (idw cfg) t.id 1 t.db t.name t.cols optional) = .ok (tmOf t) := by
  have hf : st.format = fmtOf cfg := hr
  have hhs : st.format.headerSize Facts.eTableMapEvent = .ok (if idw cfg = 4 then 6 else 8) := by
    rw [hf]; exact GV.C01b.hs_tablemap cfg
  obtain ⟨rest, hb⟩ := GV.C01b.tableMapBody_split (idw cfg) t.id 1 t.db t.name t.cols optional
  refine ⟨?_, ?_⟩
  · exact GV.C01b.tableID_body st.format (GV.C01b.hl19 hr) _ (C01.hdrOf_length ..) 19 _ (idw cfg) t.id (idw_cases cfg)
      _ rest hb h4 hhs (by rcases idw_cases cfg with h | h <;> simp [h]) ht.id
  · exact Props.C15.C15_tablemap_partial st.format (GV.C01b.hl19 hr) _ (C01.hdrOf_length ..) (idw cfg) t.id 1
      (idw_cases cfg) hhs ht.id (by decide) t.db t.name ht.db ht.name t.cols ht.ne ht.cols ht.count optional

/-- a TABLE_MAP event for a table id not seen before, when the mapper fails or answers with another column count:
    classified as a decoding error -/
theorem classify_tablemap_rejected (env : Env) (st : PState) (cfg : W.Cfg) (hr : Ready cfg st) (crc : Option Bytes)
    (hc : crcOK cfg crc) (m : W.EvMeta) (start : Nat) (t : W.TableDef) (ht : TableOK cfg t) (optional : Bytes)
    (hok : EvOK crc m start (W.tableMapBody (idw cfg) t.id 1 t.db t.name t.cols optional))
    (hnew : findTable st.tables t.id = none) (hbad : MapperRejects env t) :
    classify env st (W.event crc m 19 start (W.tableMapBody (idw cfg) t.id 1 t.db t.name t.cols optional)).1
      = .decodeErr := by
  obtain ⟨h1, h2, h3, h4, _, _⟩ := C01.pre st.format crc m 19 start _ (GV.C01b.crc_pre hr hc)
    (GV.C01b.meta_pre 19 (by decide) hok)
  obtain ⟨hid, htm⟩ := tm_decoders st cfg hr crc m start t ht optional h4
  simp only [classify, h1, h2, h3, h4, hid, htm, hnew, ofRes, GV.C01b.notZero hr, Facts.eFormatDescriptionEvent,
    Facts.eXIDEvent, Facts.eRotateEvent, Facts.eQueryEvent, Facts.eTableMapEvent]
  have hdb : (tmOf t).database = t.db := rfl
  have hnm : (tmOf t).name = t.name := rfl
  have hcn : (tmOf t).canBeNull.count = t.cols.length := rfl
  cases hmm : env.mapper t.db t.name with
  | none => simp [hdb, hnm, hmm]
  | some info => simp [hdb, hnm, hmm, hcn, hbad info hmm]

theorem cl_tm_bad (env : Env) (st : PState) (cfg : W.Cfg) (hr : Ready cfg st) (off ts : Nat) (t : W.TableDef)
    (ht : TableOK cfg t) (optional : Bytes) (hts : ts < 2 ^ 32)
    (hb : endOf cfg off (W.tableMapBody (if cfg.idw4 then 4 else 6) t.id 1 t.db t.name t.cols optional) < 2 ^ 32)
    (hnew : findTable st.tables t.id = none) (hbad : MapperRejects env t) :
    classify env st (bytesAt cfg off 19 ts (W.tableMapBody (if cfg.idw4 then 4 else 6) t.id 1 t.db t.name t.cols optional))
      = .decodeErr :=
  classify_tablemap_rejected env st cfg hr _ (crcOf_ok cfg off) { ts := ts } off t ht optional
    (evOK_at cfg off ts _ hts hb) hnew hbad

/-! Spec side: splitting a layout -/

theorem layoutAux_append_ex (cfg : W.Cfg) : ∀ (es1 es2 : List W.AEv) (file : Bytes) (off : Nat),
    ∃ f' o', W.layoutAux cfg (es1 ++ es2) file off = W.layoutAux cfg es1 file off ++ W.layoutAux cfg es2 f' o' := by
  intro es1
  induction es1 with
  | nil => intro es2 file off; exact ⟨file, off, rfl⟩
  | cons e es1 ih =>
    intro es2 file off
    obtain ⟨typ, body, ts, tag, us⟩ := e
    cases tag with
    | none =>
      obtain ⟨f', o', h⟩ := ih es2 file (endOf cfg off body)
      exact ⟨f', o', by rw [List.cons_append, layoutAux_none, layoutAux_none, h, List.cons_append]⟩
    | commit cs =>
      obtain ⟨f', o', h⟩ := ih es2 file (endOf cfg off body)
      exact ⟨f', o', by rw [List.cons_append, layoutAux_commit, layoutAux_commit, h, List.cons_append]⟩
    | rotateTo f =>
      obtain ⟨f', o', h⟩ := ih es2 f (W.fdeEvent cfg 4 none).2
      exact ⟨f', o', by rw [List.cons_append, layoutAux_rotate, layoutAux_rotate, h]; rfl⟩
    | stopThenRotateTo f =>
      obtain ⟨f', o', h⟩ := ih es2 f (W.fdeEvent cfg 4 none).2
      exact ⟨f', o', by rw [List.cons_append, layoutAux_restart, layoutAux_restart, h]; rfl⟩
    | fileHead =>
      obtain ⟨f', o', h⟩ := ih es2 file (W.event (W.crcOf cfg off) { ts := ts } typ off body).2
      exact ⟨f', o', by simp only [List.cons_append, W.layoutAux, h]⟩

theorem expectedAux_append : ∀ (l1 l2 : List W.Laid) (cur : W.Pos),
    W.expectedAux (l1 ++ l2) cur = W.expectedAux l1 cur ++ W.expectedAux l2 (W.endPosAux l1 cur)
  | [], _, _ => rfl
  | e :: l1, l2, cur => by
    simp only [List.cons_append, W.expectedAux, W.endPosAux]
    split <;> simp [expectedAux_append l1 l2]

theorem endPosAux_append : ∀ (l1 l2 : List W.Laid) (cur : W.Pos),
    W.endPosAux (l1 ++ l2) cur = W.endPosAux l2 (W.endPosAux l1 cur)
  | [], _, _ => rfl
  | e :: l1, l2, cur => by
    simp only [List.cons_append, W.endPosAux]
    split <;> simp [endPosAux_append l1 l2]

/-- events without a delivery tag: no expected transaction, position unchanged -/
theorem silent_layout (cfg : W.Cfg) : ∀ (es : List W.AEv) (file : Bytes) (off : Nat) (cur : W.Pos),
    (∀ e ∈ es, e.tag = .none) →
    W.expectedAux (W.layoutAux cfg es file off) cur = [] ∧ W.endPosAux (W.layoutAux cfg es file off) cur = cur := by
  intro es
  induction es with
  | nil => intro file off cur _; exact ⟨rfl, rfl⟩
  | cons e es ih =>
    intro file off cur h
    obtain ⟨typ, body, ts, tag, us⟩ := e
    have ht : tag = .none := h _ List.mem_cons_self
    subst ht
    obtain ⟨h1, h2⟩ := ih file (endOf cfg off body) cur (fun x hx => h x (List.mem_cons_of_mem _ hx))
    rw [layoutAux_none]
    simp [W.expectedAux, W.endPosAux, h1, h2]

theorem changeEvs_silent (cfg : W.Cfg) (cs : List W.Change) : ∀ e ∈ cs.flatMap (W.changeEvs cfg), e.tag = .none := by
  intro e he
  obtain ⟨ch, _, he⟩ := List.mem_flatMap.mp he
  cases ch with
  | stmt s =>
    simp only [W.changeEvs, List.mem_singleton] at he
    subst he; rfl
  | rows c =>
    simp only [W.changeEvs, List.mem_append, List.mem_singleton] at he
    rcases he with he | he
    · split at he
      · simp only [List.mem_singleton] at he
        subst he; rfl
      · cases he
    · subst he; rfl

theorem changes_split : ∀ (cs : List W.Change) (c : W.RowsChange), (changeRows cs).head? = some c →
    ∃ pre post, cs = pre ++ .rows c :: post ∧ changeRows pre = []
  | [], _, h => by simp [changeRows] at h
  | .rows c' :: cs, c, h => by
    simp only [changeRows, List.head?_cons, Option.some.injEq] at h
    subst h
    exact ⟨[], cs, rfl, rfl⟩
  | .stmt s :: cs, c, h => by
    simp only [changeRows] at h
    obtain ⟨pre, post, h1, h2⟩ := changes_split cs c h
    exact ⟨.stmt s :: pre, post, by rw [h1]; rfl, by simpa [changeRows] using h2⟩

/-- the announcements reached after some rows changes come from the start list or from these changes -/
theorem curOK_split : ∀ (R1 : List W.RowsChange) (anns : List W.TableDef) (R2 : List W.RowsChange),
    curOK anns (R1 ++ R2) → ∃ anns', curOK anns' R2 ∧ ∀ t ∈ anns', t ∈ anns ∨ ∃ c ∈ R1, c.table = t
  | [], anns, R2, h => ⟨anns, h, fun t ht => Or.inl ht⟩
  | c :: R1, anns, R2, h => by
    obtain ⟨_, h2⟩ := h
    obtain ⟨anns', h3, h4⟩ := curOK_split R1 (annAfter anns c) R2 h2
    refine ⟨anns', h3, ?_⟩
    intro t ht
    rcases h4 t ht with h5 | ⟨c', hc', rfl⟩
    · unfold annAfter at h5
      split at h5
      · rcases List.mem_cons.mp h5 with rfl | h5
        · exact Or.inr ⟨c, List.mem_cons_self, rfl⟩
        · exact Or.inl h5
      · exact Or.inl h5
    · exact Or.inr ⟨c', List.mem_cons_of_mem _ hc', rfl⟩

/-- the events of a unit before its first TABLE_MAP event (BEGIN and statement changes): nothing is delivered, the
    table cache keeps announcing only history definitions -/
def PreRun (cfg : W.Cfg) (pre : List W.AEv) : Prop :=
  (∀ e ∈ pre, e.tag = .none) ∧
  ∀ (env : Env) (P : W.TableDef → Prop) (tail : List Input) (eb : Bool) (st : PState) (file : Bytes) (off : Nat)
    (cur : W.Pos) (anns : List W.TableDef),
    Ctx env P → Inv cfg P st file cur anns → st.tran = none → st.autocommit = true →
    Bnd (W.layoutAux cfg pre file off) →
    (∀ st' anns', Inv cfg P st' file cur anns' → Good env tail eb st' cur []) →
    Good env tail eb st cur (W.layoutAux cfg pre file off)

theorem unit_split (cfg : W.Cfg) (u : W.Unit) (c : W.RowsChange) (hu : firstRows u = some c) (ha : c.announce = true)
    (hok : UnitOK cfg u) :
    ∃ (pre post : List W.AEv) (us : Bool), W.unitEvs cfg u = pre ++ tmAEv cfg c us :: post ∧ RowsOK cfg c ∧
      PreRun cfg pre := by
  cases u with
  | autoRows c' =>
    simp only [firstRows, unitRows, List.head?_cons, Option.some.injEq] at hu
    subst hu
    refine ⟨[], [W.rowsEv cfg c' (.commit [.rows c'])], true, ?_, hok.1, ?_, ?_⟩
    · simp only [W.unitEvs, ha, if_true, W.markStart, List.cons_append, List.nil_append]
      rfl
    · intro e he; cases he
    · intro env P tail eb st file off cur anns _ hI _ _ _ k
      simp only [W.layoutAux]
      exact k st anns hI
  | tx b cs close ts =>
    obtain ⟨hbeg, hcs, _, hts⟩ := hok
    simp only [firstRows, unitRows] at hu
    obtain ⟨pre, post, hsp, hpre⟩ := changes_split cs c hu
    obtain ⟨closeEv, hce⟩ : ∃ closeEv, W.unitEvs cfg (.tx b cs close ts)
        = W.markStart ([W.stmtEv ⟨b, [], ts, [], 0, none⟩ .none] ++ cs.flatMap (W.changeEvs cfg) ++ [closeEv]) :=
      ⟨_, rfl⟩
    have hrc : RowsOK cfg c := (hcs (.rows c) (by rw [hsp]; simp)).1
    refine ⟨⟨2, W.queryBody 1 0 0 [] [] b, ts, .none, true⟩ :: pre.flatMap (W.changeEvs cfg),
      W.rowsEv cfg c .none :: (post.flatMap (W.changeEvs cfg) ++ [closeEv]), false, ?_, hrc, ?_, ?_⟩
    · rw [hce, hsp]
      simp only [W.stmtEv, List.flatMap_append, List.flatMap_cons, W.changeEvs, ha, if_true, W.markStart,
        List.cons_append, List.nil_append, List.append_assoc]
      rfl
    · intro e he
      rcases List.mem_cons.mp he with rfl | he
      · rfl
      · exact changeEvs_silent cfg pre e he
    · intro env P tail eb st file off cur anns ctx hI ht hau hb k
      obtain ⟨hb1, hb2⟩ := bnd_none hb
      have hcl := cl_query env st cfg hI.fmt off ts [] [] b (by simp) (by simp) (by simp) hts hb1
      rw [hbeg] at hcl
      refine lay_cont _ hcl (SL.step_begin _ _ _) ?_
      have hb2' : Bnd (W.layoutAux cfg (pre.flatMap (W.changeEvs cfg) ++ []) file
          (endOf cfg off (W.queryBody 1 0 0 [] [] b))) := by rw [List.append_nil]; exact hb2
      have := changes_run (tail := tail) (eb := eb) ctx pre [] [] _ [] file _ cur anns (inv_tran hI (some []) false) rfl rfl
        (fun x hx => hcs x (by rw [hsp]; exact List.mem_append_left _ hx))
        (by rw [hpre]; intro x hx; cases hx) (by rw [hpre]; trivial) hb2'
        (by
          intro st' off' anns' hI' _ _ _ _
          simp only [W.layoutAux]
          exact k st' anns' hI')
      rw [List.append_nil] at this
      exact this
  | ddl s => simp [firstRows, unitRows] at hu
  | stmtDML s => simp [firstRows, unitRows] at hu
  | rotate f => simp [firstRows, unitRows] at hu
  | restart f => simp [firstRows, unitRows] at hu
  | gtid sid gno => simp [firstRows, unitRows] at hu
  | anonGtid => simp [firstRows, unitRows] at hu
  | prevGtids blk => simp [firstRows, unitRows] at hu
  | heartbeat => simp [firstRows, unitRows] at hu
  | unknownEvent typ body => simp [firstRows, unitRows] at hu
  | unknownStmt s => simp [firstRows, unitRows] at hu

theorem histRows_append (h₁ h₂ : W.History) : histRows (h₁ ++ h₂) = histRows h₁ ++ histRows h₂ := by
  simp [histRows]

/-- the first rows change of `u` must announce itself when its id is new -/
theorem first_announces (cfg : W.Cfg) (h₁ : W.History) (u : W.Unit) (h₂ : W.History) (c : W.RowsChange)
    (hwf : WFHistRedef cfg (h₁ ++ u :: h₂)) (hu : firstRows u = some c)
    (hnew : ∀ c' ∈ histRows h₁, c'.table.id ≠ c.table.id) : c.announce = true := by
  obtain ⟨tl, htl⟩ : ∃ tl, unitRows u = c :: tl := by
    unfold firstRows at hu
    cases hr : unitRows u with
    | nil => rw [hr] at hu; cases hu
    | cons a tl =>
      rw [hr] at hu
      simp only [List.head?_cons, Option.some.injEq] at hu
      exact ⟨tl, by rw [hu]⟩
  have hcur := hwf.current
  rw [histRows_append, histRows_cons, htl] at hcur
  obtain ⟨anns', h1, h2⟩ := curOK_split _ _ _ hcur
  rcases h1.1 with h | h
  · exact h
  · obtain ⟨hm, _⟩ := lastDef_some h
    rcases h2 _ hm with h3 | ⟨c', hc', he⟩
    · cases h3
    · exact absurd (by rw [he]) (hnew c' hc')

theorem mismatch_general (cfg : W.Cfg) (env : Env) (h₁ : W.History) (u : W.Unit) (h₂ : W.History) (c : W.RowsChange)
    (hwf : WFHistRedef cfg (h₁ ++ u :: h₂)) (hm : MapperAgrees env h₁) (hu : firstRows u = some c)
    (hnew : ∀ c' ∈ histRows h₁, c'.table.id ≠ c.table.id) (hbad : MapperRejects env c.table) :
    parseEvents env (fun _ => true) (PState.init ⟨W.firstFile, 4⟩)
        ((W.serve cfg (h₁ ++ u :: h₂) ⟨W.firstFile, 4⟩).map Input.event ++ [Input.closed])
      = ⟨(W.expected cfg h₁ ⟨W.firstFile, 4⟩).map (toTx env.ext), (W.expected cfg h₁ ⟨W.firstFile, 4⟩).map (toTx env.ext),
         posOf (W.endPos cfg h₁ ⟨W.firstFile, 4⟩), true, false⟩ := by
  let P : W.TableDef → Prop := fun t => ∃ c' ∈ histRows h₁, c'.table = t
  have hsub : ∀ x ∈ histRows h₁, x ∈ histRows (h₁ ++ u :: h₂) := by
    intro x hx; rw [histRows_append]; exact List.mem_append_left _ hx
  have ctx : Ctx env P := by
    refine ⟨?_, ?_⟩
    · rintro t1 t2 ⟨c1, h1, rfl⟩ ⟨c2, h2, rfl⟩ hid _ _
      exact sameInfo_infoOf (hwf.agree c1 (hsub c1 h1) c2 (hsub c2 h2) hid)
    · rintro t ⟨c', hc', rfl⟩
      exact hm c' hc'
  have hPid : ∀ t, P t → t.id ≠ c.table.id := by
    rintro t ⟨c', hc', rfl⟩; exact hnew c' hc'
  have ha := first_announces cfg h₁ u h₂ c hwf hu hnew
  have hUok : UnitOK cfg u := hwf.units u (by simp)
  obtain ⟨pre, post, us, hsplit, hrc, hsil, hpre⟩ := unit_split cfg u c hu ha hUok
  -- the abstract events: those of h₁ and the silent head of u, the TABLE_MAP event, the rest
  have hfull : (h₁ ++ u :: h₂).flatMap (W.unitEvs cfg)
      = (h₁.flatMap (W.unitEvs cfg) ++ pre) ++ tmAEv cfg c us :: (post ++ h₂.flatMap (W.unitEvs cfg)) := by
    simp [List.flatMap_append, hsplit]
  obtain ⟨f', o', hlay⟩ := layoutAux_append_ex cfg (h₁.flatMap (W.unitEvs cfg) ++ pre)
    (tmAEv cfg c us :: (post ++ h₂.flatMap (W.unitEvs cfg))) W.firstFile (W.fdeEvent cfg 4 none).2
  have htmL : W.layoutAux cfg (tmAEv cfg c us :: (post ++ h₂.flatMap (W.unitEvs cfg))) f' o' = _ :=
    layoutAux_none cfg 19 _ c.ts us _ f' o'
  rw [htmL] at hlay
  have hoff := hwf.offsets
  rw [layout_eq, hfull, hlay] at hoff
  have hB := (bnd_cons hoff).2
  have hB1 : Bnd (W.layoutAux cfg (h₁.flatMap (W.unitEvs cfg) ++ pre) W.firstFile (W.fdeEvent cfg 4 none).2) :=
    fun e he => hB e (List.mem_append_left _ he)
  have hB2 := hB _ (List.mem_append_right _ List.mem_cons_self)
  have hcur := hwf.current
  rw [histRows_append] at hcur
  have hg := units_run (cfg := cfg) (eb := true)
    (tail := Input.event (bytesAt cfg o' 19 c.ts (W.tableMapBody (if cfg.idw4 then 4 else 6) c.table.id 1 c.table.db
        c.table.name c.table.cols c.tmOptional)) ::
      ((W.layoutAux cfg (post ++ h₂.flatMap (W.unitEvs cfg)) f' (endOf cfg o' (W.tableMapBody (if cfg.idw4 then 4 else 6)
        c.table.id 1 c.table.db c.table.name c.table.cols c.tmOptional))).map (fun e => Input.event e.bytes)
        ++ [Input.closed])) ctx pre (histRows (u :: h₂)) h₁ (st1 cfg) W.firstFile _ ⟨W.firstFile, 4⟩ []
    (inv_st1 cfg P) rfl rfl (fun x hx => hwf.units x (List.mem_append_left _ hx)) (fun c hc => ⟨c, hc, rfl⟩) hcur hB1
    (by
      intro st' file' off' cur' anns' hI' ht' ha' _ hb'
      refine hpre env P _ true st' file' off' cur' anns' ctx hI' ht' ha' hb' ?_
      intro st'' anns'' hI''
      have hnone : findTable st''.tables c.table.id = none := by
        rw [hI''.cache, lastDef_none (fun t ht => hPid t (hI''.anns t ht))]; rfl
      exact good_stop env st'' cur' hI''.pos _ _
        (cl_tm_bad env st'' cfg hI''.fmt o' c.ts c.table hrc.table c.tmOptional hrc.ts hB2 hnone hbad))
  -- the Spec side: the silent head of u adds nothing to what h₁ alone delivers
  obtain ⟨f'', o'', hl1⟩ := layoutAux_append_ex cfg (h₁.flatMap (W.unitEvs cfg)) pre W.firstFile (W.fdeEvent cfg 4 none).2
  obtain ⟨hs1, hs2⟩ := silent_layout cfg pre f'' o''
    (W.endPosAux (W.layoutAux cfg (h₁.flatMap (W.unitEvs cfg)) W.firstFile (W.fdeEvent cfg 4 none).2) ⟨W.firstFile, 4⟩) hsil
  unfold Good at hg
  have hE : W.expectedAux (W.layoutAux cfg (h₁.flatMap (W.unitEvs cfg) ++ pre) W.firstFile (W.fdeEvent cfg 4 none).2)
      ⟨W.firstFile, 4⟩ = W.expected cfg h₁ ⟨W.firstFile, 4⟩ := by
    rw [hl1, expectedAux_append, hs1, List.append_nil, W.expected, fromPos_head, layout_eq cfg h₁]
    simp [W.expectedAux]
  have hP : W.endPosAux (W.layoutAux cfg (h₁.flatMap (W.unitEvs cfg) ++ pre) W.firstFile (W.fdeEvent cfg 4 none).2)
      ⟨W.firstFile, 4⟩ = W.endPos cfg h₁ ⟨W.firstFile, 4⟩ := by
    rw [hl1, endPosAux_append, hs2, W.endPos, fromPos_head, layout_eq cfg h₁]
    simp [W.endPosAux]
  rw [hE, hP] at hg
  rw [serve_head, layout_eq cfg (h₁ ++ u :: h₂), hfull, hlay]
  simp only [List.map_cons, List.cons_append, List.map_map, List.map_append, List.append_assoc]
  refine head_run cfg env h₁ _ _ true _ ?_
  simpa [Function.comp_def] using hg

/-! ### Spec side: the expected transactions only carry rows changes of the history -/

theorem expectedAux_layout_commit (cfg : W.Cfg) : ∀ (es : List W.AEv) (file : Bytes) (off : Nat) (cur : W.Pos),
    ∀ e ∈ W.expectedAux (W.layoutAux cfg es file off) cur, ∃ a ∈ es, a.tag = .commit e.changes := by
  intro es
  induction es with
  | nil => intro file off cur e he; simp [W.layoutAux, W.expectedAux] at he
  | cons a es ih =>
    intro file off cur e he
    obtain ⟨typ, body, ts, tag, us⟩ := a
    cases tag with
    | none =>
      rw [layoutAux_none] at he
      simp only [W.expectedAux] at he
      obtain ⟨a, ha, h⟩ := ih _ _ _ e he
      exact ⟨a, List.mem_cons_of_mem _ ha, h⟩
    | commit cs =>
      rw [layoutAux_commit] at he
      simp only [W.expectedAux] at he
      rcases List.mem_cons.mp he with rfl | he
      · exact ⟨_, List.mem_cons_self, rfl⟩
      · obtain ⟨a, ha, h⟩ := ih _ _ _ e he
        exact ⟨a, List.mem_cons_of_mem _ ha, h⟩
    | rotateTo f =>
      rw [layoutAux_rotate] at he
      simp only [W.expectedAux] at he
      obtain ⟨a, ha, h⟩ := ih _ _ _ e he
      exact ⟨a, List.mem_cons_of_mem _ ha, h⟩
    | stopThenRotateTo f =>
      rw [layoutAux_restart] at he
      simp only [W.expectedAux] at he
      obtain ⟨a, ha, h⟩ := ih _ _ _ e he
      exact ⟨a, List.mem_cons_of_mem _ ha, h⟩
    | fileHead =>
      simp only [W.layoutAux, W.expectedAux] at he
      obtain ⟨a, ha, h⟩ := ih _ _ _ e he
      exact ⟨a, List.mem_cons_of_mem _ ha, h⟩

theorem markStart_tag : ∀ (l : List W.AEv) (a : W.AEv), a ∈ W.markStart l → ∃ a' ∈ l, a'.tag = a.tag
  | [], a, h => by simp [W.markStart] at h
  | e :: es, a, h => by
    simp only [W.markStart] at h
    rcases List.mem_cons.mp h with rfl | h
    · exact ⟨e, List.mem_cons_self, rfl⟩
    · exact ⟨a, List.mem_cons_of_mem _ h, rfl⟩

theorem mem_changeRows : ∀ (cs : List W.Change) (c : W.RowsChange), W.Change.rows c ∈ cs → c ∈ changeRows cs
  | [], _, h => by cases h
  | .rows c' :: cs, c, h => by
    rcases List.mem_cons.mp h with h | h
    · cases h; exact List.mem_cons_self
    · exact List.mem_cons_of_mem _ (mem_changeRows cs c h)
  | .stmt s :: cs, c, h => by
    rcases List.mem_cons.mp h with h | h
    · cases h
    · exact mem_changeRows cs c h

theorem unitEvs_commit_rows (cfg : W.Cfg) (u : W.Unit) (a : W.AEv) (cs : List W.Change) (ha : a ∈ W.unitEvs cfg u)
    (ht : a.tag = .commit cs) (c : W.RowsChange) (hc : W.Change.rows c ∈ cs) : c ∈ unitRows u := by
  cases u with
  | tx b cs' close ts =>
    obtain ⟨closeEv, hce, hcl⟩ : ∃ closeEv, W.unitEvs cfg (.tx b cs' close ts)
        = W.markStart ([W.stmtEv ⟨b, [], ts, [], 0, none⟩ .none] ++ cs'.flatMap (W.changeEvs cfg) ++ [closeEv]) ∧
          (closeEv.tag = .commit cs' ∨ closeEv.tag = .commit []) := by
      cases close
      · exact ⟨_, rfl, Or.inl rfl⟩
      · exact ⟨_, rfl, Or.inl rfl⟩
      · exact ⟨_, rfl, Or.inr rfl⟩
    rw [hce] at ha
    obtain ⟨a', ha', htag⟩ := markStart_tag _ _ ha
    rw [ht] at htag
    simp only [List.mem_append, List.mem_singleton] at ha'
    rcases ha' with (ha' | ha') | ha'
    · subst ha'; cases htag
    · rw [changeEvs_silent cfg cs' a' ha'] at htag; cases htag
    · subst ha'
      rcases hcl with hcl | hcl
      · rw [hcl] at htag
        cases htag
        exact mem_changeRows _ c hc
      · rw [hcl] at htag
        cases htag
        cases hc
  | autoRows c' =>
    obtain ⟨a', ha', htag⟩ := markStart_tag _ _ ha
    rw [ht] at htag
    simp only [List.mem_append, List.mem_singleton] at ha'
    rcases ha' with ha' | ha'
    · split at ha'
      · simp only [List.mem_singleton] at ha'
        subst ha'; cases htag
      · cases ha'
    · subst ha'
      cases htag
      simp only [List.mem_singleton, W.Change.rows.injEq] at hc
      subst hc
      exact List.mem_cons_self
  | ddl s =>
    simp only [W.unitEvs, W.markStart, List.mem_singleton] at ha
    subst ha; cases ht; simp at hc
  | stmtDML s =>
    simp only [W.unitEvs, W.markStart, List.mem_singleton] at ha
    subst ha; cases ht; simp at hc
  | rotate f => simp only [W.unitEvs, W.markStart, List.mem_singleton] at ha; subst ha; cases ht
  | restart f => simp only [W.unitEvs, W.markStart, List.mem_singleton] at ha; subst ha; cases ht
  | gtid sid gno => simp only [W.unitEvs, W.markStart, List.mem_singleton] at ha; subst ha; cases ht
  | anonGtid => simp only [W.unitEvs, W.markStart, List.mem_singleton] at ha; subst ha; cases ht
  | prevGtids blk => simp only [W.unitEvs, W.markStart, List.mem_singleton] at ha; subst ha; cases ht
  | heartbeat => simp only [W.unitEvs, W.markStart, List.mem_singleton] at ha; subst ha; cases ht
  | unknownEvent typ body => simp only [W.unitEvs, W.markStart, List.mem_singleton] at ha; subst ha; cases ht
  | unknownStmt s => simp only [W.unitEvs, W.markStart, W.stmtEv, List.mem_singleton] at ha; subst ha; cases ht

/-- the rows changes of the transactions expected from the head of the log are rows changes of the history -/
theorem expected_rows_sub (cfg : W.Cfg) (h : W.History) (e : W.ETx) (he : e ∈ W.expected cfg h ⟨W.firstFile, 4⟩)
    (c : W.RowsChange) (hc : W.Change.rows c ∈ e.changes) : c ∈ histRows h := by
  rw [W.expected, fromPos_head, layout_eq] at he
  simp only [W.expectedAux] at he
  obtain ⟨a, ha, ht⟩ := expectedAux_layout_commit cfg _ _ _ _ e he
  obtain ⟨u, hu, hau⟩ := List.mem_flatMap.mp ha
  exact List.mem_flatMap.mpr ⟨u, hu, unitEvs_commit_rows cfg u a _ hau ht c hc⟩

end C15b
end GV
