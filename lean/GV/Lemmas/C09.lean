import GV.Model.Rows
import GV.Spec.Events
import GV.Lemmas.Dec
import GV.Lemmas.C11
/- helper lemmas for GV/Props/C09.lean -/
namespace GV
namespace C09
open Bytes M

/-! ### taking `Res` binds apart -/

theorem bind_ok {α β : Type} {x : Res α} {f : α → Res β} {b : β} {P : Prop}
    (h : (x >>= f) = .ok b) (hf : ∀ a, x = .ok a → f a = .ok b → P) : P := by
  obtain ⟨a, ha, h⟩ := Res.bind_eq_ok.mp h
  exact hf a ha h

theorem pure_snd {w v : Bytes} {n l' : Nat} (h : (pure (w, n) : Res (Bytes × Nat)) = .ok (v, l')) : l' = n := by
  simp only [Res.pure_eq, Res.ok.injEq, Prod.mk.injEq] at h
  exact h.2.symm

theorem ok_snd {w v : Bytes} {n l' : Nat} (h : (Res.ok (w, n) : Res (Bytes × Nat)) = .ok (v, l')) : l' = n :=
  pure_snd h

theorem pure_val {n l : Nat} (h : (pure n : Res Nat) = .ok l) : l = n := by
  simp only [Res.pure_eq, Res.ok.injEq] at h
  exact h.symm

/-- both functions start with the same read `x`; the length rule returns `g a`, the decoder's continuation
    always returns the length `g a` too -/
theorem agree_read {α : Type} {x : Res α} {g : α → Nat} {f : α → Res (Bytes × Nat)} {l l' : Nat} {v : Bytes}
    (hf : ∀ a, f a = .ok (v, l') → l' = g a)
    (h1 : (x >>= fun a => pure (g a)) = .ok l) (h2 : (x >>= f) = .ok (v, l')) : l = l' := by
  refine bind_ok h1 fun a ha h1 => ?_
  refine bind_ok h2 fun a' ha' h2 => ?_
  rw [ha] at ha'
  cases ha'
  rw [hf a h2, pure_val h1]

/-! ### the two dispatchers -/

theorem cl_some (data : Bytes) (pos typ md n : Nat) (h : lookup Facts.cellLengthFixed typ = some n) :
    cellLength data pos typ md = .ok n := by
  unfold cellLength; rw [h]

/-- the types with a fixed length, and what the decoder consumes for them -/
theorem cb_1 (E : Ext) (data : Bytes) (pos md : Nat) (u : Bool) (v : Bytes) (l' : Nat)
    (h : cellBytes E data pos 1 md u = .ok (v, l')) : l' = 1 := by
  unfold cellBytes at h
  simp only [↓reduceIte] at h
  exact bind_ok h fun _ _ h => pure_snd h

theorem cb_13 (E : Ext) (data : Bytes) (pos md : Nat) (u : Bool) (v : Bytes) (l' : Nat)
    (h : cellBytes E data pos 13 md u = .ok (v, l')) : l' = 1 := by
  unfold cellBytes at h
  simp only [Nat.reduceEqDiff, ↓reduceIte] at h
  exact bind_ok h fun _ _ h => pure_snd h

theorem cb_2 (E : Ext) (data : Bytes) (pos md : Nat) (u : Bool) (v : Bytes) (l' : Nat)
    (h : cellBytes E data pos 2 md u = .ok (v, l')) : l' = 2 := by
  unfold cellBytes at h
  simp only [Nat.reduceEqDiff, ↓reduceIte] at h
  exact bind_ok h fun _ _ h => pure_snd h

theorem cb_9 (E : Ext) (data : Bytes) (pos md : Nat) (u : Bool) (v : Bytes) (l' : Nat)
    (h : cellBytes E data pos 9 md u = .ok (v, l')) : l' = 3 := by
  unfold cellBytes at h
  simp only [Nat.reduceEqDiff, ↓reduceIte] at h
  split at h
  · refine bind_ok h fun b2 _ h => ?_
    split at h <;> exact bind_ok h fun _ _ h => pure_snd h
  · exact bind_ok h fun _ _ h => pure_snd h

theorem cb_3 (E : Ext) (data : Bytes) (pos md : Nat) (u : Bool) (v : Bytes) (l' : Nat)
    (h : cellBytes E data pos 3 md u = .ok (v, l')) : l' = 4 := by
  unfold cellBytes at h
  simp only [Nat.reduceEqDiff, ↓reduceIte] at h
  exact bind_ok h fun _ _ h => pure_snd h

theorem cb_4 (E : Ext) (data : Bytes) (pos md : Nat) (u : Bool) (v : Bytes) (l' : Nat)
    (h : cellBytes E data pos 4 md u = .ok (v, l')) : l' = 4 := by
  unfold cellBytes at h
  simp only [Nat.reduceEqDiff, ↓reduceIte] at h
  exact bind_ok h fun _ _ h => pure_snd h

theorem cb_5 (E : Ext) (data : Bytes) (pos md : Nat) (u : Bool) (v : Bytes) (l' : Nat)
    (h : cellBytes E data pos 5 md u = .ok (v, l')) : l' = 8 := by
  unfold cellBytes at h
  simp only [Nat.reduceEqDiff, ↓reduceIte] at h
  exact bind_ok h fun _ _ h => pure_snd h

theorem cb_7 (E : Ext) (data : Bytes) (pos md : Nat) (u : Bool) (v : Bytes) (l' : Nat)
    (h : cellBytes E data pos 7 md u = .ok (v, l')) : l' = 4 := by
  unfold cellBytes at h
  simp only [Nat.reduceEqDiff, ↓reduceIte] at h
  exact bind_ok h fun _ _ h => pure_snd h

theorem cb_8 (E : Ext) (data : Bytes) (pos md : Nat) (u : Bool) (v : Bytes) (l' : Nat)
    (h : cellBytes E data pos 8 md u = .ok (v, l')) : l' = 8 := by
  unfold cellBytes at h
  simp only [Nat.reduceEqDiff, ↓reduceIte] at h
  exact bind_ok h fun _ _ h => pure_snd h

theorem cb_10 (E : Ext) (data : Bytes) (pos md : Nat) (u : Bool) (v : Bytes) (l' : Nat)
    (h : cellBytes E data pos 10 md u = .ok (v, l')) : l' = 3 := by
  unfold cellBytes at h
  simp only [Nat.reduceEqDiff, ↓reduceIte, or_false] at h
  exact bind_ok h fun _ _ h => pure_snd h

theorem cb_14 (E : Ext) (data : Bytes) (pos md : Nat) (u : Bool) (v : Bytes) (l' : Nat)
    (h : cellBytes E data pos 14 md u = .ok (v, l')) : l' = 3 := by
  unfold cellBytes at h
  simp only [Nat.reduceEqDiff, ↓reduceIte, false_or] at h
  exact bind_ok h fun _ _ h => pure_snd h

theorem cb_11 (E : Ext) (data : Bytes) (pos md : Nat) (u : Bool) (v : Bytes) (l' : Nat)
    (h : cellBytes E data pos 11 md u = .ok (v, l')) : l' = 3 := by
  unfold cellBytes at h
  simp only [Nat.reduceEqDiff, ↓reduceIte, or_self] at h
  exact bind_ok h fun _ _ h => bind_ok h fun _ _ h => pure_snd h

theorem cb_12 (E : Ext) (data : Bytes) (pos md : Nat) (u : Bool) (v : Bytes) (l' : Nat)
    (h : cellBytes E data pos 12 md u = .ok (v, l')) : l' = 8 := by
  unfold cellBytes at h
  simp only [Nat.reduceEqDiff, ↓reduceIte, or_self] at h
  exact bind_ok h fun _ _ h => pure_snd h

theorem cb_6 (E : Ext) (data : Bytes) (pos md : Nat) (u : Bool) :
    cellBytes E data pos 6 md u = .err := by
  unfold cellBytes
  simp only [Nat.reduceEqDiff, ↓reduceIte, or_self]

/-! ### the length rule for the types outside the fixed table -/

theorem cl_none (data : Bytes) (pos typ md : Nat) (h : lookup Facts.cellLengthFixed typ = none) :
    cellLength data pos typ md =
      if typ = 15 ∨ typ = 253 then
        if md > 255 then (leIdx data pos 2 >>= fun l => pure (l + 2))
        else (data.get pos >>= fun b => pure (b.toNat + 1))
      else if typ = 16 then .ok ((u16 (u16 ((md / 256) * 8) + md % 256) + 7) / 8)
      else if typ = 17 then .ok (4 + (md + 1) / 2)
      else if typ = 18 then .ok (5 + (md + 1) / 2)
      else if typ = 19 then .ok (3 + (md + 1) / 2)
      else if typ = 246 then decimalLen md
      else if typ = 247 ∨ typ = 248 then .ok (md % 256)
      else if typ = 245 ∨ typ = 249 ∨ typ = 250 ∨ typ = 251 ∨ typ = 252 ∨ typ = 255 then
        (blobLen data pos md >>= fun l => pure (md + l))
      else if typ = 254 then
        if md / 256 = 247 ∨ md / 256 = 248 then .ok (md % 256)
        else if stringMax md > 255 then (leIdx data pos 2 >>= fun l => pure (l + 2))
        else (data.get pos >>= fun b => pure (b.toNat + 1))
      else .err := by
  unfold cellLength; rw [h]

/-- the string layout shared by VARCHAR and CHAR -/
theorem agree_str (data : Bytes) (pos : Nat) (c : Prop) [Decidable c] (l l' : Nat) (v : Bytes)
    (h1 : (if c then (leIdx data pos 2 >>= fun l => pure (l + 2))
           else (data.get pos >>= fun b => pure (b.toNat + 1))) = .ok l)
    (h2 : (if c then (do
              let l ← leIdx data pos 2
              let s ← data.slice (pos + 2) (pos + 2 + l)
              pure (s, l + 2))
            else (do
              let b ← data.get pos
              let s ← data.slice (pos + 1) (pos + 1 + b.toNat)
              pure (s, b.toNat + 1))) = .ok (v, l')) : l = l' := by
  by_cases hc : c
  · simp only [hc, ↓reduceIte] at h1 h2
    exact agree_read (fun a h => bind_ok h fun _ _ h => pure_snd h) h1 h2
  · simp only [hc, ↓reduceIte] at h1 h2
    exact agree_read (g := fun (b : UInt8) => b.toNat + 1) (fun a h => bind_ok h fun _ _ h => pure_snd h) h1 h2

theorem agree_varchar (E : Ext) (data : Bytes) (pos typ md : Nat) (u : Bool) (l l' : Nat) (v : Bytes)
    (ht : typ = 15 ∨ typ = 253)
    (h1 : cellLength data pos typ md = .ok l) (h2 : cellBytes E data pos typ md u = .ok (v, l')) : l = l' := by
  have hl : lookup Facts.cellLengthFixed typ = none := by rcases ht with rfl | rfl <;> decide
  rw [cl_none _ _ _ _ hl] at h1
  unfold cellBytes at h2
  rcases ht with rfl | rfl
  · simp only [Nat.reduceEqDiff, ↓reduceIte, or_false, or_self] at h1 h2
    exact agree_str data pos _ l l' v h1 h2
  · simp only [Nat.reduceEqDiff, ↓reduceIte, false_or, or_self] at h1 h2
    exact agree_str data pos _ l l' v h1 h2

theorem agree_16 (E : Ext) (data : Bytes) (pos md : Nat) (u : Bool) (l l' : Nat) (v : Bytes)
    (h1 : cellLength data pos 16 md = .ok l) (h2 : cellBytes E data pos 16 md u = .ok (v, l')) : l = l' := by
  rw [cl_none _ _ _ _ (by decide)] at h1
  unfold cellBytes at h2
  simp only [Nat.reduceEqDiff, ↓reduceIte, or_self, Res.ok.injEq] at h1 h2
  rw [← h1]
  exact (bind_ok h2 fun _ _ h => pure_snd h).symm

theorem fracSuffix_len (data : Bytes) (pos md : Nat) (fr : Bytes) (n : Nat) (hmd : md ≤ 6)
    (h : fracSuffix data pos md = .ok (fr, n)) : n = (md + 1) / 2 := by
  have hc : md = 0 ∨ md = 1 ∨ md = 2 ∨ md = 3 ∨ md = 4 ∨ md = 5 ∨ md = 6 := by omega
  unfold fracSuffix at h
  rcases hc with rfl | rfl | rfl | rfl | rfl | rfl | rfl <;> simp only [Nat.reduceEqDiff, ↓reduceIte] at h
  · exact ok_snd h
  all_goals exact bind_ok h fun _ _ h => pure_snd h

theorem agree_17 (E : Ext) (data : Bytes) (pos md : Nat) (u : Bool) (l l' : Nat) (v : Bytes) (hmd : md ≤ 6)
    (h1 : cellLength data pos 17 md = .ok l) (h2 : cellBytes E data pos 17 md u = .ok (v, l')) : l = l' := by
  rw [cl_none _ _ _ _ (by decide)] at h1
  unfold cellBytes at h2
  simp only [Nat.reduceEqDiff, ↓reduceIte, or_self, Res.ok.injEq] at h1 h2
  refine bind_ok h2 fun _ _ h2 => bind_ok h2 fun p hp h2 => ?_
  obtain ⟨fr, n⟩ := p
  rw [pure_snd h2, fracSuffix_len _ _ _ _ _ hmd hp, h1]

theorem agree_18 (E : Ext) (data : Bytes) (pos md : Nat) (u : Bool) (l l' : Nat) (v : Bytes) (hmd : md ≤ 6)
    (h1 : cellLength data pos 18 md = .ok l) (h2 : cellBytes E data pos 18 md u = .ok (v, l')) : l = l' := by
  rw [cl_none _ _ _ _ (by decide)] at h1
  unfold cellBytes at h2
  simp only [Nat.reduceEqDiff, ↓reduceIte, or_self, Res.ok.injEq] at h1 h2
  refine bind_ok h2 fun _ _ h2 => bind_ok h2 fun p hp h2 => ?_
  obtain ⟨fr, n⟩ := p
  rw [pure_snd h2, fracSuffix_len _ _ _ _ _ hmd hp, h1]

theorem agree_19 (E : Ext) (data : Bytes) (pos md : Nat) (u : Bool) (l l' : Nat) (v : Bytes)
    (h1 : cellLength data pos 19 md = .ok l) (h2 : cellBytes E data pos 19 md u = .ok (v, l')) : l = l' := by
  rw [cl_none _ _ _ _ (by decide)] at h1
  unfold cellBytes at h2
  simp only [Nat.reduceEqDiff, ↓reduceIte, or_self, Res.ok.injEq] at h1 h2
  rw [← h1]
  exact (bind_ok h2 fun _ _ h => bind_ok h fun _ _ h => pure_snd h).symm

/-! ### DECIMAL -/

theorem decimalLen_eq (md : Nat) :
    decimalLen md =
      if md / 256 < md % 256 then .panic else
      dig2 (md / 256 - md % 256 - (md / 256 - md % 256) / 9 * 9) >>= fun ib =>
      dig2 (md % 256 - md % 256 / 9 * 9) >>= fun fb =>
      pure ((md / 256 - md % 256) / 9 * 4 + ib + md % 256 / 9 * 4 + fb) := by
  rfl

theorem decTail_len (d txt : Bytes) (intg0 ib frac0 fb frac0x scale l : Nat) (v : Bytes) (l' : Nat)
    (h : C11.decTail d txt intg0 ib frac0 fb frac0x scale l = .ok (v, l')) : l' = l := by
  unfold C11.decTail at h
  refine bind_ok h fun x _ h => ?_
  generalize (if x > 0 then (txt ++ natDec x, true) else (txt, false)) = p at h
  obtain ⟨t, fl⟩ := p
  refine bind_ok h fun q _ h => ?_
  obtain ⟨t2, fl2, p2⟩ := q
  dsimp only at h
  split at h
  · exact pure_snd h
  · refine bind_ok h fun q _ h => ?_
    obtain ⟨t3, p3⟩ := q
    dsimp only at h
    split at h
    · exact pure_snd h
    · exact bind_ok h fun _ _ h => pure_snd h

theorem agree_246 (E : Ext) (data : Bytes) (pos md : Nat) (u : Bool) (l l' : Nat) (v : Bytes)
    (h1 : cellLength data pos 246 md = .ok l) (h2 : cellBytes E data pos 246 md u = .ok (v, l')) : l = l' := by
  rw [C11.cellLength_246, decimalLen_eq] at h1
  rw [C11.cellBytes_246, C11.decimalBytes_eq] at h2
  by_cases hc : md / 256 < md % 256
  · simp only [hc, ↓reduceIte] at h1
    cases h1
  · simp only [hc, ↓reduceIte] at h1 h2
    refine bind_ok h1 fun a ha h1 => bind_ok h1 fun b hb h1 => ?_
    refine bind_ok h2 fun a' ha' h2 => bind_ok h2 fun b' hb' h2 => ?_
    rw [ha] at ha'; cases ha'
    rw [hb] at hb'; cases hb'
    refine bind_ok h2 fun _ _ h2 => bind_ok h2 fun _ _ h2 => ?_
    rw [decTail_len _ _ _ _ _ _ _ _ _ _ _ h2, pure_val h1]

/-! ### ENUM, SET -/

theorem agree_247 (E : Ext) (data : Bytes) (pos md : Nat) (u : Bool) (l l' : Nat) (v : Bytes)
    (h1 : cellLength data pos 247 md = .ok l) (h2 : cellBytes E data pos 247 md u = .ok (v, l')) : l = l' := by
  rw [cl_none _ _ _ _ (by decide)] at h1
  unfold cellBytes at h2
  simp only [Nat.reduceEqDiff, ↓reduceIte, or_self, or_false, Res.ok.injEq] at h1 h2
  split at h2
  · have := bind_ok h2 fun _ _ h => pure_snd h
    omega
  · split at h2
    · have := bind_ok h2 fun _ _ h => pure_snd h
      omega
    · cases h2

theorem agree_248 (E : Ext) (data : Bytes) (pos md : Nat) (u : Bool) (l l' : Nat) (v : Bytes)
    (h1 : cellLength data pos 248 md = .ok l) (h2 : cellBytes E data pos 248 md u = .ok (v, l')) : l = l' := by
  rw [cl_none _ _ _ _ (by decide)] at h1
  unfold cellBytes at h2
  simp only [Nat.reduceEqDiff, ↓reduceIte, or_self, false_or, Res.ok.injEq] at h1 h2
  rw [← h1]
  exact (bind_ok h2 fun _ _ h => pure_snd h).symm

/-! ### JSON, the BLOB family, GEOMETRY -/

theorem agree_245 (E : Ext) (data : Bytes) (pos md : Nat) (u : Bool) (l l' : Nat) (v : Bytes)
    (h1 : cellLength data pos 245 md = .ok l) (h2 : cellBytes E data pos 245 md u = .ok (v, l')) : l = l' := by
  rw [cl_none _ _ _ _ (by decide)] at h1
  unfold cellBytes at h2
  simp only [Nat.reduceEqDiff, ↓reduceIte, or_self, or_false] at h1 h2
  refine agree_read (fun a h => ?_) h1 h2
  refine bind_ok h fun s _ h => ?_
  split at h
  · have := pure_snd h; omega
  · cases h
  · cases h
  · cases h

theorem agree_blob (E : Ext) (data : Bytes) (pos typ md : Nat) (u : Bool) (l l' : Nat) (v : Bytes)
    (ht : typ = 249 ∨ typ = 250 ∨ typ = 251 ∨ typ = 252)
    (h1 : cellLength data pos typ md = .ok l) (h2 : cellBytes E data pos typ md u = .ok (v, l')) : l = l' := by
  have hl : lookup Facts.cellLengthFixed typ = none := by rcases ht with rfl | rfl | rfl | rfl <;> decide
  rw [cl_none _ _ _ _ hl] at h1
  unfold cellBytes at h2
  rcases ht with rfl | rfl | rfl | rfl <;>
    simp only [Nat.reduceEqDiff, ↓reduceIte, or_self, or_false, or_true] at h1 h2 <;>
    exact agree_read (fun a h => bind_ok h fun s _ h => by have := pure_snd h; omega) h1 h2

theorem agree_255 (E : Ext) (data : Bytes) (pos md : Nat) (u : Bool) (l l' : Nat) (v : Bytes)
    (h1 : cellLength data pos 255 md = .ok l) (h2 : cellBytes E data pos 255 md u = .ok (v, l')) : l = l' := by
  rw [cl_none _ _ _ _ (by decide)] at h1
  unfold cellBytes at h2
  simp only [Nat.reduceEqDiff, ↓reduceIte, or_self, or_true] at h1 h2
  exact agree_read (fun a h => bind_ok h fun s _ h => by have := pure_snd h; omega) h1 h2

/-! ### CHAR / ENUM / SET packed into TypeString -/

theorem agree_254 (E : Ext) (data : Bytes) (pos md : Nat) (u : Bool) (l l' : Nat) (v : Bytes)
    (h1 : cellLength data pos 254 md = .ok l) (h2 : cellBytes E data pos 254 md u = .ok (v, l')) : l = l' := by
  rw [cl_none _ _ _ _ (by decide)] at h1
  unfold cellBytes at h2
  simp only [Nat.reduceEqDiff, ↓reduceIte, or_self] at h1 h2
  by_cases h7 : md / 256 = 247
  · simp only [h7, ↓reduceIte, true_or, Res.ok.injEq] at h1 h2
    split at h2
    · have := bind_ok h2 fun _ _ h => pure_snd h
      omega
    · split at h2
      · have := bind_ok h2 fun _ _ h => pure_snd h
        omega
      · cases h2
  · by_cases h8 : md / 256 = 248
    · simp only [h8, ↓reduceIte, or_true, Nat.reduceEqDiff, Res.ok.injEq] at h1 h2
      rw [← h1]
      exact (bind_ok h2 fun _ _ h => pure_snd h).symm
    · simp only [h7, h8, ↓reduceIte, or_self] at h1 h2
      exact agree_str data pos _ l l' v h1 h2

/-! ### every other type code is rejected by the decoder -/

def cellTypes : List Nat :=
  [1, 13, 2, 9, 3, 4, 5, 7, 8, 10, 14, 11, 12, 15, 253, 16, 17, 18, 19, 246, 247, 248, 245, 249, 250, 251, 252,
   254, 255]

theorem cb_other (E : Ext) (data : Bytes) (pos typ md : Nat) (u : Bool) (ht : typ ∉ cellTypes) :
    cellBytes E data pos typ md u = .err := by
  simp only [cellTypes, List.mem_cons, List.mem_nil_iff, or_false, not_or] at ht
  obtain ⟨a1, a2, a3, a4, a5, a6, a7, a8, a9, a10, a11, a12, a13, a14, a15, a16, a17, a18, a19, a20, a21, a22,
    a23, a24, a25, a26, a27, a28, a29⟩ := ht
  unfold cellBytes
  simp only [a1, a2, a3, a4, a5, a6, a7, a8, a9, a10, a11, a12, a13, a14, a15, a16, a17, a18, a19, a20, a21, a22,
    a23, a24, a25, a26, a27, a28, a29, ↓reduceIte, or_self]

theorem agree_fixed (data : Bytes) (pos typ md n l l' : Nat) (hl : lookup Facts.cellLengthFixed typ = some n)
    (h1 : cellLength data pos typ md = .ok l) (h2 : l' = n) : l = l' := by
  rw [cl_some _ _ _ _ _ hl] at h1
  cases h1
  exact h2.symm

/-- the agreement for every type code the decoder accepts -/
theorem agree_known (E : Ext) (data : Bytes) (pos typ md : Nat) (u : Bool) (l l' : Nat) (v : Bytes)
    (ht : typ ∈ cellTypes) (hfsp : (typ = 17 ∨ typ = 18) → md ≤ 6)
    (h1 : cellLength data pos typ md = .ok l) (h2 : cellBytes E data pos typ md u = .ok (v, l')) : l = l' := by
  simp only [cellTypes, List.mem_cons, List.mem_nil_iff, or_false] at ht
  rcases ht with rfl | rfl | rfl | rfl | rfl | rfl | rfl | rfl | rfl | rfl | rfl | rfl | rfl | ht | ht | rfl |
    rfl | rfl | rfl | rfl | rfl | rfl | rfl | ht | ht | ht | ht | rfl | rfl
  · exact agree_fixed _ _ _ _ _ _ _ (by decide) h1 (cb_1 _ _ _ _ _ _ _ h2)
  · exact agree_fixed _ _ _ _ _ _ _ (by decide) h1 (cb_13 _ _ _ _ _ _ _ h2)
  · exact agree_fixed _ _ _ _ _ _ _ (by decide) h1 (cb_2 _ _ _ _ _ _ _ h2)
  · exact agree_fixed _ _ _ _ _ _ _ (by decide) h1 (cb_9 _ _ _ _ _ _ _ h2)
  · exact agree_fixed _ _ _ _ _ _ _ (by decide) h1 (cb_3 _ _ _ _ _ _ _ h2)
  · exact agree_fixed _ _ _ _ _ _ _ (by decide) h1 (cb_4 _ _ _ _ _ _ _ h2)
  · exact agree_fixed _ _ _ _ _ _ _ (by decide) h1 (cb_5 _ _ _ _ _ _ _ h2)
  · exact agree_fixed _ _ _ _ _ _ _ (by decide) h1 (cb_7 _ _ _ _ _ _ _ h2)
  · exact agree_fixed _ _ _ _ _ _ _ (by decide) h1 (cb_8 _ _ _ _ _ _ _ h2)
  · exact agree_fixed _ _ _ _ _ _ _ (by decide) h1 (cb_10 _ _ _ _ _ _ _ h2)
  · exact agree_fixed _ _ _ _ _ _ _ (by decide) h1 (cb_14 _ _ _ _ _ _ _ h2)
  · exact agree_fixed _ _ _ _ _ _ _ (by decide) h1 (cb_11 _ _ _ _ _ _ _ h2)
  · exact agree_fixed _ _ _ _ _ _ _ (by decide) h1 (cb_12 _ _ _ _ _ _ _ h2)
  · exact agree_varchar E data pos typ md u l l' v (Or.inl ht) h1 h2
  · exact agree_varchar E data pos typ md u l l' v (Or.inr ht) h1 h2
  · exact agree_16 E data pos md u l l' v h1 h2
  · exact agree_17 E data pos md u l l' v (hfsp (Or.inl rfl)) h1 h2
  · exact agree_18 E data pos md u l l' v (hfsp (Or.inr rfl)) h1 h2
  · exact agree_19 E data pos md u l l' v h1 h2
  · exact agree_246 E data pos md u l l' v h1 h2
  · exact agree_247 E data pos md u l l' v h1 h2
  · exact agree_248 E data pos md u l l' v h1 h2
  · exact agree_245 E data pos md u l l' v h1 h2
  · exact agree_blob E data pos typ md u l l' v (Or.inl ht) h1 h2
  · exact agree_blob E data pos typ md u l l' v (Or.inr (Or.inl ht)) h1 h2
  · exact agree_blob E data pos typ md u l l' v (Or.inr (Or.inr (Or.inl ht))) h1 h2
  · exact agree_blob E data pos typ md u l l' v (Or.inr (Or.inr (Or.inr ht))) h1 h2
  · exact agree_254 E data pos md u l l' v h1 h2
  · exact agree_255 E data pos md u l l' v h1 h2

end C09
end GV
